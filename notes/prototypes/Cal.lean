/-! Prototype (design phase): calendar + tax-year theorem. Core Lean only. -/

/-- Days since 1970-01-01 of a proleptic Gregorian date (Hinnant's `days_from_civil`). -/
def daysFromCivil (y m d : Int) : Int :=
  let y' := if m ≤ 2 then y - 1 else y
  let era := (if y' ≥ 0 then y' else y' - 399) / 400
  let yoe := y' - era * 400
  let mp := (m + 9) % 12
  let doy := (153 * mp + 2) / 5 + d - 1
  let doe := yoe * 365 + yoe / 4 - yoe / 100 + doy
  era * 146097 + doe - 719468

#eval daysFromCivil 1970 1 1      -- 0
#eval daysFromCivil 2024 3 1 - daysFromCivil 2024 2 1   -- 29
#eval daysFromCivil 2024 2 9 - daysFromCivil 2024 1 10  -- 30

/-- lexicographic ≤ on (year, month, day) -/
def dateLe (a b : Int × Int × Int) : Prop :=
  a.1 < b.1 ∨ (a.1 = b.1 ∧ (a.2.1 < b.2.1 ∨ (a.2.1 = b.2.1 ∧ a.2.2 ≤ b.2.2)))

/-- mirrors TaxPeriod::from_date: before 6 April → previous year -/
def taxYearStart (y m d : Int) : Int :=
  if m < 4 ∨ (m = 4 ∧ d < 6) then y - 1 else y

theorem taxYear_iff (y m d Y : Int) (hm : 1 ≤ m ∧ m ≤ 12) (hd : 1 ≤ d ∧ d ≤ 31) :
    taxYearStart y m d = Y ↔ dateLe (Y, 4, 6) (y, m, d) ∧ dateLe (y, m, d) (Y + 1, 4, 5) := by
  unfold taxYearStart dateLe
  simp only
  split <;> omega

/-- the MCP `explain_matching` formula -/
def mcpYear (y m d : Int) : Int :=
  if m < 4 ∨ (m = 4 ∧ d < 6) then y - 1 else y

theorem explain_year_agrees (y m d : Int) : mcpYear y m d = taxYearStart y m d := rfl

theorem year_unique (y m d Y Y' : Int) (hm : 1 ≤ m ∧ m ≤ 12) (hd : 1 ≤ d ∧ d ≤ 31)
    (h : dateLe (Y, 4, 6) (y, m, d) ∧ dateLe (y, m, d) (Y + 1, 4, 5))
    (h' : dateLe (Y', 4, 6) (y, m, d) ∧ dateLe (y, m, d) (Y' + 1, 4, 5)) : Y = Y' := by
  have := (taxYear_iff y m d Y hm hd).mpr h
  have := (taxYear_iff y m d Y' hm hd).mpr h'
  omega

#print axioms taxYear_iff
