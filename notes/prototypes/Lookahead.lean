/-! Prototype (design phase): the 30-day look-ahead over the remaining days of one security,
    with claims carried inside the list, and its accounting lemma. Core Lean only. -/

structure Day where
  ord : Int
  B : Rat          -- bought that day (0 if none)
  S : Rat          -- sold that day (all SELL lines)
  r : Rat          -- product of that day's split factors (1 if none)
  claimed : Rat    -- claims made by earlier disposals, in this day's units
deriving Repr

structure Leg where
  acq : Int
  qty : Rat
deriving Repr

def availFor (e : Day) : Rat := max 0 (e.B - min e.B e.S - e.claimed)

/-- mirrors match_bed_and_breakfast (after repairs F2/F3): `k` converts disposal-day units
    into the units of the day being looked at; a day's own split applies after its purchase. -/
def lookahead (d0 : Int) (w : Int) : Rat → Rat → List Day → (List Day × List Leg × Rat)
  | rem, _, [] => ([], [], rem)
  | rem, k, e :: rest =>
    if rem ≤ 0 then (e :: rest, [], rem)
    else if e.ord - d0 > w then (e :: rest, [], rem)
    else
      let a := availFor e
      if a > 0 then
        let ms := min rem (a / k)
        let mb := ms * k
        let r := lookahead d0 w (rem - ms) (k * e.r) rest
        ({ e with claimed := e.claimed + mb } :: r.1, { acq := e.ord, qty := ms } :: r.2.1, r.2.2)
      else
        let r := lookahead d0 w rem (k * e.r) rest
        (e :: r.1, r.2.1, r.2.2)

/-- claims converted back to the disposal's units -/
def outK : Rat → List Day → Rat
  | _, [] => 0
  | k, e :: rest => e.claimed / k + outK (k * e.r) rest

def legSum : List Leg → Rat
  | [] => 0
  | l :: ls => l.qty + legSum ls

def ratiosPos : List Day → Prop
  | [] => True
  | e :: rest => 0 < e.r ∧ ratiosPos rest

/-- what the look-ahead matched is exactly what it added to the outstanding claims -/
theorem lookahead_accounts (d0 w : Int) (fs : List Day) :
    ∀ (rem k : Rat), 0 < k → ratiosPos fs →
      let r := lookahead d0 w rem k fs
      outK k r.1 = outK k fs + (rem - r.2.2) ∧ legSum r.2.1 = rem - r.2.2 := by
  induction fs with
  | nil => intro rem k hk _; simp [lookahead, outK, legSum]; grind
  | cons e rest ih =>
    intro rem k hk hpos
    obtain ⟨her, hrest⟩ := hpos
    have hk' : 0 < k * e.r := Rat.mul_pos hk her
    simp only [lookahead]
    split
    · simp [outK, legSum]; grind
    · split
      · simp [outK, legSum]; grind
      · split
        · have h := ih (rem - min rem (availFor e / k)) (k * e.r) hk' hrest
          simp only [outK, legSum] at h ⊢
          have hk0 : k ≠ 0 := by grind
          have : (e.claimed + min rem (availFor e / k) * k) / k
                  = e.claimed / k + min rem (availFor e / k) := by grind
          grind
        · have h := ih rem (k * e.r) hk' hrest
          simp only [outK] at h ⊢
          grind

#print axioms lookahead_accounts
