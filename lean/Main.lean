import CgtModel.Driver

partial def loop (h : IO.FS.Stream) (out : IO.FS.Stream) : IO Unit := do
  let line ← h.getLine
  if line.isEmpty then return ()
  out.putStrLn (Cgt.Driver.respond line)
  out.flush
  loop h out

def main : IO Unit := do
  loop (← IO.getStdin) (← IO.getStdout)
