import CgtModel.Basic
import CgtModel.Calendar
import CgtModel.Tx
import CgtModel.Normalize
