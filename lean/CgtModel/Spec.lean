import CgtModel.Tx
/-! An independent exact-arithmetic evaluation of TCGA92 s105(1) (same day), s106A (30 days) and s104
    (pool), deliberately written in a different shape from the model of the code: three passes over a
    per-security table of days indexed by position — (1) same-day quantities, (2) the claims matrix
    filled disposal-major, acquisition-earliest-first, (3) the pool walk. It shares nothing with
    `Normalize`/`Days`/`Matcher` except `Rat` and the calendar. All of one day's acquisitions, and all
    of one day's disposals, are a single transaction (s105(1)(a), (b)). Cost events are ignored. -/
namespace Cgt.Spec
open Cgt

structure SDay where
  date : Date
  B : Rat := 0        -- shares acquired
  Bcost : Rat := 0    -- Σ (q·p + fees) of the day's acquisitions
  S : Rat := 0        -- shares disposed of
  Sgross : Rat := 0   -- Σ q·p of the day's disposals
  Sfees : Rat := 0
  r : Rat := 1        -- product of the day's split factors (applies after the day's trades)
deriving Repr, Inhabited

def factor : Op → Rat
  | .split r => r
  | .unsplit r => if r = 0 then 1 else 1 / r
  | _ => 1

def SDay.absorb (d : SDay) : Op → SDay
  | .buy q p f => { d with B := d.B + q, Bcost := d.Bcost + q * p + f }
  | .sell q p f => { d with S := d.S + q, Sgross := d.Sgross + q * p, Sfees := d.Sfees + f }
  | op => { d with r := d.r * factor op }

/-- insert a transaction into the date-ordered table -/
def insert (t : Tx) : List SDay → List SDay
  | [] => [({ date := t.date } : SDay).absorb t.op]
  | d :: ds =>
    if t.date.ord < d.date.ord then ({ date := t.date } : SDay).absorb t.op :: d :: ds
    else if t.date.ord = d.date.ord then d.absorb t.op :: ds
    else d :: insert t ds

def table (ticker : String) (l : List Tx) : List SDay :=
  (l.filter (fun t => t.ticker = ticker)).foldl (fun acc t => insert t acc) []

-- pass 1
def sameDay (d : SDay) : Rat := min d.B d.S

structure Claim where
  i : Nat      -- disposal day (index)
  j : Nat      -- acquisition day (index)
  x : Rat      -- shares, in day-i units
  xk : Rat     -- the same shares in day-j units
deriving Repr, Inhabited

def claimedOn (cs : List Claim) (j : Nat) : Rat := rsum ((cs.filter (fun c => c.j = j)).map (·.xk))

/-- pass 2, one row: disposal day `i` (date `di`) looks at the days after it, earliest first -/
def row (window : Int) (i : Nat) (di : Date) (cs : List Claim) :
    Nat → Rat → Rat → List SDay → List Claim
  | _, _, _, [] => []
  | j, rem, k, e :: rest =>
    if rem ≤ 0 then []
    else if e.date.ord - di.ord > window then []
    else
      let free := e.B - sameDay e - claimedOn cs j
      if free > 0 then
        let x := min rem (free / k)
        ⟨i, j, x, x * k⟩ :: row window i di cs (j + 1) (rem - x) (k * e.r) rest
      else row window i di cs (j + 1) rem (k * e.r) rest

/-- pass 2: all rows, disposal-major -/
def claims (window : Int) : Nat → List Claim → List SDay → List Claim
  | _, cs, [] => cs
  | i, cs, d :: rest =>
    let rem := d.S - sameDay d
    let new := if d.S > 0 then row window i d.date cs (i + 1) rem d.r rest else []
    claims window (i + 1) (cs ++ new) rest

structure SLeg where
  rule : Rule
  qty : Rat
  cost : Rat
  acq : Option Date
deriving Repr, Inhabited

structure SDisposal where
  date : Date
  qty : Rat
  gross : Rat
  net : Rat
  gain : Rat
  legs : List SLeg
deriving Repr, Inhabited

def unitCost (d : SDay) : Rat := if d.B = 0 then 0 else d.Bcost / d.B

def dayAt (tbl : List SDay) (j : Nat) : SDay := tbl.getD j { date := ⟨0, 1, 1⟩ }

/-- pass 3: walk the days with the pool -/
def walk (tbl : List SDay) (cs : List Claim) : Nat → Rat → Rat → List SDay → List SDisposal × Rat × Rat
  | _, pq, pc, [] => ([], pq, pc)
  | i, pq, pc, d :: rest =>
    let sd := sameDay d
    let mine := cs.filter (fun c => c.i = i)
    let bnb := rsum (mine.map (·.x))
    let fromPool := d.S - sd - bnb
    let poolCost := if pq = 0 then 0 else fromPool * (pc / pq)
    let legs : List SLeg :=
      (if sd > 0 then [⟨.sameDay, sd, sd * unitCost d, some d.date⟩] else []) ++
      mine.map (fun c => ⟨.bedAndBreakfast, c.x, c.xk * unitCost (dayAt tbl c.j), some (dayAt tbl c.j).date⟩) ++
      (if fromPool > 0 then [⟨.section104, fromPool, poolCost, none⟩] else [])
    let cost := rsum (legs.map (·.cost))
    let net := d.Sgross - d.Sfees
    let disp : List SDisposal :=
      if d.S > 0 then [{ date := d.date, qty := d.S, gross := d.Sgross, net := net, gain := net - cost, legs := legs }] else []
    -- what is left of the day's acquisition joins the pool after the day's disposals
    let keep := d.B - sd - claimedOn cs i
    let pq1 := pq - (if fromPool > 0 then fromPool else 0) + keep
    let pc1 := pc - (if fromPool > 0 then poolCost else 0) + keep * unitCost d
    let r := walk tbl cs (i + 1) (pq1 * d.r) pc1 rest
    (disp ++ r.1, r.2.1, r.2.2)

structure Result where
  ticker : String
  disposals : List SDisposal
  poolQ : Rat
  poolC : Rat
deriving Repr, Inhabited

def identify (window : Int) (ticker : String) (l : List Tx) : Result :=
  let tbl := table ticker l
  let cs := claims window 0 [] tbl
  let w := walk tbl cs 0 0 0 tbl
  { ticker := ticker, disposals := w.1, poolQ := w.2.1, poolC := w.2.2 }

def tickers (l : List Tx) : List String := (l.map (·.ticker)).eraseDups

def identifyAll (window : Int) (l : List Tx) : List Result :=
  (tickers l).map (fun t => identify window t l)

end Cgt.Spec
