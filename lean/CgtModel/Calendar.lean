import CgtModel.Generated
namespace Cgt

structure Date where
  y : Int
  m : Int
  d : Int
deriving DecidableEq, Repr, Inhabited

def isLeap (y : Int) : Bool := (y % 4 = 0 ∧ y % 100 ≠ 0) ∨ y % 400 = 0

def daysInMonth (y m : Int) : Int :=
  if m = 2 then (if isLeap y then 29 else 28)
  else if m = 4 ∨ m = 6 ∨ m = 9 ∨ m = 11 then 30 else 31

def Date.valid (t : Date) : Bool :=
  1 ≤ t.m ∧ t.m ≤ 12 ∧ 1 ≤ t.d ∧ t.d ≤ daysInMonth t.y t.m

/-- Days since 1970-01-01 of a proleptic Gregorian date (days_from_civil). -/
def daysFromCivil (y m d : Int) : Int :=
  let y' := if m ≤ 2 then y - 1 else y
  let era := (if y' ≥ 0 then y' else y' - 399) / 400
  let yoe := y' - era * 400
  let mp := (m + 9) % 12
  let doy := (153 * mp + 2) / 5 + d - 1
  let doe := yoe * 365 + yoe / 4 - yoe / 100 + doy
  era * 146097 + doe - 719468

/-- chrono `NaiveDate::num_days_from_ce` (0001-01-01 is day 1) -/
def Date.ord (t : Date) : Int := daysFromCivil t.y t.m t.d + 719163

/-- lexicographic ≤ on (year, month, day) -/
def Date.le (a b : Date) : Prop :=
  a.y < b.y ∨ (a.y = b.y ∧ (a.m < b.m ∨ (a.m = b.m ∧ a.d ≤ b.d)))

instance (a b : Date) : Decidable (Date.le a b) := by unfold Date.le; infer_instance

/-- mirrors `TaxPeriod::from_date` before the range check: before the boundary → previous year -/
def taxYearStart (t : Date) : Int :=
  if t.m < taxYearStartMonth ∨ (t.m = taxYearStartMonth ∧ t.d < taxYearStartDay) then t.y - 1 else t.y

inductive TaxYearErr | invalidDateYear (y : Int) | invalidTaxYear (y : Int)
deriving DecidableEq, Repr

/-- `TaxPeriod::from_date`: u16 conversion, then the 1900..=2100 range check -/
def taxYearOf (t : Date) : Except TaxYearErr Int :=
  let s := taxYearStart t
  if s < 0 ∨ s > 65535 then .error (.invalidDateYear s)
  else if s < taxYearMin ∨ s > taxYearMax then .error (.invalidTaxYear s)
  else .ok s

end Cgt
/-! Civil dates and their ordinal (chrono's `num_days_from_ce`), tax year of a date. -/
