import CgtModel.Generated
/-! `awards.rs`: the (symbol, vest date) → market value map built from an awards file, and the look-up
    used for RSU deposits: the deposit date itself, else the closest earlier date at most
    `rsuLookbackDays` days before it. Dates are ordinals. -/
namespace Cgt.Awards

abbrev Entry := (String × Int) × Rat

/-- `HashMap::get` after a sequence of inserts: the last insert for the key -/
def getE (es : List Entry) (sym : String) (ord : Int) : Option Rat :=
  (es.reverse.find? (fun e => e.1 = (sym, ord))).map (·.2)

/-- `for days_back in k ..= …` with `fuel` iterations left -/
def lookback (es : List Entry) (sym : String) (d : Int) : Int → Nat → Option (Int × Rat)
  | _, 0 => none
  | k, fuel + 1 =>
    match getE es sym (d - k) with
    | some p => some (d - k, p)
    | none => lookback es sym d (k + 1) fuel

/-- `get_fmv` (the symbol is upper-cased first) -/
def lookup (es : List Entry) (symbol : String) (d : Int) : Option (Int × Rat) :=
  let sym := symbol.toUpper
  match getE es sym d with
  | some p => some (d, p)
  | none => lookback es sym d rsuLookbackFrom (rsuLookbackDays - rsuLookbackFrom + 1).toNat

/-- one `Details` object after decoding: vest date (if given), vest market value (`some none` = the
    field is present but blank/`--`), fallback price -/
structure Detail where
  vestDate : Option Int
  vestFmv : Option (Option Rat)
  fmvPrice : Option (Option Rat)
deriving Repr, Inhabited

inductive ActionKind | vesting | nonVesting | unknown
deriving DecidableEq, Repr, Inhabited

structure Award where
  date : Int
  action : ActionKind
  symbol : String
  details : List Detail
deriving Repr, Inhabited

/-- `extract_award_fmv` → (date, value, is_vest) -/
def extract (parent : Int) (d : Detail) : Option Int × Option Rat × Bool :=
  match d.vestFmv with
  | some v => (some (d.vestDate.getD parent), v, true)
  | none =>
    match d.fmvPrice with
    | some v => (some parent, v, false)
    | none => (none, none, false)

structure Acc where
  entries : List Entry
  fallback : Option (Int × Rat)
  inserted : Bool

def detailStep (sym : String) (parent : Int) (a : Acc) (d : Detail) : Acc :=
  match extract parent d with
  | (some date, some v, isVest) =>
    let a1 := if isVest then { a with entries := a.entries ++ [((sym, date), v)], inserted := true } else a
    if a1.fallback.isNone then { a1 with fallback := some (date, v) } else a1
  | _ => a

/-- entries an award contributes; `none` = the file is rejected (vesting action without details) -/
def awardEntries (es : List Entry) (a : Award) : Option (List Entry) :=
  if a.details.isEmpty then
    if a.action = .vesting then none else some es
  else
    let sym := a.symbol.toUpper
    let r := a.details.foldl (detailStep sym a.date) ⟨es, none, false⟩
    if !r.inserted then
      match r.fallback with
      | some (date, v) => some (r.entries ++ [((sym, date), v)])
      | none => some r.entries
    else some r.entries

def build : List Entry → List Award → Option (List Entry)
  | es, [] => some es
  | es, a :: as =>
    match awardEntries es a with
    | none => none
    | some es' => build es' as

end Cgt.Awards
