import CgtModel.Wire
/-! One request line in, one response line out. -/
namespace Cgt.Driver
open Cgt Cgt.Wire

def respond (line : String) : String :=
  match line.trimAscii.toString.splitOn " " with
  | "match" :: txs =>
    match parseAll parseTx? (txs.filter (· ≠ "")) with
    | none => "bad-request"
    | some l =>
      match run bnbWindowDays l with
      | .error e => showMErr l e
      | .ok rs => showMatch rs
  | "calc" :: year :: ex :: txs =>
    match parseAll parseTx? (txs.filter (· ≠ "")), parseExemptions? ex with
    | some l, some ex =>
      let y? : Option (Option Int) := if year = "-" then some none else (parseInt? year).map some
      match y? with
      | none => "bad-request"
      | some y =>
        match calculate bnbWindowDays disposalRoundDp ex y l with
        | .error e => showCalcErr l e
        | .ok r => showReport r
    | _, _ => "bad-request"
  | ["ord", d] =>
    match parseDate? d with
    | some d => s!"ok {d.ord} {if d.valid then 1 else 0}"
    | none => "bad-request"
  | ["taxyear", d] =>
    match parseDate? d with
    | some d =>
      match taxYearOf d with
      | .ok y => s!"ok {y}"
      | .error (.invalidDateYear y) => s!"err invalidDateYear {y}"
      | .error (.invalidTaxYear y) => s!"err invalidTaxYear {y}"
    | none => "bad-request"
  | _ => "bad-request"

end Cgt.Driver
