import CgtModel.Wire
/-! One request line in, one response line out. -/
namespace Cgt.Driver
open Cgt Cgt.Wire

def parseRule? : String → Option Rule
  | "SameDay" => some .sameDay
  | "BedAndBreakfast" => some .bedAndBreakfast
  | "Section104" => some .section104
  | _ => none

/-- `L,<ticker>,<selldate>,<rule>,<qty>,<cost>,<gross>,<net>,<gain>,<acq|->` -/
def parseLegTok? (s : String) : Option (String × Leg) :=
  match s.splitOn "," with
  | ["L", tk, sd, rule, q, c, g, n, gn, acq] =>
    match parseDate? sd, parseRule? rule, parseRat? q, parseRat? c, parseRat? g, parseRat? n, parseRat? gn with
    | some sd, some rule, some q, some c, some g, some n, some gn =>
      let acq? : Option (Option Date) := if acq = "-" then some none else (parseDate? acq).map some
      acq?.map (fun a => (tk, { sellDate := sd, rule := rule, qty := q, cost := c, gross := g, net := n, gain := gn, acq := a }))
    | _, _, _, _, _, _, _ => none
  | _ => none

def parseHoldTok? (s : String) : Option (String × Pool) :=
  match s.splitOn "," with
  | ["H", tk, q, c] =>
    match parseRat? q, parseRat? c with
    | some q, some c => some (tk, ⟨q, c⟩)
    | _, _ => none
  | _ => none

def addLegTo (tk : String) (l : Leg) : List TickerResult → List TickerResult
  | [] => [{ ticker := tk, pool := none, legs := [l] }]
  | r :: rs => if r.ticker = tk then { r with legs := r.legs ++ [l] } :: rs else r :: addLegTo tk l rs

def addHoldTo (tk : String) (p : Pool) : List TickerResult → List TickerResult
  | [] => [{ ticker := tk, pool := some p, legs := [] }]
  | r :: rs => if r.ticker = tk then { r with pool := some p } :: rs else r :: addHoldTo tk p rs

/-- the implementation's matcher output (legs, holdings) and the input lines, for `reportFrom` -/
def parseMatchOutput (toks : List String) : Option (List TickerResult × List Tx) :=
  toks.foldl (fun acc tok =>
    match acc with
    | none => none
    | some (rs, txs) =>
      if tok.startsWith "L," then (parseLegTok? tok).map (fun (tk, l) => (addLegTo tk l rs, txs))
      else if tok.startsWith "H," then (parseHoldTok? tok).map (fun (tk, p) => (addHoldTo tk p rs, txs))
      else (parseTx? tok).map (fun t => (rs, txs ++ [t]))) (some ([], []))

def respond (line : String) : String :=
  match line.trimAscii.toString.splitOn " " with
  | "match" :: txs =>
    match parseAll parseTx? (txs.filter (· ≠ "")) with
    | none => "bad-request"
    | some l =>
      match run bnbWindowDays l with
      | .error e => showMErr l e
      | .ok rs => showMatch rs
  | "eff" :: txs =>
    -- per security: Σ purchases (q·p + fees) and the signed amounts of the cost events that took effect
    match parseAll parseTx? (txs.filter (· ≠ "")) with
    | none => "bad-request"
    | some l =>
      let pre := preprocess l
      "ok" ++ String.join ((tickersOf pre).map (fun t =>
        s!" {t}:{showRat (purchasesOf (daysOf t pre))}:{showRat (effAll t [] (daysOf t pre))}"))
  | "class" :: "negativeLot" :: txs =>
    -- known-finding class D6: the cost pre-pass leaves some purchase with negative adjusted cost
    match parseAll parseTx? (txs.filter (· ≠ "")) with
    | none => "bad-request"
    | some l =>
      let pre := preprocess l
      let hit := (tickersOf pre).any (fun t =>
        match prepass t [] (daysOf t pre) with
        | .ok lots => lots.any (fun x => decide (x.adjCost < 0))
        | .error _ => false)
      if hit then "yes" else "no"
  | "fx" :: cache :: txs =>
    match parseCache? cache, parseAll parseCTx? (txs.filter (· ≠ "")) with
    | some c, some l =>
      match toGbpAll c l with
      | .error e => s!"err missingFxRate {e.cur} {e.y} {e.m}"
      | .ok out => "ok" ++ String.join (out.map (fun t => " T " ++ showOpWire t))
    | _, _ => "bad-request"
  | "fxload" :: bundled :: queries :: files =>
    match parseCache? bundled, parseAll parseKey? (queries.splitOn ";"), parseAll parseRateFile? (files.filter (· ≠ "")) with
    | some b, some qs, some fs =>
      match loadCache b fs with
      | .error e => s!"err {showLoadErr e}"
      | .ok c => "ok" ++ String.join (qs.map (fun k => match c.get k with | some r => " " ++ showRat r | none => " -"))
    | _, _, _ => "bad-request"
  | ["parse", valid, hex] =>
    match unhex6 hex.toList with
    | none => "bad-request"
    | some text =>
      let codes := if valid = "-" then [] else valid.splitOn ";"
      match Dsl.parse codes text with
      | .error e => showParseErr e
      | .ok ts => s!"ok {ts.length}" ++ String.join (ts.map (fun t => " " ++ showDTx t))
  | ["tojson", tx] =>
    match parseDTx? tx with
    | some t => "ok " ++ showJV (Json.toJ t)
    | none => "bad-request"
  | ["fromjson", valid, jv] =>
    match parseJV? jv with
    | none => "bad-request"
    | some v =>
      let codes := if valid = "-" then [] else valid.splitOn ";"
      match Json.fromJ codes v with
      | .ok t => "ok " ++ showDTx t
      | .reject => "reject"
      | .unmodelled => "unmodelled"
  | "write" :: txs =>
    match parseAll parseDTx? (txs.filter (· ≠ "")) with
    | none => "bad-request"
    | some ts => "ok " ++ hex6 (Dsl.write ts)
  | "awards" :: sym :: ord :: aws =>
    match parseInt? ord, parseAll parseAward? (aws.filter (· ≠ "")) with
    | some d, some as =>
      match Awards.build [] as with
      | none => "reject"
      | some es =>
        match Awards.lookup es sym d with
        | some (v, p) => s!"ok {v} {showRat p}"
        | none => "none"
    | _, _ => "bad-request"
  | ["fmtgbp", x] =>
    match parseRat? x with
    | some r => "ok " ++ hex6 (Format.fmtGbp r).toList
    | none => "bad-request"
  | ["fmtcur", code, minor, x] =>
    match minor.toNat?, parseRat? x with
    | some k, some r => "ok " ++ hex6 (Format.fmtCurrencyAmount code k r).toList
    | _, _ => "bad-request"
  | ["jsonmoney", lit] =>
    -- decimal literal with optional sign: the scale is the number of fraction digits written
    let neg := lit.startsWith "-"
    let body := if neg then (lit.drop 1).toString else lit
    match body.splitOn "." with
    | [i] =>
      match i.toNat? with
      | some _ => "ok " ++ hex6 lit.toList
      | none => "bad-request"
    | [i, f] =>
      match (i ++ f).toNat? with
      | some n =>
        let x : Rat := (if neg then -1 else 1) * ((n : Rat) / ((10 ^ f.length : Nat) : Rat))
        "ok " ++ hex6 (Format.jsonMoney jsonMoneyHalfAway x f.length lit).toList
      | none => "bad-request"
    | _ => "bad-request"
  | ["taxyearfmt", y] =>
    match y.toNat? with
    | some y => "ok " ++ hex6 (Format.fmtTaxYear y).toList
    | none => "bad-request"
  | "validate" :: txs =>
    match parseAll parseTx? (txs.filter (· ≠ "")) with
    | none => "bad-request"
    | some l => s!"ok {(validateErrors l).length}"
  | "schwab" :: rows =>
    match parseAll parseRow? (rows.filter (· ≠ "")) with
    | none => "bad-request"
    | some rs =>
      let o := Schwab.convert rs
      s!"ok {o.skipped} {o.warnings}" ++ String.join (o.items.map (fun i => " " ++ showItem i))
  | "spec" :: txs =>
    match parseAll parseTx? (txs.filter (· ≠ "")) with
    | none => "bad-request"
    | some l => showSpec (Spec.identifyAll bnbWindowDays l)
  | "calc" :: year :: ex :: txs =>
    match parseAll parseTx? (txs.filter (· ≠ "")), parseExemptions? ex with
    | some l, some ex =>
      let y? : Option (Option Int) := if year = "-" then some none else (parseInt? year).map some
      match y? with
      | none => "bad-request"
      | some y =>
        match calculate bnbWindowDays disposalRoundDp ex y l with
        | .error e => showCalcErr l e
        | .ok r => showReport r
    | _, _ => "bad-request"
  | "report" :: year :: ex :: toks =>
    match parseMatchOutput (toks.filter (· ≠ "")), parseExemptions? ex with
    | some (rs, l), some ex =>
      let y? : Option (Option Int) := if year = "-" then some none else (parseInt? year).map some
      match y? with
      | none => "bad-request"
      | some y =>
        match reportFrom disposalRoundDp ex y l rs with
        | .error e => showCalcErr l e
        | .ok r => showReport r
    | _, _ => "bad-request"
  | "cfg" :: year :: files =>
    -- files in override_paths() order; "!" = absent or unparseable, otherwise k=v;k=v ("-" = empty table)
    match parseInt? year, parseAll (fun f => if f = "!" then some none else (parseExemptions? f).map (fun t => some (t.filter (fun e => u16Key e.1)))) files with
    | some y, some fs =>
      match lookupExemption (loadWithOverrides exemptions (fs : List OverrideFile)) y with
      | some a => s!"ok {showRat a}"
      | none => "none"
    | _, _ => "bad-request"
  | ["ord", d] =>
    match parseDate? d with
    | some d => s!"ok {d.ord} {if d.valid then 1 else 0}"
    | none => "bad-request"
  | ["taxyear", d] =>
    match parseDate? d with
    | some d =>
      match taxYearOf d with
      | .ok y => s!"ok {y}"
      | .error (.invalidDateYear y) => s!"err invalidDateYear {y}"
      | .error (.invalidTaxYear y) => s!"err invalidTaxYear {y}"
    | none => "bad-request"
  | _ => "bad-request"

end Cgt.Driver
