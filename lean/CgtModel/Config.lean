import CgtModel.Report
/-! Exemption configuration (config.rs): the embedded table, then each override file that exists and
    parses, merged with `HashMap::extend` (an override's years replace or add; everything else is kept).
    An override file that does not parse as TOML is ignored; a key that is not a `u16` is dropped. -/
namespace Cgt

/-- one override file as `Config::from_toml` sees it: `none` = absent or not parseable -/
abbrev OverrideFile := Option (List (Int × Rat))

/-- `HashMap::extend`: the override's entries shadow the base's (lookup takes the first match) -/
def extendTable (base over : List (Int × Rat)) : List (Int × Rat) := over ++ base

/-- `Config::load_with_overrides` over the files in `override_paths()` order -/
def loadWithOverrides (embedded : List (Int × Rat)) (files : List OverrideFile) : List (Int × Rat) :=
  files.foldl (fun c f => match f with | none => c | some o => extendTable c o) embedded

/-- keys that `k.parse::<u16>()` accepts -/
def u16Key (k : Int) : Bool := 0 ≤ k ∧ k ≤ 65535

end Cgt
