import CgtModel.Tx
/-! FX: amounts carry a currency; conversion divides by the rate of (that currency, the transaction's
    own year and month); the loader merges bundled rates with folder files in modification-time order. -/
namespace Cgt

structure CAmt where
  amt : Rat
  cur : String
deriving DecidableEq, Repr, Inhabited

inductive COp
  | buy (q : Rat) (p f : CAmt)
  | sell (q : Rat) (p f : CAmt)
  | dividend (v t : CAmt)
  | accumulation (q : Rat) (v t : CAmt)
  | capreturn (q : Rat) (v f : CAmt)
  | split (r : Rat)
  | unsplit (r : Rat)
deriving DecidableEq, Repr, Inhabited

structure CTx where
  date : Date
  ticker : String
  op : COp
deriving DecidableEq, Repr, Inhabited

abbrev RateKey := String × Int × Int
/-- the cache as an association list; the first entry for a key is the one in force -/
abbrev Cache := List (RateKey × Rat)

def Cache.get (c : Cache) (k : RateKey) : Option Rat := (c.find? (fun e => e.1 = k)).map (·.2)

/-- `HashMap::insert` of a batch: later entries replace earlier ones -/
def Cache.extend (c : Cache) (entries : List (RateKey × Rat)) : Cache := entries.reverse ++ c

structure FxErr where
  cur : String
  y : Int
  m : Int
deriving DecidableEq, Repr, Inhabited

/-- `amount_to_gbp` -/
def toGbpAmt (c : Cache) (d : Date) (a : CAmt) : Except FxErr Rat :=
  if a.cur = "GBP" then .ok a.amt
  else if a.amt = 0 then .ok 0          -- a zero amount needs no rate
  else match c.get (a.cur, d.y, d.m) with
    | some r => .ok (a.amt / r)
    | none => .error ⟨a.cur, d.y, d.m⟩

def pair (x : Except FxErr Rat) (y : Except FxErr Rat) : Except FxErr (Rat × Rat) :=
  match x with
  | .error e => .error e
  | .ok a => match y with
    | .error e => .error e
    | .ok b => .ok (a, b)

/-- `Operation::to_gbp`: fields in declaration order, the first missing rate is the error -/
def toGbpOp (c : Cache) (d : Date) : COp → Except FxErr Op
  | .buy q p f => (pair (toGbpAmt c d p) (toGbpAmt c d f)).map (fun x => .buy q x.1 x.2)
  | .sell q p f => (pair (toGbpAmt c d p) (toGbpAmt c d f)).map (fun x => .sell q x.1 x.2)
  | .dividend v t => (pair (toGbpAmt c d v) (toGbpAmt c d t)).map (fun x => .dividend x.1 x.2)
  | .accumulation q v t => (pair (toGbpAmt c d v) (toGbpAmt c d t)).map (fun x => .accumulation q x.1 x.2)
  | .capreturn q v f => (pair (toGbpAmt c d v) (toGbpAmt c d f)).map (fun x => .capreturn q x.1 x.2)
  | .split r => .ok (.split r)
  | .unsplit r => .ok (.unsplit r)

def toGbpTx (c : Cache) (t : CTx) : Except FxErr Tx :=
  (toGbpOp c t.date t.op).map (fun op => { date := t.date, ticker := t.ticker, op := op })

/-- `transactions_to_gbp`: in input order, first failure wins -/
def toGbpAll (c : Cache) : List CTx → Except FxErr (List Tx)
  | [] => .ok []
  | t :: ts =>
    match toGbpTx c t with
    | .error e => .error e
    | .ok x =>
      match toGbpAll c ts with
      | .error e => .error e
      | .ok xs => .ok (x :: xs)

-- ---------------------------------------------------------------------------------------------
-- loader

/-- a rates file after XML decoding: the (year, month) its name promises (`none`: the name does not
    parse or month ∉ 1..12), the (year, month) of its Period attribute (`none`: invalid), its rows -/
structure RateFileM where
  expected : Option (Int × Int)
  period : Option (Int × Int)
  mtime : Nat
  rows : List (String × Rat)
deriving Repr, Inhabited

inductive LoadErr
  | invalidFileName
  | invalidPeriod
  | periodMismatch
  | nonPositiveRate (code : String)
deriving DecidableEq, Repr, Inhabited

def checkRows : List (String × Rat) → Option String
  | [] => none
  | (code, r) :: rest => if r ≤ 0 then some code else checkRows rest

/-- `parse_monthly_rates` with `expected_year_month` (the file-name check comes first in the loader) -/
def loadFile (f : RateFileM) : Except LoadErr (List (RateKey × Rat)) :=
  match f.expected with
  | none => .error .invalidFileName
  | some e =>
    match f.period with
    | none => .error .invalidPeriod
    | some p =>
      if p ≠ e then .error .periodMismatch
      else match checkRows f.rows with
        | some code => .error (.nonPositiveRate code)
        | none => .ok (f.rows.map (fun r => ((r.1, p.1, p.2), r.2)))

def insertByMtime (f : RateFileM) : List RateFileM → List RateFileM
  | [] => [f]
  | g :: gs => if f.mtime < g.mtime then f :: g :: gs else g :: insertByMtime f gs

/-- stable sort by modification time (`sort_by_key`) -/
def sortByMtime (fs : List RateFileM) : List RateFileM := fs.foldl (fun acc f => insertByMtime f acc) []

def loadFiles (c : Cache) : List RateFileM → Except LoadErr Cache
  | [] => .ok c
  | f :: fs =>
    match loadFile f with
    | .error e => .error e
    | .ok entries => loadFiles (c.extend entries) fs

/-- `load_cache_with_folder_files`: bundled first, then the folder files in modification-time order -/
def loadCache (bundled : Cache) (files : List RateFileM) : Except LoadErr Cache :=
  loadFiles bundled (sortByMtime files)

end Cgt
