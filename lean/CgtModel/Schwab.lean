import CgtModel.Basic
/-! `schwab/mod.rs` after JSON decoding: rows → emitted items (withholding aggregation, deferred
    cancellations, stable chronological sort with comments first), skipped count, warnings. -/
namespace Cgt.Schwab

inductive Row
  | buy (d : Int) (sym : String) (q p : Rat) (f : Option Rat)
  | sell (d : Int) (sym : String) (q p : Rat) (f : Option Rat)
  | cancelSell (d : Int) (sym : String) (q p : Rat)
  | dividend (d : Int) (sym : String) (amt : Option Rat)
  | nra (d : Int) (sym : Option String) (amt : Option Rat)
  | split (d : Int) (sym : String)
  | nonCgt
  | unknown
deriving DecidableEq, Repr, Inhabited

inductive Item
  | buy (d : Int) (sym : String) (q p f : Rat)
  | sell (d : Int) (sym : String) (q p f : Rat)
  | dividend (d : Int) (sym : String) (amt tax : Rat)
  | comment
deriving DecidableEq, Repr, Inhabited

def Item.key : Item → Option Int
  | .buy d .. | .sell d .. | .dividend d .. => some d
  | .comment => none

/-- first pass: |amount| of every withholding row that has a symbol and an amount, per (date, symbol) -/
def taxFor (rows : List Row) (d : Int) (sym : String) : Rat :=
  rsum (rows.filterMap (fun r => match r with
    | .nra d' (some s) (some a) => if d' = d ∧ s = sym then some (rabs a) else none
    | _ => none))

/-- is there a dividend row with an amount on that date and symbol (to carry the day's withholding)? -/
def hasDividend (rows : List Row) (d : Int) (sym : String) : Bool :=
  rows.any (fun r => match r with
    | .dividend d' s (some _) => d' = d ∧ s = sym
    | _ => false)

structure St where
  items : List Item := []
  skipped : Nat := 0
  warnings : Nat := 0
  cancels : List (Int × String × Rat × Rat) := []
  taxUsed : List (Int × String) := []

/-- the fee an emitted line carries: the row's "Fees & Comm" when positive; absent, zero or negative → none
    (`format_trade` writes a FEES clause only for a positive amount; the DSL has no signed amounts) -/
def feeOf (f : Option Rat) : Rat := if f.getD 0 > 0 then f.getD 0 else 0

/-- second pass, one row (`dividend_taxes.remove`: only the first dividend of a (date, symbol) gets the tax) -/
def step (all : List Row) (s : St) : Row → St
  | .buy d sym q p f => { s with items := s.items ++ [.buy d sym q p (feeOf f)] }
  | .sell d sym q p f => { s with items := s.items ++ [.sell d sym q p (feeOf f)] }
  | .cancelSell d sym q p => { s with cancels := s.cancels ++ [(d, sym, q, p)] }
  | .dividend d sym (some a) =>
    let first := !(s.taxUsed.contains (d, sym))
    { s with items := s.items ++ [.dividend d sym (rabs a) (if first then taxFor all d sym else 0)],
             taxUsed := s.taxUsed ++ [(d, sym)] }
  -- a dividend row without an amount, and a withholding row that names a symbol but finds no dividend to
  -- carry it (or has no amount), yield no line: a comment, a warning and the skipped count say so
  | .dividend _ _ none => { s with items := s.items ++ [.comment], skipped := s.skipped + 1, warnings := s.warnings + 1 }
  | .nra d (some sym) a =>
    if a.isSome ∧ hasDividend all d sym then s
    else { s with items := s.items ++ [.comment], skipped := s.skipped + 1, warnings := s.warnings + 1 }
  -- a withholding row without a symbol is ignored (an existing test of the repository pins that)
  | .nra _ none _ => s
  | .split .. => { s with items := s.items ++ [.comment], skipped := s.skipped + 1 }
  | .nonCgt => { s with skipped := s.skipped + 1 }
  | .unknown => { s with items := s.items ++ [.comment], skipped := s.skipped + 1, warnings := s.warnings + 1 }

def matchesCancel (c : Int × String × Rat × Rat) : Item → Bool
  | .sell d sym q p _ => d = c.1 ∧ sym = c.2.1 ∧ q = c.2.2.1 ∧ p = c.2.2.2
  | _ => false

/-- remove the first sell identical to the cancellation -/
def removeFirst (c : Int × String × Rat × Rat) : List Item → Option (List Item)
  | [] => none
  | x :: xs => if matchesCancel c x then some xs else (removeFirst c xs).map (x :: ·)

def applyCancels : List (Int × String × Rat × Rat) → List Item × Nat → List Item × Nat
  | [], r => r
  | c :: cs, (items, w) =>
    match removeFirst c items with
    | some items' => applyCancels cs (items', w)
    | none => applyCancels cs (items, w + 1)

def keyLe (a b : Item) : Bool :=
  match a.key, b.key with
  | none, _ => true
  | some _, none => false
  | some x, some y => x ≤ y

structure Out where
  items : List Item
  skipped : Nat
  warnings : Nat
deriving Repr

def convert (rows : List Row) : Out :=
  let s := rows.foldl (step rows) {}
  let (items, w) := applyCancels s.cancels (s.items, s.warnings)
  { items := items.mergeSort keyLe, skipped := s.skipped, warnings := w }

end Cgt.Schwab
