import CgtModel.Report
import CgtModel.Config
import CgtModel.Spec
import CgtModel.Fx
import CgtModel.Dsl
import CgtModel.Awards
import CgtModel.Format
import CgtModel.Validate
import CgtModel.Schwab
import CgtModel.Json
/-! Line protocol: token parsers and printers shared by all driver commands. -/
namespace Cgt.Wire
open Cgt

def parseInt? (s : String) : Option Int := s.toInt?

def parseRat? (s : String) : Option Rat :=
  match s.splitOn "/" with
  | [n] => (parseInt? n).map (fun i => (i : Rat))
  | [n, d] =>
    match parseInt? n, d.toNat? with
    | some i, some k => if k = 0 then none else some ((i : Rat) / (k : Rat))
    | _, _ => none
  | _ => none

def parseDate? (s : String) : Option Date :=
  match s.splitOn "-" with
  | [y, m, d] =>
    match y.toNat?, m.toNat?, d.toNat? with
    | some y, some m, some d => some ⟨y, m, d⟩
    | _, _, _ => none
  | _ => none

def parseTx? (s : String) : Option Tx :=
  match s.splitOn "," with
  | [dt, tk, k, a, b, c] =>
    match parseDate? dt, parseRat? a, parseRat? b, parseRat? c with
    | some dt, some a, some b, some c =>
      let op? : Option Op :=
        match k with
        | "B" => some (.buy a b c)
        | "S" => some (.sell a b c)
        | "D" => some (.dividend a b)
        | "A" => some (.accumulation a b c)
        | "C" => some (.capreturn a b c)
        | "X" => some (.split a)
        | "U" => some (.unsplit a)
        | _ => none
      op?.map (fun op => { date := dt, ticker := tk, op := op })
    | _, _, _, _ => none
  | _ => none

def parseAll (f : String → Option α) : List String → Option (List α)
  | [] => some []
  | s :: ss =>
    match f s, parseAll f ss with
    | some a, some as => some (a :: as)
    | _, _ => none

def parseExemptions? (s : String) : Option (List (Int × Rat)) :=
  if s = "-" then some []
  else parseAll (fun kv =>
    match kv.splitOn "=" with
    | [k, v] =>
      match parseInt? k, parseRat? v with
      | some k, some v => some (k, v)
      | _, _ => none
    | _ => none) (s.splitOn ";")

def showRat (r : Rat) : String := s!"#{r.num}/{r.den}"
def pad2 (n : Int) : String := if n < 10 ∧ n ≥ 0 then s!"0{n}" else s!"{n}"
def showDate (d : Date) : String := s!"{d.y}-{pad2 d.m}-{pad2 d.d}"
def showRule : Rule → String
  | .sameDay => "SameDay" | .bedAndBreakfast => "BedAndBreakfast" | .section104 => "Section104"
def showKind : ErrKind → String
  | .capReturnExceedsCost => "capReturnExceedsCost"
  | .reservationExceedsBuy => "reservationExceedsBuy"
  | .exceedsHolding => "exceedsHolding"
  | .noPriorAcquisition => "noPriorAcquisition"
  | .unmatched => "unmatched"

def showLeg (l : Leg) : String :=
  let acq := match l.acq with | some d => showDate d | none => "-"
  s!"{showDate l.sellDate} {showRule l.rule} {showRat l.qty} {showRat l.cost} {showRat l.gross} {showRat l.net} {showRat l.gain} {acq}"

def showPool : Option Pool → String
  | some p => s!"P {showRat p.q} {showRat p.c}"
  | none => "N"

def ofOrdIn (l : List Tx) (ord : Int) : String :=
  match l.find? (fun t => t.ord = ord) with
  | some t => showDate t.date
  | none => s!"ord{ord}"

def showMErr (l : List Tx) (e : MErr) : String :=
  s!"err {showKind e.kind} {e.ticker} {ofOrdIn l e.ord}"

def showMatch (rs : List TickerResult) : String :=
  let rs := rs.mergeSort (fun a b => a.ticker ≤ b.ticker)
  "ok " ++ " ".intercalate (rs.map (fun r =>
    s!"T {r.ticker} {showPool r.pool} {r.legs.length}" ++
      String.join (r.legs.map (fun l => " " ++ showLeg l))))

def showDisposal (d : Disposal) : String :=
  s!"D {showDate d.date} {d.ticker} {showRat d.qty} {showRat d.gross} {showRat d.proceeds} {d.legs.length}" ++
    String.join (d.legs.map (fun l =>
      let acq := match l.acq with | some d => showDate d | none => "-"
      s!" M {showRule l.rule} {showRat l.qty} {showRat l.cost} {showRat l.gain} {acq}"))

def showYear (y : YearSummary) : String :=
  s!"Y {y.year} {showRat y.totalGain} {showRat y.totalLoss} {showRat y.netGain} {showRat y.exempt} {showRat y.taxable} {showRat y.divIncome} {showRat y.divTax} {y.disposals.length}" ++
    String.join (y.disposals.map (fun d => " " ++ showDisposal d))

def showReport (r : Report) : String :=
  "ok" ++ String.join (r.years.map (fun y => " " ++ showYear y)) ++
    String.join (r.holdings.map (fun (t, p) => s!" H {t} {showRat p.q} {showRat p.c}"))

def showSpec (rs : List Spec.Result) : String :=
  let rs := rs.mergeSort (fun a b => a.ticker ≤ b.ticker)
  "ok" ++ String.join (rs.map (fun r =>
    s!" T {r.ticker} {showRat r.poolQ} {showRat r.poolC} {r.disposals.length}" ++
      String.join (r.disposals.map (fun d =>
        s!" D {showDate d.date} {showRat d.qty} {showRat d.gross} {showRat d.net} {showRat d.gain} {d.legs.length}" ++
          String.join (d.legs.map (fun l =>
            let acq := match l.acq with | some a => showDate a | none => "-"
            s!" M {showRule l.rule} {showRat l.qty} {showRat l.cost} {acq}"))))))

def parseCAmt? (s : String) : Option CAmt :=
  match s.splitOn ":" with
  | [a] => (parseRat? a).map (fun x => ⟨x, "GBP"⟩)
  | [a, c] => (parseRat? a).map (fun x => ⟨x, c⟩)
  | _ => none

def parseCTx? (s : String) : Option CTx :=
  match s.splitOn "," with
  | [dt, tk, k, a, b, c] =>
    match parseDate? dt, parseCAmt? a, parseCAmt? b, parseCAmt? c with
    | some dt, some a, some b, some c =>
      let op? : Option COp :=
        match k with
        | "B" => some (.buy a.amt b c)
        | "S" => some (.sell a.amt b c)
        | "D" => some (.dividend a b)
        | "A" => some (.accumulation a.amt b c)
        | "C" => some (.capreturn a.amt b c)
        | "X" => some (.split a.amt)
        | "U" => some (.unsplit a.amt)
        | _ => none
      op?.map (fun op => { date := dt, ticker := tk, op := op })
    | _, _, _, _ => none
  | _ => none

def parseKey? (s : String) : Option RateKey :=
  match s.splitOn ":" with
  | [c, y, m] =>
    match parseInt? y, parseInt? m with
    | some y, some m => some (c, y, m)
    | _, _ => none
  | _ => none

/-- `USD:2024:6=5/4;EUR:2024:6=6/5` or `-` -/
def parseCache? (s : String) : Option Cache :=
  if s = "-" then some []
  else parseAll (fun kv =>
    match kv.splitOn "=" with
    | [k, v] =>
      match parseKey? k, parseRat? v with
      | some k, some v => some (k, v)
      | _, _ => none
    | _ => none) (s.splitOn ";")

def parseYM? (s : String) : Option (Option (Int × Int)) :=
  if s = "X" then some none
  else match s.splitOn "-" with
    | [y, m] =>
      match parseInt? y, parseInt? m with
      | some y, some m => some (some (y, m))
      | _, _ => none
    | _ => none

/-- `E=2024-6|X;P=2024-6|X;M=17;R=USD~5/4,EUR~0` -/
def parseRateFile? (s : String) : Option RateFileM :=
  match s.splitOn ";" with
  | [e, p, m, r] =>
    match (e.dropPrefix? "E=").map (·.toString), (p.dropPrefix? "P=").map (·.toString),
          (m.dropPrefix? "M=").map (·.toString), (r.dropPrefix? "R=").map (·.toString) with
    | some e, some p, some m, some r =>
      match parseYM? e, parseYM? p, m.toNat? with
      | some e, some p, some m =>
        let rows? : Option (List (String × Rat)) :=
          if r = "" then some []
          else parseAll (fun kv =>
            match kv.splitOn "~" with
            | [k, v] => (parseRat? v).map (fun x => (k, x))
            | _ => none) (r.splitOn ",")
        rows?.map (fun rows => { expected := e, period := p, mtime := m, rows := rows })
      | _, _, _ => none
    | _, _, _, _ => none
  | _ => none

def showOpWire (t : Tx) : String :=
  let (k, a, b, c) : String × Rat × Rat × Rat :=
    match t.op with
    | .buy q p f => ("B", q, p, f)
    | .sell q p f => ("S", q, p, f)
    | .dividend v x => ("D", v, x, 0)
    | .accumulation q v x => ("A", q, v, x)
    | .capreturn q v f => ("C", q, v, f)
    | .split r => ("X", r, 0, 0)
    | .unsplit r => ("U", r, 0, 0)
  s!"{showDate t.date} {t.ticker} {k} {showRat a} {showRat b} {showRat c}"

def showLoadErr : LoadErr → String
  | .invalidFileName => "invalidFileName"
  | .invalidPeriod => "invalidPeriod"
  | .periodMismatch => "periodMismatch"
  | .nonPositiveRate c => s!"nonPositiveRate {c}"

def hexVal (c : Char) : Option Nat :=
  if '0' ≤ c ∧ c ≤ '9' then some (c.toNat - '0'.toNat)
  else if 'a' ≤ c ∧ c ≤ 'f' then some (c.toNat - 'a'.toNat + 10)
  else none

/-- hex-encoded UTF-8 is decoded byte-wise to chars below 256 only when ASCII; the harness sends
    code points as 6-hex-digit groups instead -/
def unhex6 : List Char → Option (List Char)
  | [] => some []
  | a :: b :: c :: d :: e :: f :: rest =>
    match hexVal a, hexVal b, hexVal c, hexVal d, hexVal e, hexVal f, unhex6 rest with
    | some a, some b, some c, some d, some e, some f, some r =>
      some (Char.ofNat (((((a * 16 + b) * 16 + c) * 16 + d) * 16 + e) * 16 + f) :: r)
    | _, _, _, _, _, _, _ => none
  | _ => none

def hexDigit (n : Nat) : Char := if n < 10 then Char.ofNat (n + '0'.toNat) else Char.ofNat (n - 10 + 'a'.toNat)
def hex6 (cs : List Char) : String :=
  String.ofList (cs.flatMap (fun c =>
    let n := c.toNat
    [hexDigit (n / 1048576 % 16), hexDigit (n / 65536 % 16), hexDigit (n / 4096 % 16), hexDigit (n / 256 % 16), hexDigit (n / 16 % 16), hexDigit (n % 16)]))

def showDDec (d : Dsl.DDec) : String := String.ofList (Dsl.showDec d)
def showDAmt (a : Dsl.DAmt) : String := s!"{showDDec a.d}:{a.cur}"
def showDTx (t : Dsl.DTx) : String :=
  let body := match t.op with
    | .buy q p f => s!"B,{showDDec q},{showDAmt p},{showDAmt f}"
    | .sell q p f => s!"S,{showDDec q},{showDAmt p},{showDAmt f}"
    | .dividend v x => s!"D,{showDAmt v},{showDAmt x},0"
    | .accumulation q v x => s!"A,{showDDec q},{showDAmt v},{showDAmt x}"
    | .capreturn q v f => s!"C,{showDDec q},{showDAmt v},{showDAmt f}"
    | .split r => s!"X,{showDDec r},0,0"
    | .unsplit r => s!"U,{showDDec r},0,0"
  s!"{t.y}-{t.m}-{t.d},{t.ticker},{body}"

def parseDDec? (s : String) : Option Dsl.DDec :=
  match Dsl.pDecimal s.toList with
  | some (d, []) => some d
  | _ => none

def parseDAmt? (s : String) : Option Dsl.DAmt :=
  match s.splitOn ":" with
  | [a] => (parseDDec? a).map (fun d => ⟨d, "GBP"⟩)
  | [a, c] => (parseDDec? a).map (fun d => ⟨d, c⟩)
  | _ => none

def parseDTx? (s : String) : Option Dsl.DTx :=
  match s.splitOn "," with
  | [dt, tk, k, a, b, c] =>
    match dt.splitOn "-" with
    | [y, m, d] =>
      match y.toNat?, m.toNat?, d.toNat? with
      | some y, some m, some d =>
        let op? : Option Dsl.DOp :=
          match k with
          | "B" => match parseDDec? a, parseDAmt? b, parseDAmt? c with | some a, some b, some c => some (.buy a b c) | _, _, _ => none
          | "S" => match parseDDec? a, parseDAmt? b, parseDAmt? c with | some a, some b, some c => some (.sell a b c) | _, _, _ => none
          | "D" => match parseDAmt? a, parseDAmt? b with | some a, some b => some (.dividend a b) | _, _ => none
          | "A" => match parseDDec? a, parseDAmt? b, parseDAmt? c with | some a, some b, some c => some (.accumulation a b c) | _, _, _ => none
          | "C" => match parseDDec? a, parseDAmt? b, parseDAmt? c with | some a, some b, some c => some (.capreturn a b c) | _, _, _ => none
          | "X" => (parseDDec? a).map .split
          | "U" => (parseDDec? a).map .unsplit
          | _ => none
        op?.map (fun op => ⟨y, m, d, tk, op⟩)
      | _, _, _ => none
    | _ => none
  | _ => none

def showParseErr : Dsl.ParseErr → String
  | .syntax n => s!"err syntax {n}"
  | .invalidDate n => s!"err invalidDate {n}"
  | .invalidCurrency n => s!"err invalidCurrency {n}"
  | .invalidDecimal n => s!"err invalidDecimal {n}"

def parseOptRat? (s : String) : Option (Option (Option Rat)) :=
  if s = "-" then some none
  else if s = "~" then some (some none)
  else (parseRat? s).map (fun x => some (some x))

/-- `vd|-,vf|-|~,fp|-|~` -/
def parseDetail? (s : String) : Option Awards.Detail :=
  match s.splitOn "," with
  | [vd, vf, fp] =>
    let vd? : Option (Option Int) := if vd = "-" then some none else (parseInt? vd).map some
    match vd?, parseOptRat? vf, parseOptRat? fp with
    | some vd, some vf, some fp => some { vestDate := vd, vestFmv := vf, fmvPrice := fp }
    | _, _, _ => none
  | _ => none

/-- `ord|V/N/U|SYMBOL|detail;detail…` (`|` separated; no details: empty last field) -/
def parseAward? (s : String) : Option Awards.Award :=
  match s.splitOn "|" with
  | [ord, act, sym, ds] =>
    let act? : Option Awards.ActionKind := match act with | "V" => some .vesting | "N" => some .nonVesting | "U" => some .unknown | _ => none
    let ds? := if ds = "" then some [] else parseAll parseDetail? (ds.splitOn ";")
    match parseInt? ord, act?, ds? with
    | some o, some a, some ds => some { date := o, action := a, symbol := sym, details := ds }
    | _, _, _ => none
  | _ => none

def parseOptRat1? (s : String) : Option (Option Rat) :=
  if s = "-" then some none else (parseRat? s).map some

/-- `B,ord,SYM,q,p,f|-` `S,…` `X,ord,SYM,q,p` `D,ord,SYM,amt|-` `N,ord,SYM|-,amt|-` `K,ord,SYM` `O` `U` -/
def parseRow? (s : String) : Option Schwab.Row :=
  match s.splitOn "," with
  | ["B", d, sym, q, p, f] =>
    match parseInt? d, parseRat? q, parseRat? p, parseOptRat1? f with
    | some d, some q, some p, some f => some (.buy d sym q p f)
    | _, _, _, _ => none
  | ["S", d, sym, q, p, f] =>
    match parseInt? d, parseRat? q, parseRat? p, parseOptRat1? f with
    | some d, some q, some p, some f => some (.sell d sym q p f)
    | _, _, _, _ => none
  | ["X", d, sym, q, p] =>
    match parseInt? d, parseRat? q, parseRat? p with
    | some d, some q, some p => some (.cancelSell d sym q p)
    | _, _, _ => none
  | ["D", d, sym, a] =>
    match parseInt? d, parseOptRat1? a with
    | some d, some a => some (.dividend d sym a)
    | _, _ => none
  | ["N", d, sym, a] =>
    match parseInt? d, parseOptRat1? a with
    | some d, some a => some (.nra d (if sym = "-" then none else some sym) a)
    | _, _ => none
  | ["K", d, sym] => (parseInt? d).map (fun d => .split d sym)
  | ["O"] => some .nonCgt
  | ["U"] => some .unknown
  | _ => none

def showItem : Schwab.Item → String
  | .buy d s q p f => s!"B:{d}:{s}:{showRat q}:{showRat p}:{showRat f}"
  | .sell d s q p f => s!"S:{d}:{s}:{showRat q}:{showRat p}:{showRat f}"
  | .dividend d s a t => s!"D:{d}:{s}:{showRat a}:{showRat t}"
  | .comment => "C"

def showCalcErr (l : List Tx) : CalcErr → String
  | .matcher e => showMErr l e
  | .taxYear (.invalidDateYear y) => s!"err invalidDateYear {y}"
  | .taxYear (.invalidTaxYear y) => s!"err invalidTaxYear {y}"
  | .unsupportedExemptionYear y => s!"err unsupportedExemptionYear {y}"
  | .invalidDateYear y => s!"err invalidDateYear {y}"


/-! JSON values on the wire: `S<hex6>` a string, `N` anything that is neither string nor object,
    `O{key=value,key=value}` an object (keys are plain words). -/
mutual
  def showJV : Json.JV → String
    | .str s => "S" ++ hex6 s
    | .other => "N"
    | .obj fs => "O{" ++ ",".intercalate ((showFields fs).mergeSort (fun a b => decide (a ≤ b))) ++ "}"
  def showFields : List (Json.Key × Json.JV) → List String
    | [] => []
    | (k, v) :: rest => (k.toString ++ "=" ++ showJV v) :: showFields rest
end

/-- recursive descent with fuel; `none` on anything malformed -/
def parseJVAux : Nat → List Char → Option (Json.JV × List Char)
  | 0, _ => none
  | _ + 1, 'N' :: rest => some (.other, rest)
  | _ + 1, 'S' :: rest =>
    let hx := rest.takeWhile (fun c => c.isAlphanum)
    match unhex6 hx with
    | some s => some (.str s, rest.dropWhile (fun c => c.isAlphanum))
    | none => none
  | n + 1, 'O' :: '{' :: rest =>
    let rec fields (m : Nat) (cs : List Char) (acc : List (Json.Key × Json.JV)) : Option (List (Json.Key × Json.JV) × List Char) :=
      match m with
      | 0 => none
      | m + 1 =>
        match cs with
        | '}' :: r => some (acc.reverse, r)
        | _ =>
          let key := cs.takeWhile (fun c => c ≠ '=')
          match cs.dropWhile (fun c => c ≠ '=') with
          | '=' :: r =>
            match parseJVAux n r with
            | some (v, r') =>
              let acc' := (Json.Key.ofString (String.ofList key), v) :: acc
              match r' with
              | ',' :: r'' => fields m r'' acc'
              | '}' :: r'' => some (acc'.reverse, r'')
              | _ => none
            | none => none
          | _ => none
    match fields (rest.length + 1) rest [] with
    | some (fs, r) => some (.obj fs, r)
    | none => none
  | _ + 1, _ => none

def parseJV? (s : String) : Option Json.JV :=
  match parseJVAux (s.length + 1) s.toList with
  | some (v, []) => some v
  | _ => none

end Cgt.Wire
