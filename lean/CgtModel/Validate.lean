import CgtModel.Tx
/-! `validation.rs` (errors only) and the CLI's output discipline. -/
namespace Cgt

/-- the checks `validate` makes on one transaction: list of error messages' kinds -/
def opErrors : Op → List String
  | .buy q p f | .sell q p f =>
    (if q = 0 then ["zero quantity"] else []) ++ (if q < 0 then ["negative quantity"] else []) ++
    (if p < 0 then ["negative price"] else []) ++ (if f < 0 then ["negative fees"] else [])
  | .capreturn q v f =>
    (if q = 0 then ["zero quantity"] else []) ++ (if q < 0 then ["negative quantity"] else []) ++
    (if v < 0 then ["negative total value"] else []) ++ (if f < 0 then ["negative fees"] else [])
  | .split r | .unsplit r => (if r = 0 then ["zero ratio"] else []) ++ (if r < 0 then ["negative ratio"] else [])
  | .dividend v _ => if v < 0 then ["negative total value"] else []
  | .accumulation q v _ =>
    (if q = 0 then ["zero quantity"] else []) ++ (if q < 0 then ["negative quantity"] else []) ++
    (if v < 0 then ["negative total value"] else [])

def validateErrors (l : List Tx) : List String := (l.map (fun t => opErrors t.op)).flatten

/-- the property's wording: some quantity zero or negative, some price, fee or total value negative,
    or a split ratio not positive -/
def opBad : Op → Prop
  | .buy q p f | .sell q p f => q ≤ 0 ∨ p < 0 ∨ f < 0
  | .capreturn q v f => q ≤ 0 ∨ v < 0 ∨ f < 0
  | .split r | .unsplit r => r ≤ 0
  | .dividend v _ => v < 0
  | .accumulation q v _ => q ≤ 0 ∨ v < 0

-- the CLI: a command is a sequence of fallible stages followed by one write to the chosen sink

inductive Sink | stdout | file (path : String)
deriving DecidableEq, Repr

structure CliOutcome where
  exitCode : Nat
  stdout : Option String
  written : List (String × String)
deriving DecidableEq, Repr

/-- `stages` = outcomes of read / rates / parse / config / calculate / format, in order; the payload is
    produced only if all succeed, and is then written to exactly one sink -/
def runCli (stages : List Bool) (payload : String) (sink : Sink) : CliOutcome :=
  if stages.all id then
    match sink with
    | .stdout => ⟨0, some payload, []⟩
    | .file p => ⟨0, none, [(p, payload)]⟩
  else ⟨1, none, []⟩

/-- default PDF path: refuse when the file exists -/
def pdfDefault (exists_ : Bool) (stages : List Bool) (payload : String) (path : String) : CliOutcome :=
  if stages.all id then
    if exists_ then ⟨1, none, []⟩ else ⟨0, some ("PDF written to " ++ path), [(path, payload)]⟩
  else ⟨1, none, []⟩

end Cgt
