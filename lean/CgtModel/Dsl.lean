import CgtModel.Calendar
import CgtModel.Generated
/-! A scannerless model of `parser.pest` + `parser.rs` (the reader) and of `dsl.rs` (the writer).

PEG reading of the grammar: ordered choice, implicit `(WHITESPACE | COMMENT)*` between the elements of
non-atomic rules (possibly empty), atomic tokens, case-insensitive keywords (prefix match, no word
boundary), the currency look-ahead. A transaction cannot span lines (WHITESPACE has no newline and a
COMMENT ends at the newline), so the model splits on NEWLINE = CRLF | LF | CR first.
Decimals are kept as their digit strings (integer part without leading zeros, fraction as written),
which is what `Decimal::from_str`/`to_string` preserve. -/
namespace Cgt.Dsl

structure DDec where
  ip : List Char
  fp : List Char
deriving DecidableEq, Repr, Inhabited

structure DAmt where
  d : DDec
  cur : String
deriving DecidableEq, Repr, Inhabited

inductive DOp
  | buy (q : DDec) (p f : DAmt)
  | sell (q : DDec) (p f : DAmt)
  | dividend (v t : DAmt)
  | accumulation (q : DDec) (v t : DAmt)
  | capreturn (q : DDec) (v f : DAmt)
  | split (r : DDec)
  | unsplit (r : DDec)
deriving DecidableEq, Repr, Inhabited

structure DTx where
  y : Nat
  m : Nat
  d : Nat
  ticker : String
  op : DOp
deriving DecidableEq, Repr, Inhabited

def zeroDec : DDec := ⟨['0'], []⟩
def zeroGbp : DAmt := ⟨zeroDec, "GBP"⟩

def isWs (c : Char) : Bool := c = ' ' || c = '\t'
def isDigit (c : Char) : Bool := '0' ≤ c && c ≤ '9'
def isAlpha (c : Char) : Bool := ('a' ≤ c && c ≤ 'z') || ('A' ≤ c && c ≤ 'Z')
def isAlnum (c : Char) : Bool := isDigit c || isAlpha c
def upper (c : Char) : Char := if 'a' ≤ c && c ≤ 'z' then Char.ofNat (c.toNat - 32) else c

def skipWs : List Char → List Char
  | [] => []
  | c :: cs => if isWs c then skipWs cs else c :: cs

/-- implicit `(WHITESPACE | COMMENT)*` inside one line: a comment swallows the rest of the line -/
def skipWC (cs : List Char) : List Char :=
  match skipWs cs with
  | '#' :: _ => []
  | rest => rest

/-- `^"KW"`: case-insensitive prefix -/
def matchKw : List Char → List Char → Option (List Char)
  | [], cs => some cs
  | _ :: _, [] => none
  | k :: ks, c :: cs => if upper c = k then matchKw ks cs else none

def spanP (p : Char → Bool) : List Char → List Char × List Char
  | [] => ([], [])
  | c :: cs => if p c then let r := spanP p cs; (c :: r.1, r.2) else ([], c :: cs)

def stripZeros : List Char → List Char
  | '0' :: c :: cs => stripZeros (c :: cs)
  | cs => cs

/-- `decimal = @{ ASCII_DIGIT+ ~ ("." ~ ASCII_DIGIT+)? }` -/
def pDecimal (cs : List Char) : Option (DDec × List Char) :=
  let (ip, r) := spanP isDigit cs
  if ip.isEmpty then none
  else match r with
    | '.' :: r' =>
      let (fp, r'') := spanP isDigit r'
      if fp.isEmpty then some (⟨stripZeros ip, []⟩, r) else some (⟨stripZeros ip, fp⟩, r'')
    | _ => some (⟨stripZeros ip, []⟩, r)

/-- exact-case prefix (what a keyword literal without `^` would be) -/
def matchExact : List Char → List Char → Option (List Char)
  | [], cs => some cs
  | _ :: _, [] => none
  | k :: ks, c :: cs => if c = k then matchExact ks cs else none

/-- the keywords of `currency_code`'s negative look-ahead and their case-sensitivity: regenerated from
    parser.pest by tools/extract.py (group `grammar`) -/
def kwBlock : List (List Char) := dslGuardKeywords.map String.toList

def guardHit (cs : List Char) : Bool :=
  kwBlock.any (fun k => (if dslGuardCaseInsensitive then matchKw k cs else matchExact k cs).isSome)

/-- `currency_code`: look-ahead, three letters, not followed by an alphanumeric or `-` -/
def pCurrency (cs : List Char) : Option (String × List Char) :=
  if guardHit cs then none
  else match cs with
    | a :: b :: c :: rest =>
      if isAlpha a && isAlpha b && isAlpha c then
        match rest with
        | x :: _ => if isAlnum x || x = '-' then none else some (String.ofList [upper a, upper b, upper c], rest)
        | [] => some (String.ofList [upper a, upper b, upper c], rest)
      else none
    | _ => none

/-- `money = { decimal ~ currency_code? }` -/
def pMoney (cs : List Char) : Option (DAmt × List Char) :=
  match pDecimal cs with
  | none => none
  | some (d, r) =>
    match pCurrency (skipWC r) with
    | some (c, r') => some (⟨d, c⟩, r')
    | none => some (⟨d, "GBP"⟩, r)

/-- `KW ~ money` (price uses "@") -/
def pClause (kw : List Char) (cs : List Char) : Option (DAmt × List Char) :=
  match matchKw kw cs with
  | none => none
  | some r => pMoney (skipWC r)

def pOptClause (kw : List Char) (cs : List Char) : DAmt × List Char :=
  match pClause kw (skipWC cs) with
  | some (a, r) => (a, r)
  | none => (zeroGbp, cs)

def pTicker (cs : List Char) : Option (String × List Char) :=
  let (t, r) := spanP isAlnum cs
  if t.isEmpty then none else some (String.ofList (t.map upper), r)

/-- `cmd_buy`/`cmd_sell`: KW ticker quantity price fees? -/
def pTrade (kw : List Char) (mk : DDec → DAmt → DAmt → DOp) (cs : List Char) : Option (String × DOp × List Char) :=
  match matchKw kw cs with
  | none => none
  | some r =>
    match pTicker (skipWC r) with
    | none => none
    | some (t, r) =>
      match pDecimal (skipWC r) with
      | none => none
      | some (q, r) =>
        match pClause ['@'] (skipWC r) with
        | none => none
        | some (p, r) =>
          let (f, r) := pOptClause "FEES".toList r
          some (t, mk q p f, r)

/-- `cmd_accumulation`/`cmd_capreturn`: KW ticker quantity TOTAL money (TAX|FEES money)? -/
def pEvent (kw opt : List Char) (mk : DDec → DAmt → DAmt → DOp) (cs : List Char) : Option (String × DOp × List Char) :=
  match matchKw kw cs with
  | none => none
  | some r =>
    match pTicker (skipWC r) with
    | none => none
    | some (t, r) =>
      match pDecimal (skipWC r) with
      | none => none
      | some (q, r) =>
        match pClause "TOTAL".toList (skipWC r) with
        | none => none
        | some (v, r) =>
          let (x, r) := pOptClause opt r
          some (t, mk q v x, r)

def pDividend (cs : List Char) : Option (String × DOp × List Char) :=
  match matchKw "DIVIDEND".toList cs with
  | none => none
  | some r =>
    match pTicker (skipWC r) with
    | none => none
    | some (t, r) =>
      match pClause "TOTAL".toList (skipWC r) with
      | none => none
      | some (v, r) =>
        let (x, r) := pOptClause "TAX".toList r
        some (t, .dividend v x, r)

def pSplit (kw : List Char) (mk : DDec → DOp) (cs : List Char) : Option (String × DOp × List Char) :=
  match matchKw kw cs with
  | none => none
  | some r =>
    match pTicker (skipWC r) with
    | none => none
    | some (t, r) =>
      match matchKw "RATIO".toList (skipWC r) with
      | none => none
      | some r =>
        match pDecimal (skipWC r) with
        | none => none
        | some (x, r) => some (t, mk x, r)

def orElse' (a : Option α) (b : Unit → Option α) : Option α := match a with | some x => some x | none => b ()

/-- `command`: ordered choice -/
def pCommand (cs : List Char) : Option (String × DOp × List Char) :=
  orElse' (pTrade "BUY".toList .buy cs) fun _ =>
  orElse' (pTrade "SELL".toList .sell cs) fun _ =>
  orElse' (pDividend cs) fun _ =>
  orElse' (pEvent "ACCUMULATION".toList "TAX".toList .accumulation cs) fun _ =>
  orElse' (pEvent "CAPRETURN".toList "FEES".toList .capreturn cs) fun _ =>
  orElse' (pSplit "SPLIT".toList .split cs) fun _ =>
  pSplit "UNSPLIT".toList .unsplit cs

def digitVal (c : Char) : Nat := c.toNat - '0'.toNat
def natOf (cs : List Char) : Nat := cs.foldl (fun n c => n * 10 + digitVal c) 0

/-- `date = @{ DIGIT{4} "-" DIGIT{2} "-" DIGIT{2} }` -/
def pDate (cs : List Char) : Option ((Nat × Nat × Nat) × List Char) :=
  match cs with
  | a :: b :: c :: d :: '-' :: e :: f :: '-' :: g :: h :: rest =>
    if [a, b, c, d, e, f, g, h].all isDigit then some ((natOf [a, b, c, d], natOf [e, f], natOf [g, h]), rest) else none
  | _ => none

inductive LineResult
  | blank
  | tx (t : DTx)
  | syntaxError
deriving DecidableEq, Repr, Inhabited

def parseLine (cs : List Char) : LineResult :=
  match skipWC cs with
  | [] => .blank
  | s =>
    match pDate s with
    | none => .syntaxError
    | some ((y, m, d), r) =>
      match pCommand (skipWC r) with
      | none => .syntaxError
      | some (t, op, r) =>
        match skipWC r with
        | [] => .tx ⟨y, m, d, t, op⟩
        | _ => .syntaxError

/-- NEWLINE = "\r\n" | "\n" | "\r" -/
def splitLines : List Char → List (List Char)
  | [] => [[]]
  | '\r' :: '\n' :: cs => [] :: splitLines cs
  | '\n' :: cs => [] :: splitLines cs
  | '\r' :: cs => [] :: splitLines cs
  | c :: cs =>
    match splitLines cs with
    | l :: ls => (c :: l) :: ls
    | [] => [[c]]

inductive ParseErr
  | syntax (line : Nat)
  | invalidDate (line : Nat)
  | invalidCurrency (line : Nat)
  | invalidDecimal (line : Nat)
deriving DecidableEq, Repr, Inhabited

def decTooBig (d : DDec) : Bool :=
  -- rust_decimal: 96-bit mantissa, at most 28 fractional digits (longer fractions are rounded: out of
  -- the model's scope, reported as invalid so that the harness can skip them)
  d.fp.length > 28 || natOf (d.ip ++ d.fp) ≥ 2 ^ 96

def amtsOf : DOp → List DAmt
  | .buy _ p f | .sell _ p f => [p, f]
  | .dividend v t => [v, t]
  | .accumulation _ v t => [v, t]
  | .capreturn _ v f => [v, f]
  | _ => []

def decsOf : DOp → List DDec
  | .buy q p f | .sell q p f => [q, p.d, f.d]
  | .dividend v t => [v.d, t.d]
  | .accumulation q v t => [q, v.d, t.d]
  | .capreturn q v f => [q, v.d, f.d]
  | .split r | .unsplit r => [r]

/-- the consume phase's checks on one transaction, in field order: date, then per field decimal/currency -/
def semantic (valid : List String) (n : Nat) (t : DTx) : Option ParseErr :=
  if !(Date.valid ⟨t.y, t.m, t.d⟩) then some (.invalidDate n)
  else if (decsOf t.op).any decTooBig then some (.invalidDecimal n)
  else if (amtsOf t.op).any (fun a => !(valid.contains a.cur)) then some (.invalidCurrency n)
  else none

def firstSyntax : Nat → List LineResult → Option Nat
  | _, [] => none
  | n, .syntaxError :: _ => some n
  | n, _ :: rest => firstSyntax (n + 1) rest

def collect (valid : List String) : Nat → List LineResult → Except ParseErr (List DTx)
  | _, [] => .ok []
  | n, .tx t :: rest =>
    match semantic valid n t with
    | some e => .error e
    | none =>
      match collect valid (n + 1) rest with
      | .error e => .error e
      | .ok ts => .ok (t :: ts)
  | n, _ :: rest => collect valid (n + 1) rest

/-- `parse_file`: grammar first (the first line that does not parse), then the semantic checks -/
def parse (valid : List String) (text : List Char) : Except ParseErr (List DTx) :=
  let rs := (splitLines text).map parseLine
  match firstSyntax 1 rs with
  | some n => .error (.syntax n)
  | none => collect valid 1 rs

-- ---------------------------------------------------------------------------------------------
-- writer (`dsl.rs`)

def showDec (d : DDec) : List Char := if d.fp.isEmpty then d.ip else d.ip ++ '.' :: d.fp
def isZeroDec (d : DDec) : Bool := (d.ip ++ d.fp).all (· = '0')
def digitChar (k : Nat) : Char := Char.ofNat (48 + k % 10)
/-- `%m`, `%d`: two digits -/
def pad2 (n : Nat) : List Char := [digitChar (n / 10), digitChar n]
/-- `%Y` for the years the grammar can express (four digits) -/
def pad4 (n : Nat) : List Char := [digitChar (n / 1000), digitChar (n / 100), digitChar (n / 10), digitChar n]
def showDateD (t : DTx) : List Char := pad4 t.y ++ '-' :: pad2 t.m ++ '-' :: pad2 t.d
def showAmt (a : DAmt) : List Char := showDec a.d ++ ' ' :: a.cur.toList
def optClause (kw : String) (a : DAmt) : List Char :=
  if isZeroDec a.d then [] else (" " ++ kw ++ " ").toList ++ showAmt a

/-- `transaction_to_dsl` -/
def writeTx (t : DTx) : List Char :=
  let head (kw : String) := showDateD t ++ (" " ++ kw ++ " ").toList ++ t.ticker.toList
  match t.op with
  | .buy q p f => head "BUY" ++ ' ' :: showDec q ++ " @ ".toList ++ showAmt p ++ optClause "FEES" f
  | .sell q p f => head "SELL" ++ ' ' :: showDec q ++ " @ ".toList ++ showAmt p ++ optClause "FEES" f
  | .dividend v x => head "DIVIDEND" ++ " TOTAL ".toList ++ showAmt v ++ optClause "TAX" x
  | .accumulation q v x => head "ACCUMULATION" ++ ' ' :: showDec q ++ " TOTAL ".toList ++ showAmt v ++ optClause "TAX" x
  | .capreturn q v f => head "CAPRETURN" ++ ' ' :: showDec q ++ " TOTAL ".toList ++ showAmt v ++ optClause "FEES" f
  | .split r => head "SPLIT" ++ " RATIO ".toList ++ showDec r
  | .unsplit r => head "UNSPLIT" ++ " RATIO ".toList ++ showDec r

/-- `transactions_to_dsl`: lines joined with "\n" -/
def write : List DTx → List Char
  | [] => []
  | [t] => writeTx t
  | t :: ts => writeTx t ++ '\n' :: write ts

end Cgt.Dsl
