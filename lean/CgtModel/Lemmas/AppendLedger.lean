import CgtModel.Lemmas.RawShape
import CgtModel.Lemmas.Sorted
/-! A history followed by strictly later lines: sorting, fill merging and BUY coalescing act on the two
    parts separately, so every security's day list is the history's day list followed by the later
    lines' (line numbers shifted). This lifts C12's per-security theorems to the raw ledger. -/
namespace Cgt

/-! ### the stable sort of `l ++ s` when every line of `l` sorts strictly before every line of `s` -/
section StableSort
open List

theorem mergeSort_zipIdx_off {α : Type} (le : α → α → Bool) (k : Nat) (s : List α) :
    (mergeSort (s.zipIdx k) (zipIdxLE le)).map (·.1) = mergeSort s le := by
  rw [zipIdx_eq_map_add (i := k)]
  rw [← map_mergeSort (r := zipIdxLE le) (s := zipIdxLE le) (f := fun (p : α × Nat) => (p.1, k + p.2))]
  · rw [map_map]
    have : ((fun x : α × Nat => x.1) ∘ fun p : α × Nat => (p.1, k + p.2)) = (·.1) := by funext x; rfl
    rw [this, mergeSort_zipIdx]
  · rintro ⟨a, i⟩ _ ⟨b, j⟩ _
    simp [zipIdxLE]

theorem mergeSort_append_of_lt {α : Type} (le : α → α → Bool)
    (trans : ∀ (a b c : α), le a b → le b c → le a c) (total : ∀ (a b : α), le a b || le b a)
    (l s : List α) (h : ∀ a ∈ l, ∀ b ∈ s, le a b = true ∧ le b a = false) :
    mergeSort (l ++ s) le = mergeSort l le ++ mergeSort s le := by
  rw [← mergeSort_zipIdx (l := l ++ s), ← mergeSort_zipIdx (l := l), ← mergeSort_zipIdx_off le l.length s, ← map_append]
  congr 1
  have hz : (l ++ s).zipIdx = l.zipIdx ++ s.zipIdx l.length := by
    rw [zipIdx_append]; simp
  have hperm : mergeSort ((l ++ s).zipIdx) (zipIdxLE le) ~ mergeSort l.zipIdx (zipIdxLE le) ++ mergeSort (s.zipIdx l.length) (zipIdxLE le) := by
    refine (mergeSort_perm _ _).trans ?_
    rw [hz]
    exact ((mergeSort_perm _ _).append (mergeSort_perm _ _)).symm
  have hnd : ((l ++ s).zipIdx.map (·.2)).Nodup := by rw [zipIdx_map_snd]; exact nodup_range' _
  apply Perm.eq_of_pairwise (le := fun a b => zipIdxLE le a b = true)
  · rintro ⟨a, i⟩ ⟨b, j⟩ ha hb
    simp only [mem_mergeSort] at ha
    rw [← hperm.mem_iff, mem_mergeSort] at hb
    simp only [zipIdxLE]
    simp only [Bool.if_false_right, Bool.and_eq_true, Prod.mk.injEq, and_imp]
    intro ab h1 ba h2
    simp only [Bool.decide_eq_true] at ba
    replace h1 : i ≤ j := by simpa [ab, ba] using h1
    replace h2 : j ≤ i := by simpa [ab, ba] using h2
    cases Nat.le_antisymm h1 h2
    constructor
    · have := mem_zipIdx ha
      have := mem_zipIdx hb
      simp_all
    · rfl
  · exact pairwise_mergeSort (zipIdxLE_trans trans) (zipIdxLE_total total) ..
  · rw [pairwise_append]
    refine ⟨pairwise_mergeSort (zipIdxLE_trans trans) (zipIdxLE_total total) .., pairwise_mergeSort (zipIdxLE_trans trans) (zipIdxLE_total total) .., ?_⟩
    rintro ⟨a, i⟩ ha ⟨b, j⟩ hb
    simp only [mem_mergeSort] at ha hb
    have ha' := mem_zipIdx ha
    have hb' := mem_zipIdx hb
    have hal : a ∈ l := by rw [ha'.2.2]; exact getElem_mem _
    have hbs : b ∈ s := by rw [hb'.2.2]; exact getElem_mem _
    have := h a hal b hbs
    simp [zipIdxLE, this.1, this.2]
  · exact hperm

end StableSort

theorem sortByDate_append (l s : List Tx) (h : ∀ a ∈ l, ∀ b ∈ s, a.ord < b.ord) :
    sortByDate (l ++ s) = sortByDate l ++ sortByDate s := by
  unfold sortByDate
  apply mergeSort_append_of_lt
  · intro a b c; simp only [decide_eq_true_eq]; omega
  · intro a b; simp only [Bool.or_eq_true, decide_eq_true_eq]; omega
  · intro a ha b hb
    have := h a ha b hb
    simp only [decide_eq_true_eq, decide_eq_false_iff_not]
    omega

/-! mergeAdjacent over an append whose halves share no date -/
theorem mergeInto_append (B : List Tx) : ∀ (rest : List Tx) (cur : Tx),
    (∀ b ∈ B, b.date ≠ cur.date) → (∀ a ∈ rest, ∀ b ∈ B, b.date ≠ a.date) →
    mergeInto cur (rest ++ B) = mergeInto cur rest ++ mergeAdjacent B := by
  intro rest
  induction rest with
  | nil =>
    intro cur hc _
    cases B with
    | nil => simp [mergeInto, mergeAdjacent]
    | cons nxt B' =>
      have : ¬ (nxt.date = cur.date ∧ nxt.ticker = cur.ticker) := fun h => hc nxt (by simp) h.1
      simp [mergeInto, mergeAdjacent, this]
  | cons nxt rest ih =>
    intro cur hc hr
    have hn : ∀ b ∈ B, b.date ≠ nxt.date := fun b hb => hr nxt (by simp) b hb
    have hrest : ∀ a ∈ rest, ∀ b ∈ B, b.date ≠ a.date := fun a ha => hr a (by simp [ha])
    simp only [List.cons_append, mergeInto]
    split
    · split
      · exact ih _ hc hrest
      · exact ih _ hc hrest
      · rw [ih nxt hn hrest]; rfl
    · rw [ih nxt hn hrest]; rfl

theorem mergeAdjacent_append (A B : List Tx) (h : ∀ a ∈ A, ∀ b ∈ B, b.date ≠ a.date) :
    mergeAdjacent (A ++ B) = mergeAdjacent A ++ mergeAdjacent B := by
  cases A with
  | nil => simp [mergeAdjacent]
  | cons a A' =>
    simp only [List.cons_append, mergeAdjacent]
    exact mergeInto_append B A' a (fun b hb => h a (by simp) b hb) (fun x hx => h x (by simp [hx]))

/-! coalesceBuys over such an append -/
theorem foldBuy_prefix (date : Date) (ticker : String) (q p f : Rat) (acc : List Tx) :
    ∀ (C : List Tx), (∀ c ∈ C, c.date ≠ date) →
    foldBuy date ticker q p f (C ++ acc) = (foldBuy date ticker q p f acc).map (C ++ ·) := by
  intro C
  induction C with
  | nil => intro _; simp
  | cons c C ih =>
    intro h
    have hc : ¬ (c.date = date ∧ c.ticker = ticker) := fun hh => h c (by simp) hh.1
    simp only [List.cons_append, foldBuy, hc, if_false]
    rw [ih (fun x hx => h x (by simp [hx]))]
    cases foldBuy date ticker q p f acc <;> simp

theorem coalesceStep_prefix (C acc : List Tx) (nxt : Tx) (h : ∀ c ∈ C, c.date ≠ nxt.date) :
    coalesceStep (C ++ acc) nxt = C ++ coalesceStep acc nxt := by
  unfold coalesceStep
  split
  · rename_i q p f hop
    rw [foldBuy_prefix _ _ _ _ _ acc C h]
    cases foldBuy nxt.date nxt.ticker q p f acc <;> simp
  · simp

theorem coalesceFold_prefix (C : List Tx) : ∀ (Bs acc : List Tx), (∀ c ∈ C, ∀ b ∈ Bs, c.date ≠ b.date) →
    Bs.foldl coalesceStep (C ++ acc) = C ++ Bs.foldl coalesceStep acc := by
  intro Bs
  induction Bs with
  | nil => intro acc _; rfl
  | cons b Bs ih =>
    intro acc h
    simp only [List.foldl_cons]
    rw [coalesceStep_prefix C acc b (fun c hc => h c hc b (by simp))]
    exact ih _ (fun c hc x hx => h c hc x (by simp [hx]))

/-- a predicate on dates of the members -/
theorem coalesceBuys_datePred (A : List Tx) (Q : Date → Prop) (h : ∀ a ∈ A, Q a.date) : ∀ c ∈ coalesceBuys A, Q c.date :=
  coalesceBuys_forall (fun x => Q x.date) (fun _ _ _ _ hc => hc) (fun _ _ _ _ hc => hc) A h

theorem mergeAdjacent_datePred (A : List Tx) (Q : Date → Prop) (h : ∀ a ∈ A, Q a.date) : ∀ c ∈ mergeAdjacent A, Q c.date :=
  mergeAdjacent_forall (fun x => Q x.date) (fun _ _ _ _ hc => hc) (fun _ _ _ _ hc => hc) A h

theorem coalesceBuys_append (A B : List Tx) (h : ∀ a ∈ A, ∀ b ∈ B, a.date ≠ b.date) :
    coalesceBuys (A ++ B) = coalesceBuys A ++ coalesceBuys B := by
  unfold coalesceBuys
  rw [List.foldl_append]
  have hC : ∀ c ∈ A.foldl coalesceStep [], ∀ b ∈ B, c.date ≠ b.date :=
    coalesceBuys_datePred A (fun d => ∀ b ∈ B, d ≠ b.date) h
  have := coalesceFold_prefix (A.foldl coalesceStep []) B [] hC
  simpa using this

/-- **preprocessing a history followed by strictly later lines = preprocessing each** -/
theorem preprocess_append (l s : List Tx) (h : ∀ a ∈ l, ∀ b ∈ s, a.ord < b.ord) :
    preprocess (l ++ s) = preprocess l ++ preprocess s := by
  have hne : ∀ a ∈ l, ∀ b ∈ s, a.date ≠ b.date := by
    intro a ha b hb e
    have := h a ha b hb
    unfold Tx.ord at this; rw [e] at this; omega
  have hsl : ∀ a ∈ sortByDate l, ∀ b ∈ sortByDate s, a.date ≠ b.date := by
    intro a ha b hb
    exact hne a ((List.mergeSort_perm l _).mem_iff.mp ha) b ((List.mergeSort_perm s _).mem_iff.mp hb)
  unfold preprocess
  rw [sortByDate_append l s h, mergeAdjacent_append _ _ (fun a ha b hb => (hsl a ha b hb).symm)]
  apply coalesceBuys_append
  intro a ha b hb
  have h1 : ∀ b ∈ mergeAdjacent (sortByDate s), a.date ≠ b.date :=
    mergeAdjacent_datePred (sortByDate s) (fun d => a.date ≠ d)
      (fun y hy => mergeAdjacent_datePred (sortByDate l) (fun d => d ≠ y.date) (fun x hx => hsl x hx y hy) a ha)
  exact h1 b hb


/-! ### the day lists: the later lines' days follow the history's, line numbers shifted -/

def Trade.shift (n : Nat) (x : Trade) : Trade := { x with idx := x.idx + n }
def Day.shift (n : Nat) (d : Day) : Day :=
  { d with buy := d.buy.map (Trade.shift n), sells := d.sells.map (Trade.shift n),
           caps := d.caps.map (fun c => (c.1 + n, c.2)) }

theorem Day.add_shift (d : Day) (i n : Nat) (op : Op) : (d.shift n).add (i + n) op = (d.add i op).shift n := by
  cases op <;> simp [Day.add, Day.shift, Trade.shift]
  cases d.buy <;> simp [Trade.shift]

theorem Day.merge_shift (a b : Day) (n : Nat) : (a.shift n).merge (b.shift n) = (a.merge b).shift n := by
  simp only [Day.merge, Day.shift, List.map_append]
  cases a.buy <;> cases b.buy <;> simp [Trade.shift]

theorem Day.shift_ord (d : Day) (n : Nat) : (d.shift n).ord = d.ord := rfl

theorem groupDays_shift (n : Nat) : ∀ xs : List (Nat × Tx),
    groupDays (xs.map (fun it => (it.1 + n, it.2))) = (groupDays xs).map (Day.shift n) := by
  intro xs
  induction xs with
  | nil => rfl
  | cons x xs ih =>
    obtain ⟨i, t⟩ := x
    have hf : (({ date := t.date } : Day).add (i + n) t.op) = (({ date := t.date } : Day).add i t.op).shift n := by
      rw [← Day.add_shift]; rfl
    simp only [List.map_cons, groupDays, ih]
    cases hg : groupDays xs with
    | nil => simp [hf]
    | cons d ds =>
      simp only [List.map_cons, Day.shift_ord]
      by_cases he : d.ord = t.ord
      · simp only [he, if_true, List.map_cons]
        rw [hf, Day.merge_shift]
      · simp only [he, if_false, List.map_cons]
        rw [hf]

theorem groupDays_head (i : Nat) (t : Tx) (rest : List (Nat × Tx)) :
    ∃ d ds, groupDays ((i, t) :: rest) = d :: ds ∧ d.ord = t.ord := by
  have hnew : (({ date := t.date } : Day).add i t.op).ord = t.ord := by
    unfold Day.ord Tx.ord; rw [Day.add_date]
  simp only [groupDays]
  split
  · exact ⟨_, _, rfl, hnew⟩
  · split
    · refine ⟨_, _, rfl, ?_⟩
      show (Day.merge _ _).date.ord = t.ord
      simp only [Day.merge]; exact hnew
    · exact ⟨_, _, rfl, hnew⟩

theorem groupDays_append : ∀ (X Y : List (Nat × Tx)), (∀ x ∈ X, ∀ y ∈ Y, x.2.ord ≠ y.2.ord) →
    groupDays (X ++ Y) = groupDays X ++ groupDays Y := by
  intro X
  induction X with
  | nil => intro Y _; rfl
  | cons x X ih =>
    intro Y h
    obtain ⟨i, t⟩ := x
    have ih' := ih Y (fun a ha => h a (by simp [ha]))
    simp only [List.cons_append, groupDays, ih']
    cases hX : groupDays X with
    | nil =>
      cases X with
      | cons x' X' =>
        obtain ⟨d, ds, hg, _⟩ := groupDays_head x'.1 x'.2 X'
        rw [show (x'.1, x'.2) = x' from rfl] at hg
        rw [hg] at hX; cases hX
      | nil =>
        simp only [List.nil_append]
        cases Y with
        | nil => simp [groupDays]
        | cons y Y' =>
          obtain ⟨d, ds, hg, hd⟩ := groupDays_head y.1 y.2 Y'
          rw [show (y.1, y.2) = y from rfl] at hg
          rw [hg]
          have : ¬ d.ord = t.ord := by
            rw [hd]; exact fun e => h (i, t) (by simp) y (by simp) e.symm
          simp [this]
    | cons d ds =>
      simp only [List.cons_append]
      split <;> rfl

theorem indexed_append (P Q : List Tx) :
    indexed (P ++ Q) = indexed P ++ (indexed Q).map (fun it => (it.1 + P.length, it.2)) := by
  unfold indexed
  rw [List.zipIdx_append, List.map_append, List.map_map]
  congr 1
  simp only [Nat.zero_add]
  rw [List.zipIdx_eq_map_add (i := P.length), List.map_map]
  apply List.map_congr_left
  rintro ⟨a, j⟩ _
  simp [Nat.add_comm]

theorem daysOf_append (t : String) (P Q : List Tx) (h : ∀ a ∈ P, ∀ b ∈ Q, a.ord ≠ b.ord) :
    daysOf t (P ++ Q) = daysOf t P ++ (daysOf t Q).map (Day.shift P.length) := by
  unfold daysOf
  rw [indexed_append, List.filter_append, ← groupDays_shift]
  have hf : ((indexed Q).map (fun it => (it.1 + P.length, it.2))).filter (fun it => decide (it.2.ticker = t))
      = ((indexed Q).filter (fun it => decide (it.2.ticker = t))).map (fun it => (it.1 + P.length, it.2)) := by
    rw [List.filter_map]; rfl
  rw [hf]
  apply groupDays_append
  intro x hx y hy
  simp only [List.mem_filter, List.mem_map] at hx hy
  obtain ⟨y0, ⟨hy0, _⟩, rfl⟩ := hy
  have mem : ∀ (L : List Tx) (z : Nat × Tx), z ∈ indexed L → z.2 ∈ L := by
    intro L z hz
    unfold indexed at hz
    simp only [List.mem_map] at hz
    obtain ⟨⟨a, j⟩, ha, rfl⟩ := hz
    have := List.mem_zipIdx ha
    simp only at this ⊢
    rw [this.2.2]; exact List.getElem_mem _
  exact h x.2 (mem P x hx.1) y0.2 (mem Q y0 hy0)


end Cgt
