import CgtModel.CostOffsets
/-! The cost pre-pass: a capital return / accumulation moves the allowable expenditure of the lots
    held by exactly its amount. -/
namespace Cgt

def offSum (lots : List Lot) : Rat := rsum (lots.map (·.off))

def adjStep (adj th : Rat) (l : Lot) : Lot :=
  if l.held > 0 then { l with off := l.off + adj * (l.held / th) } else l

theorem applyAdj_eq (adj : Rat) (lots : List Lot) (h : totalHeld lots ≠ 0) :
    applyAdj adj lots = lots.map (adjStep adj (totalHeld lots)) := by
  unfold applyAdj; simp only [h, if_false]; rfl

/-- no shares held: the event has no effect -/
theorem applyAdj_none_held (adj : Rat) (lots : List Lot) (h : totalHeld lots = 0) :
    applyAdj adj lots = lots := by unfold applyAdj; simp [h]

theorem adjStep_held (adj th : Rat) (l : Lot) : (adjStep adj th l).held = l.held := by
  unfold adjStep; split <;> rfl

theorem map_adjStep_sum (adj th : Rat) (hth : th ≠ 0) : ∀ (lots : List Lot), (∀ l ∈ lots, 0 ≤ l.held) →
    offSum (lots.map (adjStep adj th)) = offSum lots + adj * (totalHeld lots / th) := by
  intro lots
  induction lots with
  | nil => intro _; simp [offSum, totalHeld]; grind
  | cons l ls ih =>
    intro h
    have hl := h l (by simp)
    have ih' := ih (fun x hx => h x (by simp [hx]))
    simp only [offSum, totalHeld, List.map_cons, rsum_cons] at ih' ⊢
    rw [ih']
    unfold adjStep
    by_cases hp : l.held > 0
    · simp only [hp, if_true]; grind
    · have : l.held = 0 := by grind
      simp only [hp, if_false, this]; grind

/-- **an effective event moves the total offset of the lots by exactly its amount** -/
theorem applyAdj_sum (adj : Rat) (lots : List Lot) (hnn : ∀ l ∈ lots, 0 ≤ l.held)
    (hth : totalHeld lots ≠ 0) : offSum (applyAdj adj lots) = offSum lots + adj := by
  rw [applyAdj_eq adj lots hth, map_adjStep_sum adj _ hth lots hnn]
  have : totalHeld lots / totalHeld lots = 1 := by grind
  rw [this]; grind

/-- the adjustment only touches offsets: quantities, prices, fees, consumption stay -/
theorem applyAdj_shape (adj : Rat) (lots : List Lot) :
    (applyAdj adj lots).map (fun l => (l.ord, l.q, l.p, l.f, l.consumed))
      = lots.map (fun l => (l.ord, l.q, l.p, l.f, l.consumed)) := by
  by_cases hth : totalHeld lots = 0
  · rw [applyAdj_none_held adj lots hth]
  · rw [applyAdj_eq adj lots hth]
    simp only [List.map_map]
    apply List.map_congr_left
    intro l _
    simp only [Function.comp, adjStep]
    split <;> rfl

/-- a lot with no shares left is never touched -/
theorem applyAdj_spent_untouched (adj : Rat) (lots : List Lot) (l : Lot) (hl : l ∈ lots)
    (h : ¬ l.held > 0) : l ∈ applyAdj adj lots := by
  by_cases hth : totalHeld lots = 0
  · rw [applyAdj_none_held adj lots hth]; exact hl
  · rw [applyAdj_eq adj lots hth]
    simp only [List.mem_map]
    exact ⟨l, hl, by simp [adjStep, h]⟩

theorem totalHeld_applyAdj (adj : Rat) (lots : List Lot) : totalHeld (applyAdj adj lots) = totalHeld lots := by
  by_cases hth : totalHeld lots = 0
  · rw [applyAdj_none_held adj lots hth]
  · rw [applyAdj_eq adj lots hth]
    unfold totalHeld
    simp only [List.map_map]
    congr 1
    apply List.map_congr_left
    intro l _
    simp only [Function.comp]
    exact adjStep_held _ _ _

/-- an accumulation and a capital return of equal net amount on the same holdings cancel -/
theorem applyAdj_cancel (v : Rat) (lots : List Lot) :
    (applyAdj (-v) (applyAdj v lots)).map (·.off) = lots.map (·.off) := by
  by_cases hth : totalHeld lots = 0
  · rw [applyAdj_none_held v lots hth, applyAdj_none_held (-v) lots hth]
  · have hth' : totalHeld (applyAdj v lots) ≠ 0 := by rw [totalHeld_applyAdj]; exact hth
    rw [applyAdj_eq (-v) _ hth', totalHeld_applyAdj, applyAdj_eq v lots hth]
    simp only [List.map_map]
    apply List.map_congr_left
    intro l _
    simp only [Function.comp]
    have hh : (adjStep v (totalHeld lots) l).held = l.held := adjStep_held _ _ _
    unfold adjStep at hh ⊢
    by_cases hp : l.held > 0
    · simp only [hp, if_true] at hh ⊢
      have : ({ l with off := l.off + v * (l.held / totalHeld lots) } : Lot).held > 0 := by rw [hh]; exact hp
      simp only [this, if_true]
      simp only [Lot.held] at *
      grind
    · simp only [hp, if_false]

/-- refusal test of a capital return: the model refuses exactly when the net amount exceeds the
    adjusted cost of the lots still held -/
theorem applyCaps_refuses (t : String) (ord : Int) (idx : Nat) (net : Rat) (cs : List (Nat × Rat))
    (lots : List Lot) (hne : lots.isEmpty = false) (h : net > totalAdjCost lots) :
    applyCaps t ord ((idx, net) :: cs) lots = .error ⟨.capReturnExceedsCost, t, ord, 0, 0, idx⟩ := by
  simp [applyCaps, hne, h]

end Cgt
