import CgtModel.Matcher
/-! Accounting lemmas for the 30-day look-ahead. -/
namespace Cgt

def legQty (ls : List Leg) : Rat := rsum (ls.map (·.qty))

@[simp] theorem legQty_nil : legQty [] = 0 := rfl
@[simp] theorem legQty_cons (l : Leg) (ls : List Leg) : legQty (l :: ls) = l.qty + legQty ls := rfl
theorem legQty_append (a b : List Leg) : legQty (a ++ b) = legQty a + legQty b := by
  simp [legQty, rsum_append]

theorem rat_div_pos {a k : Rat} (ha : 0 < a) (hk : 0 < k) : 0 < a / k := by
  have : 0 < k⁻¹ := Rat.inv_pos.mpr hk
  rw [Rat.div_def]; exact Rat.mul_pos ha this

def ratiosPos : List Day → Prop
  | [] => True
  | e :: rest => 0 < e.r ∧ ratiosPos rest

theorem outK_scale (fs : List Day) : ∀ (k : Rat) (cl : List Rat), k ≠ 0 → ratiosPos fs →
    outK k fs cl = outK 1 fs cl / k := by
  induction fs with
  | nil => intro k cl _ _; simp [outK]; grind
  | cons e rest ih =>
    intro k cl hk hp
    obtain ⟨her, hrest⟩ := hp
    have her0 : e.r ≠ 0 := by grind
    have hke : k * e.r ≠ 0 := by grind
    have h1e : (1 : Rat) * e.r ≠ 0 := by grind
    simp only [outK]
    rw [ih (k * e.r) cl.tail hke hrest, ih (1 * e.r) cl.tail h1e hrest]
    grind

@[simp] theorem mkLeg_qty (d : Date) (r : Rule) (m c : Rat) (s : Trade) (a : Option Date) :
    (mkLeg d r m c s a).qty = m := rfl
@[simp] theorem mkLeg_sellDate (d : Date) (r : Rule) (m c : Rat) (s : Trade) (a : Option Date) :
    (mkLeg d r m c s a).sellDate = d := rfl

/-- what the look-ahead matched is exactly what it added to the outstanding claims, the remainder
    never goes negative, never grows -/
theorem lookahead_accounts (w : Int) (d0 : Date) (s : Trade) (fs : List Day) :
    ∀ (rem k : Rat) (cl : List Rat), 0 < k → ratiosPos fs → 0 ≤ rem →
      let r := lookahead w d0 s rem k fs cl
      legQty r.2.1 = rem - r.2.2 ∧ outK k fs r.1 = outK k fs cl + (rem - r.2.2) ∧
        0 ≤ r.2.2 ∧ r.2.2 ≤ rem ∧ (∀ l ∈ r.2.1, 0 ≤ l.qty ∧ l.sellDate = d0) := by
  induction fs with
  | nil => intro rem k cl hk _ hr; simp [lookahead, outK]; grind
  | cons e rest ih =>
    intro rem k cl hk hpos hrem
    obtain ⟨her, hrest⟩ := hpos
    have hk' : 0 < k * e.r := Rat.mul_pos hk her
    simp only [lookahead]
    split
    · simp; grind
    · split
      · simp; grind
      · split
        · have h := ih rem (k * e.r) cl.tail hk' hrest hrem
          simp only [outK, List.headD_cons, List.tail_cons] at h ⊢
          grind
        · split
          · have h := ih rem (k * e.r) cl.tail hk' hrest hrem
            simp only [outK, List.headD_cons, List.tail_cons] at h ⊢
            grind
          · rename_i b _ ha
            have hk0 : k ≠ 0 := by grind
            have hapos : 0 < availFor e (cl.headD 0) / k := by
              have : 0 < availFor e (cl.headD 0) := by grind
              exact rat_div_pos this hk
            have hms : 0 ≤ min rem (availFor e (cl.headD 0) / k) := by grind
            have hle : min rem (availFor e (cl.headD 0) / k) ≤ rem := by grind
            have h := ih (rem - min rem (availFor e (cl.headD 0) / k)) (k * e.r) cl.tail hk' hrest (by grind)
            simp only [outK, List.headD_cons, List.tail_cons, legQty_cons, mkLeg_qty] at h ⊢
            have : (cl.headD 0 + min rem (availFor e (cl.headD 0) / k) * k) / k
                  = cl.headD 0 / k + min rem (availFor e (cl.headD 0) / k) := by grind
            refine ⟨by grind, by grind, by grind, by grind, ?_⟩
            intro l hl
            simp only [List.mem_cons] at hl
            rcases hl with rfl | hl
            · simp at hms ⊢; exact hms
            · exact h.2.2.2.2 l hl

end Cgt
