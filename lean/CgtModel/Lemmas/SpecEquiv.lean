import CgtModel.Spec
import CgtModel.Lemmas.Conserve
import CgtModel.Lemmas.Usage
import CgtModel.Lemmas.Cost
import CgtModel.Lemmas.PrepassAppend
/-! The matcher model and the independent statutory evaluation `Spec` agree on one security's day list
    (at most one SELL line per day, no cost offsets). Part A: the 30-day look-ahead of one disposal is
    the disposal's row of `Spec`'s claims matrix. -/
set_option linter.unusedSimpArgs false
set_option linter.unusedVariables false
namespace Cgt
open Spec

/-- a day of the matcher as a day of `Spec`'s table -/
def ofDay (d : Day) : SDay :=
  { date := d.date
    B := d.B
    Bcost := match d.buy with | some b => b.q * b.p + b.f + d.offset | none => 0
    S := d.S
    Sgross := rsum (d.sells.map (fun s => s.q * s.p))
    Sfees := rsum (d.sells.map (·.f))
    r := d.r }

/-- what is compared of a leg: rule, quantity, allowable cost, acquisition date -/
def legView (l : Leg) : Rule × Rat × Rat × Option Date := (l.rule, l.qty, l.cost, l.acq)
def slegView (l : SLeg) : Rule × Rat × Rat × Option Date := (l.rule, l.qty, l.cost, l.acq)

theorem claimedOn_nil (j : Nat) : claimedOn [] j = 0 := rfl
theorem claimedOn_append (a b : List Claim) (j : Nat) : claimedOn (a ++ b) j = claimedOn a j + claimedOn b j := by
  simp [claimedOn, List.filter_append, rsum_append]
theorem claimedOn_cons (c : Claim) (cs : List Claim) (j : Nat) :
    claimedOn (c :: cs) j = (if c.j = j then c.xk else 0) + claimedOn cs j := by
  unfold claimedOn
  by_cases h : c.j = j
  · simp [List.filter_cons, h]
  · simp [List.filter_cons, h]; grind

/-- claims of one row: all for disposal day `i`, on days `≥ j0` -/
theorem row_fields (w : Int) (i : Nat) (di : Date) (cs : List Claim) : ∀ (rest : List SDay) (j : Nat) (rem k : Rat),
    ∀ c ∈ row w i di cs j rem k rest, c.i = i ∧ j ≤ c.j ∧ c.j < j + rest.length := by
  intro rest
  induction rest with
  | nil => intro j rem k c hc; simp [row] at hc
  | cons e rest ih =>
    intro j rem k c hc
    simp only [row] at hc
    split at hc
    · simp at hc
    · split at hc
      · simp at hc
      · split at hc
        · simp only [List.mem_cons] at hc
          rcases hc with rfl | hc
          · exact ⟨rfl, Nat.le_refl _, by simp⟩
          · have := ih (j + 1) _ _ c hc
            simp only [List.length_cons]; omega
        · have := ih (j + 1) _ _ c hc
          simp only [List.length_cons]; omega

theorem claimedOn_row_below (w : Int) (i : Nat) (di : Date) (cs : List Claim) (rest : List SDay) (j : Nat) (rem k : Rat)
    (t : Nat) (ht : t < j) : claimedOn (row w i di cs j rem k rest) t = 0 := by
  unfold claimedOn
  have : (row w i di cs j rem k rest).filter (fun c => decide (c.j = t)) = [] := by
    rw [List.filter_eq_nil_iff]
    intro c hc
    have := (row_fields w i di cs rest j rem k c hc).2.1
    simp only [decide_eq_true_eq]; omega
  rw [this]; rfl

theorem ofDay_S (d : Day) : (ofDay d).S = d.S := rfl
theorem ofDay_B (d : Day) : (ofDay d).B = d.B := rfl

theorem availFor_eq (e : Day) (c : Rat) (hS : 0 ≤ e.S) :
    availFor e c = max 0 ((ofDay e).B - sameDay (ofDay e) - c) := by
  unfold availFor sameDay
  have : max e.S 0 = e.S := by grind
  rw [this]; rfl

/-- **Part A**: the look-ahead of a disposal (remaining `rem`, factor `k`) over the later days `fs`,
    with the claims `cl` that earlier disposals hold on them, is that disposal's row of the claims
    matrix: same remaining quantity, same new claims, same legs (rule, quantity, cost, date) -/
theorem lookahead_row (w : Int) (i : Nat) (d0 : Date) (s : Trade) (cs : List Claim)
    (dateAt : Nat → Date) (ucAt : Nat → Rat) :
    ∀ (fs : List Day) (j : Nat) (rem k : Rat) (cl : List Rat),
      (∀ e ∈ fs, 0 ≤ e.S) →
      (∀ m, m < fs.length → cl.getD m 0 = claimedOn cs (j + m)) →
      (∀ m, m < fs.length → 0 ≤ cl.getD m 0) →
      (∀ m e, fs[m]? = some e → dateAt (j + m) = e.date ∧ ucAt (j + m) = (match e.buy with | some b => unitCost b e.offset | none => 0)) →
      let r := lookahead w d0 s rem k fs cl
      let new := row w i d0 cs j rem k (fs.map ofDay)
      r.2.2 = rem - rsum (new.map (·.x)) ∧
      (∀ m, m < fs.length → r.1.getD m 0 = claimedOn cs (j + m) + claimedOn new (j + m)) ∧
      r.2.1.map legView = new.map (fun c => (Rule.bedAndBreakfast, c.x, c.xk * ucAt c.j, some (dateAt c.j))) := by
  intro fs
  induction fs with
  | nil =>
    intro j rem k cl _ _ _ _
    simp [lookahead, row]; grind
  | cons e rest ih =>
    intro j rem k cl hS hcl hnn hat
    have hSe := hS e (by simp)
    have hSrest : ∀ x ∈ rest, 0 ≤ x.S := fun x hx => hS x (by simp [hx])
    have hcl0 : cl.headD 0 = claimedOn cs j := by
      have := hcl 0 (by simp); rw [headD_getD]; simpa using this
    have hc0 : 0 ≤ claimedOn cs j := by
      have := hnn 0 (by simp); rw [hcl 0 (by simp)] at this; simpa using this
    have hclrest : ∀ m, m < rest.length → cl.tail.getD m 0 = claimedOn cs (j + 1 + m) := by
      intro m hm
      rw [getD_tail]
      have := hcl (m + 1) (by simp; omega)
      rw [this]; congr 1; omega
    have hnnrest : ∀ m, m < rest.length → 0 ≤ cl.tail.getD m 0 := by
      intro m hm
      rw [getD_tail]; exact hnn (m + 1) (by simp; omega)
    have hatrest : ∀ m x, rest[m]? = some x → dateAt (j + 1 + m) = x.date ∧ ucAt (j + 1 + m) = (match x.buy with | some b => unitCost b x.offset | none => 0) := by
      intro m x hx
      have := hat (m + 1) x (by simpa using hx)
      have e1 : j + (m + 1) = j + 1 + m := by omega
      rw [e1] at this; exact this
    obtain ⟨hdate0, huc0⟩ := hat 0 e (by simp)
    simp only [Nat.add_zero] at hdate0 huc0
    -- the recursive call, as the induction hypothesis gives it
    have IH := fun rem' => ih (j + 1) rem' (k * e.r) cl.tail hSrest hclrest hnnrest hatrest
    -- results of the "skip this day" shape
    have skip : ∀ (c : Rat), c = claimedOn cs j →
        let r := lookahead w d0 s rem (k * e.r) rest cl.tail
        let new := row w i d0 cs (j + 1) rem (k * e.r) (rest.map ofDay)
        r.2.2 = rem - rsum (new.map (·.x)) ∧
        (∀ m, m < (e :: rest).length → (c :: r.1).getD m 0 = claimedOn cs (j + m) + claimedOn new (j + m)) ∧
        r.2.1.map legView = new.map (fun c => (Rule.bedAndBreakfast, c.x, c.xk * ucAt c.j, some (dateAt c.j))) := by
      intro c hc
      obtain ⟨h1, h2, h3⟩ := IH rem
      refine ⟨h1, ?_, h3⟩
      intro m hm
      cases m with
      | zero =>
        simp only [List.getD_cons_zero, Nat.add_zero]
        rw [claimedOn_row_below w i d0 cs _ (j + 1) rem (k * e.r) j (by omega), hc]; grind
      | succ m =>
        simp only [List.getD_cons_succ]
        have := h2 m (by simp at hm; omega)
        have e1 : j + (m + 1) = j + 1 + m := by omega
        rw [e1]; exact this
    simp only [lookahead, List.map_cons, row]
    have hord : (ofDay e).date.ord = e.ord := rfl
    rw [hord]
    by_cases hrem : rem ≤ 0
    · simp only [hrem, if_true, List.map_nil, rsum_nil]
      refine ⟨by grind, ?_, trivial⟩
      intro m hm
      rw [hcl m hm, claimedOn_nil]; grind
    · simp only [hrem, if_false]
      by_cases hwin : e.ord - d0.ord > w
      · simp only [hwin, if_true, List.map_nil, rsum_nil]
        refine ⟨by grind, ?_, trivial⟩
        intro m hm
        rw [hcl m hm, claimedOn_nil]; grind
      · simp only [hwin, if_false]
        have hfree : availFor e (cl.headD 0) = max 0 ((ofDay e).B - sameDay (ofDay e) - claimedOn cs j) := by
          rw [availFor_eq e _ hSe, hcl0]
        cases hb : e.buy with
        | none =>
          have hB0 : (ofDay e).B = 0 := by simp [ofDay, Day.B, hb]
          have hsd0 : sameDay (ofDay e) = 0 := by
            unfold sameDay; rw [hB0, ofDay_S]; grind
          have hnf : ¬ ((ofDay e).B - sameDay (ofDay e) - claimedOn cs j > 0) := by rw [hB0, hsd0]; grind
          simp only [hnf, if_false]
          exact skip (cl.headD 0) hcl0
        | some b =>
          simp only
          by_cases hfr : (ofDay e).B - sameDay (ofDay e) - claimedOn cs j > 0
          · have ha : ¬ availFor e (cl.headD 0) ≤ 0 := by rw [hfree]; grind
            have haeq : availFor e (cl.headD 0) = (ofDay e).B - sameDay (ofDay e) - claimedOn cs j := by rw [hfree]; grind
            have hfr' : ¬ ((ofDay e).B - sameDay (ofDay e) - claimedOn cs j ≤ 0) := by grind
            have hr : (ofDay e).r = e.r := rfl
            simp only [ha, hfr, if_true, if_false, haeq, hfr', hr]
            obtain ⟨h1, h2, h3⟩ := IH (rem - min rem (((ofDay e).B - sameDay (ofDay e) - claimedOn cs j) / k))
            refine ⟨?_, ?_, ?_⟩
            · simp only [List.map_cons, rsum_cons]; rw [h1]; grind
            · intro m hm
              cases m with
              | zero =>
                simp only [List.getD_cons_zero, Nat.add_zero, claimedOn_cons, if_true]
                rw [claimedOn_row_below w i d0 cs _ (j + 1) _ (k * e.r) j (by omega), hcl0]; grind
              | succ m =>
                simp only [List.getD_cons_succ, claimedOn_cons]
                have := h2 m (by simp at hm; omega)
                have e1 : j + (m + 1) = j + 1 + m := by omega
                have hne : ¬ (j = j + (m + 1)) := by omega
                rw [e1] at hne ⊢
                simp only [hne, if_false]
                rw [this]; grind
            · simp only [List.map_cons, h3]
              congr 1
              simp only [legView, mkLeg, hdate0, huc0, hb]
          · have ha : availFor e (cl.headD 0) ≤ 0 := by rw [hfree]; grind
            simp only [ha, hfr, if_true, if_false]
            exact skip (cl.headD 0) hcl0


/-! Part B: the claims matrix, row by row -/

/-- the row of disposal day `i` (first day of `ds`) -/
def rowOf (w : Int) (i : Nat) (cs : List Claim) (d : SDay) (rest : List SDay) : List Claim :=
  if d.S > 0 then row w i d.date cs (i + 1) (d.S - sameDay d) d.r rest else []

theorem claims_cons (w : Int) (i : Nat) (cs : List Claim) (d : SDay) (rest : List SDay) :
    claims w i cs (d :: rest) = claims w (i + 1) (cs ++ rowOf w i cs d rest) rest := rfl

theorem rowOf_fields (w : Int) (i : Nat) (cs : List Claim) (d : SDay) (rest : List SDay) :
    ∀ c ∈ rowOf w i cs d rest, c.i = i ∧ i + 1 ≤ c.j ∧ c.j < i + 1 + rest.length := by
  intro c hc
  unfold rowOf at hc
  split at hc
  · exact row_fields w i d.date cs rest (i + 1) _ _ c hc
  · simp at hc

/-- everything pass 2 adds from row `i` on belongs to disposal days `≥ i` and claims later days -/
theorem claims_ext (w : Int) : ∀ (ds : List SDay) (i : Nat) (cs : List Claim),
    ∃ new, claims w i cs ds = cs ++ new ∧ ∀ c ∈ new, i ≤ c.i ∧ c.i < c.j := by
  intro ds
  induction ds with
  | nil => intro i cs; exact ⟨[], by simp [claims], by simp⟩
  | cons d rest ih =>
    intro i cs
    obtain ⟨new, hnew, hf⟩ := ih (i + 1) (cs ++ rowOf w i cs d rest)
    refine ⟨rowOf w i cs d rest ++ new, by rw [claims_cons, hnew]; simp, ?_⟩
    intro c hc
    simp only [List.mem_append] at hc
    rcases hc with hc | hc
    · have := rowOf_fields w i cs d rest c hc; omega
    · have := hf c hc; omega

/-- the final claims, seen from day `i`: the claims of earlier rows, row `i`, and later rows -/
theorem claims_split (w : Int) (i : Nat) (cs : List Claim) (d : SDay) (rest : List SDay) (hcs : ∀ c ∈ cs, c.i < i) :
    (claims w i cs (d :: rest)).filter (fun c => c.i = i) = rowOf w i cs d rest ∧
    claimedOn (claims w i cs (d :: rest)) i = claimedOn cs i := by
  obtain ⟨new, hnew, hf⟩ := claims_ext w rest (i + 1) (cs ++ rowOf w i cs d rest)
  rw [claims_cons, hnew]
  constructor
  · simp only [List.filter_append]
    have h1 : cs.filter (fun c => decide (c.i = i)) = [] := by
      rw [List.filter_eq_nil_iff]; intro c hc; have := hcs c hc; simp only [decide_eq_true_eq]; omega
    have h2 : new.filter (fun c => decide (c.i = i)) = [] := by
      rw [List.filter_eq_nil_iff]; intro c hc; have := hf c hc; simp only [decide_eq_true_eq]; omega
    have h3 : (rowOf w i cs d rest).filter (fun c => decide (c.i = i)) = rowOf w i cs d rest := by
      rw [List.filter_eq_self]; intro c hc; simp [(rowOf_fields w i cs d rest c hc).1]
    rw [h1, h2, h3]; simp
  · rw [claimedOn_append, claimedOn_append]
    have h1 : claimedOn (rowOf w i cs d rest) i = 0 := by
      unfold claimedOn
      have : (rowOf w i cs d rest).filter (fun c => decide (c.j = i)) = [] := by
        rw [List.filter_eq_nil_iff]; intro c hc; have := rowOf_fields w i cs d rest c hc; simp only [decide_eq_true_eq]; omega
      rw [this]; rfl
    have h2 : claimedOn new i = 0 := by
      unfold claimedOn
      have : new.filter (fun c => decide (c.j = i)) = [] := by
        rw [List.filter_eq_nil_iff]; intro c hc; have := hf c hc; simp only [decide_eq_true_eq]; omega
      rw [this]; rfl
    rw [h1, h2]; grind


/-! Part C: one day of pass 3 -/

/-- one day of `Spec.walk`, as a function of that day's row (`mine`) and of the claims earlier rows hold
    on the day (`claimedI`) -/
def dayOut (tbl : List SDay) (mine : List Claim) (claimedI pq pc : Rat) (d : SDay) : List SDisposal × Rat × Rat :=
  let sd := sameDay d
  let bnb := rsum (mine.map (·.x))
  let fromPool := d.S - sd - bnb
  let poolCost := if pq = 0 then 0 else fromPool * (pc / pq)
  let legs : List SLeg :=
    (if sd > 0 then [⟨.sameDay, sd, sd * Spec.unitCost d, some d.date⟩] else []) ++
    mine.map (fun c => ⟨.bedAndBreakfast, c.x, c.xk * Spec.unitCost (dayAt tbl c.j), some (dayAt tbl c.j).date⟩) ++
    (if fromPool > 0 then [⟨.section104, fromPool, poolCost, none⟩] else [])
  let cost := rsum (legs.map (·.cost))
  let net := d.Sgross - d.Sfees
  let disp : List SDisposal :=
    if d.S > 0 then [{ date := d.date, qty := d.S, gross := d.Sgross, net := net, gain := net - cost, legs := legs }] else []
  let keep := d.B - sd - claimedI
  let pq1 := pq - (if fromPool > 0 then fromPool else 0) + keep
  let pc1 := pc - (if fromPool > 0 then poolCost else 0) + keep * Spec.unitCost d
  (disp, pq1 * d.r, pc1)

theorem walk_cons (tbl : List SDay) (cs : List Claim) (i : Nat) (pq pc : Rat) (d : SDay) (rest : List SDay) :
    walk tbl cs i pq pc (d :: rest) =
      (let o := dayOut tbl (cs.filter (fun c => c.i = i)) (claimedOn cs i) pq pc d
       let r := walk tbl cs (i + 1) o.2.1 o.2.2 rest
       (o.1 ++ r.1, r.2.1, r.2.2)) := rfl

theorem unitCost_ofDay (d : Day) : Spec.unitCost (ofDay d) = dayUnit d := by
  unfold Spec.unitCost dayUnit ofDay Day.B
  cases hb : d.buy with
  | none => simp
  | some b =>
    simp only [unitCost]
    by_cases hq : b.q = 0
    · simp [hq]
    · simp [hq]

/-- a day without a SELL line -/
theorem dayStep_nosell (t : String) (w : Int) (pool pool1 : Option Pool) (d : Day) (claimed : Rat) (rest : List Day)
    (cl cl1 : List Rat) (legs1 : List Leg) (tbl : List SDay) (mine : List Claim)
    (hs : d.sells = []) (hB : 0 ≤ d.B) (hc0 : 0 ≤ claimed) (hc1 : claimed ≤ d.B)
    (hmine : mine = [])
    (h : dayStep t w pool d claimed rest cl = .ok (pool1, cl1, legs1)) :
    let out := dayOut tbl mine claimed (poolQ' pool) (poolC' pool) (ofDay d)
    out.1 = [] ∧ out.2.1 = poolQ' pool1 ∧ out.2.2 = poolC' pool1 ∧ legs1 = [] ∧ cl1 = cl := by
  have hS0 : (ofDay d).S = 0 := by simp [ofDay, Day.S, hs]
  have hsd : sameDay (ofDay d) = 0 := by unfold sameDay; rw [hS0, ofDay_B]; grind
  unfold dayStep at h
  have hstage : buyStage t d claimed = .ok (d.B - claimed) := by
    unfold buyStage Day.B
    cases hb : d.buy with
    | none =>
      have : d.B = 0 := by simp [Day.B, hb]
      have : claimed = 0 := by grind
      simp [this]; grind
    | some b =>
      have : d.B = b.q := by simp [Day.B, hb]
      have : ¬ claimed > b.q := by grind
      simp [this]
  rw [hstage] at h
  simp only [hs, sellsStep, Except.ok.injEq, Prod.mk.injEq] at h
  obtain ⟨hp, rfl, rfl⟩ := h
  subst hmine
  have hav : 0 ≤ d.B - claimed := by grind
  have hq := poolAfter_q d ⟨pool, d.B - claimed⟩ hav (by
    intro hb; have : d.B = 0 := by simp [Day.B, hb]
    simp only; grind)
  have hcst := poolAfter_c d ⟨pool, d.B - claimed⟩ hav
  rw [hp] at hq hcst
  simp only at hq hcst
  refine ⟨?_, ?_, ?_, rfl, rfl⟩
  · simp [dayOut, hS0]
  · simp only [dayOut, hS0, hsd, List.map_nil, rsum_nil, ofDay_B]
    rw [hq]
    have : (ofDay d).r = d.r := rfl
    rw [this]
    have e1 : ¬ ((0 : Rat) - 0 - 0 > 0) := by grind
    simp only [e1, if_false]; grind
  · simp only [dayOut, hS0, hsd, List.map_nil, rsum_nil, ofDay_B]
    rw [hcst, unitCost_ofDay d]
    have e1 : ¬ ((0 : Rat) - 0 - 0 > 0) := by grind
    simp only [e1, if_false]
    cases hb : d.buy with
    | none =>
      have : d.B = 0 := by simp [Day.B, hb]
      have : claimed = 0 := by grind
      simp; grind
    | some b => simp; grind


theorem claimsOk_nonneg : ∀ (fs : List Day) (cl : List Rat), claimsOk fs cl → ∀ m, m < fs.length → 0 ≤ cl.getD m 0 := by
  intro fs
  induction fs with
  | nil => intro cl _ m hm; simp at hm
  | cons e rest ih =>
    intro cl h m hm
    obtain ⟨h0, _, hr⟩ := h
    cases m with
    | zero => rw [← headD_getD]; exact h0
    | succ m => rw [← getD_tail]; exact ih cl.tail hr m (by simp at hm; omega)

/-- Same-Day part of the day's single SELL: `min(bought, sold)` -/
theorem sameDayPart_eq (d : Day) (claimed : Rat) (s : Trade) (hB : 0 ≤ d.B) (hs : 0 ≤ s.q) (hc0 : 0 ≤ claimed)
    (hc1 : claimed + min d.B (max s.q 0) ≤ d.B) :
    (sameDayPart d (d.B - claimed) s).1 = min d.B s.q ∧
    (sameDayPart d (d.B - claimed) s).2.map legView =
      (if min d.B s.q > 0 then [(Rule.sameDay, min d.B s.q, min d.B s.q * dayUnit d, some d.date)] else []) := by
  have hmx : max s.q 0 = s.q := by grind
  rw [hmx] at hc1
  unfold sameDayPart dayUnit
  cases hb : d.buy with
  | none =>
    have : d.B = 0 := by simp [Day.B, hb]
    rw [this]
    have : min (0 : Rat) s.q = 0 := by grind
    simp [this]
  | some b =>
    have hBq : d.B = b.q := by simp [Day.B, hb]
    rw [hBq] at hc1 hB ⊢
    simp only
    by_cases hcond : b.q - claimed > 0 ∧ s.q > 0
    · have hm : min s.q (b.q - claimed) = min b.q s.q := by grind
      have hpos : min b.q s.q > 0 := by grind
      simp only [hcond, and_self, if_true, hm, hpos, List.map_cons, List.map_nil, legView, mkLeg]
      first | done | exact ⟨rfl, rfl⟩ | exact ⟨trivial, trivial⟩
    · have hz : min b.q s.q = 0 := by grind
      have hnp : ¬ (min b.q s.q > 0) := by grind
      simp only [hcond, if_false, hz, List.map_nil]
      first | done | simp

/-- Section 104 part when the SELL is fully matched -/
theorem poolPart_eq (d : Day) (pool : Option Pool) (rem : Rat) (s : Trade) (hrem : 0 ≤ rem)
    (hdone : ¬ (poolPart d pool rem s).2.1 > 0) :
    let cost := if poolQ' pool = 0 then 0 else rem * (poolC' pool / poolQ' pool)
    poolQ' (poolPart d pool rem s).1 = poolQ' pool - (if rem > 0 then rem else 0) ∧
    poolC' (poolPart d pool rem s).1 = poolC' pool - (if rem > 0 then cost else 0) ∧
    (poolPart d pool rem s).2.2.map legView = (if rem > 0 then [(Rule.section104, rem, cost, none)] else []) := by
  unfold poolPart at hdone ⊢
  by_cases hr : rem > 0
  · simp only [hr, if_true] at hdone ⊢
    cases hp : pool with
    | none => rw [hp] at hdone; simp only at hdone; exact absurd hr hdone
    | some p =>
      rw [hp] at hdone
      simp only at hdone ⊢
      by_cases hz : p.q = 0 ∨ s.q = 0
      · simp only [hz, if_true] at hdone; exact absurd hr hdone
      · simp only [hz, if_false] at hdone ⊢
        by_cases hm : min rem p.q = 0
        · simp only [hm, if_true] at hdone; exact absurd hr hdone
        · simp only [hm, if_false] at hdone ⊢
          have hmr : min rem p.q = rem := by grind
          have hq0 : p.q ≠ 0 := by grind
          simp only [poolQ', poolC', hmr, hq0, if_false, List.map_cons, List.map_nil, legView, mkLeg]
          exact ⟨trivial, trivial, trivial⟩
  · have : rem = 0 := by grind
    simp only [hr, if_false, List.map_nil]
    exact ⟨by grind, by grind, trivial⟩


theorem sellsStep_single (t : String) (w : Int) (d : Day) (future : List Day) (st st' : MState) (s : Trade)
    (cl cl' : List Rat) (legs : List Leg) (h : sellsStep t w d future st [s] cl = .ok (st', cl', legs)) :
    sellStep t w d st s future cl = .ok (st', cl', legs) := by
  simp only [sellsStep] at h
  split at h
  · cases h
  · rename_i st1 cl1 legs1 h1
    simp only [List.append_nil, Except.ok.injEq, Prod.mk.injEq] at h
    obtain ⟨rfl, rfl, rfl⟩ := h
    exact h1

/-- a day with exactly one SELL line: the day's legs, the pool after the day and the claims carried
    on are those of `Spec`'s row and walk step -/
theorem dayStep_onesell (t : String) (w : Int) (pool pool1 : Option Pool) (d : Day) (claimed : Rat) (rest : List Day)
    (cl cl1 : List Rat) (legs1 : List Leg) (tbl : List SDay) (i : Nat) (cs : List Claim) (s : Trade)
    (hs : d.sells = [s]) (hok : d.ok)
    (hc0 : 0 ≤ claimed) (hc1 : claimed + min d.B (max d.S 0) ≤ d.B)
    (hcl : claimsOk rest cl) (hpos : ratiosPos rest) (hSrest : ∀ e ∈ rest, 0 ≤ e.S)
    (halign : ∀ m, m < rest.length → cl.getD m 0 = claimedOn cs (i + 1 + m))
    (hat : ∀ m e, rest[m]? = some e → (dayAt tbl (i + 1 + m)).date = e.date ∧
      Spec.unitCost (dayAt tbl (i + 1 + m)) = (match e.buy with | some b => unitCost b e.offset | none => 0))
    (h : dayStep t w pool d claimed rest cl = .ok (pool1, cl1, legs1)) :
    let rw_ := rowOf w i cs (ofDay d) (rest.map ofDay)
    let out := dayOut tbl rw_ claimed (poolQ' pool) (poolC' pool) (ofDay d)
    out.2.1 = poolQ' pool1 ∧ out.2.2 = poolC' pool1 ∧
    legs1.map legView = out.1.flatMap (fun dsp => dsp.legs.map slegView) ∧
    (∀ m, m < rest.length → cl1.getD m 0 = claimedOn cs (i + 1 + m) + claimedOn rw_ (i + 1 + m)) := by
  obtain ⟨hr, hss, hB⟩ := hok
  have hsq : 0 ≤ s.q := hss s (by rw [hs]; simp)
  have hS : d.S = s.q := by simp [Day.S, hs]; grind
  have hSS : (ofDay d).S = s.q := by rw [ofDay_S, hS]
  rw [hS] at hc1
  have hclaimB : claimed ≤ d.B := by grind
  -- the BUY stage
  unfold dayStep at h
  have hstage : buyStage t d claimed = .ok (d.B - claimed) := by
    unfold buyStage Day.B
    cases hb : d.buy with
    | none =>
      have : d.B = 0 := by simp [Day.B, hb]
      have : claimed = 0 := by grind
      simp [this]; grind
    | some b =>
      have : d.B = b.q := by simp [Day.B, hb]
      have : ¬ claimed > b.q := by grind
      simp [this]
  rw [hstage] at h
  simp only [hs] at h
  -- the single SELL
  split at h
  · cases h
  · rename_i st1 cla legsa hsells
    simp only [Except.ok.injEq, Prod.mk.injEq] at h
    obtain ⟨hpool1, rfl, rfl⟩ := h
    have hsell := sellsStep_single t w d rest _ st1 s cl cla legsa hsells
    unfold sellStep at hsell
    split at hsell
    · cases hsell
    · dsimp only at hsell
      obtain ⟨hsd1, hsdv⟩ := sameDayPart_eq d claimed s hB hsq hc0 hc1
      generalize hla : (if s.q = 0 then (cl, ([] : List Leg), s.q - (sameDayPart d (d.B - claimed) s).1)
        else lookahead w d.date s (s.q - (sameDayPart d (d.B - claimed) s).1) d.r rest cl) = la at hsell
      split at hsell
      · split at hsell <;> cases hsell
      · rename_i hdone
        simp only [Except.ok.injEq, Prod.mk.injEq] at hsell
        obtain ⟨hst1, hcla, hlegs⟩ := hsell
        -- Spec's row and what the look-ahead returns
        have hsdS : sameDay (ofDay d) = min d.B s.q := by unfold sameDay; rw [ofDay_B, hSS]
        have hrow : la.2.2 = s.q - min d.B s.q - rsum ((rowOf w i cs (ofDay d) (rest.map ofDay)).map (·.x)) ∧
            (∀ m, m < rest.length → la.1.getD m 0 = claimedOn cs (i + 1 + m) + claimedOn (rowOf w i cs (ofDay d) (rest.map ofDay)) (i + 1 + m)) ∧
            la.2.1.map legView = (rowOf w i cs (ofDay d) (rest.map ofDay)).map
              (fun c => (Rule.bedAndBreakfast, c.x, c.xk * Spec.unitCost (dayAt tbl c.j), some (dayAt tbl c.j).date)) := by
          rw [← hla]
          unfold rowOf
          rw [hSS]
          by_cases hz : s.q = 0
          · have hnp : ¬ (s.q > 0) := by grind
            rw [if_pos hz, if_neg hnp]
            simp only [List.map_nil, rsum_nil, claimedOn_nil]
            refine ⟨?_, ?_, trivial⟩
            · rw [hsd1]; grind
            · intro m hm; rw [halign m hm]; grind
          · have hpos' : s.q > 0 := by grind
            simp only [hz, if_false, hpos', if_true]
            have := lookahead_row w i d.date s cs (fun n => (dayAt tbl n).date) (fun n => Spec.unitCost (dayAt tbl n))
              rest (i + 1) (s.q - (sameDayPart d (d.B - claimed) s).1) d.r cl hSrest halign
              (claimsOk_nonneg rest cl hcl) hat
            simp only at this
            rw [hsd1] at this ⊢
            have e1 : (ofDay d).date = d.date := rfl
            have e2 : (ofDay d).r = d.r := rfl
            rw [hsdS, e1, e2]
            exact this
        obtain ⟨hrem, hcl', hbv⟩ := hrow
        -- remaining quantity is not negative
        have hrem0 : 0 ≤ la.2.2 := by
          rw [← hla]
          by_cases hz : s.q = 0
          · rw [if_pos hz]; simp only; rw [hsd1]; grind
          · rw [if_neg hz]
            have hrempos : 0 ≤ s.q - (sameDayPart d (d.B - claimed) s).1 := by rw [hsd1]; grind
            exact (lookahead_accounts w d.date s rest _ d.r cl hr hpos hrempos).2.2.1
        obtain ⟨hpq, hpc, hpv⟩ := poolPart_eq d pool la.2.2 s hrem0 hdone
        -- the pool after the day
        have hav : 0 ≤ st1.avail := by rw [← hst1]; simp only; rw [hsd1]; grind
        have hq := poolAfter_q d st1 hav (by
          intro hb
          have : d.B = 0 := by simp [Day.B, hb]
          rw [← hst1]; simp only; rw [hsd1]; grind)
        have hcst := poolAfter_c d st1 hav
        rw [hpool1] at hq hcst
        have hst1p : st1.pool = (poolPart d pool la.2.2 s).1 := by rw [← hst1]
        have hst1a : st1.avail = d.B - claimed - min d.B s.q := by rw [← hst1]; simp only; rw [hsd1]
        rw [hst1p, hst1a] at hq hcst
        rw [hpq] at hq
        rw [hpc] at hcst
        -- assemble
        have hfp : (ofDay d).S - sameDay (ofDay d) - rsum ((rowOf w i cs (ofDay d) (rest.map ofDay)).map (·.x)) = la.2.2 := by
          rw [hSS, hsdS, hrem]
        have hr' : (ofDay d).r = d.r := rfl
        refine ⟨?_, ?_, ?_, ?_⟩
        · simp only [dayOut]
          rw [hfp, hq, hsdS, ofDay_B, hr']
          grind
        · simp only [dayOut]
          rw [hfp, hcst, hsdS, ofDay_B, unitCost_ofDay d]
          cases hb : d.buy with
          | none =>
            have hB0 : d.B = 0 := by simp [Day.B, hb]
            have : claimed = 0 := by grind
            simp only [hB0, this]
            have : min (0 : Rat) s.q = 0 := by grind
            rw [this]; grind
          | some b => simp only; grind
        · simp only [dayOut]
          rw [hfp, hSS, hsdS, unitCost_ofDay d, ← hlegs]
          simp only [List.map_append, hsdv, hbv, hpv]
          by_cases hsp : s.q > 0
          · simp only [hsp, if_true, List.flatMap_cons, List.flatMap_nil, List.append_nil, List.map_append]
            have e1 : (ofDay d).date = d.date := rfl
            rw [e1]
            congr 1
            · congr 1
              · split <;> simp [slegView]
              · simp [slegView, List.map_map, Function.comp]
            · split <;> simp [slegView]
          · have hz : s.q = 0 := by grind
            have hmin : min d.B s.q = 0 := by rw [hz]; grind
            have hrw : rowOf w i cs (ofDay d) (rest.map ofDay) = [] := by
              unfold rowOf; rw [hSS]; simp [hsp]
            have hla0 : la.2.2 = 0 := by rw [hrem, hrw, hmin, hz]; simp; grind
            have hnp : ¬ (la.2.2 > 0) := by rw [hla0]; grind
            simp only [hsp, if_false, hmin, hrw, hnp, List.map_nil, List.flatMap_nil, List.append_nil]
            have : ¬ ((0 : Rat) > 0) := by grind
            simp [this]
        · intro m hm
          rw [← hcla]; exact hcl' m hm


/-! Part D: all days -/

theorem dayAt_map (pre : List Day) (d : Day) (rest : List Day) (m : Nat) (e : Day) (h : rest[m]? = some e) :
    dayAt ((pre ++ d :: rest).map ofDay) (pre.length + 1 + m) = ofDay e := by
  unfold dayAt
  have hlen : m < rest.length := by
    rcases Nat.lt_or_ge m rest.length with hl | hl
    · exact hl
    · rw [List.getElem?_eq_none hl] at h; cases h
  have : ((pre ++ d :: rest).map ofDay)[pre.length + 1 + m]? = some (ofDay e) := by
    rw [List.getElem?_map, List.getElem?_append_right (by omega)]
    have e1 : pre.length + 1 + m - pre.length = m + 1 := by omega
    rw [e1, List.getElem?_cons_succ, h]; rfl
  rw [List.getD_eq_getElem?_getD, this]; rfl

theorem rowOf_nosell (w : Int) (i : Nat) (cs : List Claim) (d : Day) (rest : List SDay) (hs : d.sells = []) :
    rowOf w i cs (ofDay d) rest = [] := by
  unfold rowOf
  have : (ofDay d).S = 0 := by simp [ofDay, Day.S, hs]
  rw [this]; simp

/-- **the matcher's main pass is `Spec`'s passes 2 and 3**, for one security's day list with strictly
    increasing dates, at most one SELL line per day and no cost offsets: same closing pool (quantity and
    cost), same legs (rule, quantity, allowable cost, acquisition date) in the same order -/
theorem run_walk (t : String) (w : Int) (all : List Day) (hall : all.Pairwise (fun a b => a.ord < b.ord))
    (hone : ∀ d ∈ all, d.sells.length ≤ 1) :
    ∀ (ds pre : List Day) (pool pool' : Option Pool) (cl : List Rat) (cs : List Claim) (legs : List Leg),
      all = pre ++ ds → daysOk ds → 0 ≤ poolQ' pool → claimsOk ds cl →
      (∀ m, m < ds.length → cl.getD m 0 = claimedOn cs (pre.length + m)) →
      (∀ c ∈ cs, c.i < pre.length) →
      runDays t w pool ds cl = .ok (pool', legs) →
      let csf := claims w pre.length cs (ds.map ofDay)
      let wk := walk (all.map ofDay) csf pre.length (poolQ' pool) (poolC' pool) (ds.map ofDay)
      wk.2.1 = poolQ' pool' ∧ wk.2.2 = poolC' pool' ∧
      legs.map legView = wk.1.flatMap (fun dsp => dsp.legs.map slegView) := by
  intro ds
  induction ds with
  | nil =>
    intro pre pool pool' cl cs legs _ _ _ _ _ _ h
    simp only [runDays, Except.ok.injEq, Prod.mk.injEq] at h
    obtain ⟨rfl, rfl⟩ := h
    simp [walk]
  | cons d rest ih =>
    intro pre pool pool' cl cs legs hsplit hok hp hc halign hcs hrun
    have hdmem : d ∈ all := by rw [hsplit]; simp
    have hd1 := hone d hdmem
    -- one day of the model
    simp only [runDays] at hrun
    split at hrun
    · cases hrun
    · rename_i pool1 cl1 legs1 h1
      split at hrun
      · cases hrun
      · rename_i pool2 legs2 h2
        simp only [Except.ok.injEq, Prod.mk.injEq] at hrun
        obtain ⟨rfl, rfl⟩ := hrun
        obtain ⟨hc0, hc1, hcrest⟩ := hc
        have sp := dayStep_spec t w pool d (cl.headD 0) rest cl.tail pool1 cl1 legs1 hok.1
          (daysOk_ratiosPos rest hok.2) hp hc0 hc1 hcrest h1
        obtain ⟨_, _, _, hp1, hc1', _⟩ := sp
        have hclaimed : cl.headD 0 = claimedOn cs pre.length := by
          rw [headD_getD]; have := halign 0 (by simp); simpa using this
        have haligntail : ∀ m, m < rest.length → cl.tail.getD m 0 = claimedOn cs (pre.length + 1 + m) := by
          intro m hm
          rw [getD_tail, halign (m + 1) (by simp; omega)]; congr 1; omega
        have hSrest : ∀ e ∈ rest, 0 ≤ e.S := by
          intro e he
          have hk : ∀ (l : List Day), daysOk l → ∀ x ∈ l, 0 ≤ x.S := by
            intro l
            induction l with
            | nil => intro _ x hx; simp at hx
            | cons y ys ihy =>
              intro hl x hx
              simp only [List.mem_cons] at hx
              rcases hx with rfl | hx
              · have := hl.1.2.1
                rw [Day.S_eq]
                unfold soldQty
                have hnn : ∀ (ss : List Trade), sellsOk ss → 0 ≤ rsum (ss.map (·.q)) := by
                  intro ss
                  induction ss with
                  | nil => intro _; simp
                  | cons z zs ihz =>
                    intro hz
                    have h1 := hz z (by simp)
                    have h2 := ihz (fun q hq => hz q (by simp [hq]))
                    simp only [List.map_cons, rsum_cons]; grind
                exact hnn _ this
              · exact ihy hl.2 x hx
          exact hk rest hok.2 e he
        have hat : ∀ m e, rest[m]? = some e → (dayAt (all.map ofDay) (pre.length + 1 + m)).date = e.date ∧
            Spec.unitCost (dayAt (all.map ofDay) (pre.length + 1 + m)) = (match e.buy with | some b => unitCost b e.offset | none => 0) := by
          intro m e he
          rw [hsplit, dayAt_map pre d rest m e he]
          have hemem : e ∈ all := by rw [hsplit]; simp [List.mem_of_getElem? he]
          exact ⟨rfl, by rw [unitCost_ofDay e]; rfl⟩
        -- Spec: the final claims seen from this day
        have hcsf : claims w pre.length cs ((d :: rest).map ofDay)
            = claims w (pre.length + 1) (cs ++ rowOf w pre.length cs (ofDay d) (rest.map ofDay)) (rest.map ofDay) := by
          simp only [List.map_cons]; exact claims_cons w _ cs _ _
        obtain ⟨hmine, hclaimedOn⟩ := claims_split w pre.length cs (ofDay d) (rest.map ofDay) hcs
        simp only [List.map_cons]
        rw [walk_cons, hmine, hclaimedOn, ← hclaimed]
        -- the induction hypothesis, with the claims updated by this day's row
        have hcs' : ∀ c ∈ cs ++ rowOf w pre.length cs (ofDay d) (rest.map ofDay), c.i < (pre ++ [d]).length := by
          intro c hc
          simp only [List.mem_append] at hc
          simp only [List.length_append, List.length_cons, List.length_nil]
          rcases hc with hc | hc
          · have := hcs c hc; omega
          · have := (rowOf_fields w pre.length cs (ofDay d) (rest.map ofDay) c hc).1; omega
        have hlen' : (pre ++ [d]).length = pre.length + 1 := by simp
        have IH := fun (halign' : ∀ m, m < rest.length → cl1.getD m 0 = claimedOn (cs ++ rowOf w pre.length cs (ofDay d) (rest.map ofDay)) ((pre ++ [d]).length + m)) =>
          ih (pre ++ [d]) pool1 pool2 cl1 (cs ++ rowOf w pre.length cs (ofDay d) (rest.map ofDay)) legs2
            (by rw [hsplit]; simp) hok.2 hp1 hc1' halign' hcs' h2
        rw [hlen'] at IH
        simp only [claims_cons] at IH ⊢
        -- the day itself
        cases hsl : d.sells with
        | nil =>
          have hrow0 := rowOf_nosell w pre.length cs d (rest.map ofDay) hsl
          have hB0 : 0 ≤ d.B := hok.1.2.2
          have hmn : 0 ≤ min d.B (max d.S 0) := by grind
          have hclB : cl.headD 0 ≤ d.B := by grind
          obtain ⟨o1, o2, o3, o4, o5⟩ := dayStep_nosell t w pool pool1 d (cl.headD 0) rest cl.tail cl1 legs1
            (all.map ofDay) (rowOf w pre.length cs (ofDay d) (rest.map ofDay)) hsl hok.1.2.2 hc0 hclB hrow0 h1
          have halign' : ∀ m, m < rest.length → cl1.getD m 0 = claimedOn (cs ++ rowOf w pre.length cs (ofDay d) (rest.map ofDay)) (pre.length + 1 + m) := by
            intro m hm
            rw [o5, haligntail m hm, hrow0]; simp
          obtain ⟨i1, i2, i3⟩ := IH halign'
          rw [o2, o3]
          refine ⟨i1, i2, ?_⟩
          rw [o1, o4]; simp only [List.nil_append, List.map_nil]
          exact i3
        | cons s ss =>
          have hss : ss = [] := by
            rw [hsl] at hd1; simp only [List.length_cons] at hd1
            cases ss with
            | nil => rfl
            | cons _ _ => simp at hd1
          subst hss
          obtain ⟨o2, o3, o4, o5⟩ := dayStep_onesell t w pool pool1 d (cl.headD 0) rest cl.tail cl1 legs1
            (all.map ofDay) pre.length cs s hsl hok.1 hc0 hc1 hcrest (daysOk_ratiosPos rest hok.2) hSrest
            haligntail hat h1
          have halign' : ∀ m, m < rest.length → cl1.getD m 0 = claimedOn (cs ++ rowOf w pre.length cs (ofDay d) (rest.map ofDay)) (pre.length + 1 + m) := by
            intro m hm
            rw [o5 m hm, claimedOn_append]
          obtain ⟨i1, i2, i3⟩ := IH halign'
          rw [o2, o3]
          refine ⟨i1, i2, ?_⟩
          rw [List.map_append, o4, i3, List.flatMap_append]


/-- `Spec`'s passes 2 and 3 on a given day table -/
def identifyTbl (w : Int) (tbl : List SDay) : List SDisposal × Rat × Rat :=
  walk tbl (claims w 0 [] tbl) 0 0 0 tbl

theorem identify_eq (w : Int) (ticker : String) (l : List Tx) :
    let r := identify w ticker l
    (r.disposals, r.poolQ, r.poolC) = identifyTbl w (table ticker l) := rfl

/-- the whole main pass of one security against `Spec` on the same days -/
theorem runDays_eq_spec (t : String) (w : Int) (ds : List Day) (hs : ds.Pairwise (fun a b => a.ord < b.ord))
    (hok : daysOk ds) (hone : ∀ d ∈ ds, d.sells.length ≤ 1)
    (pool : Option Pool) (legs : List Leg) (h : runDays t w none ds [] = .ok (pool, legs)) :
    let sp := identifyTbl w (ds.map ofDay)
    sp.2.1 = poolQ' pool ∧ sp.2.2 = poolC' pool ∧
    legs.map legView = sp.1.flatMap (fun dsp => dsp.legs.map slegView) := by
  have := run_walk t w ds hs hone ds [] none pool [] [] legs (by simp) hok (by simp [poolQ']) (claimsOk_nil ds hok)
    (by intro m _; simp [claimedOn_nil]) (by intro c hc; simp at hc) h
  simpa [identifyTbl, poolQ', poolC'] using this


/-- without capital returns / accumulations the pre-pass writes no offsets -/
theorem withOffsets_noEvents (t : String) (ds : List Day) (hok : daysOk ds) (hne : noEvents ds) :
    withOffsets t ds = .ok (ds.map (fun d => { d with offset := 0 })) := by
  obtain ⟨lots', hp, hk⟩ := prepass_noEvents t ds [] (fun _ hx => by simp at hx) hok hne
  unfold withOffsets
  rw [hp]
  simp only [Except.ok.injEq]
  apply List.map_congr_left
  intro d _
  have : offsetFor d.ord lots' = 0 := by
    rw [offsetFor_lookup, hk]
    simp only [lotKeys, List.map_nil, List.nil_append]
    unfold newLots
    exact lookupKey_zeros _ _
  rw [this]

theorem daysOk_setOffset (f : Day → Rat) : ∀ (ds : List Day), daysOk ds → daysOk (ds.map (fun d => { d with offset := f d })) := by
  intro ds
  induction ds with
  | nil => intro _; trivial
  | cons d ds ih => intro hok; exact ⟨hok.1, ih hok.2⟩

/-- **one security, pre-pass included, capital events allowed**: for a day list strictly increasing in
    date with at most one SELL line per day, the matcher identifies exactly as `Spec` does on the same
    days, each purchase's cost being its consideration and fees plus the offset the cost pre-pass wrote on
    it (zero without capital returns / accumulations) -/
theorem runTicker_eq_spec_offsets (t : String) (w : Int) (ds : List Day) (hs : ds.Pairwise (fun a b => a.ord < b.ord))
    (hok : daysOk ds) (hone : ∀ d ∈ ds, d.sells.length ≤ 1)
    (pool : Option Pool) (legs : List Leg) (h : runTicker t w ds = .ok (pool, legs)) :
    ∃ lots, prepass t [] ds = .ok lots ∧
      (let sp := identifyTbl w ((ds.map (fun d => { d with offset := offsetFor d.ord lots })).map ofDay)
       sp.2.1 = poolQ' pool ∧ sp.2.2 = poolC' pool ∧
       legs.map legView = sp.1.flatMap (fun dsp => dsp.legs.map slegView)) := by
  unfold runTicker withOffsets at h
  cases hp : prepass t [] ds with
  | error e => rw [hp] at h; cases h
  | ok lots =>
    rw [hp] at h
    simp only at h
    refine ⟨lots, rfl, ?_⟩
    have hs' : (ds.map (fun d => { d with offset := offsetFor d.ord lots })).Pairwise (fun a b => a.ord < b.ord) := by
      rw [List.pairwise_map]; exact hs
    exact runDays_eq_spec t w _ hs' (daysOk_setOffset _ ds hok)
      (by intro d hd; simp only [List.mem_map] at hd; obtain ⟨d0, hd0, rfl⟩ := hd; exact hone d0 hd0) pool legs h

/-- **… and without capital events** (days as `groupDays` builds them: no offset yet): exactly `Spec` on
    the days themselves -/
theorem runTicker_eq_spec (t : String) (w : Int) (ds : List Day) (hs : ds.Pairwise (fun a b => a.ord < b.ord))
    (hok : daysOk ds) (hne : noEvents ds) (hone : ∀ d ∈ ds, d.sells.length ≤ 1) (h0 : ∀ d ∈ ds, d.offset = 0)
    (pool : Option Pool) (legs : List Leg) (h : runTicker t w ds = .ok (pool, legs)) :
    let sp := identifyTbl w (ds.map ofDay)
    sp.2.1 = poolQ' pool ∧ sp.2.2 = poolC' pool ∧
    legs.map legView = sp.1.flatMap (fun dsp => dsp.legs.map slegView) := by
  obtain ⟨lots, hp, hsp⟩ := runTicker_eq_spec_offsets t w ds hs hok hone pool legs h
  have hw := withOffsets_noEvents t ds hok hne
  unfold withOffsets at hw
  rw [hp] at hw
  simp only [Except.ok.injEq] at hw
  have hself : ds.map (fun d => { d with offset := (0 : Rat) }) = ds := by
    conv => rhs; rw [← List.map_id ds]
    apply List.map_congr_left
    intro d hd
    have := h0 d hd
    cases d; simp_all
  rw [hw, hself] at hsp
  exact hsp

end Cgt
