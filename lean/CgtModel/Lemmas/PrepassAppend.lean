import CgtModel.Lemmas.Prepass
/-! A continuation without capital returns / accumulations leaves the cost offsets of the history's
    purchases unchanged: only those events write offsets. -/
set_option linter.unusedSimpArgs false
namespace Cgt

theorem prepass_append (t : String) : ∀ (ps es : List Day) (lots : List Lot),
    prepass t lots (ps ++ es) = (match prepass t lots ps with | .error e => .error e | .ok l' => prepass t l' es) := by
  intro ps
  induction ps with
  | nil => intro es lots; rfl
  | cons d ps ih =>
    intro es lots
    simp only [List.cons_append, prepass]
    split
    · rfl
    · exact ih es _

/-- (ordinal, offset) of every lot, in order: all that `offsetFor` looks at -/
def lotKeys (lots : List Lot) : List (Int × Rat) := lots.map (fun l => (l.ord, l.off))

theorem offsetFor_keys : ∀ (a b : List Lot), lotKeys a = lotKeys b → ∀ o, offsetFor o a = offsetFor o b := by
  intro a
  induction a with
  | nil => intro b h o; cases b with | nil => rfl | cons _ _ => simp [lotKeys] at h
  | cons x xs ih =>
    intro b h o
    cases b with
    | nil => simp [lotKeys] at h
    | cons y ys =>
      simp only [lotKeys, List.map_cons, List.cons.injEq, Prod.mk.injEq] at h
      obtain ⟨⟨h1, h2⟩, h3⟩ := h
      simp only [offsetFor, h1, h2]
      rw [ih ys h3 o]

theorem lotKeys_of (a b : List Lot) (ho : lotOrds a = lotOrds b) (hf : a.map (·.off) = b.map (·.off)) : lotKeys a = lotKeys b := by
  induction a generalizing b with
  | nil => cases b with | nil => rfl | cons _ _ => simp [lotOrds] at ho
  | cons x xs ih =>
    cases b with
    | nil => simp [lotOrds] at ho
    | cons y ys =>
      simp only [lotOrds, List.map_cons, List.cons.injEq] at ho hf
      simp only [lotKeys, List.map_cons, List.cons.injEq, Prod.mk.injEq]
      exact ⟨⟨ho.1, hf.1⟩, ih ys ho.2 hf.2⟩

def noEvents (es : List Day) : Prop := ∀ d ∈ es, d.accs = [] ∧ d.caps = []

def newLots (es : List Day) : List (Int × Rat) := (es.map buyOrd).flatten.map (fun o => (o, (0 : Rat)))

theorem prepassDay_noEvents (t : String) (lots : List Lot) (d : Day) (hinv : LotsInv lots) (hB : 0 ≤ d.B) (hr : 0 < d.r) (h : d.accs = [] ∧ d.caps = []) :
    ∃ lots', prepassDay t lots d = .ok lots' ∧ LotsInv lots' ∧ lotKeys lots' = lotKeys lots ++ (buyOrd d).map (fun o => (o, (0 : Rat))) := by
  unfold prepassDay
  simp only [h.1, h.2, List.foldl_nil, applyCaps]
  cases hb : d.buy with
  | none =>
    obtain ⟨c1', c2', c3'⟩ := sellsFold_props d.ord d.sells lots hinv
    obtain ⟨c1, s2, s3⟩ := scale_props d.r hr _ c1'
    have c2 := s2.trans c2'
    have c3 := s3.trans c3'
    refine ⟨_, rfl, c1, ?_⟩
    simp only [buyOrd, hb, List.map_nil, List.append_nil]
    exact lotKeys_of _ _ c3 c2
  | some b =>
    have hinv' : LotsInv (lots ++ [{ ord := d.ord, q := b.q, p := b.p, f := b.f }]) := by
      intro x hx
      simp only [List.mem_append, List.mem_singleton] at hx
      rcases hx with hx | rfl
      · exact hinv x hx
      · simp only [Lot.held]
        have : d.B = b.q := by simp [Day.B, hb]
        rw [this] at hB; grind
    obtain ⟨c1', c2', c3'⟩ := sellsFold_props d.ord d.sells _ hinv'
    obtain ⟨c1, s2, s3⟩ := scale_props d.r hr _ c1'
    have c2 := s2.trans c2'
    have c3 := s3.trans c3'
    refine ⟨_, rfl, c1, ?_⟩
    rw [lotKeys_of _ _ c3 c2]
    simp [lotKeys, buyOrd, hb]

theorem prepass_noEvents (t : String) : ∀ (es : List Day) (lots : List Lot), LotsInv lots → daysOk es → noEvents es →
    ∃ lots', prepass t lots es = .ok lots' ∧ lotKeys lots' = lotKeys lots ++ newLots es := by
  intro es
  induction es with
  | nil => intro lots _ _ _; exact ⟨lots, rfl, by simp [newLots]⟩
  | cons d es ih =>
    intro lots hinv hok hne
    obtain ⟨l1, h1, i1, k1⟩ := prepassDay_noEvents t lots d hinv hok.1.2.2 hok.1.1 (hne d (by simp))
    obtain ⟨l2, h2, k2⟩ := ih l1 i1 hok.2 (fun x hx => hne x (by simp [hx]))
    refine ⟨l2, ?_, ?_⟩
    · simp only [prepass, h1]; exact h2
    · rw [k2, k1]; simp [newLots]

def lookupKey (o : Int) : List (Int × Rat) → Rat
  | [] => 0
  | (k, v) :: r => if k = o then v else lookupKey o r

theorem offsetFor_lookup (o : Int) : ∀ lots, offsetFor o lots = lookupKey o (lotKeys lots) := by
  intro lots
  induction lots with
  | nil => rfl
  | cons l ls ih => simp only [offsetFor, lotKeys, List.map_cons, lookupKey]; split <;> simp_all [lotKeys]

theorem lookupKey_append_mem (o : Int) : ∀ (a b : List (Int × Rat)), o ∈ a.map (·.1) → lookupKey o (a ++ b) = lookupKey o a := by
  intro a
  induction a with
  | nil => intro b h; simp at h
  | cons x xs ih =>
    intro b h
    obtain ⟨k, v⟩ := x
    simp only [List.cons_append, lookupKey]
    split
    · rfl
    · rename_i hne
      simp only [List.map_cons, List.mem_cons] at h
      rcases h with h | h
      · exact absurd h.symm hne
      · exact ih b h

theorem lookupKey_append_not_mem (o : Int) : ∀ (a b : List (Int × Rat)), o ∉ a.map (·.1) → lookupKey o (a ++ b) = lookupKey o b := by
  intro a
  induction a with
  | nil => intro b _; rfl
  | cons x xs ih =>
    intro b h
    obtain ⟨k, v⟩ := x
    simp only [List.map_cons, List.mem_cons, not_or] at h
    simp only [List.cons_append, lookupKey]
    have : ¬ k = o := fun e => h.1 e.symm
    simp only [this, if_false]
    exact ih b h.2

theorem lookupKey_zeros (o : Int) (os : List Int) : lookupKey o (os.map (fun x => (x, (0 : Rat)))) = 0 := by
  induction os with
  | nil => rfl
  | cons x xs ih => simp only [List.map_cons, lookupKey]; split <;> simp_all

theorem lookupKey_not_mem (o : Int) : ∀ (a : List (Int × Rat)), o ∉ a.map (·.1) → lookupKey o a = 0 := by
  intro a h
  have := lookupKey_append_not_mem o a [] h
  simpa [lookupKey] using this

/-- after a continuation without cost events, every date's offset is what it was, and the
    continuation's own purchases carry none -/
theorem offsets_after_noEvents (t : String) (es : List Day) (lots lots' : List Lot) (hk : lotKeys lots' = lotKeys lots ++ newLots es) (o : Int) :
    offsetFor o lots' = offsetFor o lots := by
  rw [offsetFor_lookup, offsetFor_lookup, hk]
  by_cases hm : o ∈ (lotKeys lots).map (·.1)
  · exact lookupKey_append_mem o _ _ hm
  · rw [lookupKey_append_not_mem o _ _ hm, lookupKey_not_mem o _ hm]
    unfold newLots
    exact lookupKey_zeros o _

end Cgt
