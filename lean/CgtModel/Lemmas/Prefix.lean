import CgtModel.Matcher
/-! Days that lie beyond every 30-day window of a history do not influence that history. -/
namespace Cgt

/-- `es` starts beyond the window of a disposal dated `d0` (or is empty) -/
def farFrom (w : Int) (d0 : Date) (es : List Day) : Prop :=
  match es with
  | [] => True
  | e :: _ => e.ord - d0.ord > w

theorem lookahead_append_far (w : Int) (d0 : Date) (s : Trade) (es : List Day) (hfar : farFrom w d0 es)
    (fs : List Day) : ∀ (rem k : Rat) (cl : List Rat),
      lookahead w d0 s rem k (fs ++ es) cl = lookahead w d0 s rem k fs cl := by
  induction fs with
  | nil =>
    intro rem k cl
    cases es with
    | nil => rfl
    | cons e rest =>
      simp only [List.nil_append, lookahead]
      have : e.ord - d0.ord > w := hfar
      by_cases h1 : rem ≤ 0 <;> simp [h1, this]
  | cons f fs ih =>
    intro rem k cl
    simp only [List.cons_append, lookahead, ih]

theorem outK_append_short (es : List Day) (fs : List Day) : ∀ (k : Rat) (cl : List Rat),
    cl.length ≤ fs.length → outK k (fs ++ es) cl = outK k fs cl := by
  induction fs with
  | nil =>
    intro k cl h
    have : cl = [] := by cases cl <;> simp_all
    subst this
    simp only [List.nil_append]
    -- all claims beyond are absent
    clear h
    induction es generalizing k with
    | nil => rfl
    | cons e es ih => simp only [outK, List.headD_nil, List.tail_nil]; rw [ih]; simp [outK]; grind
  | cons f fs ih =>
    intro k cl h
    simp only [List.cons_append, outK]
    rw [ih (k * f.r) cl.tail (by cases cl <;> simp_all <;> omega)]

theorem lookahead_length (w : Int) (d0 : Date) (s : Trade) (fs : List Day) :
    ∀ (rem k : Rat) (cl : List Rat), cl.length ≤ fs.length →
      (lookahead w d0 s rem k fs cl).1.length ≤ fs.length := by
  induction fs with
  | nil => intro rem k cl h; simpa [lookahead] using h
  | cons e rest ih =>
    intro rem k cl h
    have ht : cl.tail.length ≤ rest.length := by cases cl <;> simp_all <;> omega
    simp only [lookahead]
    split
    · exact h
    · split
      · exact h
      · split
        · simp only [List.length_cons]; have := ih rem (k * e.r) cl.tail ht; omega
        · split
          · simp only [List.length_cons]; have := ih rem (k * e.r) cl.tail ht; omega
          · simp only [List.length_cons]
            have := ih (rem - min rem (availFor e (cl.headD 0) / k)) (k * e.r) cl.tail ht; omega

theorem sellStep_append (t : String) (w : Int) (d : Day) (st : MState) (s : Trade) (fs es : List Day)
    (cl : List Rat) (hfar : farFrom w d.date es) (hlen : cl.length ≤ fs.length) :
    sellStep t w d st s (fs ++ es) cl = sellStep t w d st s fs cl := by
  unfold sellStep
  rw [outK_append_short es fs d.r cl hlen]
  simp only [lookahead_append_far w d.date s es hfar fs]

theorem sellStep_claims_length (t : String) (w : Int) (d : Day) (st : MState) (s : Trade) (fs : List Day)
    (cl : List Rat) (st' : MState) (cl' : List Rat) (legs : List Leg) (hlen : cl.length ≤ fs.length)
    (h : sellStep t w d st s fs cl = .ok (st', cl', legs)) : cl'.length ≤ fs.length := by
  unfold sellStep at h
  split at h
  · cases h
  · by_cases hq : s.q = 0
    all_goals (
      simp only [hq, if_true, if_false] at h
      split at h
      · split at h <;> cases h
      · simp only [Except.ok.injEq, Prod.mk.injEq] at h
        obtain ⟨_, rfl, _⟩ := h
        first
          | exact hlen
          | exact lookahead_length _ _ _ _ _ _ _ hlen)

theorem sellsStep_append (t : String) (w : Int) (d : Day) (fs es : List Day) (hfar : farFrom w d.date es)
    (ss : List Trade) : ∀ (st : MState) (cl : List Rat), cl.length ≤ fs.length →
      sellsStep t w d (fs ++ es) st ss cl = sellsStep t w d fs st ss cl ∧
      ∀ st' cl' legs, sellsStep t w d fs st ss cl = .ok (st', cl', legs) → cl'.length ≤ fs.length := by
  induction ss with
  | nil =>
    intro st cl hlen
    refine ⟨rfl, ?_⟩
    intro st' cl' legs h
    simp only [sellsStep, Except.ok.injEq, Prod.mk.injEq] at h
    obtain ⟨_, rfl, _⟩ := h
    exact hlen
  | cons s ss ih =>
    intro st cl hlen
    simp only [sellsStep]
    rw [sellStep_append t w d st s fs es cl hfar hlen]
    cases h1 : sellStep t w d st s fs cl with
    | error e => exact ⟨rfl, fun _ _ _ h => by cases h⟩
    | ok r =>
      obtain ⟨st1, cl1, legs1⟩ := r
      have hl1 := sellStep_claims_length t w d st s fs cl st1 cl1 legs1 hlen h1
      obtain ⟨heq, hlen2⟩ := ih st1 cl1 hl1
      simp only
      rw [heq]
      refine ⟨rfl, ?_⟩
      intro st' cl' legs h
      cases h2 : sellsStep t w d fs st1 ss cl1 with
      | error e => rw [h2] at h; cases h
      | ok r2 =>
        obtain ⟨st2, cl2, legs2⟩ := r2
        rw [h2] at h
        simp only [Except.ok.injEq, Prod.mk.injEq] at h
        obtain ⟨_, rfl, _⟩ := h
        exact hlen2 st2 cl2 legs2 h2

theorem dayStep_append (t : String) (w : Int) (pool : Option Pool) (d : Day) (claimed : Rat)
    (fs es : List Day) (cl : List Rat) (hfar : farFrom w d.date es) (hlen : cl.length ≤ fs.length) :
    dayStep t w pool d claimed (fs ++ es) cl = dayStep t w pool d claimed fs cl ∧
    ∀ pool' cl' legs, dayStep t w pool d claimed fs cl = .ok (pool', cl', legs) → cl'.length ≤ fs.length := by
  unfold dayStep
  cases hb : buyStage t d claimed with
  | error e => exact ⟨rfl, fun _ _ _ h => by cases h⟩
  | ok a0 =>
    simp only
    obtain ⟨heq, hl⟩ := sellsStep_append t w d fs es hfar d.sells ⟨pool, a0⟩ cl hlen
    rw [heq]
    refine ⟨rfl, ?_⟩
    intro pool' cl' legs h
    cases h2 : sellsStep t w d fs ⟨pool, a0⟩ d.sells cl with
    | error e => rw [h2] at h; cases h
    | ok r =>
      obtain ⟨st, cl2, legs2⟩ := r
      rw [h2] at h
      simp only [Except.ok.injEq, Prod.mk.injEq] at h
      obtain ⟨_, rfl, _⟩ := h
      exact hl st cl2 legs2 h2

/-- every day of `ps` has `es` beyond its window -/
def allFar (w : Int) (ps es : List Day) : Prop := ∀ d ∈ ps, farFrom w d.date es

/-- **running a history followed by far-later days = running the history, then the later days from the
    pool it left, with no claims carried over** -/
theorem runDays_append (t : String) (w : Int) (es : List Day) (ps : List Day) :
    ∀ (pool : Option Pool) (cl : List Rat), allFar w ps es → cl.length ≤ ps.length →
      runDays t w pool (ps ++ es) cl =
        (match runDays t w pool ps cl with
         | .error e => .error e
         | .ok (pool1, legs1) =>
           match runDays t w pool1 es [] with
           | .error e => .error e
           | .ok (pool2, legs2) => .ok (pool2, legs1 ++ legs2)) := by
  induction ps with
  | nil =>
    intro pool cl _ hlen
    have : cl = [] := by cases cl <;> simp_all
    subst this
    simp only [List.nil_append, runDays]
    cases runDays t w pool es [] with
    | error e => rfl
    | ok r => obtain ⟨p, l⟩ := r; simp
  | cons d ps ih =>
    intro pool cl hfar hlen
    have hfd : farFrom w d.date es := hfar d (by simp)
    have hfr : allFar w ps es := fun x hx => hfar x (by simp [hx])
    have ht : cl.tail.length ≤ ps.length := by cases cl <;> simp_all <;> omega
    simp only [List.cons_append, runDays]
    obtain ⟨heq, hl⟩ := dayStep_append t w pool d (cl.headD 0) ps es cl.tail hfd ht
    rw [heq]
    cases h1 : dayStep t w pool d (cl.headD 0) ps cl.tail with
    | error e => rfl
    | ok r =>
      obtain ⟨pool1, cl1, legs1⟩ := r
      simp only
      rw [ih pool1 cl1 hfr (hl pool1 cl1 legs1 h1)]
      cases runDays t w pool1 ps cl1 with
      | error e => rfl
      | ok r2 =>
        obtain ⟨pool2, legs2⟩ := r2
        simp only
        cases runDays t w pool2 es [] with
        | error e => rfl
        | ok r3 => obtain ⟨p3, l3⟩ := r3; simp [List.append_assoc]

end Cgt
