import CgtModel.Lemmas.Conserve
/-! Every leg the matcher emits for a SELL line carries that line's proportional proceeds. -/
namespace Cgt

def LegOf (s : Trade) (l : Leg) : Prop :=
  l.gross = (proceeds l.qty s).1 ∧ l.net = (proceeds l.qty s).2 ∧ l.gain = l.net - l.cost

theorem mkLeg_legOf (d : Date) (r : Rule) (m c : Rat) (s : Trade) (a : Option Date) :
    LegOf s (mkLeg d r m c s a) := ⟨rfl, rfl, rfl⟩

theorem lookahead_legOf (w : Int) (d0 : Date) (s : Trade) (fs : List Day) :
    ∀ (rem k : Rat) (cl : List Rat), ∀ l ∈ (lookahead w d0 s rem k fs cl).2.1, LegOf s l := by
  induction fs with
  | nil => intro rem k cl l hl; simp [lookahead] at hl
  | cons e rest ih =>
    intro rem k cl l hl
    simp only [lookahead] at hl
    split at hl
    · simp at hl
    · split at hl
      · simp at hl
      · split at hl
        · exact ih _ _ _ l hl
        · split at hl
          · exact ih _ _ _ l hl
          · simp only [List.mem_cons] at hl
            rcases hl with rfl | hl
            · exact mkLeg_legOf ..
            · exact ih _ _ _ l hl

theorem sameDayPart_legOf (d : Day) (avail : Rat) (s : Trade) :
    ∀ l ∈ (sameDayPart d avail s).2, LegOf s l := by
  intro l hl
  unfold sameDayPart at hl
  split at hl
  · split at hl
    · simp only [List.mem_singleton] at hl; subst hl; exact mkLeg_legOf ..
    · simp at hl
  · simp at hl

theorem poolPart_legOf (d : Day) (pool : Option Pool) (rem : Rat) (s : Trade) :
    ∀ l ∈ (poolPart d pool rem s).2.2, LegOf s l := by
  intro l hl
  unfold poolPart at hl
  by_cases h : rem > 0
  · simp only [h, if_true] at hl
    cases pool with
    | none => simp at hl
    | some p =>
      simp only at hl
      by_cases h2 : p.q = 0 ∨ s.q = 0
      · simp [h2] at hl
      · simp only [h2, if_false] at hl
        by_cases h3 : min rem p.q = 0
        · simp [h3] at hl
        · simp only [h3, if_false, List.mem_singleton] at hl
          subst hl; exact mkLeg_legOf ..
  · simp [h] at hl

theorem sellStep_legOf (t : String) (w : Int) (d : Day) (st : MState) (s : Trade)
    (future : List Day) (cl : List Rat) (st' : MState) (cl' : List Rat) (legs : List Leg)
    (h : sellStep t w d st s future cl = .ok (st', cl', legs)) : ∀ l ∈ legs, LegOf s l := by
  unfold sellStep at h
  split at h
  · cases h
  · by_cases hq : s.q = 0
    · simp only [hq, if_true] at h
      split at h
      · split at h <;> cases h
      · simp only [Except.ok.injEq, Prod.mk.injEq] at h
        obtain ⟨_, _, rfl⟩ := h
        intro l hl
        simp only [List.append_nil, List.mem_append] at hl
        rcases hl with hl | hl
        · exact sameDayPart_legOf d st.avail s l hl
        · exact poolPart_legOf _ _ _ _ l hl
    · simp only [hq, if_false] at h
      split at h
      · split at h <;> cases h
      · simp only [Except.ok.injEq, Prod.mk.injEq] at h
        obtain ⟨_, _, rfl⟩ := h
        intro l hl
        simp only [List.mem_append] at hl
        rcases hl with (hl | hl) | hl
        · exact sameDayPart_legOf d st.avail s l hl
        · exact lookahead_legOf _ _ _ _ _ _ _ l hl
        · exact poolPart_legOf _ _ _ _ l hl

def legGross (ls : List Leg) : Rat := rsum (ls.map (·.gross))
def legNet (ls : List Leg) : Rat := rsum (ls.map (·.net))
def legGain (ls : List Leg) : Rat := rsum (ls.map (·.gain))
def legCost (ls : List Leg) : Rat := rsum (ls.map (·.cost))

/-- sums of proportional proceeds over the legs of one SELL line -/
theorem legs_sums (s : Trade) (hq : s.q ≠ 0) (ls : List Leg) (h : ∀ l ∈ ls, LegOf s l) :
    legGross ls = legQty ls * s.p ∧ legNet ls = legQty ls * s.p - s.f * (legQty ls / s.q) ∧
      legGain ls = legNet ls - legCost ls := by
  induction ls with
  | nil => simp [legGross, legNet, legGain, legCost, legQty]; grind
  | cons l ls ih =>
    have hl := h l (by simp)
    have ih' := ih (fun x hx => h x (by simp [hx]))
    obtain ⟨g, n, gn⟩ := hl
    simp only [proceeds, hq, if_false] at g n
    simp only [legGross, legNet, legGain, legCost, legQty, List.map_cons, rsum_cons] at ih' ⊢
    refine ⟨by grind, by grind, by grind⟩

end Cgt
