import CgtModel.Basic
/-! Error bounds and idempotence-style facts for the two rounding modes. -/
namespace Cgt

theorem pow10_pos (n : Nat) : 0 < pow10 n := by
  unfold pow10
  have : 0 < 10 ^ n := Nat.pow_pos (by decide)
  exact_mod_cast this

theorem div_le_div_r {a b P : Rat} (hP : 0 < P) (h : a ≤ b) : a / P ≤ b / P := by
  rw [Rat.div_def, Rat.div_def]
  exact Rat.mul_le_mul_of_nonneg_right h (Rat.le_of_lt (Rat.inv_pos.mpr hP))

theorem rabs_nonneg (x : Rat) : 0 ≤ rabs x := by unfold rabs; split <;> grind

theorem frac_bounds (s : Rat) : 0 ≤ s - (s.floor : Rat) ∧ s - (s.floor : Rat) < 1 := by
  have h1 := Rat.floor_le s
  have h2 := Rat.lt_floor_add_one s
  have : ((s.floor + 1 : Int) : Rat) = (s.floor : Rat) + 1 := by simp [Rat.intCast_add]
  rw [this] at h2
  constructor <;> grind

/-- both rounding modes pick `floor s` or `floor s + 1`, whichever is within 1/2 of `s` -/
theorem round_choice_close (s : Rat) (r : Int)
    (h : (r = s.floor ∧ s - (s.floor : Rat) ≤ 1/2) ∨ (r = s.floor + 1 ∧ 1/2 ≤ s - (s.floor : Rat))) :
    (r : Rat) - s ≤ 1/2 ∧ s - (r : Rat) ≤ 1/2 := by
  have hb := frac_bounds s
  rcases h with ⟨rfl, h⟩ | ⟨rfl, h⟩
  · constructor <;> grind
  · have : ((s.floor + 1 : Int) : Rat) = (s.floor : Rat) + 1 := by simp [Rat.intCast_add]
    rw [this]
    constructor <;> grind

theorem scaled_close (x : Rat) (P : Rat) (hP : 0 < P) (r : Int)
    (hr : (r : Rat) - rabs (x * P) ≤ 1/2 ∧ rabs (x * P) - (r : Rat) ≤ 1/2) :
    rabs ((if x < 0 then -(r : Rat) else (r : Rat)) / P - x) ≤ 1 / (2 * P) := by
  have hP0 : P ≠ 0 := by grind
  have hxP : x = x * P / P := by grind
  unfold rabs at hr ⊢
  by_cases hx : x < 0
  · have hneg : x * P < 0 := by
      have := Rat.mul_pos (by grind : 0 < -x) hP
      grind
    simp only [hx, hneg, if_true] at hr ⊢
    have e : -(r : Rat) / P - x = (-(r : Rat) - x * P) / P := by grind
    rw [e]
    have hq : 1 / (2 * P) = (1/2) / P := by grind
    rw [hq]
    split
    · have : -((-(r : Rat) - x * P) / P) = ((r : Rat) + x * P) / P := by grind
      rw [this]
      exact div_le_div_r hP (by grind)
    · exact div_le_div_r hP (by grind)
  · have hnn : ¬ x * P < 0 := by
      have : 0 ≤ x * P := Rat.mul_nonneg (by grind) (Rat.le_of_lt hP)
      grind
    simp only [hx, hnn, if_false] at hr ⊢
    have e : (r : Rat) / P - x = ((r : Rat) - x * P) / P := by grind
    rw [e]
    have hq : 1 / (2 * P) = (1/2) / P := by grind
    rw [hq]
    split
    · have : -(((r : Rat) - x * P) / P) = (x * P - (r : Rat)) / P := by grind
      rw [this]
      exact div_le_div_r hP (by grind)
    · exact div_le_div_r hP (by grind)

/-- banker's rounding at `n` decimal places moves a value by at most half a unit of that place -/
theorem roundHalfEven_close (n : Nat) (x : Rat) :
    rabs (roundHalfEven n x - x) ≤ 1 / (2 * pow10 n) := by
  unfold roundHalfEven
  simp only
  apply scaled_close x (pow10 n) (pow10_pos n)
  apply round_choice_close
  have hb := frac_bounds (rabs (x * pow10 n))
  split
  · right; constructor <;> grind
  · split
    · left; constructor <;> grind
    · split
      · left; constructor <;> grind
      · right; constructor <;> grind

/-- half-away-from-zero rounding at `n` decimal places moves a value by at most half a unit -/
theorem roundHalfAway_close (n : Nat) (x : Rat) :
    rabs (roundHalfAway n x - x) ≤ 1 / (2 * pow10 n) := by
  unfold roundHalfAway
  simp only
  apply scaled_close x (pow10 n) (pow10_pos n)
  apply round_choice_close
  have hb := frac_bounds (rabs (x * pow10 n))
  split
  · right; constructor <;> grind
  · left; constructor <;> grind

end Cgt
