import CgtModel.Spec
import CgtModel.Lemmas.SpecEquiv
/-! Units are a gauge: counting the shares of day `i` in units `g i` times finer (quantities × g i, split
    factors × g (i+1) / g i, money untouched) changes no cost, no proceeds, no gain and no rule. -/
namespace Cgt.Spec
open Cgt

def gaugeDay (g : Nat → Rat) (i : Nat) (d : SDay) : SDay :=
  { d with B := d.B * g i, S := d.S * g i, r := d.r * g (i + 1) / g i }

def regauge (g : Nat → Rat) : Nat → List SDay → List SDay
  | _, [] => []
  | i, d :: rest => gaugeDay g i d :: regauge g (i + 1) rest

def gaugeClaim (g : Nat → Rat) (c : Claim) : Claim := { c with x := c.x * g c.i, xk := c.xk * g c.j }

theorem rsum_map_mul (l : List Rat) (g : Rat) : rsum (l.map (· * g)) = rsum l * g := by
  induction l with
  | nil => simp
  | cons x xs ih => simp only [List.map_cons, rsum_cons, ih]; grind

theorem min_mul_pos (a b g : Rat) (hg : 0 < g) : min (a * g) (b * g) = min a b * g := by
  have h1 : a ≤ b → a * g ≤ b * g := fun h => Rat.mul_le_mul_of_nonneg_right h (Rat.le_of_lt hg)
  have h2 : b ≤ a → b * g ≤ a * g := fun h => Rat.mul_le_mul_of_nonneg_right h (Rat.le_of_lt hg)
  rcases (Rat.le_total : a ≤ b ∨ b ≤ a) with h | h
  · have := h1 h; grind
  · have := h2 h; grind

theorem mul_pos_iff_of_pos (a g : Rat) (hg : 0 < g) : 0 < a * g ↔ 0 < a := by
  constructor
  · intro h
    by_cases ha : 0 < a
    · exact ha
    · have : a ≤ 0 := Rat.not_lt.mp ha
      have := Rat.mul_le_mul_of_nonneg_right this (Rat.le_of_lt hg)
      grind
  · intro h; exact Rat.mul_pos h hg

theorem sameDay_gauge (g : Nat → Rat) (i : Nat) (d : SDay) (hg : 0 < g i) :
    sameDay (gaugeDay g i d) = sameDay d * g i := by
  simp only [sameDay, gaugeDay]; exact min_mul_pos _ _ _ hg

theorem claimedOn_gauge (g : Nat → Rat) (cs : List Claim) (j : Nat) :
    claimedOn (cs.map (gaugeClaim g)) j = claimedOn cs j * g j := by
  unfold claimedOn
  induction cs with
  | nil => simp
  | cons c cs ih =>
    simp only [List.map_cons, List.filter_cons]
    have hj : (gaugeClaim g c).j = c.j := rfl
    rw [hj]
    by_cases h : c.j = j
    · simp only [h, decide_true, if_true, List.map_cons, rsum_cons, ih]
      simp only [gaugeClaim, h]; grind
    · simp only [h, decide_false, Bool.false_eq_true, if_false, ih]

end Cgt.Spec

namespace Cgt.Spec
open Cgt

def GPos (g : Nat → Rat) : Prop := ∀ i, 0 < g i

theorem div_gauge (free k gi gj : Rat) (hi : 0 < gi) (hj : 0 < gj) :
    free * gj / (k * gj / gi) = free / k * gi := by
  have hi' : gi ≠ 0 := by grind
  have hj' : gj ≠ 0 := by grind
  by_cases hk : k = 0
  · subst hk; simp [Rat.div_def, Rat.zero_mul, Rat.mul_zero]
  · simp only [Rat.div_def]
    rw [Rat.inv_mul_rev, Rat.inv_mul_rev, Rat.inv_inv]
    have h1 : gj * gj⁻¹ = 1 := Rat.mul_inv_cancel _ hj'
    grind

theorem row_gauge (g : Nat → Rat) (hg : GPos g) (w : Int) (i : Nat) (di : Date) (cs : List Claim) :
    ∀ (rest : List SDay) (j : Nat) (rem k : Rat),
      row w i di (cs.map (gaugeClaim g)) j (rem * g i) (k * g j / g i) (regauge g j rest)
        = (row w i di cs j rem k rest).map (gaugeClaim g) := by
  intro rest
  induction rest with
  | nil => intro j rem k; simp [row, regauge]
  | cons e rest ih =>
    intro j rem k
    have hi := hg i
    have hj := hg j
    have hj1 := hg (j + 1)
    simp only [regauge, row]
    have hrem : rem * g i ≤ 0 ↔ rem ≤ 0 := by
      have := mul_pos_iff_of_pos rem (g i) hi
      constructor
      · intro h; exact Rat.not_lt.mp (fun h' => absurd (this.mpr h') (Rat.not_lt.mpr h))
      · intro h; exact Rat.not_lt.mp (fun h' => absurd (this.mp h') (Rat.not_lt.mpr h))
    have hdate : (gaugeDay g j e).date = e.date := rfl
    have hfree : (gaugeDay g j e).B - sameDay (gaugeDay g j e) - claimedOn (cs.map (gaugeClaim g)) j
        = (e.B - sameDay e - claimedOn cs j) * g j := by
      rw [sameDay_gauge g j e hj, claimedOn_gauge]; simp only [gaugeDay]; grind
    have hk' : k * g j / g i * (gaugeDay g j e).r = (k * e.r) * g (j + 1) / g i := by
      simp only [gaugeDay, Rat.div_def]
      have : g j * (g j)⁻¹ = 1 := Rat.mul_inv_cancel _ (by grind)
      grind
    rw [hdate, hfree, hk']
    by_cases h1 : rem ≤ 0
    · simp [h1, hrem.mpr h1]
    · have h1' : ¬ rem * g i ≤ 0 := fun h => h1 (hrem.mp h)
      simp only [h1, h1', if_false]
      by_cases h2 : e.date.ord - di.ord > w
      · simp [h2]
      · simp only [h2, if_false]
        have hfp := mul_pos_iff_of_pos (e.B - sameDay e - claimedOn cs j) (g j) hj
        by_cases h3 : e.B - sameDay e - claimedOn cs j > 0
        · have h3' : (e.B - sameDay e - claimedOn cs j) * g j > 0 := hfp.mpr h3
          simp only [h3, h3', if_true, List.map_cons]
          have hx : min (rem * g i) ((e.B - sameDay e - claimedOn cs j) * g j / (k * g j / g i))
              = min rem ((e.B - sameDay e - claimedOn cs j) / k) * g i := by
            rw [div_gauge _ _ _ _ hi hj, min_mul_pos _ _ _ hi]
          rw [hx]
          have hrem' : rem * g i - min rem ((e.B - sameDay e - claimedOn cs j) / k) * g i
              = (rem - min rem ((e.B - sameDay e - claimedOn cs j) / k)) * g i := by grind
          rw [hrem', ih (j + 1) _ (k * e.r)]
          congr 1
          simp only [gaugeClaim]
          congr 1
          simp only [Rat.div_def]
          have : g i * (g i)⁻¹ = 1 := Rat.mul_inv_cancel _ (by grind)
          grind
        · have h3' : ¬ (e.B - sameDay e - claimedOn cs j) * g j > 0 := fun h => h3 (hfp.mp h)
          simp only [h3, h3', if_false]
          exact ih (j + 1) rem (k * e.r)

theorem claims_gauge (g : Nat → Rat) (hg : GPos g) (w : Int) :
    ∀ (tbl : List SDay) (i : Nat) (cs : List Claim),
      claims w i (cs.map (gaugeClaim g)) (regauge g i tbl) = (claims w i cs tbl).map (gaugeClaim g) := by
  intro tbl
  induction tbl with
  | nil => intro i cs; simp [claims, regauge]
  | cons d rest ih =>
    intro i cs
    have hi := hg i
    simp only [regauge, claims]
    have hS : (gaugeDay g i d).S > 0 ↔ d.S > 0 := mul_pos_iff_of_pos d.S (g i) hi
    have hrem : (gaugeDay g i d).S - sameDay (gaugeDay g i d) = (d.S - sameDay d) * g i := by
      rw [sameDay_gauge g i d hi]; simp only [gaugeDay]; grind
    have hr : (gaugeDay g i d).r = d.r * g (i + 1) / g i := rfl
    have hdate : (gaugeDay g i d).date = d.date := rfl
    rw [hrem, hr, hdate]
    by_cases h : d.S > 0
    · simp only [h, hS.mpr h, if_true]
      rw [row_gauge g hg w i d.date cs rest (i + 1) (d.S - sameDay d) d.r, ← List.map_append]
      exact ih (i + 1) _
    · have h' : ¬ (gaugeDay g i d).S > 0 := fun x => h (hS.mp x)
      simp only [h, h', if_false, List.append_nil]
      exact ih (i + 1) cs

end Cgt.Spec

namespace Cgt.Spec
open Cgt

/-- what C10 compares of a leg and of a disposal: everything but the share counts -/
def legMoney (l : SLeg) : Rule × Rat × Option Date := (l.rule, l.cost, l.acq)
def dispMoney (d : SDisposal) : Date × Rat × Rat × Rat × List (Rule × Rat × Option Date) :=
  (d.date, d.gross, d.net, d.gain, d.legs.map legMoney)

theorem unitCost_gauge (g : Nat → Rat) (i : Nat) (d : SDay) (hi : 0 < g i) :
    unitCost (gaugeDay g i d) = unitCost d / g i := by
  have hne : g i ≠ 0 := by grind
  simp only [unitCost, gaugeDay]
  by_cases hB : d.B = 0
  · simp [hB, Rat.zero_mul, Rat.div_def]
  · have : d.B * g i ≠ 0 := by
      intro h; rcases Rat.mul_eq_zero.mp h with h | h <;> contradiction
    simp only [hB, this, if_false, Rat.div_def, Rat.inv_mul_rev]
    grind

theorem regauge_getElem? (g : Nat → Rat) : ∀ (tbl : List SDay) (i j : Nat),
    (regauge g i tbl)[j]? = (tbl[j]?).map (gaugeDay g (i + j)) := by
  intro tbl
  induction tbl with
  | nil => intro i j; simp [regauge]
  | cons d rest ih =>
    intro i j
    cases j with
    | zero => simp [regauge]
    | succ j => simp only [regauge, List.getElem?_cons_succ, ih]; congr 2; omega

theorem dayAt_gauge (g : Nat → Rat) (hg : GPos g) (tbl : List SDay) (j : Nat) :
    unitCost (dayAt (regauge g 0 tbl) j) = unitCost (dayAt tbl j) / g j ∧
    (dayAt (regauge g 0 tbl) j).date = (dayAt tbl j).date := by
  unfold dayAt
  rw [List.getD_eq_getElem?_getD, List.getD_eq_getElem?_getD, regauge_getElem?]
  cases h : tbl[j]? with
  | none => simp [unitCost, Rat.div_def, Rat.zero_mul]
  | some d =>
    simp only [Option.map_some, Option.getD_some, Nat.zero_add]
    exact ⟨unitCost_gauge g j d (hg j), rfl⟩

theorem rsum_x_gauge (g : Nat → Rat) (i : Nat) : ∀ (mine : List Claim), (∀ c ∈ mine, c.i = i) →
    rsum ((mine.map (gaugeClaim g)).map (·.x)) = rsum (mine.map (·.x)) * g i := by
  intro mine
  induction mine with
  | nil => intro _; simp
  | cons c cs ih =>
    intro h
    have hc : c.i = i := h c (by simp)
    simp only [List.map_cons, rsum_cons, ih (fun x hx => h x (by simp [hx]))]
    simp only [gaugeClaim, hc]; grind

theorem dayOut_gauge (g : Nat → Rat) (hg : GPos g) (tbl : List SDay) (i : Nat) (mine : List Claim)
    (hmine : ∀ c ∈ mine, c.i = i) (cl pq pc : Rat) (d : SDay) :
    let a := dayOut (regauge g 0 tbl) (mine.map (gaugeClaim g)) (cl * g i) (pq * g i) pc (gaugeDay g i d)
    let b := dayOut tbl mine cl pq pc d
    a.1.map dispMoney = b.1.map dispMoney ∧ a.2.1 = b.2.1 * g (i + 1) ∧ a.2.2 = b.2.2 := by
  have hi := hg i
  have hne : g i ≠ 0 := by grind
  have hinv : g i * (g i)⁻¹ = 1 := Rat.mul_inv_cancel _ hne
  simp only [dayOut]
  rw [sameDay_gauge g i d hi, rsum_x_gauge g i mine hmine, unitCost_gauge g i d hi]
  have hS : (gaugeDay g i d).S = d.S * g i := rfl
  have hB : (gaugeDay g i d).B = d.B * g i := rfl
  have hr : (gaugeDay g i d).r = d.r * g (i + 1) / g i := rfl
  have hdate : (gaugeDay g i d).date = d.date := rfl
  have hgross : (gaugeDay g i d).Sgross = d.Sgross := rfl
  have hfees : (gaugeDay g i d).Sfees = d.Sfees := rfl
  rw [hS, hB, hr, hdate, hgross, hfees]
  -- abbreviations
  generalize hsd : sameDay d = sd
  generalize hbnb : rsum (mine.map (·.x)) = bnb
  have hfp : d.S * g i - sd * g i - bnb * g i = (d.S - sd - bnb) * g i := by grind
  rw [hfp]
  generalize hfrom : d.S - sd - bnb = fromPool
  have hpc : (if pq * g i = 0 then 0 else fromPool * g i * (pc / (pq * g i))) = (if pq = 0 then 0 else fromPool * (pc / pq)) := by
    by_cases hq : pq = 0
    · simp [hq, Rat.zero_mul]
    · have : pq * g i ≠ 0 := by
        intro h; rcases Rat.mul_eq_zero.mp h with h | h <;> contradiction
      simp only [hq, this, if_false, Rat.div_def, Rat.inv_mul_rev]
      grind
  rw [hpc]
  generalize hpoolCost : (if pq = 0 then 0 else fromPool * (pc / pq)) = poolCost
  have hsdpos : sd * g i > 0 ↔ sd > 0 := mul_pos_iff_of_pos sd (g i) hi
  have hfppos : fromPool * g i > 0 ↔ fromPool > 0 := mul_pos_iff_of_pos fromPool (g i) hi
  have hSpos : d.S * g i > 0 ↔ d.S > 0 := mul_pos_iff_of_pos d.S (g i) hi
  -- the legs, seen through legMoney
  have hlegs :
      ((if sd * g i > 0 then [(⟨.sameDay, sd * g i, sd * g i * (unitCost d / g i), some d.date⟩ : SLeg)] else []) ++
        (mine.map (gaugeClaim g)).map (fun c => (⟨.bedAndBreakfast, c.x, c.xk * unitCost (dayAt (regauge g 0 tbl) c.j), some (dayAt (regauge g 0 tbl) c.j).date⟩ : SLeg)) ++
        (if fromPool * g i > 0 then [(⟨.section104, fromPool * g i, poolCost, none⟩ : SLeg)] else [])).map legMoney
      = ((if sd > 0 then [(⟨.sameDay, sd, sd * unitCost d, some d.date⟩ : SLeg)] else []) ++
        mine.map (fun c => (⟨.bedAndBreakfast, c.x, c.xk * unitCost (dayAt tbl c.j), some (dayAt tbl c.j).date⟩ : SLeg)) ++
        (if fromPool > 0 then [(⟨.section104, fromPool, poolCost, none⟩ : SLeg)] else [])).map legMoney := by
    simp only [List.map_append]
    congr 1
    · congr 1
      · by_cases h : sd > 0
        · simp only [h, hsdpos.mpr h, if_true, List.map_cons, List.map_nil, legMoney]
          congr 3
          simp only [Rat.div_def]; grind
        · have h' : ¬ sd * g i > 0 := fun x => h (hsdpos.mp x)
          simp [h, h']
      · simp only [List.map_map]
        apply List.map_congr_left
        intro c _
        have hd := dayAt_gauge g hg tbl c.j
        have hj := hg c.j
        have hjne : g c.j ≠ 0 := by grind
        have hjinv : g c.j * (g c.j)⁻¹ = 1 := Rat.mul_inv_cancel _ hjne
        simp only [Function.comp, legMoney, gaugeClaim, hd.1, hd.2]
        congr 2
        simp only [Rat.div_def]; grind
    · by_cases h : fromPool > 0
      · simp [h, hfppos.mpr h, legMoney]
      · have h' : ¬ fromPool * g i > 0 := fun x => h (hfppos.mp x)
        simp [h, h']
  have hcost : ∀ (l1 l2 : List SLeg), l1.map legMoney = l2.map legMoney → rsum (l1.map (·.cost)) = rsum (l2.map (·.cost)) := by
    intro l1 l2 h
    have : l1.map (·.cost) = l2.map (·.cost) := by
      have := congrArg (List.map (fun v : Rule × Rat × Option Date => v.2.1)) h
      rw [List.map_map, List.map_map] at this
      exact this
    rw [this]
  refine ⟨?_, ?_, ?_⟩
  · by_cases h : d.S > 0
    · simp only [h, hSpos.mpr h, if_true, List.map_cons, List.map_nil, dispMoney]
      rw [hcost _ _ hlegs, hlegs]
    · have h' : ¬ d.S * g i > 0 := fun x => h (hSpos.mp x)
      simp [h, h']
  · by_cases h : fromPool > 0
    · simp only [h, hfppos.mpr h, if_true, Rat.div_def]; grind
    · have h' : ¬ fromPool * g i > 0 := fun x => h (hfppos.mp x)
      simp only [h, h', if_false, Rat.div_def]; grind
  · by_cases h : fromPool > 0
    · simp only [h, hfppos.mpr h, if_true, Rat.div_def]; grind
    · have h' : ¬ fromPool * g i > 0 := fun x => h (hfppos.mp x)
      simp only [h, h', if_false, Rat.div_def]; grind

end Cgt.Spec

namespace Cgt.Spec
open Cgt

theorem filter_gauge (g : Nat → Rat) (cs : List Claim) (i : Nat) :
    (cs.map (gaugeClaim g)).filter (fun c => c.i = i) = (cs.filter (fun c => c.i = i)).map (gaugeClaim g) := by
  rw [List.filter_map]; rfl

theorem walk_gauge (g : Nat → Rat) (hg : GPos g) (tbl : List SDay) (cs : List Claim) :
    ∀ (rest : List SDay) (i : Nat) (pq pc : Rat),
      let a := walk (regauge g 0 tbl) (cs.map (gaugeClaim g)) i (pq * g i) pc (regauge g i rest)
      let b := walk tbl cs i pq pc rest
      a.1.map dispMoney = b.1.map dispMoney ∧ a.2.1 = b.2.1 * g (i + rest.length) ∧ a.2.2 = b.2.2 := by
  intro rest
  induction rest with
  | nil => intro i pq pc; simp [walk, regauge]
  | cons d rest ih =>
    intro i pq pc
    simp only [regauge]
    rw [walk_cons, walk_cons, filter_gauge, claimedOn_gauge]
    have hm : ∀ c ∈ cs.filter (fun c => c.i = i), c.i = i := by
      intro c hc; simpa using (List.mem_filter.mp hc).2
    obtain ⟨h1, h2, h3⟩ := dayOut_gauge g hg tbl i (cs.filter (fun c => c.i = i)) hm (claimedOn cs i) pq pc d
    simp only at h1 h2 h3 ⊢
    rw [h2, h3]
    obtain ⟨k1, k2, k3⟩ := ih (i + 1) (dayOut tbl (cs.filter (fun c => c.i = i)) (claimedOn cs i) pq pc d).2.1
      (dayOut tbl (cs.filter (fun c => c.i = i)) (claimedOn cs i) pq pc d).2.2
    refine ⟨?_, ?_, k3⟩
    · rw [List.map_append, List.map_append, h1, k1]
    · rw [k2]; congr 2; simp only [List.length_cons]; omega

/-- **units are a gauge** (C10 at table level): re-expressing every day's share counts in units `g i`
    times finer — quantities of day `i` × `g i`, the day's split factor × `g (i+1) / g i`, every amount of
    money untouched — leaves every disposal's date, gross and net proceeds, gain, and every leg's rule,
    allowable cost and acquisition date unchanged, leaves the closing pool's cost unchanged and multiplies
    its quantity by the last unit. -/
theorem identifyTbl_gauge (g : Nat → Rat) (hg : GPos g) (w : Int) (tbl : List SDay) :
    let a := identifyTbl w (regauge g 0 tbl)
    let b := identifyTbl w tbl
    a.1.map dispMoney = b.1.map dispMoney ∧ a.2.1 = b.2.1 * g tbl.length ∧ a.2.2 = b.2.2 := by
  simp only [identifyTbl]
  have hc := claims_gauge g hg w tbl 0 []
  simp only [List.map_nil] at hc
  rw [hc]
  have := walk_gauge g hg tbl (claims w 0 [] tbl) tbl 0 0 0
  simp only [Rat.zero_mul, Nat.zero_add] at this
  exact this

end Cgt.Spec
