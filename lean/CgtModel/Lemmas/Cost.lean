import CgtModel.Lemmas.LegArith
/-! Allowable expenditure is conserved by the main pass: what the legs take plus what stays in the pool
    is what the purchases brought in. -/
namespace Cgt

def dayUnit (d : Day) : Rat := match d.buy with | some b => unitCost b d.offset | none => 0

/-- cost carried by the outstanding look-ahead claims (claimed shares × the unit cost of the purchase
    they are claimed from) -/
def claimCost : List Day → List Rat → Rat
  | [], _ => 0
  | e :: rest, cl => cl.headD 0 * dayUnit e + claimCost rest cl.tail

def poolC' (p : Option Pool) : Rat := match p with | some p => p.c | none => 0

@[simp] theorem legCost_nil : legCost [] = 0 := rfl
@[simp] theorem legCost_cons (l : Leg) (ls : List Leg) : legCost (l :: ls) = l.cost + legCost ls := rfl
theorem legCost_append (a b : List Leg) : legCost (a ++ b) = legCost a + legCost b := by
  simp [legCost, rsum_append]

@[simp] theorem mkLeg_cost (d : Date) (r : Rule) (m c : Rat) (s : Trade) (a : Option Date) :
    (mkLeg d r m c s a).cost = c := rfl

/-- the cost of the 30-day legs is exactly the cost added to the outstanding claims -/
theorem lookahead_cost (w : Int) (d0 : Date) (s : Trade) (fs : List Day) :
    ∀ (rem k : Rat) (cl : List Rat),
      claimCost fs (lookahead w d0 s rem k fs cl).1 = claimCost fs cl + legCost (lookahead w d0 s rem k fs cl).2.1 := by
  induction fs with
  | nil => intro rem k cl; simp [lookahead, claimCost]; grind
  | cons e rest ih =>
    intro rem k cl
    simp only [lookahead]
    split
    · simp; grind
    · split
      · simp; grind
      · split
        · rename_i hb
          have := ih rem (k * e.r) cl.tail
          simp only [claimCost, List.headD_cons, List.tail_cons]
          grind
        · split
          · have := ih rem (k * e.r) cl.tail
            simp only [claimCost, List.headD_cons, List.tail_cons]
            grind
          · rename_i b hb _
            have := ih (rem - min rem (availFor e (cl.headD 0) / k)) (k * e.r) cl.tail
            simp only [claimCost, List.headD_cons, List.tail_cons, legCost_cons, mkLeg_cost, dayUnit, hb]
            grind

theorem sameDayPart_cost (d : Day) (avail : Rat) (s : Trade) :
    legCost (sameDayPart d avail s).2 = (sameDayPart d avail s).1 * dayUnit d := by
  unfold sameDayPart dayUnit
  cases hb : d.buy with
  | none => simp
  | some b =>
    simp only
    split
    · simp; grind
    · simp

theorem poolPart_cost (d : Day) (pool : Option Pool) (rem : Rat) (s : Trade) :
    legCost (poolPart d pool rem s).2.2 = poolC' pool - poolC' (poolPart d pool rem s).1 := by
  unfold poolPart
  by_cases h : rem > 0
  · simp only [h, if_true]
    cases pool with
    | none => simp [poolC']; grind
    | some p =>
      simp only
      by_cases h2 : p.q = 0 ∨ s.q = 0
      · simp [h2, poolC']; grind
      · simp only [h2, if_false]
        by_cases h3 : min rem p.q = 0
        · simp [h3, poolC']; grind
        · simp [h3, poolC']; grind
  · simp only [h, if_false]; simp; grind

/-- one SELL line: the cost its legs carry comes from the day's purchase, the claims, the pool -/
theorem sellStep_cost (t : String) (w : Int) (d : Day) (st : MState) (s : Trade)
    (future : List Day) (cl : List Rat) (st' : MState) (cl' : List Rat) (legs : List Leg)
    (h : sellStep t w d st s future cl = .ok (st', cl', legs)) :
    legCost legs = (st.avail - st'.avail) * dayUnit d + (claimCost future cl' - claimCost future cl)
      + (poolC' st.pool - poolC' st'.pool) := by
  unfold sellStep at h
  split at h
  · cases h
  · by_cases hq : s.q = 0
    · simp only [hq, if_true] at h
      split at h
      · split at h <;> cases h
      · simp only [Except.ok.injEq, Prod.mk.injEq] at h
        obtain ⟨rfl, rfl, rfl⟩ := h
        simp only [List.append_nil, legCost_append]
        rw [sameDayPart_cost, poolPart_cost]
        grind
    · simp only [hq, if_false] at h
      split at h
      · split at h <;> cases h
      · simp only [Except.ok.injEq, Prod.mk.injEq] at h
        obtain ⟨rfl, rfl, rfl⟩ := h
        simp only [legCost_append]
        rw [sameDayPart_cost, poolPart_cost]
        have := lookahead_cost w d.date s future (s.q - (sameDayPart d st.avail s).1) d.r cl
        grind

theorem sellsStep_cost (t : String) (w : Int) (d : Day) (future : List Day) (ss : List Trade) :
    ∀ (st : MState) (cl : List Rat) (st' : MState) (cl' : List Rat) (legs : List Leg),
      sellsStep t w d future st ss cl = .ok (st', cl', legs) →
      legCost legs = (st.avail - st'.avail) * dayUnit d + (claimCost future cl' - claimCost future cl)
        + (poolC' st.pool - poolC' st'.pool) := by
  induction ss with
  | nil =>
    intro st cl st' cl' legs h
    simp only [sellsStep, Except.ok.injEq, Prod.mk.injEq] at h
    obtain ⟨rfl, rfl, rfl⟩ := h
    simp; grind
  | cons s ss ih =>
    intro st cl st' cl' legs h
    simp only [sellsStep] at h
    split at h
    · cases h
    · rename_i st1 cl1 legs1 h1
      split at h
      · cases h
      · rename_i st2 cl2 legs2 h2
        simp only [Except.ok.injEq, Prod.mk.injEq] at h
        obtain ⟨rfl, rfl, rfl⟩ := h
        rw [legCost_append, sellStep_cost t w d st s future cl st1 cl1 legs1 h1, ih st1 cl1 st2 cl2 legs2 h2]
        grind

/-- what a day's purchase brings in: quantity × price + fees + cost offset -/
def dayCost (d : Day) : Rat := match d.buy with | some b => b.q * b.p + b.f + d.offset | none => 0

def buysNonzero : List Day → Prop
  | [] => True
  | d :: ds => (∀ b, d.buy = some b → b.q ≠ 0) ∧ buysNonzero ds

theorem poolAfter_c (d : Day) (st : MState) (ha : 0 ≤ st.avail) :
    poolC' (poolAfter d st) = poolC' st.pool + (match d.buy with | some _ => st.avail * dayUnit d | none => 0) := by
  unfold poolAfter dayUnit
  cases hb : d.buy with
  | none => cases hp : st.pool <;> simp [poolC'] <;> grind
  | some b =>
    by_cases hav : st.avail > 0
    · cases hp : st.pool <;> simp [poolC', hav] <;> grind
    · have h0 : st.avail = 0 := by grind
      cases hp : st.pool <;> simp [poolC', h0] <;> grind

theorem dayStep_cost (t : String) (w : Int) (pool : Option Pool) (d : Day) (claimed : Rat)
    (future : List Day) (cl : List Rat) (pool' : Option Pool) (cl' : List Rat) (legs : List Leg)
    (hd : d.ok) (hpos : ratiosPos future) (hp : 0 ≤ poolQ' pool)
    (hc0 : 0 ≤ claimed) (hc1 : claimed + min d.B (max d.S 0) ≤ d.B) (hc : claimsOk future cl)
    (hnz : ∀ b, d.buy = some b → b.q ≠ 0)
    (h : dayStep t w pool d claimed future cl = .ok (pool', cl', legs)) :
    legCost legs + poolC' pool' - claimCost future cl'
      = poolC' pool - (claimed * dayUnit d + claimCost future cl) + dayCost d := by
  obtain ⟨hr, hss, hB⟩ := hd
  unfold dayStep at h
  split at h
  · cases h
  · rename_i a0 hstage
    split at h
    · cases h
    · rename_i st cl1 legs1 hsells
      simp only [Except.ok.injEq, Prod.mk.injEq] at h
      obtain ⟨rfl, rfl, rfl⟩ := h
      have hcost := sellsStep_cost t w d future d.sells ⟨pool, a0⟩ cl st cl1 legs1 hsells
      have ha0 : a0 = d.B - claimed ∧ 0 ≤ a0 := by
        unfold buyStage at hstage
        cases hb : d.buy with
        | none =>
          simp only [hb, Except.ok.injEq] at hstage
          have : d.B = 0 := by simp [Day.B, hb]
          have : min d.B (max d.S 0) = 0 := by grind
          grind
        | some b =>
          simp only [hb] at hstage
          have hBq : d.B = b.q := by simp [Day.B, hb]
          split at hstage
          · cases hstage
          · simp only [Except.ok.injEq] at hstage; grind
      have sp := sellsStep_spec t w d future hr hpos d.sells ⟨pool, a0⟩ cl st cl1 legs1
        ha0.2 hp hss hc hsells
      rw [poolAfter_c d st sp.2.2.2.1, hcost]
      simp only
      unfold dayCost dayUnit
      cases hb : d.buy with
      | none =>
        have hB0 : d.B = 0 := by simp [Day.B, hb]
        simp only
        grind
      | some b =>
        have hBq : d.B = b.q := by simp [Day.B, hb]
        have hq := hnz b hb
        simp only
        have hu : b.q * unitCost b d.offset = b.q * b.p + b.f + d.offset := by
          unfold unitCost; simp only [hq, ne_eq, not_false_eq_true, if_true]; grind
        grind

def totalDayCost : List Day → Rat
  | [] => 0
  | d :: ds => dayCost d + totalDayCost ds

/-- **the main pass conserves allowable expenditure**: legs' cost + closing pool cost − cost carried by
    outstanding claims = what was there + every purchase's quantity × price + fees + offset -/
theorem runDays_cost (t : String) (w : Int) (ds : List Day) :
    ∀ (pool : Option Pool) (cl : List Rat) (pool' : Option Pool) (legs : List Leg),
      daysOk ds → buysNonzero ds → 0 ≤ poolQ' pool → claimsOk ds cl →
      runDays t w pool ds cl = .ok (pool', legs) →
      legCost legs + poolC' pool' = poolC' pool - claimCost ds cl + totalDayCost ds := by
  induction ds with
  | nil =>
    intro pool cl pool' legs _ _ _ _ h
    simp only [runDays, Except.ok.injEq, Prod.mk.injEq] at h
    obtain ⟨rfl, rfl⟩ := h
    simp [claimCost, totalDayCost]; grind
  | cons d ds ih =>
    intro pool cl pool' legs hok hnz hp hc h
    obtain ⟨hd, hds⟩ := hok
    obtain ⟨hnz1, hnzr⟩ := hnz
    obtain ⟨hc0, hc1, hcr⟩ := hc
    simp only [runDays] at h
    split at h
    · cases h
    · rename_i pool1 cl1 legs1 hday
      split at h
      · cases h
      · rename_i pool2 legs2 hrest
        simp only [Except.ok.injEq, Prod.mk.injEq] at h
        obtain ⟨rfl, rfl⟩ := h
        have hrp := daysOk_ratiosPos ds hds
        have c1 := dayStep_cost t w pool d (cl.headD 0) ds cl.tail pool1 cl1 legs1 hd hrp hp hc0 hc1 hcr hnz1 hday
        have sp := dayStep_spec t w pool d (cl.headD 0) ds cl.tail pool1 cl1 legs1 hd hrp hp hc0 hc1 hcr hday
        have c2 := ih pool1 cl1 pool2 legs2 hds hnzr sp.2.2.2.1 sp.2.2.2.2.1 hrest
        rw [legCost_append]
        simp only [claimCost, totalDayCost]
        grind

theorem claimCost_nil : ∀ ds, claimCost ds [] = 0
  | [] => rfl
  | d :: ds => by simp only [claimCost, List.headD_nil, List.tail_nil]; rw [claimCost_nil ds]; grind

end Cgt
