import CgtModel.Lemmas.Conserve
import CgtModel.Lemmas.LegWindow
/-! No acquisition is over-used: for every day with a purchase, the Same-Day legs of that day plus all
    30-day legs of earlier disposals identified with it (each rescaled by the split factors between
    the disposal and the purchase) stay within the quantity purchased. -/
set_option linter.unusedSimpArgs false
namespace Cgt

/-- product of the split factors of the first `n` days of a list -/
def prodTake : Nat → List Day → Rat
  | 0, _ => 1
  | _ + 1, [] => 1
  | n + 1, e :: rest => e.r * prodTake n rest

/-- shares (in disposal-day units) of the 30-day legs identified with the day dated `date` -/
def bbAt (date : Date) (legs : List Leg) : Rat :=
  legQty (legs.filter (fun x => x.rule = .bedAndBreakfast ∧ x.acq = some date))

theorem bbAt_nil (date : Date) : bbAt date [] = 0 := rfl
theorem bbAt_append (date : Date) (a b : List Leg) : bbAt date (a ++ b) = bbAt date a + bbAt date b := by
  simp [bbAt, List.filter_append, legQty_append]

theorem bbAt_cons (date : Date) (l : Leg) (ls : List Leg) :
    bbAt date (l :: ls) = (if l.rule = .bedAndBreakfast ∧ l.acq = some date then l.qty else 0) + bbAt date ls := by
  unfold bbAt
  by_cases h : l.rule = .bedAndBreakfast ∧ l.acq = some date
  · simp [List.filter_cons, h]
  · simp [List.filter_cons, h]; grind

theorem bbAt_zero_of (date : Date) (legs : List Leg) (h : ∀ x ∈ legs, ¬ (x.rule = .bedAndBreakfast ∧ x.acq = some date)) :
    bbAt date legs = 0 := by
  induction legs with
  | nil => rfl
  | cons l ls ih =>
    rw [bbAt_cons]
    have := h l (by simp)
    simp only [this, if_false]
    rw [ih (fun x hx => h x (by simp [hx]))]; grind

theorem getD_tail (cl : List Rat) (j : Nat) : cl.tail.getD j 0 = cl.getD (j + 1) 0 := by
  cases cl <;> simp

theorem headD_getD (cl : List Rat) : cl.headD 0 = cl.getD 0 0 := by cases cl <;> simp

theorem lookahead_acq (w : Int) (d0 : Date) (s : Trade) (fs : List Day) :
    ∀ (rem k : Rat) (cl : List Rat), ∀ x ∈ (lookahead w d0 s rem k fs cl).2.1, ∃ e ∈ fs, x.acq = some e.date := by
  induction fs with
  | nil => intro rem k cl x hx; simp [lookahead] at hx
  | cons e rest ih =>
    intro rem k cl x hx
    simp only [lookahead] at hx
    split at hx
    · simp at hx
    · split at hx
      · simp at hx
      · split at hx
        · obtain ⟨e', he', h⟩ := ih _ _ _ x hx; exact ⟨e', by simp [he'], h⟩
        · split at hx
          · obtain ⟨e', he', h⟩ := ih _ _ _ x hx; exact ⟨e', by simp [he'], h⟩
          · simp only [List.mem_cons] at hx
            rcases hx with rfl | hx
            · exact ⟨e, by simp, rfl⟩
            · obtain ⟨e', he', h⟩ := ih _ _ _ x hx; exact ⟨e', by simp [he'], h⟩

/-- **what the look-ahead adds to the claim on each later day is what its legs took from that day**,
    converted into that day's units -/
theorem lookahead_use (w : Int) (d0 : Date) (s : Trade) : ∀ (fs : List Day), fs.Pairwise (fun a b => a.date ≠ b.date) →
    ∀ (rem k : Rat) (cl : List Rat) (j : Nat) (e : Day), fs[j]? = some e →
      (lookahead w d0 s rem k fs cl).1.getD j 0
        = cl.getD j 0 + bbAt e.date (lookahead w d0 s rem k fs cl).2.1 * (k * prodTake j fs) := by
  intro fs
  induction fs with
  | nil => intro _ rem k cl j e h; simp at h
  | cons e0 rest ih =>
    intro hd rem k cl j e hj
    rw [List.pairwise_cons] at hd
    obtain ⟨hne, hrest⟩ := hd
    have ih' := ih hrest
    -- legs of the recursive call never point at e0
    have tail_not_e0 : ∀ (rem' k' : Rat) (cl' : List Rat), bbAt e0.date (lookahead w d0 s rem' k' rest cl').2.1 = 0 := by
      intro rem' k' cl'
      apply bbAt_zero_of
      intro x hx ⟨_, hacq⟩
      obtain ⟨e', he', h⟩ := lookahead_acq w d0 s rest rem' k' cl' x hx
      rw [h] at hacq
      injection hacq with hacq
      exact hne e' he' hacq.symm
    simp only [lookahead]
    split
    · simp [bbAt_nil]; grind
    · split
      · simp [bbAt_nil]; grind
      · split
        · -- no purchase on e0
          cases j with
          | zero =>
            simp only [List.getElem?_cons_zero, Option.some.injEq] at hj; subst hj
            simp only [List.getD_cons_zero, prodTake, tail_not_e0, headD_getD]; grind
          | succ j =>
            simp only [List.getElem?_cons_succ] at hj
            simp only [List.getD_cons_succ, prodTake]
            rw [ih' rem (k * e0.r) cl.tail j e hj, getD_tail]; grind
        · split
          · cases j with
            | zero =>
              simp only [List.getElem?_cons_zero, Option.some.injEq] at hj; subst hj
              simp only [List.getD_cons_zero, prodTake, tail_not_e0, headD_getD]; grind
            | succ j =>
              simp only [List.getElem?_cons_succ] at hj
              simp only [List.getD_cons_succ, prodTake]
              rw [ih' rem (k * e0.r) cl.tail j e hj, getD_tail]; grind
          · rename_i b _ ha
            cases j with
            | zero =>
              simp only [List.getElem?_cons_zero, Option.some.injEq] at hj; subst hj
              simp only [List.getD_cons_zero, prodTake, bbAt_cons, tail_not_e0, headD_getD, mkLeg]
              grind
            | succ j =>
              simp only [List.getElem?_cons_succ] at hj
              have hmem : e ∈ rest := List.mem_of_getElem? hj
              have hne' : e0.date ≠ e.date := hne e hmem
              simp only [List.getD_cons_succ, prodTake, bbAt_cons, mkLeg]
              rw [ih' _ (k * e0.r) cl.tail j e hj, getD_tail]
              have : ¬ (True ∧ some e0.date = some e.date) := by
                intro ⟨_, h⟩; injection h with h; exact hne' h
              simp only [this, if_false]; grind


theorem sameDayPart_bbAt (date : Date) (d : Day) (avail : Rat) (s : Trade) : bbAt date (sameDayPart d avail s).2 = 0 := by
  apply bbAt_zero_of
  intro x hx ⟨hr, _⟩
  unfold sameDayPart at hx
  split at hx
  · split at hx
    · simp only [List.mem_singleton] at hx; subst hx; simp [mkLeg] at hr
    · simp at hx
  · simp at hx

theorem poolPart_bbAt (date : Date) (d : Day) (pool : Option Pool) (rem : Rat) (s : Trade) :
    bbAt date (poolPart d pool rem s).2.2 = 0 := by
  apply bbAt_zero_of
  intro x hx ⟨hr, _⟩
  unfold poolPart at hx
  split at hx
  · split at hx
    · split at hx
      · simp at hx
      · simp only at hx
        split at hx
        · simp at hx
        · simp only [List.mem_singleton] at hx; subst hx; simp [mkLeg] at hr
    · simp at hx
  · simp at hx

theorem sellStep_use (t : String) (w : Int) (d : Day) (st st' : MState) (s : Trade) (future : List Day)
    (cl cl' : List Rat) (legs : List Leg) (hdist : future.Pairwise (fun a b => a.date ≠ b.date))
    (h : sellStep t w d st s future cl = .ok (st', cl', legs)) :
    ∀ (j : Nat) (e : Day), future[j]? = some e →
      cl'.getD j 0 = cl.getD j 0 + bbAt e.date legs * (d.r * prodTake j future) := by
  intro j e hj
  unfold sellStep at h
  split at h
  · cases h
  · simp only at h
    generalize hla : (if s.q = 0 then (cl, ([] : List Leg), s.q - (sameDayPart d st.avail s).1)
      else lookahead w d.date s (s.q - (sameDayPart d st.avail s).1) d.r future cl) = la at h
    have hcl : la.1.getD j 0 = cl.getD j 0 + bbAt e.date la.2.1 * (d.r * prodTake j future) := by
      rw [← hla]
      split
      · simp [bbAt_nil]; grind
      · exact lookahead_use w d.date s future hdist _ d.r cl j e hj
    split at h
    · split at h <;> cases h
    · simp only [Except.ok.injEq, Prod.mk.injEq] at h
      obtain ⟨_, rfl, rfl⟩ := h
      rw [bbAt_append, bbAt_append, sameDayPart_bbAt, poolPart_bbAt, hcl]; grind

theorem sellsStep_use (t : String) (w : Int) (d : Day) (future : List Day)
    (hdist : future.Pairwise (fun a b => a.date ≠ b.date)) :
    ∀ (ss : List Trade) (st st' : MState) (cl cl' : List Rat) (legs : List Leg),
      sellsStep t w d future st ss cl = .ok (st', cl', legs) →
      ∀ (j : Nat) (e : Day), future[j]? = some e →
        cl'.getD j 0 = cl.getD j 0 + bbAt e.date legs * (d.r * prodTake j future) := by
  intro ss
  induction ss with
  | nil =>
    intro st st' cl cl' legs h j e _
    simp only [sellsStep, Except.ok.injEq, Prod.mk.injEq] at h
    obtain ⟨_, rfl, rfl⟩ := h
    simp [bbAt_nil]; grind
  | cons s ss ih =>
    intro st st' cl cl' legs h j e hj
    simp only [sellsStep] at h
    split at h
    · cases h
    · rename_i st1 cl1 legs1 h1
      split at h
      · cases h
      · rename_i st2 cl2 legs2 h2
        simp only [Except.ok.injEq, Prod.mk.injEq] at h
        obtain ⟨_, rfl, rfl⟩ := h
        rw [ih st1 st2 cl1 cl2 legs2 h2 j e hj, sellStep_use t w d st st1 s future cl cl1 legs1 hdist h1 j e hj, bbAt_append]
        grind


/-- product of the split factors of the days dated from `a` (inclusive) to `b` (exclusive) -/
def factorBetween (a b : Int) : List Day → Rat
  | [] => 1
  | d :: ds => (if a ≤ d.ord ∧ d.ord < b then d.r else 1) * factorBetween a b ds

theorem factorBetween_append (a b : Int) (xs ys : List Day) :
    factorBetween a b (xs ++ ys) = factorBetween a b xs * factorBetween a b ys := by
  induction xs with
  | nil => simp [factorBetween]
  | cons x xs ih => simp only [List.cons_append, factorBetween, ih]; grind

theorem factorBetween_lt (a b : Int) (ds : List Day) (h : ∀ y ∈ ds, y.ord < a) : factorBetween a b ds = 1 := by
  induction ds with
  | nil => rfl
  | cons d ds ih =>
    have hd := h d (by simp)
    have : ¬ (a ≤ d.ord ∧ d.ord < b) := by omega
    simp only [factorBetween, this, if_false, ih (fun y hy => h y (by simp [hy]))]; grind

theorem factorBetween_ge (a b : Int) (ds : List Day) (h : ∀ y ∈ ds, b ≤ y.ord) : factorBetween a b ds = 1 := by
  induction ds with
  | nil => rfl
  | cons d ds ih =>
    have hd := h d (by simp)
    have : ¬ (a ≤ d.ord ∧ d.ord < b) := by omega
    simp only [factorBetween, this, if_false, ih (fun y hy => h y (by simp [hy]))]; grind

theorem factor_fs (a : Int) : ∀ (fs : List Day), fs.Pairwise (fun x y => x.ord < y.ord) → (∀ x ∈ fs, a ≤ x.ord) →
    ∀ (j : Nat) (e : Day), fs[j]? = some e → factorBetween a e.ord fs = prodTake j fs := by
  intro fs
  induction fs with
  | nil => intro _ _ j e h; simp at h
  | cons x rest ih =>
    intro hs ha j e hj
    rw [List.pairwise_cons] at hs
    cases j with
    | zero =>
      simp only [List.getElem?_cons_zero, Option.some.injEq] at hj; subst hj
      have : ¬ (a ≤ x.ord ∧ x.ord < x.ord) := by omega
      simp only [factorBetween, this, if_false, prodTake]
      rw [factorBetween_ge a x.ord rest (fun y hy => by have := hs.1 y hy; omega)]; grind
    | succ j =>
      simp only [List.getElem?_cons_succ] at hj
      have hmem : e ∈ rest := List.mem_of_getElem? hj
      have hlt := hs.1 e hmem
      have hax := ha x (by simp)
      have : a ≤ x.ord ∧ x.ord < e.ord := ⟨hax, hlt⟩
      simp only [factorBetween, this, and_self, if_true, prodTake]
      rw [ih hs.2 (fun y hy => ha y (by simp [hy])) j e hj]

/-- the factor between a day `d` and the `j`-th day after it, read off the whole (date-ordered) list -/
theorem factor_all (pre : List Day) (d : Day) (fs : List Day)
    (hs : (pre ++ d :: fs).Pairwise (fun x y => x.ord < y.ord)) (j : Nat) (e : Day) (hj : fs[j]? = some e) :
    factorBetween d.ord e.ord (pre ++ d :: fs) = d.r * prodTake j fs := by
  rw [List.pairwise_append] at hs
  obtain ⟨_, hdfs, hcross⟩ := hs
  rw [List.pairwise_cons] at hdfs
  have hmem : e ∈ fs := List.mem_of_getElem? hj
  have hde : d.ord < e.ord := hdfs.1 e hmem
  rw [factorBetween_append, factorBetween_lt d.ord e.ord pre (fun y hy => hcross y hy d (by simp))]
  have : d.ord ≤ d.ord ∧ d.ord < e.ord := ⟨Int.le_refl _, hde⟩
  simp only [factorBetween, this, and_self, if_true]
  rw [factor_fs d.ord fs hdfs.2 (fun x hx => by have := hdfs.1 x hx; omega) j e hj]; grind

/-- shares of the purchase of day `e` taken by 30-day legs, in `e`'s own units -/
def bbUse (all : List Day) (e : Day) (legs : List Leg) : Rat :=
  rsum ((legs.filter (fun x => x.rule = .bedAndBreakfast ∧ x.acq = some e.date)).map
    (fun x => x.qty * factorBetween x.sellDate.ord e.ord all))

/-- shares of the purchase of day `e` taken by that day's Same-Day legs -/
def sdUse (e : Day) (legs : List Leg) : Rat :=
  legQty (legs.filter (fun x => x.rule = .sameDay ∧ x.sellDate = e.date))

theorem bbUse_append (all : List Day) (e : Day) (a b : List Leg) : bbUse all e (a ++ b) = bbUse all e a + bbUse all e b := by
  simp [bbUse, List.filter_append, rsum_append]
theorem sdUse_append (e : Day) (a b : List Leg) : sdUse e (a ++ b) = sdUse e a + sdUse e b := by
  simp [sdUse, List.filter_append, legQty_append]

theorem bbUse_zero_of (all : List Day) (e : Day) (legs : List Leg)
    (h : ∀ x ∈ legs, ¬ (x.rule = .bedAndBreakfast ∧ x.acq = some e.date)) : bbUse all e legs = 0 := by
  unfold bbUse
  have : legs.filter (fun x => decide (x.rule = .bedAndBreakfast ∧ x.acq = some e.date)) = [] := by
    rw [List.filter_eq_nil_iff]; intro x hx; simpa using h x hx
  rw [this]; rfl

theorem sdUse_zero_of (e : Day) (legs : List Leg) (h : ∀ x ∈ legs, x.sellDate ≠ e.date) : sdUse e legs = 0 := by
  unfold sdUse
  have : legs.filter (fun x => decide (x.rule = .sameDay ∧ x.sellDate = e.date)) = [] := by
    rw [List.filter_eq_nil_iff]; intro x hx; simp only [decide_eq_true_eq]; intro ⟨_, h2⟩; exact h x hx h2
  rw [this]; rfl

/-- legs of one disposal day: their use of `e` is `bbAt` times the factor from that day to `e` -/
theorem bbUse_same_day (all : List Day) (e d : Day) : ∀ (legs : List Leg), (∀ x ∈ legs, x.sellDate = d.date) →
    bbUse all e legs = bbAt e.date legs * factorBetween d.ord e.ord all := by
  intro legs
  induction legs with
  | nil => intro _; simp [bbUse, bbAt]
  | cons l ls ih =>
    intro h
    have hl := h l (by simp)
    have ih' := ih (fun x hx => h x (by simp [hx]))
    rw [bbAt_cons]
    unfold bbUse at ih' ⊢
    by_cases hc : l.rule = .bedAndBreakfast ∧ l.acq = some e.date
    · simp only [List.filter_cons, hc, and_self, decide_true, if_true, List.map_cons, rsum_cons, ih', hl]
      unfold Day.ord; grind
    · simp only [List.filter_cons, hc, decide_false, if_false, ih']
      simp; grind

theorem sdUse_same_day (d : Day) (legs : List Leg) (h : ∀ x ∈ legs, x.sellDate = d.date) : sdUse d legs = sdQty legs := by
  unfold sdUse sdQty
  congr 1
  apply List.filter_congr
  intro x hx
  simp only [h x hx, and_true]
  cases x.rule <;> rfl

theorem date_ne_of_ord_lt (a b : Day) (h : a.ord < b.ord) : a.date ≠ b.date := by
  intro e; unfold Day.ord at h; rw [e] at h; omega


theorem dayStep_legwin (t : String) (w : Int) (pool pool' : Option Pool) (d : Day) (claimed : Rat) (future : List Day)
    (cl cl' : List Rat) (legs : List Leg) (hlater : ∀ e ∈ future, d.ord < e.ord)
    (h : dayStep t w pool d claimed future cl = .ok (pool', cl', legs)) : ∀ l ∈ legs, LegWin w d.date l := by
  unfold dayStep at h
  split at h
  · cases h
  · split at h
    · cases h
    · rename_i st cl1 legs1 hss
      simp only [Except.ok.injEq, Prod.mk.injEq] at h
      obtain ⟨_, _, rfl⟩ := h
      exact sellsStep_legwin t w d future hlater d.sells _ st cl cl1 legs1 hss

theorem dayStep_use (t : String) (w : Int) (pool pool' : Option Pool) (d : Day) (claimed : Rat) (future : List Day)
    (cl cl' : List Rat) (legs : List Leg) (hdist : future.Pairwise (fun a b => a.date ≠ b.date))
    (h : dayStep t w pool d claimed future cl = .ok (pool', cl', legs)) :
    ∀ (j : Nat) (e : Day), future[j]? = some e →
      cl'.getD j 0 = cl.getD j 0 + bbAt e.date legs * (d.r * prodTake j future) := by
  unfold dayStep at h
  split at h
  · cases h
  · split at h
    · cases h
    · rename_i st cl1 legs1 hss
      simp only [Except.ok.injEq, Prod.mk.injEq] at h
      obtain ⟨_, rfl, rfl⟩ := h
      exact sellsStep_use t w d future hdist d.sells _ st cl cl1 legs1 hss

theorem strict_dates_distinct (ds : List Day) (h : ds.Pairwise (fun a b => a.ord < b.ord)) :
    ds.Pairwise (fun a b => a.date ≠ b.date) := h.imp (fun hlt => date_ne_of_ord_lt _ _ hlt)

/-- the generalised statement: `L0` are the legs of the days before `ds`; `cl` holds, for every day of
    `ds`, exactly what those legs took from it -/
theorem usage_inv (t : String) (w : Int) (all : List Day) (hall : all.Pairwise (fun a b => a.ord < b.ord)) :
    ∀ (ds pre : List Day) (pool pool' : Option Pool) (cl : List Rat) (L0 legs : List Leg),
      all = pre ++ ds → daysOk ds → 0 ≤ poolQ' pool → claimsOk ds cl →
      (∀ (j : Nat) (e : Day), ds[j]? = some e → cl.getD j 0 = bbUse all e L0 ∧ sdUse e L0 = 0) →
      runDays t w pool ds cl = .ok (pool', legs) →
      ∀ e ∈ ds, sdUse e (L0 ++ legs) + bbUse all e (L0 ++ legs) ≤ e.B := by
  intro ds
  induction ds with
  | nil => intro _ _ _ _ _ _ _ _ _ _ _ _ e he; simp at he
  | cons d rest ih =>
    intro pre pool pool' cl L0 legs hsplit hok hp hc hinv hrun
    -- order facts
    have hs := hall
    rw [hsplit, List.pairwise_append] at hs
    obtain ⟨_, hdrest, _⟩ := hs
    rw [List.pairwise_cons] at hdrest
    obtain ⟨hlater, hrests⟩ := hdrest
    have hlater' : ∀ e ∈ rest, d.ord < e.ord := hlater
    -- unfold one day
    simp only [runDays] at hrun
    split at hrun
    · cases hrun
    · rename_i pool1 cl1 legs1 h1
      split at hrun
      · cases hrun
      · rename_i pool2 legs2 h2
        simp only [Except.ok.injEq, Prod.mk.injEq] at hrun
        obtain ⟨_, rfl⟩ := hrun
        obtain ⟨hc0, hc1, hcrest⟩ := hc
        have sp := dayStep_spec t w pool d (cl.headD 0) rest cl.tail pool1 cl1 legs1 hok.1
          (daysOk_ratiosPos rest hok.2) hp hc0 hc1 hcrest h1
        obtain ⟨_, hlegs1, hbound, hp1, hc1', _⟩ := sp
        have hwin1 := dayStep_legwin t w pool pool1 d _ rest _ cl1 legs1 hlater' h1
        have huse1 := dayStep_use t w pool pool1 d _ rest _ cl1 legs1 (strict_dates_distinct rest hrests) h1
        have hwin2 := runDays_legwin t w rest hrests pool1 pool2 cl1 legs2 h2
        -- the invariant at the head
        obtain ⟨hcl0, hsd0⟩ := hinv 0 d (by simp)
        -- legs1 are dated d
        have hl1date : ∀ x ∈ legs1, x.sellDate = d.date := fun x hx => (hlegs1 x hx).2
        intro e he
        simp only [List.mem_cons] at he
        rcases he with rfl | he
        · -- the day itself
          have e1 : sdUse e legs1 = sdQty legs1 := sdUse_same_day e legs1 hl1date
          have e2 : sdUse e legs2 = 0 := by
            apply sdUse_zero_of
            intro x hx hcontra
            obtain ⟨d', hd', hw⟩ := hwin2 x hx
            have := date_ne_of_ord_lt e d' (hlater' d' hd')
            rw [hw.1] at hcontra
            exact this hcontra.symm
          have e3 : bbUse all e legs1 = 0 := by
            apply bbUse_zero_of
            intro x hx ⟨hr, hacq⟩
            obtain ⟨_, _, _, hbb⟩ := hwin1 x hx
            obtain ⟨a, ha, hlt, _⟩ := hbb hr
            rw [ha] at hacq; injection hacq with hacq
            rw [hacq] at hlt; omega
          have e4 : bbUse all e legs2 = 0 := by
            apply bbUse_zero_of
            intro x hx ⟨hr, hacq⟩
            obtain ⟨d', hd', hw⟩ := hwin2 x hx
            obtain ⟨_, _, _, hbb⟩ := hw
            obtain ⟨a, ha, hlt, _⟩ := hbb hr
            rw [ha] at hacq; injection hacq with hacq
            have := hlater' d' hd'
            unfold Day.ord at this
            rw [hacq] at hlt; omega
          rw [sdUse_append, sdUse_append, bbUse_append, bbUse_append, hsd0, e1, e2, e3, e4, ← hcl0, ← headD_getD]
          grind
        · -- a later day: the induction hypothesis with the claims updated by today's legs
          have hinv' : ∀ (j : Nat) (e' : Day), rest[j]? = some e' →
              cl1.getD j 0 = bbUse all e' (L0 ++ legs1) ∧ sdUse e' (L0 ++ legs1) = 0 := by
            intro j e' hj
            obtain ⟨hclj, hsdj⟩ := hinv (j + 1) e' (by simpa using hj)
            have hmem : e' ∈ rest := List.mem_of_getElem? hj
            constructor
            · rw [huse1 j e' hj, getD_tail, hclj, bbUse_append, bbUse_same_day all e' d legs1 hl1date]
              have hf := factor_all pre d rest (hsplit ▸ hall) j e' hj
              rw [← hsplit] at hf
              rw [hf]
            · rw [sdUse_append, hsdj]
              have : sdUse e' legs1 = 0 := by
                apply sdUse_zero_of
                intro x hx hcontra
                rw [hl1date x hx] at hcontra
                exact date_ne_of_ord_lt d e' (hlater' e' hmem) hcontra
              rw [this]; grind
          have := ih (pre ++ [d]) pool1 pool2 cl1 (L0 ++ legs1) legs2 (by rw [hsplit]; simp) hok.2 hp1 hc1' hinv' h2 e he
          rw [List.append_assoc] at this
          exact this

/-- **C02 (b), in full, for one security**: with strictly increasing day dates, every purchase is used
    by its own day's Same-Day legs and by the 30-day legs of earlier disposals — rescaled by the split
    factors in between — for no more than its quantity -/
theorem no_acquisition_overused (t : String) (w : Int) (ds : List Day) (hs : ds.Pairwise (fun a b => a.ord < b.ord))
    (hok : daysOk ds) (pool : Option Pool) (legs : List Leg) (h : runDays t w none ds [] = .ok (pool, legs)) :
    ∀ e ∈ ds, sdUse e legs + bbUse ds e legs ≤ e.B := by
  have := usage_inv t w ds hs ds [] none pool [] [] legs (by simp) hok (by simp [poolQ']) (claimsOk_nil ds hok)
    (by intro j e _; simp [bbUse, sdUse]) h
  simpa using this

end Cgt
