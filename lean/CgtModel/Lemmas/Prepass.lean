import CgtModel.Lemmas.Offsets
import CgtModel.Lemmas.Conserve
/-! The whole cost pre-pass: the offsets it leaves on the lots add up to the signed amounts of exactly
    those CAPRETURN/ACCUMULATION events that found shares held ("took effect"); lots correspond
    one-to-one, in order, to the days that have a purchase. -/
namespace Cgt

def LotsInv (lots : List Lot) : Prop := ∀ l ∈ lots, 0 ≤ l.held

def lotOrds (lots : List Lot) : List Int := lots.map (·.ord)

theorem applyAdj_inv (adj : Rat) (lots : List Lot) (h : LotsInv lots) : LotsInv (applyAdj adj lots) := by
  by_cases hth : totalHeld lots = 0
  · rw [applyAdj_none_held adj lots hth]; exact h
  · rw [applyAdj_eq adj lots hth]
    intro l hl
    simp only [List.mem_map] at hl
    obtain ⟨l0, hl0, rfl⟩ := hl
    rw [adjStep_held]; exact h l0 hl0

theorem applyAdj_ords (adj : Rat) (lots : List Lot) : lotOrds (applyAdj adj lots) = lotOrds lots := by
  have := applyAdj_shape adj lots
  have h2 := congrArg (List.map (fun x : Int × Rat × Rat × Rat × Rat => x.1)) this
  simp only [List.map_map] at h2
  exact h2

theorem applyAdj_eff (adj : Rat) (lots : List Lot) (h : LotsInv lots) :
    offSum (applyAdj adj lots) = offSum lots + effOf adj lots := by
  unfold effOf
  by_cases hth : totalHeld lots = 0
  · rw [applyAdj_none_held adj lots hth]; simp [hth]; grind
  · rw [applyAdj_sum adj lots h hth]; simp [hth]

theorem consumeOn_props (ord : Int) (amt : Rat) : ∀ (lots : List Lot), LotsInv lots →
    LotsInv (consumeOn ord amt lots) ∧ (consumeOn ord amt lots).map (·.off) = lots.map (·.off)
      ∧ lotOrds (consumeOn ord amt lots) = lotOrds lots := by
  intro lots
  induction lots with
  | nil => intro h; exact ⟨h, rfl, rfl⟩
  | cons l ls ih =>
    intro h
    have hl := h l (by simp)
    have hls : LotsInv ls := fun x hx => h x (by simp [hx])
    simp only [consumeOn]
    split
    · rename_i hc
      refine ⟨?_, by simp, by simp [lotOrds]⟩
      intro x hx
      simp only [List.mem_cons] at hx
      rcases hx with rfl | hx
      · simp only [Lot.held] at hl ⊢
        have : min amt (l.q - l.consumed) ≤ l.q - l.consumed := by grind
        grind
      · exact hls x hx
    · obtain ⟨i1, i2, i3⟩ := ih hls
      refine ⟨?_, by simp [i2], by simp only [lotOrds, List.map_cons] at i3 ⊢; rw [i3]⟩
      intro x hx
      simp only [List.mem_cons] at hx
      rcases hx with rfl | hx
      · exact hl
      · exact i1 x hx

theorem consumeBefore_props (ord : Int) : ∀ (lots : List Lot) (rem : Rat), LotsInv lots →
    LotsInv (consumeBefore ord rem lots) ∧ (consumeBefore ord rem lots).map (·.off) = lots.map (·.off)
      ∧ lotOrds (consumeBefore ord rem lots) = lotOrds lots := by
  intro lots
  induction lots with
  | nil => intro rem h; exact ⟨h, rfl, rfl⟩
  | cons l ls ih =>
    intro rem h
    have hl := h l (by simp)
    have hls : LotsInv ls := fun x hx => h x (by simp [hx])
    simp only [consumeBefore]
    split
    · obtain ⟨i1, i2, i3⟩ := ih (rem - min rem l.held) hls
      refine ⟨?_, by simp [i2], by simp only [lotOrds, List.map_cons] at i3 ⊢; rw [i3]⟩
      intro x hx
      simp only [List.mem_cons] at hx
      rcases hx with rfl | hx
      · simp only [Lot.held] at hl ⊢
        have : min rem (l.q - l.consumed) ≤ l.q - l.consumed := by grind
        grind
      · exact i1 x hx
    · obtain ⟨i1, i2, i3⟩ := ih rem hls
      refine ⟨?_, by simp [i2], by simp only [lotOrds, List.map_cons] at i3 ⊢; rw [i3]⟩
      intro x hx
      simp only [List.mem_cons] at hx
      rcases hx with rfl | hx
      · exact hl
      · exact i1 x hx

theorem prepassSell_props (ord : Int) (amt : Rat) (lots : List Lot) (h : LotsInv lots) :
    LotsInv (prepassSell ord amt lots) ∧ (prepassSell ord amt lots).map (·.off) = lots.map (·.off)
      ∧ lotOrds (prepassSell ord amt lots) = lotOrds lots := by
  unfold prepassSell
  split
  · exact ⟨h, rfl, rfl⟩
  · simp only
    split
    · obtain ⟨a1, a2, a3⟩ := consumeOn_props ord (min amt (heldOn ord lots)) lots h
      split
      · obtain ⟨b1, b2, b3⟩ := consumeBefore_props ord _ (amt - min amt (heldOn ord lots)) a1
        exact ⟨b1, b2.trans a2, b3.trans a3⟩
      · exact ⟨a1, a2, a3⟩
    · exact consumeBefore_props ord lots amt h

theorem sellsFold_props (ord : Int) : ∀ (sells : List Trade) (lots : List Lot), LotsInv lots →
    LotsInv (sells.foldl (fun ls s => prepassSell ord s.q ls) lots)
      ∧ (sells.foldl (fun ls s => prepassSell ord s.q ls) lots).map (·.off) = lots.map (·.off)
      ∧ lotOrds (sells.foldl (fun ls s => prepassSell ord s.q ls) lots) = lotOrds lots := by
  intro sells
  induction sells with
  | nil => intro lots h; exact ⟨h, rfl, rfl⟩
  | cons s ss ih =>
    intro lots h
    obtain ⟨a1, a2, a3⟩ := prepassSell_props ord s.q lots h
    obtain ⟨b1, b2, b3⟩ := ih _ a1
    exact ⟨b1, b2.trans a2, b3.trans a3⟩

theorem accStep_eq (ls : List Lot) (v : Rat) : accStep ls v = applyAdj v ls := by
  unfold accStep
  split
  · rename_i h
    have : ls = [] := by simpa using h
    subst this; rfl
  · rfl

theorem accsFold_props : ∀ (vs : List Rat) (lots : List Lot), LotsInv lots →
    LotsInv (vs.foldl accStep lots) ∧ offSum (vs.foldl accStep lots) = offSum lots + effAccs vs lots
      ∧ lotOrds (vs.foldl accStep lots) = lotOrds lots := by
  intro vs
  induction vs with
  | nil => intro lots h; refine ⟨h, ?_, rfl⟩; simp [effAccs]; grind
  | cons v vs ih =>
    intro lots h
    simp only [List.foldl_cons, effAccs]
    have hi : LotsInv (accStep lots v) := by rw [accStep_eq]; exact applyAdj_inv v lots h
    obtain ⟨a1, a2, a3⟩ := ih _ hi
    refine ⟨a1, ?_, ?_⟩
    · rw [a2, accStep_eq, applyAdj_eff v lots h]; grind
    · rw [a3, accStep_eq, applyAdj_ords]

theorem applyCaps_props (t : String) (ord : Int) : ∀ (cs : List (Nat × Rat)) (lots lots' : List Lot),
    LotsInv lots → applyCaps t ord cs lots = .ok lots' →
    LotsInv lots' ∧ offSum lots' = offSum lots + effCaps cs lots ∧ lotOrds lots' = lotOrds lots := by
  intro cs
  induction cs with
  | nil =>
    intro lots lots' h hc
    simp only [applyCaps, Except.ok.injEq] at hc; subst hc
    refine ⟨h, ?_, rfl⟩; simp [effCaps]; grind
  | cons c cs ih =>
    intro lots lots' h hc
    obtain ⟨idx, net⟩ := c
    simp only [applyCaps] at hc
    split at hc
    · rename_i hem
      have : lots = [] := by simpa using hem
      subst this
      obtain ⟨a1, a2, a3⟩ := ih [] lots' h hc
      refine ⟨a1, ?_, a3⟩
      rw [a2]; simp only [effCaps]
      have e1 : effOf (-net) [] = 0 := by simp [effOf, totalHeld]
      have e2 : applyAdj (-net) [] = [] := by simp [applyAdj, totalHeld]
      rw [e1, e2]; grind
    · split at hc
      · cases hc
      · have hi := applyAdj_inv (-net) lots h
        obtain ⟨a1, a2, a3⟩ := ih _ lots' hi hc
        refine ⟨a1, ?_, by rw [a3, applyAdj_ords]⟩
        rw [a2, applyAdj_eff (-net) lots h]; simp only [effCaps]; grind

theorem scaleLot_off (r : Rat) (l : Lot) : (scaleLot r l).off = l.off := by
  unfold scaleLot; split <;> rfl
theorem scaleLot_ord (r : Rat) (l : Lot) : (scaleLot r l).ord = l.ord := by
  unfold scaleLot; split <;> rfl
theorem scaleLot_held (r : Rat) (l : Lot) (hr : r ≠ 0) : (scaleLot r l).held = l.held * r := by
  unfold scaleLot; simp only [hr, if_false, Lot.held]; grind

/-- restating the share counts keeps every lot's offset and date, and (for a positive factor) the
    invariant that no lot is over-consumed -/
theorem scale_props (r : Rat) (hr : 0 < r) (lots : List Lot) (h : LotsInv lots) :
    LotsInv (lots.map (scaleLot r)) ∧ (lots.map (scaleLot r)).map (·.off) = lots.map (·.off)
      ∧ lotOrds (lots.map (scaleLot r)) = lotOrds lots := by
  have hne : r ≠ 0 := by grind
  refine ⟨?_, ?_, ?_⟩
  · intro l hl
    simp only [List.mem_map] at hl
    obtain ⟨l0, hl0, rfl⟩ := hl
    rw [scaleLot_held r l0 hne]
    exact Rat.mul_nonneg (h l0 hl0) (Rat.le_of_lt hr)
  · rw [List.map_map]; apply List.map_congr_left; intro l _; exact scaleLot_off r l
  · unfold lotOrds; rw [List.map_map]; apply List.map_congr_left; intro l _; exact scaleLot_ord r l

def buyOrd (d : Day) : List Int := match d.buy with | some _ => [d.ord] | none => []

theorem prepassDay_props (t : String) (lots lots' : List Lot) (d : Day) (h : LotsInv lots) (hB : 0 ≤ d.B)
    (hr : 0 < d.r) (hp : prepassDay t lots d = .ok lots') :
    LotsInv lots' ∧ offSum lots' = offSum lots + effDay lots d ∧ lotOrds lots' = lotOrds lots ++ buyOrd d := by
  unfold prepassDay at hp
  have hfold : (d.accs.foldl (fun ls v => if ls.isEmpty then ls else applyAdj v ls) lots) = d.accs.foldl accStep lots := rfl
  simp only [hfold] at hp
  obtain ⟨a1, a2, a3⟩ := accsFold_props d.accs lots h
  split at hp
  · cases hp
  · rename_i lots1 hcaps
    obtain ⟨b1, b2, b3⟩ := applyCaps_props t d.ord d.caps _ lots1 a1 hcaps
    simp only [Except.ok.injEq] at hp
    cases hb : d.buy with
    | none =>
      rw [hb] at hp
      simp only at hp
      obtain ⟨c1', c2', c3'⟩ := sellsFold_props d.ord d.sells lots1 b1
      obtain ⟨c1, s2, s3⟩ := scale_props d.r hr _ c1'
      have c2 := s2.trans c2'
      have c3 := s3.trans c3'
      subst hp
      refine ⟨c1, ?_, ?_⟩
      · unfold offSum at *; rw [c2, b2, a2]; unfold effDay; grind
      · rw [c3, b3, a3]; simp [buyOrd, hb]
    | some b =>
      rw [hb] at hp
      simp only at hp
      have hinv : LotsInv (lots1 ++ [{ ord := d.ord, q := b.q, p := b.p, f := b.f }]) := by
        intro x hx
        simp only [List.mem_append, List.mem_singleton] at hx
        rcases hx with hx | rfl
        · exact b1 x hx
        · simp only [Lot.held]
          have : d.B = b.q := by simp [Day.B, hb]
          rw [this] at hB; grind
      obtain ⟨c1', c2', c3'⟩ := sellsFold_props d.ord d.sells _ hinv
      obtain ⟨c1, s2, s3⟩ := scale_props d.r hr _ c1'
      have c2 := s2.trans c2'
      have c3 := s3.trans c3'
      subst hp
      refine ⟨c1, ?_, ?_⟩
      · unfold offSum at *
        rw [c2]
        simp only [List.map_append, List.map_cons, List.map_nil, rsum_append, rsum_cons, rsum_nil]
        rw [b2, a2]; unfold effDay; grind
      · rw [c3]; simp only [lotOrds, List.map_append, List.map_cons, List.map_nil] at b3 a3 ⊢
        rw [b3, a3]; simp [buyOrd, hb]

theorem prepass_props (t : String) : ∀ (ds : List Day) (lots lots' : List Lot), LotsInv lots → daysOk ds →
    prepass t lots ds = .ok lots' →
    LotsInv lots' ∧ offSum lots' = offSum lots + effAll t lots ds
      ∧ lotOrds lots' = lotOrds lots ++ (ds.map buyOrd).flatten := by
  intro ds
  induction ds with
  | nil =>
    intro lots lots' h _ hp
    simp only [prepass, Except.ok.injEq] at hp; subst hp
    refine ⟨h, ?_, by simp⟩; simp [effAll]; grind
  | cons d ds ih =>
    intro lots lots' h hok hp
    simp only [prepass] at hp
    split at hp
    · cases hp
    · rename_i lots1 hd
      obtain ⟨a1, a2, a3⟩ := prepassDay_props t lots lots1 d h hok.1.2.2 hok.1.1 hd
      obtain ⟨b1, b2, b3⟩ := ih lots1 lots' a1 hok.2 hp
      refine ⟨b1, ?_, ?_⟩
      · rw [b2, a2]; simp only [effAll, hd]; grind
      · rw [b3, a3]; simp

/-- with distinct lot dates, looking the offsets up by date finds each lot's own offset -/
theorem sum_offsetFor : ∀ (lots : List Lot), (lotOrds lots).Nodup →
    rsum ((lotOrds lots).map (fun o => offsetFor o lots)) = offSum lots := by
  intro lots
  induction lots with
  | nil => intro _; rfl
  | cons l ls ih =>
    intro hnd
    simp only [lotOrds, List.map_cons, List.nodup_cons] at hnd
    obtain ⟨hnot, hnd'⟩ := hnd
    have ih' := ih hnd'
    simp only [lotOrds, List.map_cons, rsum_cons, offSum]
    have h1 : offsetFor l.ord (l :: ls) = l.off := by simp [offsetFor]
    rw [h1]
    have h2 : (List.map (fun o => offsetFor o (l :: ls)) (List.map (fun x => x.ord) ls))
        = (List.map (fun o => offsetFor o ls) (List.map (fun x => x.ord) ls)) := by
      apply List.map_congr_left
      intro o ho
      have : l.ord ≠ o := by intro e; exact hnot (e ▸ ho)
      simp [offsetFor, this]
    rw [h2]
    simp only [lotOrds, offSum] at ih'
    rw [ih']

end Cgt
