import CgtModel.Lemmas.SpecPerm
import CgtModel.Lemmas.SpecEquiv
import CgtModel.Lemmas.WellFormed
import CgtModel.Lemmas.Sorted
/-! `Spec`'s day table, built by insertion from the raw lines, is the matcher's day list seen through
    `ofDay`: the date sort, the merging of fills and the grouping into days only rearrange and
    aggregate what insertion aggregates anyway. -/
set_option linter.unusedSimpArgs false
set_option linter.unusedVariables false
namespace Cgt
open Spec

/-- inserting two lines of one date = inserting one line whose operation has their combined effect -/
theorem insert_pair (t1 t2 tm : Tx) (h12 : t2.date = t1.date) (hm : tm.date = t1.date)
    (hop : ∀ d : SDay, (d.absorb t1.op).absorb t2.op = d.absorb tm.op) :
    ∀ acc : List SDay, Spec.insert t2 (Spec.insert t1 acc) = Spec.insert tm acc := by
  intro acc
  induction acc with
  | nil =>
    simp only [Spec.insert, absorb_date, h12, hm, Int.lt_irrefl, if_false, if_true, hop]
  | cons d ds ih =>
    rcases Int.lt_trichotomy t1.date.ord d.date.ord with a | a | a
    · simp only [Spec.insert, h12, hm, a, if_true, absorb_date, Int.lt_irrefl, if_false, hop]
    · have na : ¬ t1.date.ord < d.date.ord := by omega
      simp only [Spec.insert, h12, hm, a, na, if_true, absorb_date, Int.lt_irrefl, if_false, hop]
    · have na : ¬ t1.date.ord < d.date.ord := by omega
      have na2 : ¬ t1.date.ord = d.date.ord := by omega
      simp only [Spec.insert, h12, hm, na, na2, if_false]
      rw [← ih]

def insFold (t : String) (acc : List SDay) (l : List Tx) : List SDay :=
  (l.filter (fun x => x.ticker = t)).foldl (fun a x => Spec.insert x a) acc

theorem table_eq_insFold (t : String) (l : List Tx) : table t l = insFold t [] l := rfl

theorem insFold_cons (t : String) (acc : List SDay) (x : Tx) (xs : List Tx) :
    insFold t acc (x :: xs) = if x.ticker = t then insFold t (Spec.insert x acc) xs else insFold t acc xs := by
  unfold insFold
  by_cases h : x.ticker = t
  · simp [List.filter_cons, h]
  · simp [List.filter_cons, h]

theorem insFold_append (t : String) (acc : List SDay) (a b : List Tx) :
    insFold t acc (a ++ b) = insFold t (insFold t acc a) b := by
  unfold insFold; simp [List.filter_append, List.foldl_append]

/-- the merged trade absorbs like the two fills -/
theorem absorb_mergeTrade_buy (d : SDay) (q p f q' p' f' : Rat) (hq : q + q' ≠ 0) :
    (d.absorb (.buy q p f)).absorb (.buy q' p' f') =
      d.absorb (.buy (mergeTrade q p f q' p' f').1 (mergeTrade q p f q' p' f').2.1 (mergeTrade q p f q' p' f').2.2) := by
  apply absorb_fills_buy
  · rfl
  · unfold mergeTrade; simp only [hq, ne_eq, not_false_eq_true, if_true]; grind
  · rfl

theorem absorb_mergeTrade_sell (d : SDay) (q p f q' p' f' : Rat) (hq : q + q' ≠ 0) :
    (d.absorb (.sell q p f)).absorb (.sell q' p' f') =
      d.absorb (.sell (mergeTrade q p f q' p' f').1 (mergeTrade q p f q' p' f').2.1 (mergeTrade q p f q' p' f').2.2) := by
  apply absorb_fills_sell
  · rfl
  · unfold mergeTrade; simp only [hq, ne_eq, not_false_eq_true, if_true]; grind
  · rfl

/-- the adjacent-merge pass does not change the table -/
theorem insFold_mergeInto (t : String) : ∀ (rest : List Tx) (cur : Tx) (acc : List SDay),
    TxOk cur → WellFormed rest →
    insFold t acc (mergeInto cur rest) = insFold t acc (cur :: rest) := by
  intro rest
  induction rest with
  | nil => intro cur acc _ _; rfl
  | cons nxt rest ih =>
    intro cur acc hc hr
    have hn : TxOk nxt := hr nxt (by simp)
    have hrest : WellFormed rest := fun x hx => hr x (by simp [hx])
    simp only [mergeInto]
    split
    · rename_i hsame
      split
      · rename_i q p f q' p' f' hco hno
        have hcq : 0 < q := by unfold TxOk at hc; rw [hco] at hc; exact hc.1
        have hnq : 0 < q' := by unfold TxOk at hn; rw [hno] at hn; exact hn.1
        have hok' : TxOk { cur with op := .buy (mergeTrade q p f q' p' f').1 (mergeTrade q p f q' p' f').2.1 (mergeTrade q p f q' p' f').2.2 } := by
          unfold TxOk; exact mergeTrade_ok q p f q' p' f' (by unfold TxOk at hc; rw [hco] at hc; exact hc) (by unfold TxOk at hn; rw [hno] at hn; exact hn)
        rw [ih _ acc hok' hrest]
        rw [insFold_cons, insFold_cons, insFold_cons]
        have hnt : nxt.ticker = cur.ticker := hsame.2
        by_cases ht : cur.ticker = t
        · have ht2 : nxt.ticker = t := by rw [hnt, ht]
          rw [if_pos (show ({ cur with op := Op.buy (mergeTrade q p f q' p' f').1 (mergeTrade q p f q' p' f').2.1 (mergeTrade q p f q' p' f').2.2 } : Tx).ticker = t from ht), if_pos ht, if_pos ht2]
          congr 1
          exact (insert_pair cur nxt ({ cur with op := Op.buy (mergeTrade q p f q' p' f').1 (mergeTrade q p f q' p' f').2.1 (mergeTrade q p f q' p' f').2.2 } : Tx) hsame.1 rfl (fun d => by rw [hco, hno]; exact absorb_mergeTrade_buy d q p f q' p' f' (by grind)) acc).symm
        · have ht2 : ¬ nxt.ticker = t := by rw [hnt]; exact ht
          rw [if_neg (show ¬ ({ cur with op := Op.buy (mergeTrade q p f q' p' f').1 (mergeTrade q p f q' p' f').2.1 (mergeTrade q p f q' p' f').2.2 } : Tx).ticker = t from ht), if_neg ht]
          first | rfl | (rw [insFold_cons, if_neg ht2]) | (rw [if_neg ht2])
      · rename_i q p f q' p' f' hco hno
        have hcq : 0 < q := by unfold TxOk at hc; rw [hco] at hc; exact hc.1
        have hnq : 0 < q' := by unfold TxOk at hn; rw [hno] at hn; exact hn.1
        have hok' : TxOk { cur with op := .sell (mergeTrade q p f q' p' f').1 (mergeTrade q p f q' p' f').2.1 (mergeTrade q p f q' p' f').2.2 } := by
          unfold TxOk; exact mergeTrade_ok q p f q' p' f' (by unfold TxOk at hc; rw [hco] at hc; exact hc) (by unfold TxOk at hn; rw [hno] at hn; exact hn)
        rw [ih _ acc hok' hrest]
        rw [insFold_cons, insFold_cons, insFold_cons]
        have hnt : nxt.ticker = cur.ticker := hsame.2
        by_cases ht : cur.ticker = t
        · have ht2 : nxt.ticker = t := by rw [hnt, ht]
          rw [if_pos (show ({ cur with op := Op.sell (mergeTrade q p f q' p' f').1 (mergeTrade q p f q' p' f').2.1 (mergeTrade q p f q' p' f').2.2 } : Tx).ticker = t from ht), if_pos ht, if_pos ht2]
          congr 1
          exact (insert_pair cur nxt ({ cur with op := Op.sell (mergeTrade q p f q' p' f').1 (mergeTrade q p f q' p' f').2.1 (mergeTrade q p f q' p' f').2.2 } : Tx) hsame.1 rfl (fun d => by rw [hco, hno]; exact absorb_mergeTrade_sell d q p f q' p' f' (by grind)) acc).symm
        · have ht2 : ¬ nxt.ticker = t := by rw [hnt]; exact ht
          rw [if_neg (show ¬ ({ cur with op := Op.sell (mergeTrade q p f q' p' f').1 (mergeTrade q p f q' p' f').2.1 (mergeTrade q p f q' p' f').2.2 } : Tx).ticker = t from ht), if_neg ht]
          first | rfl | (rw [insFold_cons, if_neg ht2]) | (rw [if_neg ht2])
      · rw [insFold_cons, insFold_cons]
        split
        · exact ih nxt _ hn hrest
        · exact ih nxt _ hn hrest
    · rw [insFold_cons, insFold_cons]
      split
      · exact ih nxt _ hn hrest
      · exact ih nxt _ hn hrest

theorem table_mergeAdjacent (t : String) (l : List Tx) (h : WellFormed l) : table t (mergeAdjacent l) = table t l := by
  cases l with
  | nil => rfl
  | cons x xs => exact insFold_mergeInto t xs x [] (h x (by simp)) (fun y hy => h y (by simp [hy]))


theorem insFold_perm (t : String) (acc : List SDay) (l l' : List Tx) (hp : l.Perm l') (hd : DatesOk l) :
    insFold t acc l = insFold t acc l' := by
  unfold insFold
  apply List.Perm.foldl_eq' (hp.filter _)
  intro x hx y hy z
  have hx' := (List.mem_filter.mp hx).1
  have hy' := (List.mem_filter.mp hy).1
  exact insert_comm y x (fun h => ord_inj _ _ (hd y hy') (hd x hx') h) z

theorem foldBuy_decomp (date : Date) (ticker : String) (q' p' f' : Rat) :
    ∀ (out o : List Tx), foldBuy date ticker q' p' f' out = some o →
      ∃ pre x post q p f, out = pre ++ x :: post ∧ x.date = date ∧ x.ticker = ticker ∧ x.op = .buy q p f ∧
        o = pre ++ { x with op := .buy (mergeTrade q p f q' p' f').1 (mergeTrade q p f q' p' f').2.1 (mergeTrade q p f q' p' f').2.2 } :: post := by
  intro out
  induction out with
  | nil => intro o h; simp [foldBuy] at h
  | cons t ts ih =>
    intro o h
    simp only [foldBuy] at h
    split at h
    · rename_i hsame
      split at h
      · rename_i q p f hop
        simp only [Option.some.injEq] at h
        exact ⟨[], t, ts, q, p, f, rfl, hsame.1, hsame.2, hop, by rw [← h]; rfl⟩
      · simp only [Option.map_eq_some_iff] at h
        obtain ⟨r, hr, rfl⟩ := h
        obtain ⟨pre, x, post, q, p, f, h1, h2, h3, h4, h5⟩ := ih r hr
        exact ⟨t :: pre, x, post, q, p, f, by rw [h1]; rfl, h2, h3, h4, by rw [h5]; rfl⟩
    · simp only [Option.map_eq_some_iff] at h
      obtain ⟨r, hr, rfl⟩ := h
      obtain ⟨pre, x, post, q, p, f, h1, h2, h3, h4, h5⟩ := ih r hr
      exact ⟨t :: pre, x, post, q, p, f, by rw [h1]; rfl, h2, h3, h4, by rw [h5]; rfl⟩

/-- folding a same-day BUY into the day's first BUY leaves the table as appending it does -/
theorem insFold_coalesceStep (t : String) (acc : List SDay) (out : List Tx) (nxt : Tx)
    (hw : WellFormed out) (hn : TxOk nxt) (hd : DatesOk (out ++ [nxt])) :
    insFold t acc (coalesceStep out nxt) = insFold t acc (out ++ [nxt]) := by
  unfold coalesceStep
  split
  · rename_i q' p' f' hop
    split
    · rename_i o ho
      obtain ⟨pre, x, post, q, p, f, h1, h2, h3, h4, h5⟩ := foldBuy_decomp _ _ q' p' f' out o ho
      rw [h5]
      have hperm : (out ++ [nxt]).Perm (pre ++ x :: nxt :: post) := by
        rw [h1]
        have : (x :: post ++ [nxt]).Perm (x :: nxt :: post) := by
          apply List.Perm.cons
          exact List.perm_append_comm
        simpa using List.Perm.append_left pre this
      rw [insFold_perm t acc _ _ hperm hd]
      rw [insFold_append, insFold_append, insFold_cons, insFold_cons, insFold_cons]
      have hxq : 0 < q := by
        have := hw x (by rw [h1]; simp); unfold TxOk at this; rw [h4] at this; exact this.1
      have hnq : 0 < q' := by unfold TxOk at hn; rw [hop] at hn; exact hn.1
      by_cases ht : x.ticker = t
      · have ht2 : nxt.ticker = t := by rw [← h3, ht]
        rw [if_pos (show ({ x with op := Op.buy (mergeTrade q p f q' p' f').1 (mergeTrade q p f q' p' f').2.1 (mergeTrade q p f q' p' f').2.2 } : Tx).ticker = t from ht), if_pos ht, if_pos ht2]
        congr 1
        exact (insert_pair x nxt ({ x with op := Op.buy (mergeTrade q p f q' p' f').1 (mergeTrade q p f q' p' f').2.1 (mergeTrade q p f q' p' f').2.2 } : Tx) h2.symm rfl
          (fun d => by rw [h4, hop]; exact absorb_mergeTrade_buy d q p f q' p' f' (by grind)) _).symm
      · have ht2 : ¬ nxt.ticker = t := by rw [← h3]; exact ht
        rw [if_neg (show ¬ ({ x with op := Op.buy (mergeTrade q p f q' p' f').1 (mergeTrade q p f q' p' f').2.1 (mergeTrade q p f q' p' f').2.2 } : Tx).ticker = t from ht), if_neg ht]
        first | rfl | (rw [insFold_cons, if_neg ht2]) | (rw [if_neg ht2])
    · rfl
  · rfl

theorem coalesceStep_dates (out : List Tx) (nxt : Tx) (hd : DatesOk (out ++ [nxt])) : DatesOk (coalesceStep out nxt) := by
  unfold coalesceStep
  split
  · rename_i q' p' f' hop
    split
    · rename_i o ho
      obtain ⟨pre, x, post, q, p, f, h1, h2, h3, h4, h5⟩ := foldBuy_decomp _ _ q' p' f' out o ho
      rw [h5]
      intro y hy
      simp only [List.mem_append, List.mem_cons] at hy
      rcases hy with hy | rfl | hy
      · exact hd y (by rw [h1]; simp [hy])
      · exact hd x (by rw [h1]; simp)
      · exact hd y (by rw [h1]; simp [hy])
    · exact hd
  · exact hd

theorem insFold_coalesceFold (t : String) (A : List SDay) : ∀ (xs acc0 : List Tx),
    WellFormed acc0 → WellFormed xs → DatesOk (acc0 ++ xs) →
    insFold t A (xs.foldl coalesceStep acc0) = insFold t A (acc0 ++ xs) := by
  intro xs
  induction xs with
  | nil => intro acc0 _ _ _; simp
  | cons x xs ih =>
    intro acc0 h0 hx hd
    simp only [List.foldl_cons]
    have hxok : TxOk x := hx x (by simp)
    have hd1 : DatesOk (acc0 ++ [x]) := by
      intro y hy
      simp only [List.mem_append, List.mem_singleton] at hy
      apply hd y
      simp only [List.mem_append, List.mem_cons]
      rcases hy with h | h
      · exact Or.inl h
      · exact Or.inr (Or.inl h)
    have hstepok := coalesceStep_ok acc0 x h0 hxok
    have hstepd := coalesceStep_dates acc0 x hd1
    have hd2 : DatesOk (coalesceStep acc0 x ++ xs) := by
      intro y hy
      simp only [List.mem_append] at hy
      rcases hy with hy | hy
      · exact hstepd y hy
      · exact hd y (by simp [hy])
    rw [ih (coalesceStep acc0 x) hstepok (fun y hy => hx y (by simp [hy])) hd2]
    rw [insFold_append, insFold_coalesceStep t A acc0 x h0 hxok hd1, ← insFold_append]
    simp

theorem table_coalesceBuys (t : String) (l : List Tx) (hw : WellFormed l) (hd : DatesOk l) :
    table t (coalesceBuys l) = table t l := by
  unfold coalesceBuys
  have := insFold_coalesceFold t [] l [] (fun _ h => by simp at h) hw (by simpa using hd)
  simpa [table_eq_insFold] using this


/-! the grouping into days -/

theorem factor_eq (op : Op) : Spec.factor op = splitFactor op := by
  cases op <;> simp [Spec.factor, splitFactor]

theorem rsum_one (x : Rat) : rsum [x] = x := by simp [rsum]; grind

theorem SDay.ext' (a b : SDay) (h1 : a.date = b.date) (h2 : a.B = b.B) (h3 : a.Bcost = b.Bcost) (h4 : a.S = b.S)
    (h5 : a.Sgross = b.Sgross) (h6 : a.Sfees = b.Sfees) (h7 : a.r = b.r) : a = b := by
  cases a; cases b; simp_all

/-- a line on a fresh day -/
theorem ofDay_fresh_add (date : Date) (i : Nat) (op : Op) :
    ofDay (({ date := date } : Day).add i op) = ({ date := date } : SDay).absorb op := by
  apply SDay.ext' <;> cases op <;>
    simp [Day.add, ofDay, SDay.absorb, Day.B, Day.S, factor_eq, splitFactor, Spec.factor, rsum] <;> (try grind)

theorem Day.add_offset (d : Day) (i : Nat) (op : Op) : (d.add i op).offset = d.offset := by
  cases op <;> simp only [Day.add] <;> (try split) <;> rfl

/-- the days `groupDays` builds carry no cost offset yet (the pre-pass writes them later) -/
theorem groupDays_offset : ∀ (xs : List (Nat × Tx)) (d : Day), d ∈ groupDays xs → d.offset = 0 := by
  intro xs
  induction xs with
  | nil => intro d hd; simp [groupDays] at hd
  | cons x xs ih =>
    intro d hd
    obtain ⟨i, t⟩ := x
    have hnew : (({ date := t.date } : Day).add i t.op).offset = 0 := by rw [Day.add_offset]
    simp only [groupDays] at hd
    split at hd
    · simp only [List.mem_singleton] at hd; subst hd; exact hnew
    · rename_i d0 ds hg
      split at hd
      · simp only [List.mem_cons] at hd
        rcases hd with rfl | hd
        · rfl
        · exact ih d (by rw [hg]; simp [hd])
      · simp only [List.mem_cons] at hd
        rcases hd with rfl | rfl | hd
        · exact hnew
        · exact ih d (by rw [hg]; simp)
        · exact ih d (by rw [hg]; simp [hd])

/-- a line put in front of a day already grouped: the same as absorbing it into that day -/
theorem ofDay_merge_fresh (d : Day) (date : Date) (i : Nat) (op : Op) (hdate : date = d.date)
    (hpos : ∀ b, d.buy = some b → 0 < b.q) (hop : opOk op) (h0 : d.offset = 0) :
    ofDay ((({ date := date } : Day).add i op).merge d) = (ofDay d).absorb op := by
  subst hdate
  cases op with
  | buy q p f =>
    cases hb : d.buy with
    | none =>
      apply SDay.ext' <;> simp [Day.add, Day.merge, ofDay, SDay.absorb, Day.B, Day.S, hb, h0] <;> grind
    | some y =>
      have hy := hpos y hb
      have hq : 0 < q := hop.1
      have hne : q + y.q ≠ 0 := by grind
      have hmul : (q + y.q) * ((q * p + y.q * y.p) / (q + y.q)) = q * p + y.q * y.p := by grind
      apply SDay.ext' <;> simp [Day.add, Day.merge, ofDay, SDay.absorb, Day.B, Day.S, hb, h0, mergeTrade, hne]
      all_goals (first | grind | (rw [hmul]; grind))
  | sell q p f =>
    apply SDay.ext' <;> simp [Day.add, Day.merge, ofDay, SDay.absorb, Day.B, Day.S, h0] <;> (try (cases d.buy <;> simp)) <;> grind
  | split r =>
    apply SDay.ext' <;> simp [Day.add, Day.merge, ofDay, SDay.absorb, Day.B, Day.S, factor_eq, splitFactor, h0] <;> (try (cases d.buy <;> simp)) <;> grind
  | unsplit r =>
    apply SDay.ext' <;> simp [Day.add, Day.merge, ofDay, SDay.absorb, Day.B, Day.S, factor_eq, splitFactor, h0] <;> (try (cases d.buy <;> simp)) <;> grind
  | dividend v x =>
    apply SDay.ext' <;> simp [Day.add, Day.merge, ofDay, SDay.absorb, Day.B, Day.S, Spec.factor, h0] <;> (try (cases d.buy <;> simp)) <;> grind
  | accumulation q v x =>
    apply SDay.ext' <;> simp [Day.add, Day.merge, ofDay, SDay.absorb, Day.B, Day.S, Spec.factor, h0] <;> (try (cases d.buy <;> simp)) <;> grind
  | capreturn q v f =>
    apply SDay.ext' <;> simp [Day.add, Day.merge, ofDay, SDay.absorb, Day.B, Day.S, Spec.factor, h0] <;> (try (cases d.buy <;> simp)) <;> grind


theorem Day.merge_date (a b : Day) : (a.merge b).date = a.date := rfl

theorem groupDays_date_mem : ∀ (xs : List (Nat × Tx)) (d : Day), d ∈ groupDays xs → ∃ x ∈ xs, d.date = x.2.date := by
  intro xs
  induction xs with
  | nil => intro d hd; simp [groupDays] at hd
  | cons x xs ih =>
    intro d hd
    obtain ⟨i, t⟩ := x
    have hnew : (({ date := t.date } : Day).add i t.op).date = t.date := Day.add_date _ _ _
    simp only [groupDays] at hd
    split at hd
    · simp only [List.mem_singleton] at hd; subst hd; exact ⟨(i, t), by simp, hnew⟩
    · rename_i d0 ds hg
      split at hd
      · simp only [List.mem_cons] at hd
        rcases hd with rfl | hd
        · exact ⟨(i, t), by simp, by rw [Day.merge_date]; exact hnew⟩
        · obtain ⟨y, hy, e⟩ := ih d (by rw [hg]; simp [hd]); exact ⟨y, by simp [hy], e⟩
      · simp only [List.mem_cons] at hd
        rcases hd with rfl | rfl | hd
        · exact ⟨(i, t), by simp, hnew⟩
        · obtain ⟨y, hy, e⟩ := ih d (by rw [hg]; simp); exact ⟨y, by simp [hy], e⟩
        · obtain ⟨y, hy, e⟩ := ih d (by rw [hg]; simp [hd]); exact ⟨y, by simp [hy], e⟩

/-- inserting the lines of one security from the last to the first builds the grouped days -/
theorem foldr_insert_groupDays : ∀ (xs : List (Nat × Tx)),
    xs.Pairwise (fun a b => a.2.ord ≤ b.2.ord) → (∀ x ∈ xs, TxOk x.2) → (∀ x ∈ xs, x.2.date.ok) →
    xs.foldr (fun it a => Spec.insert it.2 a) [] = (groupDays xs).map ofDay := by
  intro xs
  induction xs with
  | nil => intro _ _ _; rfl
  | cons x xs ih =>
    intro hs hok hd
    obtain ⟨i, t⟩ := x
    rw [List.pairwise_cons] at hs
    have ih' := ih hs.2 (fun y hy => hok y (by simp [hy])) (fun y hy => hd y (by simp [hy]))
    simp only [List.foldr_cons, ih', groupDays]
    cases hg : groupDays xs with
    | nil =>
      simp only [List.map_nil, Spec.insert, List.map_cons]
      rw [ofDay_fresh_add]
    | cons d ds =>
      have hdmem : d ∈ groupDays xs := by rw [hg]; simp
      obtain ⟨y, hy, hyo⟩ := groupDays_ord_mem xs d hdmem
      obtain ⟨z, hz, hzd⟩ := groupDays_date_mem xs d hdmem
      have hle : t.ord ≤ d.ord := by rw [hyo]; exact hs.1 y hy
      have hdok : d.date.ok := by rw [hzd]; exact hd z (by simp [hz])
      have htok : t.date.ok := hd (i, t) (by simp)
      have hpos := groupDays_pos xs (fun y hy => hok y (by simp [hy])) d hdmem
      simp only [List.map_cons, Spec.insert]
      have hodate : (ofDay d).date.ord = d.ord := rfl
      rw [hodate]
      by_cases heq : d.ord = t.ord
      · have h1 : ¬ t.date.ord < d.ord := by unfold Tx.ord at heq; omega
        have h2 : t.date.ord = d.ord := by unfold Tx.ord at heq; omega
        simp only [h1, h2, heq, if_true, if_false, List.map_cons]
        congr 1
        have hdd : t.date = d.date := ord_inj t.date d.date htok hdok (by unfold Day.ord at h2; exact h2)
        rw [ofDay_merge_fresh d t.date i t.op hdd hpos.2.2 (hok (i, t) (by simp)) (groupDays_offset xs d hdmem)]
        simp [Int.lt_irrefl]
      · have h1 : t.date.ord < d.ord := by unfold Tx.ord at hle heq; omega
        simp only [h1, heq, if_true, if_false, List.map_cons]
        rw [ofDay_fresh_add]


theorem mergeInto_dates : ∀ (rest : List Tx) (cur : Tx), DatesOk (cur :: rest) → DatesOk (mergeInto cur rest) := by
  intro rest
  induction rest with
  | nil => intro cur h; exact h
  | cons nxt rest ih =>
    intro cur h
    have hc := h cur (by simp)
    have hrest : DatesOk (nxt :: rest) := fun x hx => h x (by simp only [List.mem_cons] at hx ⊢; exact Or.inr hx)
    simp only [mergeInto]
    split
    · split
      · apply ih
        intro x hx
        simp only [List.mem_cons] at hx
        rcases hx with rfl | hx
        · exact hc
        · exact h x (by simp [hx])
      · apply ih
        intro x hx
        simp only [List.mem_cons] at hx
        rcases hx with rfl | hx
        · exact hc
        · exact h x (by simp [hx])
      · intro x hx
        simp only [List.mem_cons] at hx
        rcases hx with rfl | hx
        · exact hc
        · exact ih nxt hrest x hx
    · intro x hx
      simp only [List.mem_cons] at hx
      rcases hx with rfl | hx
      · exact hc
      · exact ih nxt hrest x hx

theorem mergeAdjacent_dates (l : List Tx) (h : DatesOk l) : DatesOk (mergeAdjacent l) := by
  cases l with
  | nil => exact h
  | cons x xs => exact mergeInto_dates xs x h

theorem coalesceFold_dates : ∀ (xs acc0 : List Tx), DatesOk (acc0 ++ xs) → DatesOk (xs.foldl coalesceStep acc0) := by
  intro xs
  induction xs with
  | nil => intro acc0 h; simpa using h
  | cons x xs ih =>
    intro acc0 h
    simp only [List.foldl_cons]
    apply ih
    have hd1 : DatesOk (acc0 ++ [x]) := by
      intro y hy
      simp only [List.mem_append, List.mem_singleton] at hy
      apply h y
      simp only [List.mem_append, List.mem_cons]
      rcases hy with hh | hh
      · exact Or.inl hh
      · exact Or.inr (Or.inl hh)
    intro y hy
    simp only [List.mem_append] at hy
    rcases hy with hy | hy
    · exact coalesceStep_dates acc0 x hd1 y hy
    · exact h y (by simp [hy])

theorem preprocess_dates (l : List Tx) (h : DatesOk l) : DatesOk (preprocess l) := by
  unfold preprocess coalesceBuys
  apply coalesceFold_dates
  simp only [List.nil_append]
  apply mergeAdjacent_dates
  intro x hx
  exact h x ((List.mergeSort_perm l _).mem_iff.mp hx)

/-- **`Spec`'s table is the matcher's day list**: for every validator-clean ledger with valid dates and
    every security, the day table `Spec` builds by insertion from the raw lines is the day list the
    matcher works on (date sort, merging of fills, grouping into days), seen through `ofDay` -/
theorem table_eq_days (t : String) (l : List Tx) (hw : WellFormed l) (hd : DatesOk l) :
    table t l = (daysOf t (preprocess l)).map ofDay := by
  -- the table of the preprocessed list
  have hsortp : (sortByDate l).Perm l := List.mergeSort_perm l _
  have hds : DatesOk (sortByDate l) := fun x hx => hd x (hsortp.mem_iff.mp hx)
  have hws := sortByDate_ok l hw
  have e1 : table t l = table t (sortByDate l) := table_perm t l _ hsortp.symm hd
  have e2 : table t (mergeAdjacent (sortByDate l)) = table t (sortByDate l) := table_mergeAdjacent t _ hws
  have e3 : table t (preprocess l) = table t (mergeAdjacent (sortByDate l)) :=
    table_coalesceBuys t _ (mergeAdjacent_ok _ hws) (mergeAdjacent_dates _ hds)
  rw [e1, ← e2, ← e3]
  -- insertion from the last line to the first
  have hdp := preprocess_dates l hd
  have hwp := preprocess_ok l hw
  rw [table_eq_insFold, insFold_perm t [] (preprocess l) (preprocess l).reverse (List.reverse_perm _).symm hdp]
  unfold insFold
  rw [List.filter_reverse, List.foldl_reverse]
  -- the indexed, filtered list the matcher groups
  unfold daysOf
  have hmap : ((indexed (preprocess l)).filter (fun it => decide (it.2.ticker = t))).map (·.2)
      = (preprocess l).filter (fun x => decide (x.ticker = t)) := by
    have hpre : (indexed (preprocess l)).map (·.2) = preprocess l := by
      unfold indexed
      rw [List.map_map]
      have : ((fun x : Nat × Tx => x.2) ∘ fun x : Tx × Nat => (x.2, x.1)) = Prod.fst := by funext x; rfl
      rw [this, List.zipIdx_map_fst]
    have := @List.filter_map (Nat × Tx) Tx (fun x => x.2) (fun x => decide (x.ticker = t)) (indexed (preprocess l))
    rw [hpre] at this
    rw [this]
    rfl
  rw [← hmap, List.foldr_map]
  apply foldr_insert_groupDays
  · -- sorted
    have hs := preprocess_sorted l
    have hidx : ((indexed (preprocess l)).map (fun x => x.2.ord)) = ords (preprocess l) := by
      unfold indexed ords
      rw [List.map_map]
      have : ((fun x : Nat × Tx => x.2.ord) ∘ fun x : Tx × Nat => (x.2, x.1)) = (fun x : Tx × Nat => x.1.ord) := by funext x; rfl
      rw [this]
      have h2 : (fun x : Tx × Nat => x.1.ord) = Tx.ord ∘ Prod.fst := by funext x; rfl
      rw [h2, ← List.map_map, List.zipIdx_map_fst]
    have hsub : (((indexed (preprocess l)).filter (fun it => decide (it.2.ticker = t))).map (fun x => x.2.ord)).Sublist
        ((indexed (preprocess l)).map (fun x => x.2.ord)) := List.Sublist.map _ List.filter_sublist
    rw [hidx] at hsub
    have := hs.sublist hsub
    rw [List.pairwise_map] at this
    exact this
  · intro x hx
    have hm : x ∈ indexed (preprocess l) := (List.mem_filter.mp hx).1
    unfold indexed at hm
    simp only [List.mem_map] at hm
    obtain ⟨⟨tx, i⟩, hmem, rfl⟩ := hm
    exact hwp tx (List.fst_mem_of_mem_zipIdx hmem)
  · intro x hx
    have hm : x ∈ indexed (preprocess l) := (List.mem_filter.mp hx).1
    unfold indexed at hm
    simp only [List.mem_map] at hm
    obtain ⟨⟨tx, i⟩, hmem, rfl⟩ := hm
    exact hdp tx (List.fst_mem_of_mem_zipIdx hmem)

end Cgt
