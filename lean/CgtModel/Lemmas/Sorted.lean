import CgtModel.Days
/-! The day list of a security is strictly increasing in date, for every input ledger: the date
    sort, the two merging passes and the per-security filter only ever drop lines from the sorted
    sequence of dates, and `groupDays` starts a new day exactly when the ordinal changes. -/
namespace Cgt

def ords (l : List Tx) : List Int := l.map Tx.ord

theorem sortByDate_sorted (l : List Tx) : (sortByDate l).Pairwise (fun a b => a.ord ≤ b.ord) := by
  have := List.pairwise_mergeSort (le := fun a b : Tx => decide (a.ord ≤ b.ord))
    (by intro a b c hab hbc; simp only [decide_eq_true_eq] at *; omega)
    (by intro a b; simp only [Bool.or_eq_true, decide_eq_true_eq]; omega) l
  unfold sortByDate; simpa using this

theorem mergeInto_ords : ∀ (rest : List Tx) (cur : Tx),
    (ords (mergeInto cur rest)).Sublist (ords (cur :: rest)) := by
  intro rest
  induction rest with
  | nil => intro cur; simp [mergeInto, ords]
  | cons nxt rest ih =>
    intro cur
    simp only [mergeInto]
    split
    · split
      · rename_i q p f q' p' f' _ _
        have := ih { cur with op := .buy (mergeTrade q p f q' p' f').1 (mergeTrade q p f q' p' f').2.1 (mergeTrade q p f q' p' f').2.2 }
        simp only [ords, List.map_cons] at this ⊢
        exact this.trans (List.Sublist.cons_cons _ (List.sublist_cons_self _ _))
      · rename_i q p f q' p' f' _ _
        have := ih { cur with op := .sell (mergeTrade q p f q' p' f').1 (mergeTrade q p f q' p' f').2.1 (mergeTrade q p f q' p' f').2.2 }
        simp only [ords, List.map_cons] at this ⊢
        exact this.trans (List.Sublist.cons_cons _ (List.sublist_cons_self _ _))
      · simp only [ords, List.map_cons] at ih ⊢
        exact List.Sublist.cons_cons _ (ih nxt)
    · simp only [ords, List.map_cons] at ih ⊢
      exact List.Sublist.cons_cons _ (ih nxt)

theorem mergeAdjacent_ords (l : List Tx) : (ords (mergeAdjacent l)).Sublist (ords l) := by
  cases l with
  | nil => simp [mergeAdjacent, ords]
  | cons t ts => exact mergeInto_ords ts t

theorem foldBuy_ords (date : Date) (ticker : String) (q' p' f' : Rat) :
    ∀ (out o : List Tx), foldBuy date ticker q' p' f' out = some o → ords o = ords out := by
  intro out
  induction out with
  | nil => intro o h; simp [foldBuy] at h
  | cons t ts ih =>
    intro o h
    simp only [foldBuy] at h
    split at h
    · split at h
      · simp only [Option.some.injEq] at h; subst h; simp [ords, Tx.ord]
      · simp only [Option.map_eq_some_iff] at h
        obtain ⟨r, hr, rfl⟩ := h
        have := ih r hr
        simp only [ords, List.map_cons] at this ⊢; rw [this]
    · simp only [Option.map_eq_some_iff] at h
      obtain ⟨r, hr, rfl⟩ := h
      have := ih r hr
      simp only [ords, List.map_cons] at this ⊢; rw [this]

theorem coalesceStep_ords (out : List Tx) (nxt : Tx) :
    (ords (coalesceStep out nxt)).Sublist (ords out ++ [nxt.ord]) := by
  have happ : ords (out ++ [nxt]) = ords out ++ [nxt.ord] := by simp [ords]
  unfold coalesceStep
  split
  · split
    · rename_i o ho
      rw [foldBuy_ords _ _ _ _ _ out o ho]
      exact List.sublist_append_left _ _
    · rw [happ]; exact List.Sublist.refl _
  · rw [happ]; exact List.Sublist.refl _

theorem coalesceFold_ords : ∀ (xs acc : List Tx),
    (ords (xs.foldl coalesceStep acc)).Sublist (ords acc ++ ords xs) := by
  intro xs
  induction xs with
  | nil => intro acc; simp [ords]
  | cons x xs ih =>
    intro acc
    simp only [List.foldl_cons]
    have h1 := ih (coalesceStep acc x)
    have h2 := coalesceStep_ords acc x
    have h3 : (ords (coalesceStep acc x) ++ ords xs).Sublist ((ords acc ++ [x.ord]) ++ ords xs) :=
      List.Sublist.append h2 (List.Sublist.refl _)
    have e : (ords acc ++ [x.ord]) ++ ords xs = ords acc ++ ords (x :: xs) := by simp [ords]
    rw [e] at h3
    exact h1.trans h3

theorem preprocess_ords (l : List Tx) : (ords (preprocess l)).Sublist (ords (sortByDate l)) := by
  unfold preprocess coalesceBuys
  have := coalesceFold_ords (mergeAdjacent (sortByDate l)) []
  simp only [ords, List.map_nil, List.nil_append] at this ⊢
  exact this.trans (mergeAdjacent_ords (sortByDate l))

theorem preprocess_sorted (l : List Tx) : (ords (preprocess l)).Pairwise (· ≤ ·) := by
  have hs : (ords (sortByDate l)).Pairwise (· ≤ ·) := by
    unfold ords; rw [List.pairwise_map]; exact sortByDate_sorted l
  exact hs.sublist (preprocess_ords l)

theorem Day.add_date (d : Day) (i : Nat) (op : Op) : (d.add i op).date = d.date := by
  cases op <;> simp only [Day.add] <;> (try split) <;> rfl

/-- every day of `groupDays xs` carries the ordinal of one of the lines -/
theorem groupDays_ord_mem : ∀ (xs : List (Nat × Tx)) (d : Day), d ∈ groupDays xs → ∃ x ∈ xs, d.ord = x.2.ord := by
  intro xs
  induction xs with
  | nil => intro d hd; simp [groupDays] at hd
  | cons x xs ih =>
    intro d hd
    obtain ⟨i, t⟩ := x
    have hnew : (({ date := t.date } : Day).add i t.op).ord = t.ord := by
      unfold Day.ord Tx.ord; rw [Day.add_date]
    simp only [groupDays] at hd
    split at hd
    · simp only [List.mem_singleton] at hd; subst hd
      exact ⟨(i, t), by simp, hnew⟩
    · rename_i d0 ds hg
      split at hd
      · simp only [List.mem_cons] at hd
        rcases hd with rfl | hd
        · refine ⟨(i, t), by simp, ?_⟩
          show (Day.merge _ d0).date.ord = t.ord
          simp only [Day.merge]; exact hnew
        · obtain ⟨y, hy, e⟩ := ih d (by rw [hg]; simp [hd])
          exact ⟨y, by simp [hy], e⟩
      · simp only [List.mem_cons] at hd
        rcases hd with rfl | rfl | hd
        · exact ⟨(i, t), by simp, hnew⟩
        · obtain ⟨y, hy, e⟩ := ih d (by rw [hg]; simp)
          exact ⟨y, by simp [hy], e⟩
        · obtain ⟨y, hy, e⟩ := ih d (by rw [hg]; simp [hd])
          exact ⟨y, by simp [hy], e⟩

/-- on a date-sorted line list the days come out strictly increasing -/
theorem groupDays_strict : ∀ (xs : List (Nat × Tx)), xs.Pairwise (fun a b => a.2.ord ≤ b.2.ord) →
    (groupDays xs).Pairwise (fun a b => a.ord < b.ord) := by
  intro xs
  induction xs with
  | nil => intro _; simp [groupDays]
  | cons x xs ih =>
    intro h
    obtain ⟨i, t⟩ := x
    rw [List.pairwise_cons] at h
    obtain ⟨hhead, htail⟩ := h
    have ih' := ih htail
    have hnew : (({ date := t.date } : Day).add i t.op).ord = t.ord := by
      unfold Day.ord Tx.ord; rw [Day.add_date]
    have hge : ∀ d ∈ groupDays xs, t.ord ≤ d.ord := by
      intro d hd
      obtain ⟨y, hy, e⟩ := groupDays_ord_mem xs d hd
      rw [e]; exact hhead y hy
    simp only [groupDays]
    split
    · simp
    · rename_i d0 ds hg
      rw [hg, List.pairwise_cons] at ih'
      obtain ⟨hd0, hds⟩ := ih'
      split
      · rename_i heq
        rw [List.pairwise_cons]
        refine ⟨?_, hds⟩
        intro b hb
        have : (Day.merge (({ date := t.date } : Day).add i t.op) d0).ord = t.ord := by
          show (Day.merge _ d0).date.ord = t.ord
          simp only [Day.merge]; exact hnew
        rw [this, ← heq]; exact hd0 b hb
      · rename_i hne
        rw [List.pairwise_cons]
        refine ⟨?_, by rw [List.pairwise_cons]; exact ⟨hd0, hds⟩⟩
        intro b hb
        rw [hnew]
        have h0 : t.ord ≤ d0.ord := hge d0 (by rw [hg]; simp)
        have h0' : t.ord < d0.ord := by omega
        simp only [List.mem_cons] at hb
        rcases hb with rfl | hb
        · exact h0'
        · have := hd0 b hb; omega

/-- **for every ledger and security the day list is strictly increasing in date** -/
theorem daysOf_strict (l : List Tx) (t : String) :
    (daysOf t (preprocess l)).Pairwise (fun a b => a.ord < b.ord) := by
  unfold daysOf
  apply groupDays_strict
  have hs := preprocess_sorted l
  have hidx : ((indexed (preprocess l)).map (fun x => x.2.ord)) = ords (preprocess l) := by
    unfold indexed ords
    rw [List.map_map]
    have : ((fun x : Nat × Tx => x.2.ord) ∘ fun x : Tx × Nat => (x.2, x.1)) = (fun x : Tx × Nat => x.1.ord) := by
      funext x; rfl
    rw [this]
    have h2 : (fun x : Tx × Nat => x.1.ord) = Tx.ord ∘ Prod.fst := by funext x; rfl
    rw [h2, ← List.map_map, List.zipIdx_map_fst]
  have hsub : (((indexed (preprocess l)).filter (fun it => decide (it.2.ticker = t))).map (fun x => x.2.ord)).Sublist
      ((indexed (preprocess l)).map (fun x => x.2.ord)) := List.Sublist.map _ List.filter_sublist
  rw [hidx] at hsub
  have := hs.sublist hsub
  rw [List.pairwise_map] at this
  exact this

end Cgt
