import CgtModel.Lemmas.DslRoundTrip
/-! The reader on an arbitrary layout of a transaction: any run of blanks/tabs in every gap, keywords in
    any mixture of case, leading blanks, trailing blanks and comment. -/
set_option linter.unusedSimpArgs false
namespace Cgt.Dsl

def wsRun0 (w : List Char) : Prop := ∀ c ∈ w, isWs c = true
instance (w : List Char) : Decidable (wsRun0 w) := inferInstanceAs (Decidable (∀ c ∈ w, isWs c = true))
def wsRun (w : List Char) : Prop := w ≠ [] ∧ wsRun0 w

/-- what may follow a token: the end of the line, a blank, or a comment -/
def tokEnd (rest : List Char) : Prop := rest = [] ∨ ∃ c r, rest = c :: r ∧ (isWs c = true ∨ c = '#')

theorem skipWs_run : ∀ (w : List Char), wsRun0 w → ∀ cs, skipWs (w ++ cs) = skipWs cs := by
  intro w
  induction w with
  | nil => intro _ cs; rfl
  | cons x xs ih =>
    intro h cs
    simp only [List.cons_append, skipWs, h x (by simp), if_true]
    exact ih (fun c hc => h c (by simp [hc])) cs

theorem skipWC_run (w : List Char) (hw : wsRun0 w) (c : Char) (r : List Char) (h : isWs c = false) (hh : c ≠ '#') :
    skipWC (w ++ c :: r) = c :: r := by
  unfold skipWC
  rw [skipWs_run w hw, skipWs_nonws c r h]
  split
  · rename_i heq; injection heq with h1 _; exact absurd h1 hh
  · rfl

theorem skipWC_blank (w : List Char) (hw : wsRun0 w) : skipWC w = [] := by
  unfold skipWC
  have := skipWs_run w hw []
  simp only [List.append_nil] at this
  rw [this]; rfl

theorem skipWC_comment (w : List Char) (hw : wsRun0 w) (r : List Char) : skipWC (w ++ '#' :: r) = [] := by
  unfold skipWC
  rw [skipWs_run w hw]
  have : skipWs ('#' :: r) = '#' :: r := skipWs_nonws '#' r (by decide)
  rw [this]
  rfl

/-- trailing part of a line: blanks, then optionally a comment -/
def trailOk (p : List Char) : Prop := wsRun0 p ∨ ∃ w r, p = w ++ '#' :: r ∧ wsRun0 w

theorem skipWC_trail (p : List Char) (h : trailOk p) : skipWC p = [] := by
  rcases h with h | ⟨w, r, rfl, hw⟩
  · exact skipWC_blank p h
  · exact skipWC_comment w hw r

theorem trail_tokEnd (p : List Char) (h : trailOk p) : tokEnd p := by
  rcases h with h | ⟨w, r, rfl, hw⟩
  · cases p with
    | nil => exact Or.inl rfl
    | cons c cs => exact Or.inr ⟨c, cs, rfl, Or.inl (h c (by simp))⟩
  · cases w with
    | nil => exact Or.inr ⟨'#', r, rfl, Or.inr rfl⟩
    | cons c cs => exact Or.inr ⟨c, cs ++ '#' :: r, rfl, Or.inl (hw c (by simp))⟩

theorem run_tokEnd (w rest : List Char) (h : wsRun w) : tokEnd (w ++ rest) := by
  obtain ⟨hne, hw⟩ := h
  cases w with
  | nil => exact absurd rfl hne
  | cons c cs => exact Or.inr ⟨c, cs ++ rest, rfl, Or.inl (hw c (by simp))⟩

theorem ws_not_digit (c : Char) (h : isWs c = true ∨ c = '#') : isDigit c = false ∧ isAlnum c = false ∧ c ≠ '-' ∧ upper c = c ∧ isAlpha c = false := by
  have hc : c = ' ' ∨ c = '\t' ∨ c = '#' := by
    rcases h with h | h
    · unfold isWs at h
      simp only [Bool.or_eq_true, decide_eq_true_eq] at h
      rcases h with h | h
      · exact Or.inl h
      · exact Or.inr (Or.inl h)
    · exact Or.inr (Or.inr h)
  rcases hc with rfl | rfl | rfl <;> decide

theorem pDecimal_tok (d : DDec) (hc : canon d) (rest : List Char) (hrest : tokEnd rest) :
    pDecimal (showDec d ++ rest) = some (d, rest) := by
  obtain ⟨hne, hip, hfp, hstrip⟩ := hc
  have hnd : ∀ c r, rest = c :: r → isDigit c = false := by
    intro c r h
    rcases hrest with h0 | ⟨c', r', h1, h2⟩
    · rw [h0] at h; cases h
    · rw [h1] at h; injection h with h _; rw [← h]; exact (ws_not_digit c' h2).1
  have hndot : ∀ r', rest ≠ '.' :: r' := by
    intro r' h
    rcases hrest with h0 | ⟨c', r'', h1, h2⟩
    · rw [h0] at h; cases h
    · rw [h1] at h; injection h with h _
      have := ws_not_digit c' h2
      subst h
      rcases h2 with h2 | h2
      · revert h2; decide
      · revert h2; decide
  unfold showDec pDecimal
  by_cases hf : d.fp.isEmpty
  · have hfe : d.fp = [] := by simpa using hf
    simp only [hf, if_true]
    rw [spanP_app isDigit d.ip rest hip hnd]
    have : d.ip.isEmpty = false := by cases hd : d.ip <;> simp_all
    simp only [this, Bool.false_eq_true, if_false]
    rw [hstrip]; cases d; simp_all
  · simp only [hf, Bool.false_eq_true, if_false]
    have e : d.ip ++ '.' :: d.fp ++ rest = d.ip ++ ('.' :: (d.fp ++ rest)) := by simp
    rw [e, spanP_app isDigit d.ip ('.' :: (d.fp ++ rest)) hip (by intro c r h; injection h with h _; rw [← h]; decide)]
    have : d.ip.isEmpty = false := by cases hd : d.ip <;> simp_all
    simp only [this, Bool.false_eq_true, if_false]
    rw [spanP_app isDigit d.fp rest hfp hnd]
    simp only [hf, Bool.false_eq_true, if_false, hstrip]

theorem pTicker_tok (s rest : List Char) (h : tickerOk s) (hr : tokEnd rest) :
    pTicker (s ++ rest) = some (String.ofList s, rest) := by
  unfold pTicker
  have hna : ∀ c r, rest = c :: r → isAlnum c = false := by
    intro c r e
    rcases hr with h0 | ⟨c', r', h1, h2⟩
    · rw [h0] at e; cases e
    · rw [h1] at e; injection e with e _; rw [← e]; exact (ws_not_digit c' h2).2.1
  rw [spanP_app isAlnum s rest (fun c hc => (h.2 c hc).1) hna]
  have hne : s.isEmpty = false := by cases s with | nil => exact absurd rfl h.1 | cons _ _ => rfl
  simp only [hne, Bool.false_eq_true, if_false]
  have : ∀ (l : List Char), (∀ c ∈ l, upper c = c) → l.map upper = l := by
    intro l
    induction l with
    | nil => intro _; rfl
    | cons x xs ih => intro hl; simp [hl x (by simp), ih (fun c hc => hl c (by simp [hc]))]
  rw [this s (fun c hc => (h.2 c hc).2)]

theorem guard_miss_tok (a b c : Char) (h : curOk a b c) (rest : List Char) (hr : tokEnd rest) :
    guardHit (a :: b :: c :: rest) = false := by
  obtain ⟨ha, hb, hcc, ua, ub, uc, nTax, nBuy⟩ := h
  have hci : dslGuardCaseInsensitive = true := by decide
  have hk : kwBlock = ["TAX".toList, "BUY".toList, "FEES".toList, "TOTAL".toList, "RATIO".toList, "SELL".toList] := by decide
  unfold guardHit
  rw [hk]
  simp only [hci, if_true, List.any_cons, List.any_nil, Bool.or_false, Bool.or_eq_false_iff]
  have three : ∀ (x y z : Char), [a, b, c] ≠ [x, y, z] → (matchKw [x, y, z] (a :: b :: c :: rest)).isSome = false := by
    intro x y z hne
    simp only [matchKw, ua, ub, uc]
    by_cases h1 : a = x
    · by_cases h2 : b = y
      · by_cases h3 : c = z
        · exact absurd (by rw [h1, h2, h3]) hne
        · simp [h1, h2, h3]
      · simp [h1, h2]
    · simp [h1]
  have four : ∀ (x y z w : Char) (ks : List Char), isAlpha w = true → (matchKw (x :: y :: z :: w :: ks) (a :: b :: c :: rest)).isSome = false := by
    intro x y z w ks hw
    simp only [matchKw]
    split
    · split
      · split
        · rcases hr with h0 | ⟨c', r, h1, h2⟩
          · subst h0; rfl
          · subst h1
            have hfacts := ws_not_digit c' h2
            simp only [matchKw, hfacts.2.2.2.1]
            have : ¬ (c' = w) := by
              intro e; subst e; rw [hfacts.2.2.2.2] at hw; cases hw
            simp [this]
        · rfl
      · rfl
    · rfl
  refine ⟨three 'T' 'A' 'X' nTax, three 'B' 'U' 'Y' nBuy, ?_, ?_, ?_, ?_⟩
  · exact four 'F' 'E' 'E' 'S' [] (by decide)
  · exact four 'T' 'O' 'T' 'A' ['L'] (by decide)
  · exact four 'R' 'A' 'T' 'I' ['O'] (by decide)
  · exact four 'S' 'E' 'L' 'L' [] (by decide)

theorem pCurrency_tok (a b c : Char) (h : curOk a b c) (rest : List Char) (hr : tokEnd rest) :
    pCurrency (a :: b :: c :: rest) = some (String.ofList [a, b, c], rest) := by
  unfold pCurrency
  rw [guard_miss_tok a b c h rest hr]
  obtain ⟨ha, hb, hc, ua, ub, uc, _, _⟩ := h
  simp only [Bool.false_eq_true, if_false, ha, hb, hc, Bool.and_self, if_true, ua, ub, uc]
  rcases hr with h0 | ⟨c', r, h1, h2⟩
  · subst h0; rfl
  · subst h1
    have hf := ws_not_digit c' h2
    simp [hf.2.1, hf.2.2.1]

/-- an amount: decimal, gap, currency code -/
def layAmt (g : List Char) (a : DAmt) : List Char := showDec a.d ++ g ++ a.cur.toList

theorem pMoney_tok (g : List Char) (hg : wsRun g) (a : DAmt) (h : amtOk a) (rest : List Char) (hr : tokEnd rest) :
    pMoney (layAmt g a ++ rest) = some (a, rest) := by
  obtain ⟨hd, x, y, z, hcur, hc⟩ := h
  have hl : a.cur.toList = [x, y, z] := by rw [hcur, String.toList_ofList]
  unfold layAmt pMoney
  rw [hl]
  have e : showDec a.d ++ g ++ [x, y, z] ++ rest = showDec a.d ++ (g ++ x :: y :: z :: rest) := by simp
  rw [e, pDecimal_tok a.d hd _ (run_tokEnd g _ hg)]
  simp only
  have hx := alpha_not_ws x hc.1
  rw [skipWC_run g hg.2 x _ hx.1 hx.2, pCurrency_tok x y z hc rest hr]
  simp only
  cases a with
  | mk d cur => simp only at hcur ⊢; rw [hcur]

theorem showDec_cons (d : DDec) (hd : canon d) : ∃ c r, showDec d = c :: r ∧ isWs c = false ∧ c ≠ '#' := by
  obtain ⟨c, r, hs, hc⟩ := showDec_head d hd
  exact ⟨c, r, hs, digit_not_ws c hc⟩

/-- a clause: keyword in any case, gap, amount -/
theorem pClause_tok (kw kw' : List Char) (hkw : kw'.map upper = kw) (g1 g2 : List Char) (hg1 : wsRun g1) (hg2 : wsRun g2)
    (a : DAmt) (h : amtOk a) (rest : List Char) (hr : tokEnd rest) :
    pClause kw (kw' ++ (g1 ++ (layAmt g2 a ++ rest))) = some (a, rest) := by
  unfold pClause
  have hm : matchKw kw (kw' ++ (g1 ++ (layAmt g2 a ++ rest))) = some (g1 ++ (layAmt g2 a ++ rest)) := by
    have : ∀ (cs kw rest : List Char), cs.map upper = kw → matchKw kw (cs ++ rest) = some rest := by
      intro cs
      induction cs with
      | nil => intro kw rest h; subst h; cases rest <;> rfl
      | cons c cs ih => intro kw rest h; subst h; simp only [List.map_cons, List.cons_append, matchKw, if_true]; exact ih _ _ rfl
    exact this kw' kw _ hkw
  rw [hm]
  simp only
  obtain ⟨c, r, hs, hc1, hc2⟩ := showDec_cons a.d h.1
  have e : layAmt g2 a ++ rest = c :: (r ++ g2 ++ a.cur.toList ++ rest) := by
    unfold layAmt; rw [hs]; simp
  have : skipWC (g1 ++ (layAmt g2 a ++ rest)) = layAmt g2 a ++ rest := by
    rw [e]; exact skipWC_run g1 hg1.2 c _ hc1 hc2
  rw [this]
  exact pMoney_tok g2 hg2 a h rest hr


structure Layout where
  pre : List Char                 -- leading blanks
  g : Nat → List Char             -- the i-th gap of the line
  kw : List Char → List Char      -- how a keyword is spelt
  post : List Char                -- trailing blanks and comment

/-- the grammar's keywords -/
def kwAll : List (List Char) :=
  ["BUY".toList, "SELL".toList, "DIVIDEND".toList, "ACCUMULATION".toList, "CAPRETURN".toList, "SPLIT".toList,
   "UNSPLIT".toList, "TOTAL".toList, "FEES".toList, "TAX".toList, "RATIO".toList]

def Layout.ok (L : Layout) : Prop :=
  wsRun0 L.pre ∧ (∀ i, wsRun (L.g i)) ∧ (∀ k ∈ kwAll, (L.kw k).map upper = k) ∧ trailOk L.post

theorem kw_head (kw' kw : List Char) (h : kw'.map upper = kw) (k0 : Char) (ks : List Char) (hk : kw = k0 :: ks)
    (hk0 : isAlpha k0 = true) : ∃ c r, kw' = c :: r ∧ isWs c = false ∧ c ≠ '#' := by
  cases kw' with
  | nil => rw [hk] at h; cases h
  | cons c r =>
    refine ⟨c, r, rfl, ?_, ?_⟩
    · rw [hk] at h
      simp only [List.map_cons, List.cons.injEq] at h
      cases hw : isWs c with
      | false => rfl
      | true =>
        have hf := ws_not_digit c (Or.inl hw)
        rw [hf.2.2.2.1] at h
        rw [h.1] at hf
        rw [hf.2.2.2.2] at hk0; cases hk0
    · intro e
      rw [hk] at h
      simp only [List.map_cons, List.cons.injEq] at h
      have hf := ws_not_digit c (Or.inr e)
      rw [hf.2.2.2.1] at h
      rw [h.1] at hf
      rw [hf.2.2.2.2] at hk0; cases hk0

/-- an optional clause in a layout: omitted when zero (as the writer does), otherwise gap, keyword, gap, amount -/
def layOpt (L : Layout) (i : Nat) (kw : List Char) (a : DAmt) : List Char :=
  if isZeroDec a.d then [] else L.g i ++ (L.kw kw ++ (L.g (i + 1) ++ layAmt (L.g (i + 2)) a))

theorem pOptClause_tok (L : Layout) (hL : L.ok) (i : Nat) (k0 : Char) (ks : List Char) (hk0 : isAlpha k0 = true)
    (hmem : (k0 :: ks) ∈ kwAll) (a : DAmt) (h : amtOk a) :
    pOptClause (k0 :: ks) (layOpt L i (k0 :: ks) a ++ L.post) = (normAmt a, L.post) := by
  obtain ⟨_, hg, hkw, hpost⟩ := hL
  unfold layOpt normAmt
  by_cases hz : isZeroDec a.d = true
  · simp only [hz, if_true, List.nil_append]
    unfold pOptClause
    rw [skipWC_trail L.post hpost, pClause_nil]
  · simp only [hz, Bool.false_eq_true, if_false]
    unfold pOptClause
    obtain ⟨c, r, hc, hc1, hc2⟩ := kw_head (L.kw (k0 :: ks)) (k0 :: ks) (hkw _ hmem) k0 ks rfl hk0
    have e : L.g i ++ (L.kw (k0 :: ks) ++ (L.g (i + 1) ++ layAmt (L.g (i + 2)) a)) ++ L.post
        = L.g i ++ (L.kw (k0 :: ks) ++ (L.g (i + 1) ++ (layAmt (L.g (i + 2)) a ++ L.post))) := by simp
    rw [e]
    have hsk : skipWC (L.g i ++ (L.kw (k0 :: ks) ++ (L.g (i + 1) ++ (layAmt (L.g (i + 2)) a ++ L.post))))
        = L.kw (k0 :: ks) ++ (L.g (i + 1) ++ (layAmt (L.g (i + 2)) a ++ L.post)) := by
      rw [hc]; simp only [List.cons_append]
      exact skipWC_run (L.g i) (hg i).2 c _ hc1 hc2
    rw [hsk, pClause_tok (k0 :: ks) _ (hkw _ hmem) _ _ (hg _) (hg _) a h L.post (trail_tokEnd _ hpost)]

theorem layOpt_tokEnd (L : Layout) (hL : L.ok) (i : Nat) (kw : List Char) (a : DAmt) : tokEnd (layOpt L i kw a ++ L.post) := by
  unfold layOpt
  split
  · simp only [List.nil_append]; exact trail_tokEnd _ hL.2.2.2
  · have := run_tokEnd (L.g i) ((L.kw kw ++ (L.g (i + 1) ++ layAmt (L.g (i + 2)) a)) ++ L.post) (hL.2.1 i)
    simpa using this

def layCmd (L : Layout) (t : DTx) : List Char :=
  let tk := t.ticker.toList
  match t.op with
  | .buy q p f => L.kw "BUY".toList ++ (L.g 1 ++ (tk ++ (L.g 2 ++ (showDec q ++ (L.g 3 ++ (['@'] ++ (L.g 4 ++ (layAmt (L.g 5) p ++ layOpt L 6 "FEES".toList f))))))))
  | .sell q p f => L.kw "SELL".toList ++ (L.g 1 ++ (tk ++ (L.g 2 ++ (showDec q ++ (L.g 3 ++ (['@'] ++ (L.g 4 ++ (layAmt (L.g 5) p ++ layOpt L 6 "FEES".toList f))))))))
  | .dividend v x => L.kw "DIVIDEND".toList ++ (L.g 1 ++ (tk ++ (L.g 2 ++ (L.kw "TOTAL".toList ++ (L.g 3 ++ (layAmt (L.g 4) v ++ layOpt L 5 "TAX".toList x))))))
  | .accumulation q v x => L.kw "ACCUMULATION".toList ++ (L.g 1 ++ (tk ++ (L.g 2 ++ (showDec q ++ (L.g 3 ++ (L.kw "TOTAL".toList ++ (L.g 4 ++ (layAmt (L.g 5) v ++ layOpt L 6 "TAX".toList x))))))))
  | .capreturn q v f => L.kw "CAPRETURN".toList ++ (L.g 1 ++ (tk ++ (L.g 2 ++ (showDec q ++ (L.g 3 ++ (L.kw "TOTAL".toList ++ (L.g 4 ++ (layAmt (L.g 5) v ++ layOpt L 6 "FEES".toList f))))))))
  | .split r => L.kw "SPLIT".toList ++ (L.g 1 ++ (tk ++ (L.g 2 ++ (L.kw "RATIO".toList ++ (L.g 3 ++ showDec r)))))
  | .unsplit r => L.kw "UNSPLIT".toList ++ (L.g 1 ++ (tk ++ (L.g 2 ++ (L.kw "RATIO".toList ++ (L.g 3 ++ showDec r)))))

/-- one line in an arbitrary layout -/
def render (L : Layout) (t : DTx) : List Char :=
  L.pre ++ (showDateD t ++ (L.g 0 ++ (layCmd L t ++ L.post)))

theorem matchKw_case : ∀ (cs kw rest : List Char), cs.map upper = kw → matchKw kw (cs ++ rest) = some rest := by
  intro cs
  induction cs with
  | nil => intro kw rest h; subst h; cases rest <;> rfl
  | cons c cs ih => intro kw rest h; subst h; simp only [List.map_cons, List.cons_append, matchKw, if_true]; exact ih _ _ rfl

theorem skipWC_run_ticker (g tk rest : List Char) (hg : wsRun g) (h : tickerOk tk) : skipWC (g ++ (tk ++ rest)) = tk ++ rest := by
  obtain ⟨c, r, rfl, h1, h2⟩ := tickerOk_head tk h
  exact skipWC_run g hg.2 c _ h1 h2

theorem skipWC_run_dec (g : List Char) (hg : wsRun g) (d : DDec) (hd : canon d) (rest : List Char) :
    skipWC (g ++ (showDec d ++ rest)) = showDec d ++ rest := by
  obtain ⟨c, r, hs, h1, h2⟩ := showDec_cons d hd
  rw [hs]; exact skipWC_run g hg.2 c _ h1 h2

theorem skipWC_run_kw (g : List Char) (hg : wsRun g) (kw' kw : List Char) (h : kw'.map upper = kw) (k0 : Char) (ks : List Char)
    (hk : kw = k0 :: ks) (hk0 : isAlpha k0 = true) (rest : List Char) : skipWC (g ++ (kw' ++ rest)) = kw' ++ rest := by
  obtain ⟨c, r, rfl, h1, h2⟩ := kw_head kw' kw h k0 ks hk hk0
  exact skipWC_run g hg.2 c _ h1 h2

theorem pTrade_lay (L : Layout) (hL : L.ok) (kw : List Char) (hkm : kw ∈ kwAll) (mk : DDec → DAmt → DAmt → DOp)
    (tk : List Char) (htk : tickerOk tk) (q : DDec) (p f : DAmt) (hq : canon q) (hp : amtOk p) (hf : amtOk f) :
    pTrade kw mk (L.kw kw ++ (L.g 1 ++ (tk ++ (L.g 2 ++ (showDec q ++ (L.g 3 ++ (['@'] ++ (L.g 4 ++ (layAmt (L.g 5) p ++ layOpt L 6 "FEES".toList f)))))))) ++ L.post)
      = some (String.ofList tk, mk q p (normAmt f), L.post) := by
  have hg := hL.2.1
  have hkw := hL.2.2.1
  unfold pTrade
  simp only [List.append_assoc]
  rw [matchKw_case _ kw _ (hkw kw hkm)]
  simp only
  rw [skipWC_run_ticker _ tk _ (hg 1) htk, pTicker_tok tk _ htk (run_tokEnd _ _ (hg 2))]
  simp only
  rw [skipWC_run_dec _ (hg 2) q hq, pDecimal_tok q hq _ (run_tokEnd _ _ (hg 3))]
  simp only
  have h1 : skipWC (L.g 3 ++ ('@' :: (L.g 4 ++ (layAmt (L.g 5) p ++ (layOpt L 6 "FEES".toList f ++ L.post)))))
      = ['@'] ++ (L.g 4 ++ (layAmt (L.g 5) p ++ (layOpt L 6 "FEES".toList f ++ L.post))) :=
    skipWC_run _ (hg 3).2 '@' _ (by decide) (by decide)
  simp only [List.cons_append, List.nil_append] at h1 ⊢
  rw [h1]
  have h2 := pClause_tok ['@'] ['@'] (by decide) (L.g 4) (L.g 5) (hg 4) (hg 5) p hp _ (layOpt_tokEnd L hL 6 "FEES".toList f)
  simp only [List.cons_append, List.nil_append] at h2
  rw [h2]
  simp only
  rw [fees_list, pOptClause_tok L hL 6 'F' ['E', 'E', 'S'] (by decide) (by decide) f hf]


theorem pEvent_lay (L : Layout) (hL : L.ok) (kw : List Char) (hkm : kw ∈ kwAll) (k0 : Char) (ks : List Char) (hk0 : isAlpha k0 = true)
    (hmem : (k0 :: ks) ∈ kwAll) (mk : DDec → DAmt → DAmt → DOp)
    (tk : List Char) (htk : tickerOk tk) (q : DDec) (v x : DAmt) (hq : canon q) (hv : amtOk v) (hx : amtOk x) :
    pEvent kw (k0 :: ks) mk (L.kw kw ++ (L.g 1 ++ (tk ++ (L.g 2 ++ (showDec q ++ (L.g 3 ++ (L.kw "TOTAL".toList ++ (L.g 4 ++ (layAmt (L.g 5) v ++ layOpt L 6 (k0 :: ks) x)))))))) ++ L.post)
      = some (String.ofList tk, mk q v (normAmt x), L.post) := by
  have hg := hL.2.1
  have hkw := hL.2.2.1
  unfold pEvent
  simp only [List.append_assoc]
  rw [matchKw_case _ kw _ (hkw kw hkm)]
  simp only
  rw [skipWC_run_ticker _ tk _ (hg 1) htk, pTicker_tok tk _ htk (run_tokEnd _ _ (hg 2))]
  simp only
  rw [skipWC_run_dec _ (hg 2) q hq, pDecimal_tok q hq _ (run_tokEnd _ _ (hg 3))]
  simp only
  rw [skipWC_run_kw (L.g 3) (hg 3) _ "TOTAL".toList (hkw _ (by decide)) 'T' ['O', 'T', 'A', 'L'] total_list (by decide)]
  rw [pClause_tok "TOTAL".toList _ (hkw _ (by decide)) (L.g 4) (L.g 5) (hg 4) (hg 5) v hv _ (layOpt_tokEnd L hL 6 (k0 :: ks) x)]
  simp only
  rw [pOptClause_tok L hL 6 k0 ks hk0 hmem x hx]

theorem pDividend_lay (L : Layout) (hL : L.ok) (tk : List Char) (htk : tickerOk tk) (v x : DAmt) (hv : amtOk v) (hx : amtOk x) :
    pDividend (L.kw "DIVIDEND".toList ++ (L.g 1 ++ (tk ++ (L.g 2 ++ (L.kw "TOTAL".toList ++ (L.g 3 ++ (layAmt (L.g 4) v ++ layOpt L 5 "TAX".toList x)))))) ++ L.post)
      = some (String.ofList tk, .dividend v (normAmt x), L.post) := by
  have hg := hL.2.1
  have hkw := hL.2.2.1
  unfold pDividend
  simp only [List.append_assoc]
  rw [matchKw_case _ "DIVIDEND".toList _ (hkw _ (by decide))]
  simp only
  rw [skipWC_run_ticker _ tk _ (hg 1) htk, pTicker_tok tk _ htk (run_tokEnd _ _ (hg 2))]
  simp only
  rw [skipWC_run_kw (L.g 2) (hg 2) _ "TOTAL".toList (hkw _ (by decide)) 'T' ['O', 'T', 'A', 'L'] total_list (by decide)]
  rw [pClause_tok "TOTAL".toList _ (hkw _ (by decide)) (L.g 3) (L.g 4) (hg 3) (hg 4) v hv _ (layOpt_tokEnd L hL 5 "TAX".toList x)]
  simp only
  rw [tax_list, pOptClause_tok L hL 5 'T' ['A', 'X'] (by decide) (by decide) x hx]

theorem pSplit_lay (L : Layout) (hL : L.ok) (kw : List Char) (hkm : kw ∈ kwAll) (mk : DDec → DOp)
    (tk : List Char) (htk : tickerOk tk) (r : DDec) (hr : canon r) :
    pSplit kw mk (L.kw kw ++ (L.g 1 ++ (tk ++ (L.g 2 ++ (L.kw "RATIO".toList ++ (L.g 3 ++ showDec r))))) ++ L.post)
      = some (String.ofList tk, mk r, L.post) := by
  have hg := hL.2.1
  have hkw := hL.2.2.1
  unfold pSplit
  simp only [List.append_assoc]
  rw [matchKw_case _ kw _ (hkw kw hkm)]
  simp only
  rw [skipWC_run_ticker _ tk _ (hg 1) htk, pTicker_tok tk _ htk (run_tokEnd _ _ (hg 2))]
  simp only
  rw [skipWC_run_kw (L.g 2) (hg 2) _ "RATIO".toList (hkw _ (by decide)) 'R' ['A', 'T', 'I', 'O'] ratio_list (by decide)]
  rw [matchKw_case _ "RATIO".toList _ (hkw _ (by decide))]
  simp only
  rw [skipWC_run_dec _ (hg 3) r hr, pDecimal_tok r hr _ (trail_tokEnd _ hL.2.2.2)]

theorem kw_two (kw' : List Char) (k0 k1 : Char) (ks : List Char) (h : kw'.map upper = k0 :: k1 :: ks) :
    ∃ c0 c1 r, kw' = c0 :: c1 :: r ∧ upper c0 = k0 ∧ upper c1 = k1 := by
  cases kw' with
  | nil => cases h
  | cons c0 t =>
    cases t with
    | nil => simp at h
    | cons c1 r =>
      simp only [List.map_cons, List.cons.injEq] at h
      exact ⟨c0, c1, r, rfl, h.1, h.2.1⟩

theorem matchKw_clash1 (k0 : Char) (ks : List Char) (c : Char) (cs : List Char) (h : upper c ≠ k0) :
    matchKw (k0 :: ks) (c :: cs) = none := by simp [matchKw, h]

theorem matchKw_clash2 (k0 k1 : Char) (ks : List Char) (c0 c1 : Char) (cs : List Char) (h0 : upper c0 = k0) (h1 : upper c1 ≠ k1) :
    matchKw (k0 :: k1 :: ks) (c0 :: c1 :: cs) = none := by simp [matchKw, h0, h1]

theorem layCmd_head (L : Layout) (hL : L.ok) (t : DTx) : ∃ c r, layCmd L t = c :: r ∧ isWs c = false ∧ c ≠ '#' := by
  have hkw := hL.2.2.1
  unfold layCmd
  cases t.op <;> simp only
  · obtain ⟨c, r, hc, h1, h2⟩ := kw_head _ _ (hkw "BUY".toList (by decide)) 'B' ['U', 'Y'] (by decide) (by decide)
    exact ⟨c, _, by rw [hc]; rfl, h1, h2⟩
  · obtain ⟨c, r, hc, h1, h2⟩ := kw_head _ _ (hkw "SELL".toList (by decide)) 'S' ['E', 'L', 'L'] (by decide) (by decide)
    exact ⟨c, _, by rw [hc]; rfl, h1, h2⟩
  · obtain ⟨c, r, hc, h1, h2⟩ := kw_head _ _ (hkw "DIVIDEND".toList (by decide)) 'D' ['I', 'V', 'I', 'D', 'E', 'N', 'D'] (by decide) (by decide)
    exact ⟨c, _, by rw [hc]; rfl, h1, h2⟩
  · obtain ⟨c, r, hc, h1, h2⟩ := kw_head _ _ (hkw "ACCUMULATION".toList (by decide)) 'A' ['C', 'C', 'U', 'M', 'U', 'L', 'A', 'T', 'I', 'O', 'N'] (by decide) (by decide)
    exact ⟨c, _, by rw [hc]; rfl, h1, h2⟩
  · obtain ⟨c, r, hc, h1, h2⟩ := kw_head _ _ (hkw "CAPRETURN".toList (by decide)) 'C' ['A', 'P', 'R', 'E', 'T', 'U', 'R', 'N'] (by decide) (by decide)
    exact ⟨c, _, by rw [hc]; rfl, h1, h2⟩
  · obtain ⟨c, r, hc, h1, h2⟩ := kw_head _ _ (hkw "SPLIT".toList (by decide)) 'S' ['P', 'L', 'I', 'T'] (by decide) (by decide)
    exact ⟨c, _, by rw [hc]; rfl, h1, h2⟩
  · obtain ⟨c, r, hc, h1, h2⟩ := kw_head _ _ (hkw "UNSPLIT".toList (by decide)) 'U' ['N', 'S', 'P', 'L', 'I', 'T'] (by decide) (by decide)
    exact ⟨c, _, by rw [hc]; rfl, h1, h2⟩

theorem pCommand_lay (L : Layout) (hL : L.ok) (t : DTx) (htk : tickerOk t.ticker.toList) (hop : opOk t.op) :
    pCommand (layCmd L t ++ L.post) = some (t.ticker, normOp t.op, L.post) := by
  have hs : String.ofList t.ticker.toList = t.ticker := String.ofList_toList
  have hkw := hL.2.2.1
  unfold layCmd pCommand
  cases hop' : t.op with
  | buy q p f =>
    rw [hop'] at hop
    simp only
    rw [pTrade_lay L hL "BUY".toList (by decide) .buy _ htk q p f hop.1 hop.2.1 hop.2.2, hs]
    rfl
  | sell q p f =>
    rw [hop'] at hop
    simp only
    obtain ⟨c0, c1, r, hc, u0, u1⟩ := kw_two _ 'S' 'E' ['L', 'L'] (hkw "SELL".toList (by decide))
    have n1 : pTrade "BUY".toList .buy (L.kw "SELL".toList ++ (L.g 1 ++ (t.ticker.toList ++ (L.g 2 ++ (showDec q ++ (L.g 3 ++ (['@'] ++ (L.g 4 ++ (layAmt (L.g 5) p ++ layOpt L 6 "FEES".toList f)))))))) ++ L.post) = none := by
      apply pTrade_none; rw [hc]; exact matchKw_clash1 'B' _ c0 _ (by rw [u0]; decide)
    rw [n1, pTrade_lay L hL "SELL".toList (by decide) .sell _ htk q p f hop.1 hop.2.1 hop.2.2, hs]
    rfl
  | dividend v x =>
    rw [hop'] at hop
    simp only
    obtain ⟨c0, c1, r, hc, u0, u1⟩ := kw_two _ 'D' 'I' _ (hkw "DIVIDEND".toList (by decide))
    have n1 : ∀ rest, pTrade "BUY".toList .buy (L.kw "DIVIDEND".toList ++ rest) = none := by
      intro rest; apply pTrade_none; rw [hc]; exact matchKw_clash1 'B' _ c0 _ (by rw [u0]; decide)
    have n2 : ∀ rest, pTrade "SELL".toList .sell (L.kw "DIVIDEND".toList ++ rest) = none := by
      intro rest; apply pTrade_none; rw [hc]; exact matchKw_clash1 'S' _ c0 _ (by rw [u0]; decide)
    simp only [List.append_assoc] at n1 n2 ⊢
    rw [n1, n2]
    have := pDividend_lay L hL _ htk v x hop.1 hop.2
    simp only [List.append_assoc] at this
    rw [this, hs]
    rfl
  | accumulation q v x =>
    rw [hop'] at hop
    simp only
    obtain ⟨c0, c1, r, hc, u0, u1⟩ := kw_two _ 'A' 'C' _ (hkw "ACCUMULATION".toList (by decide))
    have n1 : ∀ rest, pTrade "BUY".toList .buy (L.kw "ACCUMULATION".toList ++ rest) = none := by
      intro rest; apply pTrade_none; rw [hc]; exact matchKw_clash1 'B' _ c0 _ (by rw [u0]; decide)
    have n2 : ∀ rest, pTrade "SELL".toList .sell (L.kw "ACCUMULATION".toList ++ rest) = none := by
      intro rest; apply pTrade_none; rw [hc]; exact matchKw_clash1 'S' _ c0 _ (by rw [u0]; decide)
    have n3 : ∀ rest, pDividend (L.kw "ACCUMULATION".toList ++ rest) = none := by
      intro rest; apply pDividend_none; rw [hc]; exact matchKw_clash1 'D' _ c0 _ (by rw [u0]; decide)
    simp only [List.append_assoc] at n1 n2 n3 ⊢
    rw [n1, n2, n3]
    have := pEvent_lay L hL "ACCUMULATION".toList (by decide) 'T' ['A', 'X'] (by decide) (by decide) .accumulation _ htk q v x hop.1 hop.2.1 hop.2.2
    simp only [List.append_assoc] at this
    rw [tax_list, this, hs]
    rfl
  | capreturn q v f =>
    rw [hop'] at hop
    simp only
    obtain ⟨c0, c1, r, hc, u0, u1⟩ := kw_two _ 'C' 'A' _ (hkw "CAPRETURN".toList (by decide))
    have n1 : ∀ rest, pTrade "BUY".toList .buy (L.kw "CAPRETURN".toList ++ rest) = none := by
      intro rest; apply pTrade_none; rw [hc]; exact matchKw_clash1 'B' _ c0 _ (by rw [u0]; decide)
    have n2 : ∀ rest, pTrade "SELL".toList .sell (L.kw "CAPRETURN".toList ++ rest) = none := by
      intro rest; apply pTrade_none; rw [hc]; exact matchKw_clash1 'S' _ c0 _ (by rw [u0]; decide)
    have n3 : ∀ rest, pDividend (L.kw "CAPRETURN".toList ++ rest) = none := by
      intro rest; apply pDividend_none; rw [hc]; exact matchKw_clash1 'D' _ c0 _ (by rw [u0]; decide)
    have n4 : ∀ rest, pEvent "ACCUMULATION".toList "TAX".toList .accumulation (L.kw "CAPRETURN".toList ++ rest) = none := by
      intro rest; apply pEvent_none; rw [hc]; exact matchKw_clash1 'A' _ c0 _ (by rw [u0]; decide)
    simp only [List.append_assoc] at n1 n2 n3 n4 ⊢
    rw [n1, n2, n3, n4]
    have := pEvent_lay L hL "CAPRETURN".toList (by decide) 'F' ['E', 'E', 'S'] (by decide) (by decide) .capreturn _ htk q v f hop.1 hop.2.1 hop.2.2
    simp only [List.append_assoc] at this
    rw [fees_list, this, hs]
    rfl
  | split r' =>
    rw [hop'] at hop
    simp only
    obtain ⟨c0, c1, r, hc, u0, u1⟩ := kw_two _ 'S' 'P' _ (hkw "SPLIT".toList (by decide))
    have n1 : ∀ rest, pTrade "BUY".toList .buy (L.kw "SPLIT".toList ++ rest) = none := by
      intro rest; apply pTrade_none; rw [hc]; exact matchKw_clash1 'B' _ c0 _ (by rw [u0]; decide)
    have n2 : ∀ rest, pTrade "SELL".toList .sell (L.kw "SPLIT".toList ++ rest) = none := by
      intro rest; apply pTrade_none; rw [hc]; exact matchKw_clash2 'S' 'E' _ c0 c1 _ u0 (by rw [u1]; decide)
    have n3 : ∀ rest, pDividend (L.kw "SPLIT".toList ++ rest) = none := by
      intro rest; apply pDividend_none; rw [hc]; exact matchKw_clash1 'D' _ c0 _ (by rw [u0]; decide)
    have n4 : ∀ rest, pEvent "ACCUMULATION".toList "TAX".toList .accumulation (L.kw "SPLIT".toList ++ rest) = none := by
      intro rest; apply pEvent_none; rw [hc]; exact matchKw_clash1 'A' _ c0 _ (by rw [u0]; decide)
    have n5 : ∀ rest, pEvent "CAPRETURN".toList "FEES".toList .capreturn (L.kw "SPLIT".toList ++ rest) = none := by
      intro rest; apply pEvent_none; rw [hc]; exact matchKw_clash1 'C' _ c0 _ (by rw [u0]; decide)
    simp only [List.append_assoc] at n1 n2 n3 n4 n5 ⊢
    rw [n1, n2, n3, n4, n5]
    have := pSplit_lay L hL "SPLIT".toList (by decide) .split _ htk r' hop
    simp only [List.append_assoc] at this
    rw [this, hs]
    rfl
  | unsplit r' =>
    rw [hop'] at hop
    simp only
    obtain ⟨c0, c1, r, hc, u0, u1⟩ := kw_two _ 'U' 'N' _ (hkw "UNSPLIT".toList (by decide))
    have n1 : ∀ rest, pTrade "BUY".toList .buy (L.kw "UNSPLIT".toList ++ rest) = none := by
      intro rest; apply pTrade_none; rw [hc]; exact matchKw_clash1 'B' _ c0 _ (by rw [u0]; decide)
    have n2 : ∀ rest, pTrade "SELL".toList .sell (L.kw "UNSPLIT".toList ++ rest) = none := by
      intro rest; apply pTrade_none; rw [hc]; exact matchKw_clash1 'S' _ c0 _ (by rw [u0]; decide)
    have n3 : ∀ rest, pDividend (L.kw "UNSPLIT".toList ++ rest) = none := by
      intro rest; apply pDividend_none; rw [hc]; exact matchKw_clash1 'D' _ c0 _ (by rw [u0]; decide)
    have n4 : ∀ rest, pEvent "ACCUMULATION".toList "TAX".toList .accumulation (L.kw "UNSPLIT".toList ++ rest) = none := by
      intro rest; apply pEvent_none; rw [hc]; exact matchKw_clash1 'A' _ c0 _ (by rw [u0]; decide)
    have n5 : ∀ rest, pEvent "CAPRETURN".toList "FEES".toList .capreturn (L.kw "UNSPLIT".toList ++ rest) = none := by
      intro rest; apply pEvent_none; rw [hc]; exact matchKw_clash1 'C' _ c0 _ (by rw [u0]; decide)
    have n6 : ∀ rest, pSplit "SPLIT".toList .split (L.kw "UNSPLIT".toList ++ rest) = none := by
      intro rest; apply pSplit_none; rw [hc]; exact matchKw_clash1 'S' _ c0 _ (by rw [u0]; decide)
    simp only [List.append_assoc] at n1 n2 n3 n4 n5 n6 ⊢
    rw [n1, n2, n3, n4, n5, n6]
    have := pSplit_lay L hL "UNSPLIT".toList (by decide) .unsplit _ htk r' hop
    simp only [List.append_assoc] at this
    rw [this, hs]
    rfl

/-- **any layout**: leading blanks, any run of blanks/tabs in every gap, keywords in any mixture of
    case, trailing blanks and comment — the line is read as the same transaction -/
theorem parseLine_render (L : Layout) (hL : L.ok) (t : DTx) (h : txOk t) : parseLine (render L t) = .tx (normTx t) := by
  obtain ⟨hy, hm, hd, htk, hop⟩ := h
  unfold parseLine render showDateD
  have hhead : skipWC (L.pre ++ (pad4 t.y ++ '-' :: pad2 t.m ++ '-' :: pad2 t.d ++ (L.g 0 ++ (layCmd L t ++ L.post))))
      = pad4 t.y ++ '-' :: pad2 t.m ++ '-' :: pad2 t.d ++ (L.g 0 ++ (layCmd L t ++ L.post)) := by
    unfold pad4
    simp only [List.cons_append]
    exact skipWC_run L.pre hL.1 _ _ (digit_not_ws _ (digit_facts _).1).1 (digit_not_ws _ (digit_facts _).1).2
  rw [hhead]
  have hne : pad4 t.y ++ '-' :: pad2 t.m ++ '-' :: pad2 t.d ++ (L.g 0 ++ (layCmd L t ++ L.post)) ≠ [] := by
    unfold pad4; simp
  split
  · rename_i heq; exact absurd heq hne
  · rw [pDate_app t.y t.m t.d hy hm hd]
    simp only
    obtain ⟨c, r, hc, h1, h2⟩ := layCmd_head L hL t
    have hsk : skipWC (L.g 0 ++ (layCmd L t ++ L.post)) = layCmd L t ++ L.post := by
      rw [hc]; simp only [List.cons_append]; exact skipWC_run (L.g 0) (hL.2.1 0).2 c _ h1 h2
    rw [hsk, pCommand_lay L hL t htk hop]
    simp only [skipWC_trail L.post hL.2.2.2]
    rfl

end Cgt.Dsl
