import CgtModel.Lemmas.DslLayout
/-! Every character of a transaction line in an arbitrary layout is an in-line character (neither LF nor
    CR), so such a line is one line of the file however it is terminated. Used by C13's whole-file
    theorem. -/
set_option linter.unusedSimpArgs false
namespace Cgt.Dsl

/-- in-line characters only -/
def lineChars (l : List Char) : Prop := ∀ c ∈ l, c ≠ '\n' ∧ c ≠ '\r'
instance (l : List Char) : Decidable (lineChars l) := inferInstanceAs (Decidable (∀ c ∈ l, c ≠ '\n' ∧ c ≠ '\r'))

theorem lineChars_nil : lineChars [] := by intro c h; cases h

theorem lineChars_append (a b : List Char) : lineChars (a ++ b) ↔ lineChars a ∧ lineChars b := by
  unfold lineChars
  constructor
  · intro h; exact ⟨fun c hc => h c (by simp [hc]), fun c hc => h c (by simp [hc])⟩
  · intro h c hc
    rcases List.mem_append.mp hc with hc | hc
    · exact h.1 c hc
    · exact h.2 c hc

theorem lineChars_cons (c : Char) (a : List Char) : lineChars (c :: a) ↔ (c ≠ '\n' ∧ c ≠ '\r') ∧ lineChars a := by
  unfold lineChars
  constructor
  · intro h; exact ⟨h c (by simp), fun x hx => h x (by simp [hx])⟩
  · intro h x hx
    rcases List.mem_cons.mp hx with rfl | hx
    · exact h.1
    · exact h.2 x hx

theorem ws_inline (c : Char) (h : isWs c = true) : c ≠ '\n' ∧ c ≠ '\r' := by
  constructor <;> (intro e; subst e; revert h; decide)

theorem digit_inline (c : Char) (h : isDigit c = true) : c ≠ '\n' ∧ c ≠ '\r' := by
  constructor <;> (intro e; subst e; revert h; decide)

theorem alpha_inline (c : Char) (h : isAlpha c = true) : c ≠ '\n' ∧ c ≠ '\r' := by
  constructor <;> (intro e; subst e; revert h; decide)

theorem alnum_inline (c : Char) (h : isAlnum c = true) : c ≠ '\n' ∧ c ≠ '\r' := by
  constructor <;> (intro e; subst e; revert h; decide)

theorem upper_alpha_inline (c : Char) (h : isAlpha (upper c) = true) : c ≠ '\n' ∧ c ≠ '\r' := by
  constructor <;> (intro e; subst e; revert h; decide)

theorem lineChars_ws (w : List Char) (h : wsRun0 w) : lineChars w := fun c hc => ws_inline c (h c hc)

theorem lineChars_digits (l : List Char) (h : ∀ c ∈ l, isDigit c = true) : lineChars l :=
  fun c hc => digit_inline c (h c hc)

theorem kwAll_alpha : ∀ k ∈ kwAll, ∀ c ∈ k, isAlpha c = true := by decide

theorem lineChars_kw (kw' k : List Char) (hk : k ∈ kwAll) (h : kw'.map upper = k) : lineChars kw' := by
  intro c hc
  apply upper_alpha_inline
  apply kwAll_alpha k hk
  rw [← h]
  exact List.mem_map_of_mem hc

theorem lineChars_showDec (d : DDec) (h : canon d) : lineChars (showDec d) := by
  obtain ⟨_, hip, hfp, _⟩ := h
  unfold showDec
  split
  · exact lineChars_digits _ hip
  · rw [lineChars_append, lineChars_cons]
    exact ⟨lineChars_digits _ hip, ⟨by decide, by decide⟩, lineChars_digits _ hfp⟩

theorem lineChars_ticker (s : List Char) (h : tickerOk s) : lineChars s :=
  fun c hc => alnum_inline c (h.2 c hc).1

theorem lineChars_layAmt (g : List Char) (hg : wsRun g) (a : DAmt) (h : amtOk a) : lineChars (layAmt g a) := by
  obtain ⟨hd, x, y, z, hcur, hc⟩ := h
  have hl : a.cur.toList = [x, y, z] := by rw [hcur, String.toList_ofList]
  unfold layAmt
  rw [hl, lineChars_append, lineChars_append]
  refine ⟨⟨lineChars_showDec _ hd, lineChars_ws _ hg.2⟩, ?_⟩
  intro c hcm
  simp only [List.mem_cons, List.not_mem_nil, or_false] at hcm
  rcases hcm with rfl | rfl | rfl
  · exact alpha_inline _ hc.1
  · exact alpha_inline _ hc.2.1
  · exact alpha_inline _ hc.2.2.1

theorem lineChars_layOpt (L : Layout) (hL : L.ok) (i : Nat) (kw : List Char) (hk : kw ∈ kwAll) (a : DAmt) (h : amtOk a) :
    lineChars (layOpt L i kw a) := by
  unfold layOpt
  split
  · exact lineChars_nil
  · simp only [lineChars_append]
    exact ⟨lineChars_ws _ (hL.2.1 i).2, lineChars_kw _ kw hk (hL.2.2.1 kw hk), lineChars_ws _ (hL.2.1 _).2,
      lineChars_layAmt _ (hL.2.1 _) a h⟩

theorem lineChars_date (t : DTx) : lineChars (showDateD t) := by
  have dg : ∀ k, digitChar k ≠ '\n' ∧ digitChar k ≠ '\r' := fun k => digit_inline _ (digit_facts k).1
  unfold showDateD pad4 pad2
  intro c hc
  simp only [List.cons_append, List.nil_append, List.mem_cons, List.not_mem_nil, or_false] at hc
  rcases hc with rfl | rfl | rfl | rfl | rfl | rfl | rfl | rfl | rfl | rfl
  all_goals first | exact dg _ | exact ⟨by decide, by decide⟩

theorem lineChars_layCmd (L : Layout) (hL : L.ok) (t : DTx) (htk : tickerOk t.ticker.toList) (hop : opOk t.op) :
    lineChars (layCmd L t) := by
  have hg : ∀ i, lineChars (L.g i) := fun i => lineChars_ws _ (hL.2.1 i).2
  have hkw : ∀ k ∈ kwAll, lineChars (L.kw k) := fun k hk => lineChars_kw _ k hk (hL.2.2.1 k hk)
  have htk' := lineChars_ticker _ htk
  have hat : lineChars ['@'] := by intro c hc; simp only [List.mem_cons, List.not_mem_nil, or_false] at hc; subst hc; exact ⟨by decide, by decide⟩
  unfold layCmd
  cases hopc : t.op with
  | buy q p f =>
    rw [hopc] at hop
    simp only [lineChars_append]
    exact ⟨hkw _ (by decide), hg _, htk', hg _, lineChars_showDec _ hop.1, hg _, hat, hg _,
      lineChars_layAmt _ (hL.2.1 _) _ hop.2.1, lineChars_layOpt L hL _ _ (by decide) _ hop.2.2⟩
  | sell q p f =>
    rw [hopc] at hop
    simp only [lineChars_append]
    exact ⟨hkw _ (by decide), hg _, htk', hg _, lineChars_showDec _ hop.1, hg _, hat, hg _,
      lineChars_layAmt _ (hL.2.1 _) _ hop.2.1, lineChars_layOpt L hL _ _ (by decide) _ hop.2.2⟩
  | dividend v x =>
    rw [hopc] at hop
    simp only [lineChars_append]
    exact ⟨hkw _ (by decide), hg _, htk', hg _, hkw _ (by decide), hg _,
      lineChars_layAmt _ (hL.2.1 _) _ hop.1, lineChars_layOpt L hL _ _ (by decide) _ hop.2⟩
  | accumulation q v x =>
    rw [hopc] at hop
    simp only [lineChars_append]
    exact ⟨hkw _ (by decide), hg _, htk', hg _, lineChars_showDec _ hop.1, hg _, hkw _ (by decide), hg _,
      lineChars_layAmt _ (hL.2.1 _) _ hop.2.1, lineChars_layOpt L hL _ _ (by decide) _ hop.2.2⟩
  | capreturn q v f =>
    rw [hopc] at hop
    simp only [lineChars_append]
    exact ⟨hkw _ (by decide), hg _, htk', hg _, lineChars_showDec _ hop.1, hg _, hkw _ (by decide), hg _,
      lineChars_layAmt _ (hL.2.1 _) _ hop.2.1, lineChars_layOpt L hL _ _ (by decide) _ hop.2.2⟩
  | split r =>
    rw [hopc] at hop
    simp only [lineChars_append]
    exact ⟨hkw _ (by decide), hg _, htk', hg _, hkw _ (by decide), hg _, lineChars_showDec _ hop⟩
  | unsplit r =>
    rw [hopc] at hop
    simp only [lineChars_append]
    exact ⟨hkw _ (by decide), hg _, htk', hg _, hkw _ (by decide), hg _, lineChars_showDec _ hop⟩

/-- a transaction in any layout whose trailing comment holds no line break is a single line -/
theorem lineChars_render (L : Layout) (hL : L.ok) (hpost : lineChars L.post) (t : DTx) (h : txOk t) :
    lineChars (render L t) := by
  unfold render
  simp only [lineChars_append]
  exact ⟨lineChars_ws _ hL.1, lineChars_date t, lineChars_ws _ (hL.2.1 0).2,
    lineChars_layCmd L hL t h.2.2.2.1 h.2.2.2.2, hpost⟩

end Cgt.Dsl
