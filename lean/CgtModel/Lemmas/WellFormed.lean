import CgtModel.Lemmas.Cost
import CgtModel.Validate
/-! A validator-clean ledger (positive quantities and ratios, non-negative prices and fees) gives, for
    every security, a day list that satisfies the hypotheses of the matcher theorems (`daysOk`,
    `buysNonzero`): the lift from the raw input to the per-security day lists. -/
namespace Cgt

def opOk : Op → Prop
  | .buy q p f | .sell q p f => 0 < q ∧ 0 ≤ p ∧ 0 ≤ f
  | .split r | .unsplit r => 0 < r
  | _ => True

instance : DecidablePred opOk := by
  intro o; cases o <;> unfold opOk <;> infer_instance

def TxOk (t : Tx) : Prop := opOk t.op
instance : DecidablePred TxOk := fun t => inferInstanceAs (Decidable (opOk t.op))

/-- what the standalone validator accepts, restricted to the fields the matcher theorems need -/
def WellFormed (l : List Tx) : Prop := ∀ t ∈ l, TxOk t
instance (l : List Tx) : Decidable (WellFormed l) := inferInstanceAs (Decidable (∀ t ∈ l, TxOk t))

theorem rat_div_nonneg {a b : Rat} (ha : 0 ≤ a) (hb : 0 < b) : 0 ≤ a / b := by
  rw [Rat.div_def]; exact Rat.mul_nonneg ha (Rat.le_of_lt (Rat.inv_pos.mpr hb))

theorem mergeTrade_ok (q p f q' p' f' : Rat) (h : 0 < q ∧ 0 ≤ p ∧ 0 ≤ f) (h' : 0 < q' ∧ 0 ≤ p' ∧ 0 ≤ f') :
    0 < (mergeTrade q p f q' p' f').1 ∧ 0 ≤ (mergeTrade q p f q' p' f').2.1 ∧ 0 ≤ (mergeTrade q p f q' p' f').2.2 := by
  unfold mergeTrade
  simp only
  have hq : 0 < q + q' := by grind
  have hne : q + q' ≠ 0 := by grind
  simp only [hne, ne_eq, not_false_eq_true, if_true]
  refine ⟨hq, ?_, by grind⟩
  apply rat_div_nonneg _ hq
  have h1 := Rat.mul_nonneg (Rat.le_of_lt h.1) h.2.1
  have h2 := Rat.mul_nonneg (Rat.le_of_lt h'.1) h'.2.1
  grind

theorem sortByDate_ok (l : List Tx) (h : WellFormed l) : WellFormed (sortByDate l) := by
  intro t ht
  exact h t ((List.mergeSort_perm l _).mem_iff.mp ht)

theorem mergeInto_ok : ∀ (rest : List Tx) (cur : Tx), TxOk cur → WellFormed rest → WellFormed (mergeInto cur rest) := by
  intro rest
  induction rest with
  | nil => intro cur hc _ t ht; simp only [mergeInto, List.mem_singleton] at ht; subst ht; exact hc
  | cons nxt rest ih =>
    intro cur hc hr
    have hn : TxOk nxt := hr nxt (by simp)
    have hrest : WellFormed rest := fun x hx => hr x (by simp [hx])
    simp only [mergeInto]
    split
    · split
      · rename_i q p f q' p' f' hco hno
        apply ih _ _ hrest
        unfold TxOk at hc hn ⊢
        rw [hco] at hc; rw [hno] at hn
        exact mergeTrade_ok q p f q' p' f' hc hn
      · rename_i q p f q' p' f' hco hno
        apply ih _ _ hrest
        unfold TxOk at hc hn ⊢
        rw [hco] at hc; rw [hno] at hn
        exact mergeTrade_ok q p f q' p' f' hc hn
      · intro t ht
        simp only [List.mem_cons] at ht
        rcases ht with rfl | ht
        · exact hc
        · exact ih nxt hn hrest t ht
    · intro t ht
      simp only [List.mem_cons] at ht
      rcases ht with rfl | ht
      · exact hc
      · exact ih nxt hn hrest t ht

theorem mergeAdjacent_ok (l : List Tx) (h : WellFormed l) : WellFormed (mergeAdjacent l) := by
  cases l with
  | nil => intro t ht; simp [mergeAdjacent] at ht
  | cons t ts => exact mergeInto_ok ts t (h t (by simp)) (fun x hx => h x (by simp [hx]))

theorem foldBuy_ok (date : Date) (ticker : String) (q' p' f' : Rat) (hq : 0 < q' ∧ 0 ≤ p' ∧ 0 ≤ f') :
    ∀ (out out' : List Tx), WellFormed out → foldBuy date ticker q' p' f' out = some out' → WellFormed out' := by
  intro out
  induction out with
  | nil => intro out' _ h; simp [foldBuy] at h
  | cons t ts ih =>
    intro out' hw h
    have ht : TxOk t := hw t (by simp)
    have hts : WellFormed ts := fun x hx => hw x (by simp [hx])
    simp only [foldBuy] at h
    split at h
    · split at h
      · rename_i q p f hop
        simp only [Option.some.injEq] at h
        subst h
        intro x hx
        simp only [List.mem_cons] at hx
        rcases hx with rfl | hx
        · unfold TxOk at ht ⊢; rw [hop] at ht; exact mergeTrade_ok q p f q' p' f' ht hq
        · exact hts x hx
      · simp only [Option.map_eq_some_iff] at h
        obtain ⟨r, hr, rfl⟩ := h
        intro x hx
        simp only [List.mem_cons] at hx
        rcases hx with rfl | hx
        · exact ht
        · exact ih r hts hr x hx
    · simp only [Option.map_eq_some_iff] at h
      obtain ⟨r, hr, rfl⟩ := h
      intro x hx
      simp only [List.mem_cons] at hx
      rcases hx with rfl | hx
      · exact ht
      · exact ih r hts hr x hx

theorem coalesceStep_ok (out : List Tx) (nxt : Tx) (ho : WellFormed out) (hn : TxOk nxt) :
    WellFormed (coalesceStep out nxt) := by
  unfold coalesceStep
  have happ : WellFormed (out ++ [nxt]) := by
    intro x hx
    simp only [List.mem_append, List.mem_singleton] at hx
    rcases hx with hx | rfl
    · exact ho x hx
    · exact hn
  split
  · rename_i q p f hop
    split
    · rename_i o ho'
      unfold TxOk at hn; rw [hop] at hn
      exact foldBuy_ok _ _ q p f hn out o ho ho'
    · exact happ
  · exact happ

theorem coalesceBuys_ok (l : List Tx) (h : WellFormed l) : WellFormed (coalesceBuys l) := by
  unfold coalesceBuys
  have : ∀ (xs : List Tx) (acc : List Tx), WellFormed acc → WellFormed xs → WellFormed (xs.foldl coalesceStep acc) := by
    intro xs
    induction xs with
    | nil => intro acc ha _; exact ha
    | cons x xs ih =>
      intro acc ha hx
      simp only [List.foldl_cons]
      exact ih _ (coalesceStep_ok acc x ha (hx x (by simp))) (fun y hy => hx y (by simp [hy]))
  exact this l [] (fun _ h => by simp at h) h

theorem preprocess_ok (l : List Tx) (h : WellFormed l) : WellFormed (preprocess l) :=
  coalesceBuys_ok _ (mergeAdjacent_ok _ (sortByDate_ok l h))

/-- day record as the matcher theorems need it -/
def Day.pos (d : Day) : Prop := 0 < d.r ∧ (∀ s ∈ d.sells, 0 < s.q) ∧ (∀ b, d.buy = some b → 0 < b.q)

theorem Day.add_pos (d : Day) (i : Nat) (op : Op) (hd : d.pos) (ho : opOk op) : (d.add i op).pos := by
  obtain ⟨hr, hs, hb⟩ := hd
  cases op with
  | buy q p f =>
    simp only [Day.add]
    cases hbuy : d.buy with
    | none =>
      refine ⟨hr, hs, ?_⟩
      intro b hbb; simp only [Option.some.injEq] at hbb; subst hbb; exact ho.1
    | some b0 =>
      refine ⟨hr, hs, ?_⟩
      intro b hbb; simp only [Option.some.injEq] at hbb; subst hbb
      have hb0 := hb b0 hbuy
      have hq : 0 < q := ho.1
      unfold mergeTrade; simp only; grind
  | sell q p f =>
    simp only [Day.add]
    refine ⟨hr, ?_, hb⟩
    intro s hs'
    simp only [List.mem_append, List.mem_singleton] at hs'
    rcases hs' with h | rfl
    · exact hs s h
    · exact ho.1
  | split r =>
    simp only [Day.add, splitFactor]
    exact ⟨Rat.mul_pos hr ho, hs, hb⟩
  | unsplit r =>
    simp only [Day.add, splitFactor]
    have hr0 : r ≠ 0 := by unfold opOk at ho; grind
    simp only [hr0, ne_eq, not_false_eq_true, if_true]
    have : 0 < 1 / r := rat_div_pos (by grind) ho
    exact ⟨Rat.mul_pos hr this, hs, hb⟩
  | dividend v t => exact ⟨hr, hs, hb⟩
  | accumulation q v t => exact ⟨hr, hs, hb⟩
  | capreturn q v f => exact ⟨hr, hs, hb⟩

theorem Day.merge_pos (a b : Day) (ha : a.pos) (hb : b.pos) : (a.merge b).pos := by
  obtain ⟨ar, as, ab⟩ := ha
  obtain ⟨br, bs, bb⟩ := hb
  refine ⟨Rat.mul_pos ar br, ?_, ?_⟩
  · intro s hs
    simp only [Day.merge, List.mem_append] at hs
    rcases hs with h | h
    · exact as s h
    · exact bs s h
  · intro x hx
    simp only [Day.merge] at hx
    cases h1 : a.buy with
    | none => rw [h1] at hx; simp only at hx; exact bb x hx
    | some y =>
      rw [h1] at hx
      cases h2 : b.buy with
      | none => rw [h2] at hx; simp only [Option.some.injEq] at hx; subst hx; exact ab y h1
      | some z =>
        rw [h2] at hx
        simp only [Option.some.injEq] at hx
        subst hx
        have := ab y h1; have := bb z h2
        unfold mergeTrade; simp only; grind

theorem fresh_pos (date : Date) : ({ date := date } : Day).pos :=
  ⟨by show (0:Rat) < 1; decide, fun s hs => by simp at hs, fun b hb => by cases hb⟩

theorem groupDays_pos : ∀ (xs : List (Nat × Tx)), (∀ x ∈ xs, TxOk x.2) → ∀ d ∈ groupDays xs, d.pos := by
  intro xs
  induction xs with
  | nil => intro _ d hd; simp [groupDays] at hd
  | cons x xs ih =>
    intro h d hd
    obtain ⟨i, t⟩ := x
    have ht : TxOk t := h (i, t) (by simp)
    have ih' := ih (fun y hy => h y (by simp [hy]))
    have hnew : (({ date := t.date } : Day).add i t.op).pos := Day.add_pos _ i t.op (fresh_pos t.date) ht
    simp only [groupDays] at hd
    split at hd
    · simp only [List.mem_singleton] at hd; subst hd; exact hnew
    · rename_i d0 ds hg
      have hd0 : d0.pos := ih' d0 (by rw [hg]; simp)
      have hds : ∀ y ∈ ds, y.pos := fun y hy => ih' y (by rw [hg]; simp [hy])
      split at hd
      · simp only [List.mem_cons] at hd
        rcases hd with rfl | hd
        · exact Day.merge_pos _ _ hnew hd0
        · exact hds d hd
      · simp only [List.mem_cons] at hd
        rcases hd with rfl | rfl | hd
        · exact hnew
        · exact hd0
        · exact hds d hd

theorem daysOk_of_pos : ∀ (ds : List Day), (∀ d ∈ ds, d.pos) → daysOk ds ∧ buysNonzero ds := by
  intro ds
  induction ds with
  | nil => intro _; exact ⟨trivial, trivial⟩
  | cons d ds ih =>
    intro h
    have hd := h d (by simp)
    have hr := ih (fun x hx => h x (by simp [hx]))
    obtain ⟨dr, dsells, dbuy⟩ := hd
    refine ⟨⟨⟨dr, ?_, ?_⟩, hr.1⟩, ⟨?_, hr.2⟩⟩
    · intro s hs; exact Rat.le_of_lt (dsells s hs)
    · unfold Day.B
      cases hb : d.buy with
      | none => simp
      | some b => exact Rat.le_of_lt (dbuy b hb)
    · intro b hb; have := dbuy b hb; grind

/-- **the lift**: for a validator-clean ledger every security's day list satisfies the hypotheses of
    the conservation, coverage and cost theorems -/
theorem wellFormed_days (l : List Tx) (h : WellFormed l) (t : String) :
    daysOk (daysOf t (preprocess l)) ∧ buysNonzero (daysOf t (preprocess l)) := by
  apply daysOk_of_pos
  apply groupDays_pos
  intro x hx
  have hp := preprocess_ok l h
  simp only [List.mem_filter] at hx
  have hm : x ∈ indexed (preprocess l) := hx.1
  unfold indexed at hm
  simp only [List.mem_map] at hm
  obtain ⟨⟨tx, i⟩, hmem, rfl⟩ := hm
  exact hp tx (List.fst_mem_of_mem_zipIdx hmem)

/-- a ledger on which the standalone validator (`validation.rs`, modelled by `validateErrors`) reports
    no error is `WellFormed` -/
theorem wellFormed_of_validator_clean (l : List Tx) (h : validateErrors l = []) : WellFormed l := by
  intro t ht
  have hop : opErrors t.op = [] := by
    unfold validateErrors at h
    rw [List.flatten_eq_nil_iff] at h
    exact h _ (List.mem_map_of_mem ht)
  unfold TxOk
  cases hop' : t.op with
  | buy q p f =>
    rw [hop'] at hop
    simp only [opErrors, List.append_eq_nil_iff, ite_eq_right_iff, List.cons_ne_self, imp_false, reduceCtorEq] at hop
    unfold opOk; grind
  | sell q p f =>
    rw [hop'] at hop
    simp only [opErrors, List.append_eq_nil_iff, ite_eq_right_iff, List.cons_ne_self, imp_false, reduceCtorEq] at hop
    unfold opOk; grind
  | split r =>
    rw [hop'] at hop
    simp only [opErrors, List.append_eq_nil_iff, ite_eq_right_iff, List.cons_ne_self, imp_false, reduceCtorEq] at hop
    unfold opOk; grind
  | unsplit r =>
    rw [hop'] at hop
    simp only [opErrors, List.append_eq_nil_iff, ite_eq_right_iff, List.cons_ne_self, imp_false, reduceCtorEq] at hop
    unfold opOk; grind
  | dividend v x => trivial
  | accumulation q v x => trivial
  | capreturn q v f => trivial

end Cgt
