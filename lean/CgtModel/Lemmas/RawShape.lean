import CgtModel.Lemmas.WellFormed
import CgtModel.Lemmas.PrepassAppend
/-! Shape of one security's day list read off the raw ledger: a security without CAPRETURN /
    ACCUMULATION lines has no events in any of its days, and a security whose SELL lines fall on
    pairwise different days has at most one SELL per day after preprocessing. These turn the
    hypotheses of `C01_ledger` (stated on the preprocessed day list) into conditions on the input. -/
namespace Cgt

/-! ### a predicate that survives rewriting a line's BUY / SELL figures survives preprocessing -/

section Forall
variable (P : Tx → Prop)
  (hb : ∀ (c : Tx) (a b d : Rat), P c → P { c with op := .buy a b d })
  (hs : ∀ (c : Tx) (a b d : Rat), P c → P { c with op := .sell a b d })
include hb hs

theorem mergeInto_forall : ∀ (rest : List Tx) (cur : Tx), P cur → (∀ x ∈ rest, P x) → ∀ y ∈ mergeInto cur rest, P y := by
  intro rest
  induction rest with
  | nil => intro cur hc _ y hy; simp only [mergeInto, List.mem_singleton] at hy; subst hy; exact hc
  | cons nxt rest ih =>
    intro cur hc hr
    have hn : P nxt := hr nxt (by simp)
    have hrest : ∀ x ∈ rest, P x := fun x hx => hr x (by simp [hx])
    have hkeep : ∀ y ∈ cur :: mergeInto nxt rest, P y := by
      intro y hy
      simp only [List.mem_cons] at hy
      rcases hy with rfl | hy
      · exact hc
      · exact ih nxt hn hrest y hy
    simp only [mergeInto]
    split
    · split
      · exact ih _ (hb cur _ _ _ hc) hrest
      · exact ih _ (hs cur _ _ _ hc) hrest
      · exact hkeep
    · exact hkeep

theorem mergeAdjacent_forall (l : List Tx) (h : ∀ x ∈ l, P x) : ∀ y ∈ mergeAdjacent l, P y := by
  cases l with
  | nil => intro y hy; simp [mergeAdjacent] at hy
  | cons t ts => exact mergeInto_forall P hb hs ts t (h t (by simp)) (fun x hx => h x (by simp [hx]))

theorem foldBuy_forall (date : Date) (ticker : String) (q' p' f' : Rat) :
    ∀ (out out' : List Tx), (∀ x ∈ out, P x) → foldBuy date ticker q' p' f' out = some out' → ∀ y ∈ out', P y := by
  intro out
  induction out with
  | nil => intro out' _ h; simp [foldBuy] at h
  | cons t ts ih =>
    intro out' hw h
    have ht : P t := hw t (by simp)
    have hts : ∀ x ∈ ts, P x := fun x hx => hw x (by simp [hx])
    have hrec : ∀ r, foldBuy date ticker q' p' f' ts = some r → ∀ y ∈ t :: r, P y := by
      intro r hr y hy
      simp only [List.mem_cons] at hy
      rcases hy with rfl | hy
      · exact ht
      · exact ih r hts hr y hy
    simp only [foldBuy] at h
    split at h
    · split at h
      · simp only [Option.some.injEq] at h
        subst h
        intro y hy
        simp only [List.mem_cons] at hy
        rcases hy with rfl | hy
        · exact hb t _ _ _ ht
        · exact hts y hy
      · simp only [Option.map_eq_some_iff] at h
        obtain ⟨r, hr, rfl⟩ := h
        exact hrec r hr
    · simp only [Option.map_eq_some_iff] at h
      obtain ⟨r, hr, rfl⟩ := h
      exact hrec r hr

theorem coalesceStep_forall (out : List Tx) (nxt : Tx) (ho : ∀ x ∈ out, P x) (hn : P nxt) :
    ∀ y ∈ coalesceStep out nxt, P y := by
  have happ : ∀ y ∈ out ++ [nxt], P y := by
    intro y hy
    simp only [List.mem_append, List.mem_singleton] at hy
    rcases hy with hy | rfl
    · exact ho y hy
    · exact hn
  unfold coalesceStep
  split
  · split
    · rename_i o ho'
      exact foldBuy_forall P hb hs _ _ _ _ _ out o ho ho'
    · exact happ
  · exact happ

theorem coalesceBuys_forall (l : List Tx) (h : ∀ x ∈ l, P x) : ∀ y ∈ coalesceBuys l, P y := by
  unfold coalesceBuys
  have : ∀ (xs acc : List Tx), (∀ x ∈ acc, P x) → (∀ x ∈ xs, P x) → ∀ y ∈ xs.foldl coalesceStep acc, P y := by
    intro xs
    induction xs with
    | nil => intro acc ha _; exact ha
    | cons x xs ih =>
      intro acc ha hx
      simp only [List.foldl_cons]
      exact ih _ (coalesceStep_forall P hb hs acc x ha (hx x (by simp))) (fun z hz => hx z (by simp [hz]))
  exact this l [] (by simp) h

theorem preprocess_forall (l : List Tx) (h : ∀ x ∈ l, P x) : ∀ y ∈ preprocess l, P y := by
  unfold preprocess
  apply coalesceBuys_forall P hb hs
  apply mergeAdjacent_forall P hb hs
  intro x hx
  exact h x ((List.mergeSort_perm l _).mem_iff.mp hx)

end Forall

/-! ### no capital events in the input, none in the days -/

def Op.isEvent : Op → Bool
  | .accumulation .. | .capreturn .. => true
  | _ => false

/-- the security has no CAPRETURN and no ACCUMULATION line -/
def noEventLines (t : String) (l : List Tx) : Prop := ∀ x ∈ l, x.ticker = t → x.op.isEvent = false

instance (t : String) (l : List Tx) : Decidable (noEventLines t l) :=
  inferInstanceAs (Decidable (∀ x ∈ l, x.ticker = t → x.op.isEvent = false))

theorem preprocess_noEventLines (t : String) (l : List Tx) (h : noEventLines t l) : noEventLines t (preprocess l) :=
  preprocess_forall (fun x => x.ticker = t → x.op.isEvent = false)
    (fun _ _ _ _ _ _ => rfl) (fun _ _ _ _ _ _ => rfl) l h

theorem Day.add_noEv (d : Day) (i : Nat) (op : Op) (hd : d.accs = [] ∧ d.caps = []) (ho : op.isEvent = false) :
    (d.add i op).accs = [] ∧ (d.add i op).caps = [] := by
  cases op <;> simp_all [Day.add, Op.isEvent]
  split <;> simp_all

theorem Day.merge_noEv (a b : Day) (ha : a.accs = [] ∧ a.caps = []) (hb : b.accs = [] ∧ b.caps = []) :
    (a.merge b).accs = [] ∧ (a.merge b).caps = [] := by
  simp [Day.merge, ha.1, ha.2, hb.1, hb.2]

theorem groupDays_noEvents : ∀ (xs : List (Nat × Tx)), (∀ x ∈ xs, x.2.op.isEvent = false) → noEvents (groupDays xs) := by
  intro xs
  induction xs with
  | nil => intro _ d hd; simp [groupDays] at hd
  | cons x xs ih =>
    intro h d hd
    obtain ⟨i, t⟩ := x
    have ht : t.op.isEvent = false := h (i, t) (by simp)
    have hrest := ih (fun y hy => h y (by simp [hy]))
    have hfresh : (({ date := t.date } : Day).add i t.op).accs = [] ∧ (({ date := t.date } : Day).add i t.op).caps = [] :=
      Day.add_noEv _ i t.op ⟨rfl, rfl⟩ ht
    simp only [groupDays] at hd
    split at hd
    · simp only [List.mem_singleton] at hd; subst hd; exact hfresh
    · rename_i d0 ds hg
      have hd0 : d0.accs = [] ∧ d0.caps = [] := hrest d0 (by rw [hg]; simp)
      have hds : ∀ e ∈ ds, e.accs = [] ∧ e.caps = [] := fun e he => hrest e (by rw [hg]; simp [he])
      split at hd
      · simp only [List.mem_cons] at hd
        rcases hd with rfl | hd
        · exact Day.merge_noEv _ _ hfresh hd0
        · exact hds d hd
      · simp only [List.mem_cons] at hd
        rcases hd with rfl | rfl | hd
        · exact hfresh
        · exact hd0
        · exact hds d hd

theorem noEvents_of_raw (t : String) (l : List Tx) (h : noEventLines t l) : noEvents (daysOf t (preprocess l)) := by
  unfold daysOf
  apply groupDays_noEvents
  intro x hx
  simp only [List.mem_filter, decide_eq_true_eq] at hx
  have hm : x ∈ indexed (preprocess l) := hx.1
  unfold indexed at hm
  simp only [List.mem_map] at hm
  obtain ⟨⟨y, j⟩, hy, rfl⟩ := hm
  exact preprocess_noEventLines t l h y (List.mem_zipIdx hy |>.2.2 ▸ List.getElem_mem _) hx.2

/-! ### SELL lines on pairwise different days: at most one SELL per day -/

/-- day numbers of the security's SELL lines, in line order -/
def so (t : String) (x : Tx) : List Int := if x.ticker = t ∧ x.op.isSell = true then [x.ord] else []
def sellOrds (t : String) (l : List Tx) : List Int := l.flatMap (so t)

/-- no two SELL lines of the security carry the same date -/
def oneSellPerDay (t : String) (l : List Tx) : Prop := (sellOrds t l).Nodup

instance (t : String) (l : List Tx) : Decidable (oneSellPerDay t l) := inferInstanceAs (Decidable (sellOrds t l).Nodup)

@[simp] theorem sellOrds_nil (t : String) : sellOrds t [] = [] := rfl
@[simp] theorem sellOrds_cons (t : String) (x : Tx) (l : List Tx) : sellOrds t (x :: l) = so t x ++ sellOrds t l := by
  simp [sellOrds]
@[simp] theorem sellOrds_append (t : String) (a b : List Tx) : sellOrds t (a ++ b) = sellOrds t a ++ sellOrds t b := by
  simp [sellOrds]

theorem so_buy (t : String) (c : Tx) (a b d : Rat) : so t { c with op := .buy a b d } = [] := by
  simp [so, Op.isSell]

theorem so_of_buy (t : String) (c : Tx) (a b d : Rat) (h : c.op = .buy a b d) : so t c = [] := by
  simp [so, h, Op.isSell]

theorem so_sell (t : String) (c : Tx) (q p f a b d : Rat) (h : c.op = .sell q p f) :
    so t { c with op := .sell a b d } = so t c := by
  simp [so, h, Op.isSell, Tx.ord]

theorem mergeInto_sellOrds (t : String) : ∀ (rest : List Tx) (cur : Tx),
    (sellOrds t (mergeInto cur rest)).Sublist (sellOrds t (cur :: rest)) := by
  intro rest
  induction rest with
  | nil => intro cur; simp [mergeInto]
  | cons nxt rest ih =>
    intro cur
    have hkeep : (sellOrds t (cur :: mergeInto nxt rest)).Sublist (sellOrds t (cur :: nxt :: rest)) := by
      rw [sellOrds_cons, sellOrds_cons]
      exact List.Sublist.append (List.Sublist.refl _) (ih nxt)
    simp only [mergeInto]
    split
    · split
      · rename_i q p f q' p' f' hco hno
        refine List.Sublist.trans (ih _) ?_
        rw [sellOrds_cons, sellOrds_cons, sellOrds_cons, so_buy, so_of_buy t cur q p f hco, so_of_buy t nxt q' p' f' hno]
        simp
      · rename_i q p f q' p' f' hco hno
        refine List.Sublist.trans (ih _) ?_
        rw [sellOrds_cons, sellOrds_cons, sellOrds_cons, so_sell t cur q p f _ _ _ hco]
        apply List.Sublist.append (List.Sublist.refl _)
        exact List.sublist_append_right _ _
      · exact hkeep
    · exact hkeep

theorem mergeAdjacent_sellOrds (t : String) (l : List Tx) : (sellOrds t (mergeAdjacent l)).Sublist (sellOrds t l) := by
  cases l with
  | nil => simp [mergeAdjacent]
  | cons x xs => exact mergeInto_sellOrds t xs x

theorem foldBuy_sellOrds (t : String) (date : Date) (ticker : String) (q' p' f' : Rat) :
    ∀ (out out' : List Tx), foldBuy date ticker q' p' f' out = some out' → sellOrds t out' = sellOrds t out := by
  intro out
  induction out with
  | nil => intro out' h; simp [foldBuy] at h
  | cons x xs ih =>
    intro out' h
    simp only [foldBuy] at h
    split at h
    · split at h
      · rename_i q p f hop
        simp only [Option.some.injEq] at h
        subst h
        rw [sellOrds_cons, sellOrds_cons, so_buy, so_of_buy t x q p f hop]
      · simp only [Option.map_eq_some_iff] at h
        obtain ⟨r, hr, rfl⟩ := h
        rw [sellOrds_cons, sellOrds_cons, ih r hr]
    · simp only [Option.map_eq_some_iff] at h
      obtain ⟨r, hr, rfl⟩ := h
      rw [sellOrds_cons, sellOrds_cons, ih r hr]

theorem coalesceStep_sellOrds (t : String) (out : List Tx) (nxt : Tx) :
    sellOrds t (coalesceStep out nxt) = sellOrds t out ++ so t nxt := by
  have happ : sellOrds t (out ++ [nxt]) = sellOrds t out ++ so t nxt := by simp
  unfold coalesceStep
  split
  · rename_i q p f hop
    split
    · rename_i o ho
      rw [foldBuy_sellOrds t _ _ q p f out o ho, so_of_buy t nxt q p f hop]
      simp
    · exact happ
  · exact happ

theorem coalesceBuys_sellOrds (t : String) (l : List Tx) : sellOrds t (coalesceBuys l) = sellOrds t l := by
  unfold coalesceBuys
  have : ∀ (xs acc : List Tx), sellOrds t (xs.foldl coalesceStep acc) = sellOrds t acc ++ sellOrds t xs := by
    intro xs
    induction xs with
    | nil => intro acc; simp
    | cons x xs ih =>
      intro acc
      simp only [List.foldl_cons]
      rw [ih, coalesceStep_sellOrds, sellOrds_cons, List.append_assoc]
  simpa using this l []

theorem preprocess_oneSellPerDay (t : String) (l : List Tx) (h : oneSellPerDay t l) : oneSellPerDay t (preprocess l) := by
  unfold oneSellPerDay preprocess at *
  rw [coalesceBuys_sellOrds]
  apply List.Sublist.nodup (mergeAdjacent_sellOrds t _)
  unfold sellOrds sortByDate
  exact ((List.Perm.flatMap_right (so t) (List.mergeSort_perm l _)).nodup_iff).mpr h

/-- the SELL lines of a grouped list, by day number -/
def sellTags (xs : List (Nat × Tx)) : List Int := xs.flatMap (fun it => if it.2.op.isSell = true then [it.2.ord] else [])

theorem Day.add_sells (d : Day) (i : Nat) (op : Op) :
    (d.add i op).sells.length = d.sells.length + (if op.isSell = true then 1 else 0) ∧ (d.add i op).date = d.date := by
  cases op <;> simp [Day.add, Op.isSell]
  split <;> simp

theorem groupDays_sells : ∀ (xs : List (Nat × Tx)), ∀ d ∈ groupDays xs, d.sells.length ≤ (sellTags xs).count d.ord := by
  intro xs
  induction xs with
  | nil => intro d hd; simp [groupDays] at hd
  | cons x xs ih =>
    intro d hd
    obtain ⟨i, t⟩ := x
    have hfresh := Day.add_sells ({ date := t.date } : Day) i t.op
    have htags : sellTags ((i, t) :: xs) = (if t.op.isSell = true then [t.ord] else []) ++ sellTags xs := by
      simp [sellTags]
    have hford : (({ date := t.date } : Day).add i t.op).ord = t.ord := by
      unfold Day.ord Tx.ord; rw [hfresh.2]
    have hmono : ∀ e : Day, (sellTags xs).count e.ord ≤ (sellTags ((i, t) :: xs)).count e.ord := by
      intro e; rw [htags, List.count_append]; omega
    simp only [groupDays] at hd
    split at hd
    · simp only [List.mem_singleton] at hd
      subst hd
      rw [hford, htags, List.count_append, hfresh.1]
      simp only [List.length_nil, Nat.zero_add]
      split <;> simp
    · rename_i d0 ds hg
      have hd0 := ih d0 (by rw [hg]; simp)
      have hds : ∀ e ∈ ds, e.sells.length ≤ (sellTags xs).count e.ord := fun e he => ih e (by rw [hg]; simp [he])
      split at hd
      · rename_i heq
        simp only [List.mem_cons] at hd
        rcases hd with rfl | hd
        · have hmo : ((({ date := t.date } : Day).add i t.op).merge d0).ord = t.ord := by
            unfold Day.ord Day.merge; simp only; rw [hfresh.2]; rfl
          have hml : ((({ date := t.date } : Day).add i t.op).merge d0).sells.length
              = (({ date := t.date } : Day).add i t.op).sells.length + d0.sells.length := by
            simp [Day.merge]
          rw [hmo, hml, htags, List.count_append, hfresh.1, ← heq]
          simp only [List.length_nil, Nat.zero_add]
          split <;> simp <;> omega
        · exact Nat.le_trans (hds d hd) (hmono d)
      · simp only [List.mem_cons] at hd
        rcases hd with rfl | rfl | hd
        · rw [hford, htags, List.count_append, hfresh.1]
          simp only [List.length_nil, Nat.zero_add]
          split <;> simp
        · exact Nat.le_trans hd0 (hmono _)
        · exact Nat.le_trans (hds d hd) (hmono d)

theorem sellTags_daysOf (t : String) (pre : List Tx) :
    sellTags ((indexed pre).filter (fun it => decide (it.2.ticker = t))) = sellOrds t pre := by
  have hpre : (indexed pre).map (·.2) = pre := by
    unfold indexed
    rw [List.map_map]
    have : ((fun x : Nat × Tx => x.2) ∘ fun x : Tx × Nat => (x.2, x.1)) = Prod.fst := by funext x; rfl
    rw [this, List.zipIdx_map_fst]
  have hgen : ∀ (L : List (Nat × Tx)),
      sellTags (L.filter (fun it => decide (it.2.ticker = t))) = sellOrds t (L.map (·.2)) := by
    intro L
    induction L with
    | nil => rfl
    | cons a L ih =>
      simp only [List.filter_cons, List.map_cons, sellOrds_cons]
      by_cases ha : a.2.ticker = t
      · simp only [ha, decide_true, if_true]
        have : sellTags (a :: L.filter (fun it => decide (it.2.ticker = t))) =
            (if a.2.op.isSell = true then [a.2.ord] else []) ++ sellTags (L.filter (fun it => decide (it.2.ticker = t))) := by
          simp [sellTags]
        rw [this, ih]
        simp [so, ha]
      · simp only [ha, decide_false, Bool.false_eq_true, if_false]
        rw [ih]
        simp [so, ha]
  rw [hgen, hpre]

theorem oneSell_of_raw (t : String) (l : List Tx) (h : oneSellPerDay t l) :
    ∀ d ∈ daysOf t (preprocess l), d.sells.length ≤ 1 := by
  intro d hd
  unfold daysOf at hd
  have h1 := groupDays_sells _ d hd
  rw [sellTags_daysOf] at h1
  exact Nat.le_trans h1 (List.nodup_iff_count.mp (preprocess_oneSellPerDay t l h) d.ord)

end Cgt
