import CgtModel.Lemmas.Lookahead
/-! Share conservation: invariants of `sellStep`, `sellsStep`, `dayStep`, `runDays`. -/
namespace Cgt

/-- claims never exceed what the acquisition day's own disposals leave over -/
def claimsOk : List Day → List Rat → Prop
  | [], _ => True
  | e :: rest, cl =>
    0 ≤ cl.headD 0 ∧ cl.headD 0 + min e.B (max e.S 0) ≤ e.B ∧ claimsOk rest cl.tail

def sdQty (ls : List Leg) : Rat := legQty (ls.filter (fun l => l.rule == .sameDay))

theorem lookahead_rule (w : Int) (d0 : Date) (s : Trade) (fs : List Day) :
    ∀ (rem k : Rat) (cl : List Rat), ∀ l ∈ (lookahead w d0 s rem k fs cl).2.1, l.rule = .bedAndBreakfast := by
  induction fs with
  | nil => intro rem k cl l hl; simp [lookahead] at hl
  | cons e rest ih =>
    intro rem k cl l hl
    simp only [lookahead] at hl
    split at hl
    · simp at hl
    · split at hl
      · simp at hl
      · split at hl
        · exact ih _ _ _ l hl
        · split at hl
          · exact ih _ _ _ l hl
          · simp only [List.mem_cons] at hl
            rcases hl with rfl | hl
            · rfl
            · exact ih _ _ _ l hl

theorem lookahead_claimsOk (w : Int) (d0 : Date) (s : Trade) (fs : List Day) :
    ∀ (rem k : Rat) (cl : List Rat), 0 < k → ratiosPos fs → 0 ≤ rem → claimsOk fs cl →
      claimsOk fs (lookahead w d0 s rem k fs cl).1 := by
  induction fs with
  | nil => intro rem k cl _ _ _ _; simp [claimsOk]
  | cons e rest ih =>
    intro rem k cl hk hpos hrem hok
    obtain ⟨h0, h1, hrest⟩ := hok
    obtain ⟨her, hprest⟩ := hpos
    have hk' : 0 < k * e.r := Rat.mul_pos hk her
    simp only [lookahead]
    split
    · exact ⟨h0, h1, hrest⟩
    · split
      · exact ⟨h0, h1, hrest⟩
      · split
        · refine ⟨by simpa using h0, by simpa using h1, ?_⟩
          simp only [List.tail_cons]
          exact ih rem (k * e.r) cl.tail hk' hprest hrem hrest
        · split
          · refine ⟨by simpa using h0, by simpa using h1, ?_⟩
            simp only [List.tail_cons]
            exact ih rem (k * e.r) cl.tail hk' hprest hrem hrest
          · rename_i b _ ha
            have hk0 : k ≠ 0 := by grind
            have hapos : 0 < availFor e (cl.headD 0) := by grind
            have hdiv : 0 < availFor e (cl.headD 0) / k := rat_div_pos hapos hk
            have hms0 : 0 ≤ min rem (availFor e (cl.headD 0) / k) := by grind
            have hmsle : min rem (availFor e (cl.headD 0) / k) ≤ availFor e (cl.headD 0) / k := by grind
            have hmb : min rem (availFor e (cl.headD 0) / k) * k ≤ availFor e (cl.headD 0) := by
              have : availFor e (cl.headD 0) / k * k = availFor e (cl.headD 0) := by grind
              have := Rat.mul_le_mul_of_nonneg_right hmsle (Rat.le_of_lt hk)
              grind
            have hmb0 : 0 ≤ min rem (availFor e (cl.headD 0) / k) * k := Rat.mul_nonneg hms0 (Rat.le_of_lt hk)
            have hav : availFor e (cl.headD 0) = e.B - min e.B (max e.S 0) - cl.headD 0 := by
              unfold availFor at hapos ⊢; grind
            refine ⟨?_, ?_, ?_⟩
            · simp only [List.headD_cons]; grind
            · simp only [List.headD_cons]; grind
            · simp only [List.tail_cons]
              exact ih _ (k * e.r) cl.tail hk' hprest (by grind) hrest

end Cgt

namespace Cgt

theorem sdQty_append (a b : List Leg) : sdQty (a ++ b) = sdQty a + sdQty b := by
  simp [sdQty, legQty_append]

theorem sdQty_of_rule (ls : List Leg) (h : ∀ l ∈ ls, l.rule ≠ .sameDay) : sdQty ls = 0 := by
  induction ls with
  | nil => rfl
  | cons l ls ih =>
    have h1 : l.rule ≠ .sameDay := h l (by simp)
    have h2 : sdQty ls = 0 := ih (fun x hx => h x (by simp [hx]))
    have : (l.rule == Rule.sameDay) = false := by simpa using h1
    simp only [sdQty, List.filter_cons, this] at h2 ⊢
    simpa using h2

theorem sameDayPart_spec (d : Day) (avail : Rat) (s : Trade) (ha : 0 ≤ avail) (hs : 0 ≤ s.q) :
    let r := sameDayPart d avail s
    legQty r.2 = r.1 ∧ sdQty r.2 = r.1 ∧ 0 ≤ r.1 ∧ r.1 ≤ avail ∧ r.1 ≤ s.q ∧
      (∀ l ∈ r.2, 0 ≤ l.qty ∧ l.sellDate = d.date) := by
  unfold sameDayPart
  split
  · split
    · simp [sdQty, mkLeg]; grind
    · simp [sdQty]; grind
  · simp [sdQty]; grind

def poolQ' (p : Option Pool) : Rat := match p with | some p => p.q | none => 0

theorem poolPart_spec (d : Day) (pool : Option Pool) (rem : Rat) (s : Trade)
    (hp : 0 ≤ poolQ' pool) (hr : 0 ≤ rem) :
    let r := poolPart d pool rem s
    legQty r.2.2 = rem - r.2.1 ∧ poolQ' r.1 = poolQ' pool - (rem - r.2.1) ∧ 0 ≤ poolQ' r.1 ∧
      0 ≤ r.2.1 ∧ (∀ l ∈ r.2.2, 0 ≤ l.qty ∧ l.sellDate = d.date ∧ l.rule ≠ .sameDay) := by
  unfold poolPart
  by_cases h : rem > 0
  · simp only [h, if_true]
    cases pool with
    | none => simp [poolQ']; grind
    | some p =>
      simp only [poolQ'] at hp ⊢
      by_cases h2 : p.q = 0 ∨ s.q = 0
      · simp [h2]; grind
      · simp only [h2, if_false]
        by_cases h3 : min rem p.q = 0
        · simp [h3]; grind
        · simp [h3, mkLeg]; grind
  · simp [h]; grind

end Cgt

namespace Cgt

theorem poolQ_eq (st : MState) : st.poolQ = poolQ' st.pool := rfl

structure SellPost (d : Day) (future : List Day) (st : MState) (cl : List Rat) (s : Trade)
    (st' : MState) (cl' : List Rat) (legs : List Leg) : Prop where
  qty : legQty legs = s.q
  legs_ok : ∀ l ∈ legs, 0 ≤ l.qty ∧ l.sellDate = d.date
  avail : st'.avail = st.avail - sdQty legs
  avail_nonneg : 0 ≤ st'.avail
  pool_nonneg : 0 ≤ st'.poolQ
  claims : claimsOk future cl'
  position : st'.avail + st'.poolQ - outK d.r future cl'
              = st.avail + st.poolQ - outK d.r future cl - s.q

theorem sellStep_spec (t : String) (w : Int) (d : Day) (st : MState) (s : Trade)
    (future : List Day) (cl : List Rat) (st' : MState) (cl' : List Rat) (legs : List Leg)
    (hr : 0 < d.r) (hpos : ratiosPos future) (ha : 0 ≤ st.avail) (hp : 0 ≤ st.poolQ)
    (hs : 0 ≤ s.q) (hc : claimsOk future cl)
    (h : sellStep t w d st s future cl = .ok (st', cl', legs)) :
    SellPost d future st cl s st' cl' legs := by
  unfold sellStep at h
  split at h
  · cases h
  · have hsd := sameDayPart_spec d st.avail s ha hs
    generalize sameDayPart d st.avail s = sd at h hsd
    obtain ⟨sd1, sd2, sd3, sd4, sd5, sd6⟩ := hsd
    have hrem0 : 0 ≤ s.q - sd.1 := by grind
    by_cases hq : s.q = 0
    · -- zero-quantity sale: nothing is matched
      simp only [hq, if_true] at h
      have hsd0 : sd.1 = 0 := by grind
      have hpp := poolPart_spec d st.pool (0 - sd.1) s (by rw [← poolQ_eq]; exact hp) (by grind)
      generalize poolPart d st.pool (0 - sd.1) s = p3 at h hpp
      obtain ⟨p1, p2, p3', p4, p5⟩ := hpp
      split at h
      · split at h <;> cases h
      · simp only [Except.ok.injEq, Prod.mk.injEq] at h
        obtain ⟨rfl, rfl, rfl⟩ := h
        refine ⟨?_, ?_, ?_, ?_, ?_, hc, ?_⟩
        · simp [legQty_append]; grind
        · intro l hl
          simp only [List.append_nil, List.mem_append] at hl
          rcases hl with hl | hl
          · exact sd6 l hl
          · exact ⟨(p5 l hl).1, (p5 l hl).2.1⟩
        · simp only [List.append_nil, sdQty_append]
          rw [sdQty_of_rule p3.2.2 (fun l hl => (p5 l hl).2.2)]; grind
        · simp; grind
        · simp only [MState.poolQ]; exact p3'
        · simp only [MState.poolQ] at hp ⊢
          change _ + poolQ' p3.1 - _ = _ + poolQ' st.pool - _ - _
          grind
    · simp only [hq, if_false] at h
      have hla := lookahead_accounts w d.date s future (s.q - sd.1) d.r cl hr hpos hrem0
      have hlr := lookahead_rule w d.date s future (s.q - sd.1) d.r cl
      have hlc := lookahead_claimsOk w d.date s future (s.q - sd.1) d.r cl hr hpos hrem0 hc
      generalize lookahead w d.date s (s.q - sd.1) d.r future cl = la at h hla hlr hlc
      obtain ⟨l1, l2, l3, l4, l5⟩ := hla
      have hpp := poolPart_spec d st.pool la.2.2 s (by rw [← poolQ_eq]; exact hp) l3
      generalize poolPart d st.pool la.2.2 s = p3 at h hpp
      obtain ⟨p1, p2, p3', p4, p5⟩ := hpp
      split at h
      · split at h <;> cases h
      · rename_i hfin
        simp only [Except.ok.injEq, Prod.mk.injEq] at h
        obtain ⟨rfl, rfl, rfl⟩ := h
        have hzero : p3.2.1 = 0 := by grind
        refine ⟨?_, ?_, ?_, ?_, ?_, hlc, ?_⟩
        · simp [legQty_append]; grind
        · intro l hl
          simp only [List.mem_append] at hl
          rcases hl with (hl | hl) | hl
          · exact sd6 l hl
          · exact l5 l hl
          · exact ⟨(p5 l hl).1, (p5 l hl).2.1⟩
        · simp only [sdQty_append]
          rw [sdQty_of_rule p3.2.2 (fun l hl => (p5 l hl).2.2),
              sdQty_of_rule la.2.1 (fun l hl => by rw [hlr l hl]; decide)]
          grind
        · simp; grind
        · simp only [MState.poolQ]; exact p3'
        · change _ + poolQ' p3.1 - _ = _ + poolQ' st.pool - _ - _
          grind

end Cgt

namespace Cgt

def sellsOk (ss : List Trade) : Prop := ∀ s ∈ ss, 0 ≤ s.q

def soldQty (ss : List Trade) : Rat := rsum (ss.map (·.q))

theorem sellsStep_spec (t : String) (w : Int) (d : Day) (future : List Day) (hr : 0 < d.r)
    (hpos : ratiosPos future) (ss : List Trade) :
    ∀ (st : MState) (cl : List Rat) (st' : MState) (cl' : List Rat) (legs : List Leg),
      0 ≤ st.avail → 0 ≤ st.poolQ → sellsOk ss → claimsOk future cl →
      sellsStep t w d future st ss cl = .ok (st', cl', legs) →
      legQty legs = soldQty ss ∧ (∀ l ∈ legs, 0 ≤ l.qty ∧ l.sellDate = d.date) ∧
      st'.avail = st.avail - sdQty legs ∧ 0 ≤ st'.avail ∧ 0 ≤ st'.poolQ ∧ claimsOk future cl' ∧
      st'.avail + st'.poolQ - outK d.r future cl'
        = st.avail + st.poolQ - outK d.r future cl - soldQty ss := by
  induction ss with
  | nil =>
    intro st cl st' cl' legs ha hp _ hc h
    simp only [sellsStep, Except.ok.injEq, Prod.mk.injEq] at h
    obtain ⟨rfl, rfl, rfl⟩ := h
    simp [soldQty, sdQty]; grind
  | cons s ss ih =>
    intro st cl st' cl' legs ha hp hs hc h
    simp only [sellsStep] at h
    split at h
    · cases h
    · rename_i st1 cl1 legs1 h1
      have p1 := sellStep_spec t w d st s future cl st1 cl1 legs1 hr hpos ha hp (hs s (by simp)) hc h1
      split at h
      · cases h
      · rename_i st2 cl2 legs2 h2
        simp only [Except.ok.injEq, Prod.mk.injEq] at h
        obtain ⟨rfl, rfl, rfl⟩ := h
        have p2 := ih st1 cl1 st2 cl2 legs2 p1.avail_nonneg p1.pool_nonneg
          (fun x hx => hs x (by simp [hx])) p1.claims h2
        obtain ⟨q2, o2, a2, an2, pn2, c2, pos2⟩ := p2
        refine ⟨?_, ?_, ?_, an2, pn2, c2, ?_⟩
        · simp only [legQty_append, soldQty, List.map_cons, rsum_cons] at q2 ⊢
          rw [p1.qty, q2]
        · intro l hl
          simp only [List.mem_append] at hl
          rcases hl with hl | hl
          · exact p1.legs_ok l hl
          · exact o2 l hl
        · rw [sdQty_append, a2, p1.avail]; grind
        · simp only [soldQty, List.map_cons, rsum_cons] at pos2 ⊢
          rw [pos2, p1.position]; grind

end Cgt

namespace Cgt

/-- what the theorems need of one day: positive split factor, non-negative quantities -/
def Day.ok (d : Day) : Prop := 0 < d.r ∧ sellsOk d.sells ∧ 0 ≤ d.B

def daysOk : List Day → Prop
  | [] => True
  | d :: ds => d.ok ∧ daysOk ds

theorem daysOk_ratiosPos : ∀ ds, daysOk ds → ratiosPos ds
  | [], _ => trivial
  | _ :: ds, h => ⟨h.1.1, daysOk_ratiosPos ds h.2⟩

theorem Day.S_eq (d : Day) : d.S = soldQty d.sells := rfl

theorem legQty_nonneg (ls : List Leg) (h : ∀ l ∈ ls, 0 ≤ l.qty) : 0 ≤ legQty ls := by
  induction ls with
  | nil => simp
  | cons l ls ih =>
    have h1 := h l (by simp)
    have h2 := ih (fun x hx => h x (by simp [hx]))
    simp only [legQty_cons]; grind

theorem sdQty_nonneg (ls : List Leg) (h : ∀ l ∈ ls, 0 ≤ l.qty) : 0 ≤ sdQty ls := by
  unfold sdQty
  apply legQty_nonneg
  intro l hl
  exact h l (List.mem_filter.mp hl).1

theorem poolAfter_q (d : Day) (st : MState) (ha : 0 ≤ st.avail) (hn : d.buy = none → st.avail = 0) :
    poolQ' (poolAfter d st) = (poolQ' st.pool + st.avail) * d.r := by
  unfold poolAfter
  cases hb : d.buy with
  | none =>
    have h0 : st.avail = 0 := hn hb
    cases hp2 : st.pool with
    | none => (simp [poolQ', h0]; try grind)
    | some p => (simp [poolQ', h0]; try grind)
  | some b =>
    by_cases hav : st.avail > 0
    · cases hp2 : st.pool with
      | none => (simp [poolQ', hav]; try grind)
      | some p => (simp [poolQ', hav]; try grind)
    · have h0 : st.avail = 0 := by grind
      cases hp2 : st.pool with
      | none => (simp [poolQ', h0]; try grind)
      | some p => (simp [poolQ', h0]; try grind)

theorem dayStep_spec (t : String) (w : Int) (pool : Option Pool) (d : Day) (claimed : Rat)
    (future : List Day) (cl : List Rat) (pool' : Option Pool) (cl' : List Rat) (legs : List Leg)
    (hd : d.ok) (hpos : ratiosPos future) (hp : 0 ≤ poolQ' pool)
    (hc0 : 0 ≤ claimed) (hc1 : claimed + min d.B (max d.S 0) ≤ d.B) (hc : claimsOk future cl)
    (h : dayStep t w pool d claimed future cl = .ok (pool', cl', legs)) :
    legQty legs = d.S ∧ (∀ l ∈ legs, 0 ≤ l.qty ∧ l.sellDate = d.date) ∧
    sdQty legs + claimed ≤ d.B ∧ 0 ≤ poolQ' pool' ∧ claimsOk future cl' ∧
    poolQ' pool' - outK 1 future cl'
      = (poolQ' pool - claimed - outK d.r future cl + d.B - d.S) * d.r := by
  obtain ⟨hr, hss, hB⟩ := hd
  have hr0 : d.r ≠ 0 := by grind
  unfold dayStep at h
  -- the BUY stage
  have havail : ∃ a0 : Rat, a0 = d.B - claimed ∧ 0 ≤ a0 ∧ buyStage t d claimed = .ok a0 := by
    unfold buyStage
    cases hb : d.buy with
    | none =>
      have : d.B = 0 := by simp [Day.B, hb]
      refine ⟨0, ?_, by grind, rfl⟩
      have : min d.B (max d.S 0) = 0 := by grind
      grind
    | some b =>
      have hBq : d.B = b.q := by simp [Day.B, hb]
      have : ¬ claimed > b.q := by grind
      refine ⟨b.q - claimed, by grind, by grind, ?_⟩
      simp [this]
  obtain ⟨a0, ha0, ha0n, hstage⟩ := havail
  rw [hstage] at h
  simp only at h
  split at h
  · cases h
  · rename_i st cl1 legs1 hsells
    have sp := sellsStep_spec t w d future hr hpos d.sells ⟨pool, a0⟩ cl st cl1 legs1
      ha0n hp hss hc hsells
    obtain ⟨q1, o1, a1, an1, pn1, c1, pos1⟩ := sp
    simp only [Except.ok.injEq, Prod.mk.injEq] at h
    obtain ⟨hpool, rfl, rfl⟩ := h
    have hscale := outK_scale future d.r cl1 hr0 hpos
    simp only at a1 pos1
    have hpq : st.poolQ = poolQ' st.pool := rfl
    have hpq0 : (⟨pool, a0⟩ : MState).poolQ = poolQ' pool := rfl
    rw [hpq0] at pos1
    -- the pool after pooling the rest of the BUY and applying the day's split factor
    have hfinal : poolQ' pool' = (poolQ' st.pool + st.avail) * d.r := by
      rw [← hpool]
      apply poolAfter_q d st an1
      intro hb
      have hB0 : d.B = 0 := by simp [Day.B, hb]
      have := sdQty_nonneg legs1 (fun l hl => (o1 l hl).1)
      grind
    refine ⟨by rw [q1]; rfl, o1, by grind, ?_, c1, ?_⟩
    · rw [hfinal]
      have : 0 ≤ poolQ' st.pool + st.avail := by rw [← hpq]; grind
      exact Rat.mul_nonneg this (Rat.le_of_lt hr)
    · rw [hfinal, Day.S_eq]
      have e1 : outK 1 future cl1 = outK d.r future cl1 * d.r := by
        rw [hscale]; grind
      rw [e1]
      have : st.avail + poolQ' st.pool - outK d.r future cl1
           = a0 + poolQ' pool - outK d.r future cl - soldQty d.sells := by rw [← hpq]; exact pos1
      grind

end Cgt

namespace Cgt

/-- net position after the days `ds`, starting from `p`: each day adds its purchase, removes its
    sales, then applies its split factor -/
def netPos : Rat → List Day → Rat
  | p, [] => p
  | p, d :: ds => netPos ((p + d.B - d.S) * d.r) ds

/-- the leg list is the concatenation of one block per day; each block is dated that day, adds up to
    the quantity sold that day, and its Same-Day part fits into the day's purchase -/
inductive DayLegs : List Day → List Leg → Prop
  | nil : DayLegs [] []
  | cons (d : Day) (ds : List Day) (ls rest : List Leg) :
      (∀ l ∈ ls, 0 ≤ l.qty ∧ l.sellDate = d.date) → legQty ls = d.S → sdQty ls ≤ d.B →
      DayLegs ds rest → DayLegs (d :: ds) (ls ++ rest)

theorem runDays_spec (t : String) (w : Int) (ds : List Day) :
    ∀ (pool : Option Pool) (cl : List Rat) (pool' : Option Pool) (legs : List Leg),
      daysOk ds → 0 ≤ poolQ' pool → claimsOk ds cl →
      runDays t w pool ds cl = .ok (pool', legs) →
      poolQ' pool' = netPos (poolQ' pool - outK 1 ds cl) ds ∧ 0 ≤ poolQ' pool' ∧ DayLegs ds legs := by
  induction ds with
  | nil =>
    intro pool cl pool' legs _ hp _ h
    simp only [runDays, Except.ok.injEq, Prod.mk.injEq] at h
    obtain ⟨rfl, rfl⟩ := h
    refine ⟨by simp [netPos, outK]; grind, hp, DayLegs.nil⟩
  | cons d ds ih =>
    intro pool cl pool' legs hok hp hc h
    obtain ⟨hd, hds⟩ := hok
    obtain ⟨hc0, hc1, hcr⟩ := hc
    simp only [runDays] at h
    split at h
    · cases h
    · rename_i pool1 cl1 legs1 hday
      have sp := dayStep_spec t w pool d (cl.headD 0) ds cl.tail pool1 cl1 legs1 hd
        (daysOk_ratiosPos ds hds) hp hc0 hc1 hcr hday
      obtain ⟨q1, o1, b1, pn1, c1, pos1⟩ := sp
      split at h
      · cases h
      · rename_i pool2 legs2 hrest
        simp only [Except.ok.injEq, Prod.mk.injEq] at h
        obtain ⟨rfl, rfl⟩ := h
        have r := ih pool1 cl1 pool2 legs2 hds pn1 c1 hrest
        obtain ⟨r1, r2, r3⟩ := r
        refine ⟨?_, r2, ?_⟩
        · rw [r1, pos1]
          simp only [netPos, outK]
          have : (1 : Rat) * d.r = d.r := by grind
          rw [this]
          congr 1
          grind
        · exact DayLegs.cons d ds legs1 legs2 o1 q1 (by grind) r3

theorem claimsOk_nil : ∀ ds, daysOk ds → claimsOk ds []
  | [], _ => trivial
  | d :: ds, h => by
    refine ⟨by simp, ?_, claimsOk_nil ds h.2⟩
    have := h.1.2.2
    simp only [List.headD_nil]
    grind

theorem outK_nil : ∀ (k : Rat) ds, outK k ds [] = 0
  | _, [] => rfl
  | k, d :: ds => by
    simp only [outK, List.headD_nil, List.tail_nil]
    rw [outK_nil (k * d.r) ds]; grind

end Cgt
