import CgtModel.Lemmas.Conserve
/-! Acceptance: the main pass succeeds exactly when every sale is covered by the net position. -/
namespace Cgt

theorem outK_nonneg (fs : List Day) : ∀ (k : Rat) (cl : List Rat), 0 < k → ratiosPos fs → claimsOk fs cl →
    0 ≤ outK k fs cl := by
  induction fs with
  | nil => intro k cl _ _ _; simp [outK]
  | cons e rest ih =>
    intro k cl hk hp hc
    obtain ⟨her, hrest⟩ := hp
    obtain ⟨h0, _, hcr⟩ := hc
    have := ih (k * e.r) cl.tail (Rat.mul_pos hk her) hrest hcr
    simp only [outK]
    have hdiv : 0 ≤ cl.headD 0 / k := by
      rw [Rat.div_def]; exact Rat.mul_nonneg h0 (Rat.le_of_lt (Rat.inv_pos.mpr hk))
    grind

theorem poolPart_full (d : Day) (pool : Option Pool) (rem : Rat) (s : Trade)
    (hr : 0 ≤ rem) (hle : rem ≤ poolQ' pool) (hs : 0 < s.q) : (poolPart d pool rem s).2.1 = 0 := by
  unfold poolPart
  by_cases h : rem > 0
  · simp only [h, if_true]
    cases pool with
    | none => simp [poolQ'] at hle; grind
    | some p =>
      simp only [poolQ'] at hle
      have h2 : ¬ (p.q = 0 ∨ s.q = 0) := by grind
      simp only [h2, if_false]
      have h3 : ¬ min rem p.q = 0 := by grind
      simp only [h3, if_false]
      grind
  · simp only [h, if_false]; grind

/-- the holding check is the whole story: a SELL that passes it is fully matched -/
theorem sellStep_ok_of_covered (t : String) (w : Int) (d : Day) (st : MState) (s : Trade)
    (future : List Day) (cl : List Rat)
    (hr : 0 < d.r) (hpos : ratiosPos future) (ha : 0 ≤ st.avail) (hp : 0 ≤ st.poolQ)
    (hs : 0 ≤ s.q) (hc : claimsOk future cl) (hnb : d.buy = none → st.avail = 0)
    (hcov : s.q ≤ st.avail + st.poolQ - outK d.r future cl) :
    ∃ r, sellStep t w d st s future cl = .ok r := by
  unfold sellStep
  have hnot : ¬ s.q > st.avail + st.poolQ - outK d.r future cl := by grind
  simp only [hnot, if_false]
  have hout := outK_nonneg future d.r cl hr hpos hc
  have hsd := sameDayPart_spec d st.avail s ha hs
  -- the Same-Day part is min(sold, available) when there is a purchase, else nothing is available
  have hsd1 : s.q - (sameDayPart d st.avail s).1 ≤ st.poolQ := by
    unfold sameDayPart
    cases hb : d.buy with
    | none => have := hnb hb; simp; grind
    | some b =>
      simp only
      split
      · simp only; grind
      · rename_i h; simp only
        by_cases h1 : st.avail > 0
        · have : s.q = 0 := by grind
          grind
        · grind
  generalize sameDayPart d st.avail s = sd at hsd hsd1
  obtain ⟨_, _, sd3, sd4, sd5, _⟩ := hsd
  by_cases hq : s.q = 0
  · simp only [hq, if_true]
    have : sd.1 = 0 := by grind
    have hp0 : (poolPart d st.pool (0 - sd.1) s).2.1 = 0 - sd.1 := by
      unfold poolPart
      have : ¬ (0 - sd.1 > 0) := by grind
      simp only [this, if_false]
    rw [hp0]
    have : ¬ (0 - sd.1 > 0) := by grind
    simp only [this, if_false]
    exact ⟨_, rfl⟩
  · simp only [hq, if_false]
    have hrem0 : 0 ≤ s.q - sd.1 := by grind
    have hla := lookahead_accounts w d.date s future (s.q - sd.1) d.r cl hr hpos hrem0
    generalize lookahead w d.date s (s.q - sd.1) d.r future cl = la at hla
    obtain ⟨_, _, l3, l4, _⟩ := hla
    have hfull := poolPart_full d st.pool la.2.2 s l3 (by rw [← poolQ_eq]; grind) (by grind)
    rw [hfull]
    have : ¬ ((0 : Rat) > 0) := by grind
    simp only [this, if_false]
    exact ⟨_, rfl⟩

theorem sellStep_err_of_uncovered (t : String) (w : Int) (d : Day) (st : MState) (s : Trade)
    (future : List Day) (cl : List Rat) (h : s.q > st.avail + st.poolQ - outK d.r future cl) :
    sellStep t w d st s future cl = .error ⟨.exceedsHolding, t, d.ord, 1, 1, s.idx⟩ := by
  unfold sellStep; simp [h]

/-- position seen by the holding check -/
def posOf (d : Day) (st : MState) (future : List Day) (cl : List Rat) : Rat :=
  st.avail + st.poolQ - outK d.r future cl

/-- first SELL line of the day that the position does not cover -/
def firstUncovered : Rat → List Trade → Option Trade
  | _, [] => none
  | p, s :: ss => if s.q > p then some s else firstUncovered (p - s.q) ss

theorem sellStep_avail_none (t : String) (w : Int) (d : Day) (st : MState) (s : Trade)
    (future : List Day) (cl : List Rat) (st' : MState) (cl' : List Rat) (legs : List Leg)
    (hnb : d.buy = none → st.avail = 0)
    (h : sellStep t w d st s future cl = .ok (st', cl', legs)) : d.buy = none → st'.avail = 0 := by
  intro hb
  have hsd0 : (sameDayPart d st.avail s).1 = 0 := by unfold sameDayPart; simp [hb]
  unfold sellStep at h
  split at h
  · cases h
  · by_cases hq : s.q = 0
    all_goals (
      simp only [hq, if_true, if_false] at h
      split at h
      · split at h <;> cases h
      · simp only [Except.ok.injEq, Prod.mk.injEq] at h
        obtain ⟨rfl, _, _⟩ := h
        simp only
        rw [hsd0, hnb hb]; grind)

theorem sellsStep_iff (t : String) (w : Int) (d : Day) (future : List Day) (hr : 0 < d.r)
    (hpos : ratiosPos future) (ss : List Trade) :
    ∀ (st : MState) (cl : List Rat), 0 ≤ st.avail → 0 ≤ st.poolQ → sellsOk ss → claimsOk future cl →
      (d.buy = none → st.avail = 0) →
      (match firstUncovered (posOf d st future cl) ss with
       | none => ∃ r, sellsStep t w d future st ss cl = .ok r
       | some s => sellsStep t w d future st ss cl = .error ⟨.exceedsHolding, t, d.ord, 1, 1, s.idx⟩) := by
  induction ss with
  | nil => intro st cl _ _ _ _ _; simp [firstUncovered, sellsStep]
  | cons s ss ih =>
    intro st cl ha hp hs hc hnb
    simp only [firstUncovered]
    by_cases hcov : s.q > posOf d st future cl
    · simp only [hcov, if_true, sellsStep]
      rw [sellStep_err_of_uncovered t w d st s future cl hcov]
    · simp only [hcov, if_false]
      obtain ⟨⟨st1, cl1, legs1⟩, h1⟩ := sellStep_ok_of_covered t w d st s future cl hr hpos ha hp
        (hs s (by simp)) hc hnb (by unfold posOf at hcov; grind)
      have sp := sellStep_spec t w d st s future cl st1 cl1 legs1 hr hpos ha hp (hs s (by simp)) hc h1
      have hnb1 := sellStep_avail_none t w d st s future cl st1 cl1 legs1 hnb h1
      have hih := ih st1 cl1 sp.avail_nonneg sp.pool_nonneg (fun x hx => hs x (by simp [hx])) sp.claims hnb1
      have hposeq : posOf d st1 future cl1 = posOf d st future cl - s.q := by
        unfold posOf; exact sp.position
      rw [hposeq] at hih
      simp only [sellsStep, h1]
      split at hih
      · obtain ⟨⟨st2, cl2, legs2⟩, h2⟩ := hih
        rw [h2]; exact ⟨_, rfl⟩
      · rw [hih]

end Cgt

namespace Cgt

theorem firstUncovered_none (ss : List Trade) : ∀ p : Rat, 0 ≤ p → sellsOk ss →
    (firstUncovered p ss = none ↔ soldQty ss ≤ p) := by
  induction ss with
  | nil => intro p hp _; simp [firstUncovered, soldQty]; exact hp
  | cons s ss ih =>
    intro p hp0 hs
    have h0 := hs s (by simp)
    have hrest : sellsOk ss := fun x hx => hs x (by simp [hx])
    have hsum : 0 ≤ soldQty ss := by
      unfold soldQty
      clear ih
      induction ss with
      | nil => simp
      | cons a as ih2 =>
        have := hrest a (by simp)
        have := ih2 (fun x hx => hs x (by simp at hx ⊢; rcases hx with h | h <;> simp [h])) (fun x hx => hrest x (by simp [hx]))
        simp only [List.map_cons, rsum_cons]; grind
    simp only [firstUncovered, soldQty, List.map_cons, rsum_cons]
    by_cases h : s.q > p
    · simp only [h, if_true]
      constructor
      · intro hh; cases hh
      · intro hh; unfold soldQty at hsum; grind
    · simp only [h, if_false]
      rw [ih (p - s.q) (by grind) hrest]
      unfold soldQty
      constructor <;> intro hh <;> grind

theorem firstUncovered_some (ss : List Trade) : ∀ (p : Rat) (s : Trade),
    firstUncovered p ss = some s → s ∈ ss := by
  induction ss with
  | nil => intro p s h; simp [firstUncovered] at h
  | cons a as ih =>
    intro p s h
    simp only [firstUncovered] at h
    split at h
    · simp only [Option.some.injEq] at h; subst h; simp
    · have := ih _ _ h; simp [this]

/-- every sale is covered by the shares held: acquisitions up to and including the day, less disposals
    up to and including the day, each rescaled by the split factors in between, is never negative -/
def covered : Rat → List Day → Prop
  | _, [] => True
  | p, d :: ds => d.S ≤ p + d.B ∧ covered ((p + d.B - d.S) * d.r) ds

theorem dayStep_iff (t : String) (w : Int) (pool : Option Pool) (d : Day) (claimed : Rat)
    (future : List Day) (cl : List Rat)
    (hd : d.ok) (hpos : ratiosPos future) (hp : 0 ≤ poolQ' pool)
    (hc0 : 0 ≤ claimed) (hc1 : claimed + min d.B (max d.S 0) ≤ d.B) (hc : claimsOk future cl)
    (hp0 : 0 ≤ poolQ' pool - claimed - outK d.r future cl) :
    (d.S ≤ poolQ' pool - claimed - outK d.r future cl + d.B → ∃ r, dayStep t w pool d claimed future cl = .ok r) ∧
    (¬ d.S ≤ poolQ' pool - claimed - outK d.r future cl + d.B →
      ∃ idx, dayStep t w pool d claimed future cl = .error ⟨.exceedsHolding, t, d.ord, 1, 1, idx⟩) := by
  obtain ⟨hr, hss, hB⟩ := hd
  -- the BUY stage always succeeds under the claims invariant
  have havail : ∃ a0 : Rat, a0 = d.B - claimed ∧ 0 ≤ a0 ∧ buyStage t d claimed = .ok a0 ∧
      (d.buy = none → a0 = 0) := by
    unfold buyStage
    cases hb : d.buy with
    | none =>
      have hB0 : d.B = 0 := by simp [Day.B, hb]
      have : min d.B (max d.S 0) = 0 := by grind
      exact ⟨0, by grind, by grind, rfl, fun _ => rfl⟩
    | some b =>
      have hBq : d.B = b.q := by simp [Day.B, hb]
      have : ¬ claimed > b.q := by grind
      exact ⟨b.q - claimed, by grind, by grind, by simp [this], fun h => by cases h⟩
  obtain ⟨a0, ha0, ha0n, hstage, hnb⟩ := havail
  have hiff := sellsStep_iff t w d future hr hpos d.sells ⟨pool, a0⟩ cl ha0n hp hss hc hnb
  have hposeq : posOf d ⟨pool, a0⟩ future cl = poolQ' pool - claimed - outK d.r future cl + d.B := by
    unfold posOf; simp only [MState.poolQ]; change a0 + poolQ' pool - _ = _; grind
  rw [hposeq] at hiff
  unfold dayStep
  rw [hstage]
  simp only
  constructor
  · intro hcov
    have hnone := (firstUncovered_none d.sells (poolQ' pool - claimed - outK d.r future cl + d.B) (by grind) hss).mpr (by rw [← Day.S_eq]; exact hcov)
    rw [hnone] at hiff
    obtain ⟨⟨st, cl1, legs⟩, h⟩ := hiff
    rw [h]; exact ⟨_, rfl⟩
  · intro hcov
    cases hf : firstUncovered (poolQ' pool - claimed - outK d.r future cl + d.B) d.sells with
    | none =>
      have := (firstUncovered_none d.sells (poolQ' pool - claimed - outK d.r future cl + d.B) (by grind) hss).mp hf
      rw [← Day.S_eq] at this
      exact absurd this hcov
    | some s =>
      rw [hf] at hiff
      simp only at hiff
      rw [hiff]
      exact ⟨s.idx, rfl⟩

/-- **the main pass accepts a day list exactly when every sale is covered**; otherwise it fails
    with `exceedsHolding` for this security on one of its days -/
theorem runDays_iff (t : String) (w : Int) (ds : List Day) :
    ∀ (pool : Option Pool) (cl : List Rat), daysOk ds → 0 ≤ poolQ' pool → claimsOk ds cl →
      0 ≤ poolQ' pool - outK 1 ds cl →
      (covered (poolQ' pool - outK 1 ds cl) ds → ∃ r, runDays t w pool ds cl = .ok r) ∧
      (¬ covered (poolQ' pool - outK 1 ds cl) ds →
        ∃ e, runDays t w pool ds cl = .error e ∧ e.kind = .exceedsHolding ∧ e.ticker = t ∧
          ∃ d ∈ ds, e.ord = d.ord) := by
  induction ds with
  | nil =>
    intro pool cl _ _ _ _
    exact ⟨fun _ => ⟨_, rfl⟩, fun h => absurd trivial h⟩
  | cons d ds ih =>
    intro pool cl hok hp hc hp0
    obtain ⟨hd, hds⟩ := hok
    obtain ⟨hc0, hc1, hcr⟩ := hc
    have hrp := daysOk_ratiosPos ds hds
    have hr1 : (1 : Rat) * d.r = d.r := by grind
    have hp0' : 0 ≤ poolQ' pool - cl.headD 0 - outK d.r ds cl.tail := by
      simp only [outK, hr1] at hp0; grind
    have hday := dayStep_iff t w pool d (cl.headD 0) ds cl.tail hd hrp hp hc0 hc1 hcr hp0'
    have hstart : poolQ' pool - outK 1 (d :: ds) cl + d.B
        = poolQ' pool - cl.headD 0 - outK d.r ds cl.tail + d.B := by
      simp only [outK, hr1]; grind
    simp only [covered, runDays]
    constructor
    · intro ⟨hcov, hrest⟩
      have hcov' : d.S ≤ poolQ' pool - cl.headD 0 - outK d.r ds cl.tail + d.B := by rw [← hstart]; exact hcov
      obtain ⟨⟨pool1, cl1, legs1⟩, h1⟩ := hday.1 hcov'
      have sp := dayStep_spec t w pool d (cl.headD 0) ds cl.tail pool1 cl1 legs1 hd hrp hp hc0 hc1 hcr h1
      obtain ⟨_, _, _, pn1, c1, pos1⟩ := sp
      have heq : poolQ' pool1 - outK 1 ds cl1 = (poolQ' pool - outK 1 (d :: ds) cl + d.B - d.S) * d.r := by
        rw [pos1]; simp only [outK, hr1]; grind
      have hnn : 0 ≤ poolQ' pool1 - outK 1 ds cl1 := by
        rw [heq]; exact Rat.mul_nonneg (by grind) (Rat.le_of_lt hd.1)
      have hnext := (ih pool1 cl1 hds pn1 c1 hnn).1
      rw [heq] at hnext
      obtain ⟨⟨pool2, legs2⟩, h2⟩ := hnext hrest
      rw [h1]; simp only; rw [h2]; exact ⟨_, rfl⟩
    · intro hncov
      by_cases hcov : d.S ≤ poolQ' pool - outK 1 (d :: ds) cl + d.B
      · have hcov' : d.S ≤ poolQ' pool - cl.headD 0 - outK d.r ds cl.tail + d.B := by rw [← hstart]; exact hcov
        obtain ⟨⟨pool1, cl1, legs1⟩, h1⟩ := hday.1 hcov'
        have sp := dayStep_spec t w pool d (cl.headD 0) ds cl.tail pool1 cl1 legs1 hd hrp hp hc0 hc1 hcr h1
        obtain ⟨_, _, _, pn1, c1, pos1⟩ := sp
        have heq : poolQ' pool1 - outK 1 ds cl1 = (poolQ' pool - outK 1 (d :: ds) cl + d.B - d.S) * d.r := by
          rw [pos1]; simp only [outK, hr1]; grind
        have hnn : 0 ≤ poolQ' pool1 - outK 1 ds cl1 := by
          rw [heq]; exact Rat.mul_nonneg (by grind) (Rat.le_of_lt hd.1)
        have hnext := (ih pool1 cl1 hds pn1 c1 hnn).2
        rw [heq] at hnext
        have hrest : ¬ covered ((poolQ' pool - outK 1 (d :: ds) cl + d.B - d.S) * d.r) ds :=
          fun h => hncov ⟨hcov, h⟩
        obtain ⟨e, he, hk, ht, d', hd', hord⟩ := hnext hrest
        rw [h1]; simp only; rw [he]
        exact ⟨e, rfl, hk, ht, d', by simp [hd'], hord⟩
      · have hcov' : ¬ d.S ≤ poolQ' pool - cl.headD 0 - outK d.r ds cl.tail + d.B := by rw [← hstart]; exact hcov
        obtain ⟨idx, h1⟩ := hday.2 hcov'
        rw [h1]
        exact ⟨_, rfl, rfl, rfl, d, by simp, rfl⟩

end Cgt
