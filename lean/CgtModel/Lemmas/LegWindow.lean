import CgtModel.Matcher
/-! Every leg the main pass produces is dated by its disposal day; a Same-Day leg is identified with
    that day, a 30-day leg with a strictly later day at most `w` days on, a pool leg with no day. -/
namespace Cgt

def LegWin (w : Int) (d0 : Date) (l : Leg) : Prop :=
  l.sellDate = d0 ∧
  (l.rule = .sameDay → l.acq = some d0) ∧
  (l.rule = .section104 → l.acq = none) ∧
  (l.rule = .bedAndBreakfast → ∃ a, l.acq = some a ∧ d0.ord < a.ord ∧ a.ord - d0.ord ≤ w)

theorem lookahead_legwin (w : Int) (d0 : Date) (s : Trade) (fs : List Day) (hlater : ∀ e ∈ fs, d0.ord < e.ord) :
    ∀ (rem k : Rat) (cl : List Rat), ∀ l ∈ (lookahead w d0 s rem k fs cl).2.1, LegWin w d0 l := by
  induction fs with
  | nil => intro rem k cl l hl; simp [lookahead] at hl
  | cons e rest ih =>
    have ih' := ih (fun x hx => hlater x (by simp [hx]))
    intro rem k cl l hl
    simp only [lookahead] at hl
    split at hl
    · simp at hl
    · split at hl
      · simp at hl
      · rename_i hwin
        split at hl
        · exact ih' _ _ _ l hl
        · split at hl
          · exact ih' _ _ _ l hl
          · simp only [List.mem_cons] at hl
            rcases hl with rfl | hl
            · refine ⟨rfl, ?_, ?_, ?_⟩
              · intro h; simp [mkLeg] at h
              · intro h; simp [mkLeg] at h
              · intro _
                exact ⟨e.date, rfl, hlater e (by simp), by unfold Day.ord at hwin; omega⟩
            · exact ih' _ _ _ l hl

theorem sameDayPart_legwin (w : Int) (d : Day) (avail : Rat) (s : Trade) :
    ∀ l ∈ (sameDayPart d avail s).2, LegWin w d.date l := by
  intro l hl
  unfold sameDayPart at hl
  split at hl
  · split at hl
    · simp only [List.mem_singleton] at hl; subst hl
      exact ⟨rfl, fun _ => rfl, fun h => by simp [mkLeg] at h, fun h => by simp [mkLeg] at h⟩
    · simp at hl
  · simp at hl

theorem poolPart_legwin (w : Int) (d : Day) (pool : Option Pool) (rem : Rat) (s : Trade) :
    ∀ l ∈ (poolPart d pool rem s).2.2, LegWin w d.date l := by
  intro l hl
  unfold poolPart at hl
  split at hl
  · split at hl
    · split at hl
      · simp at hl
      · simp only at hl
        split at hl
        · simp at hl
        · simp only [List.mem_singleton] at hl; subst hl
          exact ⟨rfl, fun h => by simp [mkLeg] at h, fun _ => rfl, fun h => by simp [mkLeg] at h⟩
    · simp at hl
  · simp at hl

theorem sellStep_legwin (t : String) (w : Int) (d : Day) (st st' : MState) (s : Trade) (future : List Day)
    (cl cl' : List Rat) (legs : List Leg) (hlater : ∀ e ∈ future, d.ord < e.ord)
    (h : sellStep t w d st s future cl = .ok (st', cl', legs)) : ∀ l ∈ legs, LegWin w d.date l := by
  unfold sellStep at h
  split at h
  · cases h
  · simp only at h
    generalize hla : (if s.q = 0 then (cl, ([] : List Leg), s.q - (sameDayPart d st.avail s).1)
      else lookahead w d.date s (s.q - (sameDayPart d st.avail s).1) d.r future cl) = la at h
    have hlegs : ∀ l ∈ la.2.1, LegWin w d.date l := by
      intro l hl
      rw [← hla] at hl
      split at hl
      · simp at hl
      · exact lookahead_legwin w d.date s future hlater _ _ _ l hl
    split at h
    · split at h <;> cases h
    · simp only [Except.ok.injEq, Prod.mk.injEq] at h
      obtain ⟨_, _, rfl⟩ := h
      intro l hl
      simp only [List.mem_append] at hl
      rcases hl with (hl | hl) | hl
      · exact sameDayPart_legwin w d st.avail s l hl
      · exact hlegs l hl
      · exact poolPart_legwin w d _ _ s l hl

theorem sellsStep_legwin (t : String) (w : Int) (d : Day) (future : List Day) (hlater : ∀ e ∈ future, d.ord < e.ord) :
    ∀ (ss : List Trade) (st st' : MState) (cl cl' : List Rat) (legs : List Leg),
      sellsStep t w d future st ss cl = .ok (st', cl', legs) → ∀ l ∈ legs, LegWin w d.date l := by
  intro ss
  induction ss with
  | nil => intro st st' cl cl' legs h; simp only [sellsStep, Except.ok.injEq, Prod.mk.injEq] at h; obtain ⟨_, _, rfl⟩ := h; simp
  | cons s ss ih =>
    intro st st' cl cl' legs h
    simp only [sellsStep] at h
    split at h
    · cases h
    · rename_i st1 cl1 legs1 h1
      split at h
      · cases h
      · rename_i st2 cl2 legs2 h2
        simp only [Except.ok.injEq, Prod.mk.injEq] at h
        obtain ⟨_, _, rfl⟩ := h
        intro l hl
        simp only [List.mem_append] at hl
        rcases hl with hl | hl
        · exact sellStep_legwin t w d st st1 s future cl cl1 legs1 hlater h1 l hl
        · exact ih st1 st2 cl1 cl2 legs2 h2 l hl

/-- **every leg of one security's run**: dated by a day of the list, identified according to its rule -/
theorem runDays_legwin (t : String) (w : Int) : ∀ (ds : List Day), ds.Pairwise (fun a b => a.ord < b.ord) →
    ∀ (pool pool' : Option Pool) (cl : List Rat) (legs : List Leg),
      runDays t w pool ds cl = .ok (pool', legs) → ∀ l ∈ legs, ∃ d ∈ ds, LegWin w d.date l := by
  intro ds
  induction ds with
  | nil => intro _ pool pool' cl legs h; simp only [runDays, Except.ok.injEq, Prod.mk.injEq] at h; obtain ⟨_, rfl⟩ := h; simp
  | cons d ds ih =>
    intro hs pool pool' cl legs h
    rw [List.pairwise_cons] at hs
    simp only [runDays] at h
    split at h
    · cases h
    · rename_i pool1 cl1 legs1 h1
      split at h
      · cases h
      · rename_i pool2 legs2 h2
        simp only [Except.ok.injEq, Prod.mk.injEq] at h
        obtain ⟨_, rfl⟩ := h
        intro l hl
        simp only [List.mem_append] at hl
        rcases hl with hl | hl
        · unfold dayStep at h1
          split at h1
          · cases h1
          · split at h1
            · cases h1
            · rename_i st cl' legs' hss
              simp only [Except.ok.injEq, Prod.mk.injEq] at h1
              obtain ⟨_, _, rfl⟩ := h1
              exact ⟨d, by simp, sellsStep_legwin t w d ds hs.1 d.sells _ st _ cl' legs' hss l hl⟩
        · obtain ⟨e, he, hw⟩ := ih hs.2 pool1 pool2 cl1 legs2 h2 l hl
          exact ⟨e, by simp [he], hw⟩

end Cgt
