import CgtModel.Dsl
/-! Token-level lemmas for `parseLine (writeTx t)`: what each reader step does on the writer's output. -/
namespace Cgt.Dsl

/-- what the writer puts after a token: nothing, or a blank -/
def endOrSp (rest : List Char) : Prop := rest = [] ∨ ∃ r, rest = ' ' :: r

theorem spanP_app (p : Char → Bool) (ds rest : List Char) (h : ∀ c ∈ ds, p c = true)
    (hr : ∀ c r, rest = c :: r → p c = false) : spanP p (ds ++ rest) = (ds, rest) := by
  induction ds with
  | nil =>
    cases rest with
    | nil => rfl
    | cons c r => simp [spanP, hr c r rfl]
  | cons d ds ih =>
    have hd := h d (by simp)
    have := ih (fun c hc => h c (by simp [hc]))
    simp [spanP, hd, this]

theorem skipWs_nonws (c : Char) (r : List Char) (h : isWs c = false) : skipWs (c :: r) = c :: r := by
  simp [skipWs, h]

theorem skipWC_nil : skipWC [] = [] := rfl

theorem skipWC_nonws (c : Char) (r : List Char) (h : isWs c = false) (hh : c ≠ '#') : skipWC (c :: r) = c :: r := by
  unfold skipWC
  rw [skipWs_nonws c r h]
  split
  · rename_i heq; injection heq with h1 _; exact absurd h1 hh
  · rfl

theorem skipWC_sp (c : Char) (r : List Char) (h : isWs c = false) (hh : c ≠ '#') : skipWC (' ' :: c :: r) = c :: r := by
  unfold skipWC
  have : skipWs (' ' :: c :: r) = c :: r := by
    simp only [skipWs]
    have : isWs ' ' = true := by decide
    simp [this, h]
  rw [this]
  split
  · rename_i heq; injection heq with h1 _; exact absurd h1 hh
  · rfl

theorem matchKw_self : ∀ (k r : List Char), (∀ c ∈ k, upper c = c) → matchKw k (k ++ r) = some r := by
  intro k
  induction k with
  | nil => intro r _; cases r <;> rfl
  | cons c cs ih =>
    intro r h
    have hc := h c (by simp)
    simp only [List.cons_append, matchKw, hc, if_true]
    exact ih r (fun x hx => h x (by simp [hx]))

theorem matchKw_nil (k : Char) (ks : List Char) : matchKw (k :: ks) [] = none := rfl

theorem matchKw_head_ne (k : Char) (ks : List Char) (c : Char) (cs : List Char) (h : upper c ≠ k) :
    matchKw (k :: ks) (c :: cs) = none := by simp [matchKw, h]

-- facts about the characters the writer emits
def tickerOk (s : List Char) : Prop := s ≠ [] ∧ ∀ c ∈ s, isAlnum c = true ∧ upper c = c

theorem alnum_not_ws (c : Char) (h : isAlnum c = true) : isWs c = false ∧ c ≠ '#' := by
  constructor
  · unfold isWs
    by_cases h1 : c = ' '
    · subst h1; revert h; decide
    · by_cases h2 : c = '\t'
      · subst h2; revert h; decide
      · simp [h1, h2]
  · intro e; subst e; revert h; decide

theorem sp_not_alnum : isAlnum ' ' = false := by decide

theorem pTicker_app (s r : List Char) (h : tickerOk s) :
    pTicker (s ++ ' ' :: r) = some (String.ofList s, ' ' :: r) := by
  unfold pTicker
  rw [spanP_app isAlnum s (' ' :: r) (fun c hc => (h.2 c hc).1)
    (by intro c r' e; injection e with e _; rw [← e]; exact sp_not_alnum)]
  have hne : s.isEmpty = false := by cases s with | nil => exact absurd rfl h.1 | cons _ _ => rfl
  simp only [hne, Bool.false_eq_true, if_false]
  have : ∀ (l : List Char), (∀ c ∈ l, upper c = c) → l.map upper = l := by
    intro l
    induction l with
    | nil => intro _; rfl
    | cons x xs ih => intro hl; simp [hl x (by simp), ih (fun c hc => hl c (by simp [hc]))]
  rw [this s (fun c hc => (h.2 c hc).2)]

def canon (d : DDec) : Prop :=
  d.ip ≠ [] ∧ (∀ c ∈ d.ip, isDigit c = true) ∧ (∀ c ∈ d.fp, isDigit c = true) ∧ stripZeros d.ip = d.ip

theorem pDecimal_app (d : DDec) (hc : canon d) (rest : List Char) (hrest : endOrSp rest) :
    pDecimal (showDec d ++ rest) = some (d, rest) := by
  obtain ⟨hne, hip, hfp, hstrip⟩ := hc
  have hnd : ∀ c r, rest = c :: r → isDigit c = false := by
    intro c r h
    rcases hrest with h0 | ⟨r', h1⟩
    · rw [h0] at h; cases h
    · rw [h1] at h; injection h with h _; rw [← h]; decide
  unfold showDec pDecimal
  by_cases hf : d.fp.isEmpty
  · have hfe : d.fp = [] := by simpa using hf
    simp only [hf, if_true]
    rw [spanP_app isDigit d.ip rest hip hnd]
    have : d.ip.isEmpty = false := by cases hd : d.ip <;> simp_all
    simp only [this, Bool.false_eq_true, if_false]
    rcases hrest with h0 | ⟨r', h1⟩
    · subst h0; simp [hstrip]; cases d; simp_all
    · subst h1; simp [hstrip]; cases d; simp_all
  · simp only [hf, Bool.false_eq_true, if_false]
    have e : d.ip ++ '.' :: d.fp ++ rest = d.ip ++ ('.' :: (d.fp ++ rest)) := by simp
    rw [e, spanP_app isDigit d.ip ('.' :: (d.fp ++ rest)) hip (by intro c r h; injection h with h _; rw [← h]; decide)]
    have : d.ip.isEmpty = false := by cases hd : d.ip <;> simp_all
    simp only [this, Bool.false_eq_true, if_false]
    rw [spanP_app isDigit d.fp rest hfp hnd]
    simp only [hf, Bool.false_eq_true, if_false, hstrip]

/-- a decimal literal starts with a digit -/
theorem showDec_head (d : DDec) (hc : canon d) : ∃ c r, showDec d = c :: r ∧ isDigit c = true := by
  obtain ⟨hne, hip, _, _⟩ := hc
  cases hd : d.ip with
  | nil => exact absurd hd hne
  | cons c r =>
    have hcd := hip c (by rw [hd]; simp)
    unfold showDec
    split
    · exact ⟨c, r, by rw [hd], hcd⟩
    · exact ⟨c, r ++ '.' :: d.fp, by rw [hd]; simp, hcd⟩

theorem digit_not_ws (c : Char) (h : isDigit c = true) : isWs c = false ∧ c ≠ '#' := by
  have : isAlnum c = true := by simp [isAlnum, h]
  exact alnum_not_ws c this

/-- three upper-case letters that are not one of the guard keywords -/
def curOk (a b c : Char) : Prop :=
  isAlpha a = true ∧ isAlpha b = true ∧ isAlpha c = true ∧ upper a = a ∧ upper b = b ∧ upper c = c ∧
  [a, b, c] ≠ "TAX".toList ∧ [a, b, c] ≠ "BUY".toList

theorem sp_upper : upper ' ' = ' ' := by decide

theorem guard_miss (a b c : Char) (h : curOk a b c) (rest : List Char) (hr : endOrSp rest) :
    guardHit (a :: b :: c :: rest) = false := by
  obtain ⟨_, _, _, ua, ub, uc, nTax, nBuy⟩ := h
  have hci : dslGuardCaseInsensitive = true := by decide
  have hk : kwBlock = ["TAX".toList, "BUY".toList, "FEES".toList, "TOTAL".toList, "RATIO".toList, "SELL".toList] := by decide
  unfold guardHit
  rw [hk]
  simp only [hci, if_true, List.any_cons, List.any_nil, Bool.or_false, Bool.or_eq_false_iff]
  have three : ∀ (x y z : Char), [a, b, c] ≠ [x, y, z] → (matchKw [x, y, z] (a :: b :: c :: rest)).isSome = false := by
    intro x y z hne
    simp only [matchKw, ua, ub, uc]
    by_cases h1 : a = x
    · by_cases h2 : b = y
      · by_cases h3 : c = z
        · exact absurd (by rw [h1, h2, h3]) hne
        · simp [h1, h2, h3]
      · simp [h1, h2]
    · simp [h1]
  have four : ∀ (x y z w : Char) (ks : List Char), w ≠ ' ' → (matchKw (x :: y :: z :: w :: ks) (a :: b :: c :: rest)).isSome = false := by
    intro x y z w ks hw
    simp only [matchKw]
    split
    · split
      · split
        · rcases hr with h0 | ⟨r, h1⟩
          · subst h0; rfl
          · subst h1
            simp only [matchKw, sp_upper]
            have : ¬ (' ' = w) := fun e => hw e.symm
            simp [this]
        · rfl
      · rfl
    · rfl
  refine ⟨three 'T' 'A' 'X' nTax, three 'B' 'U' 'Y' nBuy, ?_, ?_, ?_, ?_⟩
  · exact four 'F' 'E' 'E' 'S' [] (by decide)
  · exact four 'T' 'O' 'T' 'A' ['L'] (by decide)
  · exact four 'R' 'A' 'T' 'I' ['O'] (by decide)
  · exact four 'S' 'E' 'L' 'L' [] (by decide)

theorem sp_not_alnum_dash : (isAlnum ' ' || ' ' = '-') = false := by decide

theorem pCurrency_app (a b c : Char) (h : curOk a b c) (rest : List Char) (hr : endOrSp rest) :
    pCurrency (a :: b :: c :: rest) = some (String.ofList [a, b, c], rest) := by
  unfold pCurrency
  rw [guard_miss a b c h rest hr]
  obtain ⟨ha, hb, hc, ua, ub, uc, _, _⟩ := h
  simp only [Bool.false_eq_true, if_false, ha, hb, hc, Bool.and_self, if_true, ua, ub, uc]
  rcases hr with h0 | ⟨r, h1⟩
  · subst h0; rfl
  · subst h1
    have : isAlnum ' ' = false := by decide
    simp [this]


def amtOk (a : DAmt) : Prop := canon a.d ∧ ∃ x y z, a.cur = String.ofList [x, y, z] ∧ curOk x y z

/-- what reading back gives for an optional amount: a zero amount is not written, so it comes back as
    the default `0 GBP` (only its currency label can be lost) -/
def normAmt (a : DAmt) : DAmt := if isZeroDec a.d then zeroGbp else a

theorem alpha_not_ws (c : Char) (h : isAlpha c = true) : isWs c = false ∧ c ≠ '#' :=
  alnum_not_ws c (by simp [isAlnum, h])

theorem pMoney_app (a : DAmt) (h : amtOk a) (rest : List Char) (hr : endOrSp rest) :
    pMoney (showAmt a ++ rest) = some (a, rest) := by
  obtain ⟨hd, x, y, z, hcur, hc⟩ := h
  have hl : a.cur.toList = [x, y, z] := by rw [hcur, String.toList_ofList]
  unfold showAmt pMoney
  rw [hl]
  have e : showDec a.d ++ ' ' :: [x, y, z] ++ rest = showDec a.d ++ (' ' :: x :: y :: z :: rest) := by simp
  rw [e, pDecimal_app a.d hd _ (Or.inr ⟨_, rfl⟩)]
  simp only
  have hx := alpha_not_ws x hc.1
  rw [skipWC_sp x _ hx.1 hx.2, pCurrency_app x y z hc rest hr]
  simp only
  cases a with
  | mk d cur => simp only at hcur ⊢; rw [hcur]

theorem pClause_app (kw : List Char) (hkw : ∀ c ∈ kw, upper c = c) (a : DAmt) (h : amtOk a)
    (rest : List Char) (hr : endOrSp rest) :
    pClause kw (kw ++ ' ' :: (showAmt a ++ rest)) = some (a, rest) := by
  unfold pClause
  rw [matchKw_self kw _ hkw]
  simp only
  obtain ⟨c, r, hs, hc⟩ := showDec_head a.d h.1
  have hcd := digit_not_ws c hc
  have e : showAmt a ++ rest = c :: (r ++ ' ' :: a.cur.toList ++ rest) := by
    unfold showAmt; rw [hs]; simp
  have : skipWC (' ' :: (showAmt a ++ rest)) = showAmt a ++ rest := by
    rw [e]; exact skipWC_sp c _ hcd.1 hcd.2
  rw [this]
  exact pMoney_app a h rest hr

theorem pClause_nil (k : Char) (ks : List Char) : pClause (k :: ks) [] = none := rfl

/-- the optional clause as the writer prints it (or omits it), read back -/
theorem pOptClause_written (kwS : String) (k0 : Char) (ks : List Char) (hk : kwS.toList = k0 :: ks)
    (hup : ∀ c ∈ k0 :: ks, upper c = c) (hk0 : isWs k0 = false ∧ k0 ≠ '#') (a : DAmt) (h : amtOk a) :
    pOptClause (k0 :: ks) (optClause kwS a) = (normAmt a, []) := by
  unfold optClause normAmt
  by_cases hz : isZeroDec a.d = true
  · simp only [hz, if_true]
    unfold pOptClause
    rw [skipWC_nil, pClause_nil]
  · simp only [hz, Bool.false_eq_true, if_false]
    have e : (" " ++ kwS ++ " ").toList ++ showAmt a = ' ' :: ((k0 :: ks) ++ ' ' :: (showAmt a ++ [])) := by
      simp only [String.toList_append, hk]
      have : " ".toList = [' '] := by decide
      rw [this]; simp
    rw [e]
    unfold pOptClause
    have hsk : skipWC (' ' :: ((k0 :: ks) ++ ' ' :: (showAmt a ++ []))) = (k0 :: ks) ++ ' ' :: (showAmt a ++ []) := by
      simp only [List.cons_append]
      exact skipWC_sp k0 _ hk0.1 hk0.2
    rw [hsk, pClause_app (k0 :: ks) hup a h [] (Or.inl rfl)]

theorem digit_facts (k : Nat) : isDigit (digitChar k) = true ∧ digitVal (digitChar k) = k % 10 := by
  have h : ∀ j, j < 10 → isDigit (Char.ofNat (48 + j)) = true ∧ digitVal (Char.ofNat (48 + j)) = j := by decide
  unfold digitChar
  exact h (k % 10) (Nat.mod_lt _ (by decide))

theorem pDate_app (y m d : Nat) (hy : y < 10000) (hm : m < 100) (hd : d < 100) (rest : List Char) :
    pDate (pad4 y ++ '-' :: pad2 m ++ '-' :: pad2 d ++ rest) = some ((y, m, d), rest) := by
  unfold pad4 pad2 pDate
  simp only [List.cons_append, List.nil_append, List.all_cons, List.all_nil,
    (digit_facts _).1, Bool.and_self, if_true, natOf, List.foldl_cons, List.foldl_nil, (digit_facts _).2]
  have e1 : (((0 * 10 + y / 1000 % 10) * 10 + y / 100 % 10) * 10 + y / 10 % 10) * 10 + y % 10 = y := by omega
  have e2 : (0 * 10 + m / 10 % 10) * 10 + m % 10 = m := by omega
  have e3 : (0 * 10 + d / 10 % 10) * 10 + d % 10 = d := by omega
  rw [e1, e2, e3]


theorem optClause_endOrSp (kw : String) (a : DAmt) : endOrSp (optClause kw a) := by
  unfold optClause
  split
  · exact Or.inl rfl
  · right
    have : " ".toList = [' '] := by decide
    simp only [String.toList_append, this]
    exact ⟨kw.toList ++ ' ' :: showAmt a, by simp⟩

theorem tickerOk_head (tk : List Char) (h : tickerOk tk) : ∃ c r, tk = c :: r ∧ isWs c = false ∧ c ≠ '#' := by
  cases tk with
  | nil => exact absurd rfl h.1
  | cons c r => exact ⟨c, r, rfl, alnum_not_ws c (h.2 c (by simp)).1⟩

theorem skipWC_sp_ticker (tk rest : List Char) (h : tickerOk tk) : skipWC (' ' :: (tk ++ rest)) = tk ++ rest := by
  obtain ⟨c, r, rfl, h1, h2⟩ := tickerOk_head tk h
  exact skipWC_sp c _ h1 h2

theorem skipWC_sp_dec (d : DDec) (hd : canon d) (rest : List Char) : skipWC (' ' :: (showDec d ++ rest)) = showDec d ++ rest := by
  obtain ⟨c, r, hs, hc⟩ := showDec_head d hd
  rw [hs]
  exact skipWC_sp c _ (digit_not_ws c hc).1 (digit_not_ws c hc).2

theorem fees_list : "FEES".toList = 'F' :: ['E', 'E', 'S'] := by decide
theorem tax_list : "TAX".toList = 'T' :: ['A', 'X'] := by decide
theorem total_list : "TOTAL".toList = ['T', 'O', 'T', 'A', 'L'] := by decide
theorem ratio_list : "RATIO".toList = ['R', 'A', 'T', 'I', 'O'] := by decide

/-- `BUY`/`SELL` tail as written, read back -/
theorem pTrade_app (kw : List Char) (hkw : ∀ c ∈ kw, upper c = c) (mk : DDec → DAmt → DAmt → DOp)
    (tk : List Char) (htk : tickerOk tk) (q : DDec) (p f : DAmt) (hq : canon q) (hp : amtOk p) (hf : amtOk f) :
    pTrade kw mk (kw ++ ' ' :: (tk ++ ' ' :: (showDec q ++ ' ' :: '@' :: ' ' :: (showAmt p ++ optClause "FEES" f))))
      = some (String.ofList tk, mk q p (normAmt f), []) := by
  unfold pTrade
  rw [matchKw_self kw _ hkw]
  simp only
  rw [skipWC_sp_ticker tk _ htk, pTicker_app tk _ htk]
  simp only
  rw [skipWC_sp_dec q hq, pDecimal_app q hq _ (Or.inr ⟨_, rfl⟩)]
  simp only
  have h1 : skipWC (' ' :: '@' :: ' ' :: (showAmt p ++ optClause "FEES" f)) = ['@'] ++ ' ' :: (showAmt p ++ optClause "FEES" f) :=
    skipWC_sp '@' _ (by decide) (by decide)
  rw [h1, pClause_app ['@'] (by decide) p hp _ (optClause_endOrSp "FEES" f)]
  simp only
  rw [fees_list, pOptClause_written "FEES" 'F' ['E', 'E', 'S'] fees_list (by decide) (by decide) f hf]

/-- `ACCUMULATION`/`CAPRETURN` tail -/
theorem pEvent_app (kw : List Char) (hkw : ∀ c ∈ kw, upper c = c) (optS : String) (k0 : Char) (ks : List Char)
    (hopt : optS.toList = k0 :: ks) (hup : ∀ c ∈ k0 :: ks, upper c = c) (hk0 : isWs k0 = false ∧ k0 ≠ '#')
    (mk : DDec → DAmt → DAmt → DOp)
    (tk : List Char) (htk : tickerOk tk) (q : DDec) (v x : DAmt) (hq : canon q) (hv : amtOk v) (hx : amtOk x) :
    pEvent kw (k0 :: ks) mk (kw ++ ' ' :: (tk ++ ' ' :: (showDec q ++ ' ' :: ("TOTAL".toList ++ ' ' :: (showAmt v ++ optClause optS x)))))
      = some (String.ofList tk, mk q v (normAmt x), []) := by
  unfold pEvent
  rw [matchKw_self kw _ hkw]
  simp only
  rw [skipWC_sp_ticker tk _ htk, pTicker_app tk _ htk]
  simp only
  rw [skipWC_sp_dec q hq, pDecimal_app q hq _ (Or.inr ⟨_, rfl⟩)]
  simp only
  have h1 : skipWC (' ' :: ("TOTAL".toList ++ ' ' :: (showAmt v ++ optClause optS x))) = "TOTAL".toList ++ ' ' :: (showAmt v ++ optClause optS x) := by
    rw [total_list]; exact skipWC_sp 'T' _ (by decide) (by decide)
  rw [h1, pClause_app "TOTAL".toList (by rw [total_list]; decide) v hv _ (optClause_endOrSp optS x)]
  simp only
  rw [pOptClause_written optS k0 ks hopt hup hk0 x hx]

theorem pDividend_app (tk : List Char) (htk : tickerOk tk) (v x : DAmt) (hv : amtOk v) (hx : amtOk x) :
    pDividend ("DIVIDEND".toList ++ ' ' :: (tk ++ ' ' :: ("TOTAL".toList ++ ' ' :: (showAmt v ++ optClause "TAX" x))))
      = some (String.ofList tk, .dividend v (normAmt x), []) := by
  unfold pDividend
  rw [matchKw_self "DIVIDEND".toList _ (by decide)]
  simp only
  rw [skipWC_sp_ticker tk _ htk, pTicker_app tk _ htk]
  simp only
  have h1 : skipWC (' ' :: ("TOTAL".toList ++ ' ' :: (showAmt v ++ optClause "TAX" x))) = "TOTAL".toList ++ ' ' :: (showAmt v ++ optClause "TAX" x) := by
    rw [total_list]; exact skipWC_sp 'T' _ (by decide) (by decide)
  rw [h1, pClause_app "TOTAL".toList (by rw [total_list]; decide) v hv _ (optClause_endOrSp "TAX" x)]
  simp only
  rw [tax_list, pOptClause_written "TAX" 'T' ['A', 'X'] tax_list (by decide) (by decide) x hx]

theorem pSplit_app (kw : List Char) (hkw : ∀ c ∈ kw, upper c = c) (mk : DDec → DOp)
    (tk : List Char) (htk : tickerOk tk) (r : DDec) (hr : canon r) :
    pSplit kw mk (kw ++ ' ' :: (tk ++ ' ' :: ("RATIO".toList ++ ' ' :: showDec r)))
      = some (String.ofList tk, mk r, []) := by
  unfold pSplit
  rw [matchKw_self kw _ hkw]
  simp only
  rw [skipWC_sp_ticker tk _ htk, pTicker_app tk _ htk]
  simp only
  have h1 : skipWC (' ' :: ("RATIO".toList ++ ' ' :: showDec r)) = "RATIO".toList ++ ' ' :: showDec r := by
    rw [ratio_list]; exact skipWC_sp 'R' _ (by decide) (by decide)
  rw [h1, matchKw_self "RATIO".toList _ (by rw [ratio_list]; decide)]
  simp only
  have h2 := skipWC_sp_dec r hr []
  simp only [List.append_nil] at h2
  rw [h2]
  have h3 := pDecimal_app r hr [] (Or.inl rfl)
  simp only [List.append_nil] at h3
  rw [h3]


-- ordered choice: the alternatives before the right one fail on the keyword

theorem pTrade_none (kw : List Char) (mk : DDec → DAmt → DAmt → DOp) (cs : List Char) (h : matchKw kw cs = none) :
    pTrade kw mk cs = none := by unfold pTrade; rw [h]
theorem pEvent_none (kw opt : List Char) (mk : DDec → DAmt → DAmt → DOp) (cs : List Char) (h : matchKw kw cs = none) :
    pEvent kw opt mk cs = none := by unfold pEvent; rw [h]
theorem pDividend_none (cs : List Char) (h : matchKw "DIVIDEND".toList cs = none) : pDividend cs = none := by
  unfold pDividend; rw [h]
theorem pSplit_none (kw : List Char) (mk : DDec → DOp) (cs : List Char) (h : matchKw kw cs = none) :
    pSplit kw mk cs = none := by unfold pSplit; rw [h]

def opOk : DOp → Prop
  | .buy q p f | .sell q p f => canon q ∧ amtOk p ∧ amtOk f
  | .dividend v x => amtOk v ∧ amtOk x
  | .accumulation q v x | .capreturn q v x => canon q ∧ amtOk v ∧ amtOk x
  | .split r | .unsplit r => canon r

/-- a transaction as the writer can receive it from the reader: four-digit year, two-digit month and
    day, upper-case alphanumeric ticker, canonical decimals, three-letter upper-case currency codes -/
def txOk (t : DTx) : Prop :=
  t.y < 10000 ∧ t.m < 100 ∧ t.d < 100 ∧ tickerOk t.ticker.toList ∧ opOk t.op

def normOp : DOp → DOp
  | .buy q p f => .buy q p (normAmt f)
  | .sell q p f => .sell q p (normAmt f)
  | .dividend v x => .dividend v (normAmt x)
  | .accumulation q v x => .accumulation q v (normAmt x)
  | .capreturn q v x => .capreturn q v (normAmt x)
  | .split r => .split r
  | .unsplit r => .unsplit r

def normTx (t : DTx) : DTx := { t with op := normOp t.op }

/-- the line as the writer produces it: date, blank, command text -/
def cmdText (t : DTx) : List Char :=
  let tk := t.ticker.toList
  match t.op with
  | .buy q p f => "BUY".toList ++ ' ' :: (tk ++ ' ' :: (showDec q ++ ' ' :: '@' :: ' ' :: (showAmt p ++ optClause "FEES" f)))
  | .sell q p f => "SELL".toList ++ ' ' :: (tk ++ ' ' :: (showDec q ++ ' ' :: '@' :: ' ' :: (showAmt p ++ optClause "FEES" f)))
  | .dividend v x => "DIVIDEND".toList ++ ' ' :: (tk ++ ' ' :: ("TOTAL".toList ++ ' ' :: (showAmt v ++ optClause "TAX" x)))
  | .accumulation q v x => "ACCUMULATION".toList ++ ' ' :: (tk ++ ' ' :: (showDec q ++ ' ' :: ("TOTAL".toList ++ ' ' :: (showAmt v ++ optClause "TAX" x))))
  | .capreturn q v f => "CAPRETURN".toList ++ ' ' :: (tk ++ ' ' :: (showDec q ++ ' ' :: ("TOTAL".toList ++ ' ' :: (showAmt v ++ optClause "FEES" f))))
  | .split r => "SPLIT".toList ++ ' ' :: (tk ++ ' ' :: ("RATIO".toList ++ ' ' :: showDec r))
  | .unsplit r => "UNSPLIT".toList ++ ' ' :: (tk ++ ' ' :: ("RATIO".toList ++ ' ' :: showDec r))

theorem sp1 : " ".toList = [' '] := by decide
theorem at3 : " @ ".toList = [' ', '@', ' '] := by decide

theorem writeTx_eq (t : DTx) : writeTx t = showDateD t ++ ' ' :: cmdText t := by
  unfold writeTx cmdText
  cases t.op <;> simp [at3, List.append_assoc]

theorem pCommand_cmdText (t : DTx) (htk : tickerOk t.ticker.toList) (hop : opOk t.op) :
    pCommand (cmdText t) = some (t.ticker, normOp t.op, []) := by
  have hs : String.ofList t.ticker.toList = t.ticker := String.ofList_toList
  unfold cmdText pCommand
  cases hop' : t.op with
  | buy q p f =>
    rw [hop'] at hop
    simp only
    rw [pTrade_app "BUY".toList (by decide) .buy _ htk q p f hop.1 hop.2.1 hop.2.2, hs]
    rfl
  | sell q p f =>
    rw [hop'] at hop
    simp only
    rw [pTrade_none "BUY".toList .buy _ (by rfl)]
    rw [pTrade_app "SELL".toList (by decide) .sell _ htk q p f hop.1 hop.2.1 hop.2.2, hs]
    rfl
  | dividend v x =>
    rw [hop'] at hop
    simp only
    rw [pTrade_none "BUY".toList .buy _ (by rfl), pTrade_none "SELL".toList .sell _ (by rfl)]
    rw [pDividend_app _ htk v x hop.1 hop.2, hs]
    rfl
  | accumulation q v x =>
    rw [hop'] at hop
    simp only
    rw [pTrade_none "BUY".toList .buy _ (by rfl), pTrade_none "SELL".toList .sell _ (by rfl), pDividend_none _ (by rfl)]
    rw [tax_list, pEvent_app "ACCUMULATION".toList (by decide) "TAX" 'T' ['A', 'X'] tax_list (by decide) (by decide) .accumulation _ htk q v x hop.1 hop.2.1 hop.2.2, hs]
    rfl
  | capreturn q v f =>
    rw [hop'] at hop
    simp only
    rw [pTrade_none "BUY".toList .buy _ (by rfl), pTrade_none "SELL".toList .sell _ (by rfl), pDividend_none _ (by rfl),
      pEvent_none "ACCUMULATION".toList _ .accumulation _ (by rfl)]
    rw [fees_list, pEvent_app "CAPRETURN".toList (by decide) "FEES" 'F' ['E', 'E', 'S'] fees_list (by decide) (by decide) .capreturn _ htk q v f hop.1 hop.2.1 hop.2.2, hs]
    rfl
  | split r =>
    rw [hop'] at hop
    simp only
    rw [pTrade_none "BUY".toList .buy _ (by rfl), pTrade_none "SELL".toList .sell _ (by rfl), pDividend_none _ (by rfl),
      pEvent_none "ACCUMULATION".toList _ .accumulation _ (by rfl), pEvent_none "CAPRETURN".toList _ .capreturn _ (by rfl)]
    rw [pSplit_app "SPLIT".toList (by decide) .split _ htk r hop, hs]
    rfl
  | unsplit r =>
    rw [hop'] at hop
    simp only
    rw [pTrade_none "BUY".toList .buy _ (by rfl), pTrade_none "SELL".toList .sell _ (by rfl), pDividend_none _ (by rfl),
      pEvent_none "ACCUMULATION".toList _ .accumulation _ (by rfl), pEvent_none "CAPRETURN".toList _ .capreturn _ (by rfl),
      pSplit_none "SPLIT".toList .split _ (by rfl)]
    rw [pSplit_app "UNSPLIT".toList (by decide) .unsplit _ htk r hop, hs]
    rfl


theorem cmdText_head (t : DTx) : ∃ c r, cmdText t = c :: r ∧ isWs c = false ∧ c ≠ '#' := by
  unfold cmdText
  cases t.op <;> simp only <;> exact ⟨_, _, rfl, by decide, by decide⟩

/-- **one line**: what the writer prints for a transaction is read back as that transaction (an
    unwritten zero fee/tax comes back as `0 GBP`) -/
theorem parseLine_writeTx (t : DTx) (h : txOk t) : parseLine (writeTx t) = .tx (normTx t) := by
  obtain ⟨hy, hm, hd, htk, hop⟩ := h
  rw [writeTx_eq]
  unfold parseLine showDateD
  have hhead : skipWC (pad4 t.y ++ '-' :: pad2 t.m ++ '-' :: pad2 t.d ++ ' ' :: cmdText t)
      = pad4 t.y ++ '-' :: pad2 t.m ++ '-' :: pad2 t.d ++ ' ' :: cmdText t := by
    unfold pad4
    simp only [List.cons_append]
    exact skipWC_nonws _ _ (digit_not_ws _ (digit_facts _).1).1 (digit_not_ws _ (digit_facts _).1).2
  rw [hhead]
  have hne : pad4 t.y ++ '-' :: pad2 t.m ++ '-' :: pad2 t.d ++ ' ' :: cmdText t ≠ [] := by
    unfold pad4; simp
  split
  · rename_i heq; exact absurd heq hne
  · rw [pDate_app t.y t.m t.d hy hm hd]
    simp only
    obtain ⟨c, r, hc, h1, h2⟩ := cmdText_head t
    have hsk : skipWC (' ' :: cmdText t) = cmdText t := by rw [hc]; exact skipWC_sp c r h1 h2
    rw [hsk, pCommand_cmdText t htk hop]
    simp only [skipWC_nil]
    rfl


-- whole files: the writer's lines contain no line break, so the reader sees them one by one

def lineChar (c : Char) : Prop := c ≠ '\n' ∧ c ≠ '\r'
instance : DecidablePred lineChar := fun c => inferInstanceAs (Decidable (c ≠ '\n' ∧ c ≠ '\r'))
def lineOk (l : List Char) : Prop := ∀ c ∈ l, lineChar c
instance (l : List Char) : Decidable (lineOk l) := inferInstanceAs (Decidable (∀ c ∈ l, lineChar c))

theorem lc_alnum (c : Char) (h : isAlnum c = true) : lineChar c := by
  constructor <;> (intro e; subst e; revert h; decide)
theorem lc_digit (c : Char) (h : isDigit c = true) : lineChar c := lc_alnum c (by simp [isAlnum, h])
theorem lc_alpha (c : Char) (h : isAlpha c = true) : lineChar c := lc_alnum c (by simp [isAlnum, h])

theorem lineOk_append (a b : List Char) (ha : lineOk a) (hb : lineOk b) : lineOk (a ++ b) := by
  intro c hc; simp only [List.mem_append] at hc; rcases hc with h | h; exact ha c h; exact hb c h
theorem lineOk_cons (c : Char) (l : List Char) (hc : lineChar c) (hl : lineOk l) : lineOk (c :: l) := by
  intro x hx; simp only [List.mem_cons] at hx; rcases hx with rfl | h; exact hc; exact hl x h
theorem lineOk_nil : lineOk [] := fun _ h => by simp at h

theorem lc_showDec (d : DDec) (h : canon d) : lineOk (showDec d) := by
  obtain ⟨_, hip, hfp, _⟩ := h
  unfold showDec
  split
  · exact fun c hc => lc_digit c (hip c hc)
  · exact lineOk_append _ _ (fun c hc => lc_digit c (hip c hc))
      (lineOk_cons _ _ (by constructor <;> decide) (fun c hc => lc_digit c (hfp c hc)))

theorem lc_showAmt (a : DAmt) (h : amtOk a) : lineOk (showAmt a) := by
  obtain ⟨hd, x, y, z, hcur, hc⟩ := h
  unfold showAmt
  rw [hcur, String.toList_ofList]
  refine lineOk_append _ _ (lc_showDec a.d hd) (lineOk_cons _ _ (by constructor <;> decide) ?_)
  exact lineOk_cons _ _ (lc_alpha x hc.1) (lineOk_cons _ _ (lc_alpha y hc.2.1) (lineOk_cons _ _ (lc_alpha z hc.2.2.1) lineOk_nil))

theorem lc_optClause (kw : String) (hk : lineOk kw.toList) (a : DAmt) (h : amtOk a) : lineOk (optClause kw a) := by
  unfold optClause
  split
  · exact lineOk_nil
  · simp only [String.toList_append, sp1]
    exact lineOk_append _ _ (lineOk_append _ _ (lineOk_cons _ _ (by constructor <;> decide) hk)
      (lineOk_cons _ _ (by constructor <;> decide) lineOk_nil)) (lc_showAmt a h)

theorem lc_sp : lineChar ' ' := by constructor <;> decide
theorem lc_at : lineChar '@' := by constructor <;> decide
theorem lc_dash : lineChar '-' := by constructor <;> decide

theorem lc_cmdText (t : DTx) (htk : tickerOk t.ticker.toList) (hop : opOk t.op) : lineOk (cmdText t) := by
  have hT : lineOk t.ticker.toList := fun c hc => lc_alnum c (htk.2 c hc).1
  have kBUY : lineOk "BUY".toList := by decide
  have kSELL : lineOk "SELL".toList := by decide
  have kDIV : lineOk "DIVIDEND".toList := by decide
  have kACC : lineOk "ACCUMULATION".toList := by decide
  have kCAP : lineOk "CAPRETURN".toList := by decide
  have kSPL : lineOk "SPLIT".toList := by decide
  have kUNS : lineOk "UNSPLIT".toList := by decide
  have kTOT : lineOk "TOTAL".toList := by decide
  have kRAT : lineOk "RATIO".toList := by decide
  have kFEES : lineOk "FEES".toList := by decide
  have kTAX : lineOk "TAX".toList := by decide
  unfold cmdText
  cases hop' : t.op with
  | buy q p f =>
    rw [hop'] at hop
    exact lineOk_append _ _ kBUY (lineOk_cons _ _ lc_sp (lineOk_append _ _ hT (lineOk_cons _ _ lc_sp
      (lineOk_append _ _ (lc_showDec q hop.1) (lineOk_cons _ _ lc_sp (lineOk_cons _ _ lc_at (lineOk_cons _ _ lc_sp
        (lineOk_append _ _ (lc_showAmt p hop.2.1) (lc_optClause "FEES" kFEES f hop.2.2)))))))))
  | sell q p f =>
    rw [hop'] at hop
    exact lineOk_append _ _ kSELL (lineOk_cons _ _ lc_sp (lineOk_append _ _ hT (lineOk_cons _ _ lc_sp
      (lineOk_append _ _ (lc_showDec q hop.1) (lineOk_cons _ _ lc_sp (lineOk_cons _ _ lc_at (lineOk_cons _ _ lc_sp
        (lineOk_append _ _ (lc_showAmt p hop.2.1) (lc_optClause "FEES" kFEES f hop.2.2)))))))))
  | dividend v x =>
    rw [hop'] at hop
    exact lineOk_append _ _ kDIV (lineOk_cons _ _ lc_sp (lineOk_append _ _ hT (lineOk_cons _ _ lc_sp
      (lineOk_append _ _ kTOT (lineOk_cons _ _ lc_sp (lineOk_append _ _ (lc_showAmt v hop.1) (lc_optClause "TAX" kTAX x hop.2)))))))
  | accumulation q v x =>
    rw [hop'] at hop
    exact lineOk_append _ _ kACC (lineOk_cons _ _ lc_sp (lineOk_append _ _ hT (lineOk_cons _ _ lc_sp
      (lineOk_append _ _ (lc_showDec q hop.1) (lineOk_cons _ _ lc_sp
        (lineOk_append _ _ kTOT (lineOk_cons _ _ lc_sp (lineOk_append _ _ (lc_showAmt v hop.2.1) (lc_optClause "TAX" kTAX x hop.2.2)))))))))
  | capreturn q v f =>
    rw [hop'] at hop
    exact lineOk_append _ _ kCAP (lineOk_cons _ _ lc_sp (lineOk_append _ _ hT (lineOk_cons _ _ lc_sp
      (lineOk_append _ _ (lc_showDec q hop.1) (lineOk_cons _ _ lc_sp
        (lineOk_append _ _ kTOT (lineOk_cons _ _ lc_sp (lineOk_append _ _ (lc_showAmt v hop.2.1) (lc_optClause "FEES" kFEES f hop.2.2)))))))))
  | split r =>
    rw [hop'] at hop
    exact lineOk_append _ _ kSPL (lineOk_cons _ _ lc_sp (lineOk_append _ _ hT (lineOk_cons _ _ lc_sp
      (lineOk_append _ _ kRAT (lineOk_cons _ _ lc_sp (lc_showDec r hop))))))
  | unsplit r =>
    rw [hop'] at hop
    exact lineOk_append _ _ kUNS (lineOk_cons _ _ lc_sp (lineOk_append _ _ hT (lineOk_cons _ _ lc_sp
      (lineOk_append _ _ kRAT (lineOk_cons _ _ lc_sp (lc_showDec r hop))))))

theorem lc_writeTx (t : DTx) (h : txOk t) : lineOk (writeTx t) := by
  rw [writeTx_eq]
  unfold showDateD pad4 pad2
  have dg : ∀ k, lineChar (digitChar k) := fun k => lc_digit _ (digit_facts k).1
  simp only [List.cons_append, List.nil_append]
  exact lineOk_cons _ _ (dg _) (lineOk_cons _ _ (dg _) (lineOk_cons _ _ (dg _) (lineOk_cons _ _ (dg _)
    (lineOk_cons _ _ lc_dash (lineOk_cons _ _ (dg _) (lineOk_cons _ _ (dg _) (lineOk_cons _ _ lc_dash
      (lineOk_cons _ _ (dg _) (lineOk_cons _ _ (dg _) (lineOk_cons _ _ lc_sp (lc_cmdText t h.2.2.2.1 h.2.2.2.2)))))))))))

theorem splitLines_line : ∀ (l : List Char), lineOk l → splitLines l = [l] := by
  intro l
  induction l with
  | nil => intro _; rfl
  | cons c cs ih =>
    intro h
    have hc := h c (by simp)
    have ih' := ih (fun x hx => h x (by simp [hx]))
    have h1 : c ≠ '\n' := hc.1
    have h2 : c ≠ '\r' := hc.2
    simp [splitLines, h1, h2, ih']

theorem splitLines_line_nl : ∀ (l rest : List Char), lineOk l → splitLines (l ++ '\n' :: rest) = l :: splitLines rest := by
  intro l
  induction l with
  | nil => intro rest _; simp [splitLines]
  | cons c cs ih =>
    intro rest h
    have hc := h c (by simp)
    have ih' := ih rest (fun x hx => h x (by simp [hx]))
    have h1 : c ≠ '\n' := hc.1
    have h2 : c ≠ '\r' := hc.2
    simp [splitLines, h1, h2, ih']

theorem splitLines_write : ∀ (ts : List DTx), ts ≠ [] → (∀ t ∈ ts, txOk t) →
    splitLines (write ts) = ts.map writeTx := by
  intro ts
  induction ts with
  | nil => intro h; exact absurd rfl h
  | cons t ts ih =>
    intro _ hall
    have ht := hall t (by simp)
    cases ts with
    | nil => simp only [write, List.map_cons, List.map_nil]; exact splitLines_line _ (lc_writeTx t ht)
    | cons u us =>
      simp only [write, List.map_cons]
      rw [splitLines_line_nl _ _ (lc_writeTx t ht)]
      have := ih (by simp) (fun x hx => hall x (by simp [hx]))
      simp only [List.map_cons] at this
      rw [this]

theorem firstSyntax_tx : ∀ (ts : List DTx) (n : Nat), firstSyntax n (ts.map (fun t => LineResult.tx t)) = none := by
  intro ts
  induction ts with
  | nil => intro n; rfl
  | cons t ts ih => intro n; simp only [List.map_cons, firstSyntax]; exact ih (n + 1)

theorem collect_tx (valid : List String) : ∀ (ts : List DTx) (n : Nat), (∀ t ∈ ts, ∀ k, semantic valid k t = none) →
    collect valid n (ts.map (fun t => LineResult.tx t)) = .ok ts := by
  intro ts
  induction ts with
  | nil => intro n _; rfl
  | cons t ts ih =>
    intro n h
    simp only [List.map_cons, collect, h t (by simp) n]
    rw [ih (n + 1) (fun x hx => h x (by simp [hx]))]

/-- **whole lists**: the text the writer produces for a list of well-formed transactions that pass
    the reader's semantic checks is parsed back as that list (unwritten zero fees/taxes as `0 GBP`) -/
theorem parse_write (valid : List String) (ts : List DTx) (hall : ∀ t ∈ ts, txOk t)
    (hsem : ∀ t ∈ ts, ∀ k, semantic valid k (normTx t) = none) :
    parse valid (write ts) = .ok (ts.map normTx) := by
  unfold parse
  cases ts with
  | nil => rfl
  | cons t ts =>
    simp only
    rw [splitLines_write (t :: ts) (by simp) hall, List.map_map]
    have : (parseLine ∘ writeTx) = fun t => parseLine (writeTx t) := rfl
    have hmap : List.map (parseLine ∘ writeTx) (t :: ts) = ((t :: ts).map normTx).map (fun t => LineResult.tx t) := by
      rw [List.map_map]
      apply List.map_congr_left
      intro x hx
      exact parseLine_writeTx x (hall x hx)
    rw [hmap, firstSyntax_tx]
    simp only
    apply collect_tx
    intro x hx k
    simp only [List.mem_map] at hx
    obtain ⟨y, hy, rfl⟩ := hx
    exact hsem y hy k

end Cgt.Dsl
