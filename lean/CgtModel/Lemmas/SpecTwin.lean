import CgtModel.Lemmas.SpecGauge
import CgtModel.Lemmas.SpecTable
/-! The post-split twin of a ledger, at the level of `Spec.table`: rewriting the lines of a security
    dated on or before a split day in post-split units and neutralising the split line is a change of
    gauge of the day table, so `identifyTbl_gauge` applies. -/
namespace Cgt.Spec
open Cgt

/-! ### the gauge written locally: each day's unit and the next day's -/

def nextUnit (γ : SDay → Rat) : List SDay → Rat
  | [] => 1
  | e :: _ => γ e

def regaugeBy (γ : SDay → Rat) : List SDay → List SDay
  | [] => []
  | d :: rest => { d with B := d.B * γ d, S := d.S * γ d, r := d.r * nextUnit γ rest / γ d } :: regaugeBy γ rest

/-- units by position, read off the table: day `i`'s unit, and 1 past the end -/
def unitsOf (γ : SDay → Rat) (T : List SDay) (i : Nat) : Rat :=
  match T[i]? with
  | some d => γ d
  | none => 1

theorem regauge_local (γ : SDay → Rat) (g : Nat → Rat) : ∀ (rest : List SDay) (i : Nat),
    (∀ j, g (i + j) = unitsOf γ rest j) → regauge g i rest = regaugeBy γ rest := by
  intro rest
  induction rest with
  | nil => intro i _; rfl
  | cons d rest ih =>
    intro i h
    have h0 : g i = γ d := by have := h 0; simpa [unitsOf] using this
    have h1 : g (i + 1) = nextUnit γ rest := by
      have := h 1
      simp only [unitsOf, List.getElem?_cons_succ] at this
      rw [this]
      cases rest <;> rfl
    simp only [regauge, regaugeBy, gaugeDay, h0, h1]
    congr 1
    apply ih (i + 1)
    intro j
    have := h (j + 1)
    simp only [unitsOf, List.getElem?_cons_succ] at this
    have e : i + 1 + j = i + (j + 1) := by omega
    rw [e, this]; rfl

theorem regaugeBy_eq (γ : SDay → Rat) (T : List SDay) : regaugeBy γ T = regauge (unitsOf γ T) 0 T :=
  (regauge_local γ (unitsOf γ T) T 0 (fun j => by simp)).symm

/-! ### the twin of a line and of a day -/

/-- the unit of a day in the twin: `ρ` up to and including the split day `D`, 1 after it -/
def unitAt (D : Int) (ρ : Rat) (d : SDay) : Rat := if d.date.ord ≤ D then ρ else 1

/-- a trade in post-split units -/
def twinOp (early : Bool) (ρ : Rat) : Op → Op
  | .buy q p f => if early then .buy (q * ρ) (p / ρ) f else .buy q p f
  | .sell q p f => if early then .sell (q * ρ) (p / ρ) f else .sell q p f
  | op => op

def twinTx (D : Int) (ρ : Rat) (x : Tx) : Tx := { x with op := twinOp (decide (x.date.ord ≤ D)) ρ x.op }

def scaleDay (early : Bool) (ρ : Rat) (d : SDay) : SDay := if early then { d with B := d.B * ρ, S := d.S * ρ } else d

def scaleAt (D : Int) (ρ : Rat) (d : SDay) : SDay := scaleDay (decide (d.date.ord ≤ D)) ρ d

theorem scaleDay_date (e : Bool) (ρ : Rat) (d : SDay) : (scaleDay e ρ d).date = d.date := by
  unfold scaleDay; split <;> rfl

theorem absorb_twin (early : Bool) (ρ : Rat) (hρ : ρ ≠ 0) (d : SDay) (op : Op) :
    (scaleDay early ρ d).absorb (twinOp early ρ op) = scaleDay early ρ (d.absorb op) := by
  have hinv : ρ * ρ⁻¹ = 1 := Rat.mul_inv_cancel _ hρ
  cases early with
  | false => cases op <;> simp [scaleDay, twinOp]
  | true =>
    cases op <;> simp only [scaleDay, twinOp, SDay.absorb, if_true]
    · apply SDay.ext' <;> simp only [Rat.div_def] <;> grind
    · apply SDay.ext' <;> simp only [Rat.div_def] <;> grind

theorem insert_twin (D : Int) (ρ : Rat) (hρ : ρ ≠ 0) (x : Tx) : ∀ (T : List SDay),
    insert (twinTx D ρ x) (T.map (scaleAt D ρ)) = (insert x T).map (scaleAt D ρ) := by
  have hfresh : (({ date := x.date } : SDay).absorb (twinOp (decide (x.date.ord ≤ D)) ρ x.op))
      = scaleAt D ρ (({ date := x.date } : SDay).absorb x.op) := by
    unfold scaleAt
    rw [absorb_date, ← absorb_twin _ ρ hρ]
    congr 1
    unfold scaleDay; split
    · apply SDay.ext' <;> simp [Rat.zero_mul]
    · rfl
  intro T
  induction T with
  | nil => simp only [List.map_nil, insert, List.map_cons, twinTx]; rw [hfresh]
  | cons d ds ih =>
    have hd : (scaleAt D ρ d).date = d.date := scaleDay_date _ _ _
    have hx : (twinTx D ρ x).date = x.date := rfl
    simp only [List.map_cons, insert, hd, hx]
    by_cases h1 : x.date.ord < d.date.ord
    · rw [if_pos h1, if_pos h1]; simp only [List.map_cons, twinTx]; rw [hfresh]
    · by_cases h2 : x.date.ord = d.date.ord
      · rw [if_neg h1, if_pos h2, if_neg h1, if_pos h2]
        simp only [List.map_cons]
        congr 1
        unfold scaleAt twinTx
        rw [absorb_date, h2]
        exact absorb_twin _ ρ hρ d x.op
      · rw [if_neg h1, if_neg h2, if_neg h1, if_neg h2]
        simp only [List.map_cons]
        rw [ih]

theorem insFold_twin (t : String) (D : Int) (ρ : Rat) (hρ : ρ ≠ 0) : ∀ (l : List Tx) (T : List SDay),
    insFold t (T.map (scaleAt D ρ)) (l.map (twinTx D ρ)) = (insFold t T l).map (scaleAt D ρ) := by
  intro l
  induction l with
  | nil => intro T; rfl
  | cons x xs ih =>
    intro T
    simp only [List.map_cons, insFold_cons]
    have ht : (twinTx D ρ x).ticker = x.ticker := rfl
    rw [ht]
    by_cases h : x.ticker = t
    · simp only [h, if_true]; rw [insert_twin D ρ hρ x T]; exact ih _
    · simp only [h, if_false]; exact ih _

theorem table_twin (t : String) (D : Int) (ρ : Rat) (hρ : ρ ≠ 0) (l : List Tx) :
    table t (l.map (twinTx D ρ)) = (table t l).map (scaleAt D ρ) := by
  rw [table_eq_insFold, table_eq_insFold]
  have := insFold_twin t D ρ hρ l []
  simpa using this

end Cgt.Spec

namespace Cgt.Spec
open Cgt

def SSorted (T : List SDay) : Prop := T.Pairwise (fun a b => a.date.ord < b.date.ord)

theorem insert_head_le (x : Tx) : ∀ (T : List SDay), ∃ h tl, insert x T = h :: tl ∧ h.date.ord ≤ x.date.ord := by
  intro T
  cases T with
  | nil => exact ⟨_, _, rfl, by simp [absorb_date]⟩
  | cons d ds =>
    simp only [insert]
    by_cases h1 : x.date.ord < d.date.ord
    · rw [if_pos h1]; exact ⟨_, _, rfl, by simp [absorb_date]⟩
    · by_cases h2 : x.date.ord = d.date.ord
      · rw [if_neg h1, if_pos h2]; exact ⟨_, _, rfl, by rw [absorb_date]; omega⟩
      · rw [if_neg h1, if_neg h2]; exact ⟨_, _, rfl, by omega⟩

theorem insert_mem_date (x : Tx) : ∀ (T : List SDay), ∀ e ∈ insert x T, e.date.ord = x.date.ord ∨ ∃ d ∈ T, e.date = d.date := by
  intro T
  induction T with
  | nil => intro e he; simp only [insert, List.mem_singleton] at he; subst he; left; rw [absorb_date]
  | cons d ds ih =>
    intro e he
    simp only [insert] at he
    by_cases h1 : x.date.ord < d.date.ord
    · rw [if_pos h1] at he
      simp only [List.mem_cons] at he
      rcases he with rfl | rfl | he
      · left; rw [absorb_date]
      · right; exact ⟨e, by simp, rfl⟩
      · right; exact ⟨e, by simp [he], rfl⟩
    · by_cases h2 : x.date.ord = d.date.ord
      · rw [if_neg h1, if_pos h2] at he
        simp only [List.mem_cons] at he
        rcases he with rfl | he
        · right; exact ⟨d, by simp, absorb_date _ _⟩
        · right; exact ⟨e, by simp [he], rfl⟩
      · rw [if_neg h1, if_neg h2] at he
        simp only [List.mem_cons] at he
        rcases he with rfl | he
        · right; exact ⟨e, by simp, rfl⟩
        · rcases ih e he with h | ⟨d', hd', hdd⟩
          · left; exact h
          · right; exact ⟨d', by simp [hd'], hdd⟩

theorem insert_sorted (x : Tx) : ∀ (T : List SDay), SSorted T → SSorted (insert x T) := by
  intro T
  induction T with
  | nil => intro _; simp [insert, SSorted]
  | cons d ds ih =>
    intro hs
    have hs' := List.pairwise_cons.mp hs
    simp only [insert]
    by_cases h1 : x.date.ord < d.date.ord
    · rw [if_pos h1]
      apply List.pairwise_cons.mpr
      refine ⟨?_, hs⟩
      intro e he
      rw [absorb_date]
      simp only [List.mem_cons] at he
      rcases he with rfl | he
      · exact h1
      · have := hs'.1 e he; simp only at this ⊢; omega
    · by_cases h2 : x.date.ord = d.date.ord
      · rw [if_neg h1, if_pos h2]
        apply List.pairwise_cons.mpr
        refine ⟨?_, hs'.2⟩
        intro e he; rw [absorb_date]; exact hs'.1 e he
      · rw [if_neg h1, if_neg h2]
        apply List.pairwise_cons.mpr
        refine ⟨?_, ih hs'.2⟩
        intro e he
        rcases insert_mem_date x ds e he with h | ⟨d', hd', hdd⟩
        · omega
        · rw [hdd]; exact hs'.1 d' hd'

theorem table_sorted (t : String) (l : List Tx) : SSorted (table t l) := by
  rw [table_eq_insFold]
  have : ∀ (l : List Tx) (acc : List SDay), SSorted acc → SSorted (insFold t acc l) := by
    intro l
    induction l with
    | nil => intro acc h; exact h
    | cons x xs ih =>
      intro acc h
      rw [insFold_cons]
      split
      · exact ih _ (insert_sorted x acc h)
      · exact ih _ h
  exact this l [] (by simp [SSorted])

theorem late_fixed (D : Int) (ρ : Rat) : ∀ (T : List SDay), (∀ d ∈ T, D < d.date.ord) →
    T.map (scaleAt D ρ) = T ∧ regaugeBy (unitAt D ρ) T = T ∧ nextUnit (unitAt D ρ) T = 1 := by
  intro T
  induction T with
  | nil => intro _; exact ⟨rfl, rfl, rfl⟩
  | cons d ds ih =>
    intro h
    have hd : ¬ d.date.ord ≤ D := by have := h d (by simp); omega
    obtain ⟨i1, i2, i3⟩ := ih (fun e he => h e (by simp [he]))
    have hu : unitAt D ρ d = 1 := by simp [unitAt, hd]
    refine ⟨?_, ?_, ?_⟩
    · simp only [List.map_cons, i1]; congr 1; simp [scaleAt, scaleDay, hd]
    · simp only [regaugeBy, i2, i3, hu]
      congr 1
      apply SDay.ext' <;> simp only [Rat.mul_one, Rat.div_def] <;> grind
    · simp [nextUnit, hu]

theorem split_day (D : Int) (ρ : Rat) (hρ : ρ ≠ 0) (d : SDay) (hd : d.date.ord ≤ D) :
    scaleAt D ρ (d.absorb (.split 1)) =
      { d.absorb (.split ρ) with B := (d.absorb (.split ρ)).B * unitAt D ρ (d.absorb (.split ρ)),
                                 S := (d.absorb (.split ρ)).S * unitAt D ρ (d.absorb (.split ρ)),
                                 r := (d.absorb (.split ρ)).r * 1 / unitAt D ρ (d.absorb (.split ρ)) } := by
  have hinv : ρ * ρ⁻¹ = 1 := Rat.mul_inv_cancel _ hρ
  simp only [scaleAt, scaleDay, unitAt, hd, decide_true, if_true, SDay.absorb, factor]
  apply SDay.ext' <;> simp only [Rat.div_def] <;> grind

theorem twin_split (D : Date) (t : String) (ρ : Rat) (hρ : ρ ≠ 0) : ∀ (T : List SDay), SSorted T →
    (insert ⟨D, t, .split 1⟩ T).map (scaleAt D.ord ρ) = regaugeBy (unitAt D.ord ρ) (insert ⟨D, t, .split ρ⟩ T) := by
  have hinv : ρ * ρ⁻¹ = 1 := Rat.mul_inv_cancel _ hρ
  have hfresh : ∀ (rest : List SDay), nextUnit (unitAt D.ord ρ) rest = 1 →
      scaleAt D.ord ρ (({ date := D } : SDay).absorb (.split 1)) =
        { ({ date := D } : SDay).absorb (.split ρ) with
            B := (({ date := D } : SDay).absorb (.split ρ)).B * unitAt D.ord ρ (({ date := D } : SDay).absorb (.split ρ)),
            S := (({ date := D } : SDay).absorb (.split ρ)).S * unitAt D.ord ρ (({ date := D } : SDay).absorb (.split ρ)),
            r := (({ date := D } : SDay).absorb (.split ρ)).r * nextUnit (unitAt D.ord ρ) rest / unitAt D.ord ρ (({ date := D } : SDay).absorb (.split ρ)) } := by
    intro rest h1
    rw [h1]
    exact split_day D.ord ρ hρ _ (by simp)
  intro T
  induction T with
  | nil =>
    intro _
    simp only [insert, List.map_cons, List.map_nil, regaugeBy]
    rw [hfresh [] rfl]
  | cons d ds ih =>
    intro hs
    have hs' := List.pairwise_cons.mp hs
    simp only [insert]
    by_cases h1 : D.ord < d.date.ord
    · rw [if_pos h1, if_pos h1]
      have hlate : ∀ e ∈ d :: ds, D.ord < e.date.ord := by
        intro e he
        simp only [List.mem_cons] at he
        rcases he with rfl | he
        · exact h1
        · have := hs'.1 e he; omega
      obtain ⟨l1, l2, l3⟩ := late_fixed D.ord ρ (d :: ds) hlate
      simp only [List.map_cons] at l1 ⊢
      rw [regaugeBy, l2, ← hfresh (d :: ds) l3]
      congr 1
    · by_cases h2 : D.ord = d.date.ord
      · rw [if_neg h1, if_pos h2, if_neg h1, if_pos h2]
        have hlate : ∀ e ∈ ds, D.ord < e.date.ord := by
          intro e he; have := hs'.1 e he; omega
        obtain ⟨l1, l2, l3⟩ := late_fixed D.ord ρ ds hlate
        simp only [List.map_cons, regaugeBy, l1, l2, l3]
        congr 1
        exact split_day D.ord ρ hρ d (by omega)
      · rw [if_neg h1, if_neg h2, if_neg h1, if_neg h2]
        simp only [List.map_cons, regaugeBy]
        rw [ih hs'.2]
        congr 1
        obtain ⟨hh, tl, he, hle⟩ := insert_head_le ⟨D, t, .split ρ⟩ ds
        have hdle : d.date.ord ≤ D.ord := by omega
        have hu : unitAt D.ord ρ d = ρ := by simp [unitAt, hdle]
        have hn : nextUnit (unitAt D.ord ρ) (insert ⟨D, t, .split ρ⟩ ds) = ρ := by
          rw [he]; simp only [nextUnit, unitAt]; simp only at hle; simp [hle]
        rw [hn, hu]
        simp only [scaleAt, scaleDay, hdle, decide_true, if_true]
        apply SDay.ext' <;> simp only [Rat.div_def] <;> grind

end Cgt.Spec

namespace Cgt.Spec
open Cgt

theorem unitsOf_pos (D : Int) (ρ : Rat) (hρ : 0 < ρ) (T : List SDay) : GPos (unitsOf (unitAt D ρ) T) := by
  intro i
  unfold unitsOf
  split
  · unfold unitAt; split
    · exact hρ
    · decide
  · decide

theorem table_snoc (t : String) (l : List Tx) (x : Tx) (hx : x.ticker = t) : table t (l ++ [x]) = insert x (table t l) := by
  rw [table_eq_insFold, insFold_append, insFold_cons, if_pos hx]; rfl

/-- **the post-split twin has the same money** (C10, statutory evaluation): take a ledger `l0` followed
    by `SPLIT t RATIO ρ` dated `D`; rewrite every trade dated on or before `D` in post-split units
    (quantity × ρ, unit price ÷ ρ) and make the split a ratio-1 no-op. Every disposal keeps its date,
    gross and net proceeds and gain, every leg its rule, allowable cost and acquisition date, and the
    closing pool its quantity and cost. -/
theorem identify_twin (w : Int) (t : String) (D : Date) (ρ : Rat) (hρ : 0 < ρ) (l0 : List Tx) :
    let a := identify w t (l0.map (twinTx D.ord ρ) ++ [⟨D, t, .split 1⟩])
    let b := identify w t (l0 ++ [⟨D, t, .split ρ⟩])
    a.disposals.map dispMoney = b.disposals.map dispMoney ∧ a.poolQ = b.poolQ ∧ a.poolC = b.poolC := by
  have hne : ρ ≠ 0 := by grind
  have ha := identify_eq w t (l0.map (twinTx D.ord ρ) ++ [⟨D, t, .split 1⟩])
  have hb := identify_eq w t (l0 ++ [⟨D, t, .split ρ⟩])
  simp only at ha hb
  have htab : table t (l0.map (twinTx D.ord ρ) ++ [⟨D, t, .split 1⟩])
      = regauge (unitsOf (unitAt D.ord ρ) (table t (l0 ++ [⟨D, t, .split ρ⟩]))) 0 (table t (l0 ++ [⟨D, t, .split ρ⟩])) := by
    rw [table_snoc t _ _ rfl, table_snoc t _ _ rfl, table_twin t D.ord ρ hne l0, ← regaugeBy_eq,
      ← twin_split D t ρ hne _ (table_sorted t l0), ← insert_twin D.ord ρ hne ⟨D, t, .split 1⟩ (table t l0)]
    rfl
  have hg := identifyTbl_gauge _ (unitsOf_pos D.ord ρ hρ (table t (l0 ++ [⟨D, t, .split ρ⟩]))) w (table t (l0 ++ [⟨D, t, .split ρ⟩]))
  simp only at hg
  rw [← htab, ← ha, ← hb] at hg
  have hlast : unitsOf (unitAt D.ord ρ) (table t (l0 ++ [⟨D, t, .split ρ⟩])) (table t (l0 ++ [⟨D, t, .split ρ⟩])).length = 1 := by
    simp [unitsOf]
  rw [hlast, Rat.mul_one] at hg
  exact hg

end Cgt.Spec
