import CgtModel.Spec
import CgtModel.Lemmas.Calendar
/-! The statutory evaluation `Spec` depends only on the *set* of a security's transactions: the day
    table is built by insertion, insertion steps commute, so any permutation of the input lines gives
    the same table and hence the same identification, costs, gains and closing holding. Recording a
    purchase or sale as several same-day fills with the same total quantity, consideration and fees
    gives the same table too. -/
set_option linter.unusedSimpArgs false
namespace Cgt.Spec
open Cgt

theorem ord_inj (a b : Date) (ha : a.ok) (hb : b.ok) (h : a.ord = b.ord) : a = b := by
  rcases lt_or_eq_or_gt a b with hlt | heq | hgt
  · have := ord_lt_of_lt a b ha hb hlt; omega
  · exact heq
  · have := ord_lt_of_lt b a hb ha hgt; omega

theorem absorb_date (d : SDay) (o : Op) : (d.absorb o).date = d.date := by
  cases o <;> rfl

theorem absorb_comm (d : SDay) (o1 o2 : Op) : (d.absorb o1).absorb o2 = (d.absorb o2).absorb o1 := by
  cases o1 <;> cases o2 <;> simp only [SDay.absorb, factor, SDay.mk.injEq, true_and, and_true, and_self] <;>
    (try grind)

/-- two insertions commute (the two lines' dates are equal whenever their ordinals are) -/
theorem insert_comm (t1 t2 : Tx) (hinj : t1.date.ord = t2.date.ord → t1.date = t2.date) :
    ∀ acc : List SDay, insert t1 (insert t2 acc) = insert t2 (insert t1 acc) := by
  intro acc
  induction acc with
  | nil =>
    rcases Int.lt_trichotomy t1.date.ord t2.date.ord with h | h | h
    · have h2 : ¬ t2.date.ord < t1.date.ord := by omega
      have h3 : ¬ t2.date.ord = t1.date.ord := by omega
      simp [insert, absorb_date, h, h2, h3]
    · have hd := hinj h
      have h1 : ¬ t1.date.ord < t2.date.ord := by omega
      have h3 : ¬ t2.date.ord < t1.date.ord := by omega
      simp only [insert, absorb_date, hd, Int.lt_irrefl, if_false, if_true]
      rw [absorb_comm]
    · have h1 : ¬ t1.date.ord < t2.date.ord := by omega
      have h2 : ¬ t1.date.ord = t2.date.ord := by omega
      simp [insert, absorb_date, h, h1, h2]
  | cons d ds ih =>
    rcases Int.lt_trichotomy t1.date.ord d.date.ord with a | a | a <;>
    rcases Int.lt_trichotomy t2.date.ord d.date.ord with b | b | b
    · -- both before d
      rcases Int.lt_trichotomy t1.date.ord t2.date.ord with h | h | h
      · have h2 : ¬ t2.date.ord < t1.date.ord := by omega
        have h3 : ¬ t2.date.ord = t1.date.ord := by omega
        simp [insert, absorb_date, a, b, h, h2, h3]
      · have hd := hinj h
        have h1 : ¬ t1.date.ord < t2.date.ord := by omega
        have h3 : ¬ t2.date.ord < t1.date.ord := by omega
        have b' : t2.date.ord < d.date.ord := b
        simp only [insert, absorb_date, hd, b', Int.lt_irrefl, if_false, if_true]
        rw [absorb_comm]
      · have h1 : ¬ t1.date.ord < t2.date.ord := by omega
        have h2 : ¬ t1.date.ord = t2.date.ord := by omega
        simp [insert, absorb_date, a, b, h, h1, h2]
    · -- t1 before d, t2 on d
      have nb : ¬ t2.date.ord < d.date.ord := by omega
      have h1 : t1.date.ord < t2.date.ord := by omega
      have h2 : ¬ t2.date.ord < t1.date.ord := by omega
      have h3 : ¬ t2.date.ord = t1.date.ord := by omega
      have h4 : ¬ d.date.ord < t1.date.ord := by omega
      have h5 : ¬ d.date.ord = t1.date.ord := by omega
      simp [insert, absorb_date, a, b, nb, h2, h3, h4, h5]
    · -- t1 before d, t2 after d
      have nb : ¬ t2.date.ord < d.date.ord := by omega
      have nb2 : ¬ t2.date.ord = d.date.ord := by omega
      have h2 : ¬ t2.date.ord < t1.date.ord := by omega
      have h3 : ¬ t2.date.ord = t1.date.ord := by omega
      simp [insert, absorb_date, a, nb, nb2, h2, h3]
    · -- t1 on d, t2 before d
      have na : ¬ t1.date.ord < d.date.ord := by omega
      have h2 : ¬ t1.date.ord < t2.date.ord := by omega
      have h3 : ¬ t1.date.ord = t2.date.ord := by omega
      have h4 : ¬ d.date.ord < t2.date.ord := by omega
      have h5 : ¬ d.date.ord = t2.date.ord := by omega
      simp [insert, absorb_date, a, b, na, h2, h3, h4, h5]
    · -- both on d
      have na : ¬ t1.date.ord < d.date.ord := by omega
      have nb : ¬ t2.date.ord < d.date.ord := by omega
      simp only [insert, absorb_date, a, b, Int.lt_irrefl, if_false, if_true]
      rw [absorb_comm]
    · -- t1 on d, t2 after d
      have na : ¬ t1.date.ord < d.date.ord := by omega
      have nb : ¬ t2.date.ord < d.date.ord := by omega
      have nb2 : ¬ t2.date.ord = d.date.ord := by omega
      simp [insert, absorb_date, a, na, nb, nb2]
    · -- t1 after d, t2 before d
      have na : ¬ t1.date.ord < d.date.ord := by omega
      have na2 : ¬ t1.date.ord = d.date.ord := by omega
      have h2 : ¬ t1.date.ord < t2.date.ord := by omega
      have h3 : ¬ t1.date.ord = t2.date.ord := by omega
      simp [insert, absorb_date, b, na, na2, h2, h3]
    · -- t1 after d, t2 on d
      have na : ¬ t1.date.ord < d.date.ord := by omega
      have na2 : ¬ t1.date.ord = d.date.ord := by omega
      have nb : ¬ t2.date.ord < d.date.ord := by omega
      simp [insert, absorb_date, b, na, na2, nb]
    · -- both after d
      have na : ¬ t1.date.ord < d.date.ord := by omega
      have na2 : ¬ t1.date.ord = d.date.ord := by omega
      have nb : ¬ t2.date.ord < d.date.ord := by omega
      have nb2 : ¬ t2.date.ord = d.date.ord := by omega
      simp only [insert, na, na2, nb, nb2, if_false]
      rw [ih]

/-- the dates of a ledger are told apart by their ordinals (true of every ledger the parser accepts:
    valid dates, years ≥ 1) -/
def DatesOk (l : List Tx) : Prop := ∀ t ∈ l, t.date.ok

/-- **the day table of a security depends only on the multiset of its lines** -/
theorem table_perm (ticker : String) (l l' : List Tx) (hp : l.Perm l') (hd : DatesOk l) :
    table ticker l = table ticker l' := by
  unfold table
  apply List.Perm.foldl_eq' (hp.filter _)
  intro x hx y hy z
  have hx' := (List.mem_filter.mp hx).1
  have hy' := (List.mem_filter.mp hy).1
  exact insert_comm y x (fun h => ord_inj _ _ (hd y hy') (hd x hx') h) z

theorem tickers_perm_mem (l l' : List Tx) (hp : l.Perm l') (t : String) : t ∈ tickers l ↔ t ∈ tickers l' := by
  unfold tickers
  simp only [List.mem_eraseDups, List.mem_map]
  constructor
  · rintro ⟨x, hx, rfl⟩; exact ⟨x, hp.mem_iff.mp hx, rfl⟩
  · rintro ⟨x, hx, rfl⟩; exact ⟨x, hp.mem_iff.mpr hx, rfl⟩

/-- **the whole statutory evaluation of a security is invariant under permutation of the input lines** -/
theorem identify_perm (w : Int) (ticker : String) (l l' : List Tx) (hp : l.Perm l') (hd : DatesOk l) :
    identify w ticker l = identify w ticker l' := by
  unfold identify
  rw [table_perm ticker l l' hp hd]

/-- one purchase recorded as two same-day fills with the same total quantity, consideration and fees -/
theorem absorb_fills_buy (d : SDay) (q1 p1 f1 q2 p2 f2 q p f : Rat)
    (hq : q1 + q2 = q) (hc : q1 * p1 + q2 * p2 = q * p) (hf : f1 + f2 = f) :
    (d.absorb (.buy q1 p1 f1)).absorb (.buy q2 p2 f2) = d.absorb (.buy q p f) := by
  simp only [SDay.absorb, SDay.mk.injEq, true_and, and_true]
  constructor <;> grind

theorem absorb_fills_sell (d : SDay) (q1 p1 f1 q2 p2 f2 q p f : Rat)
    (hq : q1 + q2 = q) (hc : q1 * p1 + q2 * p2 = q * p) (hf : f1 + f2 = f) :
    (d.absorb (.sell q1 p1 f1)).absorb (.sell q2 p2 f2) = d.absorb (.sell q p f) := by
  simp only [SDay.absorb, SDay.mk.injEq, true_and, and_true]
  refine ⟨?_, ?_, ?_⟩ <;> grind

end Cgt.Spec
