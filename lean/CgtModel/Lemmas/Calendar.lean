import CgtModel.Calendar
/-! The ordinal of a civil date is strictly monotone in the lexicographic order of (y, m, d) on
    valid dates — so "between 6 April Y and 5 April Y+1" can be read either way. -/
namespace Cgt

def mp (m : Int) : Int := (m + 9) % 12
def doy (m d : Int) : Int := (153 * mp m + 2) / 5 + d - 1
def marchYear (y m : Int) : Int := if m ≤ 2 then y - 1 else y

/-- days before the March-based civil year `y'` -/
def yearStart (y' : Int) : Int :=
  let era := (if y' ≥ 0 then y' else y' - 399) / 400
  let yoe := y' - era * 400
  era * 146097 + yoe * 365 + yoe / 4 - yoe / 100

theorem daysFromCivil_eq (y m d : Int) :
    daysFromCivil y m d = yearStart (marchYear y m) + doy m d - 719468 := by
  unfold daysFromCivil yearStart marchYear doy mp
  simp only
  split <;> split <;> omega

def leapP (y : Int) : Prop := (y % 4 = 0 ∧ y % 100 ≠ 0) ∨ y % 400 = 0

theorem yearStart_step (y' : Int) (h0 : 0 ≤ y') :
    (leapP (y' + 1) → yearStart (y' + 1) - yearStart y' = 366) ∧
    (¬ leapP (y' + 1) → yearStart (y' + 1) - yearStart y' = 365) := by
  unfold yearStart leapP
  have h1 : y' ≥ 0 := h0
  have h2 : y' + 1 ≥ 0 := by omega
  simp only [h1, h2, if_true]
  constructor <;> intro h <;> omega

theorem yearStart_add (a : Int) (h0 : 0 ≤ a) (n : Nat) : yearStart a + 365 * n ≤ yearStart (a + n) := by
  induction n with
  | zero => simp
  | succ k ih =>
    have h := yearStart_step (a + k) (by omega)
    have e : a + ((k + 1 : Nat) : Int) = a + k + 1 := by omega
    rw [e]
    by_cases hl : leapP (a + k + 1)
    · have := h.1 hl; omega
    · have := h.2 hl; omega

theorem yearStart_mono {a b : Int} (h0 : 0 ≤ a) (h : a ≤ b) : yearStart a ≤ yearStart b := by
  have := yearStart_add a h0 (b - a).toNat
  have e : a + ((b - a).toNat : Int) = b := by omega
  rw [e] at this
  omega

/-- valid date in year ≥ 1, as arithmetic -/
def Date.ok (t : Date) : Prop :=
  1 ≤ t.y ∧ 1 ≤ t.m ∧ t.m ≤ 12 ∧ 1 ≤ t.d ∧ t.d ≤ 31 ∧
    (t.m = 4 ∨ t.m = 6 ∨ t.m = 9 ∨ t.m = 11 → t.d ≤ 30) ∧ (t.m = 2 → t.d ≤ 29) ∧
    (t.m = 2 → ¬ leapP t.y → t.d ≤ 28)

theorem Date.ok_of_valid (t : Date) (hy : 1 ≤ t.y) (h : t.valid = true) : t.ok := by
  unfold Date.valid daysInMonth isLeap at h
  unfold Date.ok leapP
  simp only [decide_eq_true_eq, Bool.decide_and, Bool.decide_or, Bool.and_eq_true, Bool.or_eq_true] at h
  obtain ⟨h1, h2, h3, h4⟩ := h
  refine ⟨hy, h1, h2, h3, ?_, ?_, ?_, ?_⟩
  · split at h4
    · split at h4 <;> omega
    · split at h4 <;> omega
  · intro hm
    have h2' : ¬ t.m = 2 := by omega
    simp only [h2', if_false, hm, if_true] at h4
    exact h4
  · intro hm
    simp only [hm, if_true] at h4
    split at h4 <;> omega
  · intro hm hl
    simp only [hm, if_true] at h4
    split at h4
    · rename_i hh
      exfalso; apply hl
      simpa using hh
    · exact h4

/-- a valid date lies inside its March-based year -/
theorem doy_bounds (t : Date) (h : t.ok) :
    0 ≤ doy t.m t.d ∧ doy t.m t.d < yearStart (marchYear t.y t.m + 1) - yearStart (marchYear t.y t.m) := by
  obtain ⟨hy, h1, h2, h3, h4, h5, h6, h7⟩ := h
  have hs := yearStart_step (marchYear t.y t.m) (by unfold marchYear; split <;> omega)
  unfold doy mp
  unfold marchYear at hs ⊢
  unfold leapP at hs h7
  have hm : t.m = 1 ∨ t.m = 2 ∨ t.m = 3 ∨ t.m = 4 ∨ t.m = 5 ∨ t.m = 6 ∨ t.m = 7 ∨ t.m = 8 ∨ t.m = 9 ∨
      t.m = 10 ∨ t.m = 11 ∨ t.m = 12 := by omega
  rcases hm with hm | hm | hm | hm | hm | hm | hm | hm | hm | hm | hm | hm <;>
    simp only [hm, Int.reduceLE, ↓reduceIte] at hs ⊢ <;> omega

/-- within one March-based year the day-of-year is strictly monotone in (month, day) -/
theorem doy_mono (a b : Date) (ha : a.ok) (hb : b.ok)
    (hy : marchYear a.y a.m = marchYear b.y b.m)
    (hlt : a.y < b.y ∨ (a.y = b.y ∧ (a.m < b.m ∨ (a.m = b.m ∧ a.d < b.d)))) :
    doy a.m a.d < doy b.m b.d := by
  obtain ⟨ay, a1, a2, a3, a4, a5, a6, a7⟩ := ha
  obtain ⟨by', b1, b2, b3, b4, b5, b6, b7⟩ := hb
  unfold marchYear at hy
  unfold doy mp
  have hma : a.m = 1 ∨ a.m = 2 ∨ a.m = 3 ∨ a.m = 4 ∨ a.m = 5 ∨ a.m = 6 ∨ a.m = 7 ∨ a.m = 8 ∨ a.m = 9 ∨
      a.m = 10 ∨ a.m = 11 ∨ a.m = 12 := by omega
  have hmb : b.m = 1 ∨ b.m = 2 ∨ b.m = 3 ∨ b.m = 4 ∨ b.m = 5 ∨ b.m = 6 ∨ b.m = 7 ∨ b.m = 8 ∨ b.m = 9 ∨
      b.m = 10 ∨ b.m = 11 ∨ b.m = 12 := by omega
  rcases hma with hma | hma | hma | hma | hma | hma | hma | hma | hma | hma | hma | hma <;>
  rcases hmb with hmb | hmb | hmb | hmb | hmb | hmb | hmb | hmb | hmb | hmb | hmb | hmb <;>
    simp only [hma, hmb, Int.reduceLE, ↓reduceIte] at hy ⊢ <;> omega

def Date.lt (a b : Date) : Prop :=
  a.y < b.y ∨ (a.y = b.y ∧ (a.m < b.m ∨ (a.m = b.m ∧ a.d < b.d)))

theorem ord_lt_of_lt (a b : Date) (ha : a.ok) (hb : b.ok) (hlt : a.lt b) : a.ord < b.ord := by
  unfold Date.ord
  rw [daysFromCivil_eq, daysFromCivil_eq]
  have hya : marchYear a.y a.m ≤ marchYear b.y b.m := by
    unfold marchYear Date.lt at *
    obtain ⟨_, a1, a2, _⟩ := ha
    obtain ⟨_, b1, b2, _⟩ := hb
    split <;> split <;> omega
  by_cases heq : marchYear a.y a.m = marchYear b.y b.m
  · have := doy_mono a b ha hb heq hlt
    rw [heq]; omega
  · have h1 : marchYear a.y a.m + 1 ≤ marchYear b.y b.m := by omega
    have h0 : 0 ≤ marchYear a.y a.m + 1 := by
      unfold marchYear; obtain ⟨ay, _⟩ := ha; split <;> omega
    have h2 := yearStart_mono h0 h1
    have h3 := doy_bounds a ha
    have h4 := doy_bounds b hb
    omega

theorem lt_or_eq_or_gt (a b : Date) : a.lt b ∨ a = b ∨ b.lt a := by
  unfold Date.lt
  cases a; cases b
  simp only [Date.mk.injEq]
  omega

/-- the ordinal is strictly monotone: `a ≤ b` lexicographically iff `ord a ≤ ord b` -/
theorem ord_le_iff (a b : Date) (ha : a.ok) (hb : b.ok) : a.ord ≤ b.ord ↔ a.le b := by
  rcases lt_or_eq_or_gt a b with h | h | h
  · have := ord_lt_of_lt a b ha hb h
    unfold Date.lt at h; unfold Date.le
    constructor
    · intro _; omega
    · intro _; omega
  · subst h; unfold Date.le; constructor <;> intro _ <;> omega
  · have := ord_lt_of_lt b a hb ha h
    unfold Date.lt at h; unfold Date.le
    constructor
    · intro _; omega
    · intro h2; omega

end Cgt
