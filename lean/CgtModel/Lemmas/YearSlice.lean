import CgtModel.Report
import CgtModel.Lemmas.LegWindow
/-! From legs to a tax year's slice of the report: a leg is dated by the day that produced it; legs added
    at the end of a security's list whose disposal dates fail a date predicate leave the predicate's slice
    of that security's disposals as it was; the list of securities of an accepted run. Used by C12's
    report-level theorem. -/
namespace Cgt

/-! ### every leg is dated by a day of the run -/

theorem lookahead_sellDate (w : Int) (d0 : Date) (s : Trade) (fs : List Day) :
    ∀ (rem k : Rat) (cl : List Rat), ∀ l ∈ (lookahead w d0 s rem k fs cl).2.1, l.sellDate = d0 := by
  induction fs with
  | nil => intro rem k cl l hl; simp [lookahead] at hl
  | cons e rest ih =>
    intro rem k cl l hl
    simp only [lookahead] at hl
    split at hl
    · simp at hl
    · split at hl
      · simp at hl
      · split at hl
        · exact ih _ _ _ l hl
        · split at hl
          · exact ih _ _ _ l hl
          · simp only [List.mem_cons] at hl
            rcases hl with rfl | hl
            · rfl
            · exact ih _ _ _ l hl

theorem sellStep_sellDate (t : String) (w : Int) (d : Day) (st st' : MState) (s : Trade) (future : List Day)
    (cl cl' : List Rat) (legs : List Leg)
    (h : sellStep t w d st s future cl = .ok (st', cl', legs)) : ∀ l ∈ legs, l.sellDate = d.date := by
  unfold sellStep at h
  split at h
  · cases h
  · simp only at h
    generalize hla : (if s.q = 0 then (cl, ([] : List Leg), s.q - (sameDayPart d st.avail s).1)
      else lookahead w d.date s (s.q - (sameDayPart d st.avail s).1) d.r future cl) = la at h
    have hlegs : ∀ l ∈ la.2.1, l.sellDate = d.date := by
      intro l hl
      rw [← hla] at hl
      split at hl
      · simp at hl
      · exact lookahead_sellDate w d.date s future _ _ _ l hl
    split at h
    · split at h <;> cases h
    · simp only [Except.ok.injEq, Prod.mk.injEq] at h
      obtain ⟨_, _, rfl⟩ := h
      intro l hl
      simp only [List.mem_append] at hl
      rcases hl with (hl | hl) | hl
      · exact (sameDayPart_legwin w d st.avail s l hl).1
      · exact hlegs l hl
      · exact (poolPart_legwin w d _ _ s l hl).1

theorem sellsStep_sellDate (t : String) (w : Int) (d : Day) (future : List Day) :
    ∀ (ss : List Trade) (st st' : MState) (cl cl' : List Rat) (legs : List Leg),
      sellsStep t w d future st ss cl = .ok (st', cl', legs) → ∀ l ∈ legs, l.sellDate = d.date := by
  intro ss
  induction ss with
  | nil =>
    intro st st' cl cl' legs h
    simp only [sellsStep, Except.ok.injEq, Prod.mk.injEq] at h
    obtain ⟨_, _, rfl⟩ := h
    simp
  | cons s ss ih =>
    intro st st' cl cl' legs h
    simp only [sellsStep] at h
    split at h
    · cases h
    · rename_i st1 cl1 legs1 h1
      split at h
      · cases h
      · rename_i st2 cl2 legs2 h2
        simp only [Except.ok.injEq, Prod.mk.injEq] at h
        obtain ⟨_, _, rfl⟩ := h
        intro l hl
        rcases List.mem_append.mp hl with hl | hl
        · exact sellStep_sellDate t w d st st1 s future cl cl1 legs1 h1 l hl
        · exact ih st1 st2 cl1 cl2 legs2 h2 l hl

theorem dayStep_sellDate (t : String) (w : Int) (pool pool' : Option Pool) (d : Day) (claimed : Rat) (future : List Day)
    (cl cl' : List Rat) (legs : List Leg)
    (h : dayStep t w pool d claimed future cl = .ok (pool', cl', legs)) : ∀ l ∈ legs, l.sellDate = d.date := by
  unfold dayStep at h
  split at h
  · cases h
  · split at h
    · cases h
    · rename_i st cl1 legs1 hss
      simp only [Except.ok.injEq, Prod.mk.injEq] at h
      obtain ⟨_, _, rfl⟩ := h
      exact sellsStep_sellDate t w d future d.sells _ st cl cl1 legs1 hss

/-- every leg of a run over `ds` is dated by one of the days of `ds` -/
theorem runDays_sellDate (t : String) (w : Int) : ∀ (ds : List Day) (pool pool' : Option Pool) (cl : List Rat) (legs : List Leg),
    runDays t w pool ds cl = .ok (pool', legs) → ∀ l ∈ legs, ∃ d ∈ ds, l.sellDate = d.date := by
  intro ds
  induction ds with
  | nil =>
    intro pool pool' cl legs h
    simp only [runDays, Except.ok.injEq, Prod.mk.injEq] at h
    obtain ⟨_, rfl⟩ := h
    simp
  | cons d ds ih =>
    intro pool pool' cl legs h
    simp only [runDays] at h
    split at h
    · cases h
    · rename_i p1 c1 l1 h1
      split at h
      · cases h
      · rename_i p2 l2 h2
        simp only [Except.ok.injEq, Prod.mk.injEq] at h
        obtain ⟨_, rfl⟩ := h
        intro l hl
        rcases List.mem_append.mp hl with hl | hl
        · exact ⟨d, by simp, dayStep_sellDate t w pool p1 d _ ds _ c1 l1 h1 l hl⟩
        · obtain ⟨e, he, hd⟩ := ih p1 p2 c1 l2 h2 l hl
          exact ⟨e, by simp [he], hd⟩

/-! ### a date predicate's slice of one security's disposals -/

theorem addLeg_filter (p : Date → Bool) (x : Leg) (hx : p x.sellDate = false) :
    ∀ acc : List (Date × List Leg), (addLeg x acc).filter (fun g => p g.1) = acc.filter (fun g => p g.1) := by
  intro acc
  induction acc with
  | nil => simp [addLeg, hx]
  | cons g rest ih =>
    obtain ⟨d, ls⟩ := g
    simp only [addLeg]
    split
    · rename_i hd
      simp only [List.filter_cons]
      rw [hd, hx]
      simp
    · simp only [List.filter_cons, ih]

theorem foldl_addLeg_filter (p : Date → Bool) : ∀ (legs2 : List Leg) (acc : List (Date × List Leg)),
    (∀ x ∈ legs2, p x.sellDate = false) →
    (legs2.foldl (fun acc l => addLeg l acc) acc).filter (fun g => p g.1) = acc.filter (fun g => p g.1) := by
  intro legs2
  induction legs2 with
  | nil => intro acc _; rfl
  | cons x xs ih =>
    intro acc h
    simp only [List.foldl_cons]
    rw [ih _ (fun y hy => h y (by simp [hy])), addLeg_filter p x (h x (by simp))]

/-- legs whose disposal dates fail `p`, added after a security's legs, leave the `p`-slice of its
    disposals as it was -/
theorem groupLegs_append_filter (dp : Nat) (t : String) (p : Date → Bool) (legs1 legs2 : List Leg)
    (h : ∀ x ∈ legs2, p x.sellDate = false) :
    (groupLegs dp t (legs1 ++ legs2)).filter (fun d => p d.date) = (groupLegs dp t legs1).filter (fun d => p d.date) := by
  unfold groupLegs groupByDate
  rw [List.foldl_append]
  have key : ∀ gs : List (Date × List Leg),
      (gs.map (fun x => mkDisposal dp t x.1 x.2)).filter (fun d => p d.date)
        = (gs.filter (fun g => p g.1)).map (fun x => mkDisposal dp t x.1 x.2) := by
    intro gs
    induction gs with
    | nil => rfl
    | cons g gs ih =>
      simp only [List.map_cons, List.filter_cons, ih]
      have : (mkDisposal dp t g.1 g.2).date = g.1 := rfl
      rw [this]
      split <;> simp
  have e : ∀ gs : List (Date × List Leg),
      List.map (fun x : Date × List Leg => match x with | (d, ls) => mkDisposal dp t d ls) gs
        = gs.map (fun x => mkDisposal dp t x.1 x.2) := fun gs => rfl
  rw [e, e, key, key, foldl_addLeg_filter p legs2 _ h]

/-! ### the securities of an accepted run -/

theorem firstErr_none {α : Type} : ∀ (xs : List (Except MErr α)), firstErr xs = none → ∀ x ∈ xs, ∃ v, x = .ok v := by
  intro xs
  induction xs with
  | nil => intro _ x hx; cases hx
  | cons y ys ih =>
    intro h x hx
    cases y with
    | ok v =>
      simp only [firstErr] at h
      rcases List.mem_cons.mp hx with rfl | hx
      · exact ⟨v, rfl⟩
      · exact ih h x hx
    | error e =>
      simp only [firstErr] at h
      split at h
      · split at h <;> cases h
      · cases h

/-- an accepted run lists exactly the securities of the preprocessed ledger, in order of first appearance -/
theorem run_tickers (w : Int) (l : List Tx) (rs : List TickerResult) (h : run w l = .ok rs) :
    rs.map (·.ticker) = tickersOf (preprocess l) := by
  unfold run runPre at h
  simp only at h
  split at h
  · cases h
  · rename_i hnone
    simp only [Except.ok.injEq] at h
    subst h
    have hall := firstErr_none _ hnone
    generalize tickersOf (preprocess l) = ts at hall ⊢
    induction ts with
    | nil => rfl
    | cons t ts ih =>
      have h0 := hall (runTicker t w (daysOf t (preprocess l))) (by simp)
      obtain ⟨v, hv⟩ := h0
      simp only [List.map_cons, List.filterMap_cons, hv]
      simp only [List.cons.injEq, true_and]
      apply ih
      intro x hx
      exact hall x (by simp only [List.map_cons, List.map_map] at hx ⊢; exact List.mem_cons_of_mem _ hx)

theorem daysOf_absent (t : String) (pre : List Tx) (h : ∀ x ∈ pre, x.ticker ≠ t) : daysOf t pre = [] := by
  unfold daysOf
  have : (indexed pre).filter (fun it => decide (it.2.ticker = t)) = [] := by
    rw [List.filter_eq_nil_iff]
    intro it hit
    unfold indexed at hit
    simp only [List.mem_map] at hit
    obtain ⟨⟨y, j⟩, hy, rfl⟩ := hit
    have := List.mem_zipIdx hy
    have hm : y ∈ pre := by rw [this.2.2]; exact List.getElem_mem _
    simp [h y hm]
  rw [this]
  rfl

end Cgt
