import CgtModel.CostOffsets
/-! The main pass of `Matcher::process` for one security: per day *add the BUY (less look-ahead
    claims) → each SELL: holding check, Same Day, 30-day look-ahead, Section 104 → pool the rest →
    apply the day's split factors*. Look-ahead claims are carried inside the remaining-days list. -/
namespace Cgt

def unitCost (b : Trade) (offset : Rat) : Rat :=
  if b.q ≠ 0 then (b.q * b.p + b.f + offset) / b.q else 0

/-- `compute_proceeds` → (gross, net) -/
def proceeds (m : Rat) (s : Trade) : Rat × Rat :=
  if s.q = 0 then (0, 0)
  else
    let gross := m * s.p
    (gross, gross - s.f * (m / s.q))

def mkLeg (date : Date) (rule : Rule) (m cost : Rat) (s : Trade) (acq : Option Date) : Leg :=
  let pr := proceeds m s
  { sellDate := date, rule := rule, qty := m, cost := cost, gross := pr.1, net := pr.2,
    gain := pr.2 - cost, acq := acq }

/-- `available_for_bnb_after_reservations`: what an earlier disposal may still claim of day `e`'s
    BUY, given the claims `c` already made on it -/
def availFor (e : Day) (c : Rat) : Rat :=
  max 0 (e.B - min e.B (max e.S 0) - c)

/-- `match_bed_and_breakfast`: walk the following days of the security while inside the window.
    `k` converts the disposal day's share units into the units of the day looked at; a day's own
    split factor applies after that day's purchase. `cl` are the claims already made on the
    following days' BUYs (in their own units), aligned with the day list.
    Returns (updated claims, legs, rem). -/
def lookahead (window : Int) (d0 : Date) (s : Trade) :
    Rat → Rat → List Day → List Rat → List Rat × List Leg × Rat
  | rem, _, [], cl => (cl, [], rem)
  | rem, k, e :: rest, cl =>
    if rem ≤ 0 then (cl, [], rem)
    else if e.ord - d0.ord > window then (cl, [], rem)
    else
      let c := cl.headD 0
      match e.buy with
      | none =>
        let r := lookahead window d0 s rem (k * e.r) rest cl.tail
        (c :: r.1, r.2.1, r.2.2)
      | some b =>
        let a := availFor e c
        if a ≤ 0 then
          let r := lookahead window d0 s rem (k * e.r) rest cl.tail
          (c :: r.1, r.2.1, r.2.2)
        else
          let ms := min rem (a / k)
          let mb := ms * k
          let leg := mkLeg d0 .bedAndBreakfast ms (mb * unitCost b e.offset) s (some e.date)
          let r := lookahead window d0 s (rem - ms) (k * e.r) rest cl.tail
          ((c + mb) :: r.1, leg :: r.2.1, r.2.2)

/-- claims on the days `fs` (aligned list `cl`), converted into the units in which `k` is 1:
    day j's claim is divided by `k · Π r` over the days before it (`outstanding_bnb_claims`) -/
def outK : Rat → List Day → List Rat → Rat
  | _, [], _ => 0
  | k, e :: rest, cl => cl.headD 0 / k + outK (k * e.r) rest cl.tail

structure MState where
  pool : Option Pool := none
  avail : Rat := 0          -- today's BUY not yet matched/claimed/pooled
deriving DecidableEq, Repr, Inhabited

def MState.poolQ (s : MState) : Rat := match s.pool with | some p => p.q | none => 0

/-- `match_same_day` for the day's single BUY lot: (matched quantity, legs) -/
def sameDayPart (d : Day) (avail : Rat) (s : Trade) : Rat × List Leg :=
  match d.buy with
  | some b =>
    if avail > 0 ∧ s.q > 0 then
      let m := min s.q avail
      (m, [mkLeg d.date .sameDay m (m * unitCost b d.offset) s (some d.date)])
    else (0, [])
  | none => (0, [])

/-- `match_section_104`: (pool after, remaining after, legs) -/
def poolPart (d : Day) (pool : Option Pool) (rem : Rat) (s : Trade) : Option Pool × Rat × List Leg :=
  if rem > 0 then
    match pool with
    | some p =>
      if p.q = 0 ∨ s.q = 0 then (some p, rem, [])
      else
        let m := min rem p.q
        if m = 0 then (some p, rem, [])
        else
          let cost := m * (p.c / p.q)
          (some ⟨p.q - m, p.c - cost⟩, rem - m, [mkLeg d.date .section104 m cost s none])
    | none => (none, rem, [])
  else (pool, rem, [])

/-- `process_sell` -/
def sellStep (t : String) (window : Int) (d : Day) (st : MState) (s : Trade) (future : List Day)
    (cl : List Rat) : Except MErr (MState × List Rat × List Leg) :=
  -- shares already sold against purchases still to come are no longer held
  if s.q > st.avail + st.poolQ - outK d.r future cl then .error ⟨.exceedsHolding, t, d.ord, 1, 1, s.idx⟩
  else
    -- 1. Same Day
    let sd := sameDayPart d st.avail s
    -- 2. 30-day rule
    let la := if s.q = 0 then (cl, [], s.q - sd.1)
              else lookahead window d.date s (s.q - sd.1) d.r future cl
    -- 3. Section 104
    let p3 := poolPart d st.pool la.2.2 s
    if p3.2.1 > 0 then
      if p3.2.1 = s.q then .error ⟨.noPriorAcquisition, t, d.ord, 1, 1, s.idx⟩
      else .error ⟨.unmatched, t, d.ord, 1, 1, s.idx⟩
    else .ok ({ pool := p3.1, avail := st.avail - sd.1 }, la.1, sd.2 ++ la.2.1 ++ p3.2.2)

def sellsStep (t : String) (window : Int) (d : Day) (future : List Day) :
    MState → List Trade → List Rat → Except MErr (MState × List Rat × List Leg)
  | st, [], cl => .ok (st, cl, [])
  | st, s :: ss, cl =>
    match sellStep t window d st s future cl with
    | .error e => .error e
    | .ok (st', cl', legs) =>
      match sellsStep t window d future st' ss cl' with
      | .error e => .error e
      | .ok (st'', cl'', legs') => .ok (st'', cl'', legs ++ legs')

/-- the day's BUY enters the ledger less the claims earlier disposals made on it -/
def buyStage (t : String) (d : Day) (claimed : Rat) : Except MErr Rat :=
  match d.buy with
  | some b =>
    if claimed > b.q then .error ⟨.reservationExceedsBuy, t, d.ord, 1, 0, b.idx⟩
    else .ok (b.q - claimed)
  | none => .ok 0

/-- `move_buy_to_pool`, then the day's SPLIT/UNSPLIT lines (`process_corporate_action`) -/
def poolAfter (d : Day) (st : MState) : Option Pool :=
  let pool1 : Option Pool :=
    match d.buy with
    | some b =>
      if st.avail > 0 then
        let c := st.avail * unitCost b d.offset
        match st.pool with
        | some p => some ⟨p.q + st.avail, p.c + c⟩
        | none => some ⟨st.avail, c⟩
      else st.pool
    | none => st.pool
  pool1.map (fun p => { p with q := p.q * d.r })

/-- one calendar day of one security -/
def dayStep (t : String) (window : Int) (pool : Option Pool) (d : Day) (claimed : Rat)
    (future : List Day) (cl : List Rat) : Except MErr (Option Pool × List Rat × List Leg) :=
  match buyStage t d claimed with
  | .error e => .error e
  | .ok avail0 =>
    match sellsStep t window d future { pool := pool, avail := avail0 } d.sells cl with
    | .error e => .error e
    | .ok (st, cl', legs) => .ok (poolAfter d st, cl', legs)

/-- all days of one security; `cl` = claims on the days still to come -/
def runDays (t : String) (window : Int) :
    Option Pool → List Day → List Rat → Except MErr (Option Pool × List Leg)
  | pool, [], _ => .ok (pool, [])
  | pool, d :: ds, cl =>
    match dayStep t window pool d (cl.headD 0) ds cl.tail with
    | .error e => .error e
    | .ok (pool', cl', legs) =>
      match runDays t window pool' ds cl' with
      | .error e => .error e
      | .ok (pool'', legs') => .ok (pool'', legs ++ legs')

/-- one security, from its day list: cost pre-pass, then the main pass -/
def runTicker (t : String) (window : Int) (ds : List Day) : Except MErr (Option Pool × List Leg) :=
  match withOffsets t ds with
  | .error e => .error e
  | .ok ds' => runDays t window none ds' []

end Cgt
