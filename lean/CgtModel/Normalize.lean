import CgtModel.Tx
namespace Cgt

def sortByDate (l : List Tx) : List Tx := l.mergeSort (fun a b => decide (a.ord ≤ b.ord))

/-- quantity-weighted merge of two trades: `(amount, price, fees)` -/
def mergeTrade (q p f q' p' f' : Rat) : Rat × Rat × Rat :=
  let tot := q * p + q' * p'
  let qq := q + q'
  (qq, if qq ≠ 0 then tot / qq else p, f + f')

/-- the `current`/`next` loop of `preprocess` -/
def mergeInto (cur : Tx) : List Tx → List Tx
  | [] => [cur]
  | nxt :: rest =>
    if nxt.date = cur.date ∧ nxt.ticker = cur.ticker then
      match cur.op, nxt.op with
      | .buy q p f, .buy q' p' f' =>
        let m := mergeTrade q p f q' p' f'
        mergeInto { cur with op := .buy m.1 m.2.1 m.2.2 } rest
      | .sell q p f, .sell q' p' f' =>
        let m := mergeTrade q p f q' p' f'
        mergeInto { cur with op := .sell m.1 m.2.1 m.2.2 } rest
      | _, _ => cur :: mergeInto nxt rest
    else cur :: mergeInto nxt rest

def mergeAdjacent : List Tx → List Tx
  | [] => []
  | t :: ts => mergeInto t ts

/-- fold BUY `(q',p',f')` of `(date, ticker)` into the BUY already in `out`, if there is one -/
def foldBuy (date : Date) (ticker : String) (q' p' f' : Rat) : List Tx → Option (List Tx)
  | [] => none
  | t :: ts =>
    if t.date = date ∧ t.ticker = ticker then
      match t.op with
      | .buy q p f =>
        let m := mergeTrade q p f q' p' f'
        some ({ t with op := .buy m.1 m.2.1 m.2.2 } :: ts)
      | _ => (foldBuy date ticker q' p' f' ts).map (t :: ·)
    else (foldBuy date ticker q' p' f' ts).map (t :: ·)

def coalesceStep (out : List Tx) (nxt : Tx) : List Tx :=
  match nxt.op with
  | .buy q p f =>
    match foldBuy nxt.date nxt.ticker q p f out with
    | some o => o
    | none => out ++ [nxt]
  | _ => out ++ [nxt]

def coalesceBuys (l : List Tx) : List Tx := l.foldl coalesceStep []

def preprocess (l : List Tx) : List Tx := coalesceBuys (mergeAdjacent (sortByDate l))

end Cgt
/-! `Matcher::preprocess`: stable sort by date, merge adjacent same-day same-ticker BUY/BUY and
    SELL/SELL lines, then fold every remaining same-day BUY of a ticker into that day's first BUY. -/
