import CgtModel.Days
/-! `Matcher::compute_cost_offsets` for one security: lots, Same-Day-then-FIFO consumption
    (no 30-day rule; share counts restated by each day's split factor after its trades), apportionment of CAPRETURN/ACCUMULATION over
    the shares held, the `net > Σ adjusted cost of held lots` refusal. -/
namespace Cgt

structure Lot where
  ord : Int
  q : Rat
  p : Rat
  f : Rat
  off : Rat := 0
  consumed : Rat := 0
deriving DecidableEq, Repr, Inhabited

def Lot.held (l : Lot) : Rat := l.q - l.consumed
def Lot.adjCost (l : Lot) : Rat := l.q * l.p + l.f + l.off

def totalHeld (lots : List Lot) : Rat := rsum (lots.map Lot.held)

/-- `total_adjusted_cost`: lots with shares still held -/
def totalAdjCost (lots : List Lot) : Rat :=
  rsum ((lots.filter (fun l => decide (l.held > 0))).map Lot.adjCost)

/-- `apply_cost_adjustment` -/
def applyAdj (adj : Rat) (lots : List Lot) : List Lot :=
  let th := totalHeld lots
  if th = 0 then lots
  else lots.map (fun l => if l.held > 0 then { l with off := l.off + adj * (l.held / th) } else l)

/-- `consume_shares_on_date` for the single lot of that date -/
def consumeOn (ord : Int) (amt : Rat) : List Lot → List Lot
  | [] => []
  | l :: ls =>
    if l.ord = ord ∧ l.held > 0 ∧ amt > 0 then
      { l with consumed := l.consumed + min amt l.held } :: ls
    else l :: consumeOn ord amt ls

def heldOn (ord : Int) (lots : List Lot) : Rat :=
  rsum ((lots.filter (fun l => decide (l.ord = ord))).map Lot.held)

/-- `consume_shares_before_date`: FIFO over earlier lots -/
def consumeBefore (ord : Int) : Rat → List Lot → List Lot
  | _, [] => []
  | rem, l :: ls =>
    if l.ord < ord ∧ rem > 0 ∧ l.held > 0 then
      let c := min rem l.held
      { l with consumed := l.consumed + c } :: consumeBefore ord (rem - c) ls
    else l :: consumeBefore ord rem ls

def prepassSell (ord : Int) (amt : Rat) (lots : List Lot) : List Lot :=
  if lots.isEmpty then lots
  else
    let a := heldOn ord lots
    if a > 0 then
      let m := min amt a
      let lots := consumeOn ord m lots
      if amt - m > 0 then consumeBefore ord (amt - m) lots else lots
    else consumeBefore ord amt lots

def applyCaps (t : String) (ord : Int) : List (Nat × Rat) → List Lot → Except MErr (List Lot)
  | [], lots => .ok lots
  | (idx, net) :: cs, lots =>
    if lots.isEmpty then applyCaps t ord cs lots
    else if net > totalAdjCost lots then
      .error ⟨.capReturnExceedsCost, t, ord, 0, 0, idx⟩
    else applyCaps t ord cs (applyAdj (-net) lots)

/-- a SPLIT/UNSPLIT (taking effect after the day's trades) restates the share counts of every lot in the
    new units, and its unit price inversely, so that the lot's cost is what it was -/
def scaleLot (r : Rat) (l : Lot) : Lot :=
  if r = 0 then l else { l with q := l.q * r, consumed := l.consumed * r, p := l.p / r }

def prepassDay (t : String) (lots : List Lot) (d : Day) : Except MErr (List Lot) :=
  let lots := d.accs.foldl (fun ls v => if ls.isEmpty then ls else applyAdj v ls) lots
  match applyCaps t d.ord d.caps lots with
  | .error e => .error e
  | .ok lots =>
    let lots := match d.buy with
      | some b => lots ++ [{ ord := d.ord, q := b.q, p := b.p, f := b.f }]
      | none => lots
    .ok ((d.sells.foldl (fun ls s => prepassSell d.ord s.q ls) lots).map (scaleLot d.r))

def prepass (t : String) : List Lot → List Day → Except MErr (List Lot)
  | lots, [] => .ok lots
  | lots, d :: ds =>
    match prepassDay t lots d with
    | .error e => .error e
    | .ok lots' => prepass t lots' ds

def offsetFor (ord : Int) : List Lot → Rat
  | [] => 0
  | l :: ls => if l.ord = ord then l.off else offsetFor ord ls

/-- days with the pre-pass offsets written onto their BUYs -/
def withOffsets (t : String) (ds : List Day) : Except MErr (List Day) :=
  match prepass t [] ds with
  | .error e => .error e
  | .ok lots => .ok (ds.map (fun d => { d with offset := offsetFor d.ord lots }))


/-! ### ghost accounting of the pre-pass: which events "took effect" (used by the C03 theorems and by the
    driver's `eff` command) -/

/-- what one event contributes: its signed amount when shares are held at that moment, else nothing -/
def effOf (adj : Rat) (lots : List Lot) : Rat := if totalHeld lots = 0 then 0 else adj

/-- accumulations of a day, in line order -/
def accStep (ls : List Lot) (v : Rat) : List Lot := if ls.isEmpty then ls else applyAdj v ls

def effAccs : List Rat → List Lot → Rat
  | [], _ => 0
  | v :: vs, lots => effOf v lots + effAccs vs (accStep lots v)

/-- capital returns of a day that are not refused -/
def effCaps : List (Nat × Rat) → List Lot → Rat
  | [], _ => 0
  | (_, net) :: cs, lots => effOf (-net) lots + effCaps cs (applyAdj (-net) lots)

/-- the signed amounts of the day's events that took effect -/
def effDay (lots : List Lot) (d : Day) : Rat :=
  effAccs d.accs lots + effCaps d.caps (d.accs.foldl accStep lots)

/-- the signed amounts of all events of the history that took effect -/
def effAll (t : String) : List Lot → List Day → Rat
  | _, [] => 0
  | lots, d :: ds =>
    match prepassDay t lots d with
    | .error _ => 0
    | .ok lots' => effDay lots d + effAll t lots' ds

/-- Σ quantity × price + fees over the days' purchases -/
def purchasesOf (ds : List Day) : Rat :=
  rsum (ds.map (fun d => match d.buy with | some b => b.q * b.p + b.f | none => 0))

end Cgt
