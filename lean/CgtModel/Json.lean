import CgtModel.Dsl
/-! The tool's JSON for transactions, at the level of JSON *values* (models.rs: `Transaction`'s Serialize /
    Deserialize, `Operation`'s internally tagged representation, `normalize_operation_action`,
    `validate_operation`; cgt-money/src/amount.rs: `CurrencyAmount`'s Serialize and its Deserialize visitor).
    The text layer (serde_json's printing and parsing of JSON text) is not modelled: a value here is what
    `serde_json::to_value` gives and what `serde_json::from_value` takes. Decimals are digit strings as in
    the DSL model. Covered on the reading side: string-valued fields; a number where a string is expected is
    outside the model (`unmodelled`), never guessed at. -/
namespace Cgt.Json
open Cgt.Dsl

/-- the field names the reader looks for; any other name is `other` -/
inductive Key where
  | date | ticker | action | amount | price | fees | total_value | tax_paid | ratio | currency | gbp
  | other (name : String)
deriving DecidableEq, Repr, Inhabited

def Key.ofString : String → Key
  | "date" => .date | "ticker" => .ticker | "action" => .action | "amount" => .amount | "price" => .price
  | "fees" => .fees | "total_value" => .total_value | "tax_paid" => .tax_paid | "ratio" => .ratio
  | "currency" => .currency | "gbp" => .gbp | s => .other s

def Key.toString : Key → String
  | .date => "date" | .ticker => "ticker" | .action => "action" | .amount => "amount" | .price => "price"
  | .fees => "fees" | .total_value => "total_value" | .tax_paid => "tax_paid" | .ratio => "ratio"
  | .currency => "currency" | .gbp => "gbp" | .other s => s

inductive JV where
  | str (s : List Char)
  | obj (fs : List (Key × JV))
  | other              -- a number, array, boolean or null
deriving Repr, Inhabited

/-- what reading gives: the transaction, a refusal, or a value the model does not speak about -/
inductive R (α : Type) where
  | ok (a : α)
  | reject
  | unmodelled
deriving Repr, Inhabited, DecidableEq

def R.bind {α β : Type} (x : R α) (f : α → R β) : R β :=
  match x with
  | .ok a => f a
  | .reject => .reject
  | .unmodelled => .unmodelled

/-! ### writing -/

def amtJ (a : DAmt) : JV := .obj [(.amount, .str (showDec a.d)), (.currency, .str a.cur.toList)]

def opJ : DOp → List (Key × JV)
  | .buy q p f => [(.action, .str "BUY".toList), (.amount, .str (showDec q)), (.price, amtJ p), (.fees, amtJ f)]
  | .sell q p f => [(.action, .str "SELL".toList), (.amount, .str (showDec q)), (.price, amtJ p), (.fees, amtJ f)]
  | .dividend v x => [(.action, .str "DIVIDEND".toList), (.total_value, amtJ v), (.tax_paid, amtJ x)]
  | .accumulation q v x => [(.action, .str "ACCUMULATION".toList), (.amount, .str (showDec q)), (.total_value, amtJ v), (.tax_paid, amtJ x)]
  | .capreturn q v f => [(.action, .str "CAPRETURN".toList), (.amount, .str (showDec q)), (.total_value, amtJ v), (.fees, amtJ f)]
  | .split r => [(.action, .str "SPLIT".toList), (.ratio, .str (showDec r))]
  | .unsplit r => [(.action, .str "UNSPLIT".toList), (.ratio, .str (showDec r))]

/-- `serde_json::to_value(&Transaction)` -/
def toJ (t : DTx) : JV :=
  .obj ([(.date, .str (showDateD t)), (.ticker, .str t.ticker.toList)] ++ opJ t.op)

/-! ### reading -/

def field (k : Key) : List (Key × JV) → Option JV
  | [] => none
  | (k', v) :: rest => if k' = k then some v else field k rest

/-- a decimal written as digits with an optional fraction (`Decimal::from_str` on such a text keeps the
    digits and drops leading zeros); other spellings (sign, exponent, bare point) are outside the model -/
def readDec (cs : List Char) : R DDec :=
  match pDecimal cs with
  | some (d, []) => .ok d
  | _ => .unmodelled

def isPositive (d : DDec) : Bool := !(isZeroDec d)

/-- the `CurrencyAmount` visitor: a bare string is pounds; an object needs `amount` and `currency`, must not
    carry the legacy `gbp` key, and may carry anything else -/
def readAmt (valid : List String) : JV → R DAmt
  | .str s => (readDec s).bind (fun d => .ok ⟨d, "GBP"⟩)
  | .obj fs =>
    if (field .gbp fs).isSome then .reject
    else
      match field .amount fs with
      | none => .reject
      | some (.str s) =>
        (readDec s).bind (fun d =>
          match field .currency fs with
          | none => .reject
          | some (.str c) => if valid.contains (String.ofList c) then .ok ⟨d, String.ofList c⟩ else .reject
          | some _ => .reject)
      | some _ => .unmodelled
  | .other => .unmodelled

/-- a money field with `#[serde(default)]`: absent means `CurrencyAmount::default()`, nought pounds -/
def readOptAmt (valid : List String) (k : Key) (fs : List (Key × JV)) : R DAmt :=
  match field k fs with
  | none => .ok zeroGbp
  | some v => readAmt valid v

def readReqAmt (valid : List String) (k : Key) (fs : List (Key × JV)) : R DAmt :=
  match field k fs with
  | none => .reject
  | some v => readAmt valid v

/-- a required decimal that `validate_operation` wants positive -/
def readPosDec (k : Key) (fs : List (Key × JV)) : R DDec :=
  match field k fs with
  | none => .reject
  | some (.str s) => (readDec s).bind (fun d => if isPositive d then .ok d else .reject)
  | some _ => .unmodelled

/-- `normalize_operation_action`: upper-cased, `CAP_RETURN` accepted for `CAPRETURN` -/
def normAction (s : List Char) : List Char :=
  let u := s.map upper
  if u = "CAP_RETURN".toList then "CAPRETURN".toList else u

inductive Act where
  | buy | sell | dividend | accumulation | capreturn | split | unsplit
deriving DecidableEq, Repr

/-- the tag of `Operation` (`rename_all = "SCREAMING_SNAKE_CASE"`, `CAPRETURN` renamed) after normalisation -/
def actOf (s : List Char) : Option Act :=
  let a := normAction s
  if a = "BUY".toList then some .buy
  else if a = "SELL".toList then some .sell
  else if a = "DIVIDEND".toList then some .dividend
  else if a = "ACCUMULATION".toList then some .accumulation
  else if a = "CAPRETURN".toList then some .capreturn
  else if a = "SPLIT".toList then some .split
  else if a = "UNSPLIT".toList then some .unsplit
  else none

def readOp (valid : List String) (fs : List (Key × JV)) : R DOp :=
  match field .action fs with
  | none => .reject
  | some (.str a) =>
    match actOf a with
    | none => .reject
    | some .buy =>
      (readPosDec .amount fs).bind fun q => (readReqAmt valid .price fs).bind fun p => (readOptAmt valid .fees fs).bind fun f => .ok (.buy q p f)
    | some .sell =>
      (readPosDec .amount fs).bind fun q => (readReqAmt valid .price fs).bind fun p => (readOptAmt valid .fees fs).bind fun f => .ok (.sell q p f)
    | some .dividend =>
      (readReqAmt valid .total_value fs).bind fun v => (readOptAmt valid .tax_paid fs).bind fun x => .ok (.dividend v x)
    | some .accumulation =>
      (readPosDec .amount fs).bind fun q => (readReqAmt valid .total_value fs).bind fun v => (readOptAmt valid .tax_paid fs).bind fun x => .ok (.accumulation q v x)
    | some .capreturn =>
      (readPosDec .amount fs).bind fun q => (readReqAmt valid .total_value fs).bind fun v => (readOptAmt valid .fees fs).bind fun f => .ok (.capreturn q v f)
    | some .split => (readPosDec .ratio fs).bind fun r => .ok (.split r)
    | some .unsplit => (readPosDec .ratio fs).bind fun r => .ok (.unsplit r)
  | some _ => .reject

/-- the date as the writer spells it (`YYYY-MM-DD`, a real calendar date); other spellings chrono may or may
    not accept are outside the model -/
def readDate (cs : List Char) : R (Nat × Nat × Nat) :=
  match pDate cs with
  | some ((y, m, d), []) => if Date.valid ⟨y, m, d⟩ then .ok (y, m, d) else .reject
  | _ => .unmodelled

/-- `serde_json::from_value::<Transaction>`: the ticker is upper-cased -/
def fromJ (valid : List String) : JV → R DTx
  | .obj fs =>
    match field .date fs, field .ticker fs with
    | some (.str ds), some (.str tk) =>
      (readDate ds).bind fun ymd => (readOp valid fs).bind fun op =>
        .ok ⟨ymd.1, ymd.2.1, ymd.2.2, String.ofList (tk.map upper), op⟩
    | none, _ => .reject
    | _, none => .reject
    | _, _ => .reject
  | _ => .reject

end Cgt.Json
