import CgtModel.Basic
import CgtModel.Generated
/-! `cgt-format` and the JSON money serialiser: pence rounding, £ formatting, trimmed decimals. -/
namespace Cgt.Format
open Cgt

/-- the value in pence after `round_dp_with_strategy(2, MidpointAwayFromZero)`, as a signed integer -/
def pence (x : Rat) : Int :=
  let s := rabs (x * 100)
  let fl : Int := s.floor
  let r : Int := if s - (fl : Rat) ≥ 1/2 then fl + 1 else fl
  if x < 0 then -r else r

/-- banker's variant (`round_dp(2)`), what the JSON serialiser used before the repair -/
def penceEven (x : Rat) : Int :=
  let s := rabs (x * 100)
  let fl : Int := s.floor
  let frac := s - (fl : Rat)
  let r : Int := if frac > 1/2 then fl + 1 else if frac < 1/2 then fl else if fl % 2 = 0 then fl else fl + 1
  if x < 0 then -r else r

def groupRev : List Char → Nat → List Char
  | [], _ => []
  | c :: cs, n => if n = 3 then ',' :: c :: groupRev cs 1 else c :: groupRev cs (n + 1)

/-- thousands separators -/
def groupDigits (cs : List Char) : List Char := (groupRev cs.reverse 0).reverse

def pad2 (n : Nat) : String := if n < 10 then s!"0{n}" else s!"{n}"

/-- `format_gbp`: sign before the symbol, thousands separators, two decimals.
    A value that rounds to zero pence is shown without a sign. -/
def fmtGbp (x : Rat) : String :=
  let a := (pence x).natAbs
  (if pence x < 0 then "-£" else "£") ++ String.ofList (groupDigits (toString (a / 100)).toList) ++ "." ++ pad2 (a % 100)

/-- the JSON money string for a decimal of the given scale: unchanged when it has ≤ 2 decimals,
    otherwise rounded to exactly 2 -/
def jsonMoney (halfAway : Bool) (x : Rat) (scale : Nat) (literal : String) : String :=
  if scale ≤ 2 then literal
  else
    let p := if halfAway then pence x else penceEven x
    let a := p.natAbs
    (if p < 0 then "-" else "") ++ toString (a / 100) ++ "." ++ pad2 (a % 100)

/-- the value in units of 10⁻ᵏ after `round_dp_with_strategy(k, MidpointAwayFromZero)` -/
def minorUnits (k : Nat) (x : Rat) : Int :=
  let s := rabs (x * pow10 k)
  let fl : Int := s.floor
  let r : Int := if s - (fl : Rat) ≥ 1/2 then fl + 1 else fl
  if x < 0 then -r else r

def padLeft (n : Nat) (s : String) : String := String.ofList (List.replicate (n - s.length) '0') ++ s

/-- `format_decimal_with_precision`: rounded half away from zero to `k` decimals, exactly `k` shown;
    a value that rounds to zero is shown without a sign -/
def fmtFixed (k : Nat) (x : Rat) : String :=
  let u := minorUnits k x
  let a := u.natAbs
  (if u < 0 then "-" else "") ++ toString (a / 10 ^ k) ++ (if k = 0 then "" else "." ++ padLeft k (toString (a % 10 ^ k)))

/-- `format_currency_amount`: GBP as `£` with separators, any other currency as the amount rounded to
    that currency's minor units followed by its code. `minor` = ISO 4217 exponent (a parameter: the
    currency table is data of the `iso_currency` crate) -/
def fmtCurrencyAmount (code : String) (minor : Nat) (x : Rat) : String :=
  if code = "GBP" then fmtGbp x else fmtFixed minor x ++ " " ++ code

/-- `format_tax_year` -/
def fmtTaxYear (y : Nat) : String := s!"{y}/{pad2 ((y + 1) % 100)}"

/-- `format_date` -/
def fmtDate (y m d : Nat) : String :=
  let p4 (n : Nat) : String := String.ofList (List.replicate (4 - (toString n).length) '0') ++ toString n
  s!"{pad2 d}/{pad2 m}/{p4 y}"

end Cgt.Format
