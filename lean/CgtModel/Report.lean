import CgtModel.Matcher
/-! `Matcher::process` over all securities, then `calculator.rs`: legs → disposals (10-dp rounding of
    the proceeds totals), tax-year summaries, year filter, dividends, holdings. -/
namespace Cgt

structure TickerResult where
  ticker : String
  pool : Option Pool
  legs : List Leg
deriving DecidableEq, Repr, Inhabited

def firstErr : List (Except MErr α) → Option MErr
  | [] => none
  | .ok _ :: rest => firstErr rest
  | .error e :: rest =>
    match firstErr rest with
    | some e' => if e.before e' then some e else some e'
    | none => some e

def runPre (window : Int) (pre : List Tx) : Except MErr (List TickerResult) :=
  let ts := tickersOf pre
  let rs := ts.map (fun t => (t, runTicker t window (daysOf t pre)))
  match firstErr (rs.map (·.2)) with
  | some e => .error e
  | none =>
    .ok (rs.filterMap (fun (t, r) =>
      match r with
      | .ok (pool, legs) => some { ticker := t, pool := pool, legs := legs }
      | .error _ => none))

/-- the matcher on a raw GBP ledger -/
def run (window : Int) (l : List Tx) : Except MErr (List TickerResult) :=
  runPre window (preprocess l)

structure Disposal where
  date : Date
  ticker : String
  qty : Rat
  gross : Rat
  proceeds : Rat
  legs : List Leg
deriving DecidableEq, Repr, Inhabited

def Disposal.netGain (d : Disposal) : Rat := rsum (d.legs.map (·.gain))
def Disposal.totalCost (d : Disposal) : Rat := rsum (d.legs.map (·.cost))

/-- `disposal_map.entry(key).or_default().push(m)` for one security: key = disposal date -/
def addLeg (l : Leg) : List (Date × List Leg) → List (Date × List Leg)
  | [] => [(l.sellDate, [l])]
  | (d, ls) :: rest =>
    if d = l.sellDate then (d, ls ++ [l]) :: rest else (d, ls) :: addLeg l rest

def groupByDate (legs : List Leg) : List (Date × List Leg) :=
  legs.foldl (fun acc l => addLeg l acc) []

def mkDisposal (roundDp : Nat) (ticker : String) (date : Date) (legs : List Leg) : Disposal :=
  { date := date, ticker := ticker
    qty := rsum (legs.map (·.qty))
    gross := roundHalfEven roundDp (rsum (legs.map (·.gross)))
    proceeds := roundHalfEven roundDp (rsum (legs.map (·.net)))
    legs := legs }

/-- group one security's legs (already in processing order) by disposal date -/
def groupLegs (roundDp : Nat) (ticker : String) (legs : List Leg) : List Disposal :=
  (groupByDate legs).map (fun (d, ls) => mkDisposal roundDp ticker d ls)

def dispLe (a b : Disposal) : Bool :=
  a.date.ord < b.date.ord ∨ (a.date.ord = b.date.ord ∧ a.ticker ≤ b.ticker)

def allDisposals (roundDp : Nat) (rs : List TickerResult) : List Disposal :=
  ((rs.map (fun r => groupLegs roundDp r.ticker r.legs)).flatten).mergeSort dispLe

structure YearSummary where
  year : Int
  disposals : List Disposal
  totalGain : Rat
  totalLoss : Rat
  netGain : Rat
  exempt : Rat
  divIncome : Rat
  divTax : Rat
deriving DecidableEq, Repr, Inhabited

def YearSummary.taxable (y : YearSummary) : Rat := max 0 (y.netGain - y.exempt)

def totals : List Disposal → Rat × Rat
  | [] => (0, 0)
  | d :: ds =>
    let n := d.netGain
    let r := totals ds
    if n > 0 then (r.1 + n, r.2) else if n < 0 then (r.1, r.2 + rabs n) else r

inductive CalcErr
  | matcher (e : MErr)
  | taxYear (e : TaxYearErr)
  | unsupportedExemptionYear (y : Int)
  | invalidDateYear (y : Int)
deriving DecidableEq, Repr

def lookupExemption (ex : List (Int × Rat)) (y : Int) : Option Rat :=
  (ex.find? (fun p => p.1 = y)).map (·.2)

def inYear (y : Int) (d : Date) : Bool :=
  match taxYearOf d with
  | .ok y' => y' = y
  | .error _ => false

/-- a DIVIDEND line whose date lies in tax year `y` (lines whose date has no valid tax year are
    ignored, as in `aggregate_dividends`) -/
def isDivIn (y : Int) (t : Tx) : Bool :=
  match t.op with
  | .dividend _ _ => inYear y t.date
  | _ => false

def divValue (t : Tx) : Rat := match t.op with | .dividend v _ => v | _ => 0
def divTaxOf (t : Tx) : Rat := match t.op with | .dividend _ x => x | _ => 0

/-- `aggregate_dividends`, read at year `y`: (income, tax paid) -/
def dividendsOf (l : List Tx) (y : Int) : Rat × Rat :=
  (rsum ((l.filter (isDivIn y)).map divValue), rsum ((l.filter (isDivIn y)).map divTaxOf))

def mkSummary (ex : List (Int × Rat)) (l : List Tx) (y : Int) (ds : List Disposal) :
    Except CalcErr YearSummary :=
  match lookupExemption ex y with
  | none => .error (.unsupportedExemptionYear y)
  | some e =>
    let t := totals ds
    let dv := dividendsOf l y
    .ok { year := y, disposals := ds, totalGain := t.1, totalLoss := t.2, netGain := t.1 - t.2,
          exempt := e, divIncome := dv.1, divTax := dv.2 }

/-- tax years of a disposal list; the first date without a valid tax year is an error -/
def yearsOf : List Disposal → Except TaxYearErr (List Int)
  | [] => .ok []
  | d :: ds =>
    match taxYearOf d.date with
    | .error e => .error e
    | .ok y =>
      match yearsOf ds with
      | .error e => .error e
      | .ok ys => .ok (y :: ys)

def insertSorted (y : Int) : List Int → List Int
  | [] => [y]
  | x :: xs => if y < x then y :: x :: xs else if y = x then x :: xs else x :: insertSorted y xs

def sortDedup (ys : List Int) : List Int := ys.foldr insertSorted []

def mapExcept (f : α → Except ε β) : List α → Except ε (List β)
  | [] => .ok []
  | a :: as =>
    match f a with
    | .error e => .error e
    | .ok b =>
      match mapExcept f as with
      | .error e => .error e
      | .ok bs => .ok (b :: bs)

structure Report where
  years : List YearSummary
  holdings : List (String × Pool)
deriving DecidableEq, Repr, Inhabited

def holdingsOf (rs : List TickerResult) : List (String × Pool) :=
  (rs.filterMap (fun r => r.pool.map (fun p => (r.ticker, p)))).mergeSort (fun a b => a.1 ≤ b.1)

/-- `build_all_tax_year_summaries` -/
def allYears (ex : List (Int × Rat)) (l : List Tx) (ds : List Disposal) :
    Except CalcErr (List YearSummary) :=
  match yearsOf ds with
  | .error e => .error (.taxYear e)
  | .ok ys =>
    mapExcept (fun y =>
      mkSummary ex l y (ds.filter (fun d => inYear y d.date))) (sortDedup ys)

/-- `build_tax_year_summary`: the `[6 Apr Y, 5 Apr Y+1]` date filter, then the range check -/
def oneYear (ex : List (Int × Rat)) (l : List Tx) (ds : List Disposal) (y : Int) :
    Except CalcErr YearSummary :=
  -- chrono's from_ymd_opt accepts years −262143..=262142
  if y < -262143 ∨ y > 262142 then .error (.invalidDateYear y)
  else if y + 1 > 262142 then .error (.invalidDateYear (y + 1))
  else
    let s : Date := ⟨y, taxYearStartMonth, taxYearStartDay⟩
    let e : Date := ⟨y + 1, taxYearStartMonth, taxYearStartDay - 1⟩
    let sel := ds.filter (fun d => decide (s.ord ≤ d.date.ord ∧ d.date.ord ≤ e.ord))
    match taxYearOf s with
    | .error er => .error (.taxYear er)
    | .ok y' => mkSummary ex l y' sel

/-- everything `calculate` does after the matcher: legs → disposals → year summaries, holdings -/
def reportFrom (roundDp : Nat) (ex : List (Int × Rat)) (year : Option Int) (l : List Tx)
    (rs : List TickerResult) : Except CalcErr Report :=
  let ds := allDisposals roundDp rs
  let ys : Except CalcErr (List YearSummary) :=
    match year with
    | some y => (oneYear ex l ds y).map (fun s => [s])
    | none => allYears ex l ds
  match ys with
  | .error e => .error e
  | .ok ys => .ok { years := ys, holdings := holdingsOf rs }

/-- `calculate` on GBP transactions -/
def calculate (window : Int) (roundDp : Nat) (ex : List (Int × Rat)) (year : Option Int) (l : List Tx) :
    Except CalcErr Report :=
  match run window l with
  | .error e => .error (.matcher e)
  | .ok rs => reportFrom roundDp ex year l rs

end Cgt
