import CgtModel.Basic
import CgtModel.Calendar
namespace Cgt

inductive Op
  | buy (q p f : Rat)
  | sell (q p f : Rat)
  | dividend (v t : Rat)
  | accumulation (q v t : Rat)
  | capreturn (q v f : Rat)
  | split (r : Rat)
  | unsplit (r : Rat)
deriving DecidableEq, Repr, Inhabited

structure Tx where
  date : Date
  ticker : String
  op : Op
deriving DecidableEq, Repr, Inhabited

def Tx.ord (t : Tx) : Int := t.date.ord

def Op.isBuy : Op → Bool | .buy .. => true | _ => false
def Op.isSell : Op → Bool | .sell .. => true | _ => false

inductive Rule | sameDay | bedAndBreakfast | section104
deriving DecidableEq, Repr, Inhabited

/-- one `MatchResult` of the matcher -/
structure Leg where
  sellDate : Date
  rule : Rule
  qty : Rat
  cost : Rat
  gross : Rat
  net : Rat
  gain : Rat
  acq : Option Date
deriving DecidableEq, Repr, Inhabited

structure Pool where
  q : Rat
  c : Rat
deriving DecidableEq, Repr, Inhabited

inductive ErrKind
  | capReturnExceedsCost
  | reservationExceedsBuy
  | exceedsHolding
  | noPriorAcquisition
  | unmatched
deriving DecidableEq, Repr, Inhabited

/-- matcher error with the position that decides which error the flat Rust loop meets first:
    `phase` 0 = cost pre-pass, 1 = main pass; `sub` 0 = the day's BUY stage, 1 = SELL stage;
    `idx` = index in the preprocessed list. -/
structure MErr where
  kind : ErrKind
  ticker : String
  ord : Int
  phase : Nat
  sub : Nat
  idx : Nat
deriving DecidableEq, Repr, Inhabited

def MErr.before (a b : MErr) : Bool :=
  a.phase < b.phase ∨ (a.phase = b.phase ∧
    (a.ord < b.ord ∨ (a.ord = b.ord ∧
      (a.sub < b.sub ∨ (a.sub = b.sub ∧ a.idx ≤ b.idx)))))

end Cgt
/-! GBP-normalised transactions (the matcher's input), legs, pools, errors. -/
