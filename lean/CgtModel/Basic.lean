/-! Exact-rational helpers: powers of ten, the two rounding modes the code uses,
    sums over lists. Core Lean only (the driver is linked natively). -/
namespace Cgt

def pow10 (n : Nat) : Rat := ((10 ^ n : Nat) : Rat)

def rabs (x : Rat) : Rat := if x < 0 then -x else x

/-- `round_dp_with_strategy(n, MidpointAwayFromZero)` -/
def roundHalfAway (n : Nat) (x : Rat) : Rat :=
  let s := rabs (x * pow10 n)
  let fl : Int := s.floor
  let r : Int := if s - (fl : Rat) ≥ 1/2 then fl + 1 else fl
  (if x < 0 then -(r : Rat) else (r : Rat)) / pow10 n

/-- `round_dp(n)` of rust_decimal: midpoint to nearest even (banker's rounding) -/
def roundHalfEven (n : Nat) (x : Rat) : Rat :=
  let s := rabs (x * pow10 n)
  let fl : Int := s.floor
  let frac := s - (fl : Rat)
  let r : Int :=
    if frac > 1/2 then fl + 1
    else if frac < 1/2 then fl
    else if fl % 2 = 0 then fl else fl + 1
  (if x < 0 then -(r : Rat) else (r : Rat)) / pow10 n

def rsum : List Rat → Rat
  | [] => 0
  | x :: xs => x + rsum xs

@[simp] theorem rsum_nil : rsum [] = 0 := rfl
@[simp] theorem rsum_cons (x : Rat) (xs : List Rat) : rsum (x :: xs) = x + rsum xs := rfl

theorem rsum_append (xs ys : List Rat) : rsum (xs ++ ys) = rsum xs + rsum ys := by
  induction xs with
  | nil => simp [rsum]; grind
  | cons x xs ih => simp [rsum, ih]; grind

end Cgt
