import CgtModel.Report
import CgtModel.Lemmas.Prepass
import CgtModel.Lemmas.Sorted
import CgtModel.Lemmas.WellFormed
import CgtModel.Lemmas.Cost
import CgtModel.Lemmas.Offsets
import CgtModel.Props.C02
import CgtModel.Props.Formulas
/-! # C03 — allowable expenditure is conserved

Statement: for every accepted ledger and security, the allowable cost of all disposal legs plus the
cost left in the closing holding equals the total cost of all acquisitions (quantity × price + fees)
plus accumulation amounts minus net capital returns that took effect; nothing is deducted twice,
dropped or moved to another security.

Proved for the model:
* `C03_main_pass_conserves` — whatever rules match the shares, Σ legs' cost + closing pool cost =
  Σ over the security's purchases of (quantity × price + fees + that purchase's cost offset);
* `C03_offsets_split` — that sum is Σ (quantity × price + fees) + Σ offsets;
* `C03_event_moves_offsets_exactly` — each capital return / accumulation that finds shares held
  changes Σ offsets by exactly its (signed) amount, and one that finds none changes nothing
  (`C03_event_without_holding_is_inert`);
* other securities: the result of a security is a function of its own day list (C09).
Partial: the composition "Σ offsets at the end of the pre-pass = Σ effective events" over the whole
pre-pass loop (lots' consumption invariant `0 ≤ consumed ≤ q` through same-day/FIFO consumption) is
not proved; the check evaluates the full equality on the real matcher's output for every case.
Zero-quantity purchases with a cost (accepted by `report` because the validator is not run: known
finding D14) are excluded by `buysNonzero`.
-/
namespace Cgt.C03
open Cgt

theorem totalDayCost_setOffsets (f : Day → Rat) : ∀ ds : List Day,
    totalDayCost (C02.setOffsets f ds) =
      totalDayCost (C02.setOffsets (fun _ => 0) ds) + rsum ((ds.filter (fun d => d.buy.isSome)).map f) := by
  intro ds
  induction ds with
  | nil => simp [C02.setOffsets, totalDayCost]; grind
  | cons d ds ih =>
    simp only [C02.setOffsets, List.map_cons, totalDayCost] at ih ⊢
    rw [ih]
    cases hb : d.buy with
    | none => simp [dayCost, hb]; grind
    | some b => simp [dayCost, hb]; grind

/-- Σ (quantity × price + fees + offset) = Σ (quantity × price + fees) + Σ offsets -/
theorem C03_offsets_split (f : Day → Rat) (ds : List Day) :
    totalDayCost (C02.setOffsets f ds) =
      totalDayCost (C02.setOffsets (fun _ => 0) ds) + rsum ((ds.filter (fun d => d.buy.isSome)).map f) :=
  totalDayCost_setOffsets f ds

theorem buysNonzero_setOffsets (f : Day → Rat) : ∀ ds, buysNonzero ds → buysNonzero (C02.setOffsets f ds)
  | [], _ => trivial
  | _ :: ds, h => ⟨h.1, buysNonzero_setOffsets f ds h.2⟩

/-- **cost conservation of the main pass**, one security -/
theorem C03_main_pass_conserves (t : String) (w : Int) (ds : List Day) (pool : Option Pool)
    (legs : List Leg) (hok : daysOk ds) (hnz : buysNonzero ds) (h : runTicker t w ds = .ok (pool, legs)) :
    ∃ f : Day → Rat, legCost legs + poolC' pool = totalDayCost (C02.setOffsets f ds) := by
  unfold runTicker at h
  split at h
  · cases h
  · rename_i ds' hw
    obtain ⟨f, rfl⟩ := C02.withOffsets_shape t ds ds' hw
    refine ⟨f, ?_⟩
    have hok' := C02.daysOk_setOffsets f ds hok
    have := runDays_cost t w (C02.setOffsets f ds) none [] pool legs hok'
      (buysNonzero_setOffsets f ds hnz) (by simp [poolQ']) (claimsOk_nil _ hok') h
    rw [this, claimCost_nil]
    simp [poolC']; grind

/-- lifted to the all-securities run -/
theorem C03_run_conserves (w : Int) (l : List Tx) (rs : List TickerResult) (h : run w l = .ok rs) :
    ∀ r ∈ rs, daysOk (daysOf r.ticker (preprocess l)) → buysNonzero (daysOf r.ticker (preprocess l)) →
      ∃ f : Day → Rat, legCost r.legs + poolC' r.pool
        = totalDayCost (C02.setOffsets f (daysOf r.ticker (preprocess l))) :=
  fun r hr hok hnz => C03_main_pass_conserves r.ticker w _ r.pool r.legs hok hnz (C02.run_result w l rs h r hr)

/-- **C03 main pass from the raw ledger**: validator-clean and accepted ⇒ for every security the legs'
    allowable cost plus the cost left in the pool equals the purchases' cost plus the pre-pass offsets -/
theorem C03_ledger (w : Int) (l : List Tx) (hwf : WellFormed l) (rs : List TickerResult)
    (h : run w l = .ok rs) :
    ∀ r ∈ rs, ∃ f : Day → Rat, legCost r.legs + poolC' r.pool
        = totalDayCost (C02.setOffsets f (daysOf r.ticker (preprocess l))) :=
  fun r hr => C03_run_conserves w l rs h r hr (wellFormed_days l hwf r.ticker).1 (wellFormed_days l hwf r.ticker).2

/-! ### the full statement: purchases plus the events that took effect -/

/-- Σ quantity × price + fees over the days' purchases -/
def purchases (ds : List Day) : Rat := totalDayCost (C02.setOffsets (fun _ => 0) ds)

theorem purchases_eq (ds : List Day) : purchases ds = purchasesOf ds := by
  unfold purchases purchasesOf
  induction ds with
  | nil => rfl
  | cons d ds ih =>
    simp only [C02.setOffsets, List.map_cons, totalDayCost, rsum_cons] at ih ⊢
    rw [ih]
    cases hb : d.buy <;> simp [dayCost, hb] <;> grind

theorem buyOrds_eq (ds : List Day) :
    (ds.map buyOrd).flatten = (ds.filter (fun d => d.buy.isSome)).map Day.ord := by
  induction ds with
  | nil => rfl
  | cons d ds ih =>
    simp only [List.map_cons, List.flatten_cons, List.filter_cons]
    cases hb : d.buy with
    | none => simp [buyOrd, hb, ih]
    | some b => simp [buyOrd, hb, ih]

/-- **C03 for one security, in full**: with strictly increasing day dates, the legs' allowable cost plus
    the cost left in the pool equals the purchases' cost (quantity × price + fees) plus the signed
    amounts of exactly those accumulation / capital-return events that found shares held -/
theorem C03_security_full (t : String) (w : Int) (ds : List Day) (pool : Option Pool) (legs : List Leg)
    (hok : daysOk ds) (hnz : buysNonzero ds) (hstrict : ds.Pairwise (fun a b => a.ord < b.ord))
    (h : runTicker t w ds = .ok (pool, legs)) :
    legCost legs + poolC' pool = purchases ds + effAll t [] ds := by
  unfold runTicker at h
  split at h
  · cases h
  · rename_i ds' hw
    unfold withOffsets at hw
    split at hw
    · cases hw
    · rename_i lots hpre
      simp only [Except.ok.injEq] at hw
      have hds' : ds' = C02.setOffsets (fun d => offsetFor d.ord lots) ds := hw.symm
      subst hds'
      have hok' := C02.daysOk_setOffsets (fun d => offsetFor d.ord lots) ds hok
      have hcost := runDays_cost t w _ none [] pool legs hok'
        (buysNonzero_setOffsets _ ds hnz) (by simp [poolQ']) (claimsOk_nil _ hok') h
      rw [claimCost_nil] at hcost
      have hsplit := C03_offsets_split (fun d => offsetFor d.ord lots) ds
      obtain ⟨_, hoff, hords⟩ := prepass_props t ds [] lots (fun _ hx => by simp at hx) hok hpre
      have hlo : lotOrds lots = (ds.filter (fun d => d.buy.isSome)).map Day.ord := by
        rw [hords, buyOrds_eq]; simp [lotOrds]
      have hnd : (lotOrds lots).Nodup := by
        rw [hlo]
        have hsub : ((ds.filter (fun d => d.buy.isSome)).map Day.ord).Sublist (ds.map Day.ord) :=
          List.Sublist.map _ List.filter_sublist
        have hp : (ds.map Day.ord).Pairwise (· < ·) := by rw [List.pairwise_map]; exact hstrict
        exact (hp.sublist hsub).imp (fun hlt => by omega)
      have hsum := sum_offsetFor lots hnd
      rw [hlo, List.map_map] at hsum
      have e : ((fun o => offsetFor o lots) ∘ Day.ord) = (fun d : Day => offsetFor d.ord lots) := rfl
      rw [e] at hsum
      unfold purchases
      have hoff0 : offSum ([] : List Lot) = 0 := rfl
      have hnone : poolC' (none : Option Pool) = 0 := rfl
      rw [hsplit, hsum, hoff, hoff0, hnone] at hcost
      grind

/-- **C03 from the raw ledger, in full**: for every validator-clean ledger the matcher accepts and
    every security, Σ legs' allowable cost + cost left in the closing holding = Σ (quantity × price +
    fees) of its purchases + the accumulation amounts − net capital returns that took effect -/
theorem C03_ledger_full (w : Int) (l : List Tx) (hwf : WellFormed l) (rs : List TickerResult)
    (h : run w l = .ok rs) :
    ∀ r ∈ rs, legCost r.legs + poolC' r.pool
      = purchases (daysOf r.ticker (preprocess l)) + effAll r.ticker [] (daysOf r.ticker (preprocess l)) :=
  fun r hr => C03_security_full r.ticker w _ r.pool r.legs (wellFormed_days l hwf r.ticker).1
    (wellFormed_days l hwf r.ticker).2 (daysOf_strict l r.ticker) (C02.run_result w l rs h r hr)

/-- an event that finds shares held moves the total of the offsets by exactly its signed amount -/
theorem C03_event_moves_offsets_exactly (adj : Rat) (lots : List Lot) (hnn : ∀ l ∈ lots, 0 ≤ l.held)
    (hth : totalHeld lots ≠ 0) : offSum (applyAdj adj lots) = offSum lots + adj :=
  applyAdj_sum adj lots hnn hth

theorem C03_event_without_holding_is_inert (adj : Rat) (lots : List Lot) (h : totalHeld lots = 0) :
    applyAdj adj lots = lots := applyAdj_none_held adj lots h

-- non-vacuity
def exDays : List Day :=
  [ { date := ⟨2024, 1, 1⟩, buy := some ⟨0, 100, 2, 5⟩ },
    { date := ⟨2024, 2, 1⟩, sells := [⟨1, 30, 5, 1⟩] },
    { date := ⟨2024, 2, 5⟩, buy := some ⟨3, 20, 3, 2⟩ } ]
def costOf (r : Except MErr (Option Pool × List Leg)) : Rat :=
  match r with | .ok (p, legs) => legCost legs + poolC' p | .error _ => -1
example : costOf (runTicker "A" 30 exDays) = 100 * 2 + 5 + 20 * 3 + 2 := by decide +kernel

-- non-vacuity of "took effect": a capital return and an accumulation while 100 shares are held count,
-- an accumulation after everything was sold does not
def exEvents : List Day :=
  [ { date := ⟨2024, 1, 1⟩, buy := some ⟨0, 100, 2, 5⟩ },
    { date := ⟨2024, 2, 1⟩, caps := [(1, 20)] },
    { date := ⟨2024, 3, 1⟩, accs := [7] },
    { date := ⟨2024, 4, 1⟩, sells := [⟨3, 100, 3, 0⟩] },
    { date := ⟨2024, 5, 1⟩, accs := [9] } ]
example : effAll "A" [] exEvents = -13 ∧ purchases exEvents = 205 := by decide +kernel
example : exEvents.Pairwise (fun a b => a.ord < b.ord) := by decide +kernel

end Cgt.C03
