import CgtModel.Matcher
import CgtModel.Report
import CgtModel.Fx
/-! # The model's arithmetic is the source's arithmetic

`tools/extract.py` (group `formulas`) reads, on every run, the arithmetic of the matcher out of the Rust —
`compute_proceeds`, `match_section_104`, `match_same_day`, the lot accessors and `apply_cost_adjustment` of
acquisition_ledger.rs, the holding test of `process_sell`, `move_buy_to_pool`, `process_corporate_action`,
the helpers of the 30-day rule in bed_and_breakfast.rs and the three merges of `preprocess` — and writes each expression as a Lean function over `Rat`
(`Cgt.Gen.*` in `Generated.lean`). The theorems below state that the hand-written model computes exactly
those functions, for all arguments. An edit of one of these expressions in /repo changes `Generated.lean`
and the corresponding theorem stops checking; an edit that makes the statement untranslatable is reported
by the translator. What the theorems do not cover: control flow around the expressions (loops, map
look-ups, the look-ahead's walk), which stays with the correspondence check. -/
namespace Cgt.Formulas
open Cgt

/-! The model's arithmetic against the arithmetic the translator reads out of the Rust on every run
    (`Generated.lean`, group `formulas`): each formula of the matcher model is the source's formula. -/

/-- `compute_proceeds`: gross and net proceeds of a matched quantity -/
theorem proceeds_is_source (m : Rat) (s : Trade) (h : s.q ≠ 0) :
    proceeds m s = (Gen.cp_gross_proceeds m s.q s.p s.f, Gen.cp_net_proceeds m s.q s.p s.f) := by
  simp [proceeds, h, Gen.cp_gross_proceeds, Gen.cp_net_proceeds, Gen.cp_fees, Gen.cp_proportion]

theorem proceeds_zero_guard (m : Rat) (s : Trade) (h : s.q = 0) : proceeds m s = (0, 0) := by
  simp [proceeds, h]

/-- `match_section_104`: quantity, cost, pool update -/
theorem poolPart_is_source (d : Day) (p : Pool) (rem : Rat) (s : Trade) (hrem : rem > 0) (hq : p.q ≠ 0)
    (hs : s.q ≠ 0) (hm : min rem p.q ≠ 0) :
    poolPart d (some p) rem s =
      (some ⟨Gen.s104_new_quantity rem p.q p.c, Gen.s104_new_total_cost rem p.q p.c⟩, Gen.s104_new_remaining rem p.q p.c,
       [mkLeg d.date .section104 (Gen.s104_matched_qty rem p.q p.c) (Gen.s104_cost rem p.q p.c) s none]) := by
  simp [poolPart, hrem, hq, hs, hm, Gen.s104_new_quantity, Gen.s104_new_total_cost, Gen.s104_new_remaining,
    Gen.s104_matched_qty, Gen.s104_cost, Gen.s104_unit_cost]

/-- a leg's gain is net proceeds less allowable cost, as in both matching functions -/
theorem leg_gain_is_source (date : Date) (rule : Rule) (m cost : Rat) (s : Trade) (acq : Option Date) :
    (mkLeg date rule m cost s acq).gain = Gen.s104_gain (mkLeg date rule m cost s acq).net cost ∧
    (mkLeg date rule m cost s acq).gain = Gen.sd_gain (mkLeg date rule m cost s acq).net cost := by
  simp [mkLeg, Gen.s104_gain, Gen.sd_gain]

/-- `match_same_day`: the matched quantity (the whole sale is still unmatched at that stage) -/
theorem sameDayPart_is_source (d : Day) (b : Trade) (hb : d.buy = some b) (avail : Rat) (s : Trade)
    (h : avail > 0 ∧ s.q > 0) :
    sameDayPart d avail s =
      (Gen.sd_matched_qty s.q avail,
       [mkLeg d.date .sameDay (Gen.sd_matched_qty s.q avail) (Gen.sd_matched_qty s.q avail * unitCost b d.offset) s (some d.date)]) := by
  simp [sameDayPart, hb, h, Gen.sd_matched_qty]

/-- a purchase's unit cost: `adjusted_unit_cost` of `adjusted_cost` of `base_cost` -/
theorem unitCost_is_source (b : Trade) (off : Rat) :
    unitCost b off = Gen.lot_adjusted_unit_cost (Gen.lot_adjusted_cost (Gen.lot_base_cost b.q b.p b.f) off) b.q := by
  simp [unitCost, Gen.lot_adjusted_unit_cost, Gen.lot_adjusted_cost, Gen.lot_base_cost]

/-- a lot of the cost pre-pass: shares held, adjusted cost -/
theorem lot_is_source (l : Lot) :
    l.held = Gen.lot_held_for_adjustment l.q l.consumed ∧
    l.adjCost = Gen.lot_adjusted_cost (Gen.lot_base_cost l.q l.p l.f) l.off := by
  simp [Lot.held, Lot.adjCost, Gen.lot_held_for_adjustment, Gen.lot_adjusted_cost, Gen.lot_base_cost]

/-- `apply_cost_adjustment`: every lot still held gets its share by shares held; the others are left alone -/
theorem applyAdj_is_source (adj : Rat) (lots : List Lot) (h : totalHeld lots ≠ 0) :
    applyAdj adj lots = lots.map (fun l =>
      if l.held > 0 then { l with off := Gen.adj_new_offset l.off (Gen.adj_apportioned adj l.held (totalHeld lots)) } else l) := by
  simp [applyAdj, h, Gen.adj_new_offset, Gen.adj_apportioned]

theorem applyAdj_nothing_held (adj : Rat) (lots : List Lot) (h : totalHeld lots = 0) : applyAdj adj lots = lots := by
  simp [applyAdj, h]

/-- the three merges of `preprocess` (adjacent BUYs, adjacent SELLs, coalesced BUYs): quantity-weighted price -/
theorem mergeTrade_is_source (q p f q' p' f' : Rat) :
    mergeTrade q p f q' p' f' =
      (q + q', if q + q' ≠ 0 then Gen.merge_price (Gen.merge_total q p q' p') (q + q') else p, f + f') := by
  simp [mergeTrade, Gen.merge_price, Gen.merge_total]


/-- `process_sell`: the holding a disposal is tested against, and the test -/
theorem sellStep_refusal_is_source (t : String) (w : Int) (d : Day) (st : MState) (s : Trade) (future : List Day) (cl : List Rat)
    (h : s.q > Gen.sell_total_held st.avail st.poolQ (outK d.r future cl)) :
    sellStep t w d st s future cl = .error ⟨.exceedsHolding, t, d.ord, 1, 1, s.idx⟩ := by
  unfold Gen.sell_total_held at h
  simp [sellStep, h]

theorem sellStep_passes_is_source (t : String) (w : Int) (d : Day) (st : MState) (s : Trade) (future : List Day) (cl : List Rat)
    (e : MErr) (h : sellStep t w d st s future cl = .error e) (hk : e.kind = .exceedsHolding) :
    s.q > Gen.sell_total_held st.avail st.poolQ (outK d.r future cl) := by
  unfold Gen.sell_total_held
  by_cases hgt : s.q > st.avail + st.poolQ - outK d.r future cl
  · exact hgt
  · exfalso
    unfold sellStep at h
    rw [if_neg hgt] at h
    simp only at h
    generalize (if s.q = 0 then (cl, ([] : List Leg), s.q - (sameDayPart d st.avail s).1)
      else lookahead w d.date s (s.q - (sameDayPart d st.avail s).1) d.r future cl) = la at h
    split at h
    · split at h <;> (injection h with h; rw [← h] at hk; cases hk)
    · cases h

/-- `move_buy_to_pool` and `process_corporate_action`: what is left of the day's purchase joins the pool at
    its cost, then the day's split factor multiplies the pooled quantity -/
theorem poolAfter_is_source (d : Day) (b : Trade) (hb : d.buy = some b) (st : MState) (p : Pool) (hp : st.pool = some p)
    (ha : st.avail > 0) :
    poolAfter d st = some ⟨Gen.pool_add_quantity p.q st.avail * d.r, Gen.pool_add_cost p.c (st.avail * unitCost b d.offset)⟩ := by
  simp [poolAfter, hb, hp, ha, Gen.pool_add_quantity, Gen.pool_add_cost]

theorem splitFactor_is_source (q r : Rat) :
    q * splitFactor (.split r) = Gen.split_quantity q r ∧
    q * splitFactor (.unsplit r) = (if r ≠ 0 then Gen.unsplit_quantity q r else q) := by
  constructor
  · simp [splitFactor, Gen.split_quantity]
  · by_cases h : r = 0
    · simp [splitFactor, h]
    · simp [splitFactor, h, Gen.unsplit_quantity]; grind


/-! ### the 30-day rule -/

/-- `available_for_bnb_after_reservations`: what an earlier disposal may still claim of a later day's purchase -/
theorem availFor_is_source (e : Day) (c : Rat) : availFor e c = Gen.bnb_available e.B e.S c := by
  unfold availFor Gen.bnb_available
  grind

/-- one step of the look-ahead at a day with a purchase of which something is available: the quantities in
    the disposal day's and in the purchase day's units, the cost, the claim left on the purchase -/
theorem lookahead_step_is_source (w : Int) (d0 : Date) (s : Trade) (rem k : Rat) (e : Day) (rest : List Day) (cl : List Rat)
    (b : Trade) (hb : e.buy = some b) (hrem : ¬ rem ≤ 0) (hwin : ¬ e.ord - d0.ord > w) (ha : ¬ availFor e (cl.headD 0) ≤ 0) :
    lookahead w d0 s rem k (e :: rest) cl =
      (let a := Gen.bnb_available e.B e.S (cl.headD 0)
       let ms := Gen.bnb_matched_qty_at_sell_time rem a k
       let mb := Gen.bnb_matched_qty_at_buy_time rem a k
       let r := lookahead w d0 s (rem - ms) (k * e.r) rest cl.tail
       (Gen.bnb_new_reserved (cl.headD 0) mb :: r.1,
        mkLeg d0 .bedAndBreakfast ms (Gen.bnb_matched_cost mb b.q b.p b.f e.offset) s (some e.date) :: r.2.1, r.2.2)) := by
  have hu : ∀ mb : Rat, mb * unitCost b e.offset = Gen.bnb_matched_cost mb b.q b.p b.f e.offset := by
    intro mb
    simp [unitCost, Gen.bnb_matched_cost, Gen.bnb_unit_cost, Gen.bnb_total_cost]
  simp only [lookahead, hrem, hwin, if_false, hb, ha]
  rw [hu, availFor_is_source]
  rfl

/-- `outstanding_bnb_claims`: a claim on a later purchase, brought back to the disposal day's units -/
theorem outK_is_source (k : Rat) (e : Day) (rest : List Day) (cl : List Rat) :
    outK k (e :: rest) cl = Gen.bnb_outstanding_add (outK (k * e.r) rest cl.tail) (cl.headD 0) k := by
  simp only [outK, Gen.bnb_outstanding_add]
  grind

/-- `apply_split_ratio_effect`: how a day's SPLIT / UNSPLIT lines move the conversion factor -/
theorem ratio_effect_is_source (k r : Rat) :
    k * splitFactor (.split r) = Gen.bnb_ratio_split k r ∧
    k * splitFactor (.unsplit r) = (if r ≠ 0 then Gen.bnb_ratio_unsplit k r else k) := by
  constructor
  · simp [splitFactor, Gen.bnb_ratio_split]
  · by_cases h : r = 0
    · simp [splitFactor, h]
    · simp [splitFactor, h, Gen.bnb_ratio_unsplit]; grind

theorem bnb_gain_is_source (date : Date) (m cost : Rat) (s : Trade) (acq : Option Date) :
    (mkLeg date .bedAndBreakfast m cost s acq).gain = Gen.bnb_gain (mkLeg date .bedAndBreakfast m cost s acq).net cost := by
  simp [mkLeg, Gen.bnb_gain]


/-! ### the year's totals (calculator.rs) and the conversion of foreign amounts (cgt-money) -/

/-- `calculate_totals`: one disposal's net result joins the gains or the losses -/
theorem totals_is_source (d : Disposal) (ds : List Disposal) :
    totals (d :: ds) = (Gen.totals_gain_step (totals ds).1 d.netGain, Gen.totals_loss_step (totals ds).2 d.netGain) := by
  simp only [totals, Gen.totals_gain_step, Gen.totals_loss_step, rabs]
  by_cases h1 : d.netGain > 0
  · simp [h1]
  · by_cases h2 : d.netGain < 0
    · simp [h1, h2]
    · simp [h1, h2]

/-- the net gain of a year's summary is total gains less total losses, in both report builders -/
theorem netGain_is_source (ex : List (Int × Rat)) (l : List Tx) (y : Int) (ds : List Disposal) (sm : YearSummary)
    (h : mkSummary ex l y ds = .ok sm) : sm.netGain = Gen.net_gain sm.totalGain sm.totalLoss := by
  unfold mkSummary at h
  split at h
  · cases h
  · simp only [Except.ok.injEq] at h
    subst h
    rfl

/-- `CurrencyAmount::to_gbp`: sterling as it is, zero without a rate, otherwise amount ÷ rate per pound -/
theorem toGbp_is_source (c : Cache) (d : Date) (a : CAmt) (r : Rat) (hc : a.cur ≠ "GBP") (hz : a.amt ≠ 0)
    (hr : c.get (a.cur, d.y, d.m) = some r) : toGbpAmt c d a = .ok (Gen.fx_to_gbp a.amt r) := by
  simp [toGbpAmt, hc, hz, hr, Gen.fx_to_gbp]

theorem toGbp_guards_are_source (c : Cache) (d : Date) (a : CAmt) :
    (a.cur = "GBP" → toGbpAmt c d a = .ok a.amt) ∧ (a.cur ≠ "GBP" → a.amt = 0 → toGbpAmt c d a = .ok 0) := by
  constructor
  · intro h; simp [toGbpAmt, h]
  · intro h1 h2; simp [toGbpAmt, h1, h2]

end Cgt.Formulas
