import CgtModel.Report
import CgtModel.Lemmas.Calendar
/-! # C07 — disposals land in the right UK tax year; a year report is the all-years slice

Statement (properties.jsonl): every disposal dated from 6 April Y to 5 April Y+1 inclusive is reported
in tax year Y/Y+1 and in no other, for every Y from 1900 to 2100, and tax years are listed in
ascending order. A report restricted to one year contains exactly that year's disposals, legs and
totals as they appear in the all-years report, computed from the full history, while holdings always
reflect the full history.

The constants (6 April, 1900, 2100, the MCP server's own month/day test) are the ones
`tools/extract.py` reads from the sources on every run; the theorems below are stated over them and
re-checked against them.
-/
namespace Cgt.C07
open Cgt

/-- the constants the property was written against (fails to compile if the code's differ) -/
theorem constants_pinned :
    taxYearStartMonth = 4 ∧ taxYearStartDay = 6 ∧ taxYearMin = 1900 ∧ taxYearMax = 2100 ∧
    mcpYearMonth = 4 ∧ mcpYearMonth2 = 4 ∧ mcpYearDay = 6 := by decide

/-- **6 April Y … 5 April Y+1 ⇔ tax year Y**, for every valid date and every Y in 1900..2100 -/
theorem C07_taxYear_iff (t : Date) (ht : t.ok) (Y : Int) (hY : 1900 ≤ Y ∧ Y ≤ 2100) :
    taxYearOf t = .ok Y ↔ (Date.le ⟨Y, 4, 6⟩ t ∧ Date.le t ⟨Y + 1, 4, 5⟩) := by
  obtain ⟨_, h1, h2, h3, h4, _⟩ := ht
  have hs : taxYearStart t = t.y - 1 ∧ (t.m < 4 ∨ (t.m = 4 ∧ t.d < 6)) ∨
            taxYearStart t = t.y ∧ ¬ (t.m < 4 ∨ (t.m = 4 ∧ t.d < 6)) := by
    unfold taxYearStart
    simp only [taxYearStartMonth, taxYearStartDay]
    by_cases hc : t.m < 4 ∨ (t.m = 4 ∧ t.d < 6)
    · left; exact ⟨if_pos hc, hc⟩
    · right; exact ⟨if_neg hc, hc⟩
  unfold taxYearOf Date.le
  simp only [taxYearMin, taxYearMax]
  generalize taxYearStart t = st at hs
  by_cases c1 : st < 0 ∨ st > 65535
  · simp only [c1, if_true]
    constructor
    · intro h; cases h
    · intro h; omega
  · simp only [c1, if_false]
    by_cases c2 : st < 1900 ∨ st > 2100
    · simp only [c2, if_true]
      constructor
      · intro h; cases h
      · intro h; omega
    · simp only [c2, if_false, Except.ok.injEq]
      constructor
      · intro h; omega
      · intro h; omega

/-- a date outside 6 April 1900 … 5 April 2101 has no tax year (it is an error, not another year) -/
theorem C07_out_of_range (t : Date) (ht : t.ok) (Y : Int) (h : taxYearOf t = .ok Y) :
    1900 ≤ Y ∧ Y ≤ 2100 := by
  unfold taxYearOf at h
  simp only [taxYearMin, taxYearMax] at h
  generalize taxYearStart t = st at h
  by_cases c1 : st < 0 ∨ st > 65535
  · simp only [c1, if_true] at h; cases h
  · simp only [c1, if_false] at h
    by_cases c2 : st < 1900 ∨ st > 2100
    · simp only [c2, if_true] at h; cases h
    · simp only [c2, if_false, Except.ok.injEq] at h; omega

/-- no date lies in two tax years -/
theorem C07_year_unique (t : Date) (Y Y' : Int) (h : taxYearOf t = .ok Y) (h' : taxYearOf t = .ok Y') :
    Y = Y' := by
  rw [h] at h'; simpa using h'

/-- the MCP server's own month/day formula is the same function -/
def mcpYear (t : Date) : Int :=
  if t.m < mcpYearMonth ∨ (t.m = mcpYearMonth2 ∧ t.d < mcpYearDay) then t.y - 1 else t.y

theorem C07_mcp_year_agrees (t : Date) : mcpYear t = taxYearStart t := by
  unfold mcpYear taxYearStart
  simp only [mcpYearMonth, mcpYearMonth2, mcpYearDay, taxYearStartMonth, taxYearStartDay]
  rfl

/-- the `[6 April Y, 5 April Y+1]` ordinal filter of the single-year report selects exactly the dates
    whose tax year is Y -/
theorem C07_range_filter_agrees (t : Date) (ht : t.ok) (Y : Int) (hY : 1900 ≤ Y ∧ Y ≤ 2100) :
    ((⟨Y, taxYearStartMonth, taxYearStartDay⟩ : Date).ord ≤ t.ord ∧
      t.ord ≤ (⟨Y + 1, taxYearStartMonth, taxYearStartDay - 1⟩ : Date).ord) ↔ taxYearOf t = .ok Y := by
  have hs : (⟨Y, 4, 6⟩ : Date).ok := by unfold Date.ok leapP; simp only; omega
  have he : (⟨Y + 1, 4, 5⟩ : Date).ok := by unfold Date.ok leapP; simp only; omega
  rw [C07_taxYear_iff t ht Y hY]
  simp only [taxYearStartMonth, taxYearStartDay]
  have e : (6 : Int) - 1 = 5 := by decide
  rw [e, ord_le_iff _ _ hs ht, ord_le_iff _ _ ht he]

-- ---------------------------------------------------------------------------------------------
-- ascending years

theorem mem_insertSorted (y : Int) : ∀ (l : List Int) (x : Int), x ∈ insertSorted y l ↔ x = y ∨ x ∈ l := by
  intro l
  induction l with
  | nil => intro x; simp [insertSorted]
  | cons a as ih =>
    intro x
    simp only [insertSorted]
    split
    · simp
    · split
      · rename_i h; subst h; simp
      · simp only [List.mem_cons, ih]
        constructor
        · rintro (h | h | h) <;> simp [h]
        · rintro (h | h | h) <;> simp [h]

def StrictAsc : List Int → Prop
  | [] => True
  | [_] => True
  | a :: b :: rest => a < b ∧ StrictAsc (b :: rest)

theorem insertSorted_asc (y : Int) : ∀ l, StrictAsc l → StrictAsc (insertSorted y l) := by
  intro l
  induction l with
  | nil => intro _; simp [insertSorted, StrictAsc]
  | cons a as ih =>
    intro h
    simp only [insertSorted]
    split
    · exact ⟨by assumption, h⟩
    · split
      · exact h
      · rename_i h1 h2
        have hya : a < y := by omega
        cases as with
        | nil => simp [insertSorted, StrictAsc]; exact hya
        | cons b bs =>
          have := ih h.2
          simp only [insertSorted] at this ⊢
          split
          · exact ⟨hya, by rename_i h3; exact ⟨h3, h.2⟩⟩
          · split
            · exact h
            · rename_i h3 h4
              simp only [h3, h4, if_false] at this
              exact ⟨h.1, this⟩

theorem sortDedup_asc (ys : List Int) : StrictAsc (sortDedup ys) := by
  induction ys with
  | nil => simp [sortDedup, StrictAsc]
  | cons y ys ih => simp only [sortDedup, List.foldr_cons]; exact insertSorted_asc y _ ih

theorem mem_sortDedup (ys : List Int) (x : Int) : x ∈ sortDedup ys ↔ x ∈ ys := by
  induction ys with
  | nil => simp [sortDedup]
  | cons y ys ih =>
    simp only [sortDedup, List.foldr_cons] at ih ⊢
    rw [mem_insertSorted, ih]; simp

theorem mapExcept_years (ex : List (Int × Rat)) (l : List Tx) (g : Int → List Disposal) :
    ∀ (ys : List Int) (out : List YearSummary),
      mapExcept (fun y => mkSummary ex l y (g y)) ys = .ok out → out.map (·.year) = ys := by
  intro ys
  induction ys with
  | nil => intro out h; simp [mapExcept] at h; subst h; rfl
  | cons y ys ih =>
    intro out h
    simp only [mapExcept] at h
    split at h
    · cases h
    · rename_i s hs
      split at h
      · cases h
      · rename_i rest hrest
        simp only [Except.ok.injEq] at h
        subst h
        have : s.year = y := by
          unfold mkSummary at hs
          split at hs
          · cases hs
          · simp only [Except.ok.injEq] at hs; subst hs; rfl
        simp [this, ih rest hrest]

/-- tax years of the all-years report are strictly ascending (hence distinct) -/
theorem C07_years_ascending (ex : List (Int × Rat)) (l : List Tx) (ds : List Disposal)
    (out : List YearSummary) (h : allYears ex l ds = .ok out) : StrictAsc (out.map (·.year)) := by
  unfold allYears at h
  split at h
  · cases h
  · rename_i ys _
    rw [mapExcept_years ex l _ _ out h]
    exact sortDedup_asc ys

-- ---------------------------------------------------------------------------------------------
-- the single-year report is the slice of the all-years report

/-- for Y in 1900..2100 the single-year summary is built from exactly the disposals whose tax year
    is Y — the same expression the all-years report uses for Y (empty if Y has no disposals) -/
theorem oneYear_eq (ex : List (Int × Rat)) (l : List Tx) (ds : List Disposal) (Y : Int)
    (hY : 1900 ≤ Y ∧ Y ≤ 2100) (hd : ∀ d ∈ ds, d.date.ok) :
    oneYear ex l ds Y = mkSummary ex l Y (ds.filter (fun d => inYear Y d.date)) := by
  unfold oneYear
  have h1 : ¬ (Y < -262143 ∨ Y > 262142) := by omega
  have h2 : ¬ (Y + 1 > 262142) := by omega
  simp only [h1, h2, if_false]
  have hs : (⟨Y, 4, 6⟩ : Date).ok := by unfold Date.ok leapP; simp only; omega
  have hty : taxYearOf ⟨Y, taxYearStartMonth, taxYearStartDay⟩ = .ok Y := by
    have := (C07_taxYear_iff ⟨Y, 4, 6⟩ hs Y hY).mpr (by unfold Date.le; dsimp only; omega)
    simpa [taxYearStartMonth, taxYearStartDay] using this
  rw [hty]
  simp only
  congr 1
  apply List.filter_congr
  intro d hdm
  have := C07_range_filter_agrees d.date (hd d hdm) Y hY
  unfold inYear
  by_cases hc : taxYearOf d.date = .ok Y
  · have hr := this.mpr hc
    simp [hc, hr]
  · have hr : ¬ _ := fun x => hc (this.mp x)
    simp only [hr, decide_false]
    cases hq : taxYearOf d.date with
    | error e => rfl
    | ok y' =>
      have : y' ≠ Y := by intro e; subst e; exact hc hq
      simp [this]

theorem yearsOf_mem : ∀ (ds : List Disposal) (ys : List Int), yearsOf ds = .ok ys →
    ∀ y ∈ ys, ∃ d ∈ ds, taxYearOf d.date = .ok y := by
  intro ds
  induction ds with
  | nil => intro ys h y hy; simp [yearsOf] at h; subst h; simp at hy
  | cons d ds ih =>
    intro ys h y hy
    simp only [yearsOf] at h
    split at h
    · cases h
    · rename_i y0 hy0
      split at h
      · cases h
      · rename_i ys0 hys0
        simp only [Except.ok.injEq] at h
        subst h
        simp only [List.mem_cons] at hy
        rcases hy with rfl | hy
        · exact ⟨d, by simp, hy0⟩
        · obtain ⟨d', hd', h'⟩ := ih ys0 hys0 y hy
          exact ⟨d', by simp [hd'], h'⟩

theorem mapExcept_mem' {α β ε : Type} (f : α → Except ε β) : ∀ (as : List α) (bs : List β),
    mapExcept f as = .ok bs → ∀ b ∈ bs, ∃ a ∈ as, f a = .ok b := by
  intro as
  induction as with
  | nil => intro bs h b hb; simp [mapExcept] at h; subst h; simp at hb
  | cons a as ih =>
    intro bs h b hb
    simp only [mapExcept] at h
    split at h
    · cases h
    · rename_i b0 hb0
      split at h
      · cases h
      · rename_i bs0 hbs0
        simp only [Except.ok.injEq] at h
        subst h
        simp only [List.mem_cons] at hb
        rcases hb with rfl | hb
        · exact ⟨a, by simp, hb0⟩
        · obtain ⟨a', ha', hf⟩ := ih bs0 hbs0 b hb
          exact ⟨a', by simp [ha'], hf⟩

/-- **the year filter returns exactly the all-years report's entry for that year** -/
theorem C07_filter_is_slice (ex : List (Int × Rat)) (l : List Tx) (ds : List Disposal)
    (hd : ∀ d ∈ ds, d.date.ok) (out : List YearSummary) (h : allYears ex l ds = .ok out) :
    ∀ s ∈ out, oneYear ex l ds s.year = .ok s := by
  intro s hs
  unfold allYears at h
  split at h
  · cases h
  · rename_i ys hys
    obtain ⟨y, hy, hmk⟩ := mapExcept_mem' _ _ _ h s hs
    have hsy : s.year = y := by
      unfold mkSummary at hmk
      split at hmk
      · cases hmk
      · simp only [Except.ok.injEq] at hmk; subst hmk; rfl
    rw [mem_sortDedup] at hy
    obtain ⟨d, hdm, hdy⟩ := yearsOf_mem ds ys hys y hy
    have hr := C07_out_of_range d.date (hd d hdm) y hdy
    rw [hsy, oneYear_eq ex l ds y hr hd]
    exact hmk

/-- a year without disposals: the filtered report is that year's empty summary (still an error if the
    year has no configured exemption) -/
theorem C07_empty_year (ex : List (Int × Rat)) (l : List Tx) (ds : List Disposal) (Y : Int)
    (hY : 1900 ≤ Y ∧ Y ≤ 2100) (hd : ∀ d ∈ ds, d.date.ok)
    (hnone : ∀ d ∈ ds, taxYearOf d.date ≠ .ok Y) :
    oneYear ex l ds Y = mkSummary ex l Y [] := by
  rw [oneYear_eq ex l ds Y hY hd]
  congr 1
  apply List.filter_eq_nil_iff.mpr
  intro d hdm
  have := hnone d hdm
  unfold inYear
  cases hq : taxYearOf d.date with
  | error e => simp
  | ok y' =>
    have : y' ≠ Y := by intro e; subst e; exact this hq
    simp [this]

/-- holdings never depend on the year filter -/
theorem C07_holdings_full_history (w : Int) (dp : Nat) (ex : List (Int × Rat)) (y1 y2 : Option Int)
    (l : List Tx) (r1 r2 : Report) (h1 : calculate w dp ex y1 l = .ok r1)
    (h2 : calculate w dp ex y2 l = .ok r2) : r1.holdings = r2.holdings := by
  unfold calculate reportFrom at h1 h2
  split at h1
  · cases h1
  · rename_i rs hrs
    rw [hrs] at h2
    simp only at h1 h2
    split at h1
    · cases h1
    · split at h2
      · cases h2
      · simp only [Except.ok.injEq] at h1 h2
        subst h1; subst h2; rfl

-- non-vacuity: both boundary days, a leap day
example : taxYearOf ⟨2024, 4, 5⟩ = .ok 2023 := by rfl
example : taxYearOf ⟨2024, 4, 6⟩ = .ok 2024 := by rfl
example : (⟨2024, 2, 29⟩ : Date).ok := by unfold Date.ok leapP; decide
example : (⟨2024, 2, 29⟩ : Date).ord = 738945 := by decide

end Cgt.C07
