import CgtModel.Report
import CgtModel.Props.C02
import CgtModel.Props.C04
import CgtModel.Props.C01
import CgtModel.Props.C14
/-! # C09 — securities are independent; tickers are case-insensitive

Full statement: transactions in one security never change the disposals, legs, costs or holding of
another: the report for several securities equals the combination of the reports for each security's
transactions alone (tax-year totals adding up); ticker spelling differing only in case denotes the
same security in every input format.

Proved for the model:
* `C09_result_depends_only_on_own_days` — the legs and pool reported for security `t` are a function of
  `daysOf t (preprocess l)` alone — the days built from `t`'s own lines of the preprocessed ledger;
* `C09_days_ignore_other_securities` — that day list is unchanged (up to the line indices, which are
  only used to order errors) when every line of every other security is deleted from the
  preprocessed ledger;
* `C09_totals_add` — a year's total gain and loss over a combined disposal list are the sums over the
  parts (so per-security totals add up), in any order of combination.
* `C09_ledger_alone` — **for the matcher model, from the raw ledger** (through `C01_ledger_raw`): the whole
  ledger against one security's own lines, both validator-clean with valid dates and accepted: a
  security without capital events whose SELL lines fall on different days has the same legs (rule,
  quantity, allowable cost, acquisition date, in order) and the same closing pool either way.
Not proved: the same for securities with capital events or several SELL lines on a day — for the latter
it is false on the code as it is (known finding D17: adjacent SELL lines are merged, and a line of
another security between them prevents that); the check compares report(all) with the combination of
per-security reports on the real code, leg by leg outside that class and per (rule, acquisition date)
inside it.
Ticker case (DSL parser, JSON deserialiser) is exercised by the check on the real parser and serde
paths; the parser model's upper-casing theorem is under C13/C14.
-/
namespace Cgt.C09
open Cgt Spec

theorem C09_result_depends_only_on_own_days (w : Int) (l l' : List Tx) (rs rs' : List TickerResult)
    (h : run w l = .ok rs) (h' : run w l' = .ok rs') (r : TickerResult) (r' : TickerResult)
    (hr : r ∈ rs) (hr' : r' ∈ rs') (ht : r.ticker = r'.ticker)
    (hd : daysOf r.ticker (preprocess l) = daysOf r.ticker (preprocess l')) :
    r.pool = r'.pool ∧ r.legs = r'.legs := by
  have a := C02.run_result w l rs h r hr
  have b := C02.run_result w l' rs' h' r' hr'
  rw [← ht, ← hd, a] at b
  simp only [Except.ok.injEq, Prod.mk.injEq] at b
  exact b

/-- day record without the line indices -/
def _root_.Cgt.Trade.core (x : Trade) : Rat × Rat × Rat := (x.q, x.p, x.f)
def _root_.Cgt.Day.core (d : Day) : Date × Option (Rat × Rat × Rat) × List (Rat × Rat × Rat) × Rat × List Rat × List Rat :=
  (d.date, d.buy.map Trade.core, d.sells.map Trade.core, d.r, d.accs, d.caps.map (·.2))

theorem add_core (d d' : Day) (i j : Nat) (op : Op) (h : d.core = d'.core) :
    (d.add i op).core = (d'.add j op).core := by
  simp only [Day.core, Prod.mk.injEq] at h
  obtain ⟨h1, h2, h3, h4, h5, h6⟩ := h
  cases op <;> simp only [Day.add, Day.core, Prod.mk.injEq]
  case buy q p f =>
    cases hb : d.buy <;> cases hb' : d'.buy <;> simp_all [Trade.core]
  case sell q p f => simp_all [Trade.core]
  case dividend => simp_all
  case accumulation => simp_all
  case capreturn => simp_all
  case split => simp_all
  case unsplit => simp_all

theorem merge_core (a a' b b' : Day) (ha : a.core = a'.core) (hb : b.core = b'.core) :
    (a.merge b).core = (a'.merge b').core := by
  simp only [Day.core, Prod.mk.injEq] at ha hb
  obtain ⟨a1, a2, a3, a4, a5, a6⟩ := ha
  obtain ⟨b1, b2, b3, b4, b5, b6⟩ := hb
  simp only [Day.merge, Day.core, Prod.mk.injEq, List.map_append]
  refine ⟨a1, ?_, by rw [a3, b3], by rw [a4, b4], by rw [a5, b5], by rw [a6, b6]⟩
  cases h1 : a.buy <;> cases h2 : a'.buy <;> cases h3 : b.buy <;> cases h4 : b'.buy <;>
    simp_all [Trade.core]

/-- grouping only looks at the transactions, not at their positions -/
theorem groupDays_core : ∀ (xs ys : List (Nat × Tx)), xs.map (·.2) = ys.map (·.2) →
    (groupDays xs).map Day.core = (groupDays ys).map Day.core := by
  intro xs
  induction xs with
  | nil => intro ys h; cases ys <;> simp_all [groupDays]
  | cons x xs ih =>
    intro ys h
    cases ys with
    | nil => simp at h
    | cons y ys =>
      simp only [List.map_cons, List.cons.injEq] at h
      obtain ⟨hxy, hrest⟩ := h
      have ihr := ih ys hrest
      obtain ⟨i, t⟩ := x
      obtain ⟨j, t'⟩ := y
      simp only at hxy
      subst hxy
      simp only [groupDays]
      have hfresh : (({ date := t.date } : Day).add i t.op).core = (({ date := t.date } : Day).add j t.op).core :=
        add_core _ _ i j t.op rfl
      cases hx : groupDays xs with
      | nil =>
        rw [hx] at ihr
        cases hy : groupDays ys with
        | nil => simp [hfresh]
        | cons e es => rw [hy] at ihr; simp at ihr
      | cons d ds =>
        rw [hx] at ihr
        cases hy : groupDays ys with
        | nil => rw [hy] at ihr; simp at ihr
        | cons e es =>
          rw [hy] at ihr
          simp only [List.map_cons, List.cons.injEq] at ihr
          obtain ⟨hde, hdses⟩ := ihr
          have hord : d.ord = e.ord := by
            have : d.date = e.date := by simp only [Day.core, Prod.mk.injEq] at hde; exact hde.1
            unfold Day.ord; rw [this]
          simp only
          rw [hord]
          split
          · simp only [List.map_cons, List.cons.injEq]
            exact ⟨merge_core _ _ _ _ hfresh hde, hdses⟩
          · simp only [List.map_cons, List.cons.injEq]
            exact ⟨hfresh, hde, hdses⟩

/-- deleting every other security's lines from the preprocessed ledger leaves `t`'s days unchanged
    (up to line indices) -/
theorem C09_days_ignore_other_securities (t : String) (pre : List Tx) :
    (daysOf t pre).map Day.core = (daysOf t (pre.filter (fun x => x.ticker = t))).map Day.core := by
  unfold daysOf
  apply groupDays_core
  have key : ∀ l : List Tx, ((indexed l).filter (fun it => it.2.ticker = t)).map (·.2) = l.filter (fun x => x.ticker = t) := by
    intro l
    have h1 : (indexed l).map (·.2) = l := by
      unfold indexed
      simp only [List.map_map]
      have : ((fun x : Nat × Tx => x.2) ∘ fun x : Tx × Nat => (x.2, x.1)) = (fun x : Tx × Nat => x.1) := by
        funext x; rfl
      rw [this]
      exact List.zipIdx_map_fst _ _
    have h2 := List.filter_map (f := fun it : Nat × Tx => it.2) (p := fun x : Tx => decide (x.ticker = t)) (l := indexed l)
    rw [h1] at h2
    rw [h2]
    rfl
  rw [key, key, List.filter_filter]
  simp

/-- totals of a combined disposal list are the sums of the parts' totals -/
theorem C09_totals_add (a b : List Disposal) :
    (totals (a ++ b)).1 = (totals a).1 + (totals b).1 ∧ (totals (a ++ b)).2 = (totals a).2 + (totals b).2 := by
  have ha := C04.C04_totals a
  have hb := C04.C04_totals b
  have hab := C04.C04_totals (a ++ b)
  rw [hab.1, hab.2, ha.1, ha.2, hb.1, hb.2]
  simp only [List.map_append, rsum_append]
  exact ⟨trivial, trivial⟩

/-! ### the matcher model, from the raw ledger -/

/-- the lines of one security -/
def alone (t : String) (l : List Tx) : List Tx := l.filter (fun x => x.ticker = t)

theorem table_alone (t : String) (l : List Tx) : table t (alone t l) = table t l := by
  unfold table alone
  rw [List.filter_filter]
  congr 1
  apply List.filter_congr
  intro x _
  simp

theorem sellOrds_alone (t : String) (l : List Tx) : sellOrds t (alone t l) = sellOrds t l := by
  unfold alone
  induction l with
  | nil => rfl
  | cons x xs ih =>
    simp only [List.filter_cons]
    by_cases h : x.ticker = t
    · simp only [h, decide_true, if_true, sellOrds_cons, ih]
    · simp only [h, decide_false, Bool.false_eq_true, if_false, sellOrds_cons, ih]
      simp [so, h]

/-- **C09 for the matcher model, from the raw ledger**: the ledger against one security's lines alone,
    both validator-clean with valid dates and accepted: a security without capital events whose SELL
    lines fall on different days has the same legs (rule, quantity, allowable cost, acquisition date, in
    order) and the same closing pool whether or not the other securities' lines are present. -/
theorem C09_ledger_alone (l : List Tx) (hw : WellFormed l) (hd : Spec.DatesOk l) (t : String)
    (hne : noEventLines t l) (hone : oneSellPerDay t l)
    (rs rs' : List TickerResult) (h : run bnbWindowDays l = .ok rs) (h' : run bnbWindowDays (alone t l) = .ok rs') :
    ∀ r ∈ rs, ∀ r' ∈ rs', r.ticker = t → r'.ticker = t →
      r'.legs.map legView = r.legs.map legView ∧ poolQ' r'.pool = poolQ' r.pool ∧ poolC' r'.pool = poolC' r.pool := by
  intro r hr r' hr' ht ht'
  have hsub : ∀ x ∈ alone t l, x ∈ l := fun x hx => (List.mem_filter.mp hx).1
  have hw' : WellFormed (alone t l) := fun x hx => hw x (hsub x hx)
  have hd' : Spec.DatesOk (alone t l) := fun x hx => hd x (hsub x hx)
  have hne' : noEventLines t (alone t l) := fun x hx => hne x (hsub x hx)
  have hone' : oneSellPerDay t (alone t l) := by unfold oneSellPerDay; rw [sellOrds_alone]; exact hone
  have c := C01.C01_ledger_raw l hw hd rs h r hr (ht ▸ hne) (ht ▸ hone)
  have c' := C01.C01_ledger_raw (alone t l) hw' hd' rs' h' r' hr' (ht' ▸ hne') (ht' ▸ hone')
  simp only at c c'
  have hid : Spec.identify bnbWindowDays t (alone t l) = Spec.identify bnbWindowDays t l := by
    unfold Spec.identify; rw [table_alone]
  rw [ht] at c; rw [ht', hid] at c'
  exact ⟨by rw [c'.2.2, c.2.2], by rw [← c'.1, ← c.1], by rw [← c'.2.1, ← c.2.1]⟩


end Cgt.C09
