import CgtModel.Awards
/-! # C19 — RSU vests use the nearest vest date within seven days back, never a guess

Proved for the model of `get_fmv` over any entry map, symbol and deposit date, with the look-back
bounds read from the source on every run (`rsuLookbackFrom = 1`, `rsuLookbackDays = 7`):
* `C19_lookup_sound` — a result (v, p) has v ≤ d, d − 7 ≤ v, p is the map's value for (SYMBOL, v), and
  no date strictly between v and d (nor d itself, when v < d) has an entry: v is the closest;
* `C19_lookup_complete` — no result iff no date in [d − 7, d] has an entry for the symbol;
* `C19_never_later_nor_older` — in particular an entry after the deposit date or more than 7 days before
  it is never used;
* `C19_case_insensitive` — the symbol is upper-cased before the look-up;
* `C19_vest_value_wins` — within one award, if some detail carries a vest market value, only vest
  entries are inserted (the fallback price is not);
* `C19_last_duplicate_wins` — of two inserts for the same key the later one is returned.
"No awards file → the conversion fails naming symbol and date" is the converter's branch, checked on
the real converter by the correspondence.
-/
namespace Cgt.C19
open Cgt Cgt.Awards

theorem bounds_pinned : rsuLookbackFrom = 1 ∧ rsuLookbackDays = 7 := by decide

theorem lookback_sound (es : List Entry) (sym : String) (d : Int) : ∀ (fuel : Nat) (k : Int) (v : Int) (p : Rat),
    lookback es sym d k fuel = some (v, p) →
      getE es sym v = some p ∧ d - v ≥ k ∧ d - v < k + fuel ∧
      ∀ j : Int, k ≤ j → j < d - v → getE es sym (d - j) = none := by
  intro fuel
  induction fuel with
  | zero => intro k v p h; simp [lookback] at h
  | succ n ih =>
    intro k v p h
    simp only [lookback] at h
    cases hg : getE es sym (d - k) with
    | some q =>
      rw [hg] at h
      simp only [Option.some.injEq, Prod.mk.injEq] at h
      obtain ⟨rfl, rfl⟩ := h
      refine ⟨hg, by omega, by omega, ?_⟩
      intro j h1 h2; omega
    | none =>
      rw [hg] at h
      obtain ⟨a, b, c, e⟩ := ih (k + 1) v p h
      refine ⟨a, by omega, by omega, ?_⟩
      intro j h1 h2
      by_cases hj : j = k
      · subst hj; exact hg
      · exact e j (by omega) h2

theorem lookback_none (es : List Entry) (sym : String) (d : Int) : ∀ (fuel : Nat) (k : Int),
    lookback es sym d k fuel = none ↔ ∀ j : Int, k ≤ j → j < k + fuel → getE es sym (d - j) = none := by
  intro fuel
  induction fuel with
  | zero => intro k; simp [lookback]; intro j h1 h2; omega
  | succ n ih =>
    intro k
    simp only [lookback]
    cases hg : getE es sym (d - k) with
    | some q =>
      simp only [false_iff, reduceCtorEq]
      intro h
      have := h k (by omega) (by omega)
      rw [hg] at this; cases this
    | none =>
      simp only
      rw [ih (k + 1)]
      constructor
      · intro h j h1 h2
        by_cases hj : j = k
        · subst hj; exact hg
        · exact h j (by omega) (by omega)
      · intro h j h1 h2
        exact h j (by omega) (by omega)

/-- **soundness**: the entry used is the map's entry for the closest date in [d − 7, d] -/
theorem C19_lookup_sound (es : List Entry) (symbol : String) (d v : Int) (p : Rat)
    (h : lookup es symbol d = some (v, p)) :
    getE es symbol.toUpper v = some p ∧ v ≤ d ∧ d - rsuLookbackDays ≤ v ∧
      ∀ u : Int, v < u → u ≤ d → getE es symbol.toUpper u = none := by
  unfold lookup at h
  simp only at h
  cases hg : getE es symbol.toUpper d with
  | some q =>
    rw [hg] at h
    simp only [Option.some.injEq, Prod.mk.injEq] at h
    obtain ⟨rfl, rfl⟩ := h
    refine ⟨hg, by omega, by simp only [rsuLookbackDays]; omega, ?_⟩
    intro u h1 h2; omega
  | none =>
    rw [hg] at h
    have := lookback_sound es symbol.toUpper d _ _ v p h
    simp only [rsuLookbackFrom, rsuLookbackDays] at this ⊢
    obtain ⟨a, b, c, e⟩ := this
    refine ⟨a, by omega, by omega, ?_⟩
    intro u h1 h2
    by_cases hu : u = d
    · subst hu; exact hg
    · have := e (d - u) (by omega) (by omega)
      have e2 : d - (d - u) = u := by omega
      rw [e2] at this; exact this

/-- **completeness**: the look-up fails exactly when no date of the window has an entry -/
theorem C19_lookup_complete (es : List Entry) (symbol : String) (d : Int) :
    lookup es symbol d = none ↔ ∀ u : Int, d - rsuLookbackDays ≤ u → u ≤ d → getE es symbol.toUpper u = none := by
  unfold lookup
  simp only
  cases hg : getE es symbol.toUpper d with
  | some q =>
    simp only [false_iff, reduceCtorEq]
    intro h
    have := h d (by simp only [rsuLookbackDays]; omega) (by omega)
    rw [hg] at this; cases this
  | none =>
    simp only
    rw [lookback_none]
    simp only [rsuLookbackFrom, rsuLookbackDays]
    constructor
    · intro h u h1 h2
      by_cases hu : u = d
      · subst hu; exact hg
      · have := h (d - u) (by omega) (by omega)
        have e2 : d - (d - u) = u := by omega
        rw [e2] at this; exact this
    · intro h j h1 h2
      exact h (d - j) (by omega) (by omega)

theorem C19_never_later_nor_older (es : List Entry) (symbol : String) (d v : Int) (p : Rat)
    (h : lookup es symbol d = some (v, p)) : v ≤ d ∧ d - 7 ≤ v := by
  have := C19_lookup_sound es symbol d v p h
  simp only [rsuLookbackDays] at this
  exact ⟨this.2.1, this.2.2.1⟩

theorem C19_case_insensitive (es : List Entry) (s s' : String) (d : Int) (h : s.toUpper = s'.toUpper) :
    lookup es s d = lookup es s' d := by
  unfold lookup; rw [h]

theorem C19_last_duplicate_wins (es : List Entry) (sym : String) (ord : Int) (p : Rat) :
    getE (es ++ [((sym, ord), p)]) sym ord = some p := by
  simp [getE]

/-- a detail with a vest market value marks the award as "inserted": the fallback is then not added -/
theorem C19_vest_value_wins (sym : String) (parent : Int) (a : Acc) (d : Detail) (v : Rat)
    (hv : d.vestFmv = some (some v)) :
    (detailStep sym parent a d).inserted = true ∧
    (detailStep sym parent a d).entries = a.entries ++ [((sym, d.vestDate.getD parent), v)] := by
  unfold detailStep extract
  simp only [hv]
  split <;> (split <;> simp_all)

theorem inserted_monotone (sym : String) (parent : Int) (a : Acc) (d : Detail) (h : a.inserted = true) :
    (detailStep sym parent a d).inserted = true := by
  unfold detailStep
  split
  · rename_i date v isVest _
    cases isVest <;> simp <;> split <;> simp_all
  · exact h

-- non-vacuity
def exEntries : List Entry := [(("ACME", 100), 10), (("ACME", 95), 9), (("ACME", 103), 11)]
example : lookup exEntries "acme" 102 = some (100, 10) := by decide +kernel
example : lookup exEntries "acme" 111 = none := by decide +kernel
example : lookup exEntries "acme" 110 = some (103, 11) := by decide +kernel

end Cgt.C19
