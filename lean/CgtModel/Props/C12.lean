import CgtModel.Report
import CgtModel.Lemmas.Prefix
/-! # C12 — figures for earlier years do not change when later transactions are added

Statement: once every transaction up to 30 days after a disposal is present, its legs, costs and gain
are final: appending purchases, sales, splits or dividends dated more than 30 days after it leaves
them unchanged and never turns an accepted ledger into one rejected because of the earlier period
(capital returns and accumulations excluded).

Proved for the model of the main pass (one security, with the cost offsets of the history's purchases
given): `C12_prefix_stable` — if every day of the continuation lies beyond the 30-day window of every
day of the history, running history ++ continuation is: run the history; then run the continuation
from the pool the history left, with no claims carried over. Hence
* `C12_legs_are_a_prefix` — the legs of the history's disposals are exactly those of the history
  alone (same legs, same costs, same gains), followed by the continuation's;
* `C12_rejection_comes_from_the_continuation` — if the history alone is accepted and the extended
  ledger is rejected, the error is the one the continuation produces when run from the history's
  closing pool.
Not proved: that the cost pre-pass leaves the history's offsets unchanged when the continuation has no
capital return / accumulation (it does: only those events write offsets), and the lift through
preprocessing; both are exercised by the check on the real code.
-/
namespace Cgt.C12
open Cgt

theorem C12_prefix_stable (t : String) (w : Int) (ps es : List Day) (hfar : allFar w ps es) :
    runDays t w none (ps ++ es) [] =
      (match runDays t w none ps [] with
       | .error e => .error e
       | .ok (pool1, legs1) =>
         match runDays t w pool1 es [] with
         | .error e => .error e
         | .ok (pool2, legs2) => .ok (pool2, legs1 ++ legs2)) :=
  runDays_append t w es ps none [] hfar (by simp)

theorem C12_legs_are_a_prefix (t : String) (w : Int) (ps es : List Day) (hfar : allFar w ps es)
    (pool1 : Option Pool) (legs1 : List Leg) (h1 : runDays t w none ps [] = .ok (pool1, legs1))
    (pool2 : Option Pool) (legs : List Leg) (h : runDays t w none (ps ++ es) [] = .ok (pool2, legs)) :
    ∃ legs2, legs = legs1 ++ legs2 ∧ runDays t w pool1 es [] = .ok (pool2, legs2) := by
  rw [C12_prefix_stable t w ps es hfar, h1] at h
  simp only at h
  cases h2 : runDays t w pool1 es [] with
  | error e => rw [h2] at h; cases h
  | ok r =>
    obtain ⟨p, l⟩ := r
    rw [h2] at h
    simp only [Except.ok.injEq, Prod.mk.injEq] at h
    obtain ⟨rfl, rfl⟩ := h
    exact ⟨l, rfl, rfl⟩

theorem C12_rejection_comes_from_the_continuation (t : String) (w : Int) (ps es : List Day)
    (hfar : allFar w ps es) (pool1 : Option Pool) (legs1 : List Leg)
    (h1 : runDays t w none ps [] = .ok (pool1, legs1)) (e : MErr)
    (h : runDays t w none (ps ++ es) [] = .error e) : runDays t w pool1 es [] = .error e := by
  rw [C12_prefix_stable t w ps es hfar, h1] at h
  simp only at h
  cases h2 : runDays t w pool1 es [] with
  | error e' => rw [h2] at h; simpa using h
  | ok r => obtain ⟨p, l⟩ := r; rw [h2] at h; cases h

/-- the window constant the hypothesis `allFar` is about is the extracted one -/
theorem window_is_30 : bnbWindowDays = 30 := by decide

-- non-vacuity: a history whose last disposal is followed, 31 days later, by a repurchase
def hist : List Day :=
  [ { date := ⟨2024, 1, 1⟩, buy := some ⟨0, 100, 1, 0⟩ }, { date := ⟨2024, 2, 1⟩, sells := [⟨1, 40, 2, 0⟩] } ]
def cont : List Day := [ { date := ⟨2024, 3, 3⟩, buy := some ⟨2, 40, 3, 0⟩ } ]
example : allFar 30 hist cont := by
  intro d hd
  simp only [hist, List.mem_cons, List.mem_singleton, List.not_mem_nil, or_false] at hd
  rcases hd with rfl | rfl <;> (simp only [farFrom, cont]; decide)

end Cgt.C12
