import CgtModel.Report
import CgtModel.Lemmas.Prefix
import CgtModel.Lemmas.PrepassAppend
import CgtModel.Props.C02
/-! # C12 — figures for earlier years do not change when later transactions are added

Statement: once every transaction up to 30 days after a disposal is present, its legs, costs and gain
are final: appending purchases, sales, splits or dividends dated more than 30 days after it leaves
them unchanged and never turns an accepted ledger into one rejected because of the earlier period
(capital returns and accumulations excluded).

Proved for the model of the main pass (one security, with the cost offsets of the history's purchases
given): `C12_prefix_stable` — if every day of the continuation lies beyond the 30-day window of every
day of the history, running history ++ continuation is: run the history; then run the continuation
from the pool the history left, with no claims carried over. Hence
* `C12_legs_are_a_prefix` — the legs of the history's disposals are exactly those of the history
  alone (same legs, same costs, same gains), followed by the continuation's;
* `C12_rejection_comes_from_the_continuation` — if the history alone is accepted and the extended
  ledger is rejected, the error is the one the continuation produces when run from the history's
  closing pool.
* `C12_offsets_unchanged`, `C12_security_prefix_stable` — the cost pre-pass included: a continuation
  without capital returns / accumulations leaves every offset of the history's purchases unchanged
  (only those events write offsets), so for one security's day list the whole run (pre-pass + main
  pass) of history ++ continuation is the history's run followed by the continuation's, from the
  history's closing pool.
Not proved: the lift through preprocessing (that the day list of `l ++ later lines` is the day list of
`l` followed by that of the later lines); it is exercised by the check on the real code.
-/
namespace Cgt.C12
open Cgt

theorem C12_prefix_stable (t : String) (w : Int) (ps es : List Day) (hfar : allFar w ps es) :
    runDays t w none (ps ++ es) [] =
      (match runDays t w none ps [] with
       | .error e => .error e
       | .ok (pool1, legs1) =>
         match runDays t w pool1 es [] with
         | .error e => .error e
         | .ok (pool2, legs2) => .ok (pool2, legs1 ++ legs2)) :=
  runDays_append t w es ps none [] hfar (by simp)

theorem C12_legs_are_a_prefix (t : String) (w : Int) (ps es : List Day) (hfar : allFar w ps es)
    (pool1 : Option Pool) (legs1 : List Leg) (h1 : runDays t w none ps [] = .ok (pool1, legs1))
    (pool2 : Option Pool) (legs : List Leg) (h : runDays t w none (ps ++ es) [] = .ok (pool2, legs)) :
    ∃ legs2, legs = legs1 ++ legs2 ∧ runDays t w pool1 es [] = .ok (pool2, legs2) := by
  rw [C12_prefix_stable t w ps es hfar, h1] at h
  simp only at h
  cases h2 : runDays t w pool1 es [] with
  | error e => rw [h2] at h; cases h
  | ok r =>
    obtain ⟨p, l⟩ := r
    rw [h2] at h
    simp only [Except.ok.injEq, Prod.mk.injEq] at h
    obtain ⟨rfl, rfl⟩ := h
    exact ⟨l, rfl, rfl⟩

theorem C12_rejection_comes_from_the_continuation (t : String) (w : Int) (ps es : List Day)
    (hfar : allFar w ps es) (pool1 : Option Pool) (legs1 : List Leg)
    (h1 : runDays t w none ps [] = .ok (pool1, legs1)) (e : MErr)
    (h : runDays t w none (ps ++ es) [] = .error e) : runDays t w pool1 es [] = .error e := by
  rw [C12_prefix_stable t w ps es hfar, h1] at h
  simp only at h
  cases h2 : runDays t w pool1 es [] with
  | error e' => rw [h2] at h; simpa using h
  | ok r => obtain ⟨p, l⟩ := r; rw [h2] at h; cases h

/-- the window constant the hypothesis `allFar` is about is the extracted one -/
theorem window_is_30 : bnbWindowDays = 30 := by decide

-- non-vacuity: a history whose last disposal is followed, 31 days later, by a repurchase
def hist : List Day :=
  [ { date := ⟨2024, 1, 1⟩, buy := some ⟨0, 100, 1, 0⟩ }, { date := ⟨2024, 2, 1⟩, sells := [⟨1, 40, 2, 0⟩] } ]
def cont : List Day := [ { date := ⟨2024, 3, 3⟩, buy := some ⟨2, 40, 3, 0⟩ } ]
example : allFar 30 hist cont := by
  intro d hd
  simp only [hist, List.mem_cons, List.mem_singleton, List.not_mem_nil, or_false] at hd
  rcases hd with rfl | rfl <;> (simp only [farFrom, cont]; decide)

/-! ### with the cost pre-pass -/

theorem farFrom_setOffsets (f : Day → Rat) (w : Int) (d0 : Date) (es : List Day) (h : farFrom w d0 es) :
    farFrom w d0 (C02.setOffsets f es) := by
  cases es with
  | nil => trivial
  | cons e rest => exact h

theorem allFar_setOffsets (f g : Day → Rat) (w : Int) (ps es : List Day) (h : allFar w ps es) :
    allFar w (C02.setOffsets f ps) (C02.setOffsets g es) := by
  intro d hd
  unfold C02.setOffsets at hd
  simp only [List.mem_map] at hd
  obtain ⟨d0, hd0, rfl⟩ := hd
  exact farFrom_setOffsets g w _ es (h d0 hd0)

/-- a continuation without cost events leaves every cost offset as the history alone gives it -/
theorem C12_offsets_unchanged (t : String) (ps es : List Day) (hok : daysOk (ps ++ es)) (hne : noEvents es)
    (lots1 : List Lot) (h1 : prepass t [] ps = .ok lots1) :
    ∃ lots2, prepass t [] (ps ++ es) = .ok lots2 ∧ ∀ o, offsetFor o lots2 = offsetFor o lots1 := by
  have hokps : daysOk ps := by
    clear h1 hne
    induction ps with
    | nil => trivial
    | cons d ps ih => exact ⟨hok.1, ih hok.2⟩
  have hokes : daysOk es := by
    clear h1 hne hokps
    induction ps with
    | nil => exact hok
    | cons d ps ih => exact ih hok.2
  obtain ⟨hinv, _, _⟩ := prepass_props t ps [] lots1 (fun _ hx => by simp at hx) hokps h1
  obtain ⟨lots2, h2, hk⟩ := prepass_noEvents t es lots1 hinv hokes hne
  refine ⟨lots2, ?_, fun o => offsets_after_noEvents t es lots1 lots2 hk o⟩
  rw [prepass_append, h1]; exact h2

/-- **C12 for one security, pre-pass included**: history ++ far-later days without cost events =
    the history's run, then the later days from the pool it left -/
theorem C12_security_prefix_stable (t : String) (w : Int) (ps es : List Day) (hok : daysOk (ps ++ es))
    (hne : noEvents es) (hfar : allFar w ps es) (pool1 : Option Pool) (legs1 : List Leg)
    (h1 : runTicker t w ps = .ok (pool1, legs1)) :
    ∃ f : Day → Rat, runTicker t w (ps ++ es) =
      (match runDays t w pool1 (C02.setOffsets f es) [] with
       | .error e => .error e
       | .ok (pool2, legs2) => .ok (pool2, legs1 ++ legs2)) := by
  unfold runTicker withOffsets at h1
  split at h1
  · cases h1
  · rename_i ds' hw
    split at hw
    · cases hw
    · rename_i lots1 hp1
      simp only [Except.ok.injEq] at hw
      obtain ⟨lots2, hp2, hoff⟩ := C12_offsets_unchanged t ps es hok hne lots1 hp1
      refine ⟨fun d => offsetFor d.ord lots1, ?_⟩
      unfold runTicker withOffsets
      rw [hp2]
      simp only
      have e : List.map (fun d => { d with offset := offsetFor d.ord lots2 }) (ps ++ es)
          = C02.setOffsets (fun d => offsetFor d.ord lots1) ps ++ C02.setOffsets (fun d => offsetFor d.ord lots1) es := by
        simp only [C02.setOffsets, List.map_append, hoff]
      rw [e, C12_prefix_stable t w _ _ (allFar_setOffsets _ _ w ps es hfar)]
      have hps : C02.setOffsets (fun d => offsetFor d.ord lots1) ps = ds' := by rw [← hw]; rfl
      rw [hps, h1]

end Cgt.C12
