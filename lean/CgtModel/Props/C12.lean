import CgtModel.Props.C12Core
import CgtModel.Props.C16
/-! # C12 — the finished year, record for record and in the same order

`Props/C12Core.lean` holds C12's theorems up to `C12_year_final`, which shows a finished tax year's
disposals equal *up to the order of listing*. This file removes that reservation. The report lists
disposals sorted by (date, security); for an accepted ledger with real calendar dates no two disposals
share that key (C16's lemmas: one security's disposals have pairwise different dates, different
securities have different tickers), so the sorted list is determined by its members, the year's slice of
a sorted list is sorted, and two slices with the same members are the same list.

* `allDisposals_antisymm` — on the disposals of an accepted run, `dispLe` is antisymmetric;
* `run_keys` — an accepted ledger with real dates gives pairwise different tickers and dated legs;
* `C12_year_exact` — **the finished year's disposal list is the same list** (`=`, not `Perm`);
* `C12_year_summary_exact` — and so the whole `YearSummary` of tax year `y` is the same record.
-/
namespace Cgt.C12
open Cgt

/-- two disposals of a run with pairwise different tickers and dated legs that compare equal under the
    report's order are the same record -/
theorem allDisposals_antisymm (dp : Nat) (rs : List TickerResult)
    (hnd : (rs.map (·.ticker)).Nodup) (hdates : ∀ r ∈ rs, ∀ x ∈ r.legs, x.sellDate.ok)
    (a b : Disposal) (ha : a ∈ allDisposals dp rs) (hb : b ∈ allDisposals dp rs)
    (hab : dispLe a b = true) (hba : dispLe b a = true) : a = b := by
  have inj : ∀ r ∈ rs, ∀ r' ∈ rs, r.ticker = r'.ticker → r = r' := by
    intro r hr r' hr' e
    exact C16.nodup_map_inj (·.ticker) rs hnd r hr r' hr' e
  unfold allDisposals at ha hb
  rw [List.mem_mergeSort] at ha hb
  simp only [List.mem_flatten, List.mem_map] at ha hb
  obtain ⟨_, ⟨r, hr, rfl⟩, ha⟩ := ha
  obtain ⟨_, ⟨r', hr', rfl⟩, hb⟩ := hb
  obtain ⟨ta, x, hx, da⟩ := C16.groupLegs_fields dp _ _ a ha
  obtain ⟨tb, x', hx', db⟩ := C16.groupLegs_fields dp _ _ b hb
  unfold dispLe at hab hba
  simp only [Bool.or_eq_true, decide_eq_true_eq, Bool.decide_or, Bool.decide_and, Bool.and_eq_true] at hab hba
  have hord : a.date.ord = b.date.ord := by
    rcases hab with h | h <;> rcases hba with h' | h' <;> omega
  have htk : a.ticker = b.ticker := by
    rcases hab with h | h
    · omega
    · rcases hba with h' | h'
      · omega
      · exact String.le_antisymm h.2 h'.2
  have hrr : r = r' := inj r hr r' hr' (by rw [← ta, ← tb, htk])
  subst hrr
  have hdate : a.date = b.date := by
    apply Spec.ord_inj _ _ _ _ hord
    · rw [da]; exact hdates r hr x hx
    · rw [db]; exact hdates r hr x' hx'
  exact C16.groupLegs_date_inj dp _ _ a b ha hb hdate

/-- an accepted ledger with real calendar dates: the per-security results carry pairwise different tickers
    and every leg is dated by a real date -/
theorem run_keys (l : List Tx) (hd : Spec.DatesOk l) (rs : List TickerResult)
    (h : run bnbWindowDays l = .ok rs) :
    (rs.map (·.ticker)).Nodup ∧ ∀ r ∈ rs, ∀ x ∈ r.legs, x.sellDate.ok := by
  constructor
  · rw [run_tickers bnbWindowDays l rs h]
    unfold tickersOf
    exact C16.nodup_eraseDups _ _ (Nat.le_refl _)
  · intro r hr x hx
    have hrun := C02.run_result bnbWindowDays l rs h r hr
    unfold runTicker at hrun
    split at hrun
    · cases hrun
    · rename_i ds' hw
      obtain ⟨d, hdm, e⟩ := runDays_sellDate r.ticker bnbWindowDays ds' none r.pool [] r.legs hrun x hx
      unfold withOffsets at hw
      split at hw
      · cases hw
      · simp only [Except.ok.injEq] at hw
        subst hw
        simp only [List.mem_map] at hdm
        obtain ⟨d0, hd0, rfl⟩ := hdm
        obtain ⟨b, hb, eb⟩ := daysOf_date_mem r.ticker l d0 hd0
        rw [e]
        show d0.date.ok
        rw [eb]
        exact hd b hb

theorem allDisposals_sorted (dp : Nat) (rs : List TickerResult) :
    (allDisposals dp rs).Pairwise (fun a b => dispLe a b = true) :=
  List.pairwise_mergeSort (fun a b c => C16.dispLe_trans a b c) C16.dispLe_total _

/-- **C12 at report level, exactly.** Under the hypotheses of `C12_year_final` and real calendar dates, tax
    year `y`'s disposal list in the extended ledger's report *is* the history's: the same records in the
    same order. -/
theorem C12_year_exact (dp : Nat) (l s : List Tx) (hw : WellFormed (l ++ s)) (hd : Spec.DatesOk (l ++ s))
    (hfar : ∀ a ∈ l, ∀ b ∈ s, b.ord - a.ord > bnbWindowDays) (hne : ∀ t, noEventLines t s)
    (rs1 rs : List TickerResult) (h1 : run bnbWindowDays l = .ok rs1) (h : run bnbWindowDays (l ++ s) = .ok rs)
    (y : Int) (hy : ∀ b ∈ s, inYear y b.date = false) :
    (allDisposals dp rs).filter (fun d => inYear y d.date) = (allDisposals dp rs1).filter (fun d => inYear y d.date) := by
  obtain ⟨hperm, _, _⟩ := C12_year_final dp l s hw hfar hne rs1 rs h1 h y hy
  obtain ⟨hnd, hdates⟩ := run_keys (l ++ s) hd rs h
  apply List.Perm.eq_of_pairwise (le := fun a b => dispLe a b = true)
  · intro a b ha hb hab hba
    rw [← hperm.mem_iff] at hb
    exact allDisposals_antisymm dp rs hnd hdates a b (List.mem_filter.mp ha).1 (List.mem_filter.mp hb).1 hab hba
  · exact (allDisposals_sorted dp rs).filter _
  · exact (allDisposals_sorted dp rs1).filter _
  · exact hperm

/-- … and the year's whole summary record is the same. -/
theorem C12_year_summary_exact (dp : Nat) (ex : List (Int × Rat)) (l s : List Tx) (hw : WellFormed (l ++ s))
    (hd : Spec.DatesOk (l ++ s))
    (hfar : ∀ a ∈ l, ∀ b ∈ s, b.ord - a.ord > bnbWindowDays) (hne : ∀ t, noEventLines t s)
    (rs1 rs : List TickerResult) (h1 : run bnbWindowDays l = .ok rs1) (h : run bnbWindowDays (l ++ s) = .ok rs)
    (y : Int) (hy : ∀ b ∈ s, inYear y b.date = false) :
    mkSummary ex (l ++ s) y ((allDisposals dp rs).filter (fun d => inYear y d.date))
      = mkSummary ex l y ((allDisposals dp rs1).filter (fun d => inYear y d.date)) := by
  obtain ⟨_, _, hdiv⟩ := C12_year_final dp l s hw hfar hne rs1 rs h1 h y hy
  rw [C12_year_exact dp l s hw hd hfar hne rs1 rs h1 h y hy]
  unfold mkSummary
  rw [hdiv]

-- non-vacuity: the example ledgers of C12Core carry real dates
example : Spec.DatesOk (exHist2 ++ exLater2) := by
  intro t ht
  have : ∀ b ∈ exHist2 ++ exLater2, 1 ≤ b.date.y ∧ b.date.valid = true := by decide +kernel
  exact Date.ok_of_valid t.date (this t ht).1 (this t ht).2

end Cgt.C12
