import CgtModel.Mcp
import CgtModel.Generated
/-! # C20 — the MCP server answers every request, statelessly, whatever came before

Partial: the real transport (rmcp/tokio, stdio framing, scheduling) is observed by the check, not
proved. Proved for the transition system "receive a request / complete any in-flight request":
* `C20_invariant` — in every reachable state no id is answered twice, no id is both in flight and
  answered, and every received id is in flight or answered, whatever the order of completions;
* `C20_drained_means_each_answered_once` — once nothing is in flight, the answered ids are exactly the
  received ids, each once;
* `C20_completion_order_irrelevant` — two runs that receive the same ids and drain answer the same set.
Statelessness (each answer depends only on its own arguments) and equality with the CLI are checked
on the real server: the same request is sent at different positions of different sessions, sequentially
and pipelined, and every calculate_report answer is compared with `cgt-tool report --format json`;
every disposal it lists is then explained with explain_matching (whose own 6-April test is the
extracted `mcpYear*` constants, proved equal to the calculator's under C07).
Known findings: D15 (rmcp drops requests with an unknown method or without params, and exits on a
non-JSON line) and D9 (a panicking calculation is never answered).
-/
namespace Cgt.C20
open Cgt.Mcp

theorem inv_init : Inv {} := by
  refine ⟨List.nodup_nil, List.nodup_nil, List.nodup_nil, ?_, ?_⟩
  · intro id h; simp at h
  · intro id; simp

theorem inv_step (s : Srv) (e : Ev) (h : Inv s) : Inv (step s e) := by
  cases e with
  | recv id =>
    simp only [step]
    by_cases hm : id ∈ s.received
    · simp only [hm, if_true]; exact h
    · simp only [hm, if_false]
      have hni : id ∉ s.inflight := fun x => hm ((h.cover id).mpr (Or.inl x))
      have hna : id ∉ s.answered := fun x => hm ((h.cover id).mpr (Or.inr x))
      refine ⟨?_, ?_, h.nodup_ans, ?_, ?_⟩
      · exact List.nodup_append.mpr ⟨h.nodup_recv, (by simp : [id].Nodup), by
          intro a ha b hb; simp only [List.mem_singleton] at hb; subst hb; intro e; subst e; exact hm ha⟩
      · exact List.nodup_append.mpr ⟨h.nodup_in, (by simp : [id].Nodup), by
          intro a ha b hb; simp only [List.mem_singleton] at hb; subst hb; intro e; subst e; exact hni ha⟩
      · intro x hx
        simp only [List.mem_append, List.mem_singleton] at hx
        rcases hx with hx | rfl
        · exact h.disjoint x hx
        · exact hna
      · intro x
        simp only [List.mem_append, List.mem_singleton]
        constructor
        · rintro (hx | rfl)
          · rcases (h.cover x).mp hx with a | a
            · exact Or.inl (Or.inl a)
            · exact Or.inr a
          · exact Or.inl (Or.inr rfl)
        · rintro ((hx | rfl) | hx)
          · exact Or.inl ((h.cover x).mpr (Or.inl hx))
          · exact Or.inr rfl
          · exact Or.inl ((h.cover x).mpr (Or.inr hx))
  | complete id =>
    simp only [step]
    by_cases hm : id ∈ s.inflight
    · simp only [hm, if_true]
      have hna : id ∉ s.answered := h.disjoint id hm
      refine ⟨h.nodup_recv, h.nodup_in.erase id, ?_, ?_, ?_⟩
      · exact List.nodup_append.mpr ⟨h.nodup_ans, (by simp : [id].Nodup), by
          intro a ha b hb; simp only [List.mem_singleton] at hb; subst hb; intro e; subst e; exact hna ha⟩
      · intro x hx
        have hx' : x ∈ s.inflight := List.mem_of_mem_erase hx
        simp only [List.mem_append, List.mem_singleton, not_or]
        refine ⟨h.disjoint x hx', ?_⟩
        intro e; subst e
        exact (List.Nodup.not_mem_erase h.nodup_in) hx
      · intro x
        simp only [List.mem_append, List.mem_singleton]
        constructor
        · intro hx
          rcases (h.cover x).mp hx with a | a
          · by_cases e : x = id
            · exact Or.inr (Or.inr e)
            · exact Or.inl ((List.mem_erase_of_ne e).mpr a)
          · exact Or.inr (Or.inl a)
        · rintro (hx | hx | rfl)
          · exact (h.cover x).mpr (Or.inl (List.mem_of_mem_erase hx))
          · exact (h.cover x).mpr (Or.inr hx)
          · exact (h.cover x).mpr (Or.inl hm)
    · simp only [hm, if_false]; exact h

/-- the invariant holds after any sequence of receptions and completions -/
theorem C20_invariant (evs : List Ev) : Inv (run {} evs) := by
  have : ∀ (s : Srv), Inv s → Inv (run s evs) := by
    induction evs with
    | nil => intro s h; exact h
    | cons e es ih => intro s h; exact ih _ (inv_step s e h)
  exact this {} inv_init

/-- when nothing is in flight, every received id has been answered exactly once -/
theorem C20_drained_means_each_answered_once (evs : List Ev) (h : (run {} evs).inflight = []) :
    (run {} evs).answered.Nodup ∧ ∀ id, id ∈ (run {} evs).received ↔ id ∈ (run {} evs).answered := by
  have inv := C20_invariant evs
  refine ⟨inv.nodup_ans, ?_⟩
  intro id
  rw [inv.cover id, h]
  simp

/-- whatever the completion order, two drained runs over the same received ids answered the same ids -/
theorem C20_completion_order_irrelevant (e1 e2 : List Ev)
    (h1 : (run {} e1).inflight = []) (h2 : (run {} e2).inflight = [])
    (hr : ∀ id, id ∈ (run {} e1).received ↔ id ∈ (run {} e2).received) :
    ∀ id, id ∈ (run {} e1).answered ↔ id ∈ (run {} e2).answered := by
  intro id
  rw [← (C20_drained_means_each_answered_once e1 h1).2 id, ← (C20_drained_means_each_answered_once e2 h2).2 id]
  exact hr id

theorem mcp_year_constants : Cgt.mcpYearMonth = 4 ∧ Cgt.mcpYearMonth2 = 4 ∧ Cgt.mcpYearDay = 6 := by decide

example : (run {} [.recv 1, .recv 2, .complete 2, .recv 3, .complete 1, .complete 3]).answered = [2, 1, 3] := by
  decide

/-- `find_disposal`'s search, abstractly: the first element of the listed disposals that satisfies the
    request's (date, ticker) test. If the test singles `x` out among the listed disposals (C12's
    `allDisposals_antisymm`: an accepted run lists no two disposals with one date and security), the search
    returns `x` itself — wherever it stands in the list and whatever precedes it. -/
theorem find_listed {α : Type} (p : α → Bool) (x : α) : ∀ (ds : List α), x ∈ ds → p x = true →
    (∀ z ∈ ds, p z = true → z = x) → ds.find? p = some x := by
  intro ds
  induction ds with
  | nil => intro h; simp at h
  | cons d ds ih =>
    intro hm hp hu
    by_cases hd : p d = true
    · have : d = x := hu d (by simp) hd
      subst this
      simp [List.find?, hd]
    · have hne : x ≠ d := by intro e; subst e; exact hd hp
      have hm' : x ∈ ds := by
        rcases List.mem_cons.mp hm with e | h
        · exact absurd e hne
        · exact h
      have hd' : p d = false := by cases h : p d <;> simp_all
      simp only [List.find?, hd']
      exact ih hm' hp (fun z hz => hu z (List.mem_cons_of_mem _ hz))

example : [3, 5, 8, 5].find? (fun n => n == 8) = some 8 := by decide

end Cgt.C20
