import CgtModel.Fx
import CgtModel.Props.Formulas
/-! # C08 — foreign amounts convert at the HMRC rate of their own month, or the run fails

Proved for the model:
* `C08_gbp_unchanged`, `C08_own_currency_own_month` — a GBP amount is used as it is; any other amount
  is divided by the rate stored under (its own currency, the transaction's year, the transaction's
  month) and nothing else is looked at;
* `C08_missing_rate_fails` — if that rate is absent the conversion of the amount fails naming exactly
  that currency, year and month (never GBP, never another month);
* `C08_first_missing_field_named` — for a line with two amounts, the error names the first field
  (price/total before fees/tax) whose rate is missing;
* `C08_twin` — when every needed rate exists, converting a ledger equals converting, with an empty
  cache, the same ledger with every amount replaced by its GBP value (so the report, which is a
  function of the converted list, is the same);
* `C08_override_exactly_that_key` — after loading a folder file, a key the file contains has the
  file's (last) rate for it, and every other key keeps what it had before;
* `C08_mislabelled_file_rejected`, `C08_nonpositive_rate_rejected`, `C08_bad_name_rejected`.
XML decoding, file-name parsing and modification-time reading are not modelled: the model takes the
decoded (expected period, period, rows, mtime); the check feeds real XML text and real file names to the
real loader and compares the resulting cache with the model's.
-/
namespace Cgt.C08
open Cgt

theorem C08_gbp_unchanged (c : Cache) (d : Date) (x : Rat) : toGbpAmt c d ⟨x, "GBP"⟩ = .ok x := by
  simp [toGbpAmt]

theorem C08_own_currency_own_month (c : Cache) (d : Date) (a : CAmt) (h : a.cur ≠ "GBP") (r : Rat)
    (hr : c.get (a.cur, d.y, d.m) = some r) : toGbpAmt c d a = .ok (a.amt / r) := by
  by_cases hz : a.amt = 0
  · simp [toGbpAmt, h, hz]; grind
  · simp [toGbpAmt, h, hr, hz]

/-- a rate that is needed and absent is an error naming the currency and the month (a zero amount
    needs none: it is zero pounds at any rate) -/
theorem C08_missing_rate_fails (c : Cache) (d : Date) (a : CAmt) (h : a.cur ≠ "GBP") (hz : a.amt ≠ 0)
    (hr : c.get (a.cur, d.y, d.m) = none) : toGbpAmt c d a = .error ⟨a.cur, d.y, d.m⟩ := by
  simp [toGbpAmt, h, hr, hz]

theorem C08_zero_needs_no_rate (c : Cache) (d : Date) (cur : String) : toGbpAmt c d ⟨0, cur⟩ = .ok 0 := by
  unfold toGbpAmt; split <;> simp

/-- the conversion of an amount depends on the cache only through that one key -/
theorem C08_depends_only_on_own_key (c c' : Cache) (d : Date) (a : CAmt)
    (h : c.get (a.cur, d.y, d.m) = c'.get (a.cur, d.y, d.m)) : toGbpAmt c d a = toGbpAmt c' d a := by
  unfold toGbpAmt; rw [h]

theorem C08_first_missing_field_named (c : Cache) (d : Date) (q : Rat) (p f : CAmt) (e : FxErr)
    (hp : toGbpAmt c d p = .error e) : toGbpOp c d (.buy q p f) = .error e := by
  simp [toGbpOp, pair, hp, Except.map]

theorem C08_second_field_named_when_first_converts (c : Cache) (d : Date) (q : Rat) (p f : CAmt) (x : Rat)
    (e : FxErr) (hp : toGbpAmt c d p = .ok x) (hf : toGbpAmt c d f = .error e) :
    toGbpOp c d (.buy q p f) = .error e := by
  simp [toGbpOp, pair, hp, hf, Except.map]

/-- replace an amount by its GBP value -/
def preAmt (c : Cache) (d : Date) (a : CAmt) : CAmt :=
  match toGbpAmt c d a with
  | .ok x => ⟨x, "GBP"⟩
  | .error _ => a

def preOp (c : Cache) (d : Date) : COp → COp
  | .buy q p f => .buy q (preAmt c d p) (preAmt c d f)
  | .sell q p f => .sell q (preAmt c d p) (preAmt c d f)
  | .dividend v t => .dividend (preAmt c d v) (preAmt c d t)
  | .accumulation q v t => .accumulation q (preAmt c d v) (preAmt c d t)
  | .capreturn q v f => .capreturn q (preAmt c d v) (preAmt c d f)
  | .split r => .split r
  | .unsplit r => .unsplit r

def preTx (c : Cache) (t : CTx) : CTx := { t with op := preOp c t.date t.op }

theorem preAmt_ok (c : Cache) (d : Date) (a : CAmt) (x : Rat) (h : toGbpAmt c d a = .ok x) :
    toGbpAmt [] d (preAmt c d a) = .ok x := by
  unfold preAmt
  rw [h]
  simp [toGbpAmt]

theorem preOp_ok (c : Cache) (d : Date) (op : COp) (o : Op) (h : toGbpOp c d op = .ok o) :
    toGbpOp [] d (preOp c d op) = .ok o := by
  cases op <;> simp only [toGbpOp, preOp] at h ⊢
  all_goals first
    | exact h
    | (rename_i a b
       cases ha : toGbpAmt c d a with
       | error e => simp [pair, ha, Except.map] at h
       | ok x =>
         cases hb : toGbpAmt c d b with
         | error e => simp [pair, ha, hb, Except.map] at h
         | ok y =>
           rw [preAmt_ok c d a x ha, preAmt_ok c d b y hb]
           simpa [pair, ha, hb, Except.map] using h)
    | (rename_i q a b
       cases ha : toGbpAmt c d a with
       | error e => simp [pair, ha, Except.map] at h
       | ok x =>
         cases hb : toGbpAmt c d b with
         | error e => simp [pair, ha, hb, Except.map] at h
         | ok y =>
           rw [preAmt_ok c d a x ha, preAmt_ok c d b y hb]
           simpa [pair, ha, hb, Except.map] using h)

/-- **twin**: a ledger in foreign currency converts to the same GBP ledger as the same ledger
    pre-converted at those rates (which then needs no rates at all) -/
theorem C08_twin (c : Cache) : ∀ (l : List CTx) (out : List Tx), toGbpAll c l = .ok out →
    toGbpAll [] (l.map (preTx c)) = .ok out := by
  intro l
  induction l with
  | nil => intro out h; simpa [toGbpAll] using h
  | cons t ts ih =>
    intro out h
    simp only [toGbpAll] at h
    cases ht : toGbpTx c t with
    | error e => rw [ht] at h; cases h
    | ok x =>
      rw [ht] at h
      cases hts : toGbpAll c ts with
      | error e => rw [hts] at h; cases h
      | ok xs =>
        rw [hts] at h
        simp only [Except.ok.injEq] at h
        subst h
        have hx : toGbpTx [] (preTx c t) = .ok x := by
          unfold toGbpTx at ht ⊢
          cases hop : toGbpOp c t.date t.op with
          | error e => rw [hop] at ht; cases ht
          | ok o =>
            rw [hop] at ht
            simp only [Except.map, Except.ok.injEq] at ht
            subst ht
            simp only [preTx]
            rw [preOp_ok c t.date t.op o hop]
            rfl
        simp only [List.map_cons, toGbpAll, hx, ih xs hts]

theorem get_append_left (a b : Cache) (k : RateKey) (r : Rat) (h : Cache.get a k = some r) :
    Cache.get (a ++ b) k = some r := by
  unfold Cache.get at h ⊢
  rw [List.find?_append]
  cases hf : List.find? (fun e => decide (e.1 = k)) a with
  | none => rw [hf] at h; cases h
  | some e => rw [hf] at h; simpa using h

theorem get_append_right (a b : Cache) (k : RateKey) (h : ∀ e ∈ a, e.1 ≠ k) :
    Cache.get (a ++ b) k = Cache.get b k := by
  unfold Cache.get
  rw [List.find?_append]
  have : List.find? (fun e => decide (e.1 = k)) a = none := by
    rw [List.find?_eq_none]; intro e he; simpa using h e he
  rw [this]; rfl

/-- a key the file does not mention keeps its rate -/
theorem C08_override_leaves_other_keys (c : Cache) (entries : List (RateKey × Rat)) (k : RateKey)
    (h : ∀ e ∈ entries, e.1 ≠ k) : (c.extend entries).get k = c.get k := by
  unfold Cache.extend
  exact get_append_right _ _ _ (fun e he => h e (List.mem_reverse.mp he))

/-- a key the file mentions gets the file's rate (its last row for that key) -/
theorem C08_override_exactly_that_key (c : Cache) (entries : List (RateKey × Rat)) (k : RateKey)
    (h : ∃ e ∈ entries, e.1 = k) : ∃ r, (c.extend entries).get k = some r ∧ (k, r) ∈ entries := by
  unfold Cache.extend
  obtain ⟨e, he, hk⟩ := h
  have hex : ∃ x, List.find? (fun e => decide (e.1 = k)) entries.reverse = some x := by
    cases hf : List.find? (fun e => decide (e.1 = k)) entries.reverse with
    | some x => exact ⟨x, rfl⟩
    | none =>
      rw [List.find?_eq_none] at hf
      have := hf e (List.mem_reverse.mpr he)
      simp [hk] at this
  obtain ⟨x, hx⟩ := hex
  have hxm := List.mem_of_find?_eq_some hx
  have hxk : x.1 = k := by have := List.find?_some hx; simpa using this
  refine ⟨x.2, ?_, ?_⟩
  · apply get_append_left
    unfold Cache.get; rw [hx]; rfl
  · have : (k, x.2) = x := by rw [← hxk]
    rw [this]; exact List.mem_reverse.mp hxm

theorem C08_mislabelled_file_rejected (f : RateFileM) (e p : Int × Int) (he : f.expected = some e)
    (hp : f.period = some p) (hne : p ≠ e) : loadFile f = .error .periodMismatch := by
  simp [loadFile, he, hp, hne]

theorem C08_bad_name_rejected (f : RateFileM) (he : f.expected = none) :
    loadFile f = .error .invalidFileName := by simp [loadFile, he]

theorem checkRows_some (rows : List (String × Rat)) (h : ∃ r ∈ rows, r.2 ≤ 0) : ∃ code, checkRows rows = some code := by
  induction rows with
  | nil => obtain ⟨r, hr, _⟩ := h; simp at hr
  | cons x xs ih =>
    obtain ⟨code, r⟩ := x
    simp only [checkRows]
    by_cases hr : r ≤ 0
    · exact ⟨code, by simp [hr]⟩
    · simp only [hr, if_false]
      apply ih
      obtain ⟨y, hy, hy2⟩ := h
      simp only [List.mem_cons] at hy
      rcases hy with rfl | hy
      · exact absurd hy2 hr
      · exact ⟨y, hy, hy2⟩

theorem C08_nonpositive_rate_rejected (f : RateFileM) (e : Int × Int) (he : f.expected = some e)
    (hp : f.period = some e) (h : ∃ r ∈ f.rows, r.2 ≤ 0) : ∃ code, loadFile f = .error (.nonPositiveRate code) := by
  obtain ⟨code, hc⟩ := checkRows_some f.rows h
  exact ⟨code, by simp [loadFile, he, hp, hc]⟩

/-- a failing file makes the whole load fail: nothing is silently skipped -/
theorem C08_any_bad_file_fails_the_load (c : Cache) : ∀ (fs : List RateFileM),
    (∃ f ∈ fs, ∃ e, loadFile f = .error e) → ∃ e, loadFiles c fs = .error e := by
  intro fs
  induction fs generalizing c with
  | nil => intro ⟨f, hf, _⟩; simp at hf
  | cons g gs ih =>
    intro ⟨f, hf, e, he⟩
    simp only [loadFiles]
    cases hg : loadFile g with
    | error e' => exact ⟨e', rfl⟩
    | ok entries =>
      simp only
      simp only [List.mem_cons] at hf
      rcases hf with rfl | hf
      · rw [he] at hg; cases hg
      · exact ih _ ⟨f, hf, e, he⟩

-- non-vacuity
def okVal : Except FxErr Rat → Option Rat | .ok x => some x | .error _ => none
def errVal : Except FxErr Rat → Option FxErr | .ok _ => none | .error e => some e
example : okVal (toGbpAmt [(("USD", 2024, 6), (5/4 : Rat))] ⟨2024, 6, 15⟩ ⟨100, "USD"⟩) = some 80 := by decide +kernel
example : errVal (toGbpAmt [(("USD", 2024, 6), (5/4 : Rat))] ⟨2024, 7, 1⟩ ⟨100, "USD"⟩) = some ⟨"USD", 2024, 7⟩ := by
  decide +kernel

end Cgt.C08
