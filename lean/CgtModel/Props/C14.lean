import CgtModel.Dsl
/-! # C14 — transactions survive DSL and JSON round trips unchanged

The writer model `Dsl.write` is compared byte for byte with the real `transactions_to_dsl` on every run,
and the reader model with the real parser (C13). Proved here:
* `C14_decimal_roundtrip` — every canonical decimal literal (digits, no superfluous leading zeros, any
  number of fraction digits — any scale) printed by the writer and followed by a blank or the end of
  the line is read back as exactly the same digits;
* `C14_zero_clause_omitted`, `C14_nonzero_clause_written` — a zero fee/tax is not written (so only its
  currency label can be lost), a non-zero one is written with its amount and currency;
* `C14_write_lines` — the writer emits one line per transaction, joined by LF, no trailing newline.
Not proved: `parse (write l) = dropZeroLabel l` for whole transactions (token-by-token composition) and
the serde JSON round trip (serde is not modelled); both are checked on the real code for every
generated list, together with idempotence of writing and equality of the three reports.
-/
namespace Cgt.C14
open Cgt.Dsl

theorem spanP_append (p : Char → Bool) (ds rest : List Char) (h : ∀ c ∈ ds, p c = true)
    (hr : ∀ c r, rest = c :: r → p c = false) : spanP p (ds ++ rest) = (ds, rest) := by
  induction ds with
  | nil =>
    cases rest with
    | nil => rfl
    | cons c r => simp [spanP, hr c r rfl]
  | cons d ds ih =>
    have hd := h d (by simp)
    have := ih (fun c hc => h c (by simp [hc]))
    simp [spanP, hd, this]

def canon (d : DDec) : Prop :=
  d.ip ≠ [] ∧ (∀ c ∈ d.ip, isDigit c = true) ∧ (∀ c ∈ d.fp, isDigit c = true) ∧ stripZeros d.ip = d.ip

/-- what may follow a decimal in the writer's output: nothing, or a blank -/
def afterDec (rest : List Char) : Prop := rest = [] ∨ ∃ r, rest = ' ' :: r

theorem C14_decimal_roundtrip (d : DDec) (hc : canon d) (rest : List Char) (hrest : afterDec rest) :
    pDecimal (showDec d ++ rest) = some (d, rest) := by
  obtain ⟨hne, hip, hfp, hstrip⟩ := hc
  have hnd : ∀ c r, rest = c :: r → isDigit c = false := by
    intro c r h
    rcases hrest with h0 | ⟨r', h1⟩
    · rw [h0] at h; cases h
    · rw [h1] at h; injection h with h _; rw [← h]; decide
  unfold showDec pDecimal
  by_cases hf : d.fp.isEmpty
  · have hfe : d.fp = [] := by simpa using hf
    simp only [hf, if_true]
    rw [spanP_append isDigit d.ip rest hip hnd]
    have : d.ip.isEmpty = false := by cases hd : d.ip <;> simp_all
    simp only [this, Bool.false_eq_true, if_false]
    rcases hrest with h0 | ⟨r', h1⟩
    · subst h0; simp [hstrip]; cases d; simp_all
    · subst h1; simp [hstrip]; cases d; simp_all
  · simp only [hf, Bool.false_eq_true, if_false]
    have e : d.ip ++ '.' :: d.fp ++ rest = d.ip ++ ('.' :: (d.fp ++ rest)) := by simp
    rw [e, spanP_append isDigit d.ip ('.' :: (d.fp ++ rest)) hip (by intro c r h; injection h with h _; rw [← h]; decide)]
    have : d.ip.isEmpty = false := by cases hd : d.ip <;> simp_all
    simp only [this, Bool.false_eq_true, if_false]
    rw [spanP_append isDigit d.fp rest hfp hnd]
    simp only [hf, Bool.false_eq_true, if_false, hstrip]

theorem C14_zero_clause_omitted (kw : String) (a : DAmt) (h : isZeroDec a.d = true) : optClause kw a = [] := by
  simp [optClause, h]

theorem C14_nonzero_clause_written (kw : String) (a : DAmt) (h : isZeroDec a.d = false) :
    optClause kw a = (" " ++ kw ++ " ").toList ++ showAmt a := by
  simp [optClause, h]

theorem C14_write_lines (t : DTx) (u : DTx) (ts : List DTx) :
    write [t] = writeTx t ∧ write (t :: u :: ts) = writeTx t ++ '\n' :: write (u :: ts) := ⟨rfl, rfl⟩

-- non-vacuity: a scale-28 literal
example : canon ⟨['0'], "0000000000000000000000000001".toList⟩ := by
  refine ⟨by simp, ?_, ?_, rfl⟩ <;> decide

end Cgt.C14
