import CgtModel.Report
import CgtModel.Lemmas.WellFormed
import CgtModel.Lemmas.Covered
import CgtModel.Props.C02
import CgtModel.Props.Formulas
/-! # C05 — a report is produced exactly when every sale is covered by shares held

Statement: with no other obstacle (rates, exemptions, over-large capital return), a report is produced
iff for every security and date the shares acquired up to and including that date (rescaled by splits)
cover the shares sold up to and including that date; an uncovered sale fails with an error naming the
security and the date; a repurchase within the next 30 days never legitimises selling shares not held.

Proved for the model of the matcher (after the repair recorded as D2 in known_findings.json: the
holding check subtracts shares already sold against later purchases):
* `C05_accept_iff_covered` — the main pass of one security succeeds iff `covered 0 days`;
* `C05_error_names_security_and_day` — otherwise the error is `exceedsHolding` for that security on
  one of its days;
* `C05_later_lines_cannot_legitimise` — `covered` of a history only looks backwards: appending any
  later days (repurchases) to an uncovered history leaves it uncovered;
* `C05_run_accepts_iff` — all securities together: the run succeeds iff every security passes its
  cost pre-pass and is covered.
"No partial output from any front-end" is the CLI/MCP half; it is observed by the correspondence check
(exit status, empty stdout, no output file, MCP error response) and modelled under C15.
-/
namespace Cgt.C05
open Cgt

/-- **accepted ⇔ covered**, one security, main pass -/
theorem C05_accept_iff_covered (t : String) (w : Int) (ds : List Day) (hok : daysOk ds) :
    (∃ r, runDays t w none ds [] = .ok r) ↔ covered 0 ds := by
  have h := runDays_iff t w ds none [] hok (by simp [poolQ']) (claimsOk_nil ds hok)
    (by rw [outK_nil]; simp [poolQ']; grind)
  have e : poolQ' none - outK 1 ds [] = 0 := by rw [outK_nil]; simp [poolQ']; grind
  rw [e] at h
  constructor
  · intro ⟨r, hr⟩
    apply Classical.byContradiction
    intro hn
    obtain ⟨e', he', _⟩ := h.2 hn
    rw [hr] at he'; cases he'
  · exact h.1

/-- an uncovered history fails with an error that names this security and one of its days -/
theorem C05_error_names_security_and_day (t : String) (w : Int) (ds : List Day) (hok : daysOk ds)
    (hn : ¬ covered 0 ds) :
    ∃ e, runDays t w none ds [] = .error e ∧ e.kind = .exceedsHolding ∧ e.ticker = t ∧
      ∃ d ∈ ds, e.ord = d.ord := by
  have h := runDays_iff t w ds none [] hok (by simp [poolQ']) (claimsOk_nil ds hok)
    (by rw [outK_nil]; simp [poolQ']; grind)
  have e : poolQ' none - outK 1 ds [] = 0 := by rw [outK_nil]; simp [poolQ']; grind
  rw [e] at h
  exact h.2 hn

/-- coverage only looks backwards: whatever is appended later (a repurchase within 30 days or
    anything else) cannot make an uncovered history covered -/
theorem C05_later_lines_cannot_legitimise (ds es : List Day) : ∀ p : Rat,
    covered p (ds ++ es) → covered p ds := by
  induction ds with
  | nil => intro p _; trivial
  | cons d ds ih => intro p h; exact ⟨h.1, ih _ h.2⟩

theorem firstErr_none {α : Type} : ∀ (rs : List (Except MErr α)), firstErr rs = none ↔ ∀ r ∈ rs, ∃ a, r = .ok a := by
  intro rs
  induction rs with
  | nil => simp [firstErr]
  | cons r rs ih =>
    cases r with
    | ok a =>
      simp only [firstErr, ih, List.mem_cons]
      constructor
      · intro h x hx
        rcases hx with rfl | hx
        · exact ⟨a, rfl⟩
        · exact h x hx
      · intro h x hx; exact h x (Or.inr hx)
    | error e =>
      simp only [firstErr]
      constructor
      · intro h; split at h <;> (try split at h) <;> cases h
      · intro h
        obtain ⟨a, ha⟩ := h (.error e) (by simp)
        cases ha

/-- all securities: the run succeeds iff every security's single run succeeds -/
theorem run_ok_iff (w : Int) (l : List Tx) :
    (∃ rs, run w l = .ok rs) ↔
      ∀ t ∈ tickersOf (preprocess l), ∃ r, runTicker t w (daysOf t (preprocess l)) = .ok r := by
  unfold run runPre
  simp only
  constructor
  · intro ⟨rs, h⟩
    split at h
    · cases h
    · rename_i hnone
      rw [firstErr_none] at hnone
      intro t ht
      have := hnone (runTicker t w (daysOf t (preprocess l))) (by
        simp only [List.map_map, List.mem_map]
        exact ⟨t, ht, rfl⟩)
      exact this
  · intro h
    have hnone : firstErr (List.map (fun x => x.2)
        (List.map (fun t => (t, runTicker t w (daysOf t (preprocess l)))) (tickersOf (preprocess l)))) = none := by
      rw [firstErr_none]
      intro r hr
      simp only [List.map_map, List.mem_map] at hr
      obtain ⟨t, ht, rfl⟩ := hr
      exact h t ht
    rw [hnone]
    exact ⟨_, rfl⟩

/-- **C05 for the whole ledger**: with every security's day list well-formed, a result is produced iff
    every security passes its cost pre-pass (the "over-large capital return" obstacle) and is covered -/
theorem C05_run_accepts_iff (w : Int) (l : List Tx)
    (hok : ∀ t ∈ tickersOf (preprocess l), daysOk (daysOf t (preprocess l))) :
    (∃ rs, run w l = .ok rs) ↔
      ∀ t ∈ tickersOf (preprocess l),
        (∃ ds', withOffsets t (daysOf t (preprocess l)) = .ok ds') ∧ covered 0 (daysOf t (preprocess l)) := by
  rw [run_ok_iff]
  constructor
  · intro h t ht
    obtain ⟨r, hr⟩ := h t ht
    unfold runTicker at hr
    split at hr
    · cases hr
    · rename_i ds' hw
      refine ⟨⟨ds', hw⟩, ?_⟩
      obtain ⟨f, rfl⟩ := C02.withOffsets_shape t _ ds' hw
      have hok' := C02.daysOk_setOffsets f _ (hok t ht)
      have := (C05_accept_iff_covered t w _ hok').mp ⟨r, hr⟩
      exact covered_setOffsets f _ 0 |>.mp this
  · intro h t ht
    obtain ⟨⟨ds', hw⟩, hcov⟩ := h t ht
    obtain ⟨f, rfl⟩ := C02.withOffsets_shape t _ ds' hw
    have hok' := C02.daysOk_setOffsets f _ (hok t ht)
    have hcov' := (covered_setOffsets f _ 0).mpr hcov
    obtain ⟨r, hr⟩ := (C05_accept_iff_covered t w _ hok').mpr hcov'
    exact ⟨r, by unfold runTicker; rw [hw]; exact hr⟩
where
  covered_setOffsets (f : Day → Rat) : ∀ (ds : List Day) (p : Rat),
      covered p (C02.setOffsets f ds) ↔ covered p ds
    | [], _ => Iff.rfl
    | d :: ds, p => by
      simp only [C02.setOffsets, List.map_cons, covered]
      have := covered_setOffsets f ds ((p + d.B - d.S) * d.r)
      simp only [C02.setOffsets] at this
      exact and_congr Iff.rfl this

/-- **C05 from the raw ledger**: a validator-clean ledger is accepted iff every security passes its
    cost pre-pass and every sale is covered — no hypothesis on intermediate data remains -/
theorem C05_ledger (w : Int) (l : List Tx) (hwf : WellFormed l) :
    (∃ rs, run w l = .ok rs) ↔
      ∀ t ∈ tickersOf (preprocess l),
        (∃ ds', withOffsets t (daysOf t (preprocess l)) = .ok ds') ∧ covered 0 (daysOf t (preprocess l)) :=
  C05_run_accepts_iff w l (fun t _ => (wellFormed_days l hwf t).1)

-- non-vacuity and the D2 witness: 100 bought, 100 + 100 sold on consecutive days, 100 bought back
def d2Days : List Day :=
  [ { date := ⟨2024, 1, 1⟩, buy := some ⟨0, 100, 1, 0⟩ },
    { date := ⟨2024, 2, 1⟩, sells := [⟨1, 100, 2, 0⟩] },
    { date := ⟨2024, 2, 2⟩, sells := [⟨2, 100, 2, 0⟩] },
    { date := ⟨2024, 2, 10⟩, buy := some ⟨3, 100, 3, 0⟩ } ]

example : C02.isOk (runTicker "A" 30 d2Days) = false := by decide +kernel
example : C02.isOk (runTicker "A" 30 (d2Days.take 2)) = true := by decide +kernel
example : ¬ covered 0 d2Days := by
  intro h
  have := h.2.2.1
  revert this
  decide +kernel

end Cgt.C05
