import CgtModel.Report
import CgtModel.Config
import CgtModel.Lemmas.LegArith
import CgtModel.Lemmas.Round
import CgtModel.Props.Formulas
/-! # C04 — report arithmetic is self-consistent from legs to tax-year totals

Statement (properties.jsonl): a disposal's gross proceeds are quantity × price of that day's sales,
net proceeds are gross − sale fees, its quantity is the sum of its legs, the legs' gains sum to net
proceeds − the legs' total allowable cost; a year's total gain is the sum of its disposals' positive
net results, total loss the sum of the negative ones, net gain their difference, the count the
number of disposals, dividend income/tax the sums of that year's DIVIDEND lines, the exemption the
configured amount (an unconfigured year is an error, never zero), taxable = max(0, net − exemption).

All of it is proved for the model at the precision the code stores: the two proceeds totals of a
disposal are `round_dp(10)` of the exact sums, so "equals" is proved as "within 5·10⁻¹¹"
(`C04_disposal_fields`), everything else exactly.
-/
namespace Cgt.C04
open Cgt

/-- the legs of one SELL line carry exactly that line's quantity × price, minus exactly its fees -/
theorem C04_sell_proceeds (t : String) (w : Int) (d : Day) (st : MState) (s : Trade)
    (future : List Day) (cl : List Rat) (st' : MState) (cl' : List Rat) (legs : List Leg)
    (hr : 0 < d.r) (hpos : ratiosPos future) (ha : 0 ≤ st.avail) (hp : 0 ≤ st.poolQ)
    (hs : 0 < s.q) (hc : claimsOk future cl)
    (h : sellStep t w d st s future cl = .ok (st', cl', legs)) :
    legGross legs = s.q * s.p ∧ legNet legs = s.q * s.p - s.f ∧
      legGain legs = legNet legs - legCost legs := by
  have sp := sellStep_spec t w d st s future cl st' cl' legs hr hpos ha hp (Rat.le_of_lt hs) hc h
  have lo := sellStep_legOf t w d st s future cl st' cl' legs h
  have hq : s.q ≠ 0 := by grind
  have := legs_sums s hq legs lo
  rw [sp.qty] at this
  refine ⟨this.1, ?_, this.2.2⟩
  rw [this.2.1]
  have : s.q / s.q = 1 := by grind
  rw [this]; grind

/-- a disposal record: quantity is the sum of its legs; the stored proceeds totals are the exact sums
    rounded to `dp` places (half a unit of that place at most); its net result is the sum of the
    legs' gains -/
theorem C04_disposal_fields (dp : Nat) (ticker : String) (date : Date) (legs : List Leg) :
    let d := mkDisposal dp ticker date legs
    d.qty = legQty legs ∧
    rabs (d.gross - legGross legs) ≤ 1 / (2 * pow10 dp) ∧
    rabs (d.proceeds - legNet legs) ≤ 1 / (2 * pow10 dp) ∧
    d.netGain = legGain legs ∧ d.totalCost = legCost legs := by
  refine ⟨rfl, roundHalfEven_close dp _, roundHalfEven_close dp _, rfl, rfl⟩

def posPart (x : Rat) : Rat := if x > 0 then x else 0
def negPart (x : Rat) : Rat := if x < 0 then rabs x else 0

/-- total gain = Σ positive disposal results, total loss = Σ |negative results| -/
theorem C04_totals (ds : List Disposal) :
    (totals ds).1 = rsum (ds.map (fun d => posPart d.netGain)) ∧
    (totals ds).2 = rsum (ds.map (fun d => negPart d.netGain)) := by
  induction ds with
  | nil => simp [totals]
  | cons d ds ih =>
    obtain ⟨ih1, ih2⟩ := ih
    simp only [totals, List.map_cons, rsum_cons]
    rw [← ih1, ← ih2]
    by_cases h1 : d.netGain > 0
    · have h2 : ¬ d.netGain < 0 := by grind
      simp only [h1, if_true, posPart, negPart, h2, if_false]
      constructor <;> grind
    · by_cases h2 : d.netGain < 0
      · simp only [h1, h2, if_true, if_false, posPart, negPart]
        constructor <;> grind
      · simp only [h1, h2, if_false, posPart, negPart]
        constructor <;> grind

/-- an unconfigured year is an error, never a zero exemption -/
theorem C04_unconfigured_year_is_error (ex : List (Int × Rat)) (l : List Tx) (y : Int)
    (ds : List Disposal) (h : lookupExemption ex y = none) :
    mkSummary ex l y ds = .error (.unsupportedExemptionYear y) := by
  unfold mkSummary; rw [h]

/-- every field of a year summary -/
theorem C04_summary (ex : List (Int × Rat)) (l : List Tx) (y : Int) (ds : List Disposal)
    (s : YearSummary) (h : mkSummary ex l y ds = .ok s) :
    s.year = y ∧ s.disposals = ds ∧ lookupExemption ex y = some s.exempt ∧
    s.totalGain = rsum (ds.map (fun d => posPart d.netGain)) ∧
    s.totalLoss = rsum (ds.map (fun d => negPart d.netGain)) ∧
    s.netGain = s.totalGain - s.totalLoss ∧
    s.taxable = max 0 (s.netGain - s.exempt) ∧
    (s.divIncome, s.divTax) = dividendsOf l y := by
  unfold mkSummary at h
  split at h
  · cases h
  · rename_i e he
    simp only [Except.ok.injEq] at h
    subst h
    have t := C04_totals ds
    exact ⟨rfl, rfl, he, t.1, t.2, rfl, rfl, rfl⟩

/-- dividend income and tax of a year are the sums of that year's DIVIDEND lines -/
theorem C04_dividends (l : List Tx) (y : Int) :
    dividendsOf l y = (rsum ((l.filter (isDivIn y)).map divValue), rsum ((l.filter (isDivIn y)).map divTaxOf)) := rfl

theorem mapExcept_mem {α β ε : Type} (f : α → Except ε β) : ∀ (as : List α) (bs : List β),
    mapExcept f as = .ok bs → ∀ b ∈ bs, ∃ a ∈ as, f a = .ok b := by
  intro as
  induction as with
  | nil => intro bs h b hb; simp [mapExcept] at h; subst h; simp at hb
  | cons a as ih =>
    intro bs h b hb
    simp only [mapExcept] at h
    split at h
    · cases h
    · rename_i b0 hb0
      split at h
      · cases h
      · rename_i bs0 hbs0
        simp only [Except.ok.injEq] at h
        subst h
        simp only [List.mem_cons] at hb
        rcases hb with rfl | hb
        · exact ⟨a, by simp, hb0⟩
        · obtain ⟨a', ha', hf⟩ := ih bs0 hbs0 b hb
          exact ⟨a', by simp [ha'], hf⟩

/-- every year of a successful report was built by `mkSummary` — so `C04_summary` applies to it —
    from a sub-list of the report's disposals -/
theorem C04_report_years (w : Int) (dp : Nat) (ex : List (Int × Rat)) (year : Option Int) (l : List Tx)
    (r : Report) (h : calculate w dp ex year l = .ok r) :
    ∀ s ∈ r.years, ∃ ds, mkSummary ex l s.year ds = .ok s := by
  unfold calculate reportFrom at h
  split at h
  · cases h
  · rename_i rs _
    simp only at h
    split at h
    · cases h
    · rename_i ys hys
      simp only [Except.ok.injEq] at h
      subst h
      simp only
      intro s hs
      cases year with
      | some y =>
        simp only [Except.map] at hys
        split at hys
        · cases hys
        · rename_i s0 hs0
          simp only [Except.ok.injEq] at hys
          subst hys
          simp only [List.mem_singleton] at hs
          subst hs
          unfold oneYear at hs0
          split at hs0
          · cases hs0
          · split at hs0
            · cases hs0
            · simp only at hs0
              split at hs0
              · cases hs0
              · rename_i y' _
                have := (C04_summary ex l y' _ s hs0).1
                exact ⟨_, by rw [this]; exact hs0⟩
      | none =>
        simp only [allYears] at hys
        split at hys
        · cases hys
        · obtain ⟨y, _, hy⟩ := mapExcept_mem _ _ _ hys s hs
          have := (C04_summary ex l y _ s hy).1
          exact ⟨_, by rw [this]; exact hy⟩

/-- override files: a year present in the override list wins, any other year falls through to the
    embedded table (`HashMap::extend`) -/
theorem C04_override_lookup (over base : List (Int × Rat)) (y : Int) :
    lookupExemption (over ++ base) y =
      match lookupExemption over y with
      | some e => some e
      | none => lookupExemption base y := by
  unfold lookupExemption
  rw [List.find?_append]
  cases h : List.find? (fun p => decide (p.1 = y)) over <;> simp

-- non-vacuity
example : lookupExemption exemptions 2023 = some 6000 := by decide +kernel
example : lookupExemption exemptions 2013 = none := by decide +kernel


/-! ### exemption configuration: embedded table and override files -/
section config

theorem lookup_extend (base over : List (Int × Rat)) (y : Int) :
    lookupExemption (extendTable base over) y =
      match lookupExemption over y with
      | some a => some a
      | none => lookupExemption base y := by
  unfold lookupExemption extendTable
  rw [List.find?_append]
  cases h : List.find? (fun p => decide (p.1 = y)) over <;> simp

/-- an override file that names a year replaces (or adds) that year's amount … -/
theorem C04_override_replaces (emb over : List (Int × Rat)) (y : Int) (a : Rat)
    (h : lookupExemption over y = some a) :
    lookupExemption (loadWithOverrides emb [some over]) y = some a := by
  simp only [loadWithOverrides, List.foldl_cons, List.foldl_nil, lookup_extend, h]

/-- … every other year keeps the embedded amount (or stays unconfigured) -/
theorem C04_override_keeps_rest (emb over : List (Int × Rat)) (y : Int)
    (h : lookupExemption over y = none) :
    lookupExemption (loadWithOverrides emb [some over]) y = lookupExemption emb y := by
  simp only [loadWithOverrides, List.foldl_cons, List.foldl_nil, lookup_extend, h]

/-- an absent or unparseable override file changes nothing -/
theorem C04_absent_override (emb : List (Int × Rat)) (fs : List OverrideFile) :
    loadWithOverrides emb (none :: fs) = loadWithOverrides emb fs := by
  simp [loadWithOverrides]

/-- with both files (`./config.toml`, then `~/.config/cgt-tool/config.toml`) the later file wins
    where both name a year, and a year named by either is configured -/
theorem C04_two_overrides (emb o1 o2 : List (Int × Rat)) (y : Int) :
    lookupExemption (loadWithOverrides emb [some o1, some o2]) y =
      match lookupExemption o2 y with
      | some a => some a
      | none => match lookupExemption o1 y with
        | some a => some a
        | none => lookupExemption emb y := by
  simp only [loadWithOverrides, List.foldl_cons, List.foldl_nil, lookup_extend]

example : lookupExemption (loadWithOverrides exemptions [some [(2024, 1234), (2031, 5000)]]) 2024 = some 1234
    ∧ lookupExemption (loadWithOverrides exemptions [some [(2024, 1234), (2031, 5000)]]) 2031 = some 5000
    ∧ lookupExemption (loadWithOverrides exemptions [some [(2024, 1234), (2031, 5000)]]) 2023 = some 6000 := by
  decide +kernel
end config
end Cgt.C04
