import CgtModel.Report
import CgtModel.Props.C02
import CgtModel.Props.C03
import CgtModel.Props.C04
import CgtModel.Props.C01
import CgtModel.Lemmas.SpecTwin
import CgtModel.Props.Formulas
/-! # C10 — splits only rescale share counts; they never create gain, loss or cost

Statement: a SPLIT/UNSPLIT changes the number of shares held and nothing else: rewriting a ledger in
post-split units yields the same gains, losses, proceeds, allowable costs and closing cost; SPLIT r
followed by UNSPLIT r with no trade between changes nothing.

Proved for the model:
* `C10_split_unsplit_same_day_cancel` — SPLIT r and UNSPLIT r (r ≠ 0) on one day leave the day record
  unchanged; `C10_factor_one_day_is_transparent` — a day with no trade and factor 1 changes neither
  pool quantity nor pool cost and emits no legs;
* `C10_cost_never_depends_on_splits` — Σ legs' allowable cost + closing cost is Σ purchases'
  (quantity × price + fees + offset): the split factors do not occur in it (C03);
* `C10_closing_quantity_only_rescaled` — the closing quantity is Σ (bought − sold) each multiplied by
  the factors dated from its own day on (C02);
* `C10_proceeds_never_depend_on_splits` — the proceeds of a SELL's legs are quantity × price − fees of
  that line (C04).
Together: total gains + closing cost of a history are the same whatever splits it contains.
* **the post-split twin** — `Spec.identifyTbl_gauge` (`Lemmas/SpecGauge.lean`): units are a gauge of the
  statutory evaluation: counting day `i`'s shares in units `g i` times finer (quantities × `g i`, split
  factors × `g (i+1) / g i`, money untouched) changes no disposal's proceeds or gain and no leg's rule,
  allowable cost or acquisition date, and only rescales the closing quantity; `Spec.identify_twin`
  (`Lemmas/SpecTwin.lean`): rewriting the trades dated on or before a split day in post-split units and
  neutralising the split line is such a change of gauge of the day table built from the raw lines;
  `C10_ledger_twin`: hence, for the matcher model from the raw ledger (through `C01_ledger_raw`): if the
  ledger and its twin are validator-clean, have valid dates and are accepted, a security without capital
  events whose SELL lines fall on different days has, leg for leg and in order, the same rule, allowable
  cost and acquisition date in both, and the same closing quantity and cost.
  Outside that class (capital events — where D5 used to break the twin until fix 80905a9 —, several SELL lines on one day) the twin is
  compared on the real code only. The twin keeps the split line as a ratio-1 split (the property removes
  it: a day with no trade and factor 1 is transparent, `C10_factor_one_day_is_transparent`).
-/
namespace Cgt.C10
open Cgt Spec

theorem C10_split_unsplit_same_day_cancel (d : Day) (i j : Nat) (r : Rat) (hr : r ≠ 0) :
    (d.add i (.split r)).add j (.unsplit r) = d := by
  simp only [Day.add, splitFactor, hr, ne_eq, not_false_eq_true, if_true]
  have : d.r * r * (1 / r) = d.r := by grind
  cases d
  simp_all

theorem C10_factor_one_day_is_transparent (t : String) (w : Int) (pool : Option Pool) (date : Date)
    (claimed : Rat) (future : List Day) (cl : List Rat) :
    ∃ pool', dayStep t w pool { date := date } claimed future cl = .ok (pool', cl, []) ∧
      poolQ' pool' = poolQ' pool ∧ poolC' pool' = poolC' pool := by
  simp only [dayStep, buyStage, sellsStep, poolAfter]
  cases pool with
  | none => exact ⟨none, rfl, rfl, rfl⟩
  | some p =>
    refine ⟨some ⟨p.q * 1, p.c⟩, rfl, ?_, rfl⟩
    simp [poolQ']

theorem C10_cost_never_depends_on_splits (t : String) (w : Int) (ds : List Day) (pool : Option Pool)
    (legs : List Leg) (hok : daysOk ds) (hnz : buysNonzero ds) (h : runTicker t w ds = .ok (pool, legs)) :
    ∃ f : Day → Rat, legCost legs + poolC' pool = totalDayCost (C02.setOffsets f ds) :=
  C03.C03_main_pass_conserves t w ds pool legs hok hnz h

theorem C10_closing_quantity_only_rescaled (t : String) (w : Int) (ds : List Day) (pool : Option Pool)
    (legs : List Leg) (hok : daysOk ds) (h : runTicker t w ds = .ok (pool, legs)) :
    poolQ' pool = C02.rescaledNet ds :=
  (C02.ticker_conserves t w ds pool legs hok h).2.1

theorem C10_proceeds_never_depend_on_splits (t : String) (w : Int) (d : Day) (st : MState) (s : Trade)
    (future : List Day) (cl : List Rat) (st' : MState) (cl' : List Rat) (legs : List Leg)
    (hr : 0 < d.r) (hpos : ratiosPos future) (ha : 0 ≤ st.avail) (hp : 0 ≤ st.poolQ)
    (hs : 0 < s.q) (hc : claimsOk future cl)
    (h : sellStep t w d st s future cl = .ok (st', cl', legs)) :
    legGross legs = s.q * s.p ∧ legNet legs = s.q * s.p - s.f ∧
      legGain legs = legNet legs - legCost legs :=
  C04.C04_sell_proceeds t w d st s future cl st' cl' legs hr hpos ha hp hs hc h

/-! ### the post-split twin -/

/-- the lines of security `t` dated on or before day number `D` in post-split units; other lines as they are -/
def twinLine (t : String) (D : Int) (ρ : Rat) (x : Tx) : Tx := if x.ticker = t then twinTx D ρ x else x

theorem twinLine_ticker (t : String) (D : Int) (ρ : Rat) (x : Tx) : (twinLine t D ρ x).ticker = x.ticker := by
  unfold twinLine; split <;> rfl
theorem twinLine_date (t : String) (D : Int) (ρ : Rat) (x : Tx) : (twinLine t D ρ x).date = x.date := by
  unfold twinLine; split <;> rfl

theorem table_twinLine (t : String) (D : Int) (ρ : Rat) (l : List Tx) :
    table t (l.map (twinLine t D ρ)) = table t (l.map (twinTx D ρ)) := by
  unfold table
  congr 1
  induction l with
  | nil => rfl
  | cons x xs ih =>
    simp only [List.map_cons, List.filter_cons, twinLine_ticker]
    have : (twinTx D ρ x).ticker = x.ticker := rfl
    rw [this]
    by_cases h : x.ticker = t
    · simp only [h, decide_true, if_true, ih]; simp [twinLine, h]
    · simp only [h, decide_false, Bool.false_eq_true, if_false, ih]

theorem identify_twinLine (w : Int) (t : String) (D : Int) (ρ : Rat) (l : List Tx) (x : Tx) (hx : x.ticker = t) :
    identify w t (l.map (twinLine t D ρ) ++ [x]) = identify w t (l.map (twinTx D ρ) ++ [x]) := by
  unfold identify
  rw [table_snoc t _ x hx, table_snoc t _ x hx, table_twinLine]

def legMoneyM (l : Leg) : Rule × Rat × Option Date := (l.rule, l.cost, l.acq)

theorem legs_money_of_views (legs : List Leg) (ds : List SDisposal)
    (h : legs.map legView = ds.flatMap (fun dsp => dsp.legs.map slegView)) :
    legs.map legMoneyM = (ds.map (fun dsp => dsp.legs.map legMoney)).flatten := by
  have := congrArg (List.map (fun v : Rule × Rat × Rat × Option Date => (v.1, v.2.2.1, v.2.2.2))) h
  rw [List.map_map] at this
  have e1 : ((fun v : Rule × Rat × Rat × Option Date => (v.1, v.2.2.1, v.2.2.2)) ∘ legView) = legMoneyM := by
    funext l; rfl
  rw [e1] at this
  rw [this, List.flatMap_def, List.map_flatten, List.map_map]
  congr 2
  funext dsp
  simp only [Function.comp, List.map_map]
  rfl

theorem twinOp_ok (early : Bool) (ρ : Rat) (hρ : 0 < ρ) (op : Op) (h : opOk op) : opOk (twinOp early ρ op) := by
  cases early with
  | false => cases op <;> simpa [twinOp] using h
  | true =>
    cases op <;> simp only [twinOp, if_true] <;> try exact h
    · exact ⟨Rat.mul_pos h.1 hρ, rat_div_nonneg h.2.1 hρ, h.2.2⟩
    · exact ⟨Rat.mul_pos h.1 hρ, rat_div_nonneg h.2.1 hρ, h.2.2⟩

theorem twinLine_isSell (t : String) (D : Int) (ρ : Rat) (x : Tx) : (twinLine t D ρ x).op.isSell = x.op.isSell := by
  unfold twinLine twinTx
  split
  · simp only; cases x.op <;> simp only [twinOp] <;> (try split) <;> rfl
  · rfl

theorem twinLine_isEvent (t : String) (D : Int) (ρ : Rat) (x : Tx) : (twinLine t D ρ x).op.isEvent = x.op.isEvent := by
  unfold twinLine twinTx
  split
  · simp only; cases x.op <;> simp only [twinOp] <;> (try split) <;> rfl
  · rfl

/-- **C10, the post-split twin, for the matcher model from the raw ledger.** `l0` followed by
    `SPLIT t RATIO ρ` on day `D`, against the same lines with `t`'s trades dated on or before `D` in
    post-split units and a ratio-1 split: if both ledgers are validator-clean with valid dates and
    accepted, and `t` has no capital events and its SELL lines fall on different days, then `t`'s legs have,
    one for one and in order, the same rule, allowable cost and acquisition date, and the closing pool has
    the same quantity and cost. -/
theorem C10_ledger_twin (t : String) (D : Date) (ρ : Rat) (hρ : 0 < ρ) (l0 : List Tx)
    (hw : WellFormed (l0 ++ [⟨D, t, .split ρ⟩])) (hd : Spec.DatesOk (l0 ++ [⟨D, t, .split ρ⟩]))
    (hne : noEventLines t (l0 ++ [⟨D, t, .split ρ⟩])) (hone : oneSellPerDay t (l0 ++ [⟨D, t, .split ρ⟩]))
    (rs rs' : List TickerResult)
    (h : run bnbWindowDays (l0 ++ [⟨D, t, .split ρ⟩]) = .ok rs)
    (h' : run bnbWindowDays (l0.map (twinLine t D.ord ρ) ++ [⟨D, t, .split 1⟩]) = .ok rs') :
    ∀ r ∈ rs, ∀ r' ∈ rs', r.ticker = t → r'.ticker = t →
      r'.legs.map legMoneyM = r.legs.map legMoneyM ∧ poolQ' r'.pool = poolQ' r.pool ∧ poolC' r'.pool = poolC' r.pool := by
  intro r hr r' hr' ht ht'
  -- the twin ledger meets the same hypotheses
  have hw' : WellFormed (l0.map (twinLine t D.ord ρ) ++ [⟨D, t, .split 1⟩]) := by
    intro x hx
    simp only [List.mem_append, List.mem_map, List.mem_singleton] at hx
    rcases hx with ⟨y, hy, rfl⟩ | rfl
    · have hyok : TxOk y := hw y (by simp [hy])
      unfold twinLine; split
      · exact twinOp_ok _ ρ hρ y.op hyok
      · exact hyok
    · show (0 : Rat) < 1; decide
  have hd' : Spec.DatesOk (l0.map (twinLine t D.ord ρ) ++ [⟨D, t, .split 1⟩]) := by
    intro x hx
    simp only [List.mem_append, List.mem_map, List.mem_singleton] at hx
    rcases hx with ⟨y, hy, rfl⟩ | rfl
    · rw [twinLine_date]; exact hd y (by simp [hy])
    · exact hd ⟨D, t, .split ρ⟩ (by simp)
  have hne' : noEventLines t (l0.map (twinLine t D.ord ρ) ++ [⟨D, t, .split 1⟩]) := by
    intro x hx hxt
    simp only [List.mem_append, List.mem_map, List.mem_singleton] at hx
    rcases hx with ⟨y, hy, rfl⟩ | rfl
    · rw [twinLine_isEvent]; rw [twinLine_ticker] at hxt; exact hne y (by simp [hy]) hxt
    · rfl
  have hone' : oneSellPerDay t (l0.map (twinLine t D.ord ρ) ++ [⟨D, t, .split 1⟩]) := by
    unfold oneSellPerDay at hone ⊢
    have e : sellOrds t (l0.map (twinLine t D.ord ρ) ++ [⟨D, t, .split 1⟩]) = sellOrds t (l0 ++ [⟨D, t, .split ρ⟩]) := by
      rw [sellOrds_append, sellOrds_append]
      congr 1
      induction l0 with
      | nil => rfl
      | cons y ys ih =>
        simp only [List.map_cons, sellOrds_cons]
        rw [show sellOrds t (List.map (twinLine t D.ord ρ) ys) = sellOrds t ys from by
          have : ∀ zs : List Tx, sellOrds t (zs.map (twinLine t D.ord ρ)) = sellOrds t zs := by
            intro zs; induction zs with
            | nil => rfl
            | cons z zs ihz =>
              simp only [List.map_cons, sellOrds_cons, ihz]
              congr 1
              simp only [so, twinLine_ticker, twinLine_isSell, Tx.ord, twinLine_date]
          exact this ys]
        congr 1
        simp only [so, twinLine_ticker, twinLine_isSell, Tx.ord, twinLine_date]
    rw [e]; exact hone
  have c := C01.C01_ledger_raw _ hw hd rs h r hr (ht ▸ hne) (ht ▸ hone)
  have c' := C01.C01_ledger_raw _ hw' hd' rs' h' r' hr' (ht' ▸ hne') (ht' ▸ hone')
  simp only at c c'
  rw [ht] at c; rw [ht'] at c'
  rw [identify_twinLine bnbWindowDays t D.ord ρ l0 ⟨D, t, .split 1⟩ rfl] at c'
  obtain ⟨m1, m2, m3⟩ := identify_twin bnbWindowDays t D ρ hρ l0
  refine ⟨?_, ?_, ?_⟩
  · rw [legs_money_of_views _ _ c'.2.2, legs_money_of_views _ _ c.2.2]
    have : ∀ (ds : List SDisposal), ds.map (fun dsp => dsp.legs.map legMoney) = (ds.map dispMoney).map (fun v => v.2.2.2.2) := by
      intro ds; rw [List.map_map]; rfl
    rw [this, this, m1]
  · rw [← c'.1, ← c.1, m2]
  · rw [← c'.2.1, ← c.2.1, m3]


-- non-vacuity: a history with a same-day and a 30-day match before a 2-for-1 split meets the hypotheses
def exL0 : List Tx :=
  [ ⟨⟨2024, 1, 1⟩, "A", .buy 100 4 1⟩, ⟨⟨2024, 2, 1⟩, "A", .sell 40 6 0⟩, ⟨⟨2024, 2, 10⟩, "A", .buy 10 5 1⟩,
    ⟨⟨2024, 4, 1⟩, "A", .sell 20 3 0⟩, ⟨⟨2024, 2, 10⟩, "B", .buy 5 2 0⟩ ]
example : WellFormed (exL0 ++ [⟨⟨2024, 3, 1⟩, "A", .split 2⟩]) ∧ noEventLines "A" (exL0 ++ [⟨⟨2024, 3, 1⟩, "A", .split 2⟩]) ∧
    oneSellPerDay "A" (exL0 ++ [⟨⟨2024, 3, 1⟩, "A", .split 2⟩]) ∧
    (exL0.map (twinLine "A" (⟨2024, 3, 1⟩ : Date).ord 2)).map (·.op) =
      [.buy 200 2 1, .sell 80 3 0, .buy 20 (5/2) 1, .sell 20 3 0, .buy 5 2 0] := by decide +kernel

end Cgt.C10
