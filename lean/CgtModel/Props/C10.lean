import CgtModel.Report
import CgtModel.Props.C02
import CgtModel.Props.C03
import CgtModel.Props.C04
/-! # C10 — splits only rescale share counts; they never create gain, loss or cost

Statement: a SPLIT/UNSPLIT changes the number of shares held and nothing else: rewriting a ledger in
post-split units yields the same gains, losses, proceeds, allowable costs and closing cost; SPLIT r
followed by UNSPLIT r with no trade between changes nothing.

Proved for the model:
* `C10_split_unsplit_same_day_cancel` — SPLIT r and UNSPLIT r (r ≠ 0) on one day leave the day record
  unchanged; `C10_factor_one_day_is_transparent` — a day with no trade and factor 1 changes neither
  pool quantity nor pool cost and emits no legs;
* `C10_cost_never_depends_on_splits` — Σ legs' allowable cost + closing cost is Σ purchases'
  (quantity × price + fees + offset): the split factors do not occur in it (C03);
* `C10_closing_quantity_only_rescaled` — the closing quantity is Σ (bought − sold) each multiplied by
  the factors dated from its own day on (C02);
* `C10_proceeds_never_depend_on_splits` — the proceeds of a SELL's legs are quantity × price − fees of
  that line (C04).
Together: total gains + closing cost of a history are the same whatever splits it contains.
Not proved: the per-disposal equality with the post-split twin (a simulation between the run and the
run of the rescaled day list); it is checked on the real code for every generated ledger and every
split line. Known finding D5 (cost pre-pass ignores splits) is excluded from the twin comparison by
class `splitBeforeCostEvent`.
-/
namespace Cgt.C10
open Cgt

theorem C10_split_unsplit_same_day_cancel (d : Day) (i j : Nat) (r : Rat) (hr : r ≠ 0) :
    (d.add i (.split r)).add j (.unsplit r) = d := by
  simp only [Day.add, splitFactor, hr, ne_eq, not_false_eq_true, if_true]
  have : d.r * r * (1 / r) = d.r := by grind
  cases d
  simp_all

theorem C10_factor_one_day_is_transparent (t : String) (w : Int) (pool : Option Pool) (date : Date)
    (claimed : Rat) (future : List Day) (cl : List Rat) :
    ∃ pool', dayStep t w pool { date := date } claimed future cl = .ok (pool', cl, []) ∧
      poolQ' pool' = poolQ' pool ∧ poolC' pool' = poolC' pool := by
  simp only [dayStep, buyStage, sellsStep, poolAfter]
  cases pool with
  | none => exact ⟨none, rfl, rfl, rfl⟩
  | some p =>
    refine ⟨some ⟨p.q * 1, p.c⟩, rfl, ?_, rfl⟩
    simp [poolQ']

theorem C10_cost_never_depends_on_splits (t : String) (w : Int) (ds : List Day) (pool : Option Pool)
    (legs : List Leg) (hok : daysOk ds) (hnz : buysNonzero ds) (h : runTicker t w ds = .ok (pool, legs)) :
    ∃ f : Day → Rat, legCost legs + poolC' pool = totalDayCost (C02.setOffsets f ds) :=
  C03.C03_main_pass_conserves t w ds pool legs hok hnz h

theorem C10_closing_quantity_only_rescaled (t : String) (w : Int) (ds : List Day) (pool : Option Pool)
    (legs : List Leg) (hok : daysOk ds) (h : runTicker t w ds = .ok (pool, legs)) :
    poolQ' pool = C02.rescaledNet ds :=
  (C02.ticker_conserves t w ds pool legs hok h).2.1

theorem C10_proceeds_never_depend_on_splits (t : String) (w : Int) (d : Day) (st : MState) (s : Trade)
    (future : List Day) (cl : List Rat) (st' : MState) (cl' : List Rat) (legs : List Leg)
    (hr : 0 < d.r) (hpos : ratiosPos future) (ha : 0 ≤ st.avail) (hp : 0 ≤ st.poolQ)
    (hs : 0 < s.q) (hc : claimsOk future cl)
    (h : sellStep t w d st s future cl = .ok (st', cl', legs)) :
    legGross legs = s.q * s.p ∧ legNet legs = s.q * s.p - s.f ∧
      legGain legs = legNet legs - legCost legs :=
  C04.C04_sell_proceeds t w d st s future cl st' cl' legs hr hpos ha hp hs hc h

end Cgt.C10
