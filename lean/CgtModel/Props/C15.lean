import CgtModel.Validate
import CgtModel.Generated
/-! # C15 — every input yields either a complete report or a clean error, never a crash

Partial by nature: absence of panics and hangs in the real process is not a statement about a model.
Proved for the model:
* `C15_validator_iff` — the standalone validator reports an error exactly when some quantity is zero or
  negative, some price, fee or total value is negative, or a split ratio is not positive;
  `C15_validator_as_modelled` — the comparisons `opErrors` transcribes are exactly the error sites of
  validation.rs as the translator reads them on every run (group `validator`: every
  `if <field> <cmp> Decimal::ZERO { result.errors.push(…` by site, and which field each trade-like arm
  passes as its price);
* `C15_failure_writes_nothing` — in the CLI's output discipline a failing stage gives a non-zero exit,
  nothing on standard output and no file written; `C15_success_writes_once` — success writes the
  payload to exactly the chosen sink;
* `C15_default_pdf_never_overwrites`;
* every function of the model is total: Lean's termination checker accepted the matcher, the pre-pass,
  the look-ahead, the parser and the look-back by structural recursion or explicit fuel.
Observed by the check on the real code: the library entry points under `catch_unwind` and the real
binary on arbitrary bytes and hostile ledgers (exit status, stdout, output files, time limit). Known
finding D9: unchecked `rust_decimal` arithmetic panics on overflow for magnitudes near the top of the
numeric range (class `overflowMagnitude`).
-/
namespace Cgt.C15
open Cgt

theorem ite_single_eq_nil (c : Prop) [Decidable c] (x : String) :
    (if c then [x] else ([] : List String)) = [] ↔ ¬ c := by
  by_cases h : c <;> simp [h]

theorem opErrors_iff (op : Op) : opErrors op ≠ [] ↔ opBad op := by
  cases op <;>
    simp only [opErrors, opBad, ne_eq, List.append_eq_nil_iff, ite_single_eq_nil] <;> grind

/-- **the validator reports an error iff some transaction is bad in the property's sense** -/
theorem C15_validator_iff (l : List Tx) : validateErrors l ≠ [] ↔ ∃ t ∈ l, opBad t.op := by
  unfold validateErrors
  induction l with
  | nil => simp
  | cons t ts ih =>
    simp only [List.map_cons, List.flatten_cons, ne_eq, List.append_eq_nil_iff, List.mem_cons, exists_eq_or_imp]
    have h1 := opErrors_iff t.op
    constructor
    · intro h
      by_cases ht : opErrors t.op = []
      · right
        apply ih.mp
        intro hts
        exact h ⟨ht, hts⟩
      · left; exact h1.mp ht
    · rintro (h | h)
      · intro hh; exact (h1.mpr h) hh.1
      · intro hh; exact (ih.mpr h) hh.2

theorem C15_failure_writes_nothing (stages : List Bool) (payload : String) (sink : Sink)
    (h : stages.all id = false) :
    (runCli stages payload sink).exitCode ≠ 0 ∧ (runCli stages payload sink).stdout = none ∧
      (runCli stages payload sink).written = [] := by
  simp [runCli, h]

theorem C15_success_writes_once (stages : List Bool) (payload : String) (h : stages.all id = true) :
    runCli stages payload .stdout = ⟨0, some payload, []⟩ ∧
    ∀ p, runCli stages payload (.file p) = ⟨0, none, [(p, payload)]⟩ := by
  simp [runCli, h]

theorem C15_default_pdf_never_overwrites (stages : List Bool) (payload path : String) :
    (pdfDefault true stages payload path).written = [] ∧ (pdfDefault true stages payload path).exitCode ≠ 0 := by
  unfold pdfDefault; split <;> simp

example : opBad (.buy 0 5 10) := by simp [opBad]
example : ¬ opBad (.buy 1 0 0) := by simp [opBad]; grind

/-- the validator model transcribes exactly the error sites of validation.rs (translator group `validator`):
    `check_trade_fields` tests quantity = 0, quantity < 0, price < 0, fees < 0 and is called by BUY and SELL
    with their price and by CAPRETURN with its total value; SPLIT/UNSPLIT test ratio = 0 and ratio < 0;
    DIVIDEND tests total value < 0; ACCUMULATION tests quantity = 0, quantity < 0, total value < 0 -/
theorem C15_validator_as_modelled :
    Cgt.validatorChecks =
      [("trade", "fields.amount", "=="), ("trade", "fields.amount", "<"), ("trade", "fields.price.amount", "<"),
       ("trade", "fields.fees.amount", "<"), ("Buy", "check_trade_fields", "price"), ("Sell", "check_trade_fields", "price"),
       ("Split", "*ratio", "=="), ("Split", "*ratio", "<"), ("Unsplit", "*ratio", "=="), ("Unsplit", "*ratio", "<"),
       ("Dividend", "total_value.amount", "<"), ("Accumulation", "*amount", "=="), ("Accumulation", "*amount", "<"),
       ("Accumulation", "total_value.amount", "<"), ("CapReturn", "check_trade_fields", "total_value")] := by decide

end Cgt.C15
