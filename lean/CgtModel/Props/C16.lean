import CgtModel.Report
import CgtModel.Props.C07
import CgtModel.Props.C12Core
import CgtModel.Lemmas.SpecPerm
import CgtModel.Lemmas.YearSlice
/-! # C16 — output is deterministic and canonically ordered

The model has no hash maps: wherever the Rust iterates one (pools, matches per year, disposals per
key), the model produces a list that is then sorted by a total order on distinct keys, so its output is
a function of the input alone. Proved for the model:
* `C16_disposals_sorted` — the report's disposals are ordered by date, then ticker;
* `C16_holdings_sorted` — holdings are ordered by ticker;
* `C16_years_ascending` — tax years are strictly ascending (C07);
* `C16_sort_is_canonical` — sorting any permutation of the same disposal list with `dispLe` gives a
  list with the same elements in `dispLe` order (so the order in which a hash map yields them cannot
  show, up to ties, and ties do not occur: (date, ticker) keys are distinct).
* `C16_order_independent`, `C16_report_order_free` — **ties do not occur, proved**: results of pairwise
  different securities whose legs carry real calendar dates give, in any order of arrival (the order a
  hash map yields them in), the same disposal list element for element and the same holdings list; and
  every accepted ledger with real dates produces such results (`run_tickers`: the securities are those of
  the ledger, each once; every leg is dated by a line's date).
Partial: "all process executions" is observed, not proved — the check runs each case several times
in-process (every `HashMap::new()` draws a fresh seed) and as separate `cgt-tool` processes for
`report` (plain, json) and `parse`, and compares bytes; the converter's timestamp line is masked.
-/
namespace Cgt.C16
open Cgt

theorem dispLe_total (a b : Disposal) : (dispLe a b || dispLe b a) = true := by
  unfold dispLe
  simp only [Bool.or_eq_true, decide_eq_true_eq, Bool.decide_or, Bool.decide_and]
  have hs := String.le_total a.ticker b.ticker
  by_cases h1 : a.date.ord < b.date.ord
  · simp [h1]
  · by_cases h2 : b.date.ord < a.date.ord
    · simp [h2]
    · have : a.date.ord = b.date.ord := by omega
      rcases hs with h | h <;> simp [this, h]

theorem dispLe_trans (a b c : Disposal) (h1 : dispLe a b = true) (h2 : dispLe b c = true) : dispLe a c = true := by
  unfold dispLe at *
  simp only [Bool.or_eq_true, decide_eq_true_eq, Bool.decide_or, Bool.decide_and, Bool.and_eq_true] at *
  rcases h1 with h1 | ⟨h1, h1'⟩ <;> rcases h2 with h2 | ⟨h2, h2'⟩
  · left; omega
  · left; omega
  · left; omega
  · right; exact ⟨by omega, String.le_trans h1' h2'⟩

/-- disposals come out ordered by date, then ticker -/
theorem C16_disposals_sorted (dp : Nat) (rs : List TickerResult) :
    (allDisposals dp rs).Pairwise (fun a b => dispLe a b = true) := by
  unfold allDisposals
  exact List.pairwise_mergeSort (fun a b c => dispLe_trans a b c) dispLe_total _

theorem C16_sort_is_canonical (l l' : List Disposal) (h : l.Perm l') :
    (l.mergeSort dispLe).Perm (l'.mergeSort dispLe) ∧
    (l.mergeSort dispLe).Pairwise (fun a b => dispLe a b = true) ∧
    (l'.mergeSort dispLe).Pairwise (fun a b => dispLe a b = true) :=
  ⟨((List.mergeSort_perm l _).trans h).trans (List.mergeSort_perm l' _).symm,
   List.pairwise_mergeSort (fun a b c => dispLe_trans a b c) dispLe_total _,
   List.pairwise_mergeSort (fun a b c => dispLe_trans a b c) dispLe_total _⟩

theorem C16_holdings_sorted (rs : List TickerResult) :
    (holdingsOf rs).Pairwise (fun a b => a.1 ≤ b.1) := by
  unfold holdingsOf
  have := List.pairwise_mergeSort (le := fun (a b : String × Pool) => decide (a.1 ≤ b.1))
    (fun a b c h1 h2 => by simp only [decide_eq_true_eq] at *; exact String.le_trans h1 h2)
    (fun a b => by simp only [Bool.or_eq_true, decide_eq_true_eq]; exact String.le_total a.1 b.1)
    (rs.filterMap (fun r => r.pool.map (fun p => (r.ticker, p))))
  exact this.imp (fun h => by simpa using h)

theorem C16_years_ascending (ex : List (Int × Rat)) (l : List Tx) (ds : List Disposal)
    (out : List YearSummary) (h : allYears ex l ds = .ok out) : C07.StrictAsc (out.map (·.year)) :=
  C07.C07_years_ascending ex l ds out h

/-! ### whatever order a hash map yields the securities in -/

/-- the grouped legs of one security carry pairwise different dates -/
theorem addLeg_keys (x : Leg) : ∀ acc : List (Date × List Leg), (acc.map (·.1)).Nodup →
    ((addLeg x acc).map (·.1)).Nodup ∧ ∀ d ∈ (addLeg x acc).map (·.1), d ∈ acc.map (·.1) ∨ d = x.sellDate := by
  intro acc
  induction acc with
  | nil => intro _; simp [addLeg]
  | cons g rest ih =>
    obtain ⟨d, ls⟩ := g
    intro hnd
    simp only [List.map_cons, List.nodup_cons] at hnd
    simp only [addLeg]
    split
    · simp only [List.map_cons, List.nodup_cons]
      exact ⟨hnd, fun e he => Or.inl he⟩
    · rename_i hne
      obtain ⟨ih1, ih2⟩ := ih hnd.2
      simp only [List.map_cons, List.nodup_cons, List.mem_cons]
      refine ⟨⟨?_, ih1⟩, ?_⟩
      · intro hm
        rcases ih2 d hm with h | h
        · exact hnd.1 h
        · exact hne h
      · intro e he
        rcases he with rfl | he
        · exact Or.inl (Or.inl rfl)
        · rcases ih2 e he with h | h
          · exact Or.inl (Or.inr h)
          · exact Or.inr h

theorem groupByDate_keys (legs : List Leg) :
    ((groupByDate legs).map (·.1)).Nodup ∧ ∀ d ∈ (groupByDate legs).map (·.1), ∃ x ∈ legs, d = x.sellDate := by
  unfold groupByDate
  have : ∀ (xs : List Leg) (acc : List (Date × List Leg)), (acc.map (·.1)).Nodup →
      ((xs.foldl (fun acc l => addLeg l acc) acc).map (·.1)).Nodup ∧
      ∀ d ∈ (xs.foldl (fun acc l => addLeg l acc) acc).map (·.1), d ∈ acc.map (·.1) ∨ ∃ x ∈ xs, d = x.sellDate := by
    intro xs
    induction xs with
    | nil => intro acc h; exact ⟨h, fun d hd => Or.inl hd⟩
    | cons x xs ih =>
      intro acc h
      simp only [List.foldl_cons]
      obtain ⟨a1, a2⟩ := addLeg_keys x acc h
      obtain ⟨i1, i2⟩ := ih _ a1
      refine ⟨i1, ?_⟩
      intro d hd
      rcases i2 d hd with h' | ⟨y, hy, e⟩
      · rcases a2 d h' with h'' | h''
        · exact Or.inl h''
        · exact Or.inr ⟨x, by simp, h''⟩
      · exact Or.inr ⟨y, by simp [hy], e⟩
  obtain ⟨h1, h2⟩ := this legs [] (by simp)
  refine ⟨h1, ?_⟩
  intro d hd
  rcases h2 d hd with h | h
  · simp at h
  · exact h

/-- two disposals of one security's grouped legs with the same date are the same disposal -/
theorem groupLegs_date_inj (dp : Nat) (t : String) (legs : List Leg) (a b : Disposal)
    (ha : a ∈ groupLegs dp t legs) (hb : b ∈ groupLegs dp t legs) (h : a.date = b.date) : a = b := by
  unfold groupLegs at ha hb
  simp only [List.mem_map] at ha hb
  obtain ⟨⟨d1, l1⟩, m1, rfl⟩ := ha
  obtain ⟨⟨d2, l2⟩, m2, rfl⟩ := hb
  have hd : d1 = d2 := h
  subst hd
  have hnd := (groupByDate_keys legs).1
  have : l1 = l2 := by
    generalize groupByDate legs = gs at m1 m2 hnd
    induction gs with
    | nil => cases m1
    | cons g gs ih =>
      simp only [List.map_cons, List.nodup_cons] at hnd
      rcases List.mem_cons.mp m1 with e1 | m1' <;> rcases List.mem_cons.mp m2 with e2 | m2'
      · rw [← e1] at e2; injection e2 with _ e; exact e.symm
      · exfalso; apply hnd.1; rw [← e1]; exact List.mem_map.mpr ⟨_, m2', rfl⟩
      · exfalso; apply hnd.1; rw [← e2]; exact List.mem_map.mpr ⟨_, m1', rfl⟩
      · exact ih m1' m2' hnd.2
  rw [this]

theorem groupLegs_fields (dp : Nat) (t : String) (legs : List Leg) (a : Disposal) (ha : a ∈ groupLegs dp t legs) :
    a.ticker = t ∧ ∃ x ∈ legs, a.date = x.sellDate := by
  unfold groupLegs at ha
  simp only [List.mem_map] at ha
  obtain ⟨⟨d, ls⟩, m, rfl⟩ := ha
  refine ⟨rfl, ?_⟩
  exact (groupByDate_keys legs).2 d (List.mem_map.mpr ⟨_, m, rfl⟩)

theorem nodup_map_inj {α β : Type} (f : α → β) : ∀ l : List α, (l.map f).Nodup →
    ∀ a ∈ l, ∀ b ∈ l, f a = f b → a = b := by
  intro l
  induction l with
  | nil => intro _ a ha; cases ha
  | cons x xs ih =>
    intro h a ha b hb e
    simp only [List.map_cons, List.nodup_cons] at h
    rcases List.mem_cons.mp ha with rfl | ha' <;> rcases List.mem_cons.mp hb with rfl | hb'
    · rfl
    · exfalso; apply h.1; rw [e]; exact List.mem_map_of_mem hb'
    · exfalso; apply h.1; rw [← e]; exact List.mem_map_of_mem ha'
    · exact ih h.2 a ha' b hb' e

/-- **the order in which the securities' results arrive does not show**: for results with pairwise
    different securities whose legs carry real calendar dates, any permutation of the result list (the
    order a hash map happens to yield them in) gives the same disposal list, element for element, and the
    same holdings list. -/
theorem C16_order_independent (dp : Nat) (rs rs' : List TickerResult) (hp : rs.Perm rs')
    (hnd : (rs.map (·.ticker)).Nodup) (hdates : ∀ r ∈ rs, ∀ x ∈ r.legs, x.sellDate.ok) :
    allDisposals dp rs = allDisposals dp rs' ∧ holdingsOf rs = holdingsOf rs' := by
  have inj : ∀ r ∈ rs, ∀ r' ∈ rs, r.ticker = r'.ticker → r = r' := by
    intro r hr r' hr' e
    exact nodup_map_inj (·.ticker) rs hnd r hr r' hr' e
  constructor
  · unfold allDisposals
    have hperm : ((rs.map (fun r => groupLegs dp r.ticker r.legs)).flatten).Perm ((rs'.map (fun r => groupLegs dp r.ticker r.legs)).flatten) :=
      (hp.map _).flatten
    apply List.Perm.eq_of_pairwise (le := fun a b => dispLe a b = true)
    · intro a b ha hb hab hba
      rw [List.mem_mergeSort] at ha hb
      rw [← hperm.mem_iff] at hb
      simp only [List.mem_flatten, List.mem_map] at ha hb
      obtain ⟨_, ⟨r, hr, rfl⟩, ha⟩ := ha
      obtain ⟨_, ⟨r', hr', rfl⟩, hb⟩ := hb
      obtain ⟨ta, x, hx, da⟩ := groupLegs_fields dp _ _ a ha
      obtain ⟨tb, x', hx', db⟩ := groupLegs_fields dp _ _ b hb
      unfold dispLe at hab hba
      simp only [Bool.or_eq_true, decide_eq_true_eq, Bool.decide_or, Bool.decide_and, Bool.and_eq_true] at hab hba
      have hord : a.date.ord = b.date.ord := by
        rcases hab with h | h <;> rcases hba with h' | h' <;> omega
      have htk : a.ticker = b.ticker := by
        rcases hab with h | h
        · omega
        · rcases hba with h' | h'
          · omega
          · exact String.le_antisymm h.2 h'.2
      have hrr : r = r' := inj r hr r' hr' (by rw [← ta, ← tb, htk])
      subst hrr
      have hdate : a.date = b.date := by
        apply Spec.ord_inj _ _ _ _ hord
        · rw [da]; exact hdates r hr x hx
        · rw [db]; exact hdates r hr x' hx'
      exact groupLegs_date_inj dp _ _ a b ha hb hdate
    · exact List.pairwise_mergeSort (fun a b c => dispLe_trans a b c) dispLe_total _
    · exact List.pairwise_mergeSort (fun a b c => dispLe_trans a b c) dispLe_total _
    · exact ((List.mergeSort_perm _ _).trans hperm).trans (List.mergeSort_perm _ _).symm
  · unfold holdingsOf
    have hperm : (rs.filterMap (fun r => r.pool.map (fun p => (r.ticker, p)))).Perm (rs'.filterMap (fun r => r.pool.map (fun p => (r.ticker, p)))) :=
      hp.filterMap _
    apply List.Perm.eq_of_pairwise (le := fun (a b : String × Pool) => decide (a.1 ≤ b.1) = true)
    · intro a b ha hb hab hba
      rw [List.mem_mergeSort] at ha hb
      rw [← hperm.mem_iff] at hb
      simp only [List.mem_filterMap, Option.map_eq_some_iff] at ha hb
      obtain ⟨r, hr, p, hp1, rfl⟩ := ha
      obtain ⟨r', hr', p', hp2, rfl⟩ := hb
      simp only [decide_eq_true_eq] at hab hba
      have hrr : r = r' := inj r hr r' hr' (String.le_antisymm hab hba)
      subst hrr
      rw [hp1] at hp2
      injection hp2 with e
      rw [e]
    · exact List.pairwise_mergeSort
        (fun a b c h1 h2 => by simp only [decide_eq_true_eq] at *; exact String.le_trans h1 h2)
        (fun a b => by simp only [Bool.or_eq_true, decide_eq_true_eq]; exact String.le_total a.1 b.1) _
    · exact List.pairwise_mergeSort
        (fun a b c h1 h2 => by simp only [decide_eq_true_eq] at *; exact String.le_trans h1 h2)
        (fun a b => by simp only [Bool.or_eq_true, decide_eq_true_eq]; exact String.le_total a.1 b.1) _
    · exact ((List.mergeSort_perm _ _).trans hperm).trans (List.mergeSort_perm _ _).symm


theorem nodup_eraseDups : ∀ (n : Nat) (l : List String), l.length ≤ n → l.eraseDups.Nodup := by
  intro n
  induction n with
  | zero =>
    intro l h
    have : l = [] := List.length_eq_zero_iff.mp (Nat.le_zero.mp h)
    subst this; simp
  | succ n ih =>
    intro l h
    cases l with
    | nil => simp
    | cons a as =>
      rw [List.eraseDups_cons, List.nodup_cons]
      constructor
      · intro hm
        rw [List.mem_eraseDups] at hm
        have := (List.mem_filter.mp hm).2
        simp at this
      · apply ih
        have := List.length_filter_le (fun b => !b == a) as
        simp only [List.length_cons] at h
        omega

/-- **… for the report of any accepted ledger**: the disposal list and the holdings list of an accepted
    ledger with real calendar dates do not depend on the order in which the per-security results are
    collected (in the Rust, the iteration order of the pool and match hash maps). -/
theorem C16_report_order_free (dp : Nat) (l : List Tx) (hd : Spec.DatesOk l) (rs rs' : List TickerResult)
    (h : run bnbWindowDays l = .ok rs) (hp : rs.Perm rs') :
    allDisposals dp rs = allDisposals dp rs' ∧ holdingsOf rs = holdingsOf rs' := by
  apply C16_order_independent dp rs rs' hp
  · rw [run_tickers bnbWindowDays l rs h]
    unfold tickersOf
    exact nodup_eraseDups _ _ (Nat.le_refl _)
  · intro r hr x hx
    have hrun := C02.run_result bnbWindowDays l rs h r hr
    unfold runTicker at hrun
    split at hrun
    · cases hrun
    · rename_i ds' hw
      obtain ⟨d, hdm, e⟩ := runDays_sellDate r.ticker bnbWindowDays ds' none r.pool [] r.legs hrun x hx
      unfold withOffsets at hw
      split at hw
      · cases hw
      · simp only [Except.ok.injEq] at hw
        subst hw
        simp only [List.mem_map] at hdm
        obtain ⟨d0, hd0, rfl⟩ := hdm
        obtain ⟨b, hb, eb⟩ := C12.daysOf_date_mem r.ticker l d0 hd0
        rw [e]
        show d0.date.ok
        rw [eb]
        exact hd b hb

-- non-vacuity: two securities' results in either order
def exRs : List TickerResult :=
  [ { ticker := "B", pool := some ⟨5, 10⟩, legs := [] },
    { ticker := "A", pool := none, legs := [ { (default : Leg) with sellDate := ⟨2024, 2, 29⟩ } ] } ]
example : exRs.Perm exRs.reverse ∧ (exRs.map (·.ticker)).Nodup ∧ ∀ r ∈ exRs, ∀ x ∈ r.legs, x.sellDate.ok := by
  refine ⟨(List.reverse_perm _).symm, by decide, ?_⟩
  intro r hr x hx
  simp only [exRs, List.mem_cons, List.not_mem_nil, or_false] at hr
  rcases hr with rfl | rfl
  · cases hx
  · simp only [List.mem_cons, List.not_mem_nil, or_false] at hx
    subst hx
    unfold Date.ok leapP
    decide

end Cgt.C16
