import CgtModel.Report
import CgtModel.Props.C07
/-! # C16 — output is deterministic and canonically ordered

The model has no hash maps: wherever the Rust iterates one (pools, matches per year, disposals per
key), the model produces a list that is then sorted by a total order on distinct keys, so its output is
a function of the input alone. Proved for the model:
* `C16_disposals_sorted` — the report's disposals are ordered by date, then ticker;
* `C16_holdings_sorted` — holdings are ordered by ticker;
* `C16_years_ascending` — tax years are strictly ascending (C07);
* `C16_sort_is_canonical` — sorting any permutation of the same disposal list with `dispLe` gives a
  list with the same elements in `dispLe` order (so the order in which a hash map yields them cannot
  show, up to ties, and ties do not occur: (date, ticker) keys are distinct).
Partial: "all process executions" is observed, not proved — the check runs each case several times
in-process (every `HashMap::new()` draws a fresh seed) and as separate `cgt-tool` processes for
`report` (plain, json) and `parse`, and compares bytes; the converter's timestamp line is masked.
-/
namespace Cgt.C16
open Cgt

theorem dispLe_total (a b : Disposal) : (dispLe a b || dispLe b a) = true := by
  unfold dispLe
  simp only [Bool.or_eq_true, decide_eq_true_eq, Bool.decide_or, Bool.decide_and]
  have hs := String.le_total a.ticker b.ticker
  by_cases h1 : a.date.ord < b.date.ord
  · simp [h1]
  · by_cases h2 : b.date.ord < a.date.ord
    · simp [h2]
    · have : a.date.ord = b.date.ord := by omega
      rcases hs with h | h <;> simp [this, h]

theorem dispLe_trans (a b c : Disposal) (h1 : dispLe a b = true) (h2 : dispLe b c = true) : dispLe a c = true := by
  unfold dispLe at *
  simp only [Bool.or_eq_true, decide_eq_true_eq, Bool.decide_or, Bool.decide_and, Bool.and_eq_true] at *
  rcases h1 with h1 | ⟨h1, h1'⟩ <;> rcases h2 with h2 | ⟨h2, h2'⟩
  · left; omega
  · left; omega
  · left; omega
  · right; exact ⟨by omega, String.le_trans h1' h2'⟩

/-- disposals come out ordered by date, then ticker -/
theorem C16_disposals_sorted (dp : Nat) (rs : List TickerResult) :
    (allDisposals dp rs).Pairwise (fun a b => dispLe a b = true) := by
  unfold allDisposals
  exact List.pairwise_mergeSort (fun a b c => dispLe_trans a b c) dispLe_total _

theorem C16_sort_is_canonical (l l' : List Disposal) (h : l.Perm l') :
    (l.mergeSort dispLe).Perm (l'.mergeSort dispLe) ∧
    (l.mergeSort dispLe).Pairwise (fun a b => dispLe a b = true) ∧
    (l'.mergeSort dispLe).Pairwise (fun a b => dispLe a b = true) :=
  ⟨((List.mergeSort_perm l _).trans h).trans (List.mergeSort_perm l' _).symm,
   List.pairwise_mergeSort (fun a b c => dispLe_trans a b c) dispLe_total _,
   List.pairwise_mergeSort (fun a b c => dispLe_trans a b c) dispLe_total _⟩

theorem C16_holdings_sorted (rs : List TickerResult) :
    (holdingsOf rs).Pairwise (fun a b => a.1 ≤ b.1) := by
  unfold holdingsOf
  have := List.pairwise_mergeSort (le := fun (a b : String × Pool) => decide (a.1 ≤ b.1))
    (fun a b c h1 h2 => by simp only [decide_eq_true_eq] at *; exact String.le_trans h1 h2)
    (fun a b => by simp only [Bool.or_eq_true, decide_eq_true_eq]; exact String.le_total a.1 b.1)
    (rs.filterMap (fun r => r.pool.map (fun p => (r.ticker, p))))
  exact this.imp (fun h => by simpa using h)

theorem C16_years_ascending (ex : List (Int × Rat)) (l : List Tx) (ds : List Disposal)
    (out : List YearSummary) (h : allYears ex l ds = .ok out) : C07.StrictAsc (out.map (·.year)) :=
  C07.C07_years_ascending ex l ds out h

end Cgt.C16
