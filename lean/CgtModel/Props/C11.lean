import CgtModel.Report
import CgtModel.Lemmas.Offsets
import CgtModel.Lemmas.Cost
import CgtModel.Lemmas.Prepass
import CgtModel.Props.Formulas
/-! # C11 — capital returns and accumulations move cost by exactly their amount

Statement: a capital return lowers, an accumulation raises, the allowable expenditure of the security by
exactly its net amount, spread only over shares already held and never over shares acquired after the
event; equal accumulation and capital return on one date cancel; no leg or holding has negative
allowable cost — a capital return the remaining expenditure cannot absorb is refused citing TCGA92
s122; cash dividends change only the dividend totals.

Proved for the model of the cost pre-pass and the matcher:
* `C11_moves_exactly`, `C11_no_holding_no_effect` — see C03;
* `C11_only_offsets_change`, `C11_spent_lots_untouched` — an event changes nothing but the offsets of
  lots that still hold shares; lots added later do not exist when it is applied
  (`C11_later_lot_keeps_zero_offset`);
* `C11_equal_events_cancel` — an accumulation followed by a capital return of the same net amount
  restores every offset;
* `C11_excess_is_refused` — a capital return whose net amount exceeds the adjusted cost of the lots
  still held is refused with `capReturnExceedsCost` (the real message cites S122: checked on the
  real error text by the correspondence);
* `C11_dividend_is_inert` — a DIVIDEND line leaves the day record unchanged.
Known finding D6 (recorded, not repaired): the refusal test compares with the *sum* of the held lots'
costs while the amount is apportioned by *shares*, so one cheap lot can be driven negative; "no leg
or holding has negative allowable cost" is therefore false on the pinned tree and is not proved; the
model reproduces the defect (`negativeLotWitness`).
-/
namespace Cgt.C11
open Cgt

theorem C11_moves_exactly (adj : Rat) (lots : List Lot) (hnn : ∀ l ∈ lots, 0 ≤ l.held)
    (hth : totalHeld lots ≠ 0) : offSum (applyAdj adj lots) = offSum lots + adj :=
  applyAdj_sum adj lots hnn hth

theorem C11_no_holding_no_effect (adj : Rat) (lots : List Lot) (h : totalHeld lots = 0) :
    applyAdj adj lots = lots := applyAdj_none_held adj lots h

theorem C11_only_offsets_change (adj : Rat) (lots : List Lot) :
    (applyAdj adj lots).map (fun l => (l.ord, l.q, l.p, l.f, l.consumed))
      = lots.map (fun l => (l.ord, l.q, l.p, l.f, l.consumed)) := applyAdj_shape adj lots

theorem C11_spent_lots_untouched (adj : Rat) (lots : List Lot) (l : Lot) (hl : l ∈ lots)
    (h : ¬ l.held > 0) : l ∈ applyAdj adj lots := applyAdj_spent_untouched adj lots l hl h

/-- a purchase made on or after the event's day enters the pre-pass with offset 0: in `prepassDay`
    the day's events are applied before the day's purchase is added -/
theorem C11_later_lot_keeps_zero_offset (t : String) (lots lots' : List Lot) (d : Day) (b : Trade)
    (hb : d.buy = some b) (hs : d.sells = []) (h : prepassDay t lots d = .ok lots') :
    ∃ pre, lots' = pre ++ [scaleLot d.r { ord := d.ord, q := b.q, p := b.p, f := b.f }] ∧
      (scaleLot d.r { ord := d.ord, q := b.q, p := b.p, f := b.f }).off = 0 := by
  unfold prepassDay at h
  simp only [hb, hs, List.foldl_nil] at h
  split at h
  · cases h
  · rename_i l2 _
    simp only [Except.ok.injEq] at h
    refine ⟨l2.map (scaleLot d.r), ?_, ?_⟩
    · rw [← h]; simp
    · unfold scaleLot; split <;> rfl

theorem C11_equal_events_cancel (v : Rat) (lots : List Lot) :
    (applyAdj (-v) (applyAdj v lots)).map (·.off) = lots.map (·.off) := applyAdj_cancel v lots

theorem C11_excess_is_refused (t : String) (ord : Int) (idx : Nat) (net : Rat) (cs : List (Nat × Rat))
    (lots : List Lot) (hne : lots.isEmpty = false) (h : net > totalAdjCost lots) :
    applyCaps t ord ((idx, net) :: cs) lots = .error ⟨.capReturnExceedsCost, t, ord, 0, 0, idx⟩ :=
  applyCaps_refuses t ord idx net cs lots hne h

theorem C11_dividend_is_inert (d : Day) (i : Nat) (v x : Rat) : d.add i (.dividend v x) = d := rfl

/-- D6 witness: 10 @ 100 bought, 1 sold, 1 @ 1 bought, capital return of 550 ≤ total cost of held lots:
    accepted, and the cheap lot ends with negative adjusted cost -/
def negativeLotWitness : List Day :=
  [ { date := ⟨2024, 1, 1⟩, buy := some ⟨0, 10, 100, 0⟩ },
    { date := ⟨2024, 2, 1⟩, sells := [⟨1, 1, 100, 0⟩] },
    { date := ⟨2024, 2, 5⟩, buy := some ⟨2, 1, 1, 0⟩ },
    { date := ⟨2024, 3, 1⟩, caps := [(3, 550)] } ]

def minAdjCost (r : Except MErr (List Lot)) : Rat :=
  match r with
  | .ok lots => lots.foldl (fun m l => min m l.adjCost) 0
  | .error _ => 0

example : minAdjCost (prepass "A" [] negativeLotWitness) < 0 := by decide +kernel

/-- **a SPLIT/UNSPLIT changes share counts and nothing else in the pre-pass** (the repair of D5): restating a
    lot in the new units keeps its date, its cost offset and its adjusted cost, and multiplies the shares
    it still holds by the factor — so later events are apportioned over, and refused against, the lots as
    they stand in current units -/
theorem C11_split_restates_only_share_counts (r : Rat) (hr : r ≠ 0) (l : Lot) :
    (scaleLot r l).ord = l.ord ∧ (scaleLot r l).off = l.off ∧ (scaleLot r l).adjCost = l.adjCost ∧
    (scaleLot r l).held = l.held * r := by
  refine ⟨scaleLot_ord r l, scaleLot_off r l, ?_, scaleLot_held r l hr⟩
  have hinv : r * r⁻¹ = 1 := Rat.mul_inv_cancel _ hr
  unfold scaleLot Lot.adjCost
  simp only [hr, if_false, Rat.div_def]
  grind

/-- the D5 witness in the model: 10 bought, 2-for-1 split, 15 sold, then a capital return of 10 — accepted,
    all of it on the one lot, whose 5 remaining shares are counted in post-split units -/
example : (match prepass "A" [] [ { date := ⟨2024, 1, 1⟩, buy := some ⟨0, 10, 10, 0⟩ }, { date := ⟨2024, 2, 1⟩, r := 2 },
      { date := ⟨2024, 3, 1⟩, sells := [⟨2, 15, 10, 0⟩] }, { date := ⟨2024, 4, 1⟩, caps := [(3, 10)] } ] with
    | .ok lots => lots.map (fun l => (l.held, l.off))
    | .error _ => []) = [(5, -10)] := by decide +kernel

end Cgt.C11
