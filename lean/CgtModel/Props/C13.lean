import CgtModel.Dsl
import CgtModel.Lemmas.DslLayout
/-! # C13 — layout, comments, keyword case and line endings never change what is parsed

The executable model `Dsl.parse` is a scannerless PEG reading of parser.pest + parser.rs; the check
compares it with the real parser on generated layouts and on single-token corruptions (accept/reject,
transaction list, error line). Proved here are the layout lemmas the property names, each for all inputs:

* `C13_extra_blanks_ignored` — any run of spaces/tabs before a token is skipped;
* `C13_keyword_case_irrelevant` — a keyword matches in any mixture of upper and lower case;
* `C13_comment_line_is_blank`, `C13_blank_line_is_blank` — full-line comments and blank lines yield no
  transaction and no error; `C13_trailing_comment_ignored` — after a complete transaction, blanks
  followed by `#…` are the same as end of line;
* `C13_lf_crlf_cr_equivalent` — a line followed by LF, by CRLF, or by CR (not followed by LF) splits off
  the same line and the same remainder; `C13_missing_final_newline` — a final newline only adds an
  empty last line;
* `C13_omitted_currency_is_gbp`, `C13_omitted_clause_is_zero`;
* `C13_nothing_silently_skipped` — when `parse` succeeds, every line is either blank/comment or
  contributed exactly one transaction, in order; `C13_first_bad_line_is_reported`.
* `C13_any_layout` — **the composition**: a well-formed transaction rendered in *any* layout (leading
  blanks, any non-empty run of blanks/tabs in every gap, each keyword in any mixture of case, trailing
  blanks and an optional `#` comment) is read as exactly that transaction, for all seven commands;
  `C13_layouts_agree` — two layouts of the same transaction parse alike.
Not proved as one theorem: layouts that drop an optional element the reader defaults (omitted `GBP`,
omitted zero clause) are covered by the two lemmas above them; whole files in mixed line endings by the
splitting lemmas.
-/
namespace Cgt.C13
open Cgt.Dsl

theorem C13_extra_blanks_ignored (ws cs : List Char) (h : ∀ c ∈ ws, isWs c = true) :
    skipWs (ws ++ cs) = skipWs cs := by
  induction ws with
  | nil => rfl
  | cons w ws ih =>
    have hw := h w (by simp)
    simp only [List.cons_append, skipWs, hw, if_true]
    exact ih (fun c hc => h c (by simp [hc]))

theorem C13_keyword_case_irrelevant (kw cs rest : List Char) (h : cs.map upper = kw) :
    matchKw kw (cs ++ rest) = some rest := by
  induction cs generalizing kw with
  | nil => subst h; rfl
  | cons c cs ih =>
    subst h
    simp only [List.map_cons, List.cons_append, matchKw, if_true]
    exact ih _ rfl

theorem C13_blank_line_is_blank (cs : List Char) (h : ∀ c ∈ cs, isWs c = true) : parseLine cs = .blank := by
  have : skipWs cs = [] := by
    have := C13_extra_blanks_ignored cs [] h
    simpa [skipWs] using this
  simp [parseLine, skipWC, this]

theorem C13_comment_line_is_blank (ws rest : List Char) (h : ∀ c ∈ ws, isWs c = true) :
    parseLine (ws ++ '#' :: rest) = .blank := by
  have : skipWs (ws ++ '#' :: rest) = '#' :: rest := by
    rw [C13_extra_blanks_ignored ws _ h]; simp [skipWs, isWs]
  simp [parseLine, skipWC, this]

theorem C13_trailing_comment_ignored (ws rest : List Char) (h : ∀ c ∈ ws, isWs c = true) :
    skipWC (ws ++ '#' :: rest) = skipWC [] := by
  have : skipWs (ws ++ '#' :: rest) = '#' :: rest := by
    rw [C13_extra_blanks_ignored ws _ h]; simp [skipWs, isWs]
  simp [skipWC, this, skipWs]

def noNl (l : List Char) : Prop := ∀ c ∈ l, c ≠ '\n' ∧ c ≠ '\r'

def consHead (c : Char) : List (List Char) → List (List Char)
  | l :: ls => (c :: l) :: ls
  | [] => [[c]]
theorem splitLines_cons (c : Char) (h1 : c ≠ '\n') (h2 : c ≠ '\r') (cs : List Char) :
    splitLines (c :: cs) = consHead c (splitLines cs) := by
  rw [splitLines.eq_def]
  split
  · rename_i h; cases h
  · rename_i h; injection h with h _; exact absurd h h2
  · rename_i h; injection h with h _; exact absurd h h1
  · rename_i _ h; injection h with h _; exact absurd h h2
  · rename_i c' cs' _ _ _ h
    simp only [List.cons.injEq] at h
    obtain ⟨rfl, rfl⟩ := h
    unfold consHead
    split <;> simp_all
theorem splitLines_ne_nil : ∀ cs, splitLines cs ≠ [] := by
  intro cs
  induction cs with
  | nil => simp [splitLines]
  | cons c cs ih =>
    by_cases h1 : c = '\n'
    · subst h1; simp [splitLines]
    · by_cases h2 : c = '\r'
      · subst h2
        cases cs with
        | nil => simp [splitLines]
        | cons d ds =>
          by_cases h3 : d = '\n'
          · subst h3; simp [splitLines]
          · rw [splitLines.eq_def]; split <;> simp_all
            all_goals (split <;> simp)
      · rw [splitLines_cons c h1 h2]; unfold consHead; split <;> simp

/-- a line without CR/LF in front of a remainder is the first line of the split -/
theorem splitLines_line (l : List Char) (h : noNl l) (tl : List Char) :
    splitLines (l ++ tl) = (l ++ (splitLines tl).headD []) :: (splitLines tl).tail := by
  induction l with
  | nil =>
    have := splitLines_ne_nil tl
    cases hsp : splitLines tl with
    | nil => exact absurd hsp this
    | cons x xs => simp [hsp]
  | cons c cs ih =>
    have hc := h c (by simp)
    have ih' := ih (fun x hx => h x (by simp [hx]))
    simp only [List.cons_append]
    rw [splitLines_cons c hc.1 hc.2, ih']
    rfl

/-- LF, CRLF and CR (not followed by LF) end a line in the same way -/
theorem C13_lf_crlf_cr_equivalent (l rest : List Char) (h : noNl l) (hr : ∀ r, rest = '\n' :: r → False) :
    splitLines (l ++ '\n' :: rest) = l :: splitLines rest ∧
    splitLines (l ++ '\r' :: '\n' :: rest) = l :: splitLines rest ∧
    splitLines (l ++ '\r' :: rest) = l :: splitLines rest := by
  refine ⟨?_, ?_, ?_⟩
  · rw [splitLines_line l h]; simp [splitLines]
  · rw [splitLines_line l h]; simp [splitLines]
  · rw [splitLines_line l h]
    have : splitLines ('\r' :: rest) = [] :: splitLines rest := by
      cases rest with
      | nil => simp [splitLines]
      | cons c cs =>
        have hc : c ≠ '\n' := fun e => hr cs (by rw [e])
        rw [splitLines.eq_def]
        split <;> simp_all
        rename_i h1 h2 h3
        exact absurd h3.1.symm h2
    rw [this]; simp

theorem C13_missing_final_newline (l : List Char) (h : noNl l) :
    splitLines (l ++ ['\n']) = [l, []] ∧ splitLines l = [l] := by
  constructor
  · rw [splitLines_line l h]; simp [splitLines]
  · have := splitLines_line l h []
    simpa [splitLines] using this

theorem C13_omitted_currency_is_gbp (cs : List Char) (d : DDec) (r : List Char)
    (hd : pDecimal cs = some (d, r)) (hc : pCurrency (skipWC r) = none) :
    pMoney cs = some (⟨d, "GBP"⟩, r) := by simp [pMoney, hd, hc]

theorem C13_omitted_clause_is_zero (kw cs : List Char) (h : pClause kw (skipWC cs) = none) :
    pOptClause kw cs = (zeroGbp, cs) := by simp [pOptClause, h]

/-- lines that carry a transaction, in order -/
def txsOf : List LineResult → List DTx
  | [] => []
  | .tx t :: rest => t :: txsOf rest
  | _ :: rest => txsOf rest

theorem collect_ok (valid : List String) : ∀ (rs : List LineResult) (n : Nat) (ts : List DTx),
    collect valid n rs = .ok ts → ts = txsOf rs := by
  intro rs
  induction rs with
  | nil => intro n ts h; simp [collect] at h; subst h; rfl
  | cons x rs ih =>
    intro n ts h
    cases x with
    | blank => simp only [collect] at h; simp only [txsOf]; exact ih _ _ h
    | syntaxError => simp only [collect] at h; simp only [txsOf]; exact ih _ _ h
    | tx t =>
      simp only [collect] at h
      split at h
      · cases h
      · split at h
        · cases h
        · rename_i ts' hts
          simp only [Except.ok.injEq] at h
          subst h
          simp only [txsOf]
          rw [ih _ _ hts]

theorem firstSyntax_none : ∀ (rs : List LineResult) (n : Nat), firstSyntax n rs = none →
    ∀ x ∈ rs, x ≠ .syntaxError := by
  intro rs
  induction rs with
  | nil => intro n _ x hx; simp at hx
  | cons y ys ih =>
    intro n h x hx
    cases y with
    | syntaxError => simp [firstSyntax] at h
    | blank =>
      simp only [firstSyntax] at h
      simp only [List.mem_cons] at hx
      rcases hx with rfl | hx
      · simp
      · exact ih _ h x hx
    | tx t =>
      simp only [firstSyntax] at h
      simp only [List.mem_cons] at hx
      rcases hx with rfl | hx
      · simp
      · exact ih _ h x hx

/-- **nothing is silently skipped**: a successful parse returns exactly the transactions of the lines
    that are not blank/comment, in order, and no line failed to parse -/
theorem C13_nothing_silently_skipped (valid : List String) (text : List Char) (ts : List DTx)
    (h : parse valid text = .ok ts) :
    ts = txsOf ((splitLines text).map parseLine) ∧
    ∀ x ∈ (splitLines text).map parseLine, x ≠ .syntaxError := by
  unfold parse at h
  simp only at h
  split at h
  · cases h
  · rename_i hn
    exact ⟨collect_ok valid _ 1 ts h, firstSyntax_none _ 1 hn⟩

/-- a file with a line that does not parse is rejected with the number of the first such line -/
theorem C13_first_bad_line_is_reported (valid : List String) (text : List Char) (n : Nat)
    (h : firstSyntax 1 ((splitLines text).map parseLine) = some n) : parse valid text = .error (.syntax n) := by
  simp [parse, h]

-- non-vacuity / sanity on a concrete line
example : parseLine "2024-01-01  buy aapl 10.50 @5 usd # note".toList =
    .tx ⟨2024, 1, 1, "AAPL", .buy ⟨"10".toList, "50".toList⟩ ⟨⟨['5'], []⟩, "USD"⟩ zeroGbp⟩ := by decide +kernel

/-! ### any layout of a transaction -/

theorem C13_any_layout (L : Layout) (hL : L.ok) (t : DTx) (h : txOk t) :
    parseLine (render L t) = .tx (normTx t) := parseLine_render L hL t h

theorem C13_layouts_agree (L L' : Layout) (hL : L.ok) (hL' : L'.ok) (t : DTx) (h : txOk t) :
    parseLine (render L t) = parseLine (render L' t) := by
  rw [parseLine_render L hL t h, parseLine_render L' hL' t h]

-- non-vacuity: tabs and double blanks, lower-case keywords, a trailing comment
def lowerKw (k : List Char) : List Char := k.map (fun c => if 'A' ≤ c ∧ c ≤ 'Z' then Char.ofNat (c.toNat + 32) else c)
def exLayout : Layout := { pre := [' ', '\t'], g := fun i => if i % 2 = 0 then [' ', ' '] else ['\t'], kw := lowerKw, post := " # note".toList }
example : exLayout.ok := by
  refine ⟨by decide, ?_, by decide, Or.inr ⟨[' '], "note".toList |> fun r => ' ' :: r, by decide, by decide⟩⟩
  intro i
  unfold exLayout
  simp only
  split
  · exact ⟨by simp, by decide⟩
  · exact ⟨by simp, by decide⟩
example : render exLayout ⟨2024, 2, 29, "ACME", .split ⟨['2'], []⟩⟩ = " \t2024-02-29  split\tACME  ratio\t2 # note".toList := by decide

/-! ### several input files read as one (`read_and_concatenate_files`: the texts joined by a line feed) -/

/-- lines that are not empty -/
def F (ls : List (List Char)) : List (List Char) := ls.filter (fun l => !l.isEmpty)

theorem F_cons_nil (ls : List (List Char)) : F ([] :: ls) = F ls := by simp [F]

theorem F_split (ls : List (List Char)) (h : ls ≠ []) : F ls = F [ls.headD []] ++ F ls.tail := by
  cases ls with
  | nil => exact absurd rfl h
  | cons x xs =>
    simp only [F, List.headD_cons, List.tail_cons, List.filter_cons]
    by_cases hx : x.isEmpty <;> simp [hx]

theorem consHead_eq (c : Char) (ls : List (List Char)) (h : ls ≠ []) :
    consHead c ls = (c :: ls.headD []) :: ls.tail := by
  cases ls with
  | nil => exact absurd rfl h
  | cons x xs => rfl

/-- joining with a line feed: the first line of `a ++ "\n" ++ b` is `a`'s first line, and the later
    lines are `a`'s later lines followed by `b`'s lines, up to empty lines -/
theorem join_lines (b : List Char) : ∀ (n : Nat) (a : List Char), a.length ≤ n →
    (splitLines (a ++ '\n' :: b)).headD [] = (splitLines a).headD [] ∧
    F (splitLines (a ++ '\n' :: b)).tail = F (splitLines a).tail ++ F (splitLines b) := by
  intro n
  induction n with
  | zero =>
    intro a ha
    have : a = [] := List.length_eq_zero_iff.mp (Nat.le_zero.mp ha)
    subst this
    simp [splitLines, F]
  | succ n ih =>
    intro a ha
    -- what the induction hypothesis gives for a shorter text: all of its lines
    have whole : ∀ x : List Char, x.length ≤ n → F (splitLines (x ++ '\n' :: b)) = F (splitLines x) ++ F (splitLines b) := by
      intro x hx
      obtain ⟨h1, h2⟩ := ih x hx
      rw [F_split _ (splitLines_ne_nil _), F_split (splitLines x) (splitLines_ne_nil _), h1, h2, List.append_assoc]
    cases a with
    | nil => simp [splitLines, F]
    | cons c cs =>
      have hcs : cs.length ≤ n := by simp at ha; omega
      by_cases h1 : c = '\n'
      · subst h1
        simp only [List.cons_append, splitLines, List.headD_cons, List.tail_cons, true_and]
        exact whole cs hcs
      · by_cases h2 : c = '\r'
        · subst h2
          cases cs with
          | nil => simp [splitLines, F]
          | cons d ds =>
            by_cases h3 : d = '\n'
            · subst h3
              have hds : ds.length ≤ n := by simp at hcs; omega
              simp only [List.cons_append, splitLines, List.headD_cons, List.tail_cons, true_and]
              exact whole ds hds
            · have cr : ∀ (d : Char) (rest : List Char), d ≠ '\n' → splitLines ('\r' :: d :: rest) = [] :: splitLines (d :: rest) := by
                intro d rest hd
                rw [splitLines.eq_def]
                split
                · rename_i h; cases h
                · rename_i h; simp only [List.cons.injEq, true_and] at h; exact absurd h.1 hd
                · rename_i h; simp only [List.cons.injEq] at h; exact absurd h.1 (by decide)
                · rename_i h; simp only [List.cons.injEq, true_and] at h; rw [h]
                · rename_i _ hx h; simp only [List.cons.injEq] at h; exact absurd h.1.symm hx
              have e1 := cr d ds h3
              have e2 : splitLines ('\r' :: (d :: ds ++ '\n' :: b)) = [] :: splitLines (d :: ds ++ '\n' :: b) := by
                rw [List.cons_append]; exact cr d _ h3
              rw [List.cons_append, e2, e1]
              simp only [List.headD_cons, List.tail_cons, true_and]
              exact whole (d :: ds) hcs
        · rw [List.cons_append, splitLines_cons c h1 h2, splitLines_cons c h1 h2,
            consHead_eq c _ (splitLines_ne_nil _), consHead_eq c _ (splitLines_ne_nil _)]
          obtain ⟨i1, i2⟩ := ih cs hcs
          simp only [List.headD_cons, List.tail_cons]
          exact ⟨by rw [i1], i2⟩

theorem join_nonempty_lines (a b : List Char) :
    F (splitLines (a ++ '\n' :: b)) = F (splitLines a) ++ F (splitLines b) := by
  obtain ⟨h1, h2⟩ := join_lines b a.length a (Nat.le_refl _)
  rw [F_split _ (splitLines_ne_nil _), F_split (splitLines a) (splitLines_ne_nil _), h1, h2, List.append_assoc]


def hasSyntaxError : List LineResult → Bool
  | [] => false
  | .syntaxError :: _ => true
  | _ :: rest => hasSyntaxError rest

def semOk (valid : List String) (t : DTx) : Bool := (semantic valid 0 t).isNone

theorem semantic_none_iff (valid : List String) (n : Nat) (t : DTx) : semantic valid n t = none ↔ semOk valid t = true := by
  unfold semOk semantic
  split <;> (try split) <;> (try split) <;> simp

/-- what a list of line results amounts to, line numbers aside -/
def verdict (valid : List String) (rs : List LineResult) : Option (List DTx) :=
  if hasSyntaxError rs then none else if (txsOf rs).all (semOk valid) then some (txsOf rs) else none

def okList (valid : List String) (text : List Char) : Option (List DTx) :=
  match parse valid text with
  | .ok ts => some ts
  | .error _ => none

theorem firstSyntax_none_iff (rs : List LineResult) : ∀ n, (firstSyntax n rs = none ↔ hasSyntaxError rs = false) := by
  induction rs with
  | nil => intro n; simp [firstSyntax, hasSyntaxError]
  | cons r rs ih =>
    intro n
    cases r <;> simp [firstSyntax, hasSyntaxError, ih]

theorem collect_verdict (valid : List String) (rs : List LineResult) : ∀ n,
    (match collect valid n rs with | .ok ts => some ts | .error _ => none)
      = (if (txsOf rs).all (semOk valid) then some (txsOf rs) else none) := by
  induction rs with
  | nil => intro n; simp [collect, txsOf]
  | cons r rs ih =>
    intro n
    cases r with
    | blank => simp only [collect, txsOf]; exact ih (n + 1)
    | syntaxError => simp only [collect, txsOf]; exact ih (n + 1)
    | tx t =>
      simp only [collect, txsOf, List.all_cons]
      cases hs : semantic valid n t with
      | some e =>
        have : semOk valid t = false := by
          cases h : semOk valid t with
          | false => rfl
          | true => have := (semantic_none_iff valid n t).mpr h; rw [this] at hs; cases hs
        simp [this]
      | none =>
        have hk : semOk valid t = true := (semantic_none_iff valid n t).mp hs
        simp only [hk, Bool.true_and]
        have := ih (n + 1)
        cases hc : collect valid (n + 1) rs with
        | error e =>
          rw [hc] at this; simp only at this ⊢
          by_cases h : (txsOf rs).all (semOk valid) = true
          · rw [if_pos h] at this; cases this
          · rw [if_neg h]
        | ok ts =>
          rw [hc] at this; simp only at this ⊢
          by_cases h : (txsOf rs).all (semOk valid) = true
          · rw [if_pos h] at this ⊢; cases this; rfl
          · rw [if_neg h] at this; cases this

theorem okList_verdict (valid : List String) (text : List Char) :
    okList valid text = verdict valid ((splitLines text).map parseLine) := by
  unfold okList parse verdict
  simp only
  cases hf : firstSyntax 1 ((splitLines text).map parseLine) with
  | some n =>
    have : hasSyntaxError ((splitLines text).map parseLine) = true := by
      cases h : hasSyntaxError ((splitLines text).map parseLine) with
      | true => rfl
      | false => have := (firstSyntax_none_iff _ 1).mpr h; rw [this] at hf; cases hf
    simp [this]
  | none =>
    have := (firstSyntax_none_iff _ 1).mp hf
    simp only [this, Bool.false_eq_true, if_false]
    exact collect_verdict valid _ 1

def nonBlank (rs : List LineResult) : List LineResult := rs.filter (fun r => decide (r ≠ .blank))

theorem verdict_nonBlank (valid : List String) (rs : List LineResult) : verdict valid (nonBlank rs) = verdict valid rs := by
  have h1 : ∀ rs, hasSyntaxError (nonBlank rs) = hasSyntaxError rs := by
    intro rs; induction rs with
    | nil => rfl
    | cons r rs ih => cases r <;> simp_all [nonBlank, hasSyntaxError, List.filter_cons]
  have h2 : ∀ rs, txsOf (nonBlank rs) = txsOf rs := by
    intro rs; induction rs with
    | nil => rfl
    | cons r rs ih => cases r <;> simp_all [nonBlank, txsOf, List.filter_cons]
  unfold verdict; rw [h1, h2]

theorem verdict_append (valid : List String) (x y : List LineResult) :
    verdict valid (x ++ y) = (match verdict valid x, verdict valid y with
      | some a, some b => some (a ++ b)
      | _, _ => none) := by
  have h1 : ∀ x y, hasSyntaxError (x ++ y) = (hasSyntaxError x || hasSyntaxError y) := by
    intro x y; induction x with
    | nil => simp [hasSyntaxError]
    | cons r rs ih => cases r <;> simp_all [hasSyntaxError]
  have h2 : ∀ x y, txsOf (x ++ y) = txsOf x ++ txsOf y := by
    intro x y; induction x with
    | nil => simp [txsOf]
    | cons r rs ih => cases r <;> simp_all [txsOf]
  unfold verdict
  rw [h1, h2, List.all_append]
  cases hasSyntaxError x <;> cases hasSyntaxError y <;> cases (txsOf x).all (semOk valid) <;> cases (txsOf y).all (semOk valid) <;> simp

theorem parseLine_nil : parseLine [] = .blank := by simp [parseLine, skipWC, skipWs]

theorem nonBlank_lines (ls : List (List Char)) : nonBlank ((F ls).map parseLine) = nonBlank (ls.map parseLine) := by
  induction ls with
  | nil => rfl
  | cons l ls ih =>
    cases l with
    | nil => simp only [F_cons_nil, List.map_cons, parseLine_nil, ih]; simp [nonBlank, List.filter_cons]
    | cons c cs =>
      have : F ((c :: cs) :: ls) = (c :: cs) :: F ls := by simp [F, List.filter_cons]
      rw [this]; simp only [List.map_cons, nonBlank, List.filter_cons] at ih ⊢
      rw [ih]

/-- **the transactions of several files read as one** (what `cgt-tool parse/report a b …` does: the files'
    texts joined by a line feed): the joined text parses exactly when each file parses, to the
    concatenation of their lists — whether or not a file ends in a newline, in a comment, or in CR -/
theorem parse_joined_files (valid : List String) (a b : List Char) :
    okList valid (a ++ '\n' :: b) = (match okList valid a, okList valid b with
      | some x, some y => some (x ++ y)
      | _, _ => none) := by
  rw [okList_verdict, okList_verdict, okList_verdict,
    ← verdict_nonBlank valid (List.map parseLine (splitLines (a ++ '\n' :: b))),
    ← nonBlank_lines, join_nonempty_lines, List.map_append]
  have e : nonBlank (List.map parseLine (F (splitLines a)) ++ List.map parseLine (F (splitLines b)))
      = nonBlank (List.map parseLine (splitLines a)) ++ nonBlank (List.map parseLine (splitLines b)) := by
    have ha := nonBlank_lines (splitLines a)
    have hb := nonBlank_lines (splitLines b)
    unfold nonBlank at ha hb ⊢
    rw [List.filter_append, ha, hb]
  rw [e, verdict_append, verdict_nonBlank, verdict_nonBlank]


/-- the separator `cgt-tool` puts between input files, as the translator reads it from main.rs on every run
    (group `cli_join`) -/
theorem C13_files_joined_by_line_feed : Cgt.cliFileJoin = "\n" := by decide

end Cgt.C13
