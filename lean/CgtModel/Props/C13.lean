import CgtModel.Dsl
import CgtModel.Lemmas.DslLayout
import CgtModel.Lemmas.DslFile
/-! # C13 — layout, comments, keyword case and line endings never change what is parsed

The executable model `Dsl.parse` is a scannerless PEG reading of parser.pest + parser.rs; the check
compares it with the real parser on generated layouts and on single-token corruptions (accept/reject,
transaction list, error line). Proved here are the layout lemmas the property names, each for all inputs:

* `C13_extra_blanks_ignored` — any run of spaces/tabs before a token is skipped;
* `C13_keyword_case_irrelevant` — a keyword matches in any mixture of upper and lower case;
* `C13_comment_line_is_blank`, `C13_blank_line_is_blank` — full-line comments and blank lines yield no
  transaction and no error; `C13_trailing_comment_ignored` — after a complete transaction, blanks
  followed by `#…` are the same as end of line;
* `C13_lf_crlf_cr_equivalent` — a line followed by LF, by CRLF, or by CR (not followed by LF) splits off
  the same line and the same remainder; `C13_missing_final_newline` — a final newline only adds an
  empty last line;
* `C13_omitted_currency_is_gbp`, `C13_omitted_clause_is_zero`;
* `C13_nothing_silently_skipped` — when `parse` succeeds, every line is either blank/comment or
  contributed exactly one transaction, in order; `C13_first_bad_line_is_reported`.
* `C13_any_layout` — **the composition**: a well-formed transaction rendered in *any* layout (leading
  blanks, any non-empty run of blanks/tabs in every gap, each keyword in any mixture of case, trailing
  blanks and an optional `#` comment) is read as exactly that transaction, for all seven commands;
  `C13_layouts_agree` — two layouts of the same transaction parse alike.
* `C13_any_file_layout` — **the whole file**: transaction lines each in its own layout, blank and comment
  lines anywhere, every line ended by LF, CRLF or a bare CR, the last line with or without a terminator:
  the file parses to exactly the transactions of its transaction lines, in order (`okList_file` is the
  same as an equivalence with the semantic checks; `line_then` is the step: line, terminator, rest).
Not proved as one theorem: layouts that drop an optional element the reader defaults (omitted `GBP`,
omitted zero clause) are covered by the two lemmas above them.
-/
namespace Cgt.C13
open Cgt.Dsl

theorem C13_extra_blanks_ignored (ws cs : List Char) (h : ∀ c ∈ ws, isWs c = true) :
    skipWs (ws ++ cs) = skipWs cs := by
  induction ws with
  | nil => rfl
  | cons w ws ih =>
    have hw := h w (by simp)
    simp only [List.cons_append, skipWs, hw, if_true]
    exact ih (fun c hc => h c (by simp [hc]))

theorem C13_keyword_case_irrelevant (kw cs rest : List Char) (h : cs.map upper = kw) :
    matchKw kw (cs ++ rest) = some rest := by
  induction cs generalizing kw with
  | nil => subst h; rfl
  | cons c cs ih =>
    subst h
    simp only [List.map_cons, List.cons_append, matchKw, if_true]
    exact ih _ rfl

theorem C13_blank_line_is_blank (cs : List Char) (h : ∀ c ∈ cs, isWs c = true) : parseLine cs = .blank := by
  have : skipWs cs = [] := by
    have := C13_extra_blanks_ignored cs [] h
    simpa [skipWs] using this
  simp [parseLine, skipWC, this]

theorem C13_comment_line_is_blank (ws rest : List Char) (h : ∀ c ∈ ws, isWs c = true) :
    parseLine (ws ++ '#' :: rest) = .blank := by
  have : skipWs (ws ++ '#' :: rest) = '#' :: rest := by
    rw [C13_extra_blanks_ignored ws _ h]; simp [skipWs, isWs]
  simp [parseLine, skipWC, this]

theorem C13_trailing_comment_ignored (ws rest : List Char) (h : ∀ c ∈ ws, isWs c = true) :
    skipWC (ws ++ '#' :: rest) = skipWC [] := by
  have : skipWs (ws ++ '#' :: rest) = '#' :: rest := by
    rw [C13_extra_blanks_ignored ws _ h]; simp [skipWs, isWs]
  simp [skipWC, this, skipWs]

def noNl (l : List Char) : Prop := ∀ c ∈ l, c ≠ '\n' ∧ c ≠ '\r'

def consHead (c : Char) : List (List Char) → List (List Char)
  | l :: ls => (c :: l) :: ls
  | [] => [[c]]
theorem splitLines_cons (c : Char) (h1 : c ≠ '\n') (h2 : c ≠ '\r') (cs : List Char) :
    splitLines (c :: cs) = consHead c (splitLines cs) := by
  rw [splitLines.eq_def]
  split
  · rename_i h; cases h
  · rename_i h; injection h with h _; exact absurd h h2
  · rename_i h; injection h with h _; exact absurd h h1
  · rename_i _ h; injection h with h _; exact absurd h h2
  · rename_i c' cs' _ _ _ h
    simp only [List.cons.injEq] at h
    obtain ⟨rfl, rfl⟩ := h
    unfold consHead
    split <;> simp_all
theorem splitLines_ne_nil : ∀ cs, splitLines cs ≠ [] := by
  intro cs
  induction cs with
  | nil => simp [splitLines]
  | cons c cs ih =>
    by_cases h1 : c = '\n'
    · subst h1; simp [splitLines]
    · by_cases h2 : c = '\r'
      · subst h2
        cases cs with
        | nil => simp [splitLines]
        | cons d ds =>
          by_cases h3 : d = '\n'
          · subst h3; simp [splitLines]
          · rw [splitLines.eq_def]; split <;> simp_all
            all_goals (split <;> simp)
      · rw [splitLines_cons c h1 h2]; unfold consHead; split <;> simp

/-- a line without CR/LF in front of a remainder is the first line of the split -/
theorem splitLines_line (l : List Char) (h : noNl l) (tl : List Char) :
    splitLines (l ++ tl) = (l ++ (splitLines tl).headD []) :: (splitLines tl).tail := by
  induction l with
  | nil =>
    have := splitLines_ne_nil tl
    cases hsp : splitLines tl with
    | nil => exact absurd hsp this
    | cons x xs => simp [hsp]
  | cons c cs ih =>
    have hc := h c (by simp)
    have ih' := ih (fun x hx => h x (by simp [hx]))
    simp only [List.cons_append]
    rw [splitLines_cons c hc.1 hc.2, ih']
    rfl

/-- LF, CRLF and CR (not followed by LF) end a line in the same way -/
theorem C13_lf_crlf_cr_equivalent (l rest : List Char) (h : noNl l) (hr : ∀ r, rest = '\n' :: r → False) :
    splitLines (l ++ '\n' :: rest) = l :: splitLines rest ∧
    splitLines (l ++ '\r' :: '\n' :: rest) = l :: splitLines rest ∧
    splitLines (l ++ '\r' :: rest) = l :: splitLines rest := by
  refine ⟨?_, ?_, ?_⟩
  · rw [splitLines_line l h]; simp [splitLines]
  · rw [splitLines_line l h]; simp [splitLines]
  · rw [splitLines_line l h]
    have : splitLines ('\r' :: rest) = [] :: splitLines rest := by
      cases rest with
      | nil => simp [splitLines]
      | cons c cs =>
        have hc : c ≠ '\n' := fun e => hr cs (by rw [e])
        rw [splitLines.eq_def]
        split <;> simp_all
        rename_i h1 h2 h3
        exact absurd h3.1.symm h2
    rw [this]; simp

theorem C13_missing_final_newline (l : List Char) (h : noNl l) :
    splitLines (l ++ ['\n']) = [l, []] ∧ splitLines l = [l] := by
  constructor
  · rw [splitLines_line l h]; simp [splitLines]
  · have := splitLines_line l h []
    simpa [splitLines] using this

theorem C13_omitted_currency_is_gbp (cs : List Char) (d : DDec) (r : List Char)
    (hd : pDecimal cs = some (d, r)) (hc : pCurrency (skipWC r) = none) :
    pMoney cs = some (⟨d, "GBP"⟩, r) := by simp [pMoney, hd, hc]

theorem C13_omitted_clause_is_zero (kw cs : List Char) (h : pClause kw (skipWC cs) = none) :
    pOptClause kw cs = (zeroGbp, cs) := by simp [pOptClause, h]

/-- lines that carry a transaction, in order -/
def txsOf : List LineResult → List DTx
  | [] => []
  | .tx t :: rest => t :: txsOf rest
  | _ :: rest => txsOf rest

theorem collect_ok (valid : List String) : ∀ (rs : List LineResult) (n : Nat) (ts : List DTx),
    collect valid n rs = .ok ts → ts = txsOf rs := by
  intro rs
  induction rs with
  | nil => intro n ts h; simp [collect] at h; subst h; rfl
  | cons x rs ih =>
    intro n ts h
    cases x with
    | blank => simp only [collect] at h; simp only [txsOf]; exact ih _ _ h
    | syntaxError => simp only [collect] at h; simp only [txsOf]; exact ih _ _ h
    | tx t =>
      simp only [collect] at h
      split at h
      · cases h
      · split at h
        · cases h
        · rename_i ts' hts
          simp only [Except.ok.injEq] at h
          subst h
          simp only [txsOf]
          rw [ih _ _ hts]

theorem firstSyntax_none : ∀ (rs : List LineResult) (n : Nat), firstSyntax n rs = none →
    ∀ x ∈ rs, x ≠ .syntaxError := by
  intro rs
  induction rs with
  | nil => intro n _ x hx; simp at hx
  | cons y ys ih =>
    intro n h x hx
    cases y with
    | syntaxError => simp [firstSyntax] at h
    | blank =>
      simp only [firstSyntax] at h
      simp only [List.mem_cons] at hx
      rcases hx with rfl | hx
      · simp
      · exact ih _ h x hx
    | tx t =>
      simp only [firstSyntax] at h
      simp only [List.mem_cons] at hx
      rcases hx with rfl | hx
      · simp
      · exact ih _ h x hx

/-- **nothing is silently skipped**: a successful parse returns exactly the transactions of the lines
    that are not blank/comment, in order, and no line failed to parse -/
theorem C13_nothing_silently_skipped (valid : List String) (text : List Char) (ts : List DTx)
    (h : parse valid text = .ok ts) :
    ts = txsOf ((splitLines text).map parseLine) ∧
    ∀ x ∈ (splitLines text).map parseLine, x ≠ .syntaxError := by
  unfold parse at h
  simp only at h
  split at h
  · cases h
  · rename_i hn
    exact ⟨collect_ok valid _ 1 ts h, firstSyntax_none _ 1 hn⟩

/-- a file with a line that does not parse is rejected with the number of the first such line -/
theorem C13_first_bad_line_is_reported (valid : List String) (text : List Char) (n : Nat)
    (h : firstSyntax 1 ((splitLines text).map parseLine) = some n) : parse valid text = .error (.syntax n) := by
  simp [parse, h]

-- non-vacuity / sanity on a concrete line
example : parseLine "2024-01-01  buy aapl 10.50 @5 usd # note".toList =
    .tx ⟨2024, 1, 1, "AAPL", .buy ⟨"10".toList, "50".toList⟩ ⟨⟨['5'], []⟩, "USD"⟩ zeroGbp⟩ := by decide +kernel

/-! ### any layout of a transaction -/

theorem C13_any_layout (L : Layout) (hL : L.ok) (t : DTx) (h : txOk t) :
    parseLine (render L t) = .tx (normTx t) := parseLine_render L hL t h

theorem C13_layouts_agree (L L' : Layout) (hL : L.ok) (hL' : L'.ok) (t : DTx) (h : txOk t) :
    parseLine (render L t) = parseLine (render L' t) := by
  rw [parseLine_render L hL t h, parseLine_render L' hL' t h]

-- non-vacuity: tabs and double blanks, lower-case keywords, a trailing comment
def lowerKw (k : List Char) : List Char := k.map (fun c => if 'A' ≤ c ∧ c ≤ 'Z' then Char.ofNat (c.toNat + 32) else c)
def exLayout : Layout := { pre := [' ', '\t'], g := fun i => if i % 2 = 0 then [' ', ' '] else ['\t'], kw := lowerKw, post := " # note".toList }
example : exLayout.ok := by
  refine ⟨by decide, ?_, by decide, Or.inr ⟨[' '], "note".toList |> fun r => ' ' :: r, by decide, by decide⟩⟩
  intro i
  unfold exLayout
  simp only
  split
  · exact ⟨by simp, by decide⟩
  · exact ⟨by simp, by decide⟩
example : render exLayout ⟨2024, 2, 29, "ACME", .split ⟨['2'], []⟩⟩ = " \t2024-02-29  split\tACME  ratio\t2 # note".toList := by decide

/-! ### several input files read as one (`read_and_concatenate_files`: the texts joined by a line feed) -/

/-- lines that are not empty -/
def F (ls : List (List Char)) : List (List Char) := ls.filter (fun l => !l.isEmpty)

theorem F_cons_nil (ls : List (List Char)) : F ([] :: ls) = F ls := by simp [F]

theorem F_split (ls : List (List Char)) (h : ls ≠ []) : F ls = F [ls.headD []] ++ F ls.tail := by
  cases ls with
  | nil => exact absurd rfl h
  | cons x xs =>
    simp only [F, List.headD_cons, List.tail_cons, List.filter_cons]
    by_cases hx : x.isEmpty <;> simp [hx]

theorem consHead_eq (c : Char) (ls : List (List Char)) (h : ls ≠ []) :
    consHead c ls = (c :: ls.headD []) :: ls.tail := by
  cases ls with
  | nil => exact absurd rfl h
  | cons x xs => rfl

/-- joining with a line feed: the first line of `a ++ "\n" ++ b` is `a`'s first line, and the later
    lines are `a`'s later lines followed by `b`'s lines, up to empty lines -/
theorem join_lines (b : List Char) : ∀ (n : Nat) (a : List Char), a.length ≤ n →
    (splitLines (a ++ '\n' :: b)).headD [] = (splitLines a).headD [] ∧
    F (splitLines (a ++ '\n' :: b)).tail = F (splitLines a).tail ++ F (splitLines b) := by
  intro n
  induction n with
  | zero =>
    intro a ha
    have : a = [] := List.length_eq_zero_iff.mp (Nat.le_zero.mp ha)
    subst this
    simp [splitLines, F]
  | succ n ih =>
    intro a ha
    -- what the induction hypothesis gives for a shorter text: all of its lines
    have whole : ∀ x : List Char, x.length ≤ n → F (splitLines (x ++ '\n' :: b)) = F (splitLines x) ++ F (splitLines b) := by
      intro x hx
      obtain ⟨h1, h2⟩ := ih x hx
      rw [F_split _ (splitLines_ne_nil _), F_split (splitLines x) (splitLines_ne_nil _), h1, h2, List.append_assoc]
    cases a with
    | nil => simp [splitLines, F]
    | cons c cs =>
      have hcs : cs.length ≤ n := by simp at ha; omega
      by_cases h1 : c = '\n'
      · subst h1
        simp only [List.cons_append, splitLines, List.headD_cons, List.tail_cons, true_and]
        exact whole cs hcs
      · by_cases h2 : c = '\r'
        · subst h2
          cases cs with
          | nil => simp [splitLines, F]
          | cons d ds =>
            by_cases h3 : d = '\n'
            · subst h3
              have hds : ds.length ≤ n := by simp at hcs; omega
              simp only [List.cons_append, splitLines, List.headD_cons, List.tail_cons, true_and]
              exact whole ds hds
            · have cr : ∀ (d : Char) (rest : List Char), d ≠ '\n' → splitLines ('\r' :: d :: rest) = [] :: splitLines (d :: rest) := by
                intro d rest hd
                rw [splitLines.eq_def]
                split
                · rename_i h; cases h
                · rename_i h; simp only [List.cons.injEq, true_and] at h; exact absurd h.1 hd
                · rename_i h; simp only [List.cons.injEq] at h; exact absurd h.1 (by decide)
                · rename_i h; simp only [List.cons.injEq, true_and] at h; rw [h]
                · rename_i _ hx h; simp only [List.cons.injEq] at h; exact absurd h.1.symm hx
              have e1 := cr d ds h3
              have e2 : splitLines ('\r' :: (d :: ds ++ '\n' :: b)) = [] :: splitLines (d :: ds ++ '\n' :: b) := by
                rw [List.cons_append]; exact cr d _ h3
              rw [List.cons_append, e2, e1]
              simp only [List.headD_cons, List.tail_cons, true_and]
              exact whole (d :: ds) hcs
        · rw [List.cons_append, splitLines_cons c h1 h2, splitLines_cons c h1 h2,
            consHead_eq c _ (splitLines_ne_nil _), consHead_eq c _ (splitLines_ne_nil _)]
          obtain ⟨i1, i2⟩ := ih cs hcs
          simp only [List.headD_cons, List.tail_cons]
          exact ⟨by rw [i1], i2⟩

theorem join_nonempty_lines (a b : List Char) :
    F (splitLines (a ++ '\n' :: b)) = F (splitLines a) ++ F (splitLines b) := by
  obtain ⟨h1, h2⟩ := join_lines b a.length a (Nat.le_refl _)
  rw [F_split _ (splitLines_ne_nil _), F_split (splitLines a) (splitLines_ne_nil _), h1, h2, List.append_assoc]


def hasSyntaxError : List LineResult → Bool
  | [] => false
  | .syntaxError :: _ => true
  | _ :: rest => hasSyntaxError rest

def semOk (valid : List String) (t : DTx) : Bool := (semantic valid 0 t).isNone

theorem semantic_none_iff (valid : List String) (n : Nat) (t : DTx) : semantic valid n t = none ↔ semOk valid t = true := by
  unfold semOk semantic
  split <;> (try split) <;> (try split) <;> simp

/-- what a list of line results amounts to, line numbers aside -/
def verdict (valid : List String) (rs : List LineResult) : Option (List DTx) :=
  if hasSyntaxError rs then none else if (txsOf rs).all (semOk valid) then some (txsOf rs) else none

def okList (valid : List String) (text : List Char) : Option (List DTx) :=
  match parse valid text with
  | .ok ts => some ts
  | .error _ => none

theorem firstSyntax_none_iff (rs : List LineResult) : ∀ n, (firstSyntax n rs = none ↔ hasSyntaxError rs = false) := by
  induction rs with
  | nil => intro n; simp [firstSyntax, hasSyntaxError]
  | cons r rs ih =>
    intro n
    cases r <;> simp [firstSyntax, hasSyntaxError, ih]

theorem collect_verdict (valid : List String) (rs : List LineResult) : ∀ n,
    (match collect valid n rs with | .ok ts => some ts | .error _ => none)
      = (if (txsOf rs).all (semOk valid) then some (txsOf rs) else none) := by
  induction rs with
  | nil => intro n; simp [collect, txsOf]
  | cons r rs ih =>
    intro n
    cases r with
    | blank => simp only [collect, txsOf]; exact ih (n + 1)
    | syntaxError => simp only [collect, txsOf]; exact ih (n + 1)
    | tx t =>
      simp only [collect, txsOf, List.all_cons]
      cases hs : semantic valid n t with
      | some e =>
        have : semOk valid t = false := by
          cases h : semOk valid t with
          | false => rfl
          | true => have := (semantic_none_iff valid n t).mpr h; rw [this] at hs; cases hs
        simp [this]
      | none =>
        have hk : semOk valid t = true := (semantic_none_iff valid n t).mp hs
        simp only [hk, Bool.true_and]
        have := ih (n + 1)
        cases hc : collect valid (n + 1) rs with
        | error e =>
          rw [hc] at this; simp only at this ⊢
          by_cases h : (txsOf rs).all (semOk valid) = true
          · rw [if_pos h] at this; cases this
          · rw [if_neg h]
        | ok ts =>
          rw [hc] at this; simp only at this ⊢
          by_cases h : (txsOf rs).all (semOk valid) = true
          · rw [if_pos h] at this ⊢; cases this; rfl
          · rw [if_neg h] at this; cases this

theorem okList_verdict (valid : List String) (text : List Char) :
    okList valid text = verdict valid ((splitLines text).map parseLine) := by
  unfold okList parse verdict
  simp only
  cases hf : firstSyntax 1 ((splitLines text).map parseLine) with
  | some n =>
    have : hasSyntaxError ((splitLines text).map parseLine) = true := by
      cases h : hasSyntaxError ((splitLines text).map parseLine) with
      | true => rfl
      | false => have := (firstSyntax_none_iff _ 1).mpr h; rw [this] at hf; cases hf
    simp [this]
  | none =>
    have := (firstSyntax_none_iff _ 1).mp hf
    simp only [this, Bool.false_eq_true, if_false]
    exact collect_verdict valid _ 1

def nonBlank (rs : List LineResult) : List LineResult := rs.filter (fun r => decide (r ≠ .blank))

theorem verdict_nonBlank (valid : List String) (rs : List LineResult) : verdict valid (nonBlank rs) = verdict valid rs := by
  have h1 : ∀ rs, hasSyntaxError (nonBlank rs) = hasSyntaxError rs := by
    intro rs; induction rs with
    | nil => rfl
    | cons r rs ih => cases r <;> simp_all [nonBlank, hasSyntaxError, List.filter_cons]
  have h2 : ∀ rs, txsOf (nonBlank rs) = txsOf rs := by
    intro rs; induction rs with
    | nil => rfl
    | cons r rs ih => cases r <;> simp_all [nonBlank, txsOf, List.filter_cons]
  unfold verdict; rw [h1, h2]

theorem verdict_append (valid : List String) (x y : List LineResult) :
    verdict valid (x ++ y) = (match verdict valid x, verdict valid y with
      | some a, some b => some (a ++ b)
      | _, _ => none) := by
  have h1 : ∀ x y, hasSyntaxError (x ++ y) = (hasSyntaxError x || hasSyntaxError y) := by
    intro x y; induction x with
    | nil => simp [hasSyntaxError]
    | cons r rs ih => cases r <;> simp_all [hasSyntaxError]
  have h2 : ∀ x y, txsOf (x ++ y) = txsOf x ++ txsOf y := by
    intro x y; induction x with
    | nil => simp [txsOf]
    | cons r rs ih => cases r <;> simp_all [txsOf]
  unfold verdict
  rw [h1, h2, List.all_append]
  cases hasSyntaxError x <;> cases hasSyntaxError y <;> cases (txsOf x).all (semOk valid) <;> cases (txsOf y).all (semOk valid) <;> simp

theorem parseLine_nil : parseLine [] = .blank := by simp [parseLine, skipWC, skipWs]

theorem nonBlank_lines (ls : List (List Char)) : nonBlank ((F ls).map parseLine) = nonBlank (ls.map parseLine) := by
  induction ls with
  | nil => rfl
  | cons l ls ih =>
    cases l with
    | nil => simp only [F_cons_nil, List.map_cons, parseLine_nil, ih]; simp [nonBlank, List.filter_cons]
    | cons c cs =>
      have : F ((c :: cs) :: ls) = (c :: cs) :: F ls := by simp [F, List.filter_cons]
      rw [this]; simp only [List.map_cons, nonBlank, List.filter_cons] at ih ⊢
      rw [ih]

/-- **the transactions of several files read as one** (what `cgt-tool parse/report a b …` does: the files'
    texts joined by a line feed): the joined text parses exactly when each file parses, to the
    concatenation of their lists — whether or not a file ends in a newline, in a comment, or in CR -/
theorem parse_joined_files (valid : List String) (a b : List Char) :
    okList valid (a ++ '\n' :: b) = (match okList valid a, okList valid b with
      | some x, some y => some (x ++ y)
      | _, _ => none) := by
  rw [okList_verdict, okList_verdict, okList_verdict,
    ← verdict_nonBlank valid (List.map parseLine (splitLines (a ++ '\n' :: b))),
    ← nonBlank_lines, join_nonempty_lines, List.map_append]
  have e : nonBlank (List.map parseLine (F (splitLines a)) ++ List.map parseLine (F (splitLines b)))
      = nonBlank (List.map parseLine (splitLines a)) ++ nonBlank (List.map parseLine (splitLines b)) := by
    have ha := nonBlank_lines (splitLines a)
    have hb := nonBlank_lines (splitLines b)
    unfold nonBlank at ha hb ⊢
    rw [List.filter_append, ha, hb]
  rw [e, verdict_append, verdict_nonBlank, verdict_nonBlank]


/-- the separator `cgt-tool` puts between input files, as the translator reads it from main.rs on every run
    (group `cli_join`) -/
theorem C13_files_joined_by_line_feed : Cgt.cliFileJoin = "\n" := by decide

/-! ### a whole file in an arbitrary layout -/

/-- both parts parse: the two lists one after the other; otherwise nothing -/
def comb : Option (List DTx) → Option (List DTx) → Option (List DTx)
  | some x, some y => some (x ++ y)
  | _, _ => none

theorem joined_comb (valid : List String) (a b : List Char) :
    okList valid (a ++ '\n' :: b) = comb (okList valid a) (okList valid b) := by
  rw [parse_joined_files]
  cases okList valid a <;> cases okList valid b <;> rfl

theorem verdict_blank (valid : List String) : verdict valid [.blank] = some [] := by
  simp [verdict, hasSyntaxError, txsOf]

theorem verdict_comb (valid : List String) (x y : List LineResult) :
    verdict valid (x ++ y) = comb (verdict valid x) (verdict valid y) := by
  rw [verdict_append]
  cases verdict valid x <;> cases verdict valid y <;> rfl

theorem comb_nil_right (o : Option (List DTx)) : comb o (some []) = o := by
  cases o <;> simp [comb]

theorem comb_nil_left (o : Option (List DTx)) : comb (some []) o = o := by
  cases o <;> simp [comb]

theorem okList_nil (valid : List String) : okList valid [] = some [] := by
  rw [okList_verdict]
  simp only [splitLines, List.map_cons, List.map_nil, parseLine_nil]
  exact verdict_blank valid

/-- a text without line breaks is one line -/
theorem okList_line (valid : List String) (a : List Char) (h : noNl a) :
    okList valid a = verdict valid [parseLine a] := by
  rw [okList_verdict, (C13_missing_final_newline a h).2]
  rfl

theorem okList_cr_end (valid : List String) (a : List Char) (h : noNl a) :
    okList valid (a ++ ['\r']) = okList valid a := by
  rw [okList_verdict, okList_line valid a h]
  have := (C13_lf_crlf_cr_equivalent a [] h (by intro r hr; cases hr)).2.2
  rw [this]
  simp only [splitLines, List.map_cons, List.map_nil, parseLine_nil]
  have : [parseLine a, LineResult.blank] = [parseLine a] ++ [LineResult.blank] := rfl
  rw [this, verdict_comb, verdict_blank, comb_nil_right]

/-- the three line terminators of the grammar -/
inductive Eol
  | lf | crlf | cr
deriving DecidableEq, Repr

def Eol.chars : Eol → List Char
  | .lf => ['\n']
  | .crlf => ['\r', '\n']
  | .cr => ['\r']

/-- **a line, its terminator, the rest**: whatever terminator ends a line without line breaks, the text
    parses exactly when the line and the rest both do, to the line's list followed by the rest's -/
theorem line_then (valid : List String) (a : List Char) (h : noNl a) (e : Eol) (b : List Char) :
    okList valid (a ++ e.chars ++ b) = comb (okList valid a) (okList valid b) := by
  cases e with
  | lf =>
    have : a ++ Eol.lf.chars ++ b = a ++ '\n' :: b := by simp [Eol.chars]
    rw [this, joined_comb]
  | crlf =>
    have : a ++ Eol.crlf.chars ++ b = (a ++ ['\r']) ++ '\n' :: b := by simp [Eol.chars]
    rw [this, joined_comb, okList_cr_end valid a h]
  | cr =>
    cases b with
    | nil =>
      have : a ++ Eol.cr.chars ++ [] = a ++ ['\r'] := by simp [Eol.chars]
      rw [this, okList_cr_end valid a h, okList_nil, comb_nil_right]
    | cons c cs =>
      by_cases hc : c = '\n'
      · subst hc
        have e1 : a ++ Eol.cr.chars ++ '\n' :: cs = (a ++ ['\r']) ++ '\n' :: cs := by simp [Eol.chars]
        have e2 : okList valid ('\n' :: cs) = okList valid cs := by
          have := joined_comb valid [] cs
          rw [okList_nil, comb_nil_left] at this
          simpa using this
        rw [e1, joined_comb, okList_cr_end valid a h, e2]
      · have e1 : a ++ Eol.cr.chars ++ c :: cs = a ++ '\r' :: (c :: cs) := by simp [Eol.chars]
        have := (C13_lf_crlf_cr_equivalent a (c :: cs) h (by intro r hr; injection hr with h1 _; exact hc h1)).2.2
        rw [e1, okList_verdict, this, okList_line valid a h, okList_verdict]
        have : List.map parseLine (a :: splitLines (c :: cs)) = [parseLine a] ++ List.map parseLine (splitLines (c :: cs)) := rfl
        rw [this, verdict_comb]

/-- a source line: a transaction in some layout, a blank line, or a comment line -/
inductive SrcLine
  | tx (L : Layout) (t : DTx)
  | blank (ws : List Char)
  | comment (ws body : List Char)

def SrcLine.chars : SrcLine → List Char
  | .tx L t => render L t
  | .blank ws => ws
  | .comment ws body => ws ++ '#' :: body

/-- the line is a legal layout and holds no line break -/
def SrcLine.ok : SrcLine → Prop
  | .tx L t => L.ok ∧ lineChars L.post ∧ txOk t
  | .blank ws => wsRun0 ws
  | .comment ws body => wsRun0 ws ∧ lineChars body

/-- what the line stands for -/
def SrcLine.txs : SrcLine → List DTx
  | .tx _ t => [normTx t]
  | _ => []

/-- the text of a file: lines with their terminators, then a last line without one (`.blank []` when
    the file ends in a terminator) -/
def fileText : List (SrcLine × Eol) → SrcLine → List Char
  | [], last => last.chars
  | (l, e) :: rest, last => l.chars ++ e.chars ++ fileText rest last

def fileTxs (ls : List (SrcLine × Eol)) (last : SrcLine) : List DTx :=
  (ls.map (·.1) ++ [last]).flatMap SrcLine.txs

/-- all of the list pass the semantic checks, or nothing -/
def allOk (valid : List String) (ts : List DTx) : Option (List DTx) :=
  if ts.all (semOk valid) then some ts else none

theorem allOk_comb (valid : List String) (x y : List DTx) : comb (allOk valid x) (allOk valid y) = allOk valid (x ++ y) := by
  unfold allOk
  rw [List.all_append]
  cases x.all (semOk valid) <;> cases y.all (semOk valid) <;> simp [comb]

theorem srcLine_noNl (l : SrcLine) (h : l.ok) : noNl l.chars := by
  cases l with
  | tx L t => exact lineChars_render L h.1 h.2.1 t h.2.2
  | blank ws => exact lineChars_ws ws h
  | comment ws body =>
    have : lineChars (ws ++ '#' :: body) := by
      rw [lineChars_append, lineChars_cons]
      exact ⟨lineChars_ws ws h.1, ⟨by decide, by decide⟩, h.2⟩
    exact this

theorem srcLine_okList (valid : List String) (l : SrcLine) (h : l.ok) : okList valid l.chars = allOk valid l.txs := by
  rw [okList_line valid _ (srcLine_noNl l h)]
  cases l with
  | tx L t =>
    simp only [SrcLine.chars, SrcLine.txs]
    rw [C13_any_layout L h.1 t h.2.2]
    simp [verdict, hasSyntaxError, txsOf, allOk]
  | blank ws =>
    simp only [SrcLine.chars, SrcLine.txs]
    rw [C13_blank_line_is_blank ws h]
    simp [verdict, hasSyntaxError, txsOf, allOk]
  | comment ws body =>
    simp only [SrcLine.chars, SrcLine.txs]
    rw [C13_comment_line_is_blank ws body h.1]
    simp [verdict, hasSyntaxError, txsOf, allOk]

/-- **C13 for a whole file**: transaction lines in any layouts (leading blanks, any runs of blanks and
    tabs in the gaps, keywords in any case, trailing blanks and comment), blank lines and comment lines
    in any number anywhere, every line ended by LF, CRLF or CR as one pleases, a last line with or
    without a terminator: the file parses exactly when its transactions pass the semantic checks, and then
    to exactly the transactions of its transaction lines, in order. -/
theorem okList_file (valid : List String) (ls : List (SrcLine × Eol)) (last : SrcLine)
    (hls : ∀ x ∈ ls, x.1.ok) (hlast : last.ok) :
    okList valid (fileText ls last) = allOk valid (fileTxs ls last) := by
  induction ls with
  | nil =>
    simp only [fileText, fileTxs, List.map_nil, List.nil_append, List.flatMap_cons, List.flatMap_nil, List.append_nil]
    exact srcLine_okList valid last hlast
  | cons x rest ih =>
    obtain ⟨l, e⟩ := x
    have hl : l.ok := hls (l, e) (by simp)
    have ih' := ih (fun y hy => hls y (by simp [hy]))
    simp only [fileText]
    rw [line_then valid _ (srcLine_noNl l hl), srcLine_okList valid l hl, ih', allOk_comb]
    simp [fileTxs]

theorem C13_any_file_layout (valid : List String) (ls : List (SrcLine × Eol)) (last : SrcLine)
    (hls : ∀ x ∈ ls, x.1.ok) (hlast : last.ok) (hsem : ∀ t ∈ fileTxs ls last, semOk valid t = true) :
    parse valid (fileText ls last) = .ok (fileTxs ls last) := by
  have h := okList_file valid ls last hls hlast
  have hall : (fileTxs ls last).all (semOk valid) = true := List.all_eq_true.mpr hsem
  unfold allOk at h
  rw [if_pos hall] at h
  unfold okList at h
  split at h
  · rename_i ts hp; injection h with h; rw [hp, h]
  · cases h

/-- and a file one of whose transactions fails a semantic check is rejected, whatever its layout -/
theorem C13_any_file_layout_rejects (valid : List String) (ls : List (SrcLine × Eol)) (last : SrcLine)
    (hls : ∀ x ∈ ls, x.1.ok) (hlast : last.ok) (t : DTx) (ht : t ∈ fileTxs ls last) (hsem : semOk valid t = false) :
    ∃ e, parse valid (fileText ls last) = .error e := by
  have h := okList_file valid ls last hls hlast
  have hall : ¬ (fileTxs ls last).all (semOk valid) = true := by
    intro hh
    have := List.all_eq_true.mp hh t ht
    rw [hsem] at this; cases this
  unfold allOk at h
  rw [if_neg hall] at h
  unfold okList at h
  split at h
  · cases h
  · rename_i e hp; exact ⟨e, hp⟩


-- non-vacuity: a comment line ended by CRLF, a transaction ended by a bare CR, a blank line ended by LF,
-- a second transaction in the writer's own layout ended by CRLF, nothing after it
def plainLayout : Layout := { pre := [], g := fun _ => [' '], kw := id, post := [] }
theorem plainLayout_ok : plainLayout.ok :=
  ⟨by decide, fun _ => ⟨by simp [plainLayout], by simp [plainLayout]; decide⟩, by decide, Or.inl (by decide)⟩
theorem exLayout_ok : exLayout.ok := by
  refine ⟨by decide, ?_, by decide, Or.inr ⟨[' '], "note".toList |> fun r => ' ' :: r, by decide, by decide⟩⟩
  intro i
  unfold exLayout
  simp only
  split
  · exact ⟨by simp, by decide⟩
  · exact ⟨by simp, by decide⟩
def exT1 : DTx := ⟨2024, 2, 29, "ACME", .split ⟨['2'], []⟩⟩
def exT2 : DTx := ⟨2024, 3, 1, "ACME", .sell ⟨['5'], []⟩ ⟨⟨['7'], ['5']⟩, "USD"⟩ zeroGbp⟩
theorem exT1_ok : txOk exT1 := ⟨by decide, by decide, by decide, ⟨by decide, by decide⟩, ⟨by decide, by decide, by decide, rfl⟩⟩
theorem exT2_ok : txOk exT2 := by
  refine ⟨by decide, by decide, by decide, ⟨by decide, by decide⟩, ⟨⟨by decide, by decide, by decide, rfl⟩, ?_, ?_⟩⟩
  · exact ⟨⟨by decide, by decide, by decide, rfl⟩, 'U', 'S', 'D', by decide, by unfold curOk; decide⟩
  · exact ⟨⟨by decide, by decide, by decide, rfl⟩, 'G', 'B', 'P', by decide, by unfold curOk; decide⟩
def exFile : List (SrcLine × Eol) :=
  [(.comment [] " header".toList, .crlf), (.tx exLayout exT1, .cr), (.blank [' '], .lf), (.tx plainLayout exT2, .crlf)]
example : fileText exFile (.blank []) =
    "# header\r\n \t2024-02-29  split\tACME  ratio\t2 # note\r \n2024-03-01 SELL ACME 5 @ 7.5 USD\r\n".toList := by decide
example : (∀ x ∈ exFile, x.1.ok) ∧ (SrcLine.blank []).ok ∧ fileTxs exFile (.blank []) = [exT1, exT2] := by
  refine ⟨?_, (by decide : wsRun0 []), by decide⟩
  intro x hx
  simp only [exFile, List.mem_cons, List.not_mem_nil, or_false] at hx
  rcases hx with rfl | rfl | rfl | rfl
  · exact ⟨(by decide : wsRun0 []), (by decide : lineChars " header".toList)⟩
  · exact ⟨exLayout_ok, (by decide : lineChars exLayout.post), exT1_ok⟩
  · exact (by decide : wsRun0 [' '])
  · exact ⟨plainLayout_ok, (by decide : lineChars plainLayout.post), exT2_ok⟩

end Cgt.C13
