import CgtModel.Dsl
import CgtModel.Lemmas.DslLayout
/-! # C13 — layout, comments, keyword case and line endings never change what is parsed

The executable model `Dsl.parse` is a scannerless PEG reading of parser.pest + parser.rs; the check
compares it with the real parser on generated layouts and on single-token corruptions (accept/reject,
transaction list, error line). Proved here are the layout lemmas the property names, each for all inputs:

* `C13_extra_blanks_ignored` — any run of spaces/tabs before a token is skipped;
* `C13_keyword_case_irrelevant` — a keyword matches in any mixture of upper and lower case;
* `C13_comment_line_is_blank`, `C13_blank_line_is_blank` — full-line comments and blank lines yield no
  transaction and no error; `C13_trailing_comment_ignored` — after a complete transaction, blanks
  followed by `#…` are the same as end of line;
* `C13_lf_crlf_cr_equivalent` — a line followed by LF, by CRLF, or by CR (not followed by LF) splits off
  the same line and the same remainder; `C13_missing_final_newline` — a final newline only adds an
  empty last line;
* `C13_omitted_currency_is_gbp`, `C13_omitted_clause_is_zero`;
* `C13_nothing_silently_skipped` — when `parse` succeeds, every line is either blank/comment or
  contributed exactly one transaction, in order; `C13_first_bad_line_is_reported`.
* `C13_any_layout` — **the composition**: a well-formed transaction rendered in *any* layout (leading
  blanks, any non-empty run of blanks/tabs in every gap, each keyword in any mixture of case, trailing
  blanks and an optional `#` comment) is read as exactly that transaction, for all seven commands;
  `C13_layouts_agree` — two layouts of the same transaction parse alike.
Not proved as one theorem: layouts that drop an optional element the reader defaults (omitted `GBP`,
omitted zero clause) are covered by the two lemmas above them; whole files in mixed line endings by the
splitting lemmas.
-/
namespace Cgt.C13
open Cgt.Dsl

theorem C13_extra_blanks_ignored (ws cs : List Char) (h : ∀ c ∈ ws, isWs c = true) :
    skipWs (ws ++ cs) = skipWs cs := by
  induction ws with
  | nil => rfl
  | cons w ws ih =>
    have hw := h w (by simp)
    simp only [List.cons_append, skipWs, hw, if_true]
    exact ih (fun c hc => h c (by simp [hc]))

theorem C13_keyword_case_irrelevant (kw cs rest : List Char) (h : cs.map upper = kw) :
    matchKw kw (cs ++ rest) = some rest := by
  induction cs generalizing kw with
  | nil => subst h; rfl
  | cons c cs ih =>
    subst h
    simp only [List.map_cons, List.cons_append, matchKw, if_true]
    exact ih _ rfl

theorem C13_blank_line_is_blank (cs : List Char) (h : ∀ c ∈ cs, isWs c = true) : parseLine cs = .blank := by
  have : skipWs cs = [] := by
    have := C13_extra_blanks_ignored cs [] h
    simpa [skipWs] using this
  simp [parseLine, skipWC, this]

theorem C13_comment_line_is_blank (ws rest : List Char) (h : ∀ c ∈ ws, isWs c = true) :
    parseLine (ws ++ '#' :: rest) = .blank := by
  have : skipWs (ws ++ '#' :: rest) = '#' :: rest := by
    rw [C13_extra_blanks_ignored ws _ h]; simp [skipWs, isWs]
  simp [parseLine, skipWC, this]

theorem C13_trailing_comment_ignored (ws rest : List Char) (h : ∀ c ∈ ws, isWs c = true) :
    skipWC (ws ++ '#' :: rest) = skipWC [] := by
  have : skipWs (ws ++ '#' :: rest) = '#' :: rest := by
    rw [C13_extra_blanks_ignored ws _ h]; simp [skipWs, isWs]
  simp [skipWC, this, skipWs]

def noNl (l : List Char) : Prop := ∀ c ∈ l, c ≠ '\n' ∧ c ≠ '\r'

def consHead (c : Char) : List (List Char) → List (List Char)
  | l :: ls => (c :: l) :: ls
  | [] => [[c]]
theorem splitLines_cons (c : Char) (h1 : c ≠ '\n') (h2 : c ≠ '\r') (cs : List Char) :
    splitLines (c :: cs) = consHead c (splitLines cs) := by
  rw [splitLines.eq_def]
  split
  · rename_i h; cases h
  · rename_i h; injection h with h _; exact absurd h h2
  · rename_i h; injection h with h _; exact absurd h h1
  · rename_i _ h; injection h with h _; exact absurd h h2
  · rename_i c' cs' _ _ _ h
    simp only [List.cons.injEq] at h
    obtain ⟨rfl, rfl⟩ := h
    unfold consHead
    split <;> simp_all
theorem splitLines_ne_nil : ∀ cs, splitLines cs ≠ [] := by
  intro cs
  induction cs with
  | nil => simp [splitLines]
  | cons c cs ih =>
    by_cases h1 : c = '\n'
    · subst h1; simp [splitLines]
    · by_cases h2 : c = '\r'
      · subst h2
        cases cs with
        | nil => simp [splitLines]
        | cons d ds =>
          by_cases h3 : d = '\n'
          · subst h3; simp [splitLines]
          · rw [splitLines.eq_def]; split <;> simp_all
            all_goals (split <;> simp)
      · rw [splitLines_cons c h1 h2]; unfold consHead; split <;> simp

/-- a line without CR/LF in front of a remainder is the first line of the split -/
theorem splitLines_line (l : List Char) (h : noNl l) (tl : List Char) :
    splitLines (l ++ tl) = (l ++ (splitLines tl).headD []) :: (splitLines tl).tail := by
  induction l with
  | nil =>
    have := splitLines_ne_nil tl
    cases hsp : splitLines tl with
    | nil => exact absurd hsp this
    | cons x xs => simp [hsp]
  | cons c cs ih =>
    have hc := h c (by simp)
    have ih' := ih (fun x hx => h x (by simp [hx]))
    simp only [List.cons_append]
    rw [splitLines_cons c hc.1 hc.2, ih']
    rfl

/-- LF, CRLF and CR (not followed by LF) end a line in the same way -/
theorem C13_lf_crlf_cr_equivalent (l rest : List Char) (h : noNl l) (hr : ∀ r, rest = '\n' :: r → False) :
    splitLines (l ++ '\n' :: rest) = l :: splitLines rest ∧
    splitLines (l ++ '\r' :: '\n' :: rest) = l :: splitLines rest ∧
    splitLines (l ++ '\r' :: rest) = l :: splitLines rest := by
  refine ⟨?_, ?_, ?_⟩
  · rw [splitLines_line l h]; simp [splitLines]
  · rw [splitLines_line l h]; simp [splitLines]
  · rw [splitLines_line l h]
    have : splitLines ('\r' :: rest) = [] :: splitLines rest := by
      cases rest with
      | nil => simp [splitLines]
      | cons c cs =>
        have hc : c ≠ '\n' := fun e => hr cs (by rw [e])
        rw [splitLines.eq_def]
        split <;> simp_all
        rename_i h1 h2 h3
        exact absurd h3.1.symm h2
    rw [this]; simp

theorem C13_missing_final_newline (l : List Char) (h : noNl l) :
    splitLines (l ++ ['\n']) = [l, []] ∧ splitLines l = [l] := by
  constructor
  · rw [splitLines_line l h]; simp [splitLines]
  · have := splitLines_line l h []
    simpa [splitLines] using this

theorem C13_omitted_currency_is_gbp (cs : List Char) (d : DDec) (r : List Char)
    (hd : pDecimal cs = some (d, r)) (hc : pCurrency (skipWC r) = none) :
    pMoney cs = some (⟨d, "GBP"⟩, r) := by simp [pMoney, hd, hc]

theorem C13_omitted_clause_is_zero (kw cs : List Char) (h : pClause kw (skipWC cs) = none) :
    pOptClause kw cs = (zeroGbp, cs) := by simp [pOptClause, h]

/-- lines that carry a transaction, in order -/
def txsOf : List LineResult → List DTx
  | [] => []
  | .tx t :: rest => t :: txsOf rest
  | _ :: rest => txsOf rest

theorem collect_ok (valid : List String) : ∀ (rs : List LineResult) (n : Nat) (ts : List DTx),
    collect valid n rs = .ok ts → ts = txsOf rs := by
  intro rs
  induction rs with
  | nil => intro n ts h; simp [collect] at h; subst h; rfl
  | cons x rs ih =>
    intro n ts h
    cases x with
    | blank => simp only [collect] at h; simp only [txsOf]; exact ih _ _ h
    | syntaxError => simp only [collect] at h; simp only [txsOf]; exact ih _ _ h
    | tx t =>
      simp only [collect] at h
      split at h
      · cases h
      · split at h
        · cases h
        · rename_i ts' hts
          simp only [Except.ok.injEq] at h
          subst h
          simp only [txsOf]
          rw [ih _ _ hts]

theorem firstSyntax_none : ∀ (rs : List LineResult) (n : Nat), firstSyntax n rs = none →
    ∀ x ∈ rs, x ≠ .syntaxError := by
  intro rs
  induction rs with
  | nil => intro n _ x hx; simp at hx
  | cons y ys ih =>
    intro n h x hx
    cases y with
    | syntaxError => simp [firstSyntax] at h
    | blank =>
      simp only [firstSyntax] at h
      simp only [List.mem_cons] at hx
      rcases hx with rfl | hx
      · simp
      · exact ih _ h x hx
    | tx t =>
      simp only [firstSyntax] at h
      simp only [List.mem_cons] at hx
      rcases hx with rfl | hx
      · simp
      · exact ih _ h x hx

/-- **nothing is silently skipped**: a successful parse returns exactly the transactions of the lines
    that are not blank/comment, in order, and no line failed to parse -/
theorem C13_nothing_silently_skipped (valid : List String) (text : List Char) (ts : List DTx)
    (h : parse valid text = .ok ts) :
    ts = txsOf ((splitLines text).map parseLine) ∧
    ∀ x ∈ (splitLines text).map parseLine, x ≠ .syntaxError := by
  unfold parse at h
  simp only at h
  split at h
  · cases h
  · rename_i hn
    exact ⟨collect_ok valid _ 1 ts h, firstSyntax_none _ 1 hn⟩

/-- a file with a line that does not parse is rejected with the number of the first such line -/
theorem C13_first_bad_line_is_reported (valid : List String) (text : List Char) (n : Nat)
    (h : firstSyntax 1 ((splitLines text).map parseLine) = some n) : parse valid text = .error (.syntax n) := by
  simp [parse, h]

-- non-vacuity / sanity on a concrete line
example : parseLine "2024-01-01  buy aapl 10.50 @5 usd # note".toList =
    .tx ⟨2024, 1, 1, "AAPL", .buy ⟨"10".toList, "50".toList⟩ ⟨⟨['5'], []⟩, "USD"⟩ zeroGbp⟩ := by decide +kernel

/-! ### any layout of a transaction -/

theorem C13_any_layout (L : Layout) (hL : L.ok) (t : DTx) (h : txOk t) :
    parseLine (render L t) = .tx (normTx t) := parseLine_render L hL t h

theorem C13_layouts_agree (L L' : Layout) (hL : L.ok) (hL' : L'.ok) (t : DTx) (h : txOk t) :
    parseLine (render L t) = parseLine (render L' t) := by
  rw [parseLine_render L hL t h, parseLine_render L' hL' t h]

-- non-vacuity: tabs and double blanks, lower-case keywords, a trailing comment
def lowerKw (k : List Char) : List Char := k.map (fun c => if 'A' ≤ c ∧ c ≤ 'Z' then Char.ofNat (c.toNat + 32) else c)
def exLayout : Layout := { pre := [' ', '\t'], g := fun i => if i % 2 = 0 then [' ', ' '] else ['\t'], kw := lowerKw, post := " # note".toList }
example : exLayout.ok := by
  refine ⟨by decide, ?_, by decide, Or.inr ⟨[' '], "note".toList |> fun r => ' ' :: r, by decide, by decide⟩⟩
  intro i
  unfold exLayout
  simp only
  split
  · exact ⟨by simp, by decide⟩
  · exact ⟨by simp, by decide⟩
example : render exLayout ⟨2024, 2, 29, "ACME", .split ⟨['2'], []⟩⟩ = " \t2024-02-29  split\tACME  ratio\t2 # note".toList := by decide

end Cgt.C13
