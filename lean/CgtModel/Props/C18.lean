import CgtModel.Schwab
/-! # C18 — Schwab conversion keeps every CGT-relevant row and emits valid DSL

Model: the converter after JSON decoding (rows → emitted items, skipped count, warnings). Proved:
* `C18_buy_row_becomes_one_item`, `C18_sell_row_becomes_one_item` — each Buy/Sell row appends exactly
  one BUY/SELL item with the same date, symbol, quantity, price and fees (absent, zero or negative fees = no
  FEES clause: `feeOf`; `C18_fee_never_negative`);
* `C18_cancel_removes_exactly_one` — a Cancel Sell removes exactly one identical sell (length − 1, the
  rest untouched in order) or, if there is none, removes nothing and adds a warning;
* `C18_cancel_never_touches_buys_or_dividends`;
* `C18_output_sorted` — emitted dated lines are in chronological order (comments first);
* `C18_sort_keeps_everything` — sorting only permutes the items;
* `C18_other_rows_counted` — split, non-CGT and unknown rows each raise the skipped count (unknown rows
  also raise a warning and leave a comment).
* `C18_withholding_is_attached_or_reported`, `C18_blank_dividend_is_reported` — a withholding row that names
  a symbol is either carried by a dividend of its date and symbol (and then adds nothing of its own) or
  leaves a comment, a warning and a skipped count; a dividend row without an amount likewise (the repair
  of D16 for those rows).
Known finding D16, what is left of it: a withholding row *without a symbol* leaves no trace
(`C18_symbolless_withholding_vanishes`); an existing test of the repository pins that behaviour.
Checked on the real converter for generated exports: line multiset, dividend/tax totals, skipped
count, valid DSL in chronological order whatever the free text contains, row-order independence and
date-disjoint chunking through the real report.
-/
namespace Cgt.C18
open Cgt Cgt.Schwab

theorem C18_buy_row_becomes_one_item (all : List Row) (s : St) (d : Int) (sym : String) (q p : Rat) (f : Option Rat) :
    (step all s (.buy d sym q p f)).items = s.items ++ [.buy d sym q p (feeOf f)] ∧
    (step all s (.buy d sym q p f)).skipped = s.skipped := ⟨rfl, rfl⟩

theorem C18_sell_row_becomes_one_item (all : List Row) (s : St) (d : Int) (sym : String) (q p : Rat) (f : Option Rat) :
    (step all s (.sell d sym q p f)).items = s.items ++ [.sell d sym q p (feeOf f)] := rfl

theorem C18_cancel_removes_exactly_one (c : Int × String × Rat × Rat) : ∀ (items items' : List Item),
    removeFirst c items = some items' →
      ∃ pre x post, items = pre ++ x :: post ∧ items' = pre ++ post ∧ matchesCancel c x = true ∧
        ∀ y ∈ pre, matchesCancel c y = false := by
  intro items
  induction items with
  | nil => intro items' h; simp [removeFirst] at h
  | cons x xs ih =>
    intro items' h
    simp only [removeFirst] at h
    by_cases hm : matchesCancel c x = true
    · simp only [hm, if_true, Option.some.injEq] at h
      subst h
      exact ⟨[], x, xs, rfl, rfl, hm, by simp⟩
    · simp only [hm, Bool.false_eq_true, if_false, Option.map_eq_some_iff] at h
      obtain ⟨r, hr, rfl⟩ := h
      obtain ⟨pre, y, post, h1, h2, h3, h4⟩ := ih r hr
      refine ⟨x :: pre, y, post, by simp [h1], by simp [h2], h3, ?_⟩
      intro z hz
      simp only [List.mem_cons] at hz
      rcases hz with rfl | hz
      · simpa using hm
      · exact h4 z hz

theorem C18_unmatched_cancel_warns (c : Int × String × Rat × Rat) (cs : List (Int × String × Rat × Rat))
    (items : List Item) (w : Nat) (h : removeFirst c items = none) :
    applyCancels (c :: cs) (items, w) = applyCancels cs (items, w + 1) := by
  simp [applyCancels, h]

theorem C18_cancel_never_touches_buys_or_dividends (c : Int × String × Rat × Rat) (x : Item)
    (h : matchesCancel c x = true) : ∃ d sym q p f, x = .sell d sym q p f := by
  cases x <;> simp [matchesCancel] at h
  exact ⟨_, _, _, _, _, rfl⟩

theorem keyLe_total (a b : Item) : (keyLe a b || keyLe b a) = true := by
  unfold keyLe
  cases ha : a.key <;> cases hb : b.key <;> simp
  omega

theorem keyLe_trans (a b c : Item) (h1 : keyLe a b = true) (h2 : keyLe b c = true) : keyLe a c = true := by
  unfold keyLe at *
  cases ha : a.key <;> cases hb : b.key <;> cases hc : c.key <;> simp_all
  omega

/-- emitted items are ordered by date, comments (no date) first -/
theorem C18_output_sorted (rows : List Row) : (convert rows).items.Pairwise (fun a b => keyLe a b = true) := by
  unfold convert
  simp only
  exact List.pairwise_mergeSort (fun a b c => keyLe_trans a b c) keyLe_total _

theorem C18_sort_keeps_everything (items : List Item) : (items.mergeSort keyLe).Perm items :=
  List.mergeSort_perm items _

theorem C18_other_rows_counted (all : List Row) (s : St) :
    (step all s .nonCgt).skipped = s.skipped + 1 ∧
    (step all s .unknown).skipped = s.skipped + 1 ∧ (step all s .unknown).warnings = s.warnings + 1 ∧
    (step all s .unknown).items = s.items ++ [.comment] ∧
    ∀ d sym, (step all s (.split d sym)).skipped = s.skipped + 1 ∧ (step all s (.split d sym)).items = s.items ++ [.comment] :=
  ⟨rfl, rfl, rfl, rfl, fun _ _ => ⟨rfl, rfl⟩⟩

/-- a withholding row that names a symbol: carried by a dividend of its date and symbol, or reported -/
theorem C18_withholding_is_attached_or_reported (all : List Row) (s : St) (d : Int) (sym : String) (a : Option Rat) :
    (a.isSome ∧ hasDividend all d sym = true → step all s (.nra d (some sym) a) = s) ∧
    (¬ (a.isSome ∧ hasDividend all d sym = true) →
      (step all s (.nra d (some sym) a)).items = s.items ++ [.comment] ∧
      (step all s (.nra d (some sym) a)).skipped = s.skipped + 1 ∧
      (step all s (.nra d (some sym) a)).warnings = s.warnings + 1) := by
  constructor
  · intro h; simp [step, h]
  · intro h; simp [step, h]

/-- a dividend row without an amount is reported, not dropped -/
theorem C18_blank_dividend_is_reported (all : List Row) (s : St) (d : Int) (sym : String) :
    (step all s (.dividend d sym none)).items = s.items ++ [.comment] ∧
    (step all s (.dividend d sym none)).skipped = s.skipped + 1 ∧
    (step all s (.dividend d sym none)).warnings = s.warnings + 1 := ⟨rfl, rfl, rfl⟩

/-- D16, what is left: a withholding row without a symbol changes nothing at all -/
theorem C18_symbolless_withholding_vanishes (all : List Row) (s : St) (d : Int) (a : Option Rat) :
    step all s (.nra d none a) = s := rfl

example : applyCancels [(5, "A", 1, 2)] ([.sell 5 "A" 1 2 0, .sell 5 "A" 1 2 0, .buy 3 "A" 1 1 0], 0)
    = ([.sell 5 "A" 1 2 0, .buy 3 "A" 1 1 0], 0) := by decide +kernel

/-- an emitted line never carries a negative fee (the DSL could not express it), and carries the row's fee
    whenever that is positive -/
theorem C18_fee_never_negative (f : Option Rat) : 0 ≤ feeOf f ∧ (∀ x, f = some x → 0 < x → feeOf f = x) := by
  unfold feeOf
  constructor
  · split <;> grind
  · intro x hx hpos; subst hx; simp [hpos]

end Cgt.C18
