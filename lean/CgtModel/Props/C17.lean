import CgtModel.Format
import CgtModel.Lemmas.Round
/-! # C17 — text, JSON, PDF and MCP front-ends present the same figures

The check takes the implementation's full-precision report and compares every monetary string of the
plain-text report and of the JSON report (and the MCP tools' JSON, which is the same serialiser) with
the Lean formatter model, and parses each string back to compare its value with half-away rounding of
the computed value. Proved for the model, for all values:
* `C17_pence_is_roundHalfAway` — the pence shown are `roundHalfAway 2` of the value;
* `C17_shown_value_is_close` — the shown figure differs from the computed one by at most half a penny;
* `C17_midpoints_go_away_from_zero` — k.5 pence is shown as k + 1 pence, −k.5 as −(k + 1);
* `C17_json_and_text_round_alike` — the JSON serialiser and the text formatter use the same rounding
  (both constants are re-read from models.rs and cgt-format on every run; on the pinned tree the JSON one
  was banker's rounding — known finding D8, repaired);
* `C17_half_even_differs_on_midpoint` — the witness that made them disagree: 12.5 pence.
PDF: the text runs of the compiled Typst document (hook `verif_text_runs`, behind
`--cfg velikodniy_cgt_tool_verif`) are compared figure by figure with the exact value rounded to pence;
the f64 rounding defect (D8b) was repaired (figures now reach the template as exact decimals), and the
extractor group `pdf_round` checks that this stays so.
-/
namespace Cgt.C17
open Cgt Cgt.Format

theorem C17_pence_is_roundHalfAway (x : Rat) : ((pence x : Int) : Rat) / 100 = roundHalfAway 2 x := by
  unfold pence roundHalfAway pow10
  simp only
  have h100 : (((10 ^ 2 : Nat) : Nat) : Rat) = 100 := by norm_cast
  rw [h100]
  split <;> split <;> simp [Rat.intCast_neg] <;> rfl

theorem C17_shown_value_is_close (x : Rat) : rabs (((pence x : Int) : Rat) / 100 - x) ≤ 1 / 200 := by
  rw [C17_pence_is_roundHalfAway]
  have := roundHalfAway_close 2 x
  have e : (1 : Rat) / (2 * pow10 2) = 1 / 200 := by unfold pow10; norm_cast
  rw [e] at this; exact this

theorem floor_int_add_half (k : Int) : ((k : Rat) + 1/2).floor = k := by
  have h1 : ((k : Rat)).floor = k := Rat.floor_intCast k
  have := @Rat.le_floor_iff k ((k : Rat) + 1/2)
  have hle : k ≤ ((k : Rat) + 1/2).floor := this.mpr (by grind)
  have hlt : ((k : Rat) + 1/2).floor < k + 1 := by
    rw [Rat.floor_lt_iff]
    have : ((k + 1 : Int) : Rat) = (k : Rat) + 1 := by simp [Rat.intCast_add]
    rw [this]; grind
  omega

/-- **midpoints away from zero** -/
theorem C17_midpoints_go_away_from_zero (k : Nat) :
    pence (((k : Int) : Rat) / 100 + 1 / 200) = k + 1 ∧ pence (-(((k : Int) : Rat) / 100 + 1 / 200)) = -((k : Int) + 1) := by
  have hk : (0 : Rat) ≤ ((k : Int) : Rat) := by exact_mod_cast Int.natCast_nonneg k
  have e1 : (((k : Int) : Rat) / 100 + 1 / 200) * 100 = ((k : Int) : Rat) + 1/2 := by grind
  have e2 : (-(((k : Int) : Rat) / 100 + 1 / 200)) * 100 = -(((k : Int) : Rat) + 1/2) := by grind
  have hpos : ¬ (((k : Int) : Rat) / 100 + 1 / 200 < 0) := by grind
  have hneg : (-(((k : Int) : Rat) / 100 + 1 / 200) < 0) := by grind
  constructor
  · unfold pence
    simp only [e1, hpos, if_false]
    have ha : rabs (((k : Int) : Rat) + 1/2) = ((k : Int) : Rat) + 1/2 := by unfold rabs; split <;> grind
    rw [ha, floor_int_add_half]
    have : ((k : Int) : Rat) + 1/2 - ((k : Int) : Rat) ≥ 1/2 := by grind
    simp [this]
  · unfold pence
    simp only [e2, hneg, if_true]
    have ha : rabs (-(((k : Int) : Rat) + 1/2)) = ((k : Int) : Rat) + 1/2 := by unfold rabs; split <;> grind
    rw [ha, floor_int_add_half]
    have : ((k : Int) : Rat) + 1/2 - ((k : Int) : Rat) ≥ 1/2 := by grind
    simp [this]

/-! ### amounts in other currencies (transaction echoes): rounded to the currency's minor units -/

theorem C17_minorUnits_is_roundHalfAway (k : Nat) (x : Rat) :
    ((minorUnits k x : Int) : Rat) / pow10 k = roundHalfAway k x := by
  unfold minorUnits roundHalfAway
  simp only
  split <;> split <;> simp [Rat.intCast_neg]

/-- a foreign-currency figure is within half a minor unit of the amount, for every exponent -/
theorem C17_foreign_value_is_close (k : Nat) (x : Rat) :
    rabs (((minorUnits k x : Int) : Rat) / pow10 k - x) ≤ 1 / (2 * pow10 k) := by
  rw [C17_minorUnits_is_roundHalfAway]; exact roundHalfAway_close k x

/-- pence are the k = 2 case: one rounding rule for every currency -/
theorem C17_pence_is_minorUnits (x : Rat) : pence x = minorUnits 2 x := by
  unfold pence minorUnits pow10
  have h100 : (((10 ^ 2 : Nat) : Nat) : Rat) = 100 := by norm_cast
  rw [h100]

/-- midpoints of any currency go away from zero: n + ½ units → n + 1 units, and symmetrically -/
theorem C17_foreign_midpoints_away (k : Nat) (n : Nat) :
    minorUnits k ((((n : Int) : Rat) + 1/2) / pow10 k) = n + 1 ∧
    minorUnits k (-((((n : Int) : Rat) + 1/2) / pow10 k)) = -((n : Int) + 1) := by
  have hP := pow10_pos k
  have hPne : pow10 k ≠ 0 := by grind
  have hn : (0 : Rat) ≤ ((n : Int) : Rat) := by exact_mod_cast Int.natCast_nonneg n
  have e1 : ((((n : Int) : Rat) + 1/2) / pow10 k) * pow10 k = ((n : Int) : Rat) + 1/2 := by
    rw [Rat.div_mul_cancel hPne]
  have e2 : (-((((n : Int) : Rat) + 1/2) / pow10 k)) * pow10 k = -(((n : Int) : Rat) + 1/2) := by
    rw [Rat.neg_mul, e1]
  have hq : 0 < (((n : Int) : Rat) + 1/2) / pow10 k := by
    rw [Rat.div_def]; exact Rat.mul_pos (by grind) (Rat.inv_pos.mpr hP)
  have hpos : ¬ ((((n : Int) : Rat) + 1/2) / pow10 k < 0) := by grind
  have hneg : (-((((n : Int) : Rat) + 1/2) / pow10 k) < 0) := by grind
  constructor
  · unfold minorUnits
    simp only [e1, hpos, if_false]
    have ha : rabs (((n : Int) : Rat) + 1/2) = ((n : Int) : Rat) + 1/2 := by unfold rabs; split <;> grind
    rw [ha, floor_int_add_half]
    have : ((n : Int) : Rat) + 1/2 - ((n : Int) : Rat) ≥ 1/2 := by grind
    simp [this]
  · unfold minorUnits
    simp only [e2, hneg, if_true]
    have ha : rabs (-(((n : Int) : Rat) + 1/2)) = ((n : Int) : Rat) + 1/2 := by unfold rabs; split <;> grind
    rw [ha, floor_int_add_half]
    have : ((n : Int) : Rat) + 1/2 - ((n : Int) : Rat) ≥ 1/2 := by grind
    simp [this]

example : fmtCurrencyAmount "USD" 2 (12345/1000) = "12.35 USD" := by decide +kernel
example : fmtCurrencyAmount "JPY" 0 (201/2) = "101 JPY" := by decide +kernel
example : fmtCurrencyAmount "KWD" 3 (-20125/10000) = "-2.013 KWD" := by decide +kernel
example : fmtCurrencyAmount "GBP" 2 (1/8) = "£0.13" := by decide +kernel

/-- the PDF rounds like the text report: figures reach the template as exact decimals (extracted:
    no binary-float conversion on the way) and are rounded to the same number of digits, so the
    PDF figure of a value is `fmtGbp` of it -/
theorem C17_pdf_rounds_like_text :
    pdfMoneyExactDecimal = true ∧ pdfMoneyDp = displayMoneyDp ∧ pdfQtyDp = 6 := by decide

/-- a float image loses exactly the midpoints: the witness that made the PDF differ (1.005 → 100.49…
    after scaling): its exact rounding is 1.01 -/
example : fmtGbp (1005/1000) = "£1.01" := by decide +kernel

/-- the two rounding sites the front-ends use agree (extracted constants) -/
theorem C17_json_and_text_round_alike :
    jsonMoneyHalfAway = displayMoneyHalfAway ∧ jsonMoneyDp = displayMoneyDp ∧ displayMoneyHalfAway = true ∧ displayMoneyDp = 2 := by
  decide

theorem C17_half_even_differs_on_midpoint : pence (1/8) = 13 ∧ penceEven (1/8) = 12 := by decide +kernel

example : fmtGbp (-1234567891/1000) = "-£1,234,567.89" := by decide +kernel
example : fmtGbp (1/8) = "£0.13" := by decide +kernel
example : fmtTaxYear 2099 = "2099/00" := by decide +kernel

end Cgt.C17
