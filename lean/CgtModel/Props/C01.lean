import CgtModel.Report
import CgtModel.Spec
import CgtModel.Lemmas.Conserve
import CgtModel.Lemmas.LegWindow
import CgtModel.Lemmas.SpecEquiv
import CgtModel.Lemmas.SpecTable
import CgtModel.Lemmas.Sorted
import CgtModel.Lemmas.RawShape
import CgtModel.Props.C02
import CgtModel.Props.Formulas
/-! # C01 — Same Day, then 30-day (earliest first), then Section 104

Full statement: for every accepted ledger, rule / quantity / acquisition date of every leg (and costs,
proceeds, gain without cost events) equal an independent exact evaluation of s105(1), s106A, s104; an
acquisition on D+30 is in the window, one on D+31 or on/before D is not.

`def C01_statement` below states that equality against `Spec.identifyAll` at ledger level. Proved:
`C01_matcher_is_statute` — for one security's day list (strictly increasing dates — every ledger's
are —, no capital returns / accumulations, at most one SELL line per day after merging), the matcher
(cost pre-pass + single main pass with carried claims) produces exactly the legs — rule, quantity,
allowable cost, acquisition date, in order — and the closing pool (quantity and cost) that `Spec`'s
claims matrix (pass 2) and pool walk (pass 3) produce on the same days (`Lemmas/SpecEquiv.lean`: the
look-ahead of a disposal is its row of the matrix; the carried claims are the column sums; the day
step is the walk step); `C01_ledger` — **from the raw ledger**: `Spec.table t l`, built by insertion
from the raw lines, is `daysOf t (preprocess l)` seen through `ofDay` (`Lemmas/SpecTable.lean`:
insertion commutes, fills merge as they absorb, grouping is insertion from the last line to the
first), so for every validator-clean ledger with valid dates, no cost events and at most one SELL
line per security and day after merging, every security's legs and closing pool are those of
`Spec.identify` on the raw ledger; `C01_ledger_events` — the same **with capital returns and
accumulations allowed**: the matcher identifies exactly as `Spec` does on the day table built from the raw
lines with each purchase costed at consideration + fees + the offset the cost pre-pass left on it
(`C01_matcher_is_statute_with_events`; what the offsets are is C03's and C11's subject). Also proved, the
priority structure the statute prescribes:

* `window_pinned`, `C01_window` — a 30-day leg's acquisition lies at most `bnbWindowDays = 30` days
  after the disposal, and strictly after it when the following days are later days; a day at exactly
  D+30 *is* examined (`C01_edge_day_is_used`), a day beyond is not (`C01_beyond_window_unused`);
* `C01_rule_order` — the legs of a SELL are [Same Day]? ++ 30-day* ++ [Section 104]?;
* `C01_same_day_first` — the Same-Day leg takes min(sold, available same-day shares): nothing goes to
  the other rules while same-day shares remain;
* `C01_thirty_day_before_pool` — if anything is left for the pool after the look-ahead, every
  purchase in the window is exhausted (its availability, net of the shares its own day's disposals
  own and of earlier claims, is 0);
* `C01_earliest_first` — the look-ahead takes from the earliest eligible purchase as much as that
  purchase can give before it looks at a later one.

`C01_statement` itself is evaluated on every run by the correspondence check, for the
implementation's output and for the model's (evidence: `model-vs-spec-disagreements`).
-/
namespace Cgt.C01
open Cgt

theorem window_pinned : bnbWindowDays = 30 := by decide

/-- legs summed per (rule, acquisition date) for comparison with `Spec` -/
def foldKey (l : Leg) : Rule × Option Date := (l.rule, l.acq)

/-- the full property, as a statement about the model (unproved; see the header) -/
def C01_statement : Prop :=
  ∀ (l : List Tx) (rs : List TickerResult), run bnbWindowDays l = .ok rs →
    ∀ r ∈ rs, ∀ s ∈ Spec.identifyAll bnbWindowDays l, s.ticker = r.ticker →
      poolQ' r.pool = s.poolQ ∧
      ∀ d ∈ s.disposals, ∀ sl ∈ d.legs,
        rsum ((r.legs.filter (fun x => x.sellDate = d.date ∧ x.rule = sl.rule ∧ x.acq = sl.acq)).map (·.qty)) = sl.qty

/-- every 30-day leg points at a day of the list that is at most `w` days after the disposal -/
theorem C01_window (w : Int) (d0 : Date) (s : Trade) (fs : List Day) :
    ∀ (rem k : Rat) (cl : List Rat), ∀ l ∈ (lookahead w d0 s rem k fs cl).2.1,
      ∃ e ∈ fs, l.acq = some e.date ∧ e.ord - d0.ord ≤ w := by
  induction fs with
  | nil => intro rem k cl l hl; simp [lookahead] at hl
  | cons e rest ih =>
    intro rem k cl l hl
    simp only [lookahead] at hl
    split at hl
    · simp at hl
    · split at hl
      · simp at hl
      · rename_i hwin
        split at hl
        · obtain ⟨e', he', h⟩ := ih _ _ _ l hl
          exact ⟨e', by simp [he'], h⟩
        · split at hl
          · obtain ⟨e', he', h⟩ := ih _ _ _ l hl
            exact ⟨e', by simp [he'], h⟩
          · simp only [List.mem_cons] at hl
            rcases hl with rfl | hl
            · exact ⟨e, by simp, rfl, by omega⟩
            · obtain ⟨e', he', h⟩ := ih _ _ _ l hl
              exact ⟨e', by simp [he'], h⟩

/-- …and strictly after it, when the days that follow are later days (they are: the day list is
    date-ordered) — so an acquisition on or before D is never a 30-day match -/
theorem C01_window_strict (w : Int) (d0 : Date) (s : Trade) (fs : List Day)
    (hlater : ∀ e ∈ fs, d0.ord < e.ord) (rem k : Rat) (cl : List Rat) :
    ∀ l ∈ (lookahead w d0 s rem k fs cl).2.1,
      ∃ e ∈ fs, l.acq = some e.date ∧ 0 < e.ord - d0.ord ∧ e.ord - d0.ord ≤ w := by
  intro l hl
  obtain ⟨e, he, h1, h2⟩ := C01_window w d0 s fs rem k cl l hl
  exact ⟨e, he, h1, by have := hlater e he; omega, h2⟩

/-- a purchase on the last day of the window is used -/
theorem C01_edge_day_is_used (w : Int) (d0 : Date) (s : Trade) (e : Day) (rest : List Day) (b : Trade)
    (rem k : Rat) (cl : List Rat) (hrem : 0 < rem) (hedge : e.ord - d0.ord = w) (hb : e.buy = some b)
    (ha : 0 < availFor e (cl.headD 0)) :
    ∃ leg legs, (lookahead w d0 s rem k (e :: rest) cl).2.1 = leg :: legs ∧ leg.acq = some e.date ∧
      leg.qty = min rem (availFor e (cl.headD 0) / k) := by
  simp only [lookahead]
  have h1 : ¬ rem ≤ 0 := by grind
  have h2 : ¬ e.ord - d0.ord > w := by omega
  have h3 : ¬ availFor e (cl.headD 0) ≤ 0 := by grind
  simp only [h1, h2, if_false, hb, h3]
  exact ⟨_, _, rfl, rfl, rfl⟩

/-- a day beyond the window ends the look-ahead: nothing on or after it is matched -/
theorem C01_beyond_window_unused (w : Int) (d0 : Date) (s : Trade) (e : Day) (rest : List Day)
    (rem k : Rat) (cl : List Rat) (hout : e.ord - d0.ord > w) :
    lookahead w d0 s rem k (e :: rest) cl = (cl, [], rem) := by
  simp only [lookahead]
  by_cases h1 : rem ≤ 0
  · simp [h1]
  · simp [h1, hout]

/-- the legs of a SELL come in the statutory order -/
theorem C01_rule_order (t : String) (w : Int) (d : Day) (st : MState) (s : Trade)
    (future : List Day) (cl : List Rat) (st' : MState) (cl' : List Rat) (legs : List Leg)
    (h : sellStep t w d st s future cl = .ok (st', cl', legs)) :
    ∃ a b c, legs = a ++ b ++ c ∧ a.length ≤ 1 ∧ c.length ≤ 1 ∧
      (∀ l ∈ a, l.rule = .sameDay ∧ l.acq = some d.date) ∧
      (∀ l ∈ b, l.rule = .bedAndBreakfast) ∧ (∀ l ∈ c, l.rule = .section104 ∧ l.acq = none) := by
  unfold sellStep at h
  split at h
  · cases h
  · by_cases hq : s.q = 0
    all_goals (
      simp only [hq, if_true, if_false] at h
      split at h
      · split at h <;> cases h
      · simp only [Except.ok.injEq, Prod.mk.injEq] at h
        obtain ⟨_, _, rfl⟩ := h
        refine ⟨_, _, _, rfl, ?_, ?_, ?_, ?_, ?_⟩
        · unfold sameDayPart; split <;> (try split) <;> simp
        · unfold poolPart
          split
          · split
            · split
              · simp
              · simp only; split <;> simp
            · simp
          · simp
        · intro l hl
          unfold sameDayPart at hl
          split at hl
          · split at hl
            · simp only [List.mem_singleton] at hl; subst hl; exact ⟨rfl, rfl⟩
            · simp at hl
          · simp at hl
        · first
          | (intro l hl; simp at hl)
          | exact lookahead_rule _ _ _ _ _ _ _
        · intro l hl
          unfold poolPart at hl
          split at hl
          · split at hl
            · split at hl
              · simp at hl
              · simp only at hl
                split at hl
                · simp at hl
                · simp only [List.mem_singleton] at hl; subst hl; exact ⟨rfl, rfl⟩
            · simp at hl
          · simp at hl)

/-- Same Day first: the Same-Day leg is min(quantity sold, shares of the day's purchase still
    available) — the other rules only see what is left after that -/
theorem C01_same_day_first (d : Day) (avail : Rat) (s : Trade) (b : Trade) (hb : d.buy = some b)
    (ha : 0 ≤ avail) (hs : 0 ≤ s.q) :
    (sameDayPart d avail s).1 = min s.q avail := by
  unfold sameDayPart
  simp only [hb]
  split
  · rfl
  · rename_i h
    simp only
    have : avail = 0 ∨ s.q = 0 := by
      by_cases h1 : avail > 0
      · right; grind
      · left; grind
    rcases this with h | h <;> grind

/-- every purchase inside the window is exhausted -/
def Exhausted (w : Int) (d0 : Date) : List Day → List Rat → Prop
  | [], _ => True
  | e :: rest, cl =>
    e.ord - d0.ord > w ∨ ((e.buy ≠ none → availFor e (cl.headD 0) ≤ 0) ∧ Exhausted w d0 rest cl.tail)

/-- 30-day before pool: whatever the look-ahead leaves unmatched found every purchase of the window
    exhausted (given its own day's disposals and earlier claims) -/
theorem C01_thirty_day_before_pool (w : Int) (d0 : Date) (s : Trade) (fs : List Day) :
    ∀ (rem k : Rat) (cl : List Rat), 0 < k → ratiosPos fs → 0 ≤ rem →
      0 < (lookahead w d0 s rem k fs cl).2.2 → Exhausted w d0 fs (lookahead w d0 s rem k fs cl).1 := by
  induction fs with
  | nil => intro rem k cl _ _ _ _; trivial
  | cons e rest ih =>
    intro rem k cl hk hrp hrem0 hpos
    obtain ⟨her, hrest⟩ := hrp
    have hk' : 0 < k * e.r := Rat.mul_pos hk her
    simp only [lookahead] at hpos ⊢
    by_cases h1 : rem ≤ 0
    · simp only [h1, if_true] at hpos; grind
    · simp only [h1, if_false] at hpos ⊢
      by_cases h2 : e.ord - d0.ord > w
      · simp only [h2, if_true]; left; exact h2
      · simp only [h2, if_false] at hpos ⊢
        right
        cases hb : e.buy with
        | none =>
          simp only [hb] at hpos ⊢
          refine ⟨fun h => absurd rfl h, ?_⟩
          exact ih _ _ _ hk' hrest hrem0 hpos
        | some b =>
          simp only [hb] at hpos ⊢
          by_cases h3 : availFor e (cl.headD 0) ≤ 0
          · simp only [h3, if_true] at hpos ⊢
            refine ⟨fun _ => by simpa using h3, ?_⟩
            exact ih _ _ _ hk' hrest hrem0 hpos
          · simp only [h3, if_false] at hpos ⊢
            have hk0 : k ≠ 0 := by grind
            have hapos : 0 < availFor e (cl.headD 0) := by grind
            have hdiv : 0 < availFor e (cl.headD 0) / k := rat_div_pos hapos hk
            have hle : min rem (availFor e (cl.headD 0) / k) ≤ rem := by grind
            have hacc := lookahead_accounts w d0 s rest (rem - min rem (availFor e (cl.headD 0) / k))
              (k * e.r) cl.tail hk' hrest (by grind)
            -- something is left, so this purchase gave all it had
            have hlt : min rem (availFor e (cl.headD 0) / k) < rem := by
              have := hacc.2.2.2.1
              grind
            have hms : min rem (availFor e (cl.headD 0) / k) = availFor e (cl.headD 0) / k := by grind
            refine ⟨fun _ => ?_, ?_⟩
            · simp only [List.headD_cons]
              rw [hms]
              have e1 : availFor e (cl.headD 0) / k * k = availFor e (cl.headD 0) := by grind
              rw [e1]
              unfold availFor at hapos ⊢
              grind
            · simp only [List.tail_cons]
              exact ih _ _ _ hk' hrest (by grind) hpos

/-- earliest first: the look-ahead gives the first eligible purchase everything that purchase can
    take (`min rem (avail / k)`) and only the rest goes on to later days -/
theorem C01_earliest_first (w : Int) (d0 : Date) (s : Trade) (e : Day) (rest : List Day) (b : Trade)
    (rem k : Rat) (cl : List Rat) (hrem : 0 < rem) (hin : e.ord - d0.ord ≤ w) (hb : e.buy = some b)
    (ha : 0 < availFor e (cl.headD 0)) :
    let ms := min rem (availFor e (cl.headD 0) / k)
    (lookahead w d0 s rem k (e :: rest) cl).2.1 =
      mkLeg d0 .bedAndBreakfast ms (ms * k * unitCost b e.offset) s (some e.date) ::
        (lookahead w d0 s (rem - ms) (k * e.r) rest cl.tail).2.1 := by
  simp only [lookahead]
  have h1 : ¬ rem ≤ 0 := by grind
  have h2 : ¬ e.ord - d0.ord > w := by omega
  have h3 : ¬ availFor e (cl.headD 0) ≤ 0 := by grind
  simp only [h1, h2, if_false, hb, h3]

-- non-vacuity: the D1 shape (two earlier disposals, a purchase with its own same-day disposal)
def exDays : List Day :=
  [ { date := ⟨2024, 1, 1⟩, buy := some ⟨0, 1000, 1, 0⟩ },
    { date := ⟨2024, 2, 1⟩, sells := [⟨1, 100, 2, 0⟩] },
    { date := ⟨2024, 2, 2⟩, sells := [⟨2, 100, 2, 0⟩] },
    { date := ⟨2024, 2, 10⟩, buy := some ⟨3, 80, 3, 0⟩, sells := [⟨4, 50, 4, 0⟩] } ]

def legRules (r : Except MErr (Option Pool × List Leg)) : List (Rule × Rat) :=
  match r with
  | .ok (_, legs) => legs.map (fun l => (l.rule, l.qty))
  | .error _ => []

example : legRules (runTicker "A" 30 exDays) =
    [(.bedAndBreakfast, 30), (.section104, 70), (.section104, 100), (.sameDay, 50)] := by decide +kernel

/-! ### the window, for every ledger -/

theorem setOffsets_strict (f : Day → Rat) (ds : List Day) (h : ds.Pairwise (fun a b => a.ord < b.ord)) :
    (C02.setOffsets f ds).Pairwise (fun a b => a.ord < b.ord) := by
  unfold C02.setOffsets
  rw [List.pairwise_map]
  exact h

/-- **C01, window and rule ↔ acquisition date, from the raw ledger**: for every ledger the matcher
    accepts (no hypothesis at all on the input), every leg of every security is dated by one of that
    security's days; a Same-Day leg is identified with that very day, a 30-day leg with a day
    strictly later and at most 30 days on (D+30 inside, D+31 and D itself outside), a Section 104 leg
    with no acquisition day -/
theorem C01_legs_in_window (l : List Tx) (rs : List TickerResult) (h : run bnbWindowDays l = .ok rs) :
    ∀ r ∈ rs, ∀ x ∈ r.legs, ∃ d ∈ daysOf r.ticker (preprocess l), LegWin 30 d.date x := by
  intro r hr x hx
  have hrun := C02.run_result bnbWindowDays l rs h r hr
  unfold runTicker at hrun
  split at hrun
  · cases hrun
  · rename_i ds' hw
    obtain ⟨f, rfl⟩ := C02.withOffsets_shape r.ticker _ ds' hw
    have hs := setOffsets_strict f _ (daysOf_strict l r.ticker)
    obtain ⟨d, hd, hwin⟩ := runDays_legwin r.ticker bnbWindowDays _ hs none r.pool [] r.legs hrun x hx
    unfold C02.setOffsets at hd
    simp only [List.mem_map] at hd
    obtain ⟨d0, hd0, rfl⟩ := hd
    exact ⟨d0, hd0, by have : bnbWindowDays = 30 := by decide
                       rw [this] at hwin; exact hwin⟩

/-- **C01 for one security**: the matcher model is the statutory evaluation. For a day list with
    strictly increasing dates, non-negative quantities, no cost events and at most one SELL line per
    day, an accepted run's legs (rule, quantity, allowable cost, acquisition date, in order) and
    closing pool (quantity, cost) are exactly those of `Spec`'s passes 2 and 3 on the same days. -/
theorem C01_matcher_is_statute (t : String) (ds : List Day) (hs : ds.Pairwise (fun a b => a.ord < b.ord))
    (hok : daysOk ds) (hne : noEvents ds) (hone : ∀ d ∈ ds, d.sells.length ≤ 1) (h0 : ∀ d ∈ ds, d.offset = 0)
    (pool : Option Pool) (legs : List Leg) (h : runTicker t bnbWindowDays ds = .ok (pool, legs)) :
    let sp := identifyTbl bnbWindowDays (ds.map ofDay)
    sp.2.1 = poolQ' pool ∧ sp.2.2 = poolC' pool ∧
    legs.map legView = sp.1.flatMap (fun dsp => dsp.legs.map slegView) :=
  runTicker_eq_spec t bnbWindowDays ds hs hok hne hone h0 pool legs h

theorem daysOf_offset (t : String) (pre : List Tx) : ∀ d ∈ daysOf t pre, d.offset = 0 := by
  intro d hd; unfold daysOf at hd; exact groupDays_offset _ d hd

/-- **C01 for one security, capital events allowed**: the matcher is the statutory evaluation of the same
    days with each purchase costed at its consideration and fees plus the offset the cost pre-pass wrote
    on it (what those offsets are is C03's and C11's subject). Strictly increasing dates, non-negative
    quantities, at most one SELL line per day. -/
theorem C01_matcher_is_statute_with_events (t : String) (ds : List Day) (hs : ds.Pairwise (fun a b => a.ord < b.ord))
    (hok : daysOk ds) (hone : ∀ d ∈ ds, d.sells.length ≤ 1)
    (pool : Option Pool) (legs : List Leg) (h : runTicker t bnbWindowDays ds = .ok (pool, legs)) :
    ∃ lots, prepass t [] ds = .ok lots ∧
      (let sp := identifyTbl bnbWindowDays ((ds.map (fun d => { d with offset := offsetFor d.ord lots })).map ofDay)
       sp.2.1 = poolQ' pool ∧ sp.2.2 = poolC' pool ∧
       legs.map legView = sp.1.flatMap (fun dsp => dsp.legs.map slegView)) :=
  runTicker_eq_spec_offsets t bnbWindowDays ds hs hok hone pool legs h

/-- **C01 from the raw ledger**: for every validator-clean ledger with valid dates that the matcher
    accepts, and every security whose days carry no capital return / accumulation and at most one SELL
    line each (adjacent same-day SELL lines are merged first), the matcher's legs — rule, quantity,
    allowable cost, acquisition date, in order — and closing pool are exactly those of the
    independent evaluation `Spec.identify` of s105(1), s106A and s104 on the raw lines. -/
theorem C01_ledger (l : List Tx) (hw : WellFormed l) (hd : Spec.DatesOk l) (rs : List TickerResult)
    (h : run bnbWindowDays l = .ok rs) :
    ∀ r ∈ rs, noEvents (daysOf r.ticker (preprocess l)) →
      (∀ d ∈ daysOf r.ticker (preprocess l), d.sells.length ≤ 1) →
      let s := Spec.identify bnbWindowDays r.ticker l
      s.poolQ = poolQ' r.pool ∧ s.poolC = poolC' r.pool ∧
      r.legs.map legView = s.disposals.flatMap (fun dsp => dsp.legs.map slegView) := by
  intro r hr hne hone
  have hrun := C02.run_result bnbWindowDays l rs h r hr
  have := C01_matcher_is_statute r.ticker _ (daysOf_strict l r.ticker) (wellFormed_days l hw r.ticker).1 hne hone (daysOf_offset r.ticker _) r.pool r.legs hrun
  rw [← table_eq_days r.ticker l hw hd] at this
  exact this

/-- **C01 with every hypothesis on the input**: `C01_ledger` asks for the preprocessed day list to be
    free of capital events and to carry at most one SELL per day; both follow from the raw lines
    (`Lemmas/RawShape.lean`): a security with no CAPRETURN / ACCUMULATION line, whose SELL lines fall on
    pairwise different days, in a validator-clean ledger with valid dates that the matcher accepts,
    gets exactly `Spec.identify`'s legs and closing pool. -/
theorem C01_ledger_raw (l : List Tx) (hw : WellFormed l) (hd : Spec.DatesOk l) (rs : List TickerResult)
    (h : run bnbWindowDays l = .ok rs) :
    ∀ r ∈ rs, noEventLines r.ticker l → oneSellPerDay r.ticker l →
      let s := Spec.identify bnbWindowDays r.ticker l
      s.poolQ = poolQ' r.pool ∧ s.poolC = poolC' r.pool ∧
      r.legs.map legView = s.disposals.flatMap (fun dsp => dsp.legs.map slegView) := by
  intro r hr hne hone
  exact C01_ledger l hw hd rs h r hr (noEvents_of_raw r.ticker l hne) (oneSell_of_raw r.ticker l hone)

-- non-vacuity: the D1 shape as raw lines (shuffled, the purchase recorded as two fills, a second
-- security with a capital return alongside) meets every hypothesis for security "A" (the harness runs the
-- same ledger through the real matcher and the model driver: corpus/C01/raw_shape.cgt)
def exRaw : List Tx :=
  [ ⟨⟨2024, 2, 10⟩, "A", .sell 50 4 0⟩, ⟨⟨2024, 2, 1⟩, "A", .sell 100 2 0⟩,
    ⟨⟨2024, 1, 1⟩, "A", .buy 600 1 0⟩, ⟨⟨2024, 1, 1⟩, "B", .buy 10 1 0⟩, ⟨⟨2024, 1, 1⟩, "A", .buy 400 1 0⟩,
    ⟨⟨2024, 2, 2⟩, "A", .sell 100 2 0⟩, ⟨⟨2024, 3, 1⟩, "B", .capreturn 10 3 0⟩, ⟨⟨2024, 2, 10⟩, "A", .buy 80 3 0⟩ ]

example : WellFormed exRaw ∧ noEventLines "A" exRaw ∧ oneSellPerDay "A" exRaw ∧ ¬ noEventLines "B" exRaw := by
  decide +kernel

/-! ### capital events allowed -/
section Events
open Spec

/-- a day of the table with its purchase's cost adjusted by `off` (days without a purchase are left alone) -/
def adjCost (off : Int → Rat) (sd : SDay) : SDay :=
  if sd.B = 0 then sd else { sd with Bcost := sd.Bcost + off sd.date.ord }

theorem ofDay_setOffset (d : Day) (x : Rat) (h0 : d.offset = 0) (hpos : ∀ b, d.buy = some b → 0 < b.q) :
    ofDay { d with offset := x } = adjCost (fun _ => x) (ofDay d) := by
  unfold adjCost
  cases hb : d.buy with
  | none =>
    have hB : (ofDay d).B = 0 := by simp [ofDay, Day.B, hb]
    rw [if_pos hB]
    apply SDay.ext' <;> simp [ofDay, Day.B, Day.S, hb]
  | some b =>
    have hq := hpos b hb
    have hB : ¬ (ofDay d).B = 0 := by simp only [ofDay, Day.B, hb]; grind
    rw [if_neg hB]
    apply SDay.ext' <;> simp [ofDay, Day.B, Day.S, hb, h0] <;> grind

/-- **C01 from the raw ledger, capital events allowed**: for a validator-clean ledger with valid dates that
    the matcher accepts, every security whose SELL lines fall on different days is identified exactly as
    the statutory evaluation identifies the day table built from the raw lines, each purchase costed at its
    consideration and fees plus the offset the cost pre-pass left on it — legs (rule, quantity, allowable
    cost, acquisition date, in order) and closing pool (quantity, cost). Without capital returns and
    accumulations every offset is zero and this is `C01_ledger_raw`. -/
theorem C01_ledger_events (l : List Tx) (hw : WellFormed l) (hd : Spec.DatesOk l) (rs : List TickerResult)
    (h : run bnbWindowDays l = .ok rs) :
    ∀ r ∈ rs, oneSellPerDay r.ticker l →
      ∃ lots, prepass r.ticker [] (daysOf r.ticker (preprocess l)) = .ok lots ∧
        (let sp := identifyTbl bnbWindowDays ((table r.ticker l).map (adjCost (fun o => offsetFor o lots)))
         sp.2.1 = poolQ' r.pool ∧ sp.2.2 = poolC' r.pool ∧
         r.legs.map legView = sp.1.flatMap (fun dsp => dsp.legs.map slegView)) := by
  intro r hr hone
  have hrun := C02.run_result bnbWindowDays l rs h r hr
  have hdays := wellFormed_days l hw r.ticker
  obtain ⟨lots, hp, hsp⟩ := C01_matcher_is_statute_with_events r.ticker _ (daysOf_strict l r.ticker) hdays.1
    (oneSell_of_raw r.ticker l hone) r.pool r.legs hrun
  refine ⟨lots, hp, ?_⟩
  have hpos : ∀ d ∈ daysOf r.ticker (preprocess l), ∀ b, d.buy = some b → 0 < b.q := by
    intro d hdm
    unfold daysOf at hdm
    have hp' := preprocess_ok l hw
    have := groupDays_pos _ (by
      intro x hx
      simp only [List.mem_filter] at hx
      have hm : x ∈ indexed (preprocess l) := hx.1
      unfold indexed at hm
      simp only [List.mem_map] at hm
      obtain ⟨⟨y, j⟩, hy, rfl⟩ := hm
      have := List.mem_zipIdx hy
      exact hp' y (by rw [this.2.2]; exact List.getElem_mem _)) d hdm
    exact this.2.2
  have htab : (List.map (fun d => { d with offset := offsetFor d.ord lots }) (daysOf r.ticker (preprocess l))).map ofDay
      = (table r.ticker l).map (adjCost (fun o => offsetFor o lots)) := by
    rw [table_eq_days r.ticker l hw hd, List.map_map, List.map_map]
    apply List.map_congr_left
    intro d hdm
    simp only [Function.comp]
    rw [ofDay_setOffset d _ (daysOf_offset r.ticker _ d hdm) (hpos d hdm)]
    unfold adjCost
    have : (ofDay d).date.ord = d.ord := rfl
    rw [this]
  rw [htab] at hsp
  exact hsp


end Events

/-- the order in which `process_sell` tries the rules, as the translator reads it on every run (group
    `cascade`): Same Day, then the 30-day rule, then the Section 104 pool — the order `sellStep` models -/
theorem C01_cascade_as_modelled : Cgt.matchCascade = ["same_day", "bed_and_breakfast", "section104"] := by decide

end Cgt.C01
