import CgtModel.Report
import CgtModel.Lemmas.Prefix
import CgtModel.Lemmas.PrepassAppend
import CgtModel.Lemmas.AppendLedger
import CgtModel.Lemmas.WellFormed
import CgtModel.Props.C02
import CgtModel.Props.C04
import CgtModel.Lemmas.YearSlice
import CgtModel.Lemmas.SpecTable
/-! # C12 — figures for earlier years do not change when later transactions are added

Statement: once every transaction up to 30 days after a disposal is present, its legs, costs and gain
are final: appending purchases, sales, splits or dividends dated more than 30 days after it leaves
them unchanged and never turns an accepted ledger into one rejected because of the earlier period
(capital returns and accumulations excluded).

Proved for the model of the main pass (one security, with the cost offsets of the history's purchases
given): `C12_prefix_stable` — if every day of the continuation lies beyond the 30-day window of every
day of the history, running history ++ continuation is: run the history; then run the continuation
from the pool the history left, with no claims carried over. Hence
* `C12_legs_are_a_prefix` — the legs of the history's disposals are exactly those of the history
  alone (same legs, same costs, same gains), followed by the continuation's;
* `C12_rejection_comes_from_the_continuation` — if the history alone is accepted and the extended
  ledger is rejected, the error is the one the continuation produces when run from the history's
  closing pool.
* `C12_offsets_unchanged`, `C12_security_prefix_stable` — the cost pre-pass included: a continuation
  without capital returns / accumulations leaves every offset of the history's purchases unchanged
  (only those events write offsets), so for one security's day list the whole run (pre-pass + main
  pass) of history ++ continuation is the history's run followed by the continuation's, from the
  history's closing pool.
* `C12_ledger_security`, `C12_ledger`, `C12_ledger_refusal` — **from the raw ledger**: for a
  validator-clean ledger `l ++ s` where every line of `s` is dated more than 30 days after every line
  of `l`, preprocessing acts on the two parts separately (`Lemmas/AppendLedger.lean`: the stable sort,
  the fill merge and the BUY coalescing of `l ++ s` are those of `l` followed by those of `s`), every
  security's day list is the history's followed by the later lines' days, and so: if both ledgers are
  accepted, each security without capital events among the later lines keeps exactly the history's
  legs as its first legs; if the history is accepted and the extended ledger refused for such a
  security, the refusal is raised while running days of `s` from the history's closing pool.
  (Line order: `l ++ s` is the appended form the property speaks of; any other order of the same lines
  gives the same day table by C06's permutation theorems.)
* `C12_year_final`, `C12_year_summary_final` — **the report**: with no capital return / accumulation among
  the later lines and none of them dated in tax year `y`, that year's disposals in the extended ledger's
  report are the history's (the same records, up to the order of listing), and its total gains, total
  losses, net gain, dividend income and dividend tax are the same (`slice_unsorted`: the unsorted
  disposal list, security by security, `Lemmas/YearSlice.lean`).
-/
namespace Cgt.C12
open Cgt

theorem C12_prefix_stable (t : String) (w : Int) (ps es : List Day) (hfar : allFar w ps es) :
    runDays t w none (ps ++ es) [] =
      (match runDays t w none ps [] with
       | .error e => .error e
       | .ok (pool1, legs1) =>
         match runDays t w pool1 es [] with
         | .error e => .error e
         | .ok (pool2, legs2) => .ok (pool2, legs1 ++ legs2)) :=
  runDays_append t w es ps none [] hfar (by simp)

theorem C12_legs_are_a_prefix (t : String) (w : Int) (ps es : List Day) (hfar : allFar w ps es)
    (pool1 : Option Pool) (legs1 : List Leg) (h1 : runDays t w none ps [] = .ok (pool1, legs1))
    (pool2 : Option Pool) (legs : List Leg) (h : runDays t w none (ps ++ es) [] = .ok (pool2, legs)) :
    ∃ legs2, legs = legs1 ++ legs2 ∧ runDays t w pool1 es [] = .ok (pool2, legs2) := by
  rw [C12_prefix_stable t w ps es hfar, h1] at h
  simp only at h
  cases h2 : runDays t w pool1 es [] with
  | error e => rw [h2] at h; cases h
  | ok r =>
    obtain ⟨p, l⟩ := r
    rw [h2] at h
    simp only [Except.ok.injEq, Prod.mk.injEq] at h
    obtain ⟨rfl, rfl⟩ := h
    exact ⟨l, rfl, rfl⟩

theorem C12_rejection_comes_from_the_continuation (t : String) (w : Int) (ps es : List Day)
    (hfar : allFar w ps es) (pool1 : Option Pool) (legs1 : List Leg)
    (h1 : runDays t w none ps [] = .ok (pool1, legs1)) (e : MErr)
    (h : runDays t w none (ps ++ es) [] = .error e) : runDays t w pool1 es [] = .error e := by
  rw [C12_prefix_stable t w ps es hfar, h1] at h
  simp only at h
  cases h2 : runDays t w pool1 es [] with
  | error e' => rw [h2] at h; simpa using h
  | ok r => obtain ⟨p, l⟩ := r; rw [h2] at h; cases h

/-- the window constant the hypothesis `allFar` is about is the extracted one -/
theorem window_is_30 : bnbWindowDays = 30 := by decide

-- non-vacuity: a history whose last disposal is followed, 31 days later, by a repurchase
def hist : List Day :=
  [ { date := ⟨2024, 1, 1⟩, buy := some ⟨0, 100, 1, 0⟩ }, { date := ⟨2024, 2, 1⟩, sells := [⟨1, 40, 2, 0⟩] } ]
def cont : List Day := [ { date := ⟨2024, 3, 3⟩, buy := some ⟨2, 40, 3, 0⟩ } ]
example : allFar 30 hist cont := by
  intro d hd
  simp only [hist, List.mem_cons, List.mem_singleton, List.not_mem_nil, or_false] at hd
  rcases hd with rfl | rfl <;> (simp only [farFrom, cont]; decide)

/-! ### with the cost pre-pass -/

theorem farFrom_setOffsets (f : Day → Rat) (w : Int) (d0 : Date) (es : List Day) (h : farFrom w d0 es) :
    farFrom w d0 (C02.setOffsets f es) := by
  cases es with
  | nil => trivial
  | cons e rest => exact h

theorem allFar_setOffsets (f g : Day → Rat) (w : Int) (ps es : List Day) (h : allFar w ps es) :
    allFar w (C02.setOffsets f ps) (C02.setOffsets g es) := by
  intro d hd
  unfold C02.setOffsets at hd
  simp only [List.mem_map] at hd
  obtain ⟨d0, hd0, rfl⟩ := hd
  exact farFrom_setOffsets g w _ es (h d0 hd0)

/-- a continuation without cost events leaves every cost offset as the history alone gives it -/
theorem C12_offsets_unchanged (t : String) (ps es : List Day) (hok : daysOk (ps ++ es)) (hne : noEvents es)
    (lots1 : List Lot) (h1 : prepass t [] ps = .ok lots1) :
    ∃ lots2, prepass t [] (ps ++ es) = .ok lots2 ∧ ∀ o, offsetFor o lots2 = offsetFor o lots1 := by
  have hokps : daysOk ps := by
    clear h1 hne
    induction ps with
    | nil => trivial
    | cons d ps ih => exact ⟨hok.1, ih hok.2⟩
  have hokes : daysOk es := by
    clear h1 hne hokps
    induction ps with
    | nil => exact hok
    | cons d ps ih => exact ih hok.2
  obtain ⟨hinv, _, _⟩ := prepass_props t ps [] lots1 (fun _ hx => by simp at hx) hokps h1
  obtain ⟨lots2, h2, hk⟩ := prepass_noEvents t es lots1 hinv hokes hne
  refine ⟨lots2, ?_, fun o => offsets_after_noEvents t es lots1 lots2 hk o⟩
  rw [prepass_append, h1]; exact h2

/-- **C12 for one security, pre-pass included**: history ++ far-later days without cost events =
    the history's run, then the later days from the pool it left -/
theorem C12_security_prefix_stable (t : String) (w : Int) (ps es : List Day) (hok : daysOk (ps ++ es))
    (hne : noEvents es) (hfar : allFar w ps es) (pool1 : Option Pool) (legs1 : List Leg)
    (h1 : runTicker t w ps = .ok (pool1, legs1)) :
    ∃ f : Day → Rat, runTicker t w (ps ++ es) =
      (match runDays t w pool1 (C02.setOffsets f es) [] with
       | .error e => .error e
       | .ok (pool2, legs2) => .ok (pool2, legs1 ++ legs2)) := by
  unfold runTicker withOffsets at h1
  split at h1
  · cases h1
  · rename_i ds' hw
    split at hw
    · cases hw
    · rename_i lots1 hp1
      simp only [Except.ok.injEq] at hw
      obtain ⟨lots2, hp2, hoff⟩ := C12_offsets_unchanged t ps es hok hne lots1 hp1
      refine ⟨fun d => offsetFor d.ord lots1, ?_⟩
      unfold runTicker withOffsets
      rw [hp2]
      simp only
      have e : List.map (fun d => { d with offset := offsetFor d.ord lots2 }) (ps ++ es)
          = C02.setOffsets (fun d => offsetFor d.ord lots1) ps ++ C02.setOffsets (fun d => offsetFor d.ord lots1) es := by
        simp only [C02.setOffsets, List.map_append, hoff]
      rw [e, C12_prefix_stable t w _ _ (allFar_setOffsets _ _ w ps es hfar)]
      have hps : C02.setOffsets (fun d => offsetFor d.ord lots1) ps = ds' := by rw [← hw]; rfl
      rw [hps, h1]

/-! ### from the raw ledger -/

theorem preprocess_ord_mem (s : List Tx) : ∀ y ∈ preprocess s, ∃ b ∈ s, y.ord = b.ord :=
  preprocess_forall (fun x => ∃ b ∈ s, x.ord = b.ord) (fun _ _ _ _ h => h) (fun _ _ _ _ h => h) s
    (fun x hx => ⟨x, hx, rfl⟩)

theorem daysOf_ord_mem (t : String) (s : List Tx) : ∀ d ∈ daysOf t (preprocess s), ∃ b ∈ s, d.ord = b.ord := by
  intro d hd
  unfold daysOf at hd
  obtain ⟨x, hx, e⟩ := groupDays_ord_mem _ d hd
  have hm : x ∈ indexed (preprocess s) := (List.mem_filter.mp hx).1
  unfold indexed at hm
  simp only [List.mem_map] at hm
  obtain ⟨⟨y, j⟩, hy, rfl⟩ := hm
  have hy' : y ∈ preprocess s := by
    have := List.mem_zipIdx hy
    rw [this.2.2]; exact List.getElem_mem _
  obtain ⟨b, hb, e'⟩ := preprocess_ord_mem s y hy'
  exact ⟨b, hb, by rw [e]; exact e'⟩

theorem preprocess_date_mem (s : List Tx) : ∀ y ∈ preprocess s, ∃ b ∈ s, y.date = b.date :=
  preprocess_forall (fun x => ∃ b ∈ s, x.date = b.date) (fun _ _ _ _ h => h) (fun _ _ _ _ h => h) s
    (fun x hx => ⟨x, hx, rfl⟩)

theorem daysOf_date_mem (t : String) (s : List Tx) : ∀ d ∈ daysOf t (preprocess s), ∃ b ∈ s, d.date = b.date := by
  intro d hd
  unfold daysOf at hd
  obtain ⟨x, hx, e⟩ := groupDays_date_mem _ d hd
  have hm : x ∈ indexed (preprocess s) := (List.mem_filter.mp hx).1
  unfold indexed at hm
  simp only [List.mem_map] at hm
  obtain ⟨⟨y, j⟩, hy, rfl⟩ := hm
  have hy' : y ∈ preprocess s := by
    have := List.mem_zipIdx hy
    rw [this.2.2]; exact List.getElem_mem _
  obtain ⟨b, hb, e'⟩ := preprocess_date_mem s y hy'
  exact ⟨b, hb, by rw [e]; exact e'⟩

/-- **C12 from the raw ledger, one security**: `l` is the history, `s` the lines added later, every one of
    them dated more than 30 days after every line of `l`, none of them a capital return or accumulation of
    security `t`. If the history alone is accepted for `t`, the extended ledger's run for `t` is the
    history's run followed by a run of the later days from the history's closing pool: same legs for the
    history's disposals, and any refusal is raised by the later days.  The days of the later run are dated by lines of `s`. -/
theorem C12_ledger_security_dated (l s : List Tx) (hw : WellFormed (l ++ s))
    (hfar : ∀ a ∈ l, ∀ b ∈ s, b.ord - a.ord > bnbWindowDays) (t : String) (hne : noEventLines t s)
    (pool1 : Option Pool) (legs1 : List Leg)
    (h1 : runTicker t bnbWindowDays (daysOf t (preprocess l)) = .ok (pool1, legs1)) :
    ∃ es : List Day, (∀ d ∈ es, ∃ b ∈ s, d.date = b.date) ∧
      runTicker t bnbWindowDays (daysOf t (preprocess (l ++ s))) =
      (match runDays t bnbWindowDays pool1 es [] with
       | .error e => .error e
       | .ok (pool2, legs2) => .ok (pool2, legs1 ++ legs2)) := by
  have hw30 := window_is_30
  have hlt : ∀ a ∈ l, ∀ b ∈ s, a.ord < b.ord := by
    intro a ha b hb; have := hfar a ha b hb; omega
  have hpre := preprocess_append l s hlt
  have hpne : ∀ a ∈ preprocess l, ∀ b ∈ preprocess s, a.ord ≠ b.ord := by
    intro a ha b hb
    obtain ⟨a0, ha0, ea⟩ := preprocess_ord_mem l a ha
    obtain ⟨b0, hb0, eb⟩ := preprocess_ord_mem s b hb
    have := hlt a0 ha0 b0 hb0
    omega
  have hdays : daysOf t (preprocess (l ++ s)) =
      daysOf t (preprocess l) ++ (daysOf t (preprocess s)).map (Day.shift (preprocess l).length) := by
    rw [hpre]; exact daysOf_append t _ _ hpne
  have hok := (wellFormed_days (l ++ s) hw t).1
  rw [hdays] at hok
  have hnev : noEvents ((daysOf t (preprocess s)).map (Day.shift (preprocess l).length)) := by
    intro d hd
    simp only [List.mem_map] at hd
    obtain ⟨d0, hd0, rfl⟩ := hd
    have := noEvents_of_raw t s hne d0 hd0
    simp [Day.shift, this.1, this.2]
  have hallfar : allFar bnbWindowDays (daysOf t (preprocess l)) ((daysOf t (preprocess s)).map (Day.shift (preprocess l).length)) := by
    intro d hd
    unfold farFrom
    split
    · trivial
    · rename_i e es heq
      have he : e ∈ (daysOf t (preprocess s)).map (Day.shift (preprocess l).length) := by rw [heq]; simp
      simp only [List.mem_map] at he
      obtain ⟨e0, he0, rfl⟩ := he
      obtain ⟨b, hb, eb⟩ := daysOf_ord_mem t s e0 he0
      obtain ⟨a, ha, ea⟩ := daysOf_ord_mem t l d hd
      have := hfar a ha b hb
      rw [Day.shift_ord, eb]
      unfold Day.ord at ea
      rw [ea]
      exact this
  obtain ⟨f, hf⟩ := C12_security_prefix_stable t bnbWindowDays _ _ hok hnev hallfar pool1 legs1 h1
  refine ⟨_, ?_, by rw [hdays]; exact hf⟩
  intro d hd
  unfold C02.setOffsets at hd
  simp only [List.mem_map] at hd
  obtain ⟨d1, ⟨d0, hd0, rfl⟩, rfl⟩ := hd
  obtain ⟨b, hb, eb⟩ := daysOf_date_mem t s d0 hd0
  exact ⟨b, hb, eb⟩


/-- the same with the later days located by ordinal -/
theorem C12_ledger_security (l s : List Tx) (hw : WellFormed (l ++ s))
    (hfar : ∀ a ∈ l, ∀ b ∈ s, b.ord - a.ord > bnbWindowDays) (t : String) (hne : noEventLines t s)
    (pool1 : Option Pool) (legs1 : List Leg)
    (h1 : runTicker t bnbWindowDays (daysOf t (preprocess l)) = .ok (pool1, legs1)) :
    ∃ es : List Day, (∀ d ∈ es, ∃ b ∈ s, d.ord = b.ord) ∧
      runTicker t bnbWindowDays (daysOf t (preprocess (l ++ s))) =
      (match runDays t bnbWindowDays pool1 es [] with
       | .error e => .error e
       | .ok (pool2, legs2) => .ok (pool2, legs1 ++ legs2)) := by
  obtain ⟨es, hd, hes⟩ := C12_ledger_security_dated l s hw hfar t hne pool1 legs1 h1
  refine ⟨es, ?_, hes⟩
  intro d hdm
  obtain ⟨b, hb, e⟩ := hd d hdm
  exact ⟨b, hb, by unfold Day.ord Tx.ord; rw [e]⟩

/-- **C12 at ledger level**: if the history and the extended ledger are both accepted, every security
    of the history for which the later lines carry no capital return / accumulation keeps, in the
    extended ledger's result, exactly the history's legs (same order, quantities, costs, gains) as the
    first legs of that security. -/
theorem C12_ledger (l s : List Tx) (hw : WellFormed (l ++ s))
    (hfar : ∀ a ∈ l, ∀ b ∈ s, b.ord - a.ord > bnbWindowDays)
    (rs1 rs : List TickerResult) (h1 : run bnbWindowDays l = .ok rs1) (h : run bnbWindowDays (l ++ s) = .ok rs) :
    ∀ r1 ∈ rs1, noEventLines r1.ticker s → ∀ r ∈ rs, r.ticker = r1.ticker →
      ∃ legs2, r.legs = r1.legs ++ legs2 := by
  intro r1 hr1 hne r hr ht
  have e1 := C02.run_result bnbWindowDays l rs1 h1 r1 hr1
  have e := C02.run_result bnbWindowDays (l ++ s) rs h r hr
  rw [ht] at e
  obtain ⟨es, _, hes⟩ := C12_ledger_security l s hw hfar r1.ticker hne r1.pool r1.legs e1
  rw [hes] at e
  split at e
  · cases e
  · rename_i pool2 legs2 _
    simp only [Except.ok.injEq, Prod.mk.injEq] at e
    exact ⟨legs2, e.2.symm⟩

/-- … and a refusal of the extended ledger for such a security is raised while running the later days
    from the history's closing pool: never by the history's own period. -/
theorem C12_ledger_refusal (l s : List Tx) (hw : WellFormed (l ++ s))
    (hfar : ∀ a ∈ l, ∀ b ∈ s, b.ord - a.ord > bnbWindowDays) (t : String) (hne : noEventLines t s)
    (pool1 : Option Pool) (legs1 : List Leg)
    (h1 : runTicker t bnbWindowDays (daysOf t (preprocess l)) = .ok (pool1, legs1)) (e : MErr)
    (h : runTicker t bnbWindowDays (daysOf t (preprocess (l ++ s))) = .error e) :
    ∃ es : List Day, (∀ d ∈ es, ∃ b ∈ s, d.ord = b.ord) ∧ runDays t bnbWindowDays pool1 es [] = .error e := by
  obtain ⟨es, hord, hes⟩ := C12_ledger_security l s hw hfar t hne pool1 legs1 h1
  refine ⟨es, hord, ?_⟩
  rw [hes] at h
  split at h
  · rename_i e' he'
    simp only [Except.error.injEq] at h
    rw [he', h]
  · cases h


-- non-vacuity: a history with a 30-day match, later lines 31 days after its last line
def exHist : List Tx :=
  [ ⟨⟨2024, 1, 1⟩, "A", .buy 100 1 0⟩, ⟨⟨2024, 2, 1⟩, "A", .sell 40 2 0⟩, ⟨⟨2024, 2, 10⟩, "A", .buy 10 3 1⟩,
    ⟨⟨2024, 2, 10⟩, "B", .accumulation 5 2 0⟩ ]
def exLater : List Tx :=
  [ ⟨⟨2024, 3, 12⟩, "A", .buy 40 3 0⟩, ⟨⟨2024, 3, 12⟩, "A", .split 2⟩, ⟨⟨2024, 5, 1⟩, "A", .sell 30 2 0⟩,
    ⟨⟨2024, 6, 1⟩, "B", .capreturn 5 1 0⟩ ]
example : WellFormed (exHist ++ exLater) ∧ (∀ a ∈ exHist, ∀ b ∈ exLater, b.ord - a.ord > bnbWindowDays) ∧
    noEventLines "A" exLater ∧ ¬ noEventLines "B" exLater := by decide +kernel


/-! ### the report: a finished tax year stays as it was -/

/-- the legs the model gives security `t` in ledger `L` (none when its run is refused) -/
def legsOf (L : List Tx) (t : String) : List Leg :=
  match runTicker t bnbWindowDays (daysOf t (preprocess L)) with
  | .ok (_, legs) => legs
  | .error _ => []

theorem legs_eq_legsOf (L : List Tx) (rs : List TickerResult) (h : run bnbWindowDays L = .ok rs) :
    ∀ r ∈ rs, r.legs = legsOf L r.ticker := by
  intro r hr
  have := C02.run_result bnbWindowDays L rs h r hr
  unfold legsOf; rw [this]

/-- the disposals of an accepted run before sorting, security by security in order of first appearance -/
theorem disposals_by_ticker (dp : Nat) (L : List Tx) (rs : List TickerResult) (h : run bnbWindowDays L = .ok rs) :
    (rs.map (fun r => groupLegs dp r.ticker r.legs)).flatten
      = (tickersOf (preprocess L)).flatMap (fun t => groupLegs dp t (legsOf L t)) := by
  have e : rs.map (fun r => groupLegs dp r.ticker r.legs) = (rs.map (·.ticker)).map (fun t => groupLegs dp t (legsOf L t)) := by
    rw [List.map_map]
    apply List.map_congr_left
    intro r hr
    simp only [Function.comp, legs_eq_legsOf L rs h r hr]
  rw [e, run_tickers bnbWindowDays L rs h, List.flatMap_def]


/-- one security's slice of the disposals under a date predicate that no later line satisfies -/
theorem slice_security (dp : Nat) (l s : List Tx) (hw : WellFormed (l ++ s))
    (hfar : ∀ a ∈ l, ∀ b ∈ s, b.ord - a.ord > bnbWindowDays) (t : String) (hne : noEventLines t s)
    (pool1 : Option Pool) (legs1 : List Leg)
    (h1 : runTicker t bnbWindowDays (daysOf t (preprocess l)) = .ok (pool1, legs1))
    (pool : Option Pool) (legs : List Leg)
    (h2 : runTicker t bnbWindowDays (daysOf t (preprocess (l ++ s))) = .ok (pool, legs))
    (p : Date → Bool) (hp : ∀ b ∈ s, p b.date = false) :
    (groupLegs dp t legs).filter (fun d => p d.date) = (groupLegs dp t legs1).filter (fun d => p d.date) := by
  obtain ⟨es, hdate, hes⟩ := C12_ledger_security_dated l s hw hfar t hne pool1 legs1 h1
  rw [hes] at h2
  split at h2
  · cases h2
  · rename_i pool2 legs2 hrd
    simp only [Except.ok.injEq, Prod.mk.injEq] at h2
    rw [← h2.2]
    apply groupLegs_append_filter
    intro x hx
    obtain ⟨d, hd, e⟩ := runDays_sellDate t bnbWindowDays es pool1 pool2 [] legs2 hrd x hx
    obtain ⟨b, hb, eb⟩ := hdate d hd
    rw [e, eb]
    exact hp b hb

theorem runTicker_nil (t : String) (w : Int) : runTicker t w [] = .ok (none, []) := by
  simp [runTicker, withOffsets, prepass, runDays]

theorem mem_tickers_run (L : List Tx) (rs : List TickerResult) (h : run bnbWindowDays L = .ok rs) (t : String)
    (ht : t ∈ tickersOf (preprocess L)) :
    ∃ pool legs, runTicker t bnbWindowDays (daysOf t (preprocess L)) = .ok (pool, legs) ∧ legsOf L t = legs := by
  rw [← run_tickers bnbWindowDays L rs h] at ht
  simp only [List.mem_map] at ht
  obtain ⟨r, hr, rfl⟩ := ht
  have := C02.run_result bnbWindowDays L rs h r hr
  exact ⟨r.pool, r.legs, this, by unfold legsOf; rw [this]⟩

/-- **the slice of the unsorted disposal list**: under a date predicate no later line satisfies, the
    extended ledger's disposals are the history's -/
theorem slice_unsorted (dp : Nat) (l s : List Tx) (hw : WellFormed (l ++ s))
    (hfar : ∀ a ∈ l, ∀ b ∈ s, b.ord - a.ord > bnbWindowDays) (hne : ∀ t, noEventLines t s)
    (rs1 rs : List TickerResult) (h1 : run bnbWindowDays l = .ok rs1) (h : run bnbWindowDays (l ++ s) = .ok rs)
    (p : Date → Bool) (hp : ∀ b ∈ s, p b.date = false) :
    ((rs.map (fun r => groupLegs dp r.ticker r.legs)).flatten).filter (fun d => p d.date)
      = ((rs1.map (fun r => groupLegs dp r.ticker r.legs)).flatten).filter (fun d => p d.date) := by
  have hlt : ∀ a ∈ l, ∀ b ∈ s, a.ord < b.ord := by
    intro a ha b hb; have := hfar a ha b hb; have := window_is_30; omega
  rw [disposals_by_ticker dp (l ++ s) rs h, disposals_by_ticker dp l rs1 h1, List.filter_flatMap, List.filter_flatMap]
  have hT : tickersOf (preprocess (l ++ s)) = tickersOf (preprocess l) ++
      (((preprocess s).map (·.ticker)).removeAll ((preprocess l).map (·.ticker))).eraseDups := by
    rw [preprocess_append l s hlt]
    unfold tickersOf
    rw [List.map_append, List.eraseDups_append]
  have hmem : ∀ t ∈ tickersOf (preprocess (l ++ s)), ∃ pool legs,
      runTicker t bnbWindowDays (daysOf t (preprocess (l ++ s))) = .ok (pool, legs) ∧ legsOf (l ++ s) t = legs :=
    mem_tickers_run (l ++ s) rs h
  rw [hT] at hmem ⊢
  rw [List.flatMap_append]
  have hA : (tickersOf (preprocess l)).flatMap (fun t => (groupLegs dp t (legsOf (l ++ s) t)).filter (fun d => p d.date))
      = (tickersOf (preprocess l)).flatMap (fun t => (groupLegs dp t (legsOf l t)).filter (fun d => p d.date)) := by
    rw [List.flatMap_def, List.flatMap_def]
    congr 1
    apply List.map_congr_left
    intro t ht
    obtain ⟨pool1, legs1, r1, e1⟩ := mem_tickers_run l rs1 h1 t ht
    obtain ⟨pool, legs, r2, e2⟩ := hmem t (by simp [ht])
    rw [e1, e2]
    exact slice_security dp l s hw hfar t (hne t) pool1 legs1 r1 pool legs r2 p hp
  have hB : ((((preprocess s).map (·.ticker)).removeAll ((preprocess l).map (·.ticker))).eraseDups).flatMap
      (fun t => (groupLegs dp t (legsOf (l ++ s) t)).filter (fun d => p d.date)) = [] := by
    rw [List.flatMap_eq_nil_iff]
    intro t ht
    obtain ⟨pool, legs, r2, e2⟩ := hmem t (by simp [ht])
    have hnot : ∀ x ∈ preprocess l, x.ticker ≠ t := by
      rw [List.mem_eraseDups] at ht
      have := (List.mem_filter.mp ht).2
      intro x hx e
      have hx' : t ∈ (preprocess l).map (·.ticker) := List.mem_map.mpr ⟨x, hx, e⟩
      simp [hx'] at this
    have r1 : runTicker t bnbWindowDays (daysOf t (preprocess l)) = .ok (none, []) := by
      rw [daysOf_absent t _ hnot]; exact runTicker_nil t _
    rw [e2, slice_security dp l s hw hfar t (hne t) none [] r1 pool legs r2 p hp]
    rfl
  rw [hA, hB, List.append_nil]


theorem rsum_perm {a b : List Rat} (h : a.Perm b) : rsum a = rsum b := by
  induction h with
  | nil => rfl
  | cons x _ ih => simp only [rsum_cons, ih]
  | swap x y l => simp only [rsum_cons]; grind
  | trans _ _ ih1 ih2 => rw [ih1, ih2]

/-- a year's totals do not depend on the order in which its disposals are listed -/
theorem totals_perm {a b : List Disposal} (h : a.Perm b) : totals a = totals b := by
  have ha := C04.C04_totals a
  have hb := C04.C04_totals b
  have e1 := rsum_perm (h.map (fun d => C04.posPart d.netGain))
  have e2 := rsum_perm (h.map (fun d => C04.negPart d.netGain))
  apply Prod.ext
  · rw [ha.1, hb.1, e1]
  · rw [ha.2, hb.2, e2]

theorem dividends_of_history (l s : List Tx) (y : Int) (hy : ∀ b ∈ s, inYear y b.date = false) :
    dividendsOf (l ++ s) y = dividendsOf l y := by
  have : s.filter (isDivIn y) = [] := by
    rw [List.filter_eq_nil_iff]
    intro b hb
    unfold isDivIn
    split
    · rw [hy b hb]; simp
    · simp
  unfold dividendsOf
  rw [List.filter_append, this, List.append_nil]

/-- **C12 at report level — a finished tax year stays as it was.** `l` is the history, `s` the lines added
    later: each dated more than 30 days after every line of `l`, none of them a capital return or an
    accumulation (the property's exclusion), none of them dated in tax year `y`. If the history and the
    extended ledger are both accepted, then in the extended ledger's report tax year `y` lists the same
    disposals as in the history's (the same `Disposal` records: date, security, quantity, proceeds, legs
    with their rules, costs and gains), its total gains and total losses are the same, and so are its
    dividend income and dividend tax. -/
theorem C12_year_final (dp : Nat) (l s : List Tx) (hw : WellFormed (l ++ s))
    (hfar : ∀ a ∈ l, ∀ b ∈ s, b.ord - a.ord > bnbWindowDays) (hne : ∀ t, noEventLines t s)
    (rs1 rs : List TickerResult) (h1 : run bnbWindowDays l = .ok rs1) (h : run bnbWindowDays (l ++ s) = .ok rs)
    (y : Int) (hy : ∀ b ∈ s, inYear y b.date = false) :
    ((allDisposals dp rs).filter (fun d => inYear y d.date)).Perm ((allDisposals dp rs1).filter (fun d => inYear y d.date)) ∧
    totals ((allDisposals dp rs).filter (fun d => inYear y d.date)) = totals ((allDisposals dp rs1).filter (fun d => inYear y d.date)) ∧
    dividendsOf (l ++ s) y = dividendsOf l y := by
  have hs := slice_unsorted dp l s hw hfar hne rs1 rs h1 h (inYear y) hy
  have hperm : ((allDisposals dp rs).filter (fun d => inYear y d.date)).Perm ((allDisposals dp rs1).filter (fun d => inYear y d.date)) := by
    unfold allDisposals
    refine ((List.mergeSort_perm _ _).filter _).trans ?_
    rw [hs]
    exact ((List.mergeSort_perm _ _).filter _).symm
  exact ⟨hperm, totals_perm hperm, dividends_of_history l s y hy⟩

/-- … and so the year's summary: whatever exemption table is in force, tax year `y`'s summary in the
    extended ledger's report carries the same total gain, total loss, net gain, exemption, dividend income
    and dividend tax as in the history's report, over the same disposals. -/
theorem C12_year_summary_final (dp : Nat) (ex : List (Int × Rat)) (l s : List Tx) (hw : WellFormed (l ++ s))
    (hfar : ∀ a ∈ l, ∀ b ∈ s, b.ord - a.ord > bnbWindowDays) (hne : ∀ t, noEventLines t s)
    (rs1 rs : List TickerResult) (h1 : run bnbWindowDays l = .ok rs1) (h : run bnbWindowDays (l ++ s) = .ok rs)
    (y : Int) (hy : ∀ b ∈ s, inYear y b.date = false) (sm1 sm : YearSummary)
    (e1 : mkSummary ex l y ((allDisposals dp rs1).filter (fun d => inYear y d.date)) = .ok sm1)
    (e : mkSummary ex (l ++ s) y ((allDisposals dp rs).filter (fun d => inYear y d.date)) = .ok sm) :
    sm.totalGain = sm1.totalGain ∧ sm.totalLoss = sm1.totalLoss ∧ sm.netGain = sm1.netGain ∧
    sm.exempt = sm1.exempt ∧ sm.divIncome = sm1.divIncome ∧ sm.divTax = sm1.divTax ∧
    sm.disposals.Perm sm1.disposals := by
  obtain ⟨hperm, htot, hdiv⟩ := C12_year_final dp l s hw hfar hne rs1 rs h1 h y hy
  unfold mkSummary at e1 e
  cases hx : lookupExemption ex y with
  | none => rw [hx] at e1; cases e1
  | some a =>
    rw [hx] at e1 e
    simp only [Except.ok.injEq] at e1 e
    subst e1; subst e
    simp only [htot, hdiv]
    exact ⟨trivial, trivial, trivial, trivial, trivial, trivial, hperm⟩


-- non-vacuity: a history in 2022/23 with a 30-day match, later lines (a purchase, a split, a sale, a new
-- security) from 80 days on, all in 2023/24; both ledgers accepted
def exHist2 : List Tx :=
  [ ⟨⟨2023, 1, 1⟩, "A", .buy 100 1 0⟩, ⟨⟨2023, 2, 1⟩, "A", .sell 40 2 0⟩, ⟨⟨2023, 2, 10⟩, "A", .buy 10 3 1⟩,
    ⟨⟨2023, 2, 10⟩, "A", .dividend 7 1⟩ ]
def exLater2 : List Tx :=
  [ ⟨⟨2023, 5, 1⟩, "A", .buy 40 3 0⟩, ⟨⟨2023, 5, 1⟩, "A", .split 2⟩, ⟨⟨2023, 6, 1⟩, "A", .sell 30 2 0⟩,
    ⟨⟨2023, 6, 1⟩, "C", .buy 5 1 0⟩, ⟨⟨2023, 6, 2⟩, "A", .dividend 3 0⟩ ]
example : WellFormed (exHist2 ++ exLater2) ∧ (∀ a ∈ exHist2, ∀ b ∈ exLater2, b.ord - a.ord > bnbWindowDays) ∧
    (∀ b ∈ exLater2, inYear 2022 b.date = false) ∧ (∀ b ∈ exLater2, b.op.isEvent = false) ∧
    (∃ b ∈ exHist2, inYear 2022 b.date = true) := by decide +kernel
-- both ledgers are accepted (evaluated, not kernel-checked: the run sorts and compares strings)
#guard (run bnbWindowDays exHist2).toBool && (run bnbWindowDays (exHist2 ++ exLater2)).toBool
example : ∀ t, noEventLines t exLater2 := by
  intro t x hx _
  have : ∀ b ∈ exLater2, b.op.isEvent = false := by decide
  exact this x hx


end Cgt.C12
