import CgtModel.Report
import CgtModel.Lemmas.Usage
import CgtModel.Lemmas.Sorted
import CgtModel.Lemmas.WellFormed
import CgtModel.Lemmas.Conserve
import CgtModel.Props.Formulas
/-! # C02 — shares are conserved

Statement (properties.jsonl): for every accepted ledger and security, (a) the legs of each disposal
add up to exactly the quantity sold that day; (b) the shares matched against any one day's
acquisitions (same-day plus 30-day legs, in that day's units) never exceed what was acquired that
day; (c) the closing holding equals all acquisitions minus all disposals, rescaled by the splits and
unsplits that fall between them.

Proved here, for every day list (any length, any quantities, any split factors):
* `C02_legs_sum`, `C02_closing_holding` — (a) and (c) at full strength for the model of the matcher;
* `C02_acquisition_not_overused_partial` — (b) in the form the code maintains it: on every
  acquisition day, Same-Day legs plus the look-ahead claims outstanding on that day's purchase never
  exceed the purchase, and every claim is bounded by what the day's own disposals leave over
  (`claimsOk`); `lookahead_accounts` shows the claims a disposal adds equal its 30-day legs (converted
  by the split factors between). What is *not* proved is the per-acquisition-day regrouping of the
  30-day legs by acquisition date (that needs distinctness of day dates); the correspondence check
  evaluates that regrouped inequality on the implementation's output for every case instead.
-/
namespace Cgt.C02
open Cgt

def prodR : List Day → Rat
  | [] => 1
  | d :: ds => d.r * prodR ds

/-- Σ_j (B_j − S_j) · Π_{m ≥ j} r_m : acquisitions minus disposals, each rescaled by the split factors
    from its own day to the end -/
def rescaledNet : List Day → Rat
  | [] => 0
  | d :: ds => (d.B - d.S) * prodR (d :: ds) + rescaledNet ds

theorem netPos_eq (ds : List Day) : ∀ p : Rat, netPos p ds = p * prodR ds + rescaledNet ds := by
  induction ds with
  | nil => intro p; simp [netPos, prodR, rescaledNet]; grind
  | cons d ds ih => intro p; simp only [netPos, prodR, rescaledNet]; rw [ih]; grind

/-- days as the main pass sees them: the pre-pass only writes cost offsets -/
def setOffsets (f : Day → Rat) (ds : List Day) : List Day := ds.map (fun d => { d with offset := f d })

theorem daysOk_setOffsets (f : Day → Rat) : ∀ ds, daysOk ds → daysOk (setOffsets f ds)
  | [], _ => trivial
  | d :: ds, h => ⟨h.1, daysOk_setOffsets f ds h.2⟩

theorem netPos_setOffsets (f : Day → Rat) : ∀ ds p, netPos p (setOffsets f ds) = netPos p ds
  | [], _ => rfl
  | d :: ds, p => by
    simp only [setOffsets, List.map_cons, netPos]
    exact netPos_setOffsets f ds _

theorem DayLegs_setOffsets (f : Day → Rat) : ∀ ds legs, DayLegs (setOffsets f ds) legs → DayLegs ds legs := by
  intro ds
  induction ds with
  | nil => intro legs h; cases h; exact DayLegs.nil
  | cons d ds ih =>
    intro legs h
    simp only [setOffsets, List.map_cons] at h
    cases h with
    | cons _ _ ls rest h1 h2 h3 h4 => exact DayLegs.cons d ds ls rest h1 h2 h3 (ih rest h4)

theorem withOffsets_shape (t : String) (ds ds' : List Day) (h : withOffsets t ds = .ok ds') :
    ∃ f, ds' = setOffsets f ds := by
  unfold withOffsets at h
  split at h
  · cases h
  · rename_i lots _
    simp only [Except.ok.injEq] at h
    exact ⟨fun d => offsetFor d.ord lots, h.symm⟩

/-- (a), (b′) and (c) for one security -/
theorem ticker_conserves (t : String) (w : Int) (ds : List Day) (pool : Option Pool) (legs : List Leg)
    (hok : daysOk ds) (h : runTicker t w ds = .ok (pool, legs)) :
    DayLegs ds legs ∧ poolQ' pool = rescaledNet ds ∧ 0 ≤ poolQ' pool := by
  unfold runTicker at h
  split at h
  · cases h
  · rename_i ds' hw
    obtain ⟨f, rfl⟩ := withOffsets_shape t ds ds' hw
    have hok' := daysOk_setOffsets f ds hok
    have sp := runDays_spec t w (setOffsets f ds) none [] pool legs hok'
      (by simp [poolQ']) (claimsOk_nil _ hok') h
    obtain ⟨s1, s2, s3⟩ := sp
    refine ⟨DayLegs_setOffsets f ds legs s3, ?_, s2⟩
    rw [s1, outK_nil, netPos_setOffsets, netPos_eq]
    simp [poolQ']; grind

/-- every result of the all-securities run is the single-security run on that security's days -/
theorem run_result (w : Int) (l : List Tx) (rs : List TickerResult) (h : run w l = .ok rs) :
    ∀ r ∈ rs, runTicker r.ticker w (daysOf r.ticker (preprocess l)) = .ok (r.pool, r.legs) := by
  unfold run runPre at h
  simp only at h
  split at h
  · cases h
  · simp only [Except.ok.injEq] at h
    subst h
    intro r hr
    simp only [List.mem_filterMap, List.mem_map] at hr
    obtain ⟨⟨t, res⟩, ⟨t', _, heq⟩, hres⟩ := hr
    simp only [Prod.mk.injEq] at heq
    obtain ⟨rfl, rfl⟩ := heq
    split at hres
    · rename_i pool legs hrun
      simp only [Option.some.injEq] at hres
      subst hres
      exact hrun
    · cases hres

/-- legs of one block of `DayLegs`: (a) -/
def C02_statement_a (ds : List Day) (legs : List Leg) : Prop := DayLegs ds legs

/-- **C02 (a)+(b′)**: for every accepted ledger and every security, the leg list is one block per
    day of that security, each block dated that day, adding up to exactly the quantity sold that day,
    with non-negative leg quantities and a Same-Day part no larger than the day's purchase. -/
theorem C02_legs_sum (w : Int) (l : List Tx) (rs : List TickerResult) (h : run w l = .ok rs) :
    ∀ r ∈ rs, daysOk (daysOf r.ticker (preprocess l)) →
      DayLegs (daysOf r.ticker (preprocess l)) r.legs :=
  fun r hr hok => (ticker_conserves r.ticker w _ r.pool r.legs hok (run_result w l rs h r hr)).1

/-- **C02 (c)**: the closing holding is Σ (acquired − sold), each rescaled by the split factors from
    its day to the end; it is never negative. -/
theorem C02_closing_holding (w : Int) (l : List Tx) (rs : List TickerResult) (h : run w l = .ok rs) :
    ∀ r ∈ rs, daysOk (daysOf r.ticker (preprocess l)) →
      poolQ' r.pool = rescaledNet (daysOf r.ticker (preprocess l)) ∧ 0 ≤ poolQ' r.pool :=
  fun r hr hok => (ticker_conserves r.ticker w _ r.pool r.legs hok (run_result w l rs h r hr)).2

/-- **C02 (a)+(b′)+(c) from the raw ledger**: for every ledger whose lines pass the validator's
    sign conditions (`WellFormed`: positive quantities and ratios, non-negative prices and fees) and
    which the matcher accepts, every security's legs form one block per day adding up to the quantity
    sold that day, and the closing holding is the split-rescaled net position, never negative.
    No hypothesis on intermediate data remains. -/
theorem C02_ledger (w : Int) (l : List Tx) (hwf : WellFormed l) (rs : List TickerResult)
    (h : run w l = .ok rs) :
    ∀ r ∈ rs, DayLegs (daysOf r.ticker (preprocess l)) r.legs ∧
      poolQ' r.pool = rescaledNet (daysOf r.ticker (preprocess l)) ∧ 0 ≤ poolQ' r.pool := by
  intro r hr
  have hok := (wellFormed_days l hwf r.ticker).1
  exact ⟨C02_legs_sum w l rs h r hr hok, C02_closing_holding w l rs h r hr hok⟩

/-- **C02 (b), partial**: invariant of the main pass — whenever a day is processed, Same-Day legs plus
    the claims earlier disposals hold on its purchase fit into the purchase; claims stay within what
    the day's own disposals leave over; the pool never goes negative. -/
theorem C02_acquisition_not_overused_partial (t : String) (w : Int) (pool : Option Pool) (d : Day)
    (claimed : Rat) (future : List Day) (cl : List Rat) (pool' : Option Pool) (cl' : List Rat)
    (legs : List Leg) (hd : d.ok) (hpos : ratiosPos future) (hp : 0 ≤ poolQ' pool)
    (hc0 : 0 ≤ claimed) (hc1 : claimed + min d.B (max d.S 0) ≤ d.B) (hc : claimsOk future cl)
    (h : dayStep t w pool d claimed future cl = .ok (pool', cl', legs)) :
    sdQty legs + claimed ≤ d.B ∧ claimsOk future cl' ∧ 0 ≤ poolQ' pool' := by
  have := dayStep_spec t w pool d claimed future cl pool' cl' legs hd hpos hp hc0 hc1 hc h
  exact ⟨this.2.2.1, this.2.2.2.2.1, this.2.2.2.1⟩

/-- the reservation error of the BUY stage is unreachable under the invariant -/
theorem C02_reservation_never_exceeds (t : String) (d : Day) (claimed : Rat)
    (hc1 : claimed + min d.B (max d.S 0) ≤ d.B) (hB : 0 ≤ d.B) :
    ∃ a, buyStage t d claimed = .ok a := by
  unfold buyStage
  cases hb : d.buy with
  | none => exact ⟨0, rfl⟩
  | some b =>
    have hBq : d.B = b.q := by simp [Day.B, hb]
    have : ¬ claimed > b.q := by grind
    exact ⟨b.q - claimed, by simp [this]⟩

-- non-vacuity: a concrete accepted day list with a split between a disposal and its 30-day purchase
def exDays : List Day :=
  [ { date := ⟨2024, 1, 1⟩, buy := some ⟨0, 100, 1, 0⟩ },
    { date := ⟨2024, 2, 1⟩, sells := [⟨1, 10, 5, 0⟩] },
    { date := ⟨2024, 2, 5⟩, buy := some ⟨3, 20, 1, 0⟩, r := 2 } ]

def isOk : Except ε α → Bool | .ok _ => true | .error _ => false

example : isOk (runTicker "A" 30 exDays) = true := by decide +kernel
example : daysOk exDays := by
  refine ⟨⟨?_, ?_, ?_⟩, ⟨?_, ?_, ?_⟩, ⟨?_, ?_, ?_⟩, trivial⟩ <;> first | decide +kernel | (intro s hs; simp [exDays] at hs; try (subst hs); decide +kernel)
example : rescaledNet exDays = 220 := by decide +kernel

end Cgt.C02

namespace Cgt.C02
-- non-vacuity of `WellFormed`: a ledger with a same-day pair, a 30-day repurchase, a split and fees
def exLedger : List Tx :=
  [ ⟨⟨2024, 1, 1⟩, "A", .buy 100 2 5⟩, ⟨⟨2024, 2, 1⟩, "A", .sell 40 3 1⟩, ⟨⟨2024, 2, 1⟩, "A", .buy 10 (5/2) 0⟩,
    ⟨⟨2024, 2, 10⟩, "A", .split 2⟩, ⟨⟨2024, 2, 20⟩, "A", .buy 30 1 2⟩, ⟨⟨2024, 3, 1⟩, "B", .buy 1 1 0⟩ ]
example : WellFormed exLedger := by decide +kernel
end Cgt.C02

namespace Cgt.C02

theorem factorBetween_setOffsets (f : Day → Rat) (a b : Int) : ∀ ds, factorBetween a b (setOffsets f ds) = factorBetween a b ds
  | [] => rfl
  | d :: ds => by
    simp only [setOffsets, List.map_cons, factorBetween] at *
    rw [show (List.map (fun d => { d with offset := f d }) ds) = setOffsets f ds from rfl, factorBetween_setOffsets f a b ds]
    rfl

theorem bbUse_setOffsets (f : Day → Rat) (ds : List Day) (e : Day) (legs : List Leg) :
    bbUse (setOffsets f ds) e legs = bbUse ds e legs := by
  unfold bbUse
  congr 1
  apply List.map_congr_left
  intro x _
  rw [factorBetween_setOffsets]

/-- **C02 (b) in full, from the raw ledger**: for every validator-clean ledger the matcher accepts,
    every security and every day with a purchase: that day's Same-Day legs plus all 30-day legs of
    earlier disposals identified with it — each rescaled by the split factors between the disposal
    and the purchase — use no more than the quantity purchased -/
theorem C02_no_acquisition_overused (w : Int) (l : List Tx) (hwf : WellFormed l) (rs : List TickerResult)
    (h : run w l = .ok rs) :
    ∀ r ∈ rs, ∀ e ∈ daysOf r.ticker (preprocess l),
      sdUse e r.legs + bbUse (daysOf r.ticker (preprocess l)) e r.legs ≤ e.B := by
  intro r hr e he
  have hrun := run_result w l rs h r hr
  unfold runTicker at hrun
  split at hrun
  · cases hrun
  · rename_i ds' hw
    obtain ⟨f, rfl⟩ := withOffsets_shape r.ticker _ ds' hw
    have hs : (setOffsets f (daysOf r.ticker (preprocess l))).Pairwise (fun a b => a.ord < b.ord) := by
      unfold setOffsets; rw [List.pairwise_map]; exact daysOf_strict l r.ticker
    have hok := daysOk_setOffsets f _ (wellFormed_days l hwf r.ticker).1
    have hmem : ({ e with offset := f e } : Day) ∈ setOffsets f (daysOf r.ticker (preprocess l)) := by
      unfold setOffsets; exact List.mem_map_of_mem he
    have := no_acquisition_overused r.ticker w _ hs hok r.pool r.legs hrun _ hmem
    rw [bbUse_setOffsets] at this
    exact this

end Cgt.C02
