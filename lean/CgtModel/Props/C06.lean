import CgtModel.Report
import CgtModel.Props.C02
import CgtModel.Lemmas.SpecPerm
import CgtModel.Lemmas.SpecTable
import CgtModel.Props.C01
import CgtModel.Props.C13
import CgtModel.Props.Formulas
/-! # C06 — the report does not depend on line order, file split or fill splitting

Full statement: permuting the input lines, distributing them over files, or recording one trade as
several same-day fills with the same total quantity, consideration and fees yields the same report.

Proved here (partial — what is missing is listed at the end):
* `C06_sort_is_permutation`, `C06_sort_sorted` — the matcher's first step only reorders: the sorted
  list is a permutation of the input and ascending by date, so everything after it sees the same
  multiset of lines per day whatever the input order;
* `C06_merge_value` — merging fills preserves total quantity, total consideration (quantity × price)
  and total fees, in whichever order they are merged (`mergeTrade` is the only place where fills meet);
* `C06_merge_assoc_value` — merging (a then b) then c and a then (b then c) give the same totals;
* `C06_day_add_comm` — within a day, lines of different kinds commute: the day record does not depend
  on how BUY, SELL, SPLIT and cost-event lines interleave;
* `C06_run_factors` — the whole run depends on the input only through the per-security day lists
  `daysOf t (preprocess l)`.
* `C06_statute_permutation_invariant`, `C06_statute_fill_invariant` — the independent statutory
  evaluation (`Spec`, the oracle C01 compares the real matcher with on every run) is invariant under
  every permutation of the input lines, for every ledger with valid dates, and absorbs two same-day
  fills exactly as the one trade with the same total quantity, consideration and fees.
* `C06_ledger_perm`, `C06_ledger_fills` — **for the matcher model, from the raw ledger** (through C01's
  `C01_ledger_raw`, matcher = `Spec`): two orders of the same lines, or a purchase recorded as two
  same-day fills, both ledgers validator-clean with valid dates and accepted: every security without
  capital events whose SELL lines fall on different days has the same legs (rule, quantity, allowable
  cost, acquisition date, in order) and the same closing pool.
Not proved: the same for securities with capital events or with several SELL lines on one day (there the
leg partition does follow line adjacency: known finding D17), and SELL fills at ledger level (two SELL
lines on a day leave the class; at `Spec` level they are covered by `C06_statute_fill_invariant`). The
check exercises all of it on the real code: every generated ledger is re-run under random permutations,
random fill splittings and real multi-file CLI partitions and the reports are compared.
-/
namespace Cgt.C06
open Cgt Spec

theorem C06_sort_is_permutation (l : List Tx) : (sortByDate l).Perm l := List.mergeSort_perm l _

theorem C06_sort_sorted (l : List Tx) : (sortByDate l).Pairwise (fun a b => a.ord ≤ b.ord) := by
  have := List.pairwise_mergeSort (le := fun (a b : Tx) => decide (a.ord ≤ b.ord))
    (fun a b c hab hbc => by simp only [decide_eq_true_eq] at *; omega)
    (fun a b => by simp only [Bool.or_eq_true, decide_eq_true_eq]; omega) l
  unfold sortByDate
  exact this.imp (fun h => by simpa using h)

/-- merging two fills: quantity, consideration and fees add -/
theorem C06_merge_value (q p f q' p' f' : Rat) (h : q + q' ≠ 0) :
    let m := mergeTrade q p f q' p' f'
    m.1 = q + q' ∧ m.1 * m.2.1 = q * p + q' * p' ∧ m.2.2 = f + f' := by
  unfold mergeTrade
  simp only [h, ne_eq, not_false_eq_true, if_true]
  refine ⟨trivial, ?_, trivial⟩
  grind

/-- …and symmetrically in the two fills -/
theorem C06_merge_comm_value (q p f q' p' f' : Rat) (h : q + q' ≠ 0) :
    let a := mergeTrade q p f q' p' f'
    let b := mergeTrade q' p' f' q p f
    a.1 = b.1 ∧ a.1 * a.2.1 = b.1 * b.2.1 ∧ a.2.2 = b.2.2 := by
  have h' : q' + q ≠ 0 := by grind
  have ha := C06_merge_value q p f q' p' f' h
  have hb := C06_merge_value q' p' f' q p f h'
  simp only at ha hb ⊢
  refine ⟨by grind, by grind, by grind⟩

theorem C06_merge_assoc_value (q1 p1 f1 q2 p2 f2 q3 p3 f3 : Rat)
    (h12 : q1 + q2 ≠ 0) (h23 : q2 + q3 ≠ 0) (h : q1 + q2 + q3 ≠ 0) :
    let a := mergeTrade q1 p1 f1 q2 p2 f2
    let ab := mergeTrade a.1 a.2.1 a.2.2 q3 p3 f3
    let b := mergeTrade q2 p2 f2 q3 p3 f3
    let ba := mergeTrade q1 p1 f1 b.1 b.2.1 b.2.2
    ab.1 = ba.1 ∧ ab.1 * ab.2.1 = ba.1 * ba.2.1 ∧ ab.2.2 = ba.2.2 := by
  have ha := C06_merge_value q1 p1 f1 q2 p2 f2 h12
  have hb := C06_merge_value q2 p2 f2 q3 p3 f3 h23
  simp only at ha hb ⊢
  have hab := C06_merge_value (mergeTrade q1 p1 f1 q2 p2 f2).1 (mergeTrade q1 p1 f1 q2 p2 f2).2.1
    (mergeTrade q1 p1 f1 q2 p2 f2).2.2 q3 p3 f3 (by rw [ha.1]; exact h)
  have hba := C06_merge_value q1 p1 f1 (mergeTrade q2 p2 f2 q3 p3 f3).1 (mergeTrade q2 p2 f2 q3 p3 f3).2.1
    (mergeTrade q2 p2 f2 q3 p3 f3).2.2 (by rw [hb.1]; grind)
  simp only at hab hba
  refine ⟨by grind, by grind, by grind⟩

def Op.isTrade : Op → Bool | .buy .. => true | .sell .. => true | _ => false

/-- a SPLIT/UNSPLIT, cost-event or dividend line commutes with any BUY line inside a day record -/
theorem C06_day_add_comm (d : Day) (i j : Nat) (q p f : Rat) (op : Op)
    (h : match op with | .buy .. => False | _ => True) :
    (d.add i (.buy q p f)).add j op = (d.add j op).add i (.buy q p f) := by
  cases op <;> simp only [Day.add] at h ⊢ <;> (try exact absurd h id) <;> (cases d.buy <;> rfl)

/-- the run is a function of the per-security day lists -/
theorem C06_run_factors (w : Int) (l l' : List Tx)
    (ht : tickersOf (preprocess l) = tickersOf (preprocess l'))
    (hd : ∀ t, daysOf t (preprocess l) = daysOf t (preprocess l')) : run w l = run w l' := by
  unfold run runPre
  simp only [ht, hd]

/-- **the statutory evaluation depends only on the set of lines**: for every ledger whose dates are
    valid (all the parser lets through) and every permutation of its lines, every security's legs,
    costs, gains and closing holding under s105/s106A/s104 are the same -/
theorem C06_statute_permutation_invariant (w : Int) (l l' : List Tx) (hp : l.Perm l') (hd : Spec.DatesOk l)
    (ticker : String) : Spec.identify w ticker l = Spec.identify w ticker l' :=
  Spec.identify_perm w ticker l l' hp hd

/-- … and a trade recorded as two same-day fills with the same total quantity, consideration
    (quantity × price) and fees is absorbed into the day exactly as the single trade -/
theorem C06_statute_fill_invariant (d : Spec.SDay) (q1 p1 f1 q2 p2 f2 q p f : Rat)
    (hq : q1 + q2 = q) (hc : q1 * p1 + q2 * p2 = q * p) (hf : f1 + f2 = f) :
    (d.absorb (.buy q1 p1 f1)).absorb (.buy q2 p2 f2) = d.absorb (.buy q p f) ∧
    (d.absorb (.sell q1 p1 f1)).absorb (.sell q2 p2 f2) = d.absorb (.sell q p f) :=
  ⟨Spec.absorb_fills_buy d q1 p1 f1 q2 p2 f2 q p f hq hc hf, Spec.absorb_fills_sell d q1 p1 f1 q2 p2 f2 q p f hq hc hf⟩

-- non-vacuity: two orders of a three-line ledger
example : Spec.DatesOk [⟨⟨2024, 2, 29⟩, "A", .buy 10 2 1⟩, ⟨⟨2024, 3, 1⟩, "A", .sell 4 3 0⟩] := by
  intro t ht
  simp only [List.mem_cons, List.mem_nil_iff, or_false] at ht
  rcases ht with rfl | rfl <;> exact Date.ok_of_valid _ (by decide) (by decide)

/-! ### the matcher model, from the raw ledger -/

theorem wellFormed_perm (l l' : List Tx) (hp : l.Perm l') (h : WellFormed l) : WellFormed l' :=
  fun t ht => h t (hp.mem_iff.mpr ht)

theorem datesOk_perm (l l' : List Tx) (hp : l.Perm l') (h : Spec.DatesOk l) : Spec.DatesOk l' :=
  fun t ht => h t (hp.mem_iff.mpr ht)

theorem noEventLines_perm (t : String) (l l' : List Tx) (hp : l.Perm l') (h : noEventLines t l) : noEventLines t l' :=
  fun x hx => h x (hp.mem_iff.mpr hx)

theorem oneSellPerDay_perm (t : String) (l l' : List Tx) (hp : l.Perm l') (h : oneSellPerDay t l) : oneSellPerDay t l' := by
  unfold oneSellPerDay sellOrds at *
  exact ((List.Perm.flatMap_right (so t) hp).nodup_iff).mp h

/-- **C06 for the matcher model, from the raw ledger**: two orders of the same lines (any permutation:
    shuffled lines, lines dealt over several files and concatenated), validator-clean, valid dates, both
    accepted: every security without capital events whose SELL lines fall on different days has the same
    legs (rule, quantity, allowable cost, acquisition date, in order) and the same closing pool. -/
theorem C06_ledger_perm (l l' : List Tx) (hp : l.Perm l') (hw : WellFormed l) (hd : Spec.DatesOk l)
    (rs rs' : List TickerResult) (h : run bnbWindowDays l = .ok rs) (h' : run bnbWindowDays l' = .ok rs') :
    ∀ r ∈ rs, ∀ r' ∈ rs', r'.ticker = r.ticker → noEventLines r.ticker l → oneSellPerDay r.ticker l →
      r'.legs.map legView = r.legs.map legView ∧ poolQ' r'.pool = poolQ' r.pool ∧ poolC' r'.pool = poolC' r.pool := by
  intro r hr r' hr' ht hne hone
  have c := C01.C01_ledger_raw l hw hd rs h r hr hne hone
  have c' := C01.C01_ledger_raw l' (wellFormed_perm l l' hp hw) (datesOk_perm l l' hp hd) rs' h' r' hr'
    (ht ▸ noEventLines_perm r.ticker l l' hp hne) (ht ▸ oneSellPerDay_perm r.ticker l l' hp hone)
  simp only at c c'
  rw [ht, ← Spec.identify_perm bnbWindowDays r.ticker l l' hp hd] at c'
  exact ⟨by rw [c'.2.2, c.2.2], by rw [← c'.1, ← c.1], by rw [← c'.2.1, ← c.2.1]⟩


theorem table_fills (ticker t : String) (D : Date) (q1 p1 f1 q2 p2 f2 q p f : Rat)
    (hq : q1 + q2 = q) (hc : q1 * p1 + q2 * p2 = q * p) (hf : f1 + f2 = f) (l0 : List Tx) :
    table ticker (l0 ++ [⟨D, t, .buy q1 p1 f1⟩, ⟨D, t, .buy q2 p2 f2⟩]) = table ticker (l0 ++ [⟨D, t, .buy q p f⟩]) := by
  rw [table_eq_insFold, table_eq_insFold, insFold_append, insFold_append]
  by_cases h : t = ticker
  · subst h
    simp only [insFold_cons, if_true]
    show Spec.insert _ (Spec.insert _ _) = Spec.insert _ _
    exact insert_pair ⟨D, t, .buy q1 p1 f1⟩ ⟨D, t, .buy q2 p2 f2⟩ ⟨D, t, .buy q p f⟩ rfl rfl
      (fun d => Spec.absorb_fills_buy d q1 p1 f1 q2 p2 f2 q p f hq hc hf) _
  · simp only [insFold_cons, h, if_false]

/-- **… and a purchase recorded as two same-day fills** with the same total quantity, consideration and
    fees (at the end of the ledger; any other position by `C06_ledger_perm`): same legs, same closing pool -/
theorem C06_ledger_fills (t : String) (D : Date) (q1 p1 f1 q2 p2 f2 q p f : Rat)
    (hq : q1 + q2 = q) (hc : q1 * p1 + q2 * p2 = q * p) (hf : f1 + f2 = f) (l0 : List Tx)
    (hw : WellFormed (l0 ++ [⟨D, t, .buy q p f⟩])) (hd : Spec.DatesOk (l0 ++ [⟨D, t, .buy q p f⟩]))
    (hw' : WellFormed (l0 ++ [⟨D, t, .buy q1 p1 f1⟩, ⟨D, t, .buy q2 p2 f2⟩]))
    (rs rs' : List TickerResult) (h : run bnbWindowDays (l0 ++ [⟨D, t, .buy q p f⟩]) = .ok rs)
    (h' : run bnbWindowDays (l0 ++ [⟨D, t, .buy q1 p1 f1⟩, ⟨D, t, .buy q2 p2 f2⟩]) = .ok rs') :
    ∀ r ∈ rs, ∀ r' ∈ rs', r'.ticker = r.ticker →
      noEventLines r.ticker (l0 ++ [⟨D, t, .buy q p f⟩]) → oneSellPerDay r.ticker (l0 ++ [⟨D, t, .buy q p f⟩]) →
      r'.legs.map legView = r.legs.map legView ∧ poolQ' r'.pool = poolQ' r.pool ∧ poolC' r'.pool = poolC' r.pool := by
  intro r hr r' hr' ht hne hone
  have hd' : Spec.DatesOk (l0 ++ [⟨D, t, .buy q1 p1 f1⟩, ⟨D, t, .buy q2 p2 f2⟩]) := by
    intro x hx
    simp only [List.mem_append, List.mem_cons, List.mem_nil_iff, or_false] at hx
    rcases hx with hx | rfl | rfl
    · exact hd x (by simp [hx])
    · exact hd ⟨D, t, .buy q p f⟩ (by simp)
    · exact hd ⟨D, t, .buy q p f⟩ (by simp)
  have hne' : noEventLines r.ticker (l0 ++ [⟨D, t, .buy q1 p1 f1⟩, ⟨D, t, .buy q2 p2 f2⟩]) := by
    intro x hx
    simp only [List.mem_append, List.mem_cons, List.mem_nil_iff, or_false] at hx
    rcases hx with hx | rfl | rfl
    · exact hne x (by simp [hx])
    · intro _; rfl
    · intro _; rfl
  have hone' : oneSellPerDay r.ticker (l0 ++ [⟨D, t, .buy q1 p1 f1⟩, ⟨D, t, .buy q2 p2 f2⟩]) := by
    unfold oneSellPerDay at hone ⊢
    rw [sellOrds_append] at hone ⊢
    have e1 : sellOrds r.ticker [⟨D, t, .buy q p f⟩] = [] := by simp [sellOrds, so, Op.isSell]
    have e2 : sellOrds r.ticker [⟨D, t, .buy q1 p1 f1⟩, ⟨D, t, .buy q2 p2 f2⟩] = [] := by simp [sellOrds, so, Op.isSell]
    rw [e2]; rw [e1] at hone; exact hone
  have c := C01.C01_ledger_raw _ hw hd rs h r hr hne hone
  have c' := C01.C01_ledger_raw _ hw' hd' rs' h' r' hr' (ht ▸ hne') (ht ▸ hone')
  simp only at c c'
  have hid : Spec.identify bnbWindowDays r.ticker (l0 ++ [⟨D, t, .buy q1 p1 f1⟩, ⟨D, t, .buy q2 p2 f2⟩])
      = Spec.identify bnbWindowDays r.ticker (l0 ++ [⟨D, t, .buy q p f⟩]) := by
    unfold Spec.identify
    rw [table_fills r.ticker t D q1 p1 f1 q2 p2 f2 q p f hq hc hf l0]
  rw [ht, hid] at c'
  exact ⟨by rw [c'.2.2, c.2.2], by rw [← c'.1, ← c.1], by rw [← c'.2.1, ← c.2.1]⟩


/-- **lines dealt over several input files**: the CLI joins the files' texts with a line feed (translator
    group `cli_join`), and the joined text parses to the concatenation of the files' transaction lists
    (`C13.parse_joined_files`), whatever the last line of a file looks like; which file a line sits in
    therefore only decides its position in the list, and `C06_ledger_perm` covers every such position -/
theorem C06_files_are_one_list (valid : List String) (a b : List Char) :
    C13.okList valid (a ++ '\n' :: b) = (match C13.okList valid a, C13.okList valid b with
      | some x, some y => some (x ++ y)
      | _, _ => none) ∧ Cgt.cliFileJoin = "\n" :=
  ⟨C13.parse_joined_files valid a b, C13.C13_files_joined_by_line_feed⟩

end Cgt.C06
