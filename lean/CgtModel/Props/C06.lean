import CgtModel.Report
import CgtModel.Props.C02
import CgtModel.Lemmas.SpecPerm
import CgtModel.Lemmas.SpecTable
/-! # C06 — the report does not depend on line order, file split or fill splitting

Full statement: permuting the input lines, distributing them over files, or recording one trade as
several same-day fills with the same total quantity, consideration and fees yields the same report.

Proved here (partial — what is missing is listed at the end):
* `C06_sort_is_permutation`, `C06_sort_sorted` — the matcher's first step only reorders: the sorted
  list is a permutation of the input and ascending by date, so everything after it sees the same
  multiset of lines per day whatever the input order;
* `C06_merge_value` — merging fills preserves total quantity, total consideration (quantity × price)
  and total fees, in whichever order they are merged (`mergeTrade` is the only place where fills meet);
* `C06_merge_assoc_value` — merging (a then b) then c and a then (b then c) give the same totals;
* `C06_day_add_comm` — within a day, lines of different kinds commute: the day record does not depend
  on how BUY, SELL, SPLIT and cost-event lines interleave;
* `C06_run_factors` — the whole run depends on the input only through the per-security day lists
  `daysOf t (preprocess l)`.
* `C06_statute_permutation_invariant`, `C06_statute_fill_invariant` — the independent statutory
  evaluation (`Spec`, the oracle C01 compares the real matcher with on every run) is invariant under
  every permutation of the input lines, for every ledger with valid dates, and absorbs two same-day
  fills exactly as the one trade with the same total quantity, consideration and fees. Together
  with C01's equality "matcher = Spec" (evaluated on the real code, not proved) this is the
  property; what remains unproved is that equality, not the invariance.
Not proved: that `daysOf t (preprocess l)` is invariant under permutation of `l` (stable sort +
adjacent merge + coalescing + grouping commute with permutation up to the order of same-day SELL
lines). The check exercises exactly that on the real code: every generated ledger is re-run under
random permutations and random fill splittings and the reports are compared.
-/
namespace Cgt.C06
open Cgt

theorem C06_sort_is_permutation (l : List Tx) : (sortByDate l).Perm l := List.mergeSort_perm l _

theorem C06_sort_sorted (l : List Tx) : (sortByDate l).Pairwise (fun a b => a.ord ≤ b.ord) := by
  have := List.pairwise_mergeSort (le := fun (a b : Tx) => decide (a.ord ≤ b.ord))
    (fun a b c hab hbc => by simp only [decide_eq_true_eq] at *; omega)
    (fun a b => by simp only [Bool.or_eq_true, decide_eq_true_eq]; omega) l
  unfold sortByDate
  exact this.imp (fun h => by simpa using h)

/-- merging two fills: quantity, consideration and fees add -/
theorem C06_merge_value (q p f q' p' f' : Rat) (h : q + q' ≠ 0) :
    let m := mergeTrade q p f q' p' f'
    m.1 = q + q' ∧ m.1 * m.2.1 = q * p + q' * p' ∧ m.2.2 = f + f' := by
  unfold mergeTrade
  simp only [h, ne_eq, not_false_eq_true, if_true]
  refine ⟨trivial, ?_, trivial⟩
  grind

/-- …and symmetrically in the two fills -/
theorem C06_merge_comm_value (q p f q' p' f' : Rat) (h : q + q' ≠ 0) :
    let a := mergeTrade q p f q' p' f'
    let b := mergeTrade q' p' f' q p f
    a.1 = b.1 ∧ a.1 * a.2.1 = b.1 * b.2.1 ∧ a.2.2 = b.2.2 := by
  have h' : q' + q ≠ 0 := by grind
  have ha := C06_merge_value q p f q' p' f' h
  have hb := C06_merge_value q' p' f' q p f h'
  simp only at ha hb ⊢
  refine ⟨by grind, by grind, by grind⟩

theorem C06_merge_assoc_value (q1 p1 f1 q2 p2 f2 q3 p3 f3 : Rat)
    (h12 : q1 + q2 ≠ 0) (h23 : q2 + q3 ≠ 0) (h : q1 + q2 + q3 ≠ 0) :
    let a := mergeTrade q1 p1 f1 q2 p2 f2
    let ab := mergeTrade a.1 a.2.1 a.2.2 q3 p3 f3
    let b := mergeTrade q2 p2 f2 q3 p3 f3
    let ba := mergeTrade q1 p1 f1 b.1 b.2.1 b.2.2
    ab.1 = ba.1 ∧ ab.1 * ab.2.1 = ba.1 * ba.2.1 ∧ ab.2.2 = ba.2.2 := by
  have ha := C06_merge_value q1 p1 f1 q2 p2 f2 h12
  have hb := C06_merge_value q2 p2 f2 q3 p3 f3 h23
  simp only at ha hb ⊢
  have hab := C06_merge_value (mergeTrade q1 p1 f1 q2 p2 f2).1 (mergeTrade q1 p1 f1 q2 p2 f2).2.1
    (mergeTrade q1 p1 f1 q2 p2 f2).2.2 q3 p3 f3 (by rw [ha.1]; exact h)
  have hba := C06_merge_value q1 p1 f1 (mergeTrade q2 p2 f2 q3 p3 f3).1 (mergeTrade q2 p2 f2 q3 p3 f3).2.1
    (mergeTrade q2 p2 f2 q3 p3 f3).2.2 (by rw [hb.1]; grind)
  simp only at hab hba
  refine ⟨by grind, by grind, by grind⟩

def Op.isTrade : Op → Bool | .buy .. => true | .sell .. => true | _ => false

/-- a SPLIT/UNSPLIT, cost-event or dividend line commutes with any BUY line inside a day record -/
theorem C06_day_add_comm (d : Day) (i j : Nat) (q p f : Rat) (op : Op)
    (h : match op with | .buy .. => False | _ => True) :
    (d.add i (.buy q p f)).add j op = (d.add j op).add i (.buy q p f) := by
  cases op <;> simp only [Day.add] at h ⊢ <;> (try exact absurd h id) <;> (cases d.buy <;> rfl)

/-- the run is a function of the per-security day lists -/
theorem C06_run_factors (w : Int) (l l' : List Tx)
    (ht : tickersOf (preprocess l) = tickersOf (preprocess l'))
    (hd : ∀ t, daysOf t (preprocess l) = daysOf t (preprocess l')) : run w l = run w l' := by
  unfold run runPre
  simp only [ht, hd]

/-- **the statutory evaluation depends only on the set of lines**: for every ledger whose dates are
    valid (all the parser lets through) and every permutation of its lines, every security's legs,
    costs, gains and closing holding under s105/s106A/s104 are the same -/
theorem C06_statute_permutation_invariant (w : Int) (l l' : List Tx) (hp : l.Perm l') (hd : Spec.DatesOk l)
    (ticker : String) : Spec.identify w ticker l = Spec.identify w ticker l' :=
  Spec.identify_perm w ticker l l' hp hd

/-- … and a trade recorded as two same-day fills with the same total quantity, consideration
    (quantity × price) and fees is absorbed into the day exactly as the single trade -/
theorem C06_statute_fill_invariant (d : Spec.SDay) (q1 p1 f1 q2 p2 f2 q p f : Rat)
    (hq : q1 + q2 = q) (hc : q1 * p1 + q2 * p2 = q * p) (hf : f1 + f2 = f) :
    (d.absorb (.buy q1 p1 f1)).absorb (.buy q2 p2 f2) = d.absorb (.buy q p f) ∧
    (d.absorb (.sell q1 p1 f1)).absorb (.sell q2 p2 f2) = d.absorb (.sell q p f) :=
  ⟨Spec.absorb_fills_buy d q1 p1 f1 q2 p2 f2 q p f hq hc hf, Spec.absorb_fills_sell d q1 p1 f1 q2 p2 f2 q p f hq hc hf⟩

-- non-vacuity: two orders of a three-line ledger
example : Spec.DatesOk [⟨⟨2024, 2, 29⟩, "A", .buy 10 2 1⟩, ⟨⟨2024, 3, 1⟩, "A", .sell 4 3 0⟩] := by
  intro t ht
  simp only [List.mem_cons, List.mem_nil_iff, or_false] at ht
  rcases ht with rfl | rfl <;> exact Date.ok_of_valid _ (by decide) (by decide)

end Cgt.C06
