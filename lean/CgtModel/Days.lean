import CgtModel.Normalize
/-! One security's preprocessed transactions, grouped into calendar days.
    Each day keeps: the day's BUY (one after `coalesceBuys`), its SELL lines in order, the product of
    its split factors, its accumulation amounts and capital-return net amounts in line order.
    `offset` is filled in by the cost pre-pass. -/
namespace Cgt

structure Trade where
  idx : Nat
  q : Rat
  p : Rat
  f : Rat
deriving DecidableEq, Repr, Inhabited

structure Day where
  date : Date
  buy : Option Trade := none
  sells : List Trade := []
  r : Rat := 1
  accs : List Rat := []
  caps : List (Nat × Rat) := []
  offset : Rat := 0
deriving DecidableEq, Repr, Inhabited

def Day.ord (d : Day) : Int := d.date.ord
def Day.B (d : Day) : Rat := match d.buy with | some b => b.q | none => 0
def Day.S (d : Day) : Rat := rsum (d.sells.map (·.q))

/-- factor by which a SPLIT/UNSPLIT multiplies share counts (`UNSPLIT 0` is skipped by the code) -/
def splitFactor : Op → Rat
  | .split r => r
  | .unsplit r => if r ≠ 0 then 1 / r else 1
  | _ => 1

def Day.add (d : Day) (idx : Nat) (op : Op) : Day :=
  match op with
  | .buy q p f =>
    match d.buy with
    | none => { d with buy := some ⟨idx, q, p, f⟩ }
    | some b =>
      let m := mergeTrade b.q b.p b.f q p f
      { d with buy := some ⟨b.idx, m.1, m.2.1, m.2.2⟩ }
  | .sell q p f => { d with sells := d.sells ++ [⟨idx, q, p, f⟩] }
  | .split _ | .unsplit _ => { d with r := d.r * splitFactor op }
  | .accumulation _ v _ => { d with accs := d.accs ++ [v] }
  | .capreturn _ v f => { d with caps := d.caps ++ [(idx, v - f)] }
  | .dividend _ _ => d

/-- same-day merge; `a` holds earlier lines than `b` -/
def Day.merge (a b : Day) : Day :=
  { date := a.date
    buy := match a.buy, b.buy with
      | some x, some y =>
        let m := mergeTrade x.q x.p x.f y.q y.p y.f
        some ⟨x.idx, m.1, m.2.1, m.2.2⟩
      | some x, none => some x
      | none, y => y
    sells := a.sells ++ b.sells
    r := a.r * b.r
    accs := a.accs ++ b.accs
    caps := a.caps ++ b.caps }

/-- group an indexed, date-sorted list of one ticker's transactions into days -/
def groupDays : List (Nat × Tx) → List Day
  | [] => []
  | (i, t) :: rest =>
    match groupDays rest with
    | [] => [({ date := t.date } : Day).add i t.op]
    | d :: ds =>
      if d.ord = t.ord then
        -- `t` precedes everything already in `d`: rebuild the day in line order
        ((({ date := t.date } : Day).add i t.op).merge d) :: ds
      else ({ date := t.date } : Day).add i t.op :: d :: ds

def indexed (l : List Tx) : List (Nat × Tx) := l.zipIdx.map (fun (t, i) => (i, t))

/-- days of ticker `t` in a preprocessed list (indices are positions in that list) -/
def daysOf (t : String) (pre : List Tx) : List Day :=
  groupDays ((indexed pre).filter (fun it => it.2.ticker = t))

/-- tickers in order of first appearance -/
def tickersOf (l : List Tx) : List String := (l.map (·.ticker)).eraseDups

end Cgt
