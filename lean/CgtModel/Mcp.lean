/-! The MCP server's request/response discipline as a transition system: requests are received,
    handled concurrently, and completed in any order. Ids are natural numbers. -/
namespace Cgt.Mcp

inductive Ev
  | recv (id : Nat)
  | complete (id : Nat)
deriving DecidableEq, Repr

structure Srv where
  received : List Nat := []
  inflight : List Nat := []
  answered : List Nat := []
deriving Repr

def step (s : Srv) : Ev → Srv
  | .recv id =>
    if id ∈ s.received then s   -- a client must not reuse an id; the model ignores a reuse
    else { s with received := s.received ++ [id], inflight := s.inflight ++ [id] }
  | .complete id =>
    if id ∈ s.inflight then { s with inflight := s.inflight.erase id, answered := s.answered ++ [id] }
    else s

def run (s : Srv) (evs : List Ev) : Srv := evs.foldl step s

/-- what holds in every reachable state -/
structure Inv (s : Srv) : Prop where
  nodup_recv : s.received.Nodup
  nodup_in : s.inflight.Nodup
  nodup_ans : s.answered.Nodup
  disjoint : ∀ id, id ∈ s.inflight → id ∉ s.answered
  cover : ∀ id, id ∈ s.received ↔ (id ∈ s.inflight ∨ id ∈ s.answered)

end Cgt.Mcp
