//! Generators for DSL-level properties: transactions with arbitrary-scale decimals and currencies,
//! layout rendering, wire encodings for the Lean DSL model.
use crate::rng::Rng;
use cgt_core::{Currency, CurrencyAmount, Operation, Transaction};
use chrono::{Datelike, NaiveDate};
use rust_decimal::Decimal;

pub const CODES: &[&str] = &["GBP", "USD", "EUR", "JPY", "CHF", "AUD", "CAD", "SEK", "NOK", "DKK", "XTS", "XXX", "BHD", "KWD", "CLF", "TND"];

pub fn hex6(s: &str) -> String {
    s.chars().map(|c| format!("{:06x}", c as u32)).collect()
}
pub fn unhex6(s: &str) -> String {
    (0..s.len() / 6).filter_map(|i| u32::from_str_radix(&s[i * 6..i * 6 + 6], 16).ok().and_then(char::from_u32)).collect()
}

pub fn gen_decimal(r: &mut Rng, allow_zero: bool) -> Decimal {
    // an exact zero where the grammar allows one (a gift at price 0, a worthless disposal, a zero total)
    if allow_zero && r.chance(1, 12) { return Decimal::ZERO; }
    let scale = match r.below(6) { 0 => 0, 1 => 2, 2 => r.below(5) as u32, 3 => r.below(29) as u32, _ => r.below(3) as u32 };
    let mant: i128 = match r.below(8) {
        0 => r.range(1, 9) as i128,
        1 => (r.next() as i128) % 1_000_000_000_000,
        2 => ((r.next() as i128) << 32 | r.next() as i128) % 79_228_162_514_264_337_593_543_950_335i128,
        _ => r.range(1, 10_000_000) as i128,
    };
    let mant = if mant == 0 && !allow_zero { 1 } else { mant };
    Decimal::from_i128_with_scale(mant.abs(), scale)
}

pub fn gen_ticker(r: &mut Rng) -> String {
    match r.below(8) {
        0 => "SELL".to_string(),
        1 => "10".to_string(),
        2 => "TAX".to_string(),
        3 => "BRKB".to_string(),
        4 => format!("X{}", r.below(1000)),
        _ => (*r.pick(crate::ledger::TICKERS)).to_string(),
    }
}

/// every code the tool's currency type accepts (all three-letter words tried once): withdrawn and
/// superseded codes, funds, metals and test codes included
pub fn all_codes() -> &'static [Currency] {
    static ALL: std::sync::OnceLock<Vec<Currency>> = std::sync::OnceLock::new();
    ALL.get_or_init(|| {
        let mut v = Vec::new();
        for a in b'A'..=b'Z' { for b in b'A'..=b'Z' { for c in b'A'..=b'Z' {
            let w = [a, b, c];
            if let Some(cur) = std::str::from_utf8(&w).ok().and_then(Currency::from_code) { v.push(cur); }
        } } }
        v
    })
}

pub fn gen_amount(r: &mut Rng, allow_zero: bool) -> CurrencyAmount {
    let cur = match r.below(6) {
        0..=2 => Currency::GBP,
        3 => *r.pick(all_codes()),
        _ => Currency::from_code(*r.pick(CODES)).expect("iso"),
    };
    CurrencyAmount::new(gen_decimal(r, allow_zero), cur)
}

pub fn gen_date(r: &mut Rng) -> NaiveDate {
    match r.below(6) {
        0 => NaiveDate::from_ymd_opt(2024, 2, 29).expect("d"),
        1 => NaiveDate::from_ymd_opt(1, 1, 1).expect("d"),
        2 => NaiveDate::from_ymd_opt(9999, 12, 31).expect("d"),
        _ => NaiveDate::from_ymd_opt(2000 + r.below(40) as i32, 1 + r.below(12) as u32, 1 + r.below(28) as u32).expect("d"),
    }
}

/// a DSL-expressible transaction: alphanumeric ticker, positive quantities/ratios, non-negative amounts
pub fn gen_tx(r: &mut Rng) -> Transaction {
    let zero_opt = |r: &mut Rng| -> CurrencyAmount { if r.chance(1, 3) { CurrencyAmount::new(Decimal::ZERO, Currency::GBP) } else { gen_amount(r, true) } };
    let operation = match r.below(7) {
        0 => Operation::Buy { amount: gen_decimal(r, false), price: gen_amount(r, true), fees: zero_opt(r) },
        1 => Operation::Sell { amount: gen_decimal(r, false), price: gen_amount(r, true), fees: zero_opt(r) },
        2 => Operation::Dividend { total_value: gen_amount(r, true), tax_paid: zero_opt(r) },
        3 => Operation::Accumulation { amount: gen_decimal(r, false), total_value: gen_amount(r, true), tax_paid: zero_opt(r) },
        4 => Operation::CapReturn { amount: gen_decimal(r, false), total_value: gen_amount(r, true), fees: zero_opt(r) },
        5 => Operation::Split { ratio: gen_decimal(r, false) },
        _ => Operation::Unsplit { ratio: gen_decimal(r, false) },
    };
    Transaction { date: gen_date(r), ticker: gen_ticker(r), operation }
}

pub fn amt_wire(a: &CurrencyAmount) -> String { format!("{}:{}", a.amount, a.code()) }

pub fn tx_wire(t: &Transaction) -> String {
    let d = format!("{}-{}-{}", t.date.year(), t.date.month(), t.date.day());
    let body = match &t.operation {
        Operation::Buy { amount, price, fees } => format!("B,{},{},{}", amount, amt_wire(price), amt_wire(fees)),
        Operation::Sell { amount, price, fees } => format!("S,{},{},{}", amount, amt_wire(price), amt_wire(fees)),
        Operation::Dividend { total_value, tax_paid } => format!("D,{},{},0", amt_wire(total_value), amt_wire(tax_paid)),
        Operation::Accumulation { amount, total_value, tax_paid } => format!("A,{},{},{}", amount, amt_wire(total_value), amt_wire(tax_paid)),
        Operation::CapReturn { amount, total_value, fees } => format!("C,{},{},{}", amount, amt_wire(total_value), amt_wire(fees)),
        Operation::Split { ratio } => format!("X,{},0,0", ratio),
        Operation::Unsplit { ratio } => format!("U,{},0,0", ratio),
    };
    format!("{d},{},{body}", t.ticker)
}

/// the normal form a zero optional clause takes after a DSL round trip (currency label lost)
pub fn drop_zero_label(t: &Transaction) -> Transaction {
    let z = |a: &CurrencyAmount| if a.amount.is_zero() { CurrencyAmount::new(Decimal::ZERO, Currency::GBP) } else { a.clone() };
    let operation = match &t.operation {
        Operation::Buy { amount, price, fees } => Operation::Buy { amount: *amount, price: price.clone(), fees: z(fees) },
        Operation::Sell { amount, price, fees } => Operation::Sell { amount: *amount, price: price.clone(), fees: z(fees) },
        Operation::Dividend { total_value, tax_paid } => Operation::Dividend { total_value: total_value.clone(), tax_paid: z(tax_paid) },
        Operation::Accumulation { amount, total_value, tax_paid } => Operation::Accumulation { amount: *amount, total_value: total_value.clone(), tax_paid: z(tax_paid) },
        Operation::CapReturn { amount, total_value, fees } => Operation::CapReturn { amount: *amount, total_value: total_value.clone(), fees: z(fees) },
        o => o.clone(),
    };
    Transaction { date: t.date, ticker: t.ticker.clone(), operation }
}

fn recase(s: &str, r: &mut Rng) -> String {
    s.chars().map(|c| if r.chance(1, 2) { c.to_ascii_lowercase() } else { c.to_ascii_uppercase() }).collect()
}
fn ws(r: &mut Rng) -> String {
    let n = 1 + r.below(3);
    (0..n).map(|_| if r.chance(1, 4) { '\t' } else { ' ' }).collect()
}

/// one transaction in a random layout; `tokens` are returned for the corruption stream
pub fn render_tokens(t: &Transaction, r: &mut Rng) -> Vec<String> {
    let mut tok: Vec<String> = vec![t.date.format("%Y-%m-%d").to_string()];
    let money = |a: &CurrencyAmount, r: &mut Rng, tok: &mut Vec<String>| {
        tok.push(a.amount.to_string());
        if !(a.is_gbp() && r.chance(1, 2)) { tok.push(recase(a.code(), r)); }
    };
    let opt = |kw: &str, a: &CurrencyAmount, r: &mut Rng, tok: &mut Vec<String>| {
        if a.amount.is_zero() && a.is_gbp() && r.chance(2, 3) { return; }
        tok.push(recase(kw, r));
        tok.push(a.amount.to_string());
        if !(a.is_gbp() && r.chance(1, 2)) { tok.push(recase(a.code(), r)); }
    };
    match &t.operation {
        Operation::Buy { amount, price, fees } | Operation::Sell { amount, price, fees } => {
            tok.push(recase(if matches!(t.operation, Operation::Buy { .. }) { "BUY" } else { "SELL" }, r));
            tok.push(recase(&t.ticker, r)); tok.push(amount.to_string()); tok.push("@".into());
            money(price, r, &mut tok); opt("FEES", fees, r, &mut tok);
        }
        Operation::Dividend { total_value, tax_paid } => {
            tok.push(recase("DIVIDEND", r)); tok.push(recase(&t.ticker, r)); tok.push(recase("TOTAL", r));
            money(total_value, r, &mut tok); opt("TAX", tax_paid, r, &mut tok);
        }
        Operation::Accumulation { amount, total_value, tax_paid } => {
            tok.push(recase("ACCUMULATION", r)); tok.push(recase(&t.ticker, r)); tok.push(amount.to_string()); tok.push(recase("TOTAL", r));
            money(total_value, r, &mut tok); opt("TAX", tax_paid, r, &mut tok);
        }
        Operation::CapReturn { amount, total_value, fees } => {
            tok.push(recase("CAPRETURN", r)); tok.push(recase(&t.ticker, r)); tok.push(amount.to_string()); tok.push(recase("TOTAL", r));
            money(total_value, r, &mut tok); opt("FEES", fees, r, &mut tok);
        }
        Operation::Split { ratio } | Operation::Unsplit { ratio } => {
            tok.push(recase(if matches!(t.operation, Operation::Split { .. }) { "SPLIT" } else { "UNSPLIT" }, r));
            tok.push(recase(&t.ticker, r)); tok.push(recase("RATIO", r)); tok.push(ratio.to_string());
        }
    }
    tok
}

pub fn join_tokens(tok: &[String], r: &mut Rng) -> String {
    let mut s = String::new();
    if r.chance(1, 5) { s.push_str(&ws(r)); }
    for (i, t) in tok.iter().enumerate() {
        if i > 0 {
            // "@" needs no space after it; everything else is separated by at least one blank
            let glue = tok[i - 1] == "@" && r.chance(1, 3);
            if !glue { s.push_str(&ws(r)); }
        }
        s.push_str(t);
    }
    s
}

pub struct Rendered {
    pub text: String,
    /// 1-based line number of each transaction
    pub tx_lines: Vec<usize>,
    pub lines: Vec<String>,
    pub eols: Vec<&'static str>,
}

/// a whole file: blank lines, comment lines, trailing comments, LF/CRLF/CR per line, optional final newline
pub fn render_file(txs: &[Transaction], r: &mut Rng, trailing_comments: bool) -> Rendered {
    let mut lines: Vec<String> = Vec::new();
    let mut tx_lines = Vec::new();
    for t in txs {
        while r.chance(1, 5) {
            lines.push(match r.below(3) { 0 => String::new(), 1 => ws(r), _ => format!("{}# note {} BUY X 1 @ 2", if r.chance(1, 2) { ws(r) } else { String::new() }, r.below(100)) });
        }
        let tok = render_tokens(t, r);
        let mut line = join_tokens(&tok, r);
        if r.chance(1, 6) { line.push_str(&ws(r)); }
        if trailing_comments && r.chance(1, 4) { if r.chance(2, 3) { line.push_str(&ws(r)); } line.push_str("# trailing FEES 3 note"); }
        lines.push(line);
        tx_lines.push(lines.len());
    }
    if r.chance(1, 4) { lines.push("# end".into()); }
    let mut text = String::new();
    let mut eols = Vec::new();
    let uniform = if r.chance(1, 2) { Some(*r.pick(&["\n", "\r\n", "\r"])) } else { None };
    for (i, l) in lines.iter().enumerate() {
        text.push_str(l);
        let last = i + 1 == lines.len();
        if !last || r.chance(1, 2) {
            let e = uniform.unwrap_or_else(|| *r.pick(&["\n", "\r\n", "\r"]));
            text.push_str(e);
            eols.push(e);
        }
    }
    Rendered { text, tx_lines, lines, eols }
}
