//! What a run covered, what it found; written as JSON for ./check to merge with the proof side.
use serde_json::{Value, json};
use std::collections::{BTreeMap, BTreeSet};

#[derive(Clone, Debug)]
pub struct Violation {
    /// "oracle" (the property fails on the implementation's own output),
    /// "correspondence" (implementation and model differ on the property's projection),
    /// "crash"
    pub kind: String,
    pub what: String,
    /// replay file content (DSL ledger or other case text), with a header of `#` comment lines
    pub replay: String,
}

#[derive(Default)]
pub struct Ev {
    pub evaluations: u64,
    pub nontrivial: BTreeSet<String>,
    pub rule: String,
    pub samples: Vec<Value>,
    pub dist: BTreeMap<String, u64>,
    pub violations: Vec<Violation>,
    /// class → (what, hits, exact witness reproduced?)
    pub known_hits: BTreeMap<String, (String, u64)>,
    pub traces_validated: u64,
    pub exhaustive: bool,
    pub notes: Vec<String>,
}

impl Ev {
    pub fn count(&mut self, key: &str) {
        *self.dist.entry(key.to_string()).or_insert(0) += 1;
    }
    pub fn count_n(&mut self, key: &str, n: u64) {
        *self.dist.entry(key.to_string()).or_insert(0) += n;
    }
    pub fn sample(&mut self, v: Value) {
        if self.samples.len() < 5 {
            self.samples.push(v);
        }
    }
    pub fn violation(&mut self, kind: &str, what: String, replay: String) {
        // defect D3 (listed under C05 and C11, class inexactRatio) seen through another property's
        // correspondence: the implementation refuses for want of 10⁻²⁷ of a share what the exact model accepts,
        // on a security reorganised by a ratio that does not divide exactly. That is the known decimal residue,
        // not a difference between model and code for this property to raise.
        if kind == "correspondence" && what.contains("model accepts") {
            if let Some(rest) = what.split("impl rejects (").nth(1) {
                let mut it = rest.split(|c: char| c == ' ' || c == ')');
                let (k, tk) = (it.next().unwrap_or(""), it.next().unwrap_or(""));
                if matches!(k, "exceedsHolding" | "reservationExceedsBuy" | "unmatched") && replay_has_inexact_ratio(&replay, tk) {
                    self.count("correspondence-skipped:inexact-ratio-residue (D3)");
                    return;
                }
            }
        }
        // keep the first few of each kind; one is enough to fail the check, but a failing input found by an
        // oracle late in the run must not be crowded out by earlier correspondence differences
        if self.violations.iter().filter(|v| v.kind == kind).count() < 5 {
            self.violations.push(Violation { kind: kind.to_string(), what, replay });
        }
    }
    pub fn known(&mut self, class: &str, what: &str) {
        let e = self.known_hits.entry(class.to_string()).or_insert((what.to_string(), 0));
        e.1 += 1;
    }
    pub fn to_json(&self) -> Value {
        json!({
            "evaluations": self.evaluations,
            "distinct_nontrivial": self.nontrivial.len(),
            "rule": self.rule,
            "samples": self.samples,
            "distribution": self.dist,
            "traces_validated_against_impl": self.traces_validated,
            "exhaustive": self.exhaustive,
            "notes": self.notes,
            "violations": self.violations.iter().map(|v| json!({"kind": v.kind, "what": v.what, "replay": v.replay})).collect::<Vec<_>>(),
            "known_hits": self.known_hits.iter().map(|(k, v)| json!({"class": k, "what": v.0, "hits": v.1})).collect::<Vec<_>>(),
        })
    }
}

/// does the ledger printed in a replay text reorganise `ticker` by a ratio with a prime factor other than 2 and 5?
fn replay_has_inexact_ratio(replay: &str, ticker: &str) -> bool {
    replay.lines().any(|ln| {
        let w: Vec<&str> = ln.split_whitespace().collect();
        if w.len() < 5 || !(w[1] == "SPLIT" || w[1] == "UNSPLIT") || !w[2].eq_ignore_ascii_case(ticker) || w[3] != "RATIO" { return false; }
        let Ok(r) = w[4].parse::<rust_decimal::Decimal>() else { return false };
        let mut m = r.normalize().mantissa().unsigned_abs();
        if m == 0 { return false; }
        while m % 2 == 0 { m /= 2; }
        while m % 5 == 0 { m /= 5; }
        m != 1
    })
}
