//! What a run covered, what it found; written as JSON for ./check to merge with the proof side.
use serde_json::{Value, json};
use std::collections::{BTreeMap, BTreeSet};

#[derive(Clone, Debug)]
pub struct Violation {
    /// "oracle" (the property fails on the implementation's own output),
    /// "correspondence" (implementation and model differ on the property's projection),
    /// "crash"
    pub kind: String,
    pub what: String,
    /// replay file content (DSL ledger or other case text), with a header of `#` comment lines
    pub replay: String,
}

#[derive(Default)]
pub struct Ev {
    pub evaluations: u64,
    pub nontrivial: BTreeSet<String>,
    pub rule: String,
    pub samples: Vec<Value>,
    pub dist: BTreeMap<String, u64>,
    pub violations: Vec<Violation>,
    /// class → (what, hits, exact witness reproduced?)
    pub known_hits: BTreeMap<String, (String, u64)>,
    pub traces_validated: u64,
    pub exhaustive: bool,
    pub notes: Vec<String>,
}

impl Ev {
    pub fn count(&mut self, key: &str) {
        *self.dist.entry(key.to_string()).or_insert(0) += 1;
    }
    pub fn count_n(&mut self, key: &str, n: u64) {
        *self.dist.entry(key.to_string()).or_insert(0) += n;
    }
    pub fn sample(&mut self, v: Value) {
        if self.samples.len() < 5 {
            self.samples.push(v);
        }
    }
    pub fn violation(&mut self, kind: &str, what: String, replay: String) {
        // keep the first few of each kind; one is enough to fail the check, but a failing input found by an
        // oracle late in the run must not be crowded out by earlier correspondence differences
        if self.violations.iter().filter(|v| v.kind == kind).count() < 5 {
            self.violations.push(Violation { kind: kind.to_string(), what, replay });
        }
    }
    pub fn known(&mut self, class: &str, what: &str) {
        let e = self.known_hits.entry(class.to_string()).or_insert((what.to_string(), 0));
        e.1 += 1;
    }
    pub fn to_json(&self) -> Value {
        json!({
            "evaluations": self.evaluations,
            "distinct_nontrivial": self.nontrivial.len(),
            "rule": self.rule,
            "samples": self.samples,
            "distribution": self.dist,
            "traces_validated_against_impl": self.traces_validated,
            "exhaustive": self.exhaustive,
            "notes": self.notes,
            "violations": self.violations.iter().map(|v| json!({"kind": v.kind, "what": v.what, "replay": v.replay})).collect::<Vec<_>>(),
            "known_hits": self.known_hits.iter().map(|(k, v)| json!({"class": k, "what": v.0, "hits": v.1})).collect::<Vec<_>>(),
        })
    }
}
