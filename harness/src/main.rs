mod cli;
mod dslgen;
mod evidence;
mod ledger;
mod model;
mod props;
mod q;
mod rep;
mod rng;
mod run_impl;

use props::{Ctx, Tier};

fn main() {
    let args: Vec<String> = std::env::args().collect();
    if args.len() < 2 {
        eprintln!("usage: harness <Cxx> [--tier quick|thorough] [--seed N] [--no-model] [--out file] [--replay file]");
        std::process::exit(2);
    }
    let prop = args[1].clone();
    if prop == "pdftext" {
        // debugging aid: harness pdftext <ledger.cgt> — the text runs of the PDF for that ledger
        let text = std::fs::read_to_string(&args[2]).expect("read ledger");
        let txs = cgt_core::parser::parse_file(&text).expect("parse");
        let cfg = run_impl::config_from(&run_impl::wide_exemptions());
        let rep = cgt_core::calculator::calculate(&txs, None, None, &cfg).expect("calculate");
        for r in cgt_formatter_pdf::verif_text_runs(&rep).expect("typst") { println!("{r:?}"); }
        return;
    }
    let mut tier = Tier::Quick;
    let mut seed: u64 = 1;
    let mut no_model = false;
    let mut out = format!("/verif/build/harness_{prop}.json");
    let mut replay = None;
    let mut i = 2;
    while i < args.len() {
        match args[i].as_str() {
            "--tier" => { i += 1; tier = if args[i] == "thorough" { Tier::Thorough } else { Tier::Quick }; }
            "--seed" => { i += 1; seed = args[i].parse().unwrap_or(1); }
            "--no-model" => no_model = true,
            "--out" => { i += 1; out = args[i].clone(); }
            "--replay" => { i += 1; replay = Some(args[i].clone()); }
            x => { eprintln!("unknown argument {x}"); std::process::exit(2); }
        }
        i += 1;
    }
    run_impl::quiet_panics();
    let model = if no_model { None } else { Some(model::Model::spawn()) };
    let mut ctx = Ctx { tier, seed, model, ev: Default::default(), replay };
    let t0 = std::time::Instant::now();
    match prop.as_str() {
        "C01" => props::c01::run(&mut ctx),
        "C02" => props::c02::run(&mut ctx),
        "C03" => props::c03::run(&mut ctx),
        "C04" => props::c04::run(&mut ctx),
        "C05" => props::c05::run(&mut ctx),
        "C06" => props::c06::run(&mut ctx),
        "C07" => props::c07::run(&mut ctx),
        "C08" => props::c08::run(&mut ctx),
        "C09" => props::c09::run(&mut ctx),
        "C10" => props::c10::run(&mut ctx),
        "C11" => props::c11::run(&mut ctx),
        "C12" => props::c12::run(&mut ctx),
        "C13" => props::c13::run(&mut ctx),
        "C14" => props::c14::run(&mut ctx),
        "C15" => props::c15::run(&mut ctx),
        "C16" => props::c16::run(&mut ctx),
        "C17" => props::c17::run(&mut ctx),
        "C18" => props::c18::run(&mut ctx),
        "C19" => props::c19::run(&mut ctx),
        "C20" => props::c20::run(&mut ctx),
        x => { eprintln!("no harness for {x}"); std::process::exit(2); }
    }
    let mut j = ctx.ev.to_json();
    j["wall_s"] = serde_json::json!(t0.elapsed().as_secs_f64());
    j["model_requests"] = serde_json::json!(ctx.model.as_ref().map(|m| m.requests).unwrap_or(0));
    std::fs::write(&out, serde_json::to_string_pretty(&j).expect("json")).expect("write harness result");
    eprintln!("harness {prop}: {} evaluations, {} non-trivial, {} violations, {:.1}s", ctx.ev.evaluations, ctx.ev.nontrivial.len(), ctx.ev.violations.len(), t0.elapsed().as_secs_f64());
}
