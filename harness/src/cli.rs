//! The real `cgt-tool` binary (built from /repo's working tree by ./check), run in a scratch directory.
use std::path::{Path, PathBuf};
use std::process::{Command, Stdio};
use std::sync::atomic::{AtomicU64, Ordering};

pub fn bin() -> String {
    std::env::var("CGT_TOOL_BIN").unwrap_or_else(|_| "/verif/build/repo-target/debug/cgt-tool".to_string())
}
pub fn available() -> bool {
    Path::new(&bin()).exists()
}

static COUNTER: AtomicU64 = AtomicU64::new(0);

pub struct Scratch {
    pub dir: PathBuf,
}
impl Scratch {
    pub fn new() -> Scratch {
        let n = COUNTER.fetch_add(1, Ordering::SeqCst);
        let dir = PathBuf::from(format!("/verif/build/scratch/{}_{}", std::process::id(), n));
        std::fs::create_dir_all(&dir).expect("scratch dir");
        Scratch { dir }
    }
    pub fn write(&self, name: &str, content: &str) -> PathBuf {
        let p = self.dir.join(name);
        std::fs::write(&p, content).expect("write scratch file");
        p
    }
    pub fn write_bytes(&self, name: &str, content: &[u8]) -> PathBuf {
        let p = self.dir.join(name);
        std::fs::write(&p, content).expect("write scratch file");
        p
    }
    pub fn path(&self, name: &str) -> PathBuf {
        self.dir.join(name)
    }
}
impl Drop for Scratch {
    fn drop(&mut self) {
        let _ = std::fs::remove_dir_all(&self.dir);
    }
}

pub struct CliOut {
    pub code: Option<i32>,
    pub stdout: Vec<u8>,
    pub stderr: String,
}

/// run with cwd = scratch dir and HOME = scratch dir, so that no config.toml override is picked up
pub fn run(s: &Scratch, args: &[&str]) -> CliOut {
    let out = Command::new(bin())
        .args(args)
        .current_dir(&s.dir)
        .env("HOME", &s.dir)
        .stdin(Stdio::null())
        .output()
        .expect("run cgt-tool");
    CliOut { code: out.status.code(), stdout: out.stdout, stderr: String::from_utf8_lossy(&out.stderr).to_string() }
}
