//! Ledgers as the harness generates them: GBP amounts, seven kinds; conversions to the
//! implementation's types, to the wire format of the Lean driver and to DSL text.
use crate::q::Q;
use crate::rng::Rng;
use cgt_core::{Currency, CurrencyAmount, GbpTransaction, Operation, Transaction};
use chrono::{Datelike, Duration, NaiveDate};
use rust_decimal::Decimal;

#[derive(Clone, Copy, Debug, PartialEq, Eq, Hash, PartialOrd, Ord)]
pub enum Kind {
    Buy,
    Sell,
    Dividend,
    Accumulation,
    CapReturn,
    Split,
    Unsplit,
}

#[derive(Clone, Debug, PartialEq)]
pub struct GTx {
    pub date: NaiveDate,
    pub ticker: String,
    pub kind: Kind,
    /// Buy/Sell: amount, price, fees · Dividend: total, tax · Accumulation: amount, total, tax ·
    /// CapReturn: amount, total, fees · Split/Unsplit: ratio
    pub a: Decimal,
    pub b: Decimal,
    pub c: Decimal,
}

fn gbp(x: Decimal) -> CurrencyAmount {
    CurrencyAmount::new(x, Currency::GBP)
}

impl GTx {
    pub fn new(date: NaiveDate, ticker: &str, kind: Kind, a: Decimal, b: Decimal, c: Decimal) -> GTx {
        GTx { date, ticker: ticker.to_string(), kind, a, b, c }
    }
    pub fn to_gbp(&self) -> GbpTransaction {
        let operation = match self.kind {
            Kind::Buy => Operation::Buy { amount: self.a, price: self.b, fees: self.c },
            Kind::Sell => Operation::Sell { amount: self.a, price: self.b, fees: self.c },
            Kind::Dividend => Operation::Dividend { total_value: self.a, tax_paid: self.b },
            Kind::Accumulation => Operation::Accumulation { amount: self.a, total_value: self.b, tax_paid: self.c },
            Kind::CapReturn => Operation::CapReturn { amount: self.a, total_value: self.b, fees: self.c },
            Kind::Split => Operation::Split { ratio: self.a },
            Kind::Unsplit => Operation::Unsplit { ratio: self.a },
        };
        GbpTransaction { date: self.date, ticker: self.ticker.clone(), operation }
    }
    pub fn to_tx(&self) -> Transaction {
        let operation = match self.kind {
            Kind::Buy => Operation::Buy { amount: self.a, price: gbp(self.b), fees: gbp(self.c) },
            Kind::Sell => Operation::Sell { amount: self.a, price: gbp(self.b), fees: gbp(self.c) },
            Kind::Dividend => Operation::Dividend { total_value: gbp(self.a), tax_paid: gbp(self.b) },
            Kind::Accumulation => Operation::Accumulation { amount: self.a, total_value: gbp(self.b), tax_paid: gbp(self.c) },
            Kind::CapReturn => Operation::CapReturn { amount: self.a, total_value: gbp(self.b), fees: gbp(self.c) },
            Kind::Split => Operation::Split { ratio: self.a },
            Kind::Unsplit => Operation::Unsplit { ratio: self.a },
        };
        Transaction { date: self.date, ticker: self.ticker.clone(), operation }
    }
    pub fn code(&self) -> &'static str {
        match self.kind {
            Kind::Buy => "B",
            Kind::Sell => "S",
            Kind::Dividend => "D",
            Kind::Accumulation => "A",
            Kind::CapReturn => "C",
            Kind::Split => "X",
            Kind::Unsplit => "U",
        }
    }
    pub fn wire(&self) -> String {
        format!(
            "{}-{}-{},{},{},{},{},{}",
            self.date.year(),
            self.date.month(),
            self.date.day(),
            self.ticker,
            self.code(),
            Q::from_dec(self.a).wire(),
            Q::from_dec(self.b).wire(),
            Q::from_dec(self.c).wire()
        )
    }
    pub fn dsl(&self) -> String {
        let d = self.date.format("%Y-%m-%d");
        match self.kind {
            Kind::Buy => format!("{d} BUY {} {} @ {} FEES {}", self.ticker, self.a, self.b, self.c),
            Kind::Sell => format!("{d} SELL {} {} @ {} FEES {}", self.ticker, self.a, self.b, self.c),
            Kind::Dividend => format!("{d} DIVIDEND {} TOTAL {} TAX {}", self.ticker, self.a, self.b),
            Kind::Accumulation => format!("{d} ACCUMULATION {} {} TOTAL {} TAX {}", self.ticker, self.a, self.b, self.c),
            Kind::CapReturn => format!("{d} CAPRETURN {} {} TOTAL {} FEES {}", self.ticker, self.a, self.b, self.c),
            Kind::Split => format!("{d} SPLIT {} RATIO {}", self.ticker, self.a),
            Kind::Unsplit => format!("{d} UNSPLIT {} RATIO {}", self.ticker, self.a),
        }
    }
}

pub type Ledger = Vec<GTx>;

pub fn wire(l: &[GTx]) -> String {
    l.iter().map(|t| t.wire()).collect::<Vec<_>>().join(" ")
}
pub fn dsl(l: &[GTx]) -> String {
    let mut s = String::new();
    for t in l {
        s.push_str(&t.dsl());
        s.push('\n');
    }
    s
}
pub fn to_txs(l: &[GTx]) -> Vec<Transaction> {
    l.iter().map(|t| t.to_tx()).collect()
}
pub fn to_gbps(l: &[GTx]) -> Vec<GbpTransaction> {
    l.iter().map(|t| t.to_gbp()).collect()
}

pub fn d(y: i32, m: u32, dd: u32) -> NaiveDate {
    NaiveDate::from_ymd_opt(y, m, dd).expect("valid date")
}
pub fn dec(s: &str) -> Decimal {
    s.parse().expect("decimal literal")
}

/// Parse the replay/corpus format: DSL lines (GBP only), through the real parser.
pub fn from_dsl(text: &str) -> Result<Ledger, String> {
    let txs = cgt_core::parser::parse_file(text).map_err(|e| e.to_string())?;
    let mut out = Vec::new();
    for t in txs {
        let (kind, a, b, c) = match &t.operation {
            Operation::Buy { amount, price, fees } => (Kind::Buy, *amount, price.amount, fees.amount),
            Operation::Sell { amount, price, fees } => (Kind::Sell, *amount, price.amount, fees.amount),
            Operation::Dividend { total_value, tax_paid } => (Kind::Dividend, total_value.amount, tax_paid.amount, Decimal::ZERO),
            Operation::Accumulation { amount, total_value, tax_paid } => (Kind::Accumulation, *amount, total_value.amount, tax_paid.amount),
            Operation::CapReturn { amount, total_value, fees } => (Kind::CapReturn, *amount, total_value.amount, fees.amount),
            Operation::Split { ratio } => (Kind::Split, *ratio, Decimal::ZERO, Decimal::ZERO),
            Operation::Unsplit { ratio } => (Kind::Unsplit, *ratio, Decimal::ZERO, Decimal::ZERO),
        };
        out.push(GTx { date: t.date, ticker: t.ticker.clone(), kind, a, b, c });
    }
    Ok(out)
}

// ---------------------------------------------------------------------------------------
// generators

#[derive(Clone, Debug)]
pub struct GenCfg {
    pub max_tickers: usize,
    pub min_tx: usize,
    pub max_tx: usize,
    pub splits: bool,
    pub inexact_ratios: bool,
    pub cost_events: bool,
    pub dividends: bool,
    pub fractional: bool,
    pub fees: bool,
    /// probability (percent) that a sell is allowed to exceed the tracked position
    pub oversell_pct: u64,
    /// several SELL lines of one security on one day (known finding D17 when non-adjacent)
    pub multi_sell_day: bool,
}

impl GenCfg {
    pub fn standard() -> GenCfg {
        GenCfg {
            max_tickers: 3,
            min_tx: 2,
            max_tx: 14,
            splits: true,
            inexact_ratios: false,
            cost_events: true,
            dividends: true,
            fractional: true,
            fees: true,
            oversell_pct: 3,
            multi_sell_day: true,
        }
    }
}

const ANCHORS: &[(i32, u32, u32)] = &[
    (2024, 1, 31),
    (2024, 2, 28),
    (2024, 2, 29),
    (2023, 2, 28),
    (2024, 4, 5),
    (2024, 4, 6),
    (2023, 12, 31),
    (2024, 3, 6),
    (2022, 6, 15),
    (2019, 12, 2),
    (2100, 2, 28),
    (2021, 3, 7),
];
const OFFSETS: &[i64] = &[0, 0, 0, 1, 2, 5, 10, 29, 30, 30, 31, 32, 45, 200, 366];
pub const TICKERS: &[&str] = &["AAA", "BBB", "CCC", "DDD", "EEE", "FFF", "GGG", "HHH", "III", "JJJ", "KKK", "LLL", "MMM", "NNN"];

pub fn gen_qty(r: &mut Rng, fractional: bool) -> Decimal {
    if fractional && r.chance(1, 4) {
        // up to 4 dp
        let scale = r.range(1, 4) as u32;
        Decimal::new(r.range(1, 2_000_000), scale).normalize()
    } else {
        Decimal::from(*r.pick(&[1i64, 2, 3, 5, 10, 10, 20, 50, 100, 100, 250, 1000]))
    }
}
pub fn gen_price(r: &mut Rng) -> Decimal {
    match r.below(4) {
        0 => Decimal::from(r.range(1, 200)),
        1 => Decimal::new(r.range(1, 99_999), 2),
        2 => Decimal::new(r.range(1, 9_999_999), 4),
        _ => Decimal::new(r.range(1, 1000), 1),
    }
}
pub fn gen_fee(r: &mut Rng, fees: bool) -> Decimal {
    if !fees || r.chance(1, 3) { Decimal::ZERO } else { Decimal::new(r.range(1, 2500), 2) }
}
pub fn exact_ratio(r: &mut Rng) -> Decimal {
    dec(*r.pick(&["2", "2", "4", "5", "10", "0.5", "2.5"]))
}
pub fn exact_unratio(r: &mut Rng) -> Decimal {
    dec(*r.pick(&["2", "4", "5", "10", "0.5"]))
}
pub fn inexact_ratio(r: &mut Rng) -> Decimal {
    dec(*r.pick(&["3", "7", "1.5", "6"]))
}

/// A mostly-valid ledger: dates cluster around an anchor with offsets that hit the 30-day window
/// edges, sells are usually covered by the tracked position, several events share dates.
pub fn gen_ledger(r: &mut Rng, cfg: &GenCfg) -> Ledger {
    let nt = 1 + r.below(cfg.max_tickers as u64) as usize;
    let n = cfg.min_tx + r.below((cfg.max_tx - cfg.min_tx + 1) as u64) as usize;
    let (ay, am, ad) = *r.pick(ANCHORS);
    let anchor = d(ay, am, ad);
    // a small pool of dates so that collisions (same day, window edges) are frequent
    let nd = 2 + r.below(6) as usize;
    let mut dates: Vec<NaiveDate> = (0..nd).map(|_| anchor + Duration::days(*r.pick(OFFSETS))).collect();
    if r.chance(1, 2) {
        // second cluster hanging off a random date of the first
        let base = *r.pick(&dates);
        for _ in 0..(1 + r.below(3)) {
            dates.push(base + Duration::days(*r.pick(OFFSETS)));
        }
    }
    dates.sort();
    let mut events: Vec<(NaiveDate, usize)> = (0..n).map(|_| (*r.pick(&dates), r.below(nt as u64) as usize)).collect();
    events.sort_by_key(|e| e.0);
    let mut pos: Vec<Decimal> = vec![Decimal::ZERO; nt];
    let mut out: Ledger = Vec::new();
    for (date, ti) in events {
        let tk = TICKERS[ti];
        let roll = r.below(100);
        let have = pos[ti] > Decimal::ZERO;
        let kind = if !have && roll < 75 {
            Kind::Buy
        } else if roll < 38 {
            Kind::Buy
        } else if roll < 76 {
            Kind::Sell
        } else if roll < 84 && cfg.splits {
            if r.chance(2, 3) { Kind::Split } else { Kind::Unsplit }
        } else if roll < 92 && cfg.cost_events {
            if r.chance(1, 2) { Kind::CapReturn } else { Kind::Accumulation }
        } else if cfg.dividends {
            Kind::Dividend
        } else {
            Kind::Buy
        };
        match kind {
            Kind::Buy => {
                let q = gen_qty(r, cfg.fractional);
                pos[ti] += q;
                // a further fill of the same order: same day, same security, same unit price
                let fill_of = out.iter().rev().find(|t| t.date == date && t.ticker == tk && t.kind == Kind::Buy).map(|t| t.b);
                let price = match fill_of { Some(p) if r.chance(1, 3) => p, _ => gen_price(r) };
                out.push(GTx::new(date, tk, Kind::Buy, q, price, gen_fee(r, cfg.fees)));
            }
            Kind::Sell => {
                let q = if r.below(100) < cfg.oversell_pct {
                    gen_qty(r, cfg.fractional)
                } else if !have {
                    continue;
                } else {
                    match r.below(5) {
                        0 => pos[ti],
                        1 => (pos[ti] / Decimal::from(2)).round_dp(4).normalize(),
                        _ => {
                            let q = gen_qty(r, cfg.fractional);
                            if q > pos[ti] { pos[ti] } else { q }
                        }
                    }
                };
                if q <= Decimal::ZERO { continue; }
                if !cfg.multi_sell_day && out.iter().any(|t| t.date == date && t.ticker == tk && t.kind == Kind::Sell) {
                    continue;
                }
                pos[ti] -= q;
                // now and then a worthless disposal: nil consideration, the sale still has fees
                // a further fill of the same sale (same day, same security, same unit price, its own fees) now and then
                let fill_of = out.iter().rev().find(|t| t.date == date && t.ticker == tk && t.kind == Kind::Sell).map(|t| t.b);
                let price = match fill_of { Some(p) if r.chance(1, 2) => p, _ => if r.chance(1, 25) { Decimal::ZERO } else { gen_price(r) } };
                out.push(GTx::new(date, tk, Kind::Sell, q, price, gen_fee(r, cfg.fees)));
            }
            Kind::Split => {
                let ratio = if cfg.inexact_ratios && r.chance(1, 3) { inexact_ratio(r) } else { exact_ratio(r) };
                pos[ti] *= ratio;
                out.push(GTx::new(date, tk, Kind::Split, ratio, Decimal::ZERO, Decimal::ZERO));
            }
            Kind::Unsplit => {
                // a consolidation whose reciprocal does not terminate (3, 6, 7, 9) when the holding divides
                // exactly and no sale of the security lies in the 30 days before (no look-ahead crosses it)
                let divisible: Vec<i64> = [3i64, 6, 7, 9].iter().copied().filter(|k| pos[ti] > Decimal::ZERO && (pos[ti] % Decimal::from(*k)).is_zero()).collect();
                let quiet = !out.iter().any(|t| t.ticker == tk && t.kind == Kind::Sell && t.date <= date && (date - t.date).num_days() <= 30);
                let ratio = if !divisible.is_empty() && quiet && r.chance(1, 2) { Decimal::from(*r.pick(&divisible)) }
                    else if cfg.inexact_ratios && r.chance(1, 3) { inexact_ratio(r) } else { exact_unratio(r) };
                pos[ti] /= ratio;
                out.push(GTx::new(date, tk, Kind::Unsplit, ratio, Decimal::ZERO, Decimal::ZERO));
            }
            Kind::CapReturn => {
                let q = if have { pos[ti] } else { gen_qty(r, false) };
                let total = Decimal::new(r.range(1, 20_000), 2);
                let fee = if r.chance(1, 4) { Decimal::new(r.range(1, 100), 2).min(total) } else { Decimal::ZERO };
                out.push(GTx::new(date, tk, Kind::CapReturn, q, total, fee));
            }
            Kind::Accumulation => {
                let q = if have { pos[ti] } else { gen_qty(r, false) };
                out.push(GTx::new(date, tk, Kind::Accumulation, q, Decimal::new(r.range(1, 50_000), 2), gen_fee(r, true)));
            }
            Kind::Dividend => {
                // every ninth dividend is a withholding adjustment booked on its own: nothing paid, tax only
                // (decided from the drawn amount, so the stream of random draws is what it was)
                let v = r.range(1, 50_000);
                let total = if v % 9 == 0 { Decimal::ZERO } else { Decimal::new(v, 2) };
                out.push(GTx::new(date, tk, Kind::Dividend, total, gen_fee(r, true), Decimal::ZERO));
            }
        }
    }
    // a second security that trades on the same days as the first (same dates, scaled quantities,
    // one sale made smaller): per-security state that leaks across securities shows up here
    if nt < TICKERS.len() && r.chance(1, 6) {
        let src = TICKERS[r.below(nt as u64) as usize];
        let twin = TICKERS[nt];
        let k = dec(*r.pick(&["2", "3", "0.5"]));
        let mut copies: Vec<GTx> = out.iter().filter(|t| t.ticker == src).cloned().collect();
        let sells: Vec<usize> = copies.iter().enumerate().filter(|(_, t)| t.kind == Kind::Sell).map(|(i, _)| i).collect();
        let shrink_one = if sells.is_empty() { None } else { Some(*r.pick(&sells)) };
        for (i, t) in copies.iter_mut().enumerate() {
            t.ticker = twin.to_string();
            match t.kind {
                Kind::Buy | Kind::Sell | Kind::CapReturn | Kind::Accumulation => {
                    t.a = (t.a * k).normalize();
                    if Some(i) == shrink_one { t.a = (t.a / Decimal::from(2)).round_dp(4).normalize(); }
                    if t.a <= Decimal::ZERO { t.a = Decimal::ONE; }
                }
                _ => {}
            }
        }
        if r.chance(1, 2) {
            out.extend(copies);
        } else {
            for c in copies { let at = r.below(out.len() as u64 + 1) as usize; out.insert(at, c); }
        }
    }
    // line order: mostly chronological, sometimes shuffled (the matcher sorts)
    if r.chance(1, 3) {
        r.shuffle(&mut out);
    }
    out
}

/// Sums that depend on the order of their terms: one disposal identified with 3–6 later purchases of
/// very different sizes lying behind a SPLIT whose ratio divides none of them (each claim becomes a
/// non-terminating decimal; their total is whole), and a second disposal, before the split, of exactly
/// the rest of the holding — a one-ulp difference in the total of the outstanding claims decides whether
/// the ledger is accepted.
pub fn gen_claim_sum(r: &mut Rng) -> Ledger {
    let tk = "AAA";
    let k = *r.pick(&[3i64, 7, 9, 6, 11, 13]);
    let n = 3 + r.below(4) as usize;
    let mut qs: Vec<i64> = Vec::new();
    for _ in 0..400 {
        qs = (0..n).map(|i| (1 + r.below(9) as i64) * 10i64.pow((i % 5) as u32) * if r.chance(1, 2) { 2 } else { 1 }).collect();
        if qs.iter().all(|q| q % k != 0) && qs.iter().sum::<i64>() % k == 0 { break; }
    }
    let claims = qs.iter().sum::<i64>() / k;
    let first = claims + if r.chance(1, 2) { 0 } else { r.range(1, 50) };
    let second = r.range(1, 1000);
    let d0 = d(2020 + r.below(4) as i32, *r.pick(&[2u32, 6, 9, 11]), 1 + r.below(20) as u32);
    let mut l: Ledger = vec![
        GTx::new(d0 - Duration::days(r.range(40, 500)), tk, Kind::Buy, Decimal::from(first + second), gen_price(r), Decimal::ZERO),
        GTx::new(d0, tk, Kind::Sell, Decimal::from(first), gen_price(r), Decimal::ZERO),
        GTx::new(d0 + Duration::days(1), tk, Kind::Sell, Decimal::from(second), gen_price(r), Decimal::ZERO),
        GTx::new(d0 + Duration::days(2), tk, Kind::Split, Decimal::from(k), Decimal::ZERO, Decimal::ZERO),
    ];
    r.shuffle(&mut qs);
    for (i, q) in qs.iter().enumerate() {
        l.push(GTx::new(d0 + Duration::days(3 + 4 * i as i64 + r.below(3) as i64), tk, Kind::Buy, Decimal::from(*q), gen_price(r), Decimal::ZERO));
    }
    if r.chance(1, 2) { r.shuffle(&mut l); }
    l
}


/// A long history of one security: 34–60 acquisition days on distinct dates, sales that use lots up,
/// now and then a capital event or a split (when the configuration allows) — sizes that thresholds in
/// the lot bookkeeping (tens of lots) can only be crossed by.
pub fn gen_long(r: &mut Rng, cfg: &GenCfg) -> Ledger {
    let tk = "AAA";
    let mut date = d(2010 + r.below(6) as i32, 1 + r.below(12) as u32, 1 + r.below(28) as u32);
    let mut out: Ledger = Vec::new();
    let mut pos = Decimal::ZERO;
    let nbuys = 34 + r.below(27);
    for _ in 0..nbuys {
        date = date + Duration::days(r.range(3, 45));
        let q = gen_qty(r, false);
        pos += q;
        out.push(GTx::new(date, tk, Kind::Buy, q, gen_price(r), gen_fee(r, cfg.fees)));
        match r.below(12) {
            0..=2 if pos > Decimal::ZERO => {
                let q = if r.chance(1, 3) { pos } else { (pos / Decimal::from(r.range(2, 6))).round_dp(0).max(Decimal::ONE).min(pos) };
                pos -= q;
                out.push(GTx::new(date + Duration::days(r.range(0, 2)), tk, Kind::Sell, q, gen_price(r), gen_fee(r, cfg.fees)));
            }
            3 if cfg.cost_events && pos > Decimal::ZERO => {
                let k = if r.chance(1, 2) { Kind::Accumulation } else { Kind::CapReturn };
                out.push(GTx::new(date + Duration::days(1), tk, k, pos, Decimal::new(r.range(1, 5_000), 2), Decimal::ZERO));
            }
            4 if cfg.splits => {
                let ratio = exact_ratio(r);
                pos *= ratio;
                out.push(GTx::new(date + Duration::days(1), tk, Kind::Split, ratio, Decimal::ZERO, Decimal::ZERO));
            }
            _ => {}
        }
    }
    if pos > Decimal::ZERO {
        let q = (pos / Decimal::from(r.range(1, 4))).round_dp(0).max(Decimal::ONE).min(pos);
        out.push(GTx::new(date + Duration::days(r.range(1, 60)), tk, Kind::Sell, q, gen_price(r), gen_fee(r, cfg.fees)));
    }
    if r.chance(1, 4) { r.shuffle(&mut out); }
    out
}

/// Contention shapes built deliberately: k earlier disposals × one later purchase that may have its
/// own same-day sale × optional split between.
pub fn gen_contention(r: &mut Rng, cfg: &GenCfg) -> Ledger {
    let tk = "AAA";
    let (ay, am, ad) = *r.pick(ANCHORS);
    let anchor = d(ay, am, ad);
    let mut out: Ledger = Vec::new();
    let base = gen_qty(r, false) * Decimal::from(10);
    out.push(GTx::new(anchor - Duration::days(r.range(1, 400)), tk, Kind::Buy, base, gen_price(r), gen_fee(r, cfg.fees)));
    let k = 1 + r.below(3);
    let mut sold = Decimal::ZERO;
    for i in 0..k {
        let q = (base / Decimal::from(4 + r.below(4))).round_dp(if cfg.fractional { 2 } else { 0 }).max(Decimal::ONE);
        sold += q;
        out.push(GTx::new(anchor + Duration::days(i as i64 * r.range(0, 2)), tk, Kind::Sell, q, gen_price(r), gen_fee(r, cfg.fees)));
    }
    if cfg.splits && r.chance(1, 3) {
        let on = anchor + Duration::days(*r.pick(&[0i64, 1, 3, 10]));
        out.push(GTx::new(on, tk, Kind::Split, exact_ratio(r), Decimal::ZERO, Decimal::ZERO));
    }
    let nb = 1 + r.below(3);
    for _ in 0..nb {
        let on = anchor + Duration::days(*r.pick(&[1i64, 3, 10, 10, 29, 30, 31, 32]));
        let q = (sold / Decimal::from(1 + r.below(3))).round_dp(if cfg.fractional { 2 } else { 0 }).max(Decimal::ONE);
        out.push(GTx::new(on, tk, Kind::Buy, q, gen_price(r), gen_fee(r, cfg.fees)));
        if r.chance(1, 2) {
            let sq = (q / Decimal::from(1 + r.below(3))).round_dp(if cfg.fractional { 2 } else { 0 }).max(Decimal::ONE);
            out.push(GTx::new(on, tk, Kind::Sell, sq, gen_price(r), gen_fee(r, cfg.fees)));
        }
    }
    if cfg.splits && r.chance(1, 4) {
        let on = anchor + Duration::days(*r.pick(&[3i64, 10, 30]));
        out.push(GTx::new(on, tk, Kind::Unsplit, exact_unratio(r), Decimal::ZERO, Decimal::ZERO));
    }
    if cfg.splits && cfg.max_tickers >= 2 && r.chance(1, 4) {
        // another security reorganised inside the window: must not touch this one
        let other = "BBB";
        out.push(GTx::new(anchor - Duration::days(r.range(1, 40)), other, Kind::Buy, gen_qty(r, false), gen_price(r), gen_fee(r, cfg.fees)));
        let on = anchor + Duration::days(*r.pick(&[0i64, 1, 2, 5, 10, 29]));
        let kind = if r.chance(1, 2) { Kind::Split } else { Kind::Unsplit };
        out.push(GTx::new(on, other, kind, exact_unratio(r), Decimal::ZERO, Decimal::ZERO));
    }
    if r.chance(1, 3) {
        r.shuffle(&mut out);
    } else {
        out.sort_by_key(|t| t.date);
    }
    out
}

/// Two securities disposed of on one day and bought back on one shared later day inside both
/// thirty-day windows, where only one of them also sells on the buy-back day: any state the matcher
/// keeps per acquisition date must be kept per security as well.
pub fn gen_cross_contention(r: &mut Rng, cfg: &GenCfg) -> Ledger {
    let (ay, am, ad) = *r.pick(ANCHORS);
    let anchor = d(ay, am, ad);
    let off = Duration::days(*r.pick(&[1i64, 3, 10, 20, 29, 30]));
    let first_sells = r.chance(1, 2);
    let dp = if cfg.fractional { 1 } else { 0 };
    let mut out: Ledger = Vec::new();
    for (n, tk) in ["AAA", "BBB"].iter().enumerate() {
        let base = gen_qty(r, false) * Decimal::from(10);
        out.push(GTx::new(anchor - Duration::days(r.range(1, 400)), tk, Kind::Buy, base, gen_price(r), gen_fee(r, cfg.fees)));
        let sold = (base / Decimal::from(2 + r.below(3))).round_dp(dp).max(Decimal::ONE);
        out.push(GTx::new(anchor, tk, Kind::Sell, sold, gen_price(r), gen_fee(r, cfg.fees)));
        let back = (sold / Decimal::from(1 + r.below(2))).round_dp(dp).max(Decimal::ONE);
        out.push(GTx::new(anchor + off, tk, Kind::Buy, back, gen_price(r), gen_fee(r, cfg.fees)));
        if (n == 0) == first_sells {
            let sq = (back / Decimal::from(1 + r.below(3))).round_dp(dp).max(Decimal::ONE);
            out.push(GTx::new(anchor + off, tk, Kind::Sell, sq, gen_price(r), gen_fee(r, cfg.fees)));
        }
    }
    if r.chance(1, 2) {
        r.shuffle(&mut out);
    } else {
        out.sort_by_key(|t| t.date);
    }
    out
}

/// A holding that ends a sliver above zero: purchases whose total exceeds what is later sold from the
/// pool by 10⁻⁶ … 10⁻¹² of a share, sometimes followed by the sale of exactly that sliver. Shares are
/// conserved to the last digit; nothing may be swept away as dust.
pub fn gen_sliver_holding(r: &mut Rng, cfg: &GenCfg) -> Ledger {
    let (ay, am, ad) = *r.pick(ANCHORS);
    let anchor = d(ay, am, ad);
    let tk = "AAA";
    let sliver = match r.below(5) { 0 => Decimal::new(4, 7), 1 => Decimal::new(1, 6), 2 => Decimal::new(5, 8), 3 => Decimal::new(1, 9), _ => Decimal::new(1, 12) };
    let whole = Decimal::from(r.range(1, 500));
    let mut out: Ledger = Vec::new();
    out.push(GTx::new(anchor - Duration::days(r.range(40, 400)), tk, Kind::Buy, whole + sliver, gen_price(r), gen_fee(r, cfg.fees)));
    let mut sold = whole;
    if r.chance(1, 2) {
        let more = Decimal::from(r.range(1, 50));
        out.push(GTx::new(anchor - Duration::days(r.range(32, 39)), tk, Kind::Buy, more, gen_price(r), gen_fee(r, cfg.fees)));
        sold += more;
    }
    out.push(GTx::new(anchor, tk, Kind::Sell, sold, gen_price(r), gen_fee(r, cfg.fees)));
    if r.chance(1, 2) {
        out.push(GTx::new(anchor + Duration::days(r.range(31, 90)), tk, Kind::Sell, sliver, gen_price(r), Decimal::ZERO));
    }
    if cfg.max_tickers >= 2 && r.chance(1, 2) {
        out.push(GTx::new(anchor - Duration::days(r.range(1, 30)), "BBB", Kind::Buy, gen_qty(r, false), gen_price(r), gen_fee(r, cfg.fees)));
    }
    out.sort_by_key(|t| t.date);
    out
}

/// A consolidation (or split) by a ratio whose reciprocal does not terminate — 3, 6, 7, 9 — on a
/// holding that divides exactly, followed by sales of all or part of the consolidated holding.
/// Exact in decimal arithmetic as long as the code divides by the ratio (or multiplies by it).
pub fn gen_consolidation(r: &mut Rng, cfg: &GenCfg) -> Ledger {
    let tk = "AAA";
    let (ay, am, ad) = *r.pick(ANCHORS);
    let anchor = d(ay, am, ad);
    let rho = Decimal::from(*r.pick(&[3i64, 6, 7, 9]));
    let k1 = Decimal::from(*r.pick(&[10i64, 37, 100, 250]));
    let mut out: Ledger = Vec::new();
    out.push(GTx::new(anchor - Duration::days(r.range(60, 400)), tk, Kind::Buy, k1 * rho, gen_price(r), gen_fee(r, cfg.fees)));
    let mut held = k1 * rho;
    if r.chance(1, 2) {
        let k2 = Decimal::from(*r.pick(&[1i64, 5, 20]));
        out.push(GTx::new(anchor - Duration::days(r.range(41, 59)), tk, Kind::Buy, k2 * rho, gen_price(r), gen_fee(r, cfg.fees)));
        held += k2 * rho;
    }
    if r.chance(1, 3) {
        // a split by the same kind of ratio first: multiplication is exact
        let s = Decimal::from(*r.pick(&[3i64, 7]));
        out.push(GTx::new(anchor - Duration::days(40), tk, Kind::Split, s, Decimal::ZERO, Decimal::ZERO));
        held *= s;
    }
    out.push(GTx::new(anchor, tk, Kind::Unsplit, rho, Decimal::ZERO, Decimal::ZERO));
    held /= rho; // exact by construction
    let all = r.chance(1, 2);
    let q1 = if all { held } else { (held / Decimal::from(2)).floor().max(Decimal::ONE) };
    out.push(GTx::new(anchor + Duration::days(r.range(0, 50)), tk, Kind::Sell, q1, gen_price(r), gen_fee(r, cfg.fees)));
    if !all && r.chance(1, 2) {
        out.push(GTx::new(anchor + Duration::days(r.range(90, 200)), tk, Kind::Sell, held - q1, gen_price(r), gen_fee(r, cfg.fees)));
    }
    if r.chance(1, 3) { r.shuffle(&mut out); }
    out
}

/// Shrink candidates: drop one transaction, or simplify one number.
pub fn shrink_candidates(l: &Ledger) -> Vec<Ledger> {
    let mut out = Vec::new();
    for i in 0..l.len() {
        let mut c = l.clone();
        c.remove(i);
        out.push(c);
    }
    for i in 0..l.len() {
        if l[i].c != Decimal::ZERO && matches!(l[i].kind, Kind::Buy | Kind::Sell | Kind::CapReturn | Kind::Accumulation) {
            let mut c = l.clone();
            c[i].c = Decimal::ZERO;
            out.push(c);
        }
        if matches!(l[i].kind, Kind::Buy | Kind::Sell) && l[i].b != Decimal::ONE {
            let mut c = l.clone();
            c[i].b = Decimal::ONE;
            out.push(c);
        }
    }
    out
}

pub fn shrink(l: &Ledger, fails: &mut dyn FnMut(&Ledger) -> bool) -> Ledger {
    let mut cur = l.clone();
    let mut budget = 400;
    loop {
        let mut progressed = false;
        for c in shrink_candidates(&cur) {
            if budget == 0 { return cur; }
            budget -= 1;
            if fails(&c) {
                cur = c;
                progressed = true;
                break;
            }
        }
        if !progressed { return cur; }
    }
}
