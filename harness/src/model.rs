//! The compiled Lean driver, spoken to over its line protocol.
use std::io::{BufRead, BufReader, Write};
use std::process::{Child, ChildStdin, ChildStdout, Command, Stdio};

pub struct Model {
    child: Child,
    stdin: ChildStdin,
    stdout: BufReader<ChildStdout>,
    pub requests: u64,
}

pub fn driver_path() -> String {
    std::env::var("CGTMODEL_BIN").unwrap_or_else(|_| "/verif/lean/.lake/build/bin/cgtmodel".to_string())
}

impl Model {
    pub fn spawn() -> Model {
        let mut child = Command::new(driver_path())
            .stdin(Stdio::piped())
            .stdout(Stdio::piped())
            .stderr(Stdio::inherit())
            .spawn()
            .unwrap_or_else(|e| panic!("cannot start Lean driver {}: {e}", driver_path()));
        let stdin = child.stdin.take().expect("stdin");
        let stdout = BufReader::new(child.stdout.take().expect("stdout"));
        Model { child, stdin, stdout, requests: 0 }
    }
    pub fn ask(&mut self, line: &str) -> String {
        debug_assert!(!line.contains('\n'));
        self.requests += 1;
        self.stdin.write_all(line.as_bytes()).expect("write to driver");
        self.stdin.write_all(b"\n").expect("write to driver");
        self.stdin.flush().expect("flush");
        let mut out = String::new();
        let n = self.stdout.read_line(&mut out).expect("read from driver");
        if n == 0 {
            panic!("Lean driver closed its output on request: {line}");
        }
        out.trim_end().to_string()
    }
}

impl Drop for Model {
    fn drop(&mut self) {
        let _ = self.child.kill();
        let _ = self.child.wait();
    }
}
