//! The real code, in-process, under catch_unwind.
use crate::ledger::{self, GTx};
use crate::rep::{self, Out, RErr, RMatchT, RRep};
use cgt_core::matcher::Matcher;
use cgt_core::{Config, TaxReport, calculator};
use rust_decimal::Decimal;
use std::collections::HashMap;
use std::panic::{AssertUnwindSafe, catch_unwind};

pub fn quiet_panics() {
    if std::env::var("VERIF_LOUD").is_ok() { return; }
    // panics of the code under test are caught and classified; a panic of the harness itself on its
    // main thread still ends the process with status 101
    std::panic::set_hook(Box::new(|info| { if std::thread::current().name() == Some("main") && std::env::var("VERIF_TRACE_PANICS").is_ok() { eprintln!("{info}"); } }));
}

pub fn panic_msg(e: Box<dyn std::any::Any + Send>) -> String {
    if let Some(s) = e.downcast_ref::<&str>() {
        s.to_string()
    } else if let Some(s) = e.downcast_ref::<String>() {
        s.clone()
    } else {
        "panic".to_string()
    }
}

pub fn impl_match(l: &[GTx]) -> Out<Vec<RMatchT>> {
    let gbp = ledger::to_gbps(l);
    match catch_unwind(AssertUnwindSafe(|| Matcher::new().process(gbp))) {
        Err(p) => Err(RErr { kind: "panic".into(), detail: panic_msg(p) }),
        Ok(Err(e)) => Err(rep::classify_err(&e)),
        Ok(Ok(r)) => Ok(rep::from_matches(&r)),
    }
}

pub fn config_from(ex: &[(u16, Decimal)]) -> Config {
    let mut exemptions = HashMap::new();
    for (y, v) in ex {
        exemptions.insert(*y, *v);
    }
    Config { exemptions }
}

pub fn embedded_exemptions() -> Vec<(u16, Decimal)> {
    let c = Config::embedded().expect("embedded config");
    let mut v: Vec<(u16, Decimal)> = c.exemptions.into_iter().collect();
    v.sort();
    v
}

pub fn wide_exemptions() -> Vec<(u16, Decimal)> {
    // every year 1900..=2100 so that generated dates never hit the exemption error unless wanted
    (1900u16..=2100).map(|y| (y, Decimal::from(1000 + (y as i64 % 7) * 500))).collect()
}

pub fn exemptions_wire(ex: &[(u16, Decimal)]) -> String {
    if ex.is_empty() {
        return "-".into();
    }
    ex.iter().map(|(y, v)| format!("{}={}", y, crate::q::Q::from_dec(*v).wire())).collect::<Vec<_>>().join(";")
}

pub fn impl_calc_raw(l: &[GTx], year: Option<i32>, ex: &[(u16, Decimal)]) -> Result<Result<TaxReport, cgt_core::CgtError>, String> {
    let txs = ledger::to_txs(l);
    let cfg = config_from(ex);
    catch_unwind(AssertUnwindSafe(|| calculator::calculate(&txs, year, None, &cfg))).map_err(panic_msg)
}

pub fn impl_calc(l: &[GTx], year: Option<i32>, ex: &[(u16, Decimal)]) -> Out<RRep> {
    match impl_calc_raw(l, year, ex) {
        Err(p) => Err(RErr { kind: "panic".into(), detail: p }),
        Ok(Err(e)) => Err(rep::classify_err(&e)),
        Ok(Ok(r)) => Ok(rep::from_report(&r)),
    }
}

pub fn model_match(m: &mut crate::model::Model, l: &[GTx]) -> Result<Out<Vec<RMatchT>>, String> {
    let resp = m.ask(&format!("match {}", ledger::wire(l)));
    rep::parse_match(&resp)
}

pub fn model_calc(m: &mut crate::model::Model, l: &[GTx], year: Option<i32>, ex: &[(u16, Decimal)]) -> Result<Out<RRep>, String> {
    let y = match year {
        Some(y) => y.to_string(),
        None => "-".into(),
    };
    let resp = m.ask(&format!("calc {} {} {}", y, exemptions_wire(ex), ledger::wire(l)));
    rep::parse_report(&resp)
}

pub type RawMatch = (Vec<cgt_core::matcher::MatchResult>, HashMap<String, cgt_core::Section104Holding>);

pub fn impl_match_raw(l: &[GTx]) -> Result<Result<RawMatch, cgt_core::CgtError>, String> {
    let gbp = ledger::to_gbps(l);
    catch_unwind(AssertUnwindSafe(|| Matcher::new().process(gbp))).map_err(panic_msg)
}

/// the model's `reportFrom` applied to the implementation's own matcher output
pub fn model_report_from(m: &mut crate::model::Model, raw: &RawMatch, l: &[GTx], year: Option<i32>, ex: &[(u16, Decimal)]) -> Result<Out<RRep>, String> {
    use crate::q::Q;
    let y = match year { Some(y) => y.to_string(), None => "-".into() };
    let mut toks: Vec<String> = Vec::new();
    let fd = |d: chrono::NaiveDate| format!("{}-{}-{}", chrono::Datelike::year(&d), chrono::Datelike::month(&d), chrono::Datelike::day(&d));
    for mr in &raw.0 {
        let md = &mr.match_detail;
        toks.push(format!("L,{},{},{},{},{},{},{},{},{}", mr.disposal_ticker, fd(mr.disposal_date), rep::rule_name(&md.rule),
            Q::from_dec(md.quantity).wire(), Q::from_dec(md.allowable_cost).wire(), Q::from_dec(mr.gross_proceeds).wire(),
            Q::from_dec(mr.proceeds).wire(), Q::from_dec(md.gain_or_loss).wire(),
            md.acquisition_date.map(fd).unwrap_or_else(|| "-".into())));
    }
    let mut hs: Vec<_> = raw.1.values().collect();
    hs.sort_by(|a, b| a.ticker.cmp(&b.ticker));
    for h in hs {
        toks.push(format!("H,{},{},{}", h.ticker, Q::from_dec(h.quantity).wire(), Q::from_dec(h.total_cost).wire()));
    }
    for t in l.iter().filter(|t| t.kind == crate::ledger::Kind::Dividend) {
        toks.push(t.wire());
    }
    let resp = m.ask(&format!("report {} {} {}", y, exemptions_wire(ex), toks.join(" ")));
    rep::parse_report(&resp)
}
