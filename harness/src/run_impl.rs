//! The real code, in-process, under catch_unwind.
use crate::ledger::{self, GTx};
use crate::rep::{self, Out, RErr, RMatchT, RRep};
use cgt_core::matcher::Matcher;
use cgt_core::{Config, TaxReport, calculator};
use rust_decimal::Decimal;
use std::collections::HashMap;
use std::panic::{AssertUnwindSafe, catch_unwind};

pub fn quiet_panics() {
    std::panic::set_hook(Box::new(|_| {}));
}

pub fn panic_msg(e: Box<dyn std::any::Any + Send>) -> String {
    if let Some(s) = e.downcast_ref::<&str>() {
        s.to_string()
    } else if let Some(s) = e.downcast_ref::<String>() {
        s.clone()
    } else {
        "panic".to_string()
    }
}

pub fn impl_match(l: &[GTx]) -> Out<Vec<RMatchT>> {
    let gbp = ledger::to_gbps(l);
    match catch_unwind(AssertUnwindSafe(|| Matcher::new().process(gbp))) {
        Err(p) => Err(RErr { kind: "panic".into(), detail: panic_msg(p) }),
        Ok(Err(e)) => Err(rep::classify_err(&e)),
        Ok(Ok(r)) => Ok(rep::from_matches(&r)),
    }
}

pub fn config_from(ex: &[(u16, Decimal)]) -> Config {
    let mut exemptions = HashMap::new();
    for (y, v) in ex {
        exemptions.insert(*y, *v);
    }
    Config { exemptions }
}

pub fn embedded_exemptions() -> Vec<(u16, Decimal)> {
    let c = Config::embedded().expect("embedded config");
    let mut v: Vec<(u16, Decimal)> = c.exemptions.into_iter().collect();
    v.sort();
    v
}

pub fn wide_exemptions() -> Vec<(u16, Decimal)> {
    // every year 1900..=2100 so that generated dates never hit the exemption error unless wanted
    (1900u16..=2100).map(|y| (y, Decimal::from(1000 + (y as i64 % 7) * 500))).collect()
}

pub fn exemptions_wire(ex: &[(u16, Decimal)]) -> String {
    if ex.is_empty() {
        return "-".into();
    }
    ex.iter().map(|(y, v)| format!("{}={}", y, crate::q::Q::from_dec(*v).wire())).collect::<Vec<_>>().join(";")
}

pub fn impl_calc_raw(l: &[GTx], year: Option<i32>, ex: &[(u16, Decimal)]) -> Result<Result<TaxReport, cgt_core::CgtError>, String> {
    let txs = ledger::to_txs(l);
    let cfg = config_from(ex);
    catch_unwind(AssertUnwindSafe(|| calculator::calculate(&txs, year, None, &cfg))).map_err(panic_msg)
}

pub fn impl_calc(l: &[GTx], year: Option<i32>, ex: &[(u16, Decimal)]) -> Out<RRep> {
    match impl_calc_raw(l, year, ex) {
        Err(p) => Err(RErr { kind: "panic".into(), detail: p }),
        Ok(Err(e)) => Err(rep::classify_err(&e)),
        Ok(Ok(r)) => Ok(rep::from_report(&r)),
    }
}

pub fn model_match(m: &mut crate::model::Model, l: &[GTx]) -> Result<Out<Vec<RMatchT>>, String> {
    let resp = m.ask(&format!("match {}", ledger::wire(l)));
    rep::parse_match(&resp)
}

pub fn model_calc(m: &mut crate::model::Model, l: &[GTx], year: Option<i32>, ex: &[(u16, Decimal)]) -> Result<Out<RRep>, String> {
    let y = match year {
        Some(y) => y.to_string(),
        None => "-".into(),
    };
    let resp = m.ask(&format!("calc {} {} {}", y, exemptions_wire(ex), ledger::wire(l)));
    rep::parse_report(&resp)
}
