//! Exact rationals for comparing the implementation's decimals with the model's `n/d`.
use num_bigint::BigInt;
use num_integer::Integer;
use num_traits::{One, Signed, Zero};
use rust_decimal::Decimal;
use std::cmp::Ordering;

#[derive(Clone, Debug)]
pub struct Q {
    pub n: BigInt,
    pub d: BigInt, // > 0
}

impl Q {
    pub fn new(n: BigInt, d: BigInt) -> Q {
        let (n, d) = if d.is_negative() { (-n, -d) } else { (n, d) };
        let g = n.gcd(&d);
        if g.is_zero() || g.is_one() { Q { n, d } } else { Q { n: n / &g, d: d / &g } }
    }
    pub fn int(i: i64) -> Q {
        Q { n: BigInt::from(i), d: BigInt::one() }
    }
    pub fn zero() -> Q {
        Q::int(0)
    }
    pub fn from_dec(x: Decimal) -> Q {
        let m = BigInt::from(x.mantissa());
        let d = BigInt::from(10u32).pow(x.scale());
        Q::new(m, d)
    }
    pub fn parse(s: &str) -> Option<Q> {
        let s = s.strip_prefix('#').unwrap_or(s);
        let mut it = s.splitn(2, '/');
        let n: BigInt = it.next()?.parse().ok()?;
        let d: BigInt = match it.next() {
            Some(d) => d.parse().ok()?,
            None => BigInt::one(),
        };
        if d.is_zero() { return None; }
        Some(Q::new(n, d))
    }
    pub fn wire(&self) -> String {
        if self.d.is_one() { format!("{}", self.n) } else { format!("{}/{}", self.n, self.d) }
    }
    pub fn add(&self, o: &Q) -> Q {
        Q::new(&self.n * &o.d + &o.n * &self.d, &self.d * &o.d)
    }
    pub fn sub(&self, o: &Q) -> Q {
        Q::new(&self.n * &o.d - &o.n * &self.d, &self.d * &o.d)
    }
    pub fn mul(&self, o: &Q) -> Q {
        Q::new(&self.n * &o.n, &self.d * &o.d)
    }
    pub fn div(&self, o: &Q) -> Q {
        Q::new(&self.n * &o.d, &self.d * &o.n)
    }
    pub fn neg(&self) -> Q {
        Q { n: -&self.n, d: self.d.clone() }
    }
    pub fn abs(&self) -> Q {
        Q { n: self.n.abs(), d: self.d.clone() }
    }
    pub fn is_zero(&self) -> bool {
        self.n.is_zero()
    }
    pub fn is_neg(&self) -> bool {
        self.n.is_negative()
    }
    pub fn is_pos(&self) -> bool {
        self.n.is_positive()
    }
    pub fn cmp(&self, o: &Q) -> Ordering {
        (&self.n * &o.d).cmp(&(&o.n * &self.d))
    }
    pub fn lt(&self, o: &Q) -> bool {
        self.cmp(o) == Ordering::Less
    }
    pub fn le(&self, o: &Q) -> bool {
        self.cmp(o) != Ordering::Greater
    }
    pub fn eq(&self, o: &Q) -> bool {
        self.cmp(o) == Ordering::Equal
    }
    pub fn min(&self, o: &Q) -> Q {
        if self.le(o) { self.clone() } else { o.clone() }
    }
    pub fn max(&self, o: &Q) -> Q {
        if self.le(o) { o.clone() } else { self.clone() }
    }
    pub fn sum<'a>(xs: impl Iterator<Item = &'a Q>) -> Q {
        let mut s = Q::zero();
        for x in xs { s = s.add(x); }
        s
    }
    /// |a-b| <= 10^-exp * max(1,|a|,|b|)
    pub fn close(&self, o: &Q, exp: u32) -> bool {
        let diff = self.sub(o).abs();
        let mut scale = Q::int(1);
        if scale.lt(&self.abs()) { scale = self.abs(); }
        if scale.lt(&o.abs()) { scale = o.abs(); }
        let tol = scale.mul(&Q::new(BigInt::one(), BigInt::from(10u32).pow(exp)));
        diff.le(&tol)
    }
    pub fn approx(&self) -> String {
        // decimal rendering for humans (12 dp)
        let scaled = (&self.n * BigInt::from(10u64).pow(12)).div_floor(&self.d);
        let neg = scaled.is_negative();
        let s = scaled.abs().to_string();
        let s = format!("{:0>13}", s);
        let (i, f) = s.split_at(s.len() - 12);
        let f = f.trim_end_matches('0');
        let body = if f.is_empty() { i.to_string() } else { format!("{}.{}", i, f) };
        if neg { format!("-{}", body) } else { body }
    }
}

pub const TOL_EXP: u32 = 15;
