//! C13 — layout, comments, keyword case and line endings never change what is parsed.
use super::*;
use crate::dslgen::{self, hex6};
use crate::rng::Rng;
use cgt_core::{Currency, Transaction};
use serde_json::json;

fn valid_codes(text: &str) -> String {
    // every 3-letter alphabetic run of the text that the real currency table accepts
    let mut v: Vec<String> = Vec::new();
    let chars: Vec<char> = text.chars().collect();
    for w in chars.windows(3) {
        if w.iter().all(|c| c.is_ascii_alphabetic()) {
            let code: String = w.iter().map(|c| c.to_ascii_uppercase()).collect();
            if Currency::from_code(&code).is_some() && !v.contains(&code) { v.push(code); }
        }
    }
    if !v.contains(&"GBP".to_string()) { v.push("GBP".into()); }
    v.join(";")
}

pub fn impl_parse(text: &str) -> Result<Vec<Transaction>, (Option<usize>, String)> {
    match std::panic::catch_unwind(|| cgt_core::parser::parse_file(text)) {
        Err(p) => Err((None, format!("panic: {}", crate::run_impl::panic_msg(p)))),
        Ok(Ok(t)) => Ok(t),
        Ok(Err(e)) => {
            let msg = e.to_string();
            let line = msg.split("-->").nth(1).and_then(|s| s.trim().split(':').next().map(|x| x.trim().to_string())).and_then(|s| s.parse::<usize>().ok());
            Err((line, msg))
        }
    }
}

/// model answer: Ok(list of wire txs) or Err(kind, line)
pub fn model_parse(m: &mut crate::model::Model, text: &str) -> Result<Vec<String>, (String, usize)> {
    let resp = m.ask(&format!("parse {} {}", valid_codes(text), hex6(text)));
    let t: Vec<&str> = resp.split(' ').collect();
    match t.first().copied() {
        Some("ok") => Ok(t.iter().skip(2).map(|s| s.to_string()).collect()),
        Some("err") => Err((t.get(1).unwrap_or(&"?").to_string(), t.get(2).and_then(|s| s.parse().ok()).unwrap_or(0))),
        _ => Err((format!("driver: {resp}"), 0)),
    }
}

fn corrupt(lines: &[String], r: &mut Rng) -> Option<(Vec<String>, usize)> {
    let cand: Vec<usize> = lines.iter().enumerate().filter(|(_, l)| { let t = l.trim(); !t.is_empty() && !t.starts_with('#') }).map(|(i, _)| i).collect();
    if cand.is_empty() { return None; }
    let li = *r.pick(&cand);
    let body = lines[li].split('#').next().unwrap_or("").to_string();
    let mut toks: Vec<String> = body.split_whitespace().map(|s| s.to_string()).collect();
    if toks.is_empty() { return None; }
    let k = r.below(toks.len() as u64) as usize;
    match r.below(5) {
        0 => { toks.remove(k); }
        1 => { let t = toks[k].clone(); toks.insert(k, t); }
        2 => { toks[k] = (*r.pick(&["%%", "1..2", "12.", ".5", "BUYY", "20240101", "2024-13-01", "@@", "ZZZ", "-5", "1e5", "\u{a0}", "TOTAL", "é"])).to_string(); }
        3 => { if k + 1 < toks.len() { let n = toks.remove(k + 1); toks[k].push_str(&n); } else { toks[k].push('x'); } }
        _ => { let n = toks.len().max(1); toks.swap(k, (k + 1) % n); }
    }
    let mut out = lines.to_vec();
    out[li] = toks.join(" ");
    Some((out, li + 1))
}

pub fn run(ctx: &mut Ctx) {
    let prop = "C13";
    ctx.ev.rule = "valid stream: generated transaction lists of all seven kinds (decimals of scale 0–28, mantissas to 2^96−1, tickers incl. 'SELL', 'TAX', '10', currencies incl. XXX/XTS/BHD), rendered with random non-empty blank runs (spaces/tabs, none after '@'), per-character case of keywords/currency codes/tickers, omitted GBP and zero clauses, leading blanks, blank lines, comment lines, trailing '#' comments after any complete transaction, LF/CRLF/CR per line or uniform, with/without final newline: the real parser must return exactly the generated list; a sample is also dealt over 2–3 files (earlier files mostly without a final newline, ending in a bare line or a comment) and read by the real `cgt-tool parse a b …`, which must print exactly the list (GBP for omitted currency, zero for omitted clauses, tickers upper-cased) and agree with the Lean model. hostile stream (LF or CRLF line endings): one token of one line of such a file deleted, duplicated, replaced by garbage, glued to its neighbour or swapped: accept/reject must agree with the model, the reported line (pest's '--> L:C') must be the corrupted line, and if still accepted the parsed list must equal the model's. Non-trivial = files with ≥ 2 transactions and at least one non-LF line ending or comment; distinct by text.".into();
    let mut r = Rng::new(ctx.seed ^ 0xC13);
    let n = ctx.n(600, 40_000);
    let mut cli_left: u32 = if ctx.tier == Tier::Quick { 16 } else { 200 };
    for i in 0..n {
        ctx.ev.evaluations += 1;
        let k = 1 + r.below(6) as usize;
        let txs: Vec<Transaction> = (0..k).map(|_| dslgen::gen_tx(&mut r)).collect();
        let f = dslgen::render_file(&txs, &mut r, true);
        if k >= 2 && (f.text.contains('\r') || f.text.contains('#')) { ctx.ev.nontrivial.insert(f.text.clone()); }
        for e in &f.eols { ctx.ev.count(match *e { "\n" => "eol:LF", "\r\n" => "eol:CRLF", _ => "eol:CR" }); }
        let expect: Vec<Transaction> = txs.iter().map(|t| { let mut t = t.clone(); t.ticker = t.ticker.to_uppercase(); t }).collect();
        // the same list dealt over two or three files and read by the real `cgt-tool parse a.cgt b.cgt …`:
        // each file in its own layout, the earlier ones without a final newline (bare last line, or a
        // trailing / full-line comment last) three times in four
        if cli_left > 0 && k >= 2 && crate::cli::available() {
            cli_left -= 1;
            ctx.ev.count("cli-multi-file-parses");
            let sc = crate::cli::Scratch::new();
            let parts = if k >= 3 && r.chance(1, 2) { 3 } else { 2 };
            let mut names: Vec<String> = Vec::new();
            let mut shown = String::new();
            for pi in 0..parts {
                let (lo, hi) = (pi * k / parts, (pi + 1) * k / parts);
                let mut body = dslgen::render_file(&txs[lo..hi], &mut r, true).text;
                if pi + 1 < parts && r.chance(3, 4) {
                    while body.ends_with('\n') || body.ends_with('\r') { body.pop(); }
                    match r.below(3) { 0 => {}, 1 => body.push_str("  # end of this part"), _ => body.push_str("\n# a closing comment line") }
                }
                let name = format!("part{pi}.cgt");
                sc.write(&name, &body);
                shown.push_str(&format!("# --- {name} (escaped): {:?}\n", body));
                names.push(name);
            }
            let mut args: Vec<&str> = vec!["parse"];
            for nm in &names { args.push(nm); }
            let o = crate::cli::run(&sc, &args);
            let want = serde_json::to_value(&expect).unwrap_or_default();
            let got_cli: serde_json::Value = serde_json::from_slice(&o.stdout).unwrap_or_default();
            if o.code != Some(0) || got_cli != want {
                ctx.ev.violation("oracle", format!("`cgt-tool parse` over {parts} files (exit {:?}) does not give the {} transactions the files contain: {}", o.code, expect.len(), o.stderr.lines().next().unwrap_or("different list")), format!("# property C13\n# oracle: cgt-tool parse part0.cgt part1.cgt …\n{shown}"));
            }
        }
        let got = impl_parse(&f.text);
        match &got {
            Ok(g) => {
                ctx.ev.count("valid-accepted");
                if *g != expect {
                    let idx = g.iter().zip(&expect).position(|(a, b)| a != b).unwrap_or(g.len().min(expect.len()));
                    ctx.ev.violation("oracle", format!("layout changed what is parsed: {} transactions read, {} written; first difference at transaction {}", g.len(), expect.len(), idx + 1), format!("# property C13\n# oracle: the text below (escaped) must parse to the {} generated transactions\n{:?}\n", expect.len(), f.text));
                }
            }
            Err((line, msg)) => {
                ctx.ev.violation("oracle", format!("a valid file in an allowed layout is rejected (line {:?}): {}", line, msg.lines().next().unwrap_or("")), format!("# property C13\n# oracle: valid layout rejected\n{:?}\n", f.text));
            }
        }
        if let Some(m) = ctx.model.as_mut() {
            ctx.ev.traces_validated += 1;
            let mo = model_parse(m, &f.text);
            let iw: Result<Vec<String>, ()> = got.as_ref().map(|g| g.iter().map(dslgen::tx_wire).collect()).map_err(|_| ());
            match (&iw, &mo) {
                (Ok(a), Ok(b)) if a == b => {}
                (Err(_), Err(_)) => {}
                _ => ctx.ev.violation("correspondence", format!("valid file: impl {:?} vs model {:?}", iw.as_ref().map(|v| v.len()), mo.as_ref().map(|v| v.len())), format!("# property C13\n# correspondence: parser model\n{:?}\n", f.text)),
            }
        }
        // hostile variant
        if let Some((lines, bad_line)) = corrupt(&f.lines, &mut r) {
            ctx.ev.count("corruptions");
            // LF or CRLF throughout: either way the offending line's number is its ordinal
            let text = lines.join(if r.chance(1, 2) { "\n" } else { "\r\n" });
            let got = impl_parse(&text);
            match &got {
                Ok(_) => ctx.ev.count("corrupted-still-valid"),
                Err((line, msg)) => {
                    ctx.ev.count("corrupted-rejected");
                    if msg.starts_with("panic") { ctx.ev.violation("crash", msg.clone(), format!("# property C13\n{:?}\n", text)); }
                    else if *line != Some(bad_line) {
                        // a corruption can also be detected on an earlier valid-looking line only if that line is itself wrong: never here
                        ctx.ev.violation("oracle", format!("the error points at line {:?} but line {} was corrupted: {}", line, bad_line, msg.lines().next().unwrap_or("")), format!("# property C13\n# oracle: error must identify the offending line ({bad_line})\n{:?}\n", text));
                    }
                }
            }
            if let Some(m) = ctx.model.as_mut() {
                ctx.ev.traces_validated += 1;
                let mo = model_parse(m, &text);
                match (&got, &mo) {
                    (Ok(g), Ok(b)) => { let a: Vec<String> = g.iter().map(dslgen::tx_wire).collect(); if a != *b { ctx.ev.violation("correspondence", "corrupted-but-valid file parses differently in impl and model".into(), format!("# property C13\n{:?}\n", text)); } }
                    (Err((line, _)), Err((_, ml))) => { if *line != Some(*ml) { ctx.ev.violation("correspondence", format!("error line: impl {:?} vs model {}", line, ml), format!("# property C13\n# correspondence: error line\n{:?}\n", text)); } }
                    (a, b) => ctx.ev.violation("correspondence", format!("corrupted file: impl accepts={} model accepts={}", a.is_ok(), b.is_ok()), format!("# property C13\n# correspondence: accept/reject\n{:?}\n", text)),
                }
            }
        }
        if i < 2 { ctx.ev.sample(json!({"text": f.text})); }
    }
}
