//! C03 — allowable expenditure is conserved.
use super::*;
use crate::q::Q;
use crate::rep::{self, Proj, RMatchT};
use crate::run_impl;
use serde_json::json;

/// Σ legs' cost + closing cost − Σ purchases (q·p + fees), per security
pub fn imbalance(l: &[GTx], out: &[RMatchT], tk: &str) -> Q {
    let empty = RMatchT { ticker: tk.to_string(), pool: None, legs: vec![] };
    let r = out.iter().find(|x| x.ticker == tk).unwrap_or(&empty);
    let used = Q::sum(r.legs.iter().map(|x| &x.cost)).add(&r.pool.as_ref().map(|p| p.1.clone()).unwrap_or_else(Q::zero));
    let bought = Q::sum(l.iter().filter(|t| t.ticker == tk && t.kind == Kind::Buy).map(|t| Q::from_dec(t.a).mul(&Q::from_dec(t.b)).add(&Q::from_dec(t.c))).collect::<Vec<_>>().iter());
    used.sub(&bought)
}

/// signed net amounts of the security's cost events
pub fn events(l: &[GTx], tk: &str) -> Vec<Q> {
    l.iter().filter(|t| t.ticker == tk).filter_map(|t| match t.kind {
        Kind::Accumulation => Some(Q::from_dec(t.b)),
        Kind::CapReturn => Some(Q::from_dec(t.b).sub(&Q::from_dec(t.c)).neg()),
        _ => None,
    }).collect()
}

/// effective iff shares were held when the event's day began: purchases minus sales of the earlier days,
/// rescaled by the splits of those days (`position_before`)
pub fn effective_simple(l: &[GTx], tk: &str) -> Option<Vec<bool>> {
    Some(l.iter().filter(|t| t.ticker == tk && matches!(t.kind, Kind::Accumulation | Kind::CapReturn)).map(|e| position_before(l, tk, e.date).is_pos()).collect())
}

pub fn oracle(l: &[GTx], out: &[RMatchT]) -> Option<String> {
    let mut tickers: Vec<&str> = l.iter().map(|t| t.ticker.as_str()).collect();
    tickers.sort();
    tickers.dedup();
    for tk in tickers {
        let diff = imbalance(l, out, tk);
        let ev = events(l, tk);
        let want = match effective_simple(l, tk) {
            Some(eff) => Q::sum(ev.iter().zip(&eff).filter(|(_, e)| **e).map(|(v, _)| v)),
            None => {
                // with splits in play the pre-pass's idea of "held" is its own (D5): accept any
                // subset of the events as the effective ones, nothing else
                let n = ev.len().min(12);
                let mut found = None;
                for mask in 0u32..(1 << n) {
                    let s = Q::sum(ev.iter().take(n).enumerate().filter(|(i, _)| mask >> i & 1 == 1).map(|(_, v)| v));
                    if s.close(&diff, 12) { found = Some(s); break; }
                }
                match found { Some(s) => s, None => return Some(format!("{tk}: legs' cost + closing cost − purchases' cost = {} is not the sum of any subset of the cost events {:?}", diff.approx(), ev.iter().map(|v| v.approx()).collect::<Vec<_>>())) }
            }
        };
        if !diff.close(&want, 12) {
            return Some(format!("{tk}: legs' allowable cost + closing holding cost exceeds the purchases' cost by {} but the cost events that took effect sum to {}", diff.approx(), want.approx()));
        }
    }
    None
}

/// the same conservation law with every amount in its own currency (price/total and fees drawn
/// independently from GBP, USD, EUR; bundled monthly rates): each amount counts at amount ÷ the rate of its
/// own currency in its own month
fn foreign_currency(ctx: &mut Ctx, cases: &[(String, Ledger)]) {
    use cgt_core::{Currency, CurrencyAmount, Operation, Transaction};
    use rust_decimal::Decimal;
    let Ok(cache) = cgt_money::load_default_cache() else { ctx.ev.notes.push("bundled FX cache not loadable: foreign-currency ledgers not exercised".into()); return; };
    let mut r = crate::rng::Rng::new(ctx.seed ^ 0xC03F);
    let cfg = run_impl::config_from(&run_impl::wide_exemptions());
    let codes = ["GBP", "USD", "EUR"];
    let n = ctx.n(120, 6000) as usize;
    for (name, l) in cases.iter().filter(|(_, l)| well_formed(l) && l.iter().all(|t| chrono::Datelike::year(&t.date) >= 2016 && chrono::Datelike::year(&t.date) <= 2024)).take(n) {
        let rate = |code: &str, d: chrono::NaiveDate| -> Option<Q> { if code == "GBP" { Some(Q::int(1)) } else { cache.get(Currency::from_code(code)?, chrono::Datelike::year(&d), chrono::Datelike::month(&d)).map(|e| Q::from_dec(e.rate_per_gbp)) } };
        let am = |x: Decimal, c: &str| CurrencyAmount::new(x, Currency::from_code(c).expect("code"));
        let mut txs: Vec<Transaction> = Vec::new();
        // per line: (price/total in GBP, fees in GBP)
        let mut gbp: Vec<(Q, Q)> = Vec::new();
        let mut ok = true;
        let mut mixed = false;
        for t in l {
            let (pc, fc) = (*r.pick(&codes), *r.pick(&codes));
            if pc != fc && pc != "GBP" && fc != "GBP" { mixed = true; }
            let (Some(rp), Some(rf)) = (rate(pc, t.date), rate(fc, t.date)) else { ok = false; break };
            let mut tx = t.to_tx();
            match &mut tx.operation {
                Operation::Buy { price, fees, .. } | Operation::Sell { price, fees, .. } => { *price = am(t.b, pc); *fees = am(t.c, fc); }
                Operation::CapReturn { total_value, fees, .. } => { *total_value = am(t.b, pc); *fees = am(t.c, fc); }
                Operation::Accumulation { total_value, tax_paid, .. } => { *total_value = am(t.b, pc); *tax_paid = am(t.c, fc); }
                _ => {}
            }
            gbp.push((Q::from_dec(t.b).div(&rp), Q::from_dec(t.c).div(&rf)));
            txs.push(tx);
        }
        if !ok { continue; }
        let Ok(Ok(rep)) = std::panic::catch_unwind(std::panic::AssertUnwindSafe(|| cgt_core::calculator::calculate(&txs, None, Some(&cache), &cfg))) else { continue };
        let rep = rep::from_report(&rep);
        ctx.ev.evaluations += 1;
        ctx.ev.count("foreign-currency-ledgers");
        if mixed { ctx.ev.count("foreign-currency-ledgers:two-foreign-currencies-on-one-line"); }
        let mut tickers: Vec<&str> = l.iter().map(|t| t.ticker.as_str()).collect();
        tickers.sort(); tickers.dedup();
        for tk in tickers {
            let legs = Q::sum(rep.years.iter().flat_map(|y| y.disposals.iter()).filter(|d| d.ticker == tk).flat_map(|d| d.legs.iter().map(|x| &x.cost)));
            let closing = rep.holdings.iter().find(|h| h.0 == tk).map(|h| h.2.clone()).unwrap_or_else(Q::zero);
            let bought = Q::sum(l.iter().zip(&gbp).filter(|(t, _)| t.ticker == tk && t.kind == Kind::Buy).map(|(t, g)| Q::from_dec(t.a).mul(&g.0).add(&g.1)).collect::<Vec<_>>().iter());
            let events = Q::sum(l.iter().zip(&gbp).filter(|(t, _)| t.ticker == tk && matches!(t.kind, Kind::Accumulation | Kind::CapReturn) && position_before(l, tk, t.date).is_pos()).map(|(t, g)| if t.kind == Kind::Accumulation { g.0.clone() } else { g.0.sub(&g.1).neg() }).collect::<Vec<_>>().iter());
            let diff = legs.add(&closing).sub(&bought);
            if !diff.close(&events, 12) {
                let lines: Vec<String> = txs.iter().map(cgt_core::dsl::transaction_to_dsl).collect();
                let what = format!("{tk}: legs' allowable cost + closing cost − purchases' cost (each amount at its own currency's rate for its month) = {} but the cost events that took effect sum to {}", diff.approx(), events.approx());
                ctx.ev.violation("oracle", format!("foreign-currency ledger: {what}"), format!("# property C03\n# oracle (bundled monthly rates): {what}\n# case {name}\n{}\n", lines.join("\n")));
                break;
            }
        }
    }
}

pub fn run(ctx: &mut Ctx) {
    let prop = "C03";
    let cfg = GenCfg::standard();
    let n = ctx.n(700, 50_000);
    let cases = matcher_cases(prop, ctx, &cfg, n);
    ctx.ev.rule = "corpus + fixtures + generated ledgers (fees on every trade, partial lots, same-day/30-day/pool mixes, splits, cost events while shares are held; plus two lots of very different unit cost followed by a capital return that exceeds the cheap lot's own cost per share). Foreign-currency variants (price/total and fees of every line drawn independently from GBP/USD/EUR, bundled rates): the same law with each amount at its own currency's rate for its month. Oracle on the real matcher's full-precision output: per security Σ legs' allowable cost + closing cost − Σ (q·p + fees) = Σ signed cost events that took effect (events dated when the position, rescaled by earlier splits, was positive). Correspondence: costs of legs (per rule and acquisition date) and closing cost vs the Lean model. Known-finding class zeroQuantityBuyWithCost (D14) is probed with two fixed ledgers. Non-trivial = accepted ledger with ≥ 2 rules in use and a fee > 0, or an effective cost event; distinct by ledger text.".into();
    // known finding D14 (class zeroQuantityBuyWithCost): the ledgers below are not validator-clean, so the
    // theorems (which assume WellFormed) and the main loop skip them; `report` accepts them all the same
    {
        use rust_decimal::Decimal;
        const D14: &str = "D14: a BUY of zero shares with a price or fees is accepted by calculate()/`report` (only the standalone validator objects) and its cost appears neither in a leg nor in the closing holding";
        for fee in [Decimal::from(10), Decimal::new(1, 2)] {
            let l: Ledger = vec![
                GTx::new(ledger::d(2024, 1, 2), "AAA", Kind::Buy, Decimal::ZERO, Decimal::from(5), fee),
                GTx::new(ledger::d(2024, 1, 3), "AAA", Kind::Buy, Decimal::from(10), Decimal::from(5), Decimal::ZERO),
                GTx::new(ledger::d(2024, 2, 3), "AAA", Kind::Sell, Decimal::from(4), Decimal::from(6), Decimal::ZERO),
            ];
            ctx.ev.evaluations += 1;
            match run_impl::impl_match(&l) {
                Ok(out) => if oracle(&l, &out).is_some() { ctx.ev.known("zeroQuantityBuyWithCost", D14); } else { ctx.ev.count("zero-quantity-buy:cost-kept") },
                Err(e) if e.kind == "panic" => ctx.ev.violation("crash", e.detail.clone(), replay_text(prop, "crash", &e.detail, &l, &[])),
                Err(_) => ctx.ev.count("zero-quantity-buy:refused"),
            }
        }
    }
    // a capital return that is larger, per share, than a cheap lot's own cost (but within the cost of all the
    // lots together): every pound of it must still come off some leg or off the closing holding
    let mut cases = cases;
    {
        use rust_decimal::Decimal;
        let mut r = crate::rng::Rng::new(ctx.seed ^ 0xC03);
        for i in 0..ctx.n(30, 1500) {
            let d0 = ledger::d(2021 + r.below(3) as i32, 1 + r.below(12) as u32, 1 + r.below(28) as u32);
            let (q1, q2) = (Decimal::from(r.range(10, 200)), Decimal::from(r.range(10, 200)));
            let low = Decimal::new(r.range(1, 300), 2);
            let high = Decimal::from(r.range(8, 60));
            let total_cost = q1 * low + q2 * high;
            // per share above the cheap lot's price, in total below what the lots cost
            let per_share_floor = low * (q1 + q2);
            let v = (per_share_floor + (total_cost - per_share_floor) * Decimal::new(r.range(5, 90), 2)).round_dp(2);
            if v <= per_share_floor || v >= total_cost { continue; }
            let mut l: Ledger = vec![
                GTx::new(d0, "AAA", Kind::Buy, q1, low, Decimal::ZERO),
                GTx::new(d0 + chrono::Duration::days(r.range(1, 200)), "AAA", Kind::Buy, q2, high, ledger::gen_fee(&mut r, true)),
            ];
            let dc = l[1].date + chrono::Duration::days(r.range(1, 100));
            l.push(GTx::new(dc, "AAA", Kind::CapReturn, q1 + q2, v, Decimal::ZERO));
            if r.chance(2, 3) { l.push(GTx::new(dc + chrono::Duration::days(r.range(0, 90)), "AAA", Kind::Sell, Decimal::from(r.range(1, 9)), high, Decimal::ZERO)); }
            if r.chance(1, 3) { l.push(GTx::new(dc + chrono::Duration::days(r.range(0, 40)), "AAA", Kind::Buy, Decimal::from(r.range(1, 50)), high, Decimal::ZERO)); }
            if r.chance(1, 3) { r.shuffle(&mut l); }
            cases.push((format!("cheap-lot#{i}"), l));
        }
    }
    foreign_currency(ctx, &cases);
    let mut cli_left: u32 = if ctx.tier == Tier::Quick { 8 } else { 80 };
    for (name, l) in cases {
        if cli_left > 0 && well_formed(&l) && l.len() >= 3 { cli_left -= 1; cli_crosscheck(ctx, prop, &l, None); }
        if !well_formed(&l) { continue; }
        ctx.ev.evaluations += 1;
        let imp = run_impl::impl_match(&l);
        let msd = multi_sell_day(&l);
        match &imp {
            Ok(out) => {
                ctx.ev.count("accepted");
                let rules: std::collections::BTreeSet<&str> = out.iter().flat_map(|t| t.legs.iter().map(|x| x.rule.as_str())).collect();
                if (rules.len() >= 2 && l.iter().any(|t| !t.c.is_zero())) || has_cost_events(&l) { ctx.ev.nontrivial.insert(ledger::dsl(&l)); }
                if has_cost_events(&l) { ctx.ev.count("with-cost-events"); }
                if let Some(what) = oracle(&l, out) {
                    let mut f = |c: &Ledger| well_formed(c) && matches!(run_impl::impl_match(c), Ok(o) if oracle(c, &o).is_some());
                    let small = ledger::shrink(&l, &mut f);
                    let what2 = match run_impl::impl_match(&small) { Ok(o) => oracle(&small, &o).unwrap_or(what.clone()), _ => what.clone() };
                    ctx.ev.violation("oracle", what2.clone(), replay_text(prop, "oracle", &what2, &small, &[format!("case {name}")]));
                }
            }
            Err(e) => {
                ctx.ev.count(&format!("rejected:{}", e.kind));
                if e.kind == "panic" { ctx.ev.violation("crash", e.detail.clone(), replay_text(prop, "crash", &e.detail, &l, &[])); }
            }
        }
        if let Some(m) = ctx.model.as_mut() {
            match run_impl::model_match(m, &l) {
                Err(e) => ctx.ev.violation("correspondence", format!("driver: {e}"), replay_text(prop, "correspondence", &e, &l, &[])),
                Ok(mo) => {
                    ctx.ev.traces_validated += 1;
                    // projection: costs (per rule and acquisition date) and closing cost
                    let mut p = Proj::full();
                    p.legs_exact = false;
                    p.err_detail = false;
                    let _ = msd;
                    if let Some(what) = rep::diff_match(&imp, &mo, &p) {
                        ctx.ev.violation("correspondence", what.clone(), replay_text(prop, "correspondence (costs: implementation vs Lean model)", &what, &l, &[format!("case {name}")]));
                    }
                }
            }
        }
        // the full statement against the model: legs' cost + closing cost − purchases must be exactly
        // the model's `effAll` (signed amounts of the events that found shares held in the pre-pass),
        // and the purchases' cost the model's `purchasesOf` — splits or not
        if let (Ok(out), Some(m)) = (&imp, ctx.model.as_mut()) {
            let resp = m.ask(&format!("eff {}", ledger::wire(&l)));
            match resp.strip_prefix("ok") {
                None => ctx.ev.violation("correspondence", format!("driver eff: {resp}"), replay_text(prop, "correspondence", &resp, &l, &[])),
                Some(body) => for part in body.split(' ').filter(|x| !x.is_empty()) {
                    let f: Vec<&str> = part.split(':').collect();
                    if f.len() != 3 { continue; }
                    let (tk, pm, em) = (f[0], Q::parse(f[1]), Q::parse(f[2]));
                    let (Some(pm), Some(em)) = (pm, em) else { continue };
                    ctx.ev.count("eff-comparisons");
                    if !em.is_zero() { ctx.ev.count("eff-comparisons:nonzero"); }
                    let bought = Q::sum(l.iter().filter(|t| t.ticker == tk && t.kind == Kind::Buy).map(|t| Q::from_dec(t.a).mul(&Q::from_dec(t.b)).add(&Q::from_dec(t.c))).collect::<Vec<_>>().iter());
                    if !bought.close(&pm, 12) { ctx.ev.violation("correspondence", format!("{tk}: purchases' cost {} vs model purchasesOf {}", bought.approx(), pm.approx()), replay_text(prop, "correspondence (purchases)", tk, &l, &[format!("case {name}")])); }
                    let diff = imbalance(&l, out, tk);
                    if !diff.close(&em, 12) {
                        ctx.ev.violation("correspondence", format!("{tk}: legs' cost + closing cost − purchases = {} but the events that took effect (model effAll) sum to {}", diff.approx(), em.approx()), replay_text(prop, "correspondence (C03_ledger_full: implementation's imbalance vs Lean effAll)", tk, &l, &[format!("case {name}")]));
                    }
                }
            }
        }
        if ctx.ev.samples.len() < 3 && imp.is_ok() && has_cost_events(&l) {
            ctx.ev.sample(json!({"case": name, "ledger": ledger::dsl(&l).lines().collect::<Vec<_>>()}));
        }
    }
}
