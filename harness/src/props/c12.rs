//! C12 — figures for earlier years do not change when later transactions are added.
use super::*;
use crate::rep::{self, Proj, RRep};
use crate::rng::Rng;
use crate::run_impl;
use chrono::{Duration, NaiveDate};
use serde_json::json;

fn upto(r: &RRep, last: NaiveDate) -> RRep {
    let mut out = r.clone();
    for y in &mut out.years { y.disposals.retain(|d| d.date <= last); }
    out.years.retain(|y| !y.disposals.is_empty());
    out.holdings.clear();
    out
}

pub fn run(ctx: &mut Ctx) {
    let prop = "C12";
    let cfg = GenCfg::standard();
    let n = ctx.n(500, 30_000);
    let mut cases = matcher_cases(prop, ctx, &cfg, n);
    // prefixes written out of date order with a day of two separate SELL lines of one security (a purchase and a
    // line of another security between them): what the earlier disposal's legs are must not depend on how many
    // lines follow (a sort that is not stable reorders same-day lines once the list grows)
    {
        use rust_decimal::Decimal;
        let mut rr = Rng::new(ctx.seed ^ 0xC125);
        for i in 0..ctx.n(12, 500) {
            let d0 = ledger::d(2021 + rr.below(3) as i32, 1 + rr.below(12) as u32, 1 + rr.below(28) as u32);
            let day = d0 + Duration::days(rr.range(40, 200));
            let mut l: Ledger = vec![
                GTx::new(day, "AAA", Kind::Sell, Decimal::from(rr.range(5, 30)), Decimal::from(rr.range(5, 15)), Decimal::ZERO),
                GTx::new(day, "BBB", Kind::Buy, Decimal::from(10), Decimal::from(3), Decimal::ZERO),
                GTx::new(day, "AAA", Kind::Buy, Decimal::from(rr.range(10, 40)), Decimal::from(rr.range(2, 9)), Decimal::ONE),
                GTx::new(d0, "AAA", Kind::Buy, Decimal::from(200), Decimal::from(rr.range(1, 6)), Decimal::ZERO),
                GTx::new(day, "AAA", Kind::Sell, Decimal::from(rr.range(5, 30)), Decimal::from(rr.range(16, 30)), Decimal::from(2)),
                GTx::new(d0 + Duration::days(3), "BBB", Kind::Buy, Decimal::from(5), Decimal::from(2), Decimal::ZERO),
            ];
            if rr.chance(1, 2) { l.reverse(); }
            cases.push((format!("unordered-multisell#{i}"), l));
            // … and a 30-day candidate purchase of MMM on a day that also has a sale of MMM and, written after them,
            // a line of a security sorting before it: how much of that purchase is kept for the day's own sale
            // must not depend on how many lines follow (a search by position in the date-sorted list would)
            let day2 = d0 + Duration::days(rr.range(40, 200));
            let l2: Ledger = vec![
                GTx::new(d0, "MMM", Kind::Buy, Decimal::from(100), Decimal::from(10), Decimal::ZERO),
                GTx::new(day2 - Duration::days(rr.range(1, 29)), "MMM", Kind::Sell, Decimal::from(rr.range(30, 60)), Decimal::from(14), Decimal::ZERO),
                GTx::new(day2, "MMM", Kind::Buy, Decimal::from(rr.range(20, 50)), Decimal::from(11), Decimal::ZERO),
                GTx::new(day2, "MMM", Kind::Sell, Decimal::from(rr.range(5, 20)), Decimal::from(12), Decimal::ZERO),
                GTx::new(day2, "AAA", Kind::Buy, Decimal::from(rr.range(1, 9)), Decimal::from(5), Decimal::ZERO),
                GTx::new(day2, "ZZZ", Kind::Buy, Decimal::from(rr.range(1, 9)), Decimal::from(5), Decimal::ZERO),
            ];
            cases.push((format!("unordered-multisell-probe#{i}"), l2));
        }
    }
    // a 30-day match across a SPLIT, at quantities where the buy-back is exactly (or not quite) used up; continued,
    // long after, by a consolidation whose ratio has no finite decimal reciprocal: nothing of the earlier match
    // may move, and the ledger stays accepted
    {
        use rust_decimal::Decimal;
        for (i, (sold, back)) in [(30i64, 60i64), (17, 34), (30, 40), (25, 50), (9, 18), (30, 61)].iter().enumerate() {
            for (j, ratio) in [3i64, 6, 7, 9, 11, 13].iter().enumerate() {
                if (i + j) % 2 == 1 && ctx.tier == Tier::Quick { continue; }
                let d0 = ledger::d(2022, 1 + (i as u32 * 2) % 12, 3 + j as u32);
                let l: Ledger = vec![
                    GTx::new(d0, "ACME", Kind::Buy, Decimal::from(100), Decimal::from(10), Decimal::ZERO),
                    GTx::new(d0 + Duration::days(60), "ACME", Kind::Sell, Decimal::from(*sold), Decimal::from(12), Decimal::ZERO),
                    GTx::new(d0 + Duration::days(64), "ACME", Kind::Split, Decimal::TWO, Decimal::ZERO, Decimal::ZERO),
                    GTx::new(d0 + Duration::days(69), "ACME", Kind::Buy, Decimal::from(*back), Decimal::from(6), Decimal::ZERO),
                ];
                cases.push((format!("late-consolidation#{ratio}#{i}"), l));
            }
        }
    }
    ctx.ev.rule = "each accepted generated ledger P (plus 30-day matches across a SPLIT continued long after by a consolidation with an inexact ratio; plus prefixes written out of date order with a day of two separate SELL lines, continued by 15–44 later lines and compared leg for leg; a long single-security history is cut at its 29th–33rd purchase, its remainder becoming S) × a generated continuation S (no CAPRETURN/ACCUMULATION; in half the cases with a SPLIT/UNSPLIT of a security that P holds, by preference one whose purchases P's capital events adjusted) shifted to start 31, 32 or more days after P's last transaction (exactly 31 in a third of the cases): the real calculate() on P ++ S must either reject with an error dated in S or list, for every disposal dated within P, the same legs, costs, proceeds and gain as calculate() on P. Correspondence: P ++ S vs the model. Non-trivial = P has a disposal in its last 30 days and S contains a purchase of the same security; distinct by ledger text.".into();
    let ex = run_impl::wide_exemptions();
    let mut r = Rng::new(ctx.seed ^ 0xC12);
    let mut scfg = cfg.clone();
    scfg.cost_events = false;
    let mut cli_left: u32 = if ctx.tier == Tier::Quick { 8 } else { 80 };
    for (name, p) in cases {
        if !well_formed(&p) || p.is_empty() { continue; }
        // a long single-security history is cut in two: the prefix ends at its 29th–33rd purchase, the rest
        // (without its capital events) becomes the continuation — thresholds in the lot bookkeeping are then
        // crossed by the appended lines, not inside the prefix
        let mut forced: Option<Ledger> = None;
        let p = if p.len() >= 40 && p.iter().all(|t| t.ticker == p[0].ticker) {
            let mut sorted = p.clone();
            sorted.sort_by_key(|t| t.date);
            let m = 29 + r.below(5) as usize;
            let cut = sorted.iter().enumerate().filter(|(_, t)| t.kind == Kind::Buy).nth(m - 1).map(|(i, _)| i);
            match cut {
                Some(c) if c + 1 < sorted.len() => {
                    let cut_date = sorted[c].date;
                    let (head, tail): (Ledger, Ledger) = sorted.into_iter().partition(|t| t.date <= cut_date);
                    let tail: Ledger = tail.into_iter().filter(|t| !matches!(t.kind, Kind::CapReturn | Kind::Accumulation)).collect();
                    if !tail.is_empty() { forced = Some(tail); }
                    head
                }
                _ => p,
            }
        } else { p };
        ctx.ev.evaluations += 1;
        let base = run_impl::impl_calc(&p, None, &ex);
        let Ok(brep) = &base else { ctx.ev.count("prefix-rejected"); continue };
        ctx.ev.count("prefix-accepted");
        let last = p.iter().map(|t| t.date).max().expect("non-empty");
        // continuation on the same tickers, shifted after last + gap
        let forced_block: Option<()> = if name.starts_with("unordered-multisell") { Some(()) } else { None };
        let mut s = match forced {
            Some(t) => { ctx.ev.count("long-history-cut"); t }
            None if name.starts_with("late-consolidation") => {
                ctx.ev.count("late-consolidation-prefix");
                let ratio: i64 = name.split('#').nth(1).and_then(|x| x.parse().ok()).unwrap_or(3);
                vec![GTx::new(last + Duration::days(400), "ACME", Kind::Unsplit, rust_decimal::Decimal::from(ratio), rust_decimal::Decimal::ZERO, rust_decimal::Decimal::ZERO)]
            }
            None if forced_block.is_some() => {
                ctx.ev.count("unordered-multisell-prefix");
                let k = if name.contains("probe") { 1 + r.below(9) as i64 } else { 15 + r.below(30) as i64 };
                (0..k).map(|j| GTx::new(last + Duration::days(400 + 3 * j), "BBB", Kind::Buy, rust_decimal::Decimal::from(1 + j), rust_decimal::Decimal::from(2), rust_decimal::Decimal::ZERO)).collect()
            }
            None => ledger::gen_ledger(&mut r, &scfg),
        };
        if s.is_empty() { continue; }
        let first = s.iter().map(|t| t.date).min().expect("non-empty");
        let gap = match r.below(3) { 0 => 31, 1 => 32, _ => r.range(33, 400) };
        let shift = (last + Duration::days(gap)) - first;
        for t in &mut s { t.date = t.date + shift; }
        // half the time the continuation also reorganises a security the prefix holds (a SPLIT or UNSPLIT
        // on one of S's dates), by preference one whose purchases a CAPRETURN/ACCUMULATION of P adjusted:
        // the whole-timeline cost pre-pass must not let the later reorganisation reach back into those costs
        if r.chance(1, 2) {
            let adjusted: Vec<String> = p.iter().filter(|t| matches!(t.kind, Kind::CapReturn | Kind::Accumulation)).map(|t| t.ticker.clone()).collect();
            let tk = if adjusted.is_empty() { p[r.below(p.len() as u64) as usize].ticker.clone() } else { r.pick(&adjusted).clone() };
            let at = s[r.below(s.len() as u64) as usize].date;
            let (kind, ratio) = if r.chance(2, 3) { (Kind::Split, ledger::exact_ratio(&mut r)) } else { (Kind::Unsplit, ledger::exact_unratio(&mut r)) };
            s.push(GTx::new(at, &tk, kind, ratio, rust_decimal::Decimal::ZERO, rust_decimal::Decimal::ZERO));
        }
        let mut whole = p.clone();
        whole.extend(s.iter().cloned());
        let shuffled = forced_block.is_none() && r.chance(1, 3);
        if shuffled { r.shuffle(&mut whole); }
        if cli_left > 0 { cli_left -= 1; cli_crosscheck(ctx, prop, &whole, None); }
        let out = run_impl::impl_calc(&whole, None, &ex);
        let late_disposal = p.iter().any(|t| t.kind == Kind::Sell && (last - t.date).num_days() <= 30 && s.iter().any(|b| b.kind == Kind::Buy && b.ticker == t.ticker));
        if late_disposal { ctx.ev.nontrivial.insert(ledger::dsl(&whole)); }
        match &out {
            Err(e) => {
                ctx.ev.count(&format!("extended-rejected:{}", e.kind));
                if e.kind == "panic" { ctx.ev.violation("crash", e.detail.clone(), replay_text(prop, "crash", &e.detail, &whole, &[])); continue; }
                // the error must be about a line of S
                let dated: Option<NaiveDate> = e.detail.split(' ').find_map(|w| NaiveDate::parse_from_str(w.trim_end_matches(':'), "%Y-%m-%d").ok());
                let ok = match dated { Some(d) => d > last, None => matches!(e.kind.as_str(), "invalidTaxYear" | "unsupportedExemptionYear" | "invalidDateYear") };
                if !ok {
                    ctx.ev.violation("oracle", format!("appending transactions dated > 30 days later makes the ledger rejected because of the earlier period: {} {}", e.kind, e.detail), replay_text(prop, "oracle: prefix ends on the date given below", &format!("prefix ends {last}"), &whole, &[format!("case {name}")]));
                }
            }
            Ok(wrep) => {
                ctx.ev.count("extended-accepted");
                let mut pj = Proj::full();
                pj.holdings = false;
                pj.err_detail = false;
                // several SELL lines on one day: the leg partition follows line adjacency (D17)
                // several SELL lines on one day: the leg partition follows line adjacency (D17) — which appending
                // lines does not change; only a shuffle of the whole ledger does
                if multi_sell_day(&whole) && shuffled { pj.legs_exact = false; }
                // year totals change legitimately when S adds disposals to P's last tax year: compare disposals only
                let a = upto(wrep, last);
                let b = upto(brep, last);
                let strip = |mut x: RRep| { for y in &mut x.years { y.gain = crate::q::Q::zero(); y.loss = crate::q::Q::zero(); y.net = crate::q::Q::zero(); y.taxable = crate::q::Q::zero(); y.div_income = crate::q::Q::zero(); y.div_tax = crate::q::Q::zero(); } x };
                if let Some(what) = rep::diff_report(&Ok(strip(a)), &Ok(strip(b)), &pj) {
                    let what = what.replace("impl ", "after appending ").replace("model ", "before ");
                    ctx.ev.violation("oracle", format!("a disposal of the earlier period changes when later transactions are appended: {what}"), replay_text(prop, "oracle", &format!("prefix ends {last}; {what}"), &whole, &[format!("case {name}")]));
                }
            }
        }
        if let Some(m) = ctx.model.as_mut() {
            match run_impl::model_calc(m, &whole, None, &ex) {
                Err(e) => ctx.ev.violation("correspondence", format!("driver: {e}"), replay_text(prop, "correspondence", &e, &whole, &[])),
                Ok(mo) => {
                    ctx.ev.traces_validated += 1;
                    let mut pj = Proj::full();
                    if multi_sell_day(&whole) { pj.legs_exact = false; }
                    pj.err_detail = false;
                    if d3_disagreement(&whole, &out, &mo) { ctx.ev.count("correspondence-skipped:inexact-ratio-residue (D3)"); }
                    else if let Some(what) = rep::diff_report(&out, &mo, &pj) {
                        ctx.ev.violation("correspondence", what.clone(), replay_text(prop, "correspondence (implementation vs Lean model)", &what, &whole, &[format!("case {name}")]));
                    }
                }
            }
        }
        if ctx.ev.samples.len() < 3 && late_disposal {
            ctx.ev.sample(json!({"case": name, "prefix_ends": last.to_string(), "ledger": ledger::dsl(&whole).lines().collect::<Vec<_>>()}));
        }
    }
}
