pub mod c01;
pub mod c02;
pub mod c03;
pub mod c04;
pub mod c05;
pub mod c06;
pub mod c07;
pub mod c08;
pub mod c09;
pub mod c10;
pub mod c11;
pub mod c12;
pub mod c13;
pub mod c14;
pub mod c15;
pub mod c16;
pub mod c17;
pub mod c18;
pub mod c19;
pub mod c20;

use crate::evidence::Ev;
use crate::ledger::{self, GTx, GenCfg, Kind, Ledger};
use crate::model::Model;
use crate::rng::Rng;
use rust_decimal::Decimal;
use std::collections::BTreeMap;

#[derive(Clone, Copy, PartialEq, Eq, Debug)]
pub enum Tier {
    Quick,
    Thorough,
}

pub struct Ctx {
    pub tier: Tier,
    pub seed: u64,
    pub model: Option<Model>,
    pub ev: Ev,
    pub replay: Option<String>,
}

impl Ctx {
    pub fn n(&self, quick: u64, thorough: u64) -> u64 {
        let scale = std::env::var("VERIF_SCALE").ok().and_then(|s| s.parse::<f64>().ok()).unwrap_or(1.0);
        let n = if self.tier == Tier::Quick { quick } else { thorough };
        ((n as f64) * scale).max(1.0) as u64
    }
}

pub fn header(lines: &[String]) -> String {
    lines.iter().map(|l| format!("# {}\n", l.replace('\n', " "))).collect()
}

pub fn replay_text(prop: &str, kind: &str, what: &str, l: &[GTx], extra: &[String]) -> String {
    let mut h = vec![format!("property {prop}"), format!("{kind}: {what}")];
    h.extend(extra.iter().cloned());
    format!("{}{}", header(&h), ledger::dsl(l))
}

/// corpus files `/verif/corpus/<prop>/*.cgt` (DSL, `#` comments) — always run first
pub fn corpus(prop: &str) -> Vec<(String, Ledger)> {
    let mut out = Vec::new();
    let mut paths: Vec<std::path::PathBuf> = Vec::new();
    for dir in [format!("/verif/corpus/{prop}"), "/verif/corpus/matcher".to_string()] {
        let Ok(rd) = std::fs::read_dir(&dir) else { continue };
        let mut ps: Vec<_> = rd.filter_map(|e| e.ok()).map(|e| e.path()).filter(|p| p.extension().map(|x| x == "cgt").unwrap_or(false)).collect();
        ps.sort();
        paths.extend(ps);
    }
    for p in paths {
        let text = std::fs::read_to_string(&p).unwrap_or_default();
        match ledger::from_dsl(&text) {
            Ok(l) => out.push((p.display().to_string(), l)),
            Err(e) => eprintln!("corpus file {} does not parse: {e}", p.display()),
        }
    }
    out
}

/// repo fixtures (GBP-only ones) as additional corpus
pub fn fixtures() -> Vec<(String, Ledger)> {
    let mut out = Vec::new();
    let Ok(rd) = std::fs::read_dir("/repo/tests/inputs") else { return out };
    let mut paths: Vec<_> = rd.filter_map(|e| e.ok()).map(|e| e.path()).filter(|p| p.extension().map(|x| x == "cgt").unwrap_or(false)).collect();
    paths.sort();
    for p in paths {
        let text = std::fs::read_to_string(&p).unwrap_or_default();
        let Ok(txs) = cgt_core::parser::parse_file(&text) else { continue };
        let all_gbp = txs.iter().all(|t| cgt_core::transactions_to_gbp(std::slice::from_ref(t), None).is_ok());
        if !all_gbp { continue; }
        if let Ok(l) = ledger::from_dsl(&text) {
            out.push((p.display().to_string(), l));
        }
    }
    out
}

/// shares of `tk` held when day `date` begins, in the units then current: purchases minus sales of the
/// earlier days, each day's SPLIT/UNSPLIT applied after that day's trades
pub fn position_before(l: &[GTx], tk: &str, date: chrono::NaiveDate) -> crate::q::Q {
    use crate::q::Q;
    let mut days: Vec<chrono::NaiveDate> = l.iter().filter(|t| t.ticker == tk && t.date < date).map(|t| t.date).collect();
    days.sort();
    days.dedup();
    let mut p = Q::zero();
    for d in days {
        for t in l.iter().filter(|t| t.ticker == tk && t.date == d) {
            match t.kind { Kind::Buy => p = p.add(&Q::from_dec(t.a)), Kind::Sell => p = p.sub(&Q::from_dec(t.a)), _ => {} }
        }
        for t in l.iter().filter(|t| t.ticker == tk && t.date == d) {
            match t.kind { Kind::Split => p = p.mul(&Q::from_dec(t.a)), Kind::Unsplit => { if !t.a.is_zero() { p = p.div(&Q::from_dec(t.a)); } } _ => {} }
        }
    }
    p
}

// ----- the real binary against the library, on the same ledger ----------------------------------

/// `cgt-tool report in.cgt --format json [--year Y]` against `calculate()` called in-process with the
/// embedded exemption table and the bundled rates (what the binary uses): the same ledger must give the
/// same JSON report, or be refused by both. A handful of cases per run and property: this is the layer
/// between the command line and the library (reading and joining files, option handling, which report
/// builder is called), which the in-process oracles never pass through.
pub fn cli_crosscheck(ctx: &mut Ctx, prop: &str, l: &[GTx], year: Option<i32>) {
    use crate::cli;
    if !cli::available() || l.is_empty() { return; }
    let txs = ledger::to_txs(l);
    let cfg = crate::run_impl::config_from(&crate::run_impl::embedded_exemptions());
    let Ok(fx) = cgt_money::load_default_cache() else { return };
    let lib = std::panic::catch_unwind(std::panic::AssertUnwindSafe(|| cgt_core::calculator::calculate(&txs, year, Some(&fx), &cfg)));
    let Ok(lib) = lib else { return };   // panics are C15's subject
    let sc = cli::Scratch::new();
    sc.write("in.cgt", &ledger::dsl(l));
    let ys = year.map(|y| y.to_string());
    let mut args = vec!["report", "in.cgt", "--format", "json"];
    if let Some(y) = &ys { args.push("--year"); args.push(y.as_str()); }
    let o = cli::run(&sc, &args);
    ctx.ev.count("cli-crosschecks");
    let shown = format!("cgt-tool {}", args.join(" "));
    match lib {
        Ok(rep) => {
            let want = serde_json::to_value(&rep).unwrap_or_default();
            let got: serde_json::Value = serde_json::from_slice(&o.stdout).unwrap_or_default();
            if o.code != Some(0) {
                ctx.ev.violation("oracle", format!("the library produces a report but `{shown}` exits {:?}: {}", o.code, o.stderr.lines().next().unwrap_or("")), replay_text(prop, "oracle (CLI vs library)", "CLI refuses what the library accepts", l, &[shown.clone()]));
            } else if got != want {
                let what = ["tax_years", "holdings", "transactions"].iter().find(|k| got[**k] != want[**k]).map(|k| k.to_string()).unwrap_or_else(|| "top level".into());
                ctx.ev.violation("oracle", format!("`{shown}` prints a different report than the library computes for the same ledger (first difference under `{what}`)"), replay_text(prop, "oracle (CLI vs library)", &format!("JSON differs under {what}"), l, &[shown.clone()]));
            }
        }
        Err(_) => {
            if o.code == Some(0) || !o.stdout.is_empty() {
                ctx.ev.violation("oracle", format!("the library refuses the ledger but `{shown}` exits {:?} with {} bytes on stdout", o.code, o.stdout.len()), replay_text(prop, "oracle (CLI vs library)", "CLI accepts what the library refuses", l, &[shown.clone()]));
            }
        }
    }
}

// ----- shapes of a ledger, for the distribution counters and known-finding classes ------------

pub fn multi_sell_day(l: &[GTx]) -> bool {
    let mut m: BTreeMap<(chrono::NaiveDate, &str), u32> = BTreeMap::new();
    for t in l {
        if t.kind == Kind::Sell {
            *m.entry((t.date, t.ticker.as_str())).or_insert(0) += 1;
        }
    }
    m.values().any(|c| *c > 1)
}

/// known-finding class inexactRatio (D3): the security has a SPLIT or UNSPLIT whose ratio, written as a
/// reduced fraction of integers, has a prime factor other than 2 and 5 in its numerator — dividing by it
/// (a claim carried back across a SPLIT; the factor 1/r of an UNSPLIT) does not terminate in decimals
pub fn inexact_ratio_class(l: &[GTx], ticker: &str) -> bool {
    l.iter().any(|t| t.ticker.eq_ignore_ascii_case(ticker) && matches!(t.kind, Kind::Split | Kind::Unsplit) && {
        let mut m = t.a.normalize().mantissa().unsigned_abs();
        if m == 0 { return false; }
        while m % 2 == 0 { m /= 2; }
        while m % 5 == 0 { m /= 5; }
        m != 1
    })
}

/// the implementation refuses for want of shares what the exact model accepts, on a ledger with a split
/// ratio that does not divide exactly: decimal residue (defect D3, listed under C05); not a difference
/// between model and code that another property's correspondence should raise
pub fn d3_disagreement(l: &[GTx], imp: &crate::rep::Out<crate::rep::RRep>, model: &crate::rep::Out<crate::rep::RRep>) -> bool {
    match (imp, model) {
        (Err(e), Ok(_)) if matches!(e.kind.as_str(), "exceedsHolding" | "reservationExceedsBuy" | "unmatched") => inexact_ratio_class(l, e.detail.split(' ').next().unwrap_or("")),
        _ => false,
    }
}

pub fn has_kind(l: &[GTx], k: Kind) -> bool {
    l.iter().any(|t| t.kind == k)
}

pub fn has_cost_events(l: &[GTx]) -> bool {
    has_kind(l, Kind::CapReturn) || has_kind(l, Kind::Accumulation)
}

pub fn has_splits(l: &[GTx]) -> bool {
    has_kind(l, Kind::Split) || has_kind(l, Kind::Unsplit)
}

pub fn well_formed(l: &[GTx]) -> bool {
    l.iter().all(|t| match t.kind {
        Kind::Buy | Kind::Sell => t.a > Decimal::ZERO && t.b >= Decimal::ZERO && t.c >= Decimal::ZERO,
        Kind::Dividend => t.a >= Decimal::ZERO && t.b >= Decimal::ZERO,
        Kind::Accumulation | Kind::CapReturn => t.a > Decimal::ZERO && t.b >= Decimal::ZERO && t.c >= Decimal::ZERO,
        Kind::Split | Kind::Unsplit => t.a > Decimal::ZERO,
    })
}

/// the standard stream of matcher ledgers: corpus, fixtures, then generated (general, contention,
/// consolidation, and one long single-security history in forty)
pub fn matcher_cases(prop: &str, ctx: &Ctx, cfg: &GenCfg, n: u64) -> Vec<(String, Ledger)> {
    let mut cases = corpus(prop);
    cases.extend(fixtures());
    let mut r = Rng::new(ctx.seed);
    for i in 0..n {
        let l = if i % 40 == 13 { ledger::gen_long(&mut r, cfg) } else if i % 16 == 7 && cfg.splits { ledger::gen_consolidation(&mut r, cfg) } else if i % 3 == 2 { ledger::gen_contention(&mut r, cfg) } else { ledger::gen_ledger(&mut r, cfg) };
        cases.push((format!("gen#{i}"), l));
    }
    // shapes added later draw from their own stream, so the cases above stay what they were
    if cfg.max_tickers >= 2 {
        let mut rx = Rng::new(ctx.seed ^ 0x5ec0_0d5e_c0de);
        for i in 0..(n / 12).max(4) {
            cases.push((format!("cross#{i}"), ledger::gen_cross_contention(&mut rx, cfg)));
        }
    }
    let mut rs = Rng::new(ctx.seed ^ 0x0051_17e5);
    for i in 0..(n / 20).max(4) {
        cases.push((format!("sliver#{i}"), ledger::gen_sliver_holding(&mut rs, cfg)));
    }
    cases
}
