//! C04 — report arithmetic, from legs to tax-year totals.
use super::*;
use crate::q::Q;
use crate::rep::{self, Proj, RRep};
use crate::run_impl;
use rust_decimal::Decimal;
use serde_json::json;

fn half_1e10() -> Q {
    Q::new(6.into(), num_bigint::BigInt::from(10u32).pow(11))
}

/// a line with its amounts already in GBP, exactly
pub struct QTx { pub date: chrono::NaiveDate, pub ticker: String, pub kind: Kind, pub a: Q, pub b: Q, pub c: Q }
pub fn qtxs(l: &[GTx]) -> Vec<QTx> { l.iter().map(|t| QTx { date: t.date, ticker: t.ticker.clone(), kind: t.kind, a: Q::from_dec(t.a), b: Q::from_dec(t.b), c: Q::from_dec(t.c) }).collect() }

pub fn oracle(l: &[GTx], r: &RRep, ex: &[(u16, Decimal)]) -> Option<String> { oracle_q(&qtxs(l), r, ex) }

pub fn oracle_q(l: &[QTx], r: &RRep, ex: &[(u16, Decimal)]) -> Option<String> {
    let eps = half_1e10(); // the code stores the two proceeds totals rounded to 10 dp
    for y in &r.years {
        let mut gain = Q::zero();
        let mut loss = Q::zero();
        for d in &y.disposals {
            let sells: Vec<&QTx> = l.iter().filter(|t| t.kind == Kind::Sell && t.ticker == d.ticker && t.date == d.date).collect();
            let gross = Q::sum(sells.iter().map(|t| t.a.mul(&t.b)).collect::<Vec<_>>().iter());
            let fees = Q::sum(sells.iter().map(|t| t.c.clone()).collect::<Vec<_>>().iter());
            let qty = Q::sum(sells.iter().map(|t| t.a.clone()).collect::<Vec<_>>().iter());
            let c = format!("{} {}", d.date, d.ticker);
            if eps.lt(&d.gross.sub(&gross).abs()) && !d.gross.close(&gross, 15) {
                return Some(format!("{c}: gross proceeds {} but quantity × price of the day's sales is {}", d.gross.approx(), gross.approx()));
            }
            let net = gross.sub(&fees);
            if eps.lt(&d.proceeds.sub(&net).abs()) && !d.proceeds.close(&net, 15) {
                return Some(format!("{c}: net proceeds {} but gross − fees is {}", d.proceeds.approx(), net.approx()));
            }
            let lq = Q::sum(d.legs.iter().map(|x| x.qty.clone()).collect::<Vec<_>>().iter());
            if !lq.close(&d.qty, 18) { return Some(format!("{c}: quantity {} but legs add up to {}", d.qty.approx(), lq.approx())); }
            if !qty.close(&d.qty, 18) { return Some(format!("{c}: quantity {} but the day's sales are {}", d.qty.approx(), qty.approx())); }
            let lg = Q::sum(d.legs.iter().map(|x| x.gain.clone()).collect::<Vec<_>>().iter());
            let lc = Q::sum(d.legs.iter().map(|x| x.cost.clone()).collect::<Vec<_>>().iter());
            let want = d.proceeds.sub(&lc);
            if eps.lt(&lg.sub(&want).abs()) && !lg.close(&want, 15) {
                return Some(format!("{c}: legs' gains sum to {} but net proceeds − allowable cost is {}", lg.approx(), want.approx()));
            }
            if lg.is_pos() { gain = gain.add(&lg); } else if lg.is_neg() { loss = loss.add(&lg.abs()); }
        }
        let c = format!("tax year {}", y.year);
        if !gain.close(&y.gain, 15) { return Some(format!("{c}: total gain {} but positive disposal results sum to {}", y.gain.approx(), gain.approx())); }
        if !loss.close(&y.loss, 15) { return Some(format!("{c}: total loss {} but negative disposal results sum to {}", y.loss.approx(), loss.approx())); }
        if !y.net.close(&y.gain.sub(&y.loss), 15) { return Some(format!("{c}: net gain {} ≠ gain − loss", y.net.approx())); }
        match ex.iter().find(|e| e.0 as i64 == y.year) {
            None => return Some(format!("{c}: reported although the configuration has no exemption for it")),
            Some(e) => if !Q::from_dec(e.1).eq(&y.exempt) { return Some(format!("{c}: exemption {} but configured {}", y.exempt.approx(), e.1)); }
        }
        let tx = y.net.sub(&y.exempt).max(&Q::zero());
        if !tx.close(&y.taxable, 15) { return Some(format!("{c}: taxable gain {} but max(0, net − exemption) = {}", y.taxable.approx(), tx.approx())); }
        // dividends of the year
        let mut inc = Q::zero();
        let mut tax = Q::zero();
        for t in l.iter().filter(|t| t.kind == Kind::Dividend) {
            let ty = cgt_core::TaxPeriod::from_date(t.date).ok().map(|p| p.start_year() as i64);
            // independent reading of the boundary: 6 April
            let (yy, mm, dd) = (chrono::Datelike::year(&t.date) as i64, chrono::Datelike::month(&t.date), chrono::Datelike::day(&t.date));
            let own = if (mm, dd) < (4, 6) { yy - 1 } else { yy };
            if ty.is_some() && ty != Some(own) { return Some(format!("dividend {}: tax year {:?} vs 6-April rule {}", t.date, ty, own)); }
            if own == y.year { inc = inc.add(&t.a); tax = tax.add(&t.b); }
        }
        if !inc.close(&y.div_income, 15) { return Some(format!("{c}: dividend income {} but DIVIDEND lines sum to {}", y.div_income.approx(), inc.approx())); }
        if !tax.close(&y.div_tax, 15) { return Some(format!("{c}: dividend tax {} but DIVIDEND lines sum to {}", y.div_tax.approx(), tax.approx())); }
    }
    None
}

fn gen_exemptions(r: &mut crate::rng::Rng) -> Vec<(u16, Decimal)> {
    match r.below(4) {
        0 => run_impl::embedded_exemptions(),
        1 => {
            // embedded table with overrides replacing/adding years (HashMap::extend semantics)
            let mut v = run_impl::embedded_exemptions();
            for _ in 0..(1 + r.below(4)) {
                let y = r.range(2010, 2030) as u16;
                let amt = Decimal::from(r.range(0, 20) * 500);
                if let Some(e) = v.iter_mut().find(|e| e.0 == y) { e.1 = amt; } else { v.push((y, amt)); }
            }
            v.sort();
            v
        }
        _ => run_impl::wide_exemptions(),
    }
}

/// `Config::load_with_overrides` as the CLI uses it: `./config.toml`, then
/// `~/.config/cgt-tool/config.toml`, each replacing or adding years; compared with the model's
/// `loadWithOverrides` (driver command `cfg`) year by year through `cgt-tool report --year Y --format json`.
fn config_overrides(ctx: &mut Ctx) {
    use crate::cli;
    if !cli::available() { ctx.ev.notes.push("cgt-tool binary not built: override-file configurations not exercised".into()); return; }
    let n = ctx.n(10, 150);
    let mut r = crate::rng::Rng::new(ctx.seed ^ 0xC04C);
    let years: Vec<i64> = vec![2012, 2013, 2014, 2019, 2023, 2024, 2025, 2026, 2031];
    // one share sold in each probed tax year
    let mut ledger = String::from("2009-01-05 BUY AAA 1000 @ 1 FEES 0\n");
    for y in &years { ledger.push_str(&format!("{y}-06-01 SELL AAA 1 @ 2 FEES 0\n")); }
    #[derive(Clone)]
    enum F { Absent, Malformed, Table(Vec<(i64, Decimal, String)>) }
    let gen_file = |r: &mut crate::rng::Rng| -> F {
        match r.below(6) {
            0 => F::Absent,
            1 => F::Malformed,
            _ => {
                // one entry in six spells its year with a leading zero or plus sign; a year may then occur twice
                // in one file, in different spellings — the entry whose spelling sorts last counts
                let mut t: Vec<(i64, Decimal, String)> = Vec::new();
                for _ in 0..(1 + r.below(4)) {
                    let y = if r.chance(1, 8) { 70000 } else { *r.pick(&years) };
                    let sp = if r.chance(1, 6) { format!("{}{y}", *r.pick(&["0", "00", "+", "+0"])) } else { y.to_string() };
                    if t.iter().any(|e| e.2 == sp) { continue; }
                    let amt = if r.chance(1, 4) { Decimal::new(r.range(0, 2_000_000), 2) } else { Decimal::from(r.range(0, 30) * 500 + r.range(0, 3)) };
                    t.push((y, amt.normalize(), sp));
                }
                F::Table(t)
            }
        }
    };
    let toml = |f: &F| -> Option<String> {
        match f {
            F::Absent => None,
            F::Malformed => Some("[exemptions\n\"2024\" = = 1\n".to_string()),
            F::Table(t) => Some(format!("[exemptions]\n{}", t.iter().map(|(_, a, sp)| format!("\"{sp}\" = {a}\n")).collect::<String>())),
        }
    };
    let wire = |f: &F| -> String {
        match f {
            F::Absent | F::Malformed => "!".to_string(),
            F::Table(t) if t.is_empty() => "-".to_string(),
            // what `from_toml` makes of the file: per year the entry whose spelling sorts last
            F::Table(t) => { let mut ys: Vec<i64> = t.iter().map(|e| e.0).collect(); ys.sort(); ys.dedup(); ys.iter().map(|y| { let e = t.iter().filter(|e| e.0 == *y).max_by(|a, b| a.2.cmp(&b.2)).expect("entry"); format!("{y}={}", Q::from_dec(e.1).wire()) }).collect::<Vec<_>>().join(";") }
        }
    };
    for k in 0..n {
        let (f1, f2) = if k == 0 { (F::Table(vec![(2024, Decimal::from(1234), "2024".into()), (2031, Decimal::from(5000), "2031".into()), (2024, Decimal::from(777), "02024".into())]), F::Absent) } else { (gen_file(&mut r), gen_file(&mut r)) };
        let s = cli::Scratch::new();
        s.write("in.cgt", &ledger);
        if let Some(t) = toml(&f1) { s.write("config.toml", &t); }
        if let Some(t) = toml(&f2) { std::fs::create_dir_all(s.path(".config/cgt-tool")).expect("mkdir"); s.write(".config/cgt-tool/config.toml", &t); }
        let desc = format!("./config.toml: {} ; ~/.config/cgt-tool/config.toml: {}", wire(&f1), wire(&f2));
        ctx.ev.count("override-configurations");
        if matches!(f1, F::Table(_)) || matches!(f2, F::Table(_)) { ctx.ev.nontrivial.insert(desc.clone()); }
        for y in &years {
            ctx.ev.evaluations += 1;
            let o = cli::run(&s, &["report", "in.cgt", "--year", &y.to_string(), "--format", "json"]);
            let got: Option<Q> = if o.code == Some(0) {
                serde_json::from_slice::<serde_json::Value>(&o.stdout).ok().and_then(|v| v["tax_years"][0]["exempt_amount"].as_str().and_then(|a| a.parse::<Decimal>().ok())).map(Q::from_dec)
            } else if o.stderr.contains("Unsupported tax year") { None } else {
                ctx.ev.violation("crash", format!("cgt-tool report --year {y} failed unexpectedly: {}", o.stderr.lines().next().unwrap_or("")), format!("# property C04\n# {desc}\n{ledger}"));
                continue;
            };
            // oracle on the implementation: the last file that names the year, else the embedded table
            let named = |f: &F| -> Option<Q> { if let F::Table(t) = f { t.iter().filter(|e| e.0 == *y).max_by(|a, b| a.2.cmp(&b.2)).map(|e| Q::from_dec(e.1)) } else { None } };
            let emb = run_impl::embedded_exemptions().iter().find(|e| e.0 as i64 == *y).map(|e| Q::from_dec(e.1));
            let want = named(&f2).or(named(&f1)).or(emb);
            let show = |q: &Option<Q>| q.as_ref().map(|q| q.approx()).unwrap_or_else(|| "unconfigured (error)".into());
            let same = |a: &Option<Q>, b: &Option<Q>| match (a, b) { (Some(a), Some(b)) => a.eq(b), (None, None) => true, _ => false };
            if !same(&got, &want) {
                ctx.ev.violation("oracle", format!("tax year {y}: exemption {} but the configuration ({desc}) gives {}", show(&got), show(&want)), format!("# property C04\n# oracle: tax year {y}: exemption reported {} but configured {}\n# {desc}\n# run: cgt-tool report in.cgt --year {y} --format json (with those two files in place)\n{ledger}", show(&got), show(&want)));
            }
            if let Some(m) = ctx.model.as_mut() {
                let ans = m.ask(&format!("cfg {y} {} {}", wire(&f1), wire(&f2)));
                ctx.ev.traces_validated += 1;
                let mv: Option<Q> = if ans == "none" { None } else if let Some(q) = ans.strip_prefix("ok ").and_then(Q::parse) { Some(q) } else {
                    ctx.ev.violation("correspondence", format!("driver: {ans}"), format!("# property C04\n# {desc}\n"));
                    continue;
                };
                if !same(&got, &mv) {
                    ctx.ev.violation("correspondence", format!("tax year {y} with {desc}: implementation's exemption {} , model loadWithOverrides {}", show(&got), show(&mv)), format!("# property C04\n# correspondence (Config::load_with_overrides vs Lean loadWithOverrides): year {y}, impl {} model {}\n# {desc}\n{ledger}", show(&got), show(&mv)));
                }
            }
        }
    }
}

/// ledgers whose BUY/SELL prices and fees, and dividend amounts, are in USD/EUR/GBP independently of
/// each other: the report's figures must be the GBP values (amount ÷ that month's rate of the amount's
/// own currency) put through the same identities
fn foreign_currency(ctx: &mut Ctx, cases: &[(String, Ledger)]) {
    use cgt_core::{Currency, CurrencyAmount, Operation, Transaction};
    let Ok(cache) = cgt_money::load_default_cache() else { ctx.ev.notes.push("bundled FX cache not loadable: foreign-currency ledgers not exercised".into()); return; };
    let mut r = crate::rng::Rng::new(ctx.seed ^ 0xC04F);
    let ex = run_impl::wide_exemptions();
    let cfg = run_impl::config_from(&ex);
    let codes = ["GBP", "USD", "EUR"];
    let n = ctx.n(150, 8000) as usize;
    for (name, l) in cases.iter().filter(|(_, l)| l.iter().all(|t| chrono::Datelike::year(&t.date) >= 2016 && chrono::Datelike::year(&t.date) <= 2024) && !has_cost_events(l)).take(n) {
        let curs: Vec<(&str, &str)> = l.iter().map(|_| (*r.pick(&codes), *r.pick(&codes))).collect();
        let rate = |code: &str, d: chrono::NaiveDate| -> Option<Q> { if code == "GBP" { Some(Q::int(1)) } else { cache.get(Currency::from_code(code)?, chrono::Datelike::year(&d), chrono::Datelike::month(&d)).map(|e| Q::from_dec(e.rate_per_gbp)) } };
        let mut txs: Vec<Transaction> = Vec::new();
        let mut ql: Vec<QTx> = Vec::new();
        let mut ok = true;
        for (t, (pc, fc)) in l.iter().zip(&curs) {
            let am = |x: Decimal, c: &str| CurrencyAmount::new(x, Currency::from_code(c).expect("code"));
            let (Some(rp), Some(rf)) = (rate(pc, t.date), rate(fc, t.date)) else { ok = false; break };
            let mut tx = t.to_tx();
            let mut q = QTx { date: t.date, ticker: t.ticker.clone(), kind: t.kind, a: Q::from_dec(t.a), b: Q::from_dec(t.b), c: Q::from_dec(t.c) };
            match &mut tx.operation {
                Operation::Buy { price, fees, .. } | Operation::Sell { price, fees, .. } => { *price = am(t.b, pc); *fees = am(t.c, fc); q.b = q.b.div(&rp); q.c = q.c.div(&rf); }
                Operation::Dividend { total_value, tax_paid } => { *total_value = am(t.a, pc); *tax_paid = am(t.b, fc); q.a = q.a.div(&rp); q.b = q.b.div(&rf); }
                _ => {}
            }
            txs.push(tx); ql.push(q);
        }
        if !ok { continue; }
        ctx.ev.evaluations += 1;
        ctx.ev.count("foreign-currency-ledgers");
        if curs.iter().any(|(a, b)| a != b) { ctx.ev.count("foreign-currency-ledgers:price-and-fee-currencies-differ"); }
        let rep = match std::panic::catch_unwind(std::panic::AssertUnwindSafe(|| cgt_core::calculator::calculate(&txs, None, Some(&cache), &cfg))) { Ok(Ok(r)) => rep::from_report(&r), _ => continue };
        if let Some(what) = oracle_q(&ql, &rep, &ex) {
            let lines: Vec<String> = txs.iter().map(cgt_core::dsl::transaction_to_dsl).collect();
            ctx.ev.violation("oracle", format!("foreign-currency ledger: {what}"), format!("# property C04\n# oracle (amounts converted at the month's rate of each amount's own currency, bundled rates): {what}\n# case {name}\n{}\n", lines.join("\n")));
        }
    }
}

pub fn run(ctx: &mut Ctx) {
    let prop = "C04";
    config_overrides(ctx);
    let cfg = GenCfg::standard();
    let n = ctx.n(500, 30_000);
    let cases = matcher_cases(prop, ctx, &cfg, n);
    ctx.ev.rule = "corpus + repo fixtures + generated ledgers (gains and losses, several sales per day, dividends, cost events) × exemption configurations (embedded, embedded with overrides, all years); plus foreign-currency variants (price, fee and dividend currencies drawn independently from GBP/USD/EUR, bundled monthly rates): the report's figures against the identities on amounts converted at each amount's own currency; the same identities on the single-year report (`--year`) of up to two tax years that have a DIVIDEND line or a sale; plus override files through the real CLI: random ./config.toml and ~/.config/cgt-tool/config.toml (absent, unparseable, or tables replacing/adding years incl. a non-u16 key and years spelled with leading zeros or a plus sign, possibly twice in one file — the spelling that sorts last counts) × 9 probe years, exemption of `report --year Y --format json` vs the last-file-wins rule and vs the model's loadWithOverrides. Compared: every field of the report against the model's reportFrom applied to the implementation's own legs (so the matcher is outside this property's projection). Non-trivial = accepted report with ≥ 2 disposals in one tax year, or both a gain and a loss; distinct by ledger text + configuration.".into();
    foreign_currency(ctx, &cases);
    let mut r = crate::rng::Rng::new(ctx.seed ^ 0xC04);
    for (name, l) in cases {
        ctx.ev.evaluations += 1;
        let ex = gen_exemptions(&mut r);
        let imp = run_impl::impl_calc(&l, None, &ex);
        match &imp {
            Ok(rep) => {
                ctx.ev.count("accepted");
                ctx.ev.count_n("tax-years", rep.years.len() as u64);
                if rep.years.iter().any(|y| y.disposals.len() >= 2 || (y.gain.is_pos() && y.loss.is_pos())) {
                    ctx.ev.nontrivial.insert(format!("{}|{}", ledger::dsl(&l), ex.len()));
                }
                if let Some(what) = oracle(&l, rep, &ex) {
                    let mut f = |c: &Ledger| matches!(run_impl::impl_calc(c, None, &ex), Ok(o) if oracle(c, &o, &ex).is_some());
                    let small = ledger::shrink(&l, &mut f);
                    ctx.ev.violation("oracle", what.clone(), replay_text(prop, "oracle", &what, &small, &[format!("case {name}"), format!("exemptions {}", run_impl::exemptions_wire(&ex))]));
                }
            }
            Err(e) => {
                ctx.ev.count(&format!("rejected:{}", e.kind));
                if e.kind == "panic" {
                    ctx.ev.violation("crash", format!("panic: {}", e.detail), replay_text(prop, "crash", &e.detail, &l, &[]));
                }
            }
        }
        // the single-year report goes through its own builder: the same identities, for the tax years of
        // the ledger's DIVIDEND lines (a year may have dividends and no disposal) and of its sales
        if imp.is_ok() {
            let mut ys: Vec<i32> = l.iter().filter(|t| matches!(t.kind, Kind::Dividend | Kind::Sell)).map(|t| { let (yy, mm, dd) = (chrono::Datelike::year(&t.date), chrono::Datelike::month(&t.date), chrono::Datelike::day(&t.date)); if (mm, dd) < (4, 6) { yy - 1 } else { yy } }).collect();
            ys.sort(); ys.dedup();
            r.shuffle(&mut ys);
            for y in ys.into_iter().take(2) {
                ctx.ev.count("single-year-reports");
                match run_impl::impl_calc(&l, Some(y), &ex) {
                    Ok(one) => {
                        if one.years.len() != 1 || one.years[0].year != y as i64 {
                            ctx.ev.violation("oracle", format!("the report for {y} lists tax years {:?}", one.years.iter().map(|t| t.year).collect::<Vec<_>>()), replay_text(prop, "oracle", "single-year report", &l, &[format!("case {name}"), format!("year {y}")]));
                        } else if let Some(what) = oracle(&l, &one, &ex) {
                            ctx.ev.violation("oracle", format!("report for {y}: {what}"), replay_text(prop, "oracle: run `cgt-tool report in.cgt --year <that year> --format json`", &what, &l, &[format!("case {name}"), format!("year {y}"), format!("exemptions {}", run_impl::exemptions_wire(&ex))]));
                        }
                    }
                    Err(e) => if e.kind == "panic" { ctx.ev.violation("crash", format!("panic: {}", e.detail), replay_text(prop, "crash", &e.detail, &l, &[format!("year {y}")])); } else { ctx.ev.count(&format!("single-year-rejected:{}", e.kind)); }
                }
            }
        }
        // correspondence (projection of this property): calculator.rs alone — the model's
        // `reportFrom` applied to the implementation's own matcher output must give the
        // implementation's report
        if let Some(m) = ctx.model.as_mut() {
            if let Ok(Ok(raw)) = run_impl::impl_match_raw(&l) {
                match run_impl::model_report_from(m, &raw, &l, None, &ex) {
                    Err(e) => ctx.ev.violation("correspondence", format!("driver: {e}"), replay_text(prop, "correspondence", &e, &l, &[])),
                    Ok(mo) => {
                        ctx.ev.traces_validated += 1;
                        let mut p = Proj::full();
                        // which unsupported year is named first depends on hash order in the code
                        p.err_detail = !matches!(&imp, Err(e) if e.kind == "unsupportedExemptionYear");
                        if let Some(what) = rep::diff_report(&imp, &mo, &p) {
                            ctx.ev.violation("correspondence", what.clone(), replay_text(prop, "correspondence (implementation's report vs Lean reportFrom on the implementation's legs)", &what, &l, &[format!("case {name}"), format!("exemptions {}", run_impl::exemptions_wire(&ex))]));
                        }
                    }
                }
            }
        }
        if ctx.ev.samples.len() < 3 && imp.is_ok() && l.len() >= 4 {
            ctx.ev.sample(json!({"case": name, "exemption_years": ex.len(), "ledger": ledger::dsl(&l).lines().collect::<Vec<_>>()}));
        }
    }
}
