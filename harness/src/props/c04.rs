//! C04 — report arithmetic, from legs to tax-year totals.
use super::*;
use crate::q::Q;
use crate::rep::{self, Proj, RRep};
use crate::run_impl;
use rust_decimal::Decimal;
use serde_json::json;

fn half_1e10() -> Q {
    Q::new(6.into(), num_bigint::BigInt::from(10u32).pow(11))
}

pub fn oracle(l: &[GTx], r: &RRep, ex: &[(u16, Decimal)]) -> Option<String> {
    let eps = half_1e10(); // the code stores the two proceeds totals rounded to 10 dp
    for y in &r.years {
        let mut gain = Q::zero();
        let mut loss = Q::zero();
        for d in &y.disposals {
            let sells: Vec<&GTx> = l.iter().filter(|t| t.kind == Kind::Sell && t.ticker == d.ticker && t.date == d.date).collect();
            let gross = Q::sum(sells.iter().map(|t| Q::from_dec(t.a).mul(&Q::from_dec(t.b))).collect::<Vec<_>>().iter());
            let fees = Q::sum(sells.iter().map(|t| Q::from_dec(t.c)).collect::<Vec<_>>().iter());
            let qty = Q::sum(sells.iter().map(|t| Q::from_dec(t.a)).collect::<Vec<_>>().iter());
            let c = format!("{} {}", d.date, d.ticker);
            if eps.lt(&d.gross.sub(&gross).abs()) && !d.gross.close(&gross, 15) {
                return Some(format!("{c}: gross proceeds {} but quantity × price of the day's sales is {}", d.gross.approx(), gross.approx()));
            }
            let net = gross.sub(&fees);
            if eps.lt(&d.proceeds.sub(&net).abs()) && !d.proceeds.close(&net, 15) {
                return Some(format!("{c}: net proceeds {} but gross − fees is {}", d.proceeds.approx(), net.approx()));
            }
            let lq = Q::sum(d.legs.iter().map(|x| x.qty.clone()).collect::<Vec<_>>().iter());
            if !lq.close(&d.qty, 18) { return Some(format!("{c}: quantity {} but legs add up to {}", d.qty.approx(), lq.approx())); }
            if !qty.close(&d.qty, 18) { return Some(format!("{c}: quantity {} but the day's sales are {}", d.qty.approx(), qty.approx())); }
            let lg = Q::sum(d.legs.iter().map(|x| x.gain.clone()).collect::<Vec<_>>().iter());
            let lc = Q::sum(d.legs.iter().map(|x| x.cost.clone()).collect::<Vec<_>>().iter());
            let want = d.proceeds.sub(&lc);
            if eps.lt(&lg.sub(&want).abs()) && !lg.close(&want, 15) {
                return Some(format!("{c}: legs' gains sum to {} but net proceeds − allowable cost is {}", lg.approx(), want.approx()));
            }
            if lg.is_pos() { gain = gain.add(&lg); } else if lg.is_neg() { loss = loss.add(&lg.abs()); }
        }
        let c = format!("tax year {}", y.year);
        if !gain.close(&y.gain, 15) { return Some(format!("{c}: total gain {} but positive disposal results sum to {}", y.gain.approx(), gain.approx())); }
        if !loss.close(&y.loss, 15) { return Some(format!("{c}: total loss {} but negative disposal results sum to {}", y.loss.approx(), loss.approx())); }
        if !y.net.close(&y.gain.sub(&y.loss), 15) { return Some(format!("{c}: net gain {} ≠ gain − loss", y.net.approx())); }
        match ex.iter().find(|e| e.0 as i64 == y.year) {
            None => return Some(format!("{c}: reported although the configuration has no exemption for it")),
            Some(e) => if !Q::from_dec(e.1).eq(&y.exempt) { return Some(format!("{c}: exemption {} but configured {}", y.exempt.approx(), e.1)); }
        }
        let tx = y.net.sub(&y.exempt).max(&Q::zero());
        if !tx.close(&y.taxable, 15) { return Some(format!("{c}: taxable gain {} but max(0, net − exemption) = {}", y.taxable.approx(), tx.approx())); }
        // dividends of the year
        let mut inc = Q::zero();
        let mut tax = Q::zero();
        for t in l.iter().filter(|t| t.kind == Kind::Dividend) {
            let ty = cgt_core::TaxPeriod::from_date(t.date).ok().map(|p| p.start_year() as i64);
            // independent reading of the boundary: 6 April
            let (yy, mm, dd) = (chrono::Datelike::year(&t.date) as i64, chrono::Datelike::month(&t.date), chrono::Datelike::day(&t.date));
            let own = if (mm, dd) < (4, 6) { yy - 1 } else { yy };
            if ty.is_some() && ty != Some(own) { return Some(format!("dividend {}: tax year {:?} vs 6-April rule {}", t.date, ty, own)); }
            if own == y.year { inc = inc.add(&Q::from_dec(t.a)); tax = tax.add(&Q::from_dec(t.b)); }
        }
        if !inc.close(&y.div_income, 15) { return Some(format!("{c}: dividend income {} but DIVIDEND lines sum to {}", y.div_income.approx(), inc.approx())); }
        if !tax.close(&y.div_tax, 15) { return Some(format!("{c}: dividend tax {} but DIVIDEND lines sum to {}", y.div_tax.approx(), tax.approx())); }
    }
    None
}

fn gen_exemptions(r: &mut crate::rng::Rng) -> Vec<(u16, Decimal)> {
    match r.below(4) {
        0 => run_impl::embedded_exemptions(),
        1 => {
            // embedded table with overrides replacing/adding years (HashMap::extend semantics)
            let mut v = run_impl::embedded_exemptions();
            for _ in 0..(1 + r.below(4)) {
                let y = r.range(2010, 2030) as u16;
                let amt = Decimal::from(r.range(0, 20) * 500);
                if let Some(e) = v.iter_mut().find(|e| e.0 == y) { e.1 = amt; } else { v.push((y, amt)); }
            }
            v.sort();
            v
        }
        _ => run_impl::wide_exemptions(),
    }
}

pub fn run(ctx: &mut Ctx) {
    let prop = "C04";
    let cfg = GenCfg::standard();
    let n = ctx.n(500, 30_000);
    let cases = matcher_cases(prop, ctx, &cfg, n);
    ctx.ev.rule = "corpus + repo fixtures + generated ledgers (gains and losses, several sales per day, dividends, cost events) × exemption configurations (embedded, embedded with overrides, all years). Compared: every field of the report against the model's reportFrom applied to the implementation's own legs (so the matcher is outside this property's projection). Non-trivial = accepted report with ≥ 2 disposals in one tax year, or both a gain and a loss; distinct by ledger text + configuration.".into();
    let mut r = crate::rng::Rng::new(ctx.seed ^ 0xC04);
    for (name, l) in cases {
        ctx.ev.evaluations += 1;
        let ex = gen_exemptions(&mut r);
        let imp = run_impl::impl_calc(&l, None, &ex);
        match &imp {
            Ok(rep) => {
                ctx.ev.count("accepted");
                ctx.ev.count_n("tax-years", rep.years.len() as u64);
                if rep.years.iter().any(|y| y.disposals.len() >= 2 || (y.gain.is_pos() && y.loss.is_pos())) {
                    ctx.ev.nontrivial.insert(format!("{}|{}", ledger::dsl(&l), ex.len()));
                }
                if let Some(what) = oracle(&l, rep, &ex) {
                    let mut f = |c: &Ledger| matches!(run_impl::impl_calc(c, None, &ex), Ok(o) if oracle(c, &o, &ex).is_some());
                    let small = ledger::shrink(&l, &mut f);
                    ctx.ev.violation("oracle", what.clone(), replay_text(prop, "oracle", &what, &small, &[format!("case {name}"), format!("exemptions {}", run_impl::exemptions_wire(&ex))]));
                }
            }
            Err(e) => {
                ctx.ev.count(&format!("rejected:{}", e.kind));
                if e.kind == "panic" {
                    ctx.ev.violation("crash", format!("panic: {}", e.detail), replay_text(prop, "crash", &e.detail, &l, &[]));
                }
            }
        }
        // correspondence (projection of this property): calculator.rs alone — the model's
        // `reportFrom` applied to the implementation's own matcher output must give the
        // implementation's report
        if let Some(m) = ctx.model.as_mut() {
            if let Ok(Ok(raw)) = run_impl::impl_match_raw(&l) {
                match run_impl::model_report_from(m, &raw, &l, None, &ex) {
                    Err(e) => ctx.ev.violation("correspondence", format!("driver: {e}"), replay_text(prop, "correspondence", &e, &l, &[])),
                    Ok(mo) => {
                        ctx.ev.traces_validated += 1;
                        let mut p = Proj::full();
                        // which unsupported year is named first depends on hash order in the code
                        p.err_detail = !matches!(&imp, Err(e) if e.kind == "unsupportedExemptionYear");
                        if let Some(what) = rep::diff_report(&imp, &mo, &p) {
                            ctx.ev.violation("correspondence", what.clone(), replay_text(prop, "correspondence (implementation's report vs Lean reportFrom on the implementation's legs)", &what, &l, &[format!("case {name}"), format!("exemptions {}", run_impl::exemptions_wire(&ex))]));
                        }
                    }
                }
            }
        }
        if ctx.ev.samples.len() < 3 && imp.is_ok() && l.len() >= 4 {
            ctx.ev.sample(json!({"case": name, "exemption_years": ex.len(), "ledger": ledger::dsl(&l).lines().collect::<Vec<_>>()}));
        }
    }
}
