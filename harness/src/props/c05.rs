//! C05 — a report is produced exactly when every sale is covered by shares held.
use super::*;
use crate::cli;
use crate::q::Q;
use crate::rep::{self, Proj};
use crate::rng::Rng;
use crate::run_impl;
use chrono::{Duration, NaiveDate};
use rust_decimal::Decimal;
use serde_json::json;

/// independent reading of the property: first (date, security) whose cumulative sales exceed its
/// cumulative purchases (both rescaled by the splits dated before that date … up to the day)
pub fn first_uncovered(l: &[GTx]) -> Option<(NaiveDate, String)> {
    let mut dates: Vec<NaiveDate> = l.iter().map(|t| t.date).collect();
    dates.sort();
    dates.dedup();
    let mut tickers: Vec<&str> = l.iter().map(|t| t.ticker.as_str()).collect();
    tickers.sort();
    tickers.dedup();
    let mut pos: std::collections::BTreeMap<&str, Q> = tickers.iter().map(|t| (*t, Q::zero())).collect();
    for d in dates {
        let mut bad: Vec<String> = Vec::new();
        for t in &tickers {
            let p = pos.get_mut(t).expect("ticker");
            for x in l.iter().filter(|x| x.date == d && x.ticker == *t) {
                match x.kind { Kind::Buy => *p = p.add(&Q::from_dec(x.a)), Kind::Sell => *p = p.sub(&Q::from_dec(x.a)), _ => {} }
            }
            if p.is_neg() { bad.push(t.to_string()); }
            for x in l.iter().filter(|x| x.date == d && x.ticker == *t) {
                match x.kind { Kind::Split => *p = p.mul(&Q::from_dec(x.a)), Kind::Unsplit => { if !x.a.is_zero() { *p = p.div(&Q::from_dec(x.a)) } }, _ => {} }
            }
        }
        if let Some(t) = bad.into_iter().next() { return Some((d, t)); }
    }
    None
}
fn uncovered_on(l: &[GTx], d: NaiveDate, tk: &str) -> bool {
    // is (d, tk) uncovered when looked at alone (cumulative position of tk up to and including d)?
    let sub: Ledger = l.iter().filter(|x| x.ticker == tk && x.date <= d).cloned().collect();
    matches!(first_uncovered(&sub), Some((dd, _)) if dd <= d)
}

/// hostile shapes named by the property
fn gen_hostile(r: &mut Rng, base: &Ledger) -> Ledger {
    let mut l = base.clone();
    if l.is_empty() { return l; }
    match r.below(9) {
        5 => {
            // several disposals on different days all identified with one later purchase, then a further
            // sale before that purchase arrives (covered, or short by a few shares)
            let tk = l[0].ticker.clone();
            let d0 = l.iter().map(|t| t.date).max().unwrap_or(l[0].date) + Duration::days(40);
            let h = Decimal::from(*r.pick(&[60i64, 100, 150]));
            l.push(GTx::new(d0, &tk, Kind::Buy, h, Decimal::ONE, Decimal::ZERO));
            let k = 2 + r.below(2) as i64;
            let mut sold = Decimal::ZERO;
            for i in 0..k {
                let q = (h / Decimal::from(k + 1)).round_dp(0).max(Decimal::ONE);
                sold += q;
                l.push(GTx::new(d0 + Duration::days(30 + 2 * i), &tk, Kind::Sell, q, Decimal::TWO, Decimal::ZERO));
            }
            let back = d0 + Duration::days(30 + 2 * k + r.range(2, 10));
            l.push(GTx::new(back, &tk, Kind::Buy, sold, Decimal::from(3), Decimal::ZERO));
            let left = h - sold;
            let extra = left + Decimal::from(*r.pick(&[-1i64, 0, 0, 1, 5, 20]));
            if extra > Decimal::ZERO { l.push(GTx::new(d0 + Duration::days(30 + 2 * k + 1), &tk, Kind::Sell, extra, Decimal::TWO, Decimal::ZERO)); }
            if r.chance(1, 2) { l.push(GTx::new(back + Duration::days(60), &tk, Kind::Sell, h + Decimal::from(*r.pick(&[0i64, 1, 30])), Decimal::TWO, Decimal::ZERO)); }
        }
        6 => {
            // an earlier sale identified with a repurchase still to come, then a second sale before it arrives
            // with a SPLIT/UNSPLIT dated on that second sale's own day, on the day before or on the day after
            // (the shares already spoken for must be restated in the units of the sale being checked)
            let tk = l[0].ticker.clone();
            let d0 = l.iter().map(|t| t.date).max().unwrap_or(l[0].date) + Duration::days(40);
            let split = r.chance(1, 2);
            let k = Decimal::from(*r.pick(&[2i64, 4, 5]));
            let h = Decimal::from(*r.pick(&[100i64, 120, 200]));
            let s1 = Decimal::from(*r.pick(&[20i64, 60, 80]));
            l.push(GTx::new(d0, &tk, Kind::Buy, h, Decimal::ONE, Decimal::ZERO));
            l.push(GTx::new(d0 + Duration::days(35), &tk, Kind::Sell, s1, Decimal::TWO, Decimal::ZERO));
            let d2 = d0 + Duration::days(35 + r.range(2, 8));
            l.push(GTx::new(d2 + Duration::days(*r.pick(&[0i64, 0, 0, -1, 1])), &tk, if split { Kind::Split } else { Kind::Unsplit }, k, Decimal::ZERO, Decimal::ZERO));
            // the repurchase, in the units current when it is made, covers part or all of the first sale
            let back_pre = (s1 / Decimal::from(*r.pick(&[1i64, 2]))).round_dp(0);
            let back = if split { back_pre * k } else { back_pre / k };
            // the second sale: exactly what is left, or a few shares more or fewer
            let left = h - s1;
            let s2 = (left + Decimal::from(*r.pick(&[0i64, 0, -1, 1, 10, -10]))).max(Decimal::ONE);
            l.push(GTx::new(d2, &tk, Kind::Sell, s2, Decimal::TWO, Decimal::ZERO));
            l.push(GTx::new(d2 + Duration::days(r.range(2, 12)), &tk, Kind::Buy, back, Decimal::from(3), Decimal::ZERO));
        }
        7 => {
            // a sale of the whole holding plus a sliver (10⁻⁶ … 10⁻¹² of a share), or of exactly the holding;
            // sometimes with a repurchase a week later, sometimes after a consolidation by 2 (a security of its own)
            let tk = "SLV".to_string();
            let d0 = l.iter().map(|t| t.date).max().unwrap_or(l[0].date) + Duration::days(40);
            let h = Decimal::from(*r.pick(&[100i64, 33, 250]));
            l.push(GTx::new(d0, &tk, Kind::Buy, h, Decimal::ONE, Decimal::ZERO));
            let mut held = h;
            if r.chance(1, 3) { l.push(GTx::new(d0 + Duration::days(2), &tk, Kind::Unsplit, Decimal::TWO, Decimal::ZERO, Decimal::ZERO)); held = h / Decimal::TWO; }
            let sliver = match r.below(5) { 0 => Decimal::ZERO, 1 => Decimal::new(1, 6), 2 => Decimal::new(5, 7), 3 => Decimal::new(1, 9), _ => Decimal::new(1, 12) };
            l.push(GTx::new(d0 + Duration::days(35), &tk, Kind::Sell, held + sliver, Decimal::TWO, Decimal::ZERO));
            if r.chance(1, 2) { l.push(GTx::new(d0 + Duration::days(42), &tk, Kind::Buy, Decimal::from(10), Decimal::from(3), Decimal::ZERO)); }
        }
        4 => {
            // a day with a purchase and a larger sale than purchase + holding, repurchase within 30 days
            let tk = l[0].ticker.clone();
            let d0 = l.iter().map(|t| t.date).max().unwrap_or(l[0].date) + Duration::days(40);
            let p = Decimal::from(*r.pick(&[0i64, 10, 50]));
            let lq = Decimal::from(*r.pick(&[10i64, 30, 100]));
            let x = Decimal::from(r.range(1, 30)).min(lq);
            if p > Decimal::ZERO { l.push(GTx::new(d0, &tk, Kind::Buy, p, Decimal::ONE, Decimal::ZERO)); }
            l.push(GTx::new(d0 + Duration::days(35), &tk, Kind::Buy, lq, Decimal::TWO, Decimal::ZERO));
            l.push(GTx::new(d0 + Duration::days(35), &tk, Kind::Sell, lq + p + x, Decimal::from(3), Decimal::ZERO));
            l.push(GTx::new(d0 + Duration::days(35 + r.range(1, 30)), &tk, Kind::Buy, x + Decimal::from(r.range(0, 20)), Decimal::from(4), Decimal::ZERO));
        }
        0 => {
            // truncated export: drop the earliest purchases
            l.sort_by_key(|t| t.date);
            let k = 1 + r.below(2) as usize;
            let mut dropped = 0;
            l.retain(|t| if t.kind == Kind::Buy && dropped < k { dropped += 1; false } else { true });
        }
        1 => {
            // duplicated sale row (overlapping export chunks)
            let sells: Vec<usize> = l.iter().enumerate().filter(|(_, t)| t.kind == Kind::Sell).map(|(i, _)| i).collect();
            if !sells.is_empty() { let i = *r.pick(&sells); let t = l[i].clone(); l.push(t); }
        }
        2 => {
            // sale, companion sale next day, repurchase within 30 days
            let tk = l[0].ticker.clone();
            let d0 = l.iter().map(|t| t.date).max().unwrap_or(l[0].date) + Duration::days(40);
            let q = Decimal::from(*r.pick(&[10i64, 50, 100]));
            l.push(GTx::new(d0, &tk, Kind::Buy, q, Decimal::ONE, Decimal::ZERO));
            l.push(GTx::new(d0 + Duration::days(31), &tk, Kind::Sell, q, Decimal::TWO, Decimal::ZERO));
            l.push(GTx::new(d0 + Duration::days(31 + r.range(0, 3)), &tk, Kind::Sell, if r.chance(1, 2) { q } else { Decimal::ONE }, Decimal::TWO, Decimal::ZERO));
            l.push(GTx::new(d0 + Duration::days(40), &tk, Kind::Buy, q, Decimal::from(3), Decimal::ZERO));
        }
        3 => {
            // oversell that only appears after an unsplit / disappears after a split
            let tk = l[0].ticker.clone();
            let d0 = l.iter().map(|t| t.date).max().unwrap_or(l[0].date) + Duration::days(40);
            l.push(GTx::new(d0, &tk, Kind::Buy, Decimal::from(100), Decimal::ONE, Decimal::ZERO));
            let (k, ratio) = if r.chance(1, 2) { (Kind::Unsplit, Decimal::from(2)) } else { (Kind::Split, Decimal::from(2)) };
            l.push(GTx::new(d0 + Duration::days(r.range(0, 5)), &tk, k, ratio, Decimal::ZERO, Decimal::ZERO));
            l.push(GTx::new(d0 + Duration::days(r.range(0, 10)), &tk, Kind::Sell, Decimal::from(*r.pick(&[50i64, 51, 100, 150, 200, 201])), Decimal::ONE, Decimal::ZERO));
        }
        _ => {}
    }
    if r.chance(1, 3) { r.shuffle(&mut l); }
    l
}

pub fn run(ctx: &mut Ctx) {
    let prop = "C05";
    let mut cfg = GenCfg::standard();
    cfg.cost_events = false; // "no other obstacle"
    cfg.oversell_pct = 8;
    let n = ctx.n(500, 30_000);
    let base_cases = matcher_cases(prop, ctx, &cfg, n);
    ctx.ev.rule = "corpus + fixtures + generated ledgers without cost events, each also in a hostile variant (earliest purchases dropped; a sale row duplicated; sale + companion sale + repurchase within 30 days; sale straddling a split/unsplit; same-day purchase + sale larger than purchase + holding + repurchase within 30 days; several disposals on different days identified with one later purchase followed by a further sale before it arrives; an earlier sale identified with a repurchase still to come and a second sale before it with a SPLIT/UNSPLIT on, just before or just after that sale's day; a sale of the whole holding plus 10⁻⁶ … 10⁻¹² of a share; a SPLIT/UNSPLIT on a disposal day written before or after the SELL line, a buy-back within thirty days and a final sale of the holding ± a few shares): the real calculate() accepts iff an independent cumulative-position check over the raw lines says every (date, security) is covered; a refusal names an uncovered security and the earliest uncovered date; the Lean model agrees on accept/reject, error kind, security and date. Known-finding class inexactRatio (D3: a SPLIT/UNSPLIT ratio with a prime factor other than 2 and 5) is probed with its witness and directed ledgers, by the oracle only. A sample of refused and accepted ledgers is also run through the real CLI (exit status, stdout, --output file). Non-trivial = uncovered ledgers, and covered ledgers containing a 30-day match; distinct by ledger text.".into();
    let ex = run_impl::wide_exemptions();
    let mut r = Rng::new(ctx.seed ^ 0xC05);
    let mut cli_budget: i64 = if ctx.tier == Tier::Quick { 24 } else { 300 };
    let have_cli = cli::available();
    if !have_cli { ctx.ev.notes.push("cgt-tool binary not found: CLI part skipped".into()); }
    let mut cases: Vec<(String, Ledger)> = Vec::new();
    for (name, l) in base_cases {
        let hostile = gen_hostile(&mut r, &l);
        cases.push((format!("{name}/hostile"), hostile));
        cases.push((name, l));
    }
    // a SPLIT/UNSPLIT dated on a disposal day and written before (or after) the SELL line, a buy-back inside
    // the thirty days, then a sale of what is then held, exactly or a few shares more or fewer (drawn from a
    // stream of its own, so the cases above stay what they were)
    {
        let mut r8 = Rng::new(ctx.seed ^ 0xC05_5D17);
        for i in 0..ctx.n(24, 600) {
            let split = r8.chance(1, 2);
            let k = Decimal::from(*r8.pick(&[2i64, 4, 5]));
            let h = Decimal::from(*r8.pick(&[100i64, 120, 200]));
            let s1 = Decimal::from(*r8.pick(&[20i64, 60, 100])).min(h);
            let d0 = ledger::d(2021 + (i % 3) as i32, 1 + r8.below(9) as u32, 1 + r8.below(25) as u32);
            let d1 = d0 + Duration::days(35 + r8.range(0, 20));
            let mut l: Ledger = vec![GTx::new(d0, "AAA", Kind::Buy, h, Decimal::ONE, Decimal::ZERO)];
            let ev = GTx::new(d1, "AAA", if split { Kind::Split } else { Kind::Unsplit }, k, Decimal::ZERO, Decimal::ZERO);
            let sell = GTx::new(d1, "AAA", Kind::Sell, s1, Decimal::TWO, Decimal::ZERO);
            if i % 3 != 2 { l.push(ev); l.push(sell); } else { l.push(sell); l.push(ev); }
            // the day's factor applies after the day's trades: what is left is restated, the buy-back is in new units
            let f = |x: Decimal| if split { x * k } else { x / k };
            let back = f(Decimal::from(*r8.pick(&[10i64, 20, 100])).min(s1));
            l.push(GTx::new(d1 + Duration::days(r8.range(1, 29)), "AAA", Kind::Buy, back, Decimal::from(3), Decimal::ZERO));
            let held = f(h - s1) + back;
            let last = held + Decimal::from(*r8.pick(&[0i64, 0, 1, -1, 10])) * if split { Decimal::ONE } else { Decimal::new(2, 1) };
            if last > Decimal::ZERO { l.push(GTx::new(d1 + Duration::days(40), "AAA", Kind::Sell, last, Decimal::TWO, Decimal::ZERO)); }
            cases.push((format!("splitday#{i}"), l));
        }
    }
    // known finding D3 (class inexactRatio), probed with its witness and with directed ledgers; these are
    // judged by the oracle only (the model's exact rationals accept them, as the property demands)
    const D3: &str = "D3: quantities carried across a SPLIT/UNSPLIT whose ratio does not divide exactly are rounded to 28 digits, so a covered sale of exactly the remaining holding can be refused";
    let mut probes: Vec<Ledger> = vec![vec![
        GTx::new(ledger::d(2024, 1, 2), "AAA", Kind::Buy, Decimal::from(10), Decimal::ONE, Decimal::ZERO),
        GTx::new(ledger::d(2024, 3, 1), "AAA", Kind::Sell, Decimal::from(5), Decimal::ONE, Decimal::ZERO),
        GTx::new(ledger::d(2024, 3, 5), "AAA", Kind::Split, Decimal::from(3), Decimal::ZERO, Decimal::ZERO),
        GTx::new(ledger::d(2024, 3, 10), "AAA", Kind::Buy, Decimal::from(10), Decimal::ONE, Decimal::ZERO),
        GTx::new(ledger::d(2024, 6, 1), "AAA", Kind::Sell, Decimal::from(25), Decimal::ONE, Decimal::ZERO),
    ]];
    for _ in 0..ctx.n(12, 400) { probes.push(ledger::gen_claim_sum(&mut r)); }
    for l in probes {
        ctx.ev.evaluations += 1;
        match (run_impl::impl_calc(&l, None, &ex), first_uncovered(&l)) {
            (Ok(_), None) => ctx.ev.count("inexact-ratio:covered-accepted"),
            (Err(e), None) if e.kind != "panic" && inexact_ratio_class(&l, "AAA") => { ctx.ev.count("inexact-ratio:covered-refused"); ctx.ev.known("inexactRatio", D3); }
            (Err(e), _) => ctx.ev.violation("oracle", format!("inexact-ratio probe: {} {}", e.kind, e.detail), replay_text(prop, "oracle", "covered ledger refused", &l, &[])),
            (Ok(_), Some(_)) => ctx.ev.violation("oracle", "inexact-ratio probe: uncovered sale accepted".into(), replay_text(prop, "oracle", "uncovered sale accepted", &l, &[])),
        }
    }
    for (name, l) in cases {
        if has_cost_events(&l) || !well_formed(&l) || l.is_empty() { continue; }
        ctx.ev.evaluations += 1;
        let imp = run_impl::impl_calc(&l, None, &ex);
        let unc = first_uncovered(&l);
        match (&imp, &unc) {
            (Ok(rep), None) => {
                ctx.ev.count("covered-accepted");
                if rep.years.iter().any(|y| y.disposals.iter().any(|d| d.legs.iter().any(|x| x.rule == "BedAndBreakfast"))) { ctx.ev.nontrivial.insert(ledger::dsl(&l)); }
            }
            (Err(e), Some((d, _))) if e.kind == "exceedsHolding" || e.kind == "noPriorAcquisition" || e.kind == "unmatched" => {
                ctx.ev.count("uncovered-refused");
                ctx.ev.nontrivial.insert(ledger::dsl(&l));
                // the error names a security and date that is uncovered, on the earliest uncovered date
                let parts: Vec<&str> = e.detail.split(' ').collect();
                let named = parts.get(1).and_then(|s| NaiveDate::parse_from_str(s, "%Y-%m-%d").ok());
                let tk = parts.first().copied().unwrap_or("?");
                match named {
                    Some(nd) if nd == *d && uncovered_on(&l, nd, tk) => {}
                    _ => ctx.ev.violation("oracle", format!("refusal names '{}' but the first uncovered sale is on {d}", e.detail), replay_text(prop, "oracle", "error must name the security and date of an uncovered sale on the earliest uncovered date", &l, &[format!("case {name}")])),
                }
            }
            (Ok(_), Some((d, t))) => {
                let mut f = |c: &Ledger| !has_cost_events(c) && run_impl::impl_calc(c, None, &ex).is_ok() && first_uncovered(c).is_some();
                let small = ledger::shrink(&l, &mut f);
                let u = first_uncovered(&small).unwrap_or((*d, t.clone()));
                ctx.ev.violation("oracle", format!("a report is produced although the sale of {} on {} is not covered by shares held", u.1, u.0), replay_text(prop, "oracle", "uncovered sale accepted", &small, &[format!("case {name}")]));
            }
            (Err(e), _) if matches!(e.kind.as_str(), "invalidTaxYear" | "invalidDateYear" | "unsupportedExemptionYear") => {
                // a disposal dated outside the supported tax years is another obstacle, not C05's
                ctx.ev.count("other-obstacle:tax-year-range");
            }
            (Err(e), None) => {
                if e.kind == "panic" { ctx.ev.violation("crash", e.detail.clone(), replay_text(prop, "crash", &e.detail, &l, &[])); }
                else if e.kind == "exceedsHolding" && inexact_ratio_class(&l, e.detail.split(' ').next().unwrap_or("")) { ctx.ev.known("inexactRatio", D3); }
                else {
                    let mut f = |c: &Ledger| !has_cost_events(c) && well_formed(c) && first_uncovered(c).is_none() && matches!(run_impl::impl_calc(c, None, &ex), Err(e) if e.kind != "panic");
                    let small = ledger::shrink(&l, &mut f);
                    ctx.ev.violation("oracle", format!("a covered ledger is refused: {} {}", e.kind, e.detail), replay_text(prop, "oracle", "covered ledger refused", &small, &[format!("case {name}")]));
                }
            }
            (Err(e), Some(_)) => {
                ctx.ev.violation("oracle", format!("uncovered ledger refused with an unrelated error: {} {}", e.kind, e.detail), replay_text(prop, "oracle", "wrong error", &l, &[format!("case {name}")]));
            }
        }
        // correspondence: accept/reject, kind, security, date (not inside known-finding class D3, where the
        // exact model accepts what the implementation's rounding refuses)
        let d3 = matches!((&imp, &unc), (Err(e), None) if e.kind == "exceedsHolding" && inexact_ratio_class(&l, e.detail.split(' ').next().unwrap_or("")));
        if let Some(m) = ctx.model.as_mut().filter(|_| !d3) {
            match run_impl::model_calc(m, &l, None, &ex) {
                Err(e) => ctx.ev.violation("correspondence", format!("driver: {e}"), replay_text(prop, "correspondence", &e, &l, &[])),
                Ok(mo) => {
                    ctx.ev.traces_validated += 1;
                    let mut p = Proj::full();
                    p.money = false; p.qty = false; p.legs_none = true; p.holdings = false;
                    if let Some(what) = rep::diff_report(&imp, &mo, &p) {
                        ctx.ev.violation("correspondence", what.clone(), replay_text(prop, "correspondence (accept/reject and error: implementation vs Lean model)", &what, &l, &[format!("case {name}")]));
                    }
                }
            }
        }
        // the real CLI on a sample: refusal ⇒ non-zero exit, nothing on stdout, no --output file
        if have_cli && cli_budget > 0 && (unc.is_some() || r.chance(1, 40)) {
            cli_budget -= 1;
            let s = cli::Scratch::new();
            s.write("in.cgt", &ledger::dsl(&l));
            for fmt in ["plain", "json"] {
                ctx.ev.count("cli-runs");
                let o1 = cli::run(&s, &["report", "in.cgt", "--format", fmt]);
                let o2 = cli::run(&s, &["report", "in.cgt", "--format", fmt, "--output", "out.txt"]);
                let out_exists = s.path("out.txt").exists();
                let accepted = imp.is_ok();
                // the CLI uses the embedded exemption table: years outside it are "another obstacle"
                let table_err = o1.stderr.contains("Unsupported tax year");
                if accepted && !table_err {
                    if o1.code != Some(0) || o1.stdout.is_empty() || o2.code != Some(0) || !out_exists {
                        ctx.ev.violation("oracle", format!("library accepts but `cgt-tool report --format {fmt}` exits {:?} (stdout {} bytes, output file {})", o1.code, o1.stdout.len(), out_exists), replay_text(prop, "oracle (CLI)", "CLI disagrees with library", &l, &[o1.stderr.clone()]));
                    }
                } else if !accepted {
                    if o1.code == Some(0) || !o1.stdout.is_empty() || o2.code == Some(0) || out_exists || !o2.stdout.is_empty() {
                        ctx.ev.violation("oracle", format!("refused ledger: `cgt-tool report --format {fmt}` exits {:?}/{:?}, stdout {} bytes, --output file written: {}", o1.code, o2.code, o1.stdout.len(), out_exists), replay_text(prop, "oracle (CLI)", "a refused ledger must give a non-zero exit, empty stdout and no output file", &l, &[]));
                    }
                }
                let _ = std::fs::remove_file(s.path("out.txt"));
            }
        }
        if ctx.ev.samples.len() < 4 && unc.is_some() && l.len() <= 8 {
            ctx.ev.sample(json!({"case": name, "first_uncovered": unc.as_ref().map(|u| format!("{} {}", u.1, u.0)), "ledger": ledger::dsl(&l).lines().collect::<Vec<_>>()}));
        }
    }
}
