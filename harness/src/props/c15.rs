//! C15 — complete result or clean error, never a crash.
use super::*;
use crate::cli;
use crate::rng::Rng;
use crate::run_impl;
use rust_decimal::Decimal;
use serde_json::json;
use std::time::Instant;

const D9: &str = "D9: unchecked rust_decimal arithmetic panics on overflow ('Multiplication overflowed' etc.) for magnitudes near the top of the numeric range; the CLI then exits 101 and the MCP request is never answered";

/// class overflowMagnitude: some product of two of the ledger's numbers (times the number of lines)
/// can exceed the 96-bit mantissa range
fn overflow_class(l: &[GTx]) -> bool {
    let mut mx = Decimal::ONE;
    for t in l { for v in [t.a, t.b, t.c] { if v.abs() > mx { mx = v.abs(); } } }
    // mx² · lines ≥ 1e27, evaluated without overflowing ourselves
    let digits = mx.trunc().to_string().len() as u32;
    2 * digits + (l.len() as f64).log10().ceil() as u32 >= 27 || l.iter().any(|t| [t.a, t.b, t.c].iter().any(|v| v.scale() >= 20 && !v.is_zero()))
}

fn hostile_ledger(r: &mut Rng) -> Ledger {
    let mut l = ledger::gen_ledger(r, &GenCfg::standard());
    if l.is_empty() { l.push(GTx::new(ledger::d(2024, 1, 1), "AAA", Kind::Buy, Decimal::ONE, Decimal::ONE, Decimal::ZERO)); }
    let n = l.len() as u64;
    for _ in 0..(1 + r.below(3)) {
        let i = r.below(n) as usize;
        match r.below(11) {
            9 | 10 => {
                // two zero-quantity fills of one order on one day, somewhere apart in the file
                l[i].a = Decimal::ZERO;
                let mut t = l[i].clone();
                t.b = Decimal::from(r.range(0, 50));
                let at = r.below(l.len() as u64 + 1) as usize;
                l.insert(at, t);
                if r.chance(1, 2) { let d = l[at].date; let other = if l[at].ticker == "ZZZ" { "YYY" } else { "ZZZ" }; l.insert(at, GTx::new(d, other, Kind::Buy, Decimal::from(5), Decimal::TEN, Decimal::ZERO)); }
            }
            0 => l[i].a = Decimal::ZERO,
            1 => l[i].b = Decimal::ZERO,
            2 => l[i].a = Decimal::new(1, 28),
            3 => l[i].b = Decimal::new(r.range(1, 9), 27),
            4 => { l[i].a = Decimal::from_i128_with_scale(10i128.pow(10 + r.below(18) as u32), 0); }
            5 => { l[i].b = Decimal::from_i128_with_scale(7 * 10i128.pow(10 + r.below(18) as u32), 0); }
            6 => l[i].date = *r.pick(&[ledger::d(1, 1, 1), ledger::d(9999, 12, 31), ledger::d(1900, 4, 5), ledger::d(2101, 4, 6)]),
            7 => { let t = l[i].clone(); l.insert(0, GTx::new(t.date - chrono::Duration::days(400), &t.ticker, Kind::Sell, Decimal::ONE, Decimal::ONE, Decimal::ZERO)); }
            _ => l[i].c = Decimal::from_i128_with_scale(79_228_162_514_264_337_593_543_950_335i128, r.below(3) as u32),
        }
    }
    l
}

fn random_bytes(r: &mut Rng) -> Vec<u8> {
    let n = r.below(200) as usize;
    match r.below(4) {
        0 => (0..n).map(|_| r.below(256) as u8).collect(),
        1 => { let alphabet = b"2024-01-01 BUY SELL AAA 10 @ 5.5 FEES GBP USD TOTAL RATIO SPLIT #\n\r\t .,-@"; (0..n).map(|_| alphabet[r.below(alphabet.len() as u64) as usize]).collect() }
        2 => { let mut v = b"2024-01-01 BUY AAA 10 @ 5\n".to_vec(); let k = r.below(v.len() as u64) as usize; v[k] = r.below(256) as u8; v }
        _ => "2024-01-01 BUY AAA 1 @ 1 £€\u{feff}\u{a0}\n".as_bytes().iter().cycle().take(n).copied().collect(),
    }
}

pub fn run(ctx: &mut Ctx) {
    let prop = "C15";
    ctx.ev.rule = "(a) validator: generated transactions with zero/negative quantities, prices, fees, totals and ratios: validate() reports an error iff the property's predicate holds; compared with the Lean model's error count. (b) library under catch_unwind with a time limit: parse_file on arbitrary byte strings (random bytes, DSL alphabet soup, one-byte corruptions, non-ASCII) and calculate() on hostile ledgers (zero quantities and prices, 1e-28, magnitudes up to 7.9e28, sells first, dates 0001-01-01/9999-12-31/range edges): Ok or Err, never a panic — except inside known-finding class overflowMagnitude (D9). (d) the MCP tools: one pipelined session per 24 requests of malformed JSON texts (raw newlines inside strings, truncated arrays, BOM), hostile ledgers and random bytes over calculate_report, parse_transactions, convert_to_dsl, explain_matching: every request id answered exactly once, clean exit. (f) covered sales dated at the ends of chrono's date range (library): no panic. (g) hostile rates in an --fx-folder file (tiny, huge, zero, negative, non-numeric, exponent notation) for the month a foreign amount falls in, in-process and through the binary: a report or a clean error. (e) the Schwab converter in-process on generated exports (free text of up to 200 mixed-width characters; hostile Date cells: the `as of` marker at the end, alone, doubled, followed by a no-break space or a wide character), with and without an awards file, and on damaged JSON: a result or an error, never a panic. (c) the real binary: the same inputs as files, missing files (alone and among several inputs, as are a directory and a non-UTF-8 file), unwritable and pre-existing --output paths, default PDF path with an existing file: on failure non-zero exit (not 101, no signal), empty stdout, --output untouched; on success exit 0. Non-trivial = inputs that are rejected cleanly, and validator cases with ≥ 1 bad field; distinct by input.".into();

    // (f) dates at the ends of chrono's range (reachable through the library and the JSON input, whose years
    // are not limited to four digits): a covered sale within 30 days of the last or first representable date,
    // with and without a later purchase — a result or an error, never a panic
    {
        use chrono::NaiveDate;
        for (k, base) in [NaiveDate::MAX, NaiveDate::MAX - chrono::Duration::days(29), NaiveDate::MAX - chrono::Duration::days(31), NaiveDate::MIN + chrono::Duration::days(40), NaiveDate::from_ymd_opt(9999, 12, 31).expect("d"), NaiveDate::from_ymd_opt(10000, 1, 1).expect("d")].into_iter().enumerate() {
            let buy_day = base - chrono::Duration::days(35);
            let mut l: Ledger = vec![
                GTx::new(buy_day, "AAA", Kind::Buy, Decimal::from(10), Decimal::from(5), Decimal::ZERO),
                GTx::new(base, "AAA", Kind::Sell, Decimal::from(4), Decimal::from(7), Decimal::ZERO),
            ];
            if k % 2 == 1 { if let Some(later) = base.checked_add_signed(chrono::Duration::days(3)) { l.push(GTx::new(later, "AAA", Kind::Buy, Decimal::from(2), Decimal::from(6), Decimal::ZERO)); } }
            ctx.ev.evaluations += 1;
            ctx.ev.count("far-date-ledgers");
            let txs = ledger::to_txs(&l);
            let cfg = run_impl::config_from(&run_impl::wide_exemptions());
            match std::panic::catch_unwind(std::panic::AssertUnwindSafe(|| cgt_core::calculator::calculate(&txs, None, None, &cfg))) {
                Err(p) => ctx.ev.violation("crash", format!("calculate() panics on a ledger dated {base}: {}", run_impl::panic_msg(p)), format!("# property C15\n# library: calculate() on a covered sale dated {base} (purchase 35 days before{})\n", if l.len() == 3 { ", repurchase 3 days after" } else { "" })),
                Ok(Ok(_)) => ctx.ev.count("far-date:report"),
                Ok(Err(_)) => ctx.ev.count("far-date:clean-error"),
            }
        }
    }
    // (e) the converter, in-process under catch_unwind: generated Schwab exports (every row kind, hostile
    // spellings, free text of up to 200 mixed-width characters), the same with an awards file, and damaged
    // JSON — a result or an error, never a panic
    {
        use cgt_converter::{BrokerConverter, schwab::{SchwabConverter, SchwabInput}};
        let mut rr = Rng::new(ctx.seed ^ 0xC15E);
        for i in 0..ctx.n(150, 6000) {
            let mut jt = super::c18::gen_export(&mut rr);
            if i % 7 == 3 {
                // a hostile Date on the first row: the `as of` marker at the very end, alone, doubled, followed by a
                // no-break space or a wide character, dates that are not dates
                let hostile = ["04/25/2023 as of", "as of", "as of ", "04/25/2023 as of\u{a0}04/24/2023", "04/25/2023 as of中", "as of as of", "04/25/2023 as of 04/24/2023 as of", "", " ", "13/40/2023", "04/25/2023 as of 13/40/2023", "as of\u{a0}", "😀 as of"];
                let h = hostile[(i as usize / 7) % hostile.len()];
                if let (Some(a), true) = (jt.find("\"Date\":\""), true) { let b = a + 8; if let Some(e) = jt[b..].find('"') { jt.replace_range(b..b + e, &h.replace('\\', "")); } }
            }
            if i % 5 == 4 {
                // damage: cut the text, or replace one value by another JSON type
                let cut = rr.below(jt.len() as u64 + 1) as usize;
                let mut c = cut; while !jt.is_char_boundary(c) { c -= 1; }
                if rr.chance(1, 2) { jt.truncate(c); } else { jt = jt.replacen("\"Quantity\":\"", "\"Quantity\":[", 1); }
            }
            let awards = if i % 3 == 0 { Some(format!("{{\"EquityAwards\":[{{\"Symbol\":\"{}\",\"VestDate\":\"01/0{}/2021\",\"VestFairMarketValue\":\"$1{}.50\"}}]}}", super::c18::long_text(&mut rr).chars().take(6).collect::<String>().replace(['"', '\\'], ""), 1 + rr.below(9), rr.below(10))) } else { None };
            ctx.ev.evaluations += 1;
            let input = SchwabInput { transactions_json: jt.clone(), awards_json: awards.clone() };
            match std::panic::catch_unwind(|| SchwabConverter::new().convert(&input)) {
                Err(p) => ctx.ev.violation("crash", format!("the Schwab converter panics: {}", crate::run_impl::panic_msg(p)), format!("# property C15\n# convert schwab: transactions JSON below{}\n{jt}\n", if awards.is_some() { " (an awards file was given too)" } else { "" })),
                Ok(Ok(_)) => ctx.ev.count("convert:ok"),
                Ok(Err(_)) => { ctx.ev.count("convert:clean-error"); ctx.ev.nontrivial.insert(jt.clone()); }
            }
        }
    }
    let mut r = Rng::new(ctx.seed ^ 0xC15);
    let ex = run_impl::wide_exemptions();
    // (a) validator
    for _ in 0..ctx.n(800, 30_000) {
        ctx.ev.evaluations += 1;
        let mut l = ledger::gen_ledger(&mut r, &GenCfg::standard());
        let mut bad_expected = false;
        for t in &mut l {
            if r.chance(1, 5) {
                let v = *r.pick(&[Decimal::ZERO, Decimal::new(-1, 0), Decimal::new(-5, 3), Decimal::new(1, 10)]);
                match r.below(3) { 0 => t.a = v, 1 => t.b = v, _ => t.c = v }
            }
        }
        for t in &l {
            let bad = match t.kind {
                Kind::Buy | Kind::Sell | Kind::CapReturn => t.a <= Decimal::ZERO || t.b < Decimal::ZERO || t.c < Decimal::ZERO,
                Kind::Split | Kind::Unsplit => t.a <= Decimal::ZERO,
                Kind::Dividend => t.a < Decimal::ZERO,
                Kind::Accumulation => t.a <= Decimal::ZERO || t.b < Decimal::ZERO,
            };
            if bad { bad_expected = true; }
        }
        let res = cgt_core::validate(&ledger::to_txs(&l));
        if bad_expected { ctx.ev.nontrivial.insert(ledger::dsl(&l)); ctx.ev.count("validator:bad"); } else { ctx.ev.count("validator:clean"); }
        if res.is_valid() == bad_expected {
            ctx.ev.violation("oracle", format!("validator says valid={} but a zero/negative field is present={}", res.is_valid(), bad_expected), replay_text(prop, "oracle (validator)", "validator iff", &l, &[]));
        }
        if let Some(m) = ctx.model.as_mut() {
            ctx.ev.traces_validated += 1;
            let resp = m.ask(&format!("validate {}", ledger::wire(&l)));
            if resp != format!("ok {}", res.errors.len()) { ctx.ev.violation("correspondence", format!("validator errors: impl {} vs model '{resp}'", res.errors.len()), replay_text(prop, "correspondence (validator)", "error count", &l, &[])); }
        }
    }
    // (b) library
    for _ in 0..ctx.n(1500, 60_000) {
        ctx.ev.evaluations += 1;
        let bytes = random_bytes(&mut r);
        let text = String::from_utf8_lossy(&bytes).to_string();
        let t0 = Instant::now();
        let res = std::panic::catch_unwind(|| cgt_core::parser::parse_file(&text));
        if t0.elapsed().as_secs() >= 5 { ctx.ev.violation("oracle", "parse_file takes more than 5 s on a 200-byte input".into(), format!("# property C15\n{:?}\n", text)); }
        match res {
            Err(p) => ctx.ev.violation("crash", format!("parse_file panics: {}", run_impl::panic_msg(p)), format!("# property C15\n# crash in parse_file\n{:?}\n", text)),
            Ok(Ok(_)) => ctx.ev.count("bytes:parsed"),
            Ok(Err(_)) => { ctx.ev.count("bytes:clean-error"); if ctx.ev.nontrivial.len() < 100_000 { ctx.ev.nontrivial.insert(text.clone()); } }
        }
    }
    // past failures first (corpus/C15: minimised hostile ledgers that crashed an earlier tree)
    let past: Vec<Ledger> = corpus(prop).into_iter().map(|(_, l)| l).collect();
    let npast = past.len();
    let mut queue: Vec<Ledger> = past;
    for _ in 0..ctx.n(800, 30_000) { queue.push(hostile_ledger(&mut r)); }
    ctx.ev.count_n("hostile:corpus-ledgers", npast as u64);
    for l in queue {
        ctx.ev.evaluations += 1;
        let t0 = Instant::now();
        let res = run_impl::impl_calc_raw(&l, None, &ex);
        if t0.elapsed().as_secs() >= 10 { ctx.ev.violation("oracle", "calculate() takes more than 10 s on a small ledger".into(), replay_text(prop, "oracle", "hang", &l, &[])); }
        match res {
            Err(p) => {
                if overflow_class(&l) && (p.contains("overflow") || p.contains("Overflow") || p.contains("Division by zero") && l.iter().any(|t| t.a.is_zero())) { ctx.ev.known("overflowMagnitude", D9); }
                else if p.contains("ivision by zero") { ctx.ev.violation("crash", format!("calculate() panics: {p}"), replay_text(prop, "crash", &p, &l, &[])); }
                else { ctx.ev.violation("crash", format!("calculate() panics outside the known class: {p}"), replay_text(prop, "crash", &p, &l, &[])); }
            }
            Ok(Ok(_)) => ctx.ev.count("hostile:report"),
            Ok(Err(_)) => ctx.ev.count("hostile:clean-error"),
        }
    }
    // (c) the real binary
    if cli::available() {
        let s = cli::Scratch::new();
        let good = "2024-01-01 BUY AAA 10 @ 5\n2024-06-01 SELL AAA 4 @ 7\n";
        s.write("good.cgt", good);
        s.write("bad.cgt", "2024-01-01 BUY AAA 10 @ 5\n2024-06-01 SELL AAA 40 @ 7\n");
        s.write("syntax.cgt", "2024-01-01 BUY AAA ten @ 5\n");
        s.write("keep.txt", "precious");
        let check_fail = |ctx: &mut Ctx, args: &[&str], out_path: Option<&str>, what: &str| {
            ctx.ev.evaluations += 1;
            ctx.ev.count("cli:failure-cases");
            let o = cli::run(&s, args);
            let code_ok = matches!(o.code, Some(c) if c != 0 && c != 101);
            let untouched = out_path.map(|p| std::fs::read_to_string(s.path(p)).map(|c| c == "precious").unwrap_or(!s.path(p).exists())).unwrap_or(true);
            if !code_ok || !o.stdout.is_empty() || !untouched {
                ctx.ev.violation("oracle", format!("{what}: exit {:?}, {} bytes on stdout, output untouched: {untouched}", o.code, o.stdout.len()), format!("# property C15\n# CLI: cgt-tool {}\n# stderr: {}\n", args.join(" "), o.stderr.lines().next().unwrap_or("")));
            }
        };
        check_fail(ctx, &["report", "missing.cgt"], None, "missing input file");
        // one unreadable input among several: the run fails, nothing is reported for the files that were read
        std::fs::create_dir_all(s.path("a_directory.cgt")).expect("mkdir");
        std::fs::write(s.path("latin1.cgt"), b"2024-01-01 BUY CAF\xC9 10 @ 5\n").expect("write");
        check_fail(ctx, &["report", "good.cgt", "missing.cgt"], None, "a missing file among several inputs");
        check_fail(ctx, &["report", "missing.cgt", "good.cgt", "--format", "json"], None, "a missing file first among several inputs");
        check_fail(ctx, &["parse", "good.cgt", "a_directory.cgt"], None, "a directory among several inputs");
        check_fail(ctx, &["report", "good.cgt", "latin1.cgt", "--output", "keep.txt"], Some("keep.txt"), "a file that is not UTF-8 among several inputs, with --output");
        check_fail(ctx, &["report", "good.cgt", "missing.cgt", "--format", "pdf"], None, "a missing file among several inputs, PDF to the default path");
        if s.path("report.pdf").exists() { ctx.ev.violation("oracle", "a failing multi-file PDF run left ./report.pdf behind".into(), "# property C15\n# CLI: cgt-tool report good.cgt missing.cgt --format pdf\n".into()); }
        check_fail(ctx, &["report", "bad.cgt", "--output", "keep.txt"], Some("keep.txt"), "uncovered sale with --output on an existing file");
        check_fail(ctx, &["report", "syntax.cgt", "--format", "json", "--output", "keep.txt"], Some("keep.txt"), "syntax error with --output");
        check_fail(ctx, &["report", "good.cgt", "--output", "no/such/dir/out.txt"], None, "unwritable output path");
        check_fail(ctx, &["parse", "syntax.cgt"], None, "parse of a bad file");
        check_fail(ctx, &["report", "good.cgt", "--year", "1800"], None, "year outside the supported range");
        check_fail(ctx, &["convert", "schwab", "good.cgt"], None, "convert on a non-JSON file");
        // success paths
        for args in [vec!["report", "good.cgt"], vec!["report", "good.cgt", "--format", "json"], vec!["parse", "good.cgt"]] {
            ctx.ev.evaluations += 1;
            let o = cli::run(&s, &args);
            if o.code != Some(0) || o.stdout.is_empty() { ctx.ev.violation("oracle", format!("`cgt-tool {}` on a valid ledger: exit {:?}, {} bytes", args.join(" "), o.code, o.stdout.len()), format!("# property C15\n{good}")); }
        }
        // default PDF path never replaces an existing file
        s.write("good.pdf", "precious");
        ctx.ev.evaluations += 1;
        let o = cli::run(&s, &["report", "good.cgt", "--format", "pdf"]);
        let kept = std::fs::read_to_string(s.path("good.pdf")).map(|c| c == "precious").unwrap_or(false);
        if o.code == Some(0) || !kept { ctx.ev.violation("oracle", format!("default PDF path with an existing file: exit {:?}, file kept: {kept}", o.code), "# property C15\n# CLI: report good.cgt --format pdf with good.pdf present\n".into()); }
        s.write("other.cgt", "2024-02-01 BUY BBB 1 @ 1\n");
        s.write("report.pdf", "precious");
        ctx.ev.evaluations += 1;
        let o = cli::run(&s, &["report", "good.cgt", "other.cgt", "--format", "pdf"]);
        let kept = std::fs::read_to_string(s.path("report.pdf")).map(|c| c == "precious").unwrap_or(false);
        if o.code == Some(0) || !kept { ctx.ev.violation("oracle", format!("default PDF path (several inputs) with an existing report.pdf: exit {:?}, file kept: {kept}", o.code), "# property C15\n# CLI: report good.cgt other.cgt --format pdf with report.pdf present\n".into()); }
        // arbitrary bytes and hostile ledgers as files
        for i in 0..ctx.n(30, 600) {
            ctx.ev.evaluations += 1;
            ctx.ev.count("cli:fuzz-cases");
            let (name, is_ledger, ledger_opt) = if i % 2 == 0 { s.write_bytes("in.cgt", &random_bytes(&mut r)); ("bytes", false, None) } else { let l = hostile_ledger(&mut r); s.write("in.cgt", &ledger::dsl(&l)); ("hostile ledger", true, Some(l)) };
            let o = cli::run(&s, &["report", "in.cgt", "--format", "json"]);
            match o.code {
                Some(0) => { if o.stdout.is_empty() { ctx.ev.violation("oracle", "exit 0 with empty stdout".into(), "# property C15\n".into()); } }
                Some(101) | None => {
                    let known = is_ledger && ledger_opt.as_ref().map(|l| overflow_class(l)).unwrap_or(false) && o.stderr.contains("verflow");
                    if known { ctx.ev.known("overflowMagnitude", D9); }
                    else { ctx.ev.violation("crash", format!("cgt-tool crashes on {name}: exit {:?}: {}", o.code, o.stderr.lines().next().unwrap_or("")), format!("# property C15\n# CLI crash\n{}\n", std::fs::read_to_string(s.path("in.cgt")).unwrap_or_default())); }
                }
                Some(_) => { if !o.stdout.is_empty() { ctx.ev.violation("oracle", "non-zero exit with a (partial) report on stdout".into(), format!("# property C15\n{}\n", std::fs::read_to_string(s.path("in.cgt")).unwrap_or_default())); } }
            }
        }
        // (g) hostile rates in an --fx-folder file: tiny, huge, zero, negative and non-numeric rates for the
        // month a foreign amount falls in: a report or a clean error, in-process and through the binary
        {
            use cgt_money::RateFile;
            let cfg = run_impl::config_from(&run_impl::embedded_exemptions());
            let rates: &[&str] = &["0.0000004", "0.0000001", "0.00000049", "0.000000999", "0.0000000001", "0.000001", "123456789012.5", "0", "-1.5", "abc", "", "1e-7", "0.00000000000000000000000001"];
            for i in 0..ctx.n(26, 400) {
                ctx.ev.evaluations += 1;
                ctx.ev.count("fx:hostile-rate-cases");
                let rate = rates[i as usize % rates.len()];
                let y = 2027 + r.below(3) as i32;
                let mo = 1 + r.below(12) as u32;
                let code = *r.pick(&["USD", "EUR", "JPY"]);
                let body = super::c08::xml((y, mo), &[(code, Decimal::ONE)]).replace("<rateNew>1</rateNew>", &format!("<rateNew>{rate}</rateNew>"));
                let amount = Decimal::new(r.range(1, 100_000), 2);
                let text = match i % 3 {
                    0 => format!("{y}-{mo:02}-03 BUY AAA 10 @ {amount} {code}\n"),
                    1 => format!("{y}-{mo:02}-03 BUY AAA 10 @ 5 FEES {amount} {code}\n{y}-{mo:02}-20 SELL AAA 4 @ 6\n"),
                    _ => format!("{y}-{mo:02}-03 BUY AAA 10 @ 5\n{y}-{mo:02}-04 DIVIDEND AAA TOTAL {amount} {code} TAX 1 {code}\n{y}-{mo:02}-20 SELL AAA 4 @ 6\n"),
                };
                let case = format!("# property C15\n# --fx-folder file {y}-{mo:02}.xml with <rateNew>{rate}</rateNew> for {code}\n{text}");
                // the quotient amount / rate can leave rust_decimal's range for the finest rates: D9's class
                let fine = rate.parse::<Decimal>().map(|q| q > Decimal::ZERO && q < Decimal::new(1, 12)).unwrap_or(false);
                let lib = std::panic::catch_unwind(std::panic::AssertUnwindSafe(|| {
                    let cache = cgt_money::load_cache_with_overrides(vec![RateFile { name: std::path::PathBuf::from(format!("/rates/{y}-{mo:02}.xml")), modified: None, xml: body.clone() }]).map_err(|e| e.to_string())?;
                    let txs = cgt_core::parser::parse_file(&text).map_err(|e| e.to_string())?;
                    cgt_core::calculator::calculate(&txs, None, Some(&cache), &cfg).map(|_| ()).map_err(|e| e.to_string())
                }));
                match lib {
                    Ok(Ok(())) => ctx.ev.count("fx:hostile-rate:report"),
                    Ok(Err(_)) => { ctx.ev.count("fx:hostile-rate:clean-error"); ctx.ev.nontrivial.insert(format!("fxrate {rate} {code} {y}-{mo}")); }
                    Err(_) if fine => ctx.ev.known("overflowMagnitude", D9),
                    Err(_) => ctx.ev.violation("crash", format!("a rates file with <rateNew>{rate}</rateNew> makes the library panic"), case.clone()),
                }
                if i < ctx.n(13, 60) {
                    ctx.ev.evaluations += 1;
                    let sc = cli::Scratch::new();
                    sc.write("in.cgt", &text);
                    std::fs::create_dir_all(sc.path("fx")).ok();
                    sc.write(&format!("fx/{y}-{mo:02}.xml"), &body);
                    let o = cli::run(&sc, &["report", "in.cgt", "--format", "json", "--fx-folder", "fx"]);
                    match o.code {
                        Some(0) => { if o.stdout.is_empty() { ctx.ev.violation("oracle", "exit 0 with empty stdout".into(), case.clone()); } }
                        Some(101) | None => { if fine && o.stderr.contains("verflow") { ctx.ev.known("overflowMagnitude", D9); } else { ctx.ev.violation("crash", format!("cgt-tool crashes on a rates file with <rateNew>{rate}</rateNew>: exit {:?}: {}", o.code, o.stderr.lines().next().unwrap_or("")), case.clone()); } }
                        Some(_) => { if !o.stdout.is_empty() { ctx.ev.violation("oracle", "non-zero exit with a (partial) report on stdout".into(), case.clone()); } }
                    }
                }
            }
        }
        // (d) the MCP tools with hostile text: every request id answered exactly once, server survives
        {
            use super::c20::{call, session};
            let malformed: Vec<String> = ["garbage", "", "[1,2", "[{\"date\":\"2024-01-01\"}]", "[{\"ticker\": \"AAPL\n\"}]", "[\n{\"date\": \"2024-01-01\"\n\"x\"}]", "[{\"a\":1,}]", "[\n\n]", "\u{feff}[]", "[\"\n", "{", "[{\"date\":\"2024-01-01\",\n\"ticker\":\"A\",\"action\":\"SPLIT\"}]", "\n[", "[\n", "\"\n\"", "[{\"date\":\"9999-99-99\",\"ticker\":\"A\",\"action\":\"BUY\",\"amount\":\"1\",\"price\":\"1\"}]"].iter().map(|x| x.to_string()).collect();
            let mut reqs = Vec::new();
            let mut overflowish: std::collections::BTreeSet<u64> = Default::default();
            let mut id = 500u64;
            for t in &malformed { for tool in ["calculate_report", "parse_transactions", "convert_to_dsl"] { reqs.push(call(id, tool, serde_json::json!({"transactions": t}))); id += 1; } reqs.push(call(id, "explain_matching", serde_json::json!({"transactions": t, "ticker": "A", "disposal_date": "2024-01-01"}))); id += 1; }
            for _ in 0..ctx.n(12, 200) {
                let l = hostile_ledger(&mut r);
                if overflow_class(&l) { overflowish.insert(id); }
                reqs.push(call(id, "calculate_report", serde_json::json!({"transactions": ledger::dsl(&l)}))); id += 1;
                let bytes = String::from_utf8_lossy(&random_bytes(&mut r)).to_string();
                reqs.push(call(id, *r.pick(&["calculate_report", "parse_transactions", "convert_to_dsl"]), serde_json::json!({"transactions": bytes}))); id += 1;
            }
            for chunk in reqs.chunks(24) {
                ctx.ev.evaluations += chunk.len() as u64;
                ctx.ev.count_n("mcp:hostile-requests", chunk.len() as u64);
                let sn = session(chunk, true);
                let case = format!("# property C15\n# MCP session (pipelined), `cgt-tool mcp` on stdio after the initialize handshake\n{}\n", chunk.iter().map(|v| v.to_string()).collect::<Vec<_>>().join("\n"));
                for q in chunk {
                    let qid = q["id"].as_u64().unwrap_or(0);
                    let got = sn.responses.iter().filter(|v| v["id"].as_u64() == Some(qid)).count();
                    if got == 1 { continue; }
                    if got == 0 && overflowish.contains(&qid) { ctx.ev.known("overflowMagnitude", D9); continue; }
                    ctx.ev.violation("crash", format!("MCP request id {qid} ({}) with hostile text received {got} responses", q["params"]["name"].as_str().unwrap_or("?")), format!("# property C15\n# MCP: this tools/call request is not answered exactly once\n{}\n# whole session:\n{case}", q));
                }
                if !sn.exit_ok { ctx.ev.violation("crash", "the MCP server does not exit cleanly after a hostile session".into(), case.clone()); }
            }
        }
    } else { ctx.ev.notes.push("cgt-tool binary not found: CLI part skipped".into()); }
    // the D9 witness, every run
    if let Ok(w) = ledger::from_dsl("2024-01-01 BUY A 1000000000000000 @ 1000000000000000\n2024-02-01 SELL A 1 @ 1\n") {
        if run_impl::impl_calc_raw(&w, None, &ex).is_err() { ctx.ev.known("overflowMagnitude", D9); }
    }
    ctx.ev.sample(json!({"hostile_example": ledger::dsl(&hostile_ledger(&mut r)).lines().take(5).collect::<Vec<_>>() }));
}
