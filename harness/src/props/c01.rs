//! C01 — Same Day, then 30-day, then Section 104: implementation vs the Lean model of the code
//! (correspondence, every leg exactly) and vs the independent `Spec` evaluation of the statute (oracle).
use super::*;
use crate::q::{Q, TOL_EXP};
use crate::rep::{self, Proj, RLeg, RMatchT};
use crate::run_impl;
use chrono::NaiveDate;
use serde_json::json;

#[derive(Debug, Clone)]
pub struct SDisp {
    pub date: NaiveDate,
    pub qty: Q,
    pub gross: Q,
    pub net: Q,
    pub gain: Q,
    pub legs: Vec<(String, Q, Q, Option<NaiveDate>)>,
}
#[derive(Debug, Clone)]
pub struct SRes {
    pub ticker: String,
    pub pool_q: Q,
    pub pool_c: Q,
    pub disposals: Vec<SDisp>,
}

pub fn parse_spec(resp: &str) -> Result<Vec<SRes>, String> {
    let t: Vec<&str> = resp.split(' ').filter(|s| !s.is_empty()).collect();
    let mut i = 0usize;
    let mut next = || -> Result<&str, String> { let x = t.get(i).copied().ok_or("spec response truncated")?; i += 1; Ok(x) };
    if next()? != "ok" { return Err(format!("spec: {resp}")); }
    let mut out = Vec::new();
    loop {
        let Ok(tok) = next() else { break };
        if tok != "T" { return Err(format!("spec: expected T got {tok}")); }
        let ticker = next()?.to_string();
        let pool_q = Q::parse(next()?).ok_or("num")?;
        let pool_c = Q::parse(next()?).ok_or("num")?;
        let nd: usize = next()?.parse().map_err(|_| "count")?;
        let mut disposals = Vec::new();
        for _ in 0..nd {
            if next()? != "D" { return Err("spec: expected D".into()); }
            let date = NaiveDate::parse_from_str(next()?, "%Y-%m-%d").map_err(|_| "date")?;
            let qty = Q::parse(next()?).ok_or("num")?;
            let gross = Q::parse(next()?).ok_or("num")?;
            let net = Q::parse(next()?).ok_or("num")?;
            let gain = Q::parse(next()?).ok_or("num")?;
            let nl: usize = next()?.parse().map_err(|_| "count")?;
            let mut legs = Vec::new();
            for _ in 0..nl {
                if next()? != "M" { return Err("spec: expected M".into()); }
                let rule = next()?.to_string();
                let q = Q::parse(next()?).ok_or("num")?;
                let c = Q::parse(next()?).ok_or("num")?;
                let a = next()?;
                let acq = if a == "-" { None } else { Some(NaiveDate::parse_from_str(a, "%Y-%m-%d").map_err(|_| "date")?) };
                legs.push((rule, q, c, acq));
            }
            disposals.push(SDisp { date, qty, gross, net, gain, legs });
        }
        out.push(SRes { ticker, pool_q, pool_c, disposals });
    }
    Ok(out)
}

/// the implementation's output against the statute's evaluation
pub fn oracle(l: &[GTx], out: &[RMatchT], spec: &[SRes]) -> Option<String> {
    for s in spec {
        let empty = RMatchT { ticker: s.ticker.clone(), pool: None, legs: vec![] };
        let r = out.iter().find(|x| x.ticker == s.ticker).unwrap_or(&empty);
        let costs = !l.iter().any(|t| t.ticker == s.ticker && matches!(t.kind, Kind::CapReturn | Kind::Accumulation));
        let mut dates: Vec<NaiveDate> = r.legs.iter().map(|x| x.sell_date).collect();
        dates.sort();
        dates.dedup();
        let sdates: Vec<NaiveDate> = s.disposals.iter().filter(|d| d.qty.is_pos()).map(|d| d.date).collect();
        if dates != sdates {
            return Some(format!("{}: disposals reported on {:?}, statute evaluation has {:?}", s.ticker, dates, sdates));
        }
        for d in s.disposals.iter().filter(|d| d.qty.is_pos()) {
            let legs: Vec<RLeg> = rep::fold_legs(&r.legs.iter().filter(|x| x.sell_date == d.date).cloned().collect::<Vec<_>>());
            let c = format!("{} {}", s.ticker, d.date);
            let show = |ls: &[(String, Q, Q, Option<NaiveDate>)]| ls.iter().map(|x| format!("{} {}{}", x.0, x.1.approx(), x.3.map(|a| format!("@{a}")).unwrap_or_default())).collect::<Vec<_>>().join(", ");
            let mine: Vec<(String, Q, Q, Option<NaiveDate>)> = legs.iter().map(|x| (x.rule.clone(), x.qty.clone(), x.cost.clone(), x.acq)).collect();
            if legs.len() != d.legs.len() {
                return Some(format!("{c}: identified as [{}] but s105/s106A/s104 give [{}]", show(&mine), show(&d.legs)));
            }
            for (x, y) in mine.iter().zip(&d.legs) {
                if x.0 != y.0 || x.3 != y.3 || !x.1.close(&y.1, TOL_EXP) {
                    return Some(format!("{c}: identified as [{}] but s105/s106A/s104 give [{}]", show(&mine), show(&d.legs)));
                }
                if costs && !x.2.close(&y.2, TOL_EXP) {
                    return Some(format!("{c}: {} leg of {} has allowable cost {} but the statute evaluation gives {}", x.0, x.1.approx(), x.2.approx(), y.2.approx()));
                }
            }
            if costs {
                let gross = Q::sum(r.legs.iter().filter(|x| x.sell_date == d.date).filter_map(|x| x.gross.as_ref()));
                let net = Q::sum(r.legs.iter().filter(|x| x.sell_date == d.date).filter_map(|x| x.net.as_ref()));
                let gain = Q::sum(r.legs.iter().filter(|x| x.sell_date == d.date).map(|x| &x.gain));
                if !gross.close(&d.gross, TOL_EXP) { return Some(format!("{c}: gross proceeds {} vs {}", gross.approx(), d.gross.approx())); }
                if !net.close(&d.net, TOL_EXP) { return Some(format!("{c}: net proceeds {} vs {}", net.approx(), d.net.approx())); }
                if !gain.close(&d.gain, TOL_EXP) { return Some(format!("{c}: gain {} vs {}", gain.approx(), d.gain.approx())); }
            }
        }
        let (pq, pc) = r.pool.clone().unwrap_or((Q::zero(), Q::zero()));
        if !pq.close(&s.pool_q, TOL_EXP) { return Some(format!("{}: closing holding {} vs statute evaluation {}", s.ticker, pq.approx(), s.pool_q.approx())); }
        if costs && !pc.close(&s.pool_c, TOL_EXP) { return Some(format!("{}: closing cost {} vs statute evaluation {}", s.ticker, pc.approx(), s.pool_c.approx())); }
    }
    None
}

fn gap_stats(ctx: &mut Ctx, l: &[GTx], out: &[RMatchT]) {
    for t in out {
        for x in &t.legs {
            if x.rule == "BedAndBreakfast" {
                if let Some(a) = x.acq {
                    let g = (a - x.sell_date).num_days();
                    if g == 30 { ctx.ev.count("bnb-leg-gap-30"); } else if g == 1 { ctx.ev.count("bnb-leg-gap-1"); } else { ctx.ev.count("bnb-leg-gap-2..29"); }
                }
            }
        }
    }
    // a purchase exactly 31 days after a sale (must not be matched to it)
    for s in l.iter().filter(|t| t.kind == Kind::Sell) {
        if l.iter().any(|b| b.kind == Kind::Buy && b.ticker == s.ticker && (b.date - s.date).num_days() == 31) { ctx.ev.count("buy-at-gap-31"); }
    }
}

pub fn contention(out: &[RMatchT]) -> bool {
    // one acquisition date used by ≥ 2 disposals, or by a 30-day leg and a same-day leg
    out.iter().any(|t| {
        let mut acqs: Vec<(NaiveDate, NaiveDate)> = t.legs.iter().filter_map(|x| x.acq.map(|a| (a, x.sell_date))).collect();
        acqs.sort();
        acqs.dedup();
        acqs.windows(2).any(|w| w[0].0 == w[1].0)
    })
}

pub fn run(ctx: &mut Ctx) {
    let prop = "C01";
    let cfg = GenCfg::standard();
    let n = ctx.n(800, 60_000);
    let cases = matcher_cases(prop, ctx, &cfg, n);
    ctx.ev.rule = "corpus + repo fixtures + generated ledgers (1–3 securities, 2–14 lines, offsets 0,1,2,5,10,29,30,31,32 around month ends/leap days/5–6 April, fees, fractional quantities, exact split ratios, cost events, every third a contention shape: k earlier disposals × a later purchase with/without its own same-day sale × split between). Correspondence: every leg (rule, quantity, acquisition date exactly; cost, proceeds, gain to 1e-15) and pools, implementation vs Lean model of the code. Oracle: implementation vs the independent Spec (legs per rule and acquisition date; costs, proceeds, gain for securities without cost events). Non-trivial = accepted ledger with contention (one acquisition date used by ≥ 2 disposals or by a 30-day and a same-day leg) or a disposal spread over ≥ 2 rules; distinct by ledger text.".into();
    let mut cli_left: u32 = if ctx.tier == Tier::Quick { 8 } else { 80 };
    for (name, l) in cases {
        if cli_left > 0 && well_formed(&l) && l.len() >= 3 { cli_left -= 1; cli_crosscheck(ctx, prop, &l, None); }
        ctx.ev.evaluations += 1;
        let imp = run_impl::impl_match(&l);
        let msd = multi_sell_day(&l);
        let mut p = Proj::full();
        if msd { p.legs_exact = false; }
        match &imp {
            Ok(out) => {
                ctx.ev.count("accepted");
                gap_stats(ctx, &l, out);
                if contention(out) { ctx.ev.count("contention"); }
                if contention(out) || super::c02::nontrivial(&l, out) { ctx.ev.nontrivial.insert(ledger::dsl(&l)); }
            }
            Err(e) => {
                ctx.ev.count(&format!("rejected:{}", e.kind));
                if e.kind == "panic" { ctx.ev.violation("crash", format!("panic: {}", e.detail), replay_text(prop, "crash", &e.detail, &l, &[format!("case {name}")])); }
            }
        }
        let Some(m) = ctx.model.as_mut() else { continue };
        // oracle: Spec
        if let Ok(out) = &imp {
            match parse_spec(&m.ask(&format!("spec {}", ledger::wire(&l)))) {
                Err(e) => ctx.ev.violation("correspondence", format!("driver: {e}"), replay_text(prop, "driver", &e, &l, &[])),
                Ok(spec) => {
                    if let Some(what) = oracle(&l, out, &spec) {
                        let mut f = |c: &Ledger| {
                            let Ok(o) = run_impl::impl_match(c) else { return false };
                            match parse_spec(&m.ask(&format!("spec {}", ledger::wire(c)))) { Ok(s) => oracle(c, &o, &s).is_some(), Err(_) => false }
                        };
                        let small = ledger::shrink(&l, &mut f);
                        let what2 = match (run_impl::impl_match(&small), parse_spec(&m.ask(&format!("spec {}", ledger::wire(&small))))) { (Ok(o), Ok(s)) => oracle(&small, &o, &s).unwrap_or(what.clone()), _ => what.clone() };
                        ctx.ev.violation("oracle", what2.clone(), replay_text(prop, "oracle (implementation vs independent evaluation of s105(1)/s106A/s104)", &what2, &small, &[format!("case {name}")]));
                    }
                }
            }
        }
        // correspondence: model of the code
        match run_impl::model_match(m, &l) {
            Err(e) => ctx.ev.violation("correspondence", format!("driver: {e}"), replay_text(prop, "correspondence", &e, &l, &[])),
            Ok(mo) => {
                ctx.ev.traces_validated += 1;
                if let Some(what) = rep::diff_match(&imp, &mo, &p) {
                    let mut f = |c: &Ledger| {
                        let i = run_impl::impl_match(c);
                        let mut pp = Proj::full();
                        if multi_sell_day(c) { pp.legs_exact = false; }
                        match run_impl::model_match(m, c) { Ok(mo) => rep::diff_match(&i, &mo, &pp).is_some(), Err(_) => false }
                    };
                    let small = ledger::shrink(&l, &mut f);
                    ctx.ev.violation("correspondence", what.clone(), replay_text(prop, "correspondence (implementation vs Lean model of the matcher, every leg)", &what, &small, &[format!("case {name}")]));
                }
                // the model of the code against the Spec as well (the unproved half of run_eq_spec)
                if let (Ok(mout), Ok(spec)) = (&mo, parse_spec(&m.ask(&format!("spec {}", ledger::wire(&l))))) {
                    if let Some(what) = oracle(&l, mout, &spec) {
                        ctx.ev.count("model-vs-spec-disagreements");
                        ctx.ev.notes.push(format!("model vs Spec on {name}: {what}"));
                    }
                }
            }
        }
        if ctx.ev.samples.len() < 3 && imp.is_ok() && l.len() >= 5 {
            ctx.ev.sample(json!({"case": name, "ledger": ledger::dsl(&l).lines().collect::<Vec<_>>()}));
        }
    }
}
